(* Component `lowerbool`: semantic correctness of the model of bool_expr_branch / eval_expr on int
   operands / truth_is_defeat (LowerBoolModel) on the Turing-jump machine, for ALL expression trees
   of F_model (unbounded depth): comparisons of int operands (literals, locals, + - *, unary - +),
   bool literals, bool locals, not, and, or; every word size w >= 2, arbitrary surrounding code,
   arbitrary straight-line continuations with or without a final goto.

   Structure
     A  placement of abstract lines in an abstract code memory (`placed`), continuations
     B  freshness of the allocated labels; two-pass resolution yields a placement
     C  source semantics (sval, beval), memory effect (eval_mem, run_mem), frame conditions
        (regs_ok, room_ok, agree lo hi: only r0, r1 and the temporaries' area [lo, hi) change)
     D  the lowered code on the machine:
          pop_props, pair_props, eval_opd_props   operands with the keep / push / pop discipline
          lower_runs                              induction over the boolean tree (idiom theorems of
                                                  Idioms.v with the table entries of GenTables.v)
          value_runs, bool_value_runs             boolean values
          defeat_static_runs, defeat_virtual_*    truth_is_defeat
     E  the theorems stated on `resolve`d code: arith_lowering_correct, branch_lowering_correct
        (goto/goto), if_block_lowering_correct (fall-through/goto else), value_lowering_correct
        (set 1/set 0), truth_is_defeat_correct, three_lowerings_agree; eval_opd_stores
        (temps_needed is exact)
     F  satisfiability examples *)
From Coq Require Import ZArith List Bool Lia.
From HidV Require Import Machine Halts WordLemmas MemLemmas GenTables OpTables Idioms TimeTravel LowerBoolModel.
Import ListNotations.
Open Scope Z_scope.
Ltac Zify.zify_post_hook ::= Z.to_euclidean_division_equations.

(* ================================================================================= *)
(* A  sizes, placement, continuations                                                 *)
(* ================================================================================= *)
Lemma size_app a b : size (a ++ b) = size a + size b.
Proof. induction a as [|[x|i] r IH]; cbn [app size]; lia. Qed.
Lemma size_nonneg l : 0 <= size l.
Proof. induction l as [|[x|i] r IH]; cbn [size]; lia. Qed.
Lemma size_goto l : size (goto l) = 2.
Proof. reflexivity. Qed.
Lemma size_map_instr pre : size (map AInstr pre) = Z.of_nat (length pre).
Proof. induction pre as [|i r IH]; cbn [map size length]; lia. Qed.

(* a continuation in the shape the theorems cover: straight-line instructions, then either a
   goto or nothing (fall through) *)
Definition kl (pre : list ains) (g : option label) : list aline :=
  map AInstr pre ++ match g with Some L => goto L | None => [] end.
(* instructions that neither halt nor jump *)
Definition simple (i : ains) : bool :=
  match i with AJump _ | AHaltI | AHc _ _ _ | ALbs _ _ | AYield _ | ASbs _ _ => false | _ => true end.

Lemma last2_app2 {A} (x : list A) (a b : A) : last2 (x ++ [a; b]) = [a; b].
Proof.
  unfold last2. rewrite app_length. cbn [length].
  replace (length x + 2 - 2)%nat with (length x) by lia.
  rewrite skipn_app, skipn_all, Nat.sub_diag. reflexivity.
Qed.
Lemma ends_goto_kl_some pre L : ends_goto (kl pre (Some L)) = true.
Proof. unfold ends_goto, kl, goto. rewrite last2_app2. reflexivity. Qed.
Lemma ends_goto_in l : ends_goto l = true -> In (AInstr AHaltI) l.
Proof.
  unfold ends_goto, last2. intros H.
  rewrite <- (firstn_skipn (length l - 2) l). apply in_or_app. right.
  destruct (skipn (length l - 2) l) as [|x [|y [|z s]]]; cbn in H; try discriminate.
  - destruct x as [|[]]; discriminate.
  - destruct x as [|[]]; try discriminate. destruct y as [|[]]; try discriminate.
    right. left. reflexivity.
  - destruct x as [|[]]; try discriminate. destruct y as [|[]]; discriminate.
Qed.
Lemma ends_goto_kl_none pre : forallb simple pre = true -> ends_goto (kl pre None) = false.
Proof.
  intros S. destruct (ends_goto (kl pre None)) eqn:G; [|reflexivity]. exfalso.
  apply ends_goto_in in G. unfold kl in G. rewrite app_nil_r in G.
  apply in_map_iff in G. destruct G as [i [Ei Hi]]. inversion Ei; subst.
  rewrite forallb_forall in S. specialize (S _ Hi). discriminate.
Qed.
Lemma kl_none_goto pre L : kl pre None ++ goto L = kl pre (Some L).
Proof. unfold kl. now rewrite app_nil_r. Qed.

Section Place.
Variable R : regmap.
Variable lab : label -> Z.
Variable code : Z -> option instr.

(* the lines l sit at address p: every instruction is in the code memory, resolved under lab,
   and every label defined in l resolves to the address it stands at *)
Fixpoint placed (l : list aline) (p : Z) : Prop :=
  match l with
  | [] => True
  | ALabel x :: r => lab x = p /\ placed r p
  | AInstr i :: r => code p = Some (res_ins R lab i) /\ placed r (p + 1)
  end.
Lemma placed_app a : forall b p, placed (a ++ b) p <-> placed a p /\ placed b (p + size a).
Proof.
  induction a as [|[x|i] r IH]; intros b p; cbn [app placed size].
  - replace (p + 0) with p by lia. tauto.
  - rewrite IH. tauto.
  - rewrite IH. replace (p + 1 + size r) with (p + (1 + size r)) by lia. tauto.
Qed.
End Place.

(* ================================================================================= *)
(* B  label freshness, resolution                                                      *)
(* ================================================================================= *)
Fixpoint deflabels (l : list aline) : list label :=
  match l with [] => [] | ALabel x :: r => x :: deflabels r | AInstr _ :: r => deflabels r end.
Lemma deflabels_app a b : deflabels (a ++ b) = deflabels a ++ deflabels b.
Proof. induction a as [|[x|i] r IH]; cbn [app deflabels]; [reflexivity | now rewrite IH | exact IH]. Qed.
Lemma deflabels_goto l : deflabels (goto l) = [].
Proof. reflexivity. Qed.
Lemma deflabels_labdefs l : forall p, map fst (labdefs l p) = deflabels l.
Proof. induction l as [|[x|i] r IH]; intros p; cbn [labdefs deflabels map fst]; [reflexivity | now rewrite IH | apply IH]. Qed.

Lemma lname_eqb_eq a b : lname_eqb a b = true <-> a = b.
Proof.
  destruct a, b; cbn; split; intro H; try reflexivity; try discriminate.
  - apply Nat.eqb_eq in H. now subst.
  - inversion H. apply Nat.eqb_refl.
Qed.
Lemma lname_eqb_refl a : lname_eqb a a = true.
Proof. now apply lname_eqb_eq. Qed.
Lemma label_eqb_eq a b : label_eqb a b = true <-> a = b.
Proof.
  destruct a as [a n], b as [b k]. unfold label_eqb; cbn [fst snd]. rewrite andb_true_iff, lname_eqb_eq, Nat.eqb_eq.
  split; [intros [-> ->]; reflexivity | intros H; inversion H; auto].
Qed.

Lemma NoDup_app_intro {A} (a b : list A) :
  NoDup a -> NoDup b -> (forall x, In x a -> In x b -> False) -> NoDup (a ++ b).
Proof.
  induction a as [|x r IH]; intros Da Db S; cbn [app]; [exact Db|].
  inversion Da; subst. constructor.
  - intro I. apply in_app_or in I. destruct I as [I|I]; [contradiction | eapply S; [left; reflexivity | exact I]].
  - apply IH; [assumption | assumption | intros y I1 I2; eapply S; [right; exact I1 | exact I2]].
Qed.

(* a label is below a state: it was allocated before (or belongs to another name space) *)
Definition below (st : lstate) (x : label) : Prop := (snd x < st (fst x))%nat.
Definition st_le (a b : lstate) : Prop := forall n, (a n <= b n)%nat.
Definition between (a b : lstate) (x : label) : Prop := (a (fst x) <= snd x < b (fst x))%nat.

Lemma add_label_le nm st : st_le st (snd (add_label nm st)).
Proof. intros n; cbn. destruct (lname_eqb n nm) eqn:E; [apply lname_eqb_eq in E; subst|]; lia. Qed.
Lemma add_label_between nm st : between st (snd (add_label nm st)) (fst (add_label nm st)).
Proof. unfold between; cbn. rewrite lname_eqb_refl. lia. Qed.
Lemma st_le_trans a b c : st_le a b -> st_le b c -> st_le a c.
Proof. intros H1 H2 n. specialize (H1 n). specialize (H2 n). lia. Qed.
Lemma between_weaken a b a' b' x : st_le a' a -> st_le b b' -> between a b x -> between a' b' x.
Proof. unfold between. intros H1 H2 H. specialize (H1 (fst x)). specialize (H2 (fst x)). lia. Qed.

Ltac defl := repeat progress (rewrite ?deflabels_app; cbn [deflabels app]).

Lemma pop_value_nolabels r b : deflabels (fst (pop_value r b)) = [].
Proof. destruct b as [|[]| | | |]; reflexivity. Qed.
Lemma finish_opd_nolabels E top r keep code :
  deflabels code = [] -> deflabels (fst (finish_opd E top r keep code)) = [].
Proof. intros H. unfold finish_opd. destruct keep; cbn [fst]; defl; rewrite H; reflexivity. Qed.
Lemma eval_opd_nolabels E o : forall top r keep, deflabels (fst (eval_opd E top r o keep)) = [].
Proof.
  induction o as [ch z|i|op x IHx y IHy|u x IHx|g|tx IHt|yj]; intros top r keep; try reflexivity.
  - cbn [eval_opd].
    specialize (IHx top R0 (negb (is_safe y))). destruct (eval_opd E top R0 x (negb (is_safe y))) as [c1 lb].
    specialize (IHy (top_after top lb) R1 false). destruct (eval_opd E (top_after top lb) R1 y false) as [c2 rb].
    pose proof (pop_value_nolabels R1 rb) as P1. destruct (pop_value R1 rb) as [c2' rhs].
    pose proof (pop_value_nolabels R0 lb) as P0. destruct (pop_value R0 lb) as [c3 lhs].
    cbn [fst] in *. apply finish_opd_nolabels. defl. rewrite IHx, IHy, P1, P0. reflexivity.
  - cbn [eval_opd].
    specialize (IHx top r false). destruct (eval_opd E top r x false) as [c b].
    pose proof (pop_value_nolabels r b) as P. destruct (pop_value r b) as [c' v].
    cbn [fst] in *. apply finish_opd_nolabels. defl. rewrite IHx, P.
    destruct u; [reflexivity | destruct (is_state_of r v); reflexivity].
  - cbn [eval_opd]. destruct keep; reflexivity.
  - cbn [eval_opd]. specialize (IHt top r keep). destruct (eval_opd E top r tx keep) as [c b]. exact IHt.
Qed.
Lemma compare_operands_nolabels E a b : deflabels (fst (fst (compare_operands E a b))) = [].
Proof.
  unfold compare_operands.
  pose proof (eval_opd_nolabels E a (stack_top E) R0 (negb (is_safe b))) as H1.
  destruct (eval_opd E (stack_top E) R0 a (negb (is_safe b))) as [c1 lb].
  pose proof (eval_opd_nolabels E b (top_after (stack_top E) lb) R1 false) as H2.
  destruct (eval_opd E (top_after (stack_top E) lb) R1 b false) as [c2 rb].
  pose proof (pop_value_nolabels R1 rb) as P1. destruct (pop_value R1 rb) as [c2' rhs].
  pose proof (pop_value_nolabels R0 lb) as P0. destruct (pop_value R0 lb) as [c3 lhs].
  cbn [fst] in *. defl. rewrite H1, H2, P1, P0. reflexivity.
Qed.

(* what lower_branch defines: fresh labels only, each once *)
Lemma lower_branch_defs E e : forall kt kf st C st',
  lower_branch E e kt kf st = (C, st') ->
  deflabels kt = [] -> deflabels kf = [] ->
  st_le st st' /\ Forall (between st st') (deflabels C) /\ NoDup (deflabels C).
Proof.
  induction e as [b|j|op a b|e IH|e1 IH1 e2 IH2|e1 IH1 e2 IH2]; intros kt kf st C st' L Nt Nf.
  - (* BLit *) cbn in L. inversion L; subst. split; [intros n; lia|].
    destruct b; rewrite ?Nt, ?Nf; split; constructor.
  - (* BVar *)
    cbn [lower_branch] in L.
    pose proof (add_label_le LIsTrue st) as M1. pose proof (add_label_between LIsTrue st) as B1.
    destruct (add_label LIsTrue st) as [it st1] eqn:A1. cbn [fst snd] in M1, B1.
    pose proof (add_label_le LBoolEnd st1) as M2. pose proof (add_label_between LBoolEnd st1) as B2.
    destruct (add_label LBoolEnd st1) as [be st2] eqn:A2. cbn [fst snd] in M2, B2.
    inversion L; subst C st'; clear L.
    assert (Nm : it <> be) by (inversion A1; inversion A2; subst; intro X; inversion X).
    split; [eapply st_le_trans; eauto|].
    assert (Ld : forall r0', deflabels (load_bool E R1 j :: r0') = deflabels r0') by (intros; destruct j; reflexivity).
    rewrite Ld. defl. rewrite Nt, Nf.
    assert (Bi : between st st2 it) by (eapply between_weaken; [| |exact B1]; [intros n; lia | exact M2]).
    assert (Bb : between st st2 be) by (eapply between_weaken; [| |exact B2]; [exact M1 | intros n; lia]).
    destruct (ends_goto kf); cbn [deflabels app goto]; split.
    + constructor; [exact Bi | constructor].
    + constructor; [intros [] | constructor].
    + constructor; [exact Bi | constructor; [exact Bb | constructor]].
    + constructor; [intros [X|[]]; apply Nm; auto | constructor; [intros [] | constructor]].
  - (* BCmp *)
    cbn [lower_branch] in L.
    pose proof (add_label_le LCompareIsTrue st) as M1. pose proof (add_label_between LCompareIsTrue st) as B1.
    destruct (add_label LCompareIsTrue st) as [it st1] eqn:A1. cbn [fst snd] in M1, B1.
    pose proof (add_label_le LCompareEnd st1) as M2. pose proof (add_label_between LCompareEnd st1) as B2.
    destruct (add_label LCompareEnd st1) as [be st2] eqn:A2. cbn [fst snd] in M2, B2.
    pose proof (compare_operands_nolabels E a b) as Dc.
    destruct (compare_operands E a b) as [[co lhs] rhs]. cbn [fst] in Dc.
    inversion L; subst C st'; clear L.
    assert (Nm : it <> be) by (inversion A1; inversion A2; subst; intro X; inversion X).
    split; [eapply st_le_trans; eauto|].
    defl. rewrite Nt, Nf, Dc. cbn [app].
    assert (Bi : between st st2 it) by (eapply between_weaken; [| |exact B1]; [intros n; lia | exact M2]).
    assert (Bb : between st st2 be) by (eapply between_weaken; [| |exact B2]; [exact M1 | intros n; lia]).
    destruct (ends_goto kf); cbn [deflabels app goto]; split.
    + constructor; [exact Bi | constructor].
    + constructor; [intros [] | constructor].
    + constructor; [exact Bi | constructor; [exact Bb | constructor]].
    + constructor; [intros [X|[]]; apply Nm; auto | constructor; [intros [] | constructor]].
  - (* BNot *) cbn [lower_branch] in L. eapply IH; eauto.
  - (* BAnd *)
    cbn [lower_branch] in L.
    pose proof (add_label_le LLeftIsTrue st) as M1. pose proof (add_label_between LLeftIsTrue st) as B1.
    destruct (add_label LLeftIsTrue st) as [lt st1] eqn:A1. cbn [fst snd] in M1, B1.
    pose proof (add_label_le LAndEnd st1) as M2. pose proof (add_label_between LAndEnd st1) as B2.
    destruct (add_label LAndEnd st1) as [ae st2] eqn:A2. cbn [fst snd] in M2, B2.
    destruct (lower_branch E e1 (goto lt) (if ends_goto kf then kf else kf ++ goto ae) st2) as [c1 st3] eqn:L1.
    destruct (lower_branch E e2 kt kf st3) as [c2 st4] eqn:L2.
    inversion L; subst C st'; clear L.
    apply IH1 in L1; [|reflexivity | destruct (ends_goto kf); [exact Nf | rewrite deflabels_app, Nf; reflexivity]].
    apply IH2 in L2; [|exact Nt | exact Nf].
    destruct L1 as [M3 [F1 D1]]. destruct L2 as [M4 [F2 D2]].
    assert (Nm : lt <> ae) by (inversion A1; inversion A2; subst; intro X; inversion X).
    assert (M02 : st_le st st2) by (eapply st_le_trans; eauto).
    assert (M24 : st_le st2 st4) by (eapply st_le_trans; eauto).
    split; [eapply st_le_trans; eauto|].
    assert (Bl : between st st2 lt) by (eapply between_weaken; [| |exact B1]; [intros n; lia | exact M2]).
    assert (Ba : between st st2 ae) by (eapply between_weaken; [| |exact B2]; [exact M1 | intros n; lia]).
    assert (F1' : Forall (between st st4) (deflabels c1)).
    { eapply Forall_impl; [|exact F1]. intros x. apply between_weaken; [exact M02 | exact M4]. }
    assert (F2' : Forall (between st st4) (deflabels c2)).
    { eapply Forall_impl; [|exact F2]. intros x. apply between_weaken; [eapply st_le_trans; eauto | intros n; lia]. }
    (* separation facts *)
    assert (S12 : forall x, In x (deflabels c1) -> In x (deflabels c2) -> False).
    { intros x I1 I2. rewrite Forall_forall in F1, F2. specialize (F1 _ I1). specialize (F2 _ I2).
      unfold between in *. lia. }
    assert (Sn1 : forall y, between st st2 y -> In y (deflabels c1) -> False).
    { intros y By I1. rewrite Forall_forall in F1. specialize (F1 _ I1). unfold between in *. lia. }
    assert (Sn2 : forall y, between st st2 y -> In y (deflabels c2) -> False).
    { intros y By I2. rewrite Forall_forall in F2. specialize (F2 _ I2). specialize (M3 (fst y)). unfold between in *. lia. }
    assert (Bl4 : between st st4 lt) by (eapply between_weaken; [| |exact Bl]; [intros n; lia | exact M24]).
    assert (Ba4 : between st st4 ae) by (eapply between_weaken; [| |exact Ba]; [intros n; lia | exact M24]).
    defl.
    destruct (ends_goto kf); cbn [deflabels app]; split.
    + apply Forall_app; split; [exact F1'|]. constructor; [exact Bl4|]. rewrite app_nil_r. exact F2'.
    + rewrite app_nil_r. apply NoDup_app_intro; [exact D1 | | ].
      * constructor; [intro I; exact (Sn2 _ Bl I) | exact D2].
      * intros x I1 [X|I2]; [subst; exact (Sn1 _ Bl I1) | exact (S12 _ I1 I2)].
    + apply Forall_app; split; [exact F1'|]. constructor; [exact Bl4|].
      apply Forall_app; split; [exact F2' | constructor; [exact Ba4 | constructor]].
    + apply NoDup_app_intro; [exact D1 | | ].
      * constructor.
        -- intro I. apply in_app_or in I. destruct I as [I|[X|[]]]; [exact (Sn2 _ Bl I) | congruence].
        -- apply NoDup_app_intro; [exact D2 | constructor; [intros [] | constructor] |].
           intros x I2 [X|[]]. subst. exact (Sn2 _ Ba I2).
      * intros x I1 [X|I2]; [subst; exact (Sn1 _ Bl I1)|].
        apply in_app_or in I2. destruct I2 as [I2|[X|[]]]; [exact (S12 _ I1 I2) | subst; exact (Sn1 _ Ba I1)].
  - (* BOr *)
    cbn [lower_branch] in L.
    pose proof (add_label_le LLeftIsFalse st) as M1. pose proof (add_label_between LLeftIsFalse st) as B1.
    destruct (add_label LLeftIsFalse st) as [lt st1] eqn:A1. cbn [fst snd] in M1, B1.
    pose proof (add_label_le LOrEnd st1) as M2. pose proof (add_label_between LOrEnd st1) as B2.
    destruct (add_label LOrEnd st1) as [ae st2] eqn:A2. cbn [fst snd] in M2, B2.
    destruct (lower_branch E e1 (if ends_goto kt then kt else kt ++ goto ae) (goto lt) st2) as [c1 st3] eqn:L1.
    destruct (lower_branch E e2 kt kf st3) as [c2 st4] eqn:L2.
    inversion L; subst C st'; clear L.
    apply IH1 in L1; [| destruct (ends_goto kt); [exact Nt | rewrite deflabels_app, Nt; reflexivity] | reflexivity].
    apply IH2 in L2; [|exact Nt | exact Nf].
    destruct L1 as [M3 [F1 D1]]. destruct L2 as [M4 [F2 D2]].
    assert (Nm : lt <> ae) by (inversion A1; inversion A2; subst; intro X; inversion X).
    assert (M02 : st_le st st2) by (eapply st_le_trans; eauto).
    assert (M24 : st_le st2 st4) by (eapply st_le_trans; eauto).
    split; [eapply st_le_trans; eauto|].
    assert (Bl : between st st2 lt) by (eapply between_weaken; [| |exact B1]; [intros n; lia | exact M2]).
    assert (Ba : between st st2 ae) by (eapply between_weaken; [| |exact B2]; [exact M1 | intros n; lia]).
    assert (F1' : Forall (between st st4) (deflabels c1)).
    { eapply Forall_impl; [|exact F1]. intros x. apply between_weaken; [exact M02 | exact M4]. }
    assert (F2' : Forall (between st st4) (deflabels c2)).
    { eapply Forall_impl; [|exact F2]. intros x. apply between_weaken; [eapply st_le_trans; eauto | intros n; lia]. }
    assert (S12 : forall x, In x (deflabels c1) -> In x (deflabels c2) -> False).
    { intros x I1 I2. rewrite Forall_forall in F1, F2. specialize (F1 _ I1). specialize (F2 _ I2).
      unfold between in *. lia. }
    assert (Sn1 : forall y, between st st2 y -> In y (deflabels c1) -> False).
    { intros y By I1. rewrite Forall_forall in F1. specialize (F1 _ I1). unfold between in *. lia. }
    assert (Sn2 : forall y, between st st2 y -> In y (deflabels c2) -> False).
    { intros y By I2. rewrite Forall_forall in F2. specialize (F2 _ I2). specialize (M3 (fst y)). unfold between in *. lia. }
    assert (Bl4 : between st st4 lt) by (eapply between_weaken; [| |exact Bl]; [intros n; lia | exact M24]).
    assert (Ba4 : between st st4 ae) by (eapply between_weaken; [| |exact Ba]; [intros n; lia | exact M24]).
    defl.
    destruct (ends_goto kt); cbn [deflabels app]; split.
    + apply Forall_app; split; [exact F1'|]. constructor; [exact Bl4|]. rewrite app_nil_r. exact F2'.
    + rewrite app_nil_r. apply NoDup_app_intro; [exact D1 | | ].
      * constructor; [intro I; exact (Sn2 _ Bl I) | exact D2].
      * intros x I1 [X|I2]; [subst; exact (Sn1 _ Bl I1) | exact (S12 _ I1 I2)].
    + apply Forall_app; split; [exact F1'|]. constructor; [exact Bl4|].
      apply Forall_app; split; [exact F2' | constructor; [exact Ba4 | constructor]].
    + apply NoDup_app_intro; [exact D1 | | ].
      * constructor.
        -- intro I. apply in_app_or in I. destruct I as [I|[X|[]]]; [exact (Sn2 _ Bl I) | congruence].
        -- apply NoDup_app_intro; [exact D2 | constructor; [intros [] | constructor] |].
           intros x I2 [X|[]]. subst. exact (Sn2 _ Ba I2).
      * intros x I1 [X|I2]; [subst; exact (Sn1 _ Bl I1)|].
        apply in_app_or in I2. destruct I2 as [I2|[X|[]]]; [exact (S12 _ I1 I2) | subst; exact (Sn1 _ Ba I1)].
Qed.

(* ---------- resolution yields a placement ---------- *)
Definition code_at (code : Z -> option instr) (B : Z) (l : list instr) : Prop :=
  forall k i, nth_error l k = Some i -> code (B + Z.of_nat k) = Some i.

Lemma lookup_nodup d ext : NoDup (map fst d) -> forall x q, In (x, q) d -> lookup d ext x = q.
Proof.
  unfold lookup. induction d as [|[y r] d IH]; intros D x q I; [contradiction|].
  cbn [map fst] in D. inversion D as [|? ? Ny Dd]; subst. cbn [find fst].
  destruct (label_eqb y x) eqn:Eq.
  - apply label_eqb_eq in Eq. subst y. destruct I as [I|I]; [inversion I; reflexivity|].
    exfalso. apply Ny. apply in_map_iff. exists (x, q). auto.
  - destruct I as [I|I]; [inversion I; subst; rewrite (proj2 (label_eqb_eq x x) eq_refl) in Eq; discriminate|].
    apply IH; assumption.
Qed.
Lemma lookup_notin d ext x : ~ In x (map fst d) -> lookup d ext x = ext x.
Proof.
  unfold lookup. induction d as [|[y r] d IH]; intros N; [reflexivity|].
  cbn [find fst]. destruct (label_eqb y x) eqn:Eq.
  - apply label_eqb_eq in Eq. subst. exfalso. apply N. left. reflexivity.
  - apply IH. intro I. apply N. right. exact I.
Qed.
Lemma labdefs_range l : forall p x q, In (x, q) (labdefs l p) -> p <= q <= p + size l.
Proof.
  induction l as [|[y|i] r IH]; intros p x q I; cbn [labdefs size] in *; [contradiction| |].
  - destruct I as [I|I]; [inversion I; subst; pose proof (size_nonneg r); lia | eauto].
  - apply IH in I. lia.
Qed.

Lemma instrs_placed R lab code l : forall B,
  code_at code B (instrs R lab l) ->
  (forall x q, In (x, q) (labdefs l B) -> lab x = q) ->
  placed R lab code l B.
Proof.
  induction l as [|[y|i] r IH]; intros B C D; cbn [placed instrs labdefs] in *; [exact I | |].
  - split; [apply D; left; reflexivity|]. apply IH; [exact C|]. intros x q H. apply D. right. exact H.
  - split.
    + specialize (C O _ eq_refl). replace (B + Z.of_nat 0) with B in C by lia. exact C.
    + apply IH; [|exact D]. intros k j H. specialize (C (S k) j H).
      replace (B + 1 + Z.of_nat k) with (B + Z.of_nat (S k)) by lia. exact C.
Qed.

(* the label environment computed by resolve *)
Definition labenv (ext : label -> Z) (B : Z) (l : list aline) : label -> Z := lookup (labdefs l B) ext.
Lemma resolve_placed R ext code B l :
  NoDup (deflabels l) -> code_at code B (resolve R ext B l) -> placed R (labenv ext B l) code l B.
Proof.
  intros D C. apply instrs_placed; [exact C|]. intros x q I.
  apply lookup_nodup; [rewrite deflabels_labdefs; exact D | exact I].
Qed.
Lemma labenv_range ext B l Wd :
  (forall x, 0 <= ext x < Wd) -> 0 <= B -> B + size l < Wd -> forall x, 0 <= labenv ext B l x < Wd.
Proof.
  intros He HB Hs x. unfold labenv, lookup.
  destruct (find (fun e => label_eqb (fst e) x) (labdefs l B)) as [[y q]|] eqn:F; [|apply He].
  apply find_some in F. destruct F as [I _]. apply labdefs_range in I. cbn [snd]. lia.
Qed.
Lemma labenv_ext ext B l x : ~ In x (deflabels l) -> labenv ext B l x = ext x.
Proof. intros N. apply lookup_notin. rewrite deflabels_labdefs. exact N. Qed.

(* ================================================================================= *)
(* C  source semantics, memory effect, frame conditions                               *)
(* ================================================================================= *)
(* the bubble eval_opd returns, in closed form *)
Fixpoint bub_of (E : env) (top : Z) (rg : reg) (o : iopd) (keep : bool) : bubble :=
  match o with
  | OTrunc x => to_byte (bub_of E top rg x keep)
  | OLit ch z => BuImm ch z
  | OVar i => BuLocal false (int_off E i)
  | OByte v => BuLocal true (byte_off E v)
  | OGlob g => if keep then BuPushed (top + wsize E) else BuReg (RGlob g)
  | _ => if keep then BuPushed (top + wsize E) else BuReg rg
  end.
Lemma eval_opd_bub E o top rg keep : snd (eval_opd E top rg o keep) = bub_of E top rg o keep.
Proof.
  revert top rg keep. induction o as [ch z|i|op x _ y _|u x _|g|tx IHt|yj]; intros top rg keep; try reflexivity; cbn [eval_opd bub_of].
  - destruct (eval_opd E top R0 x (negb (is_safe y))) as [c1 lb].
    destruct (eval_opd E (top_after top lb) R1 y false) as [c2 rb].
    destruct (pop_value R1 rb) as [c2' rhs]. destruct (pop_value R0 lb) as [c3 lhs].
    unfold finish_opd. destruct keep; reflexivity.
  - destruct (eval_opd E top rg x false) as [c b]. destruct (pop_value rg b) as [c' v].
    unfold finish_opd. destruct keep; reflexivity.
  - destruct keep; reflexivity.
  - rewrite <- IHt. destruct (eval_opd E top rg tx keep) as [c b]. reflexivity.
Qed.
Lemma top_after_to_byte top b : top_after top (to_byte b) = top_after top b.
Proof. destruct b; reflexivity. Qed.
Lemma top_after_bub E top rg o keep :
  top_after top (bub_of E top rg o keep) = top + Z.of_nat (pushed o keep) * wsize E.
Proof.
  unfold pushed. induction o as [ch z|i|op x _ y _|u x _|g|tx IHt|yj];
    try (destruct keep; cbn [bub_of top_after is_safe is_vac is_glob andb negb orb]; change (Z.of_nat 0) with 0; change (Z.of_nat 1) with 1; lia).
  cbn [bub_of is_vac]. rewrite top_after_to_byte. exact IHt.
Qed.
Lemma room_le (a b : nat) (wd X : Z) : 0 <= wd -> (a <= b)%nat -> Z.of_nat b * wd <= X -> Z.of_nat a * wd <= X.
Proof. intros Hw L H. assert (Z.of_nat a * wd <= Z.of_nat b * wd) by (apply Z.mul_le_mono_nonneg_r; lia). lia. Qed.

Section Sem.
Variable w : Z.
Variable R : regmap.
Variable E : env.
Variable lo : Z.                         (* lowest address the pushed temporaries may occupy *)
Notation W := (Machine.W w).
Notation wrap := (Machine.wrap w).
Notation sgn := (Machine.sgn w).
Notation lw := (Machine.lw w).
Notation sw := (Machine.sw w).
Notation r0 := (a_r0 R).
Notation r1 := (a_r1 R).
Notation r2 := (a_r2 R).
Notation fp := (a_fp R).
Notation ra := (regaddr R).

(* the frame pointer *)
Definition FP (m : mem) : Z := lw m fp.
(* SOURCE SEMANTICS.  An int local is the word at [fp] - offset read as a signed number, a
   literal is itself, + - * and unary - wrap to the word size (two's complement); a bool local
   is true iff its byte is non-zero; comparisons are signed; and/or/not are the boolean
   connectives (short-circuiting is invisible in the VALUE because operands have no side
   effects; it is visible in `run_mem` below). *)
Fixpoint sval (m : mem) (o : iopd) : Z :=
  match o with
  | OLit _ z => z
  | OVar i => sgn (lw m (FP m - int_off E i))
  | OArith op x y => sgn (wrap (arith_sem op (sval m x) (sval m y)))
  | OUn UNeg x => sgn (wrap (- sval m x))
  | OUn UPos x => sval m x
  | OGlob g => sgn (lw m (a_glob R g))
  | OByte v => lb m (FP m - byte_off E v)
  | OTrunc x => sval m x mod 256
  end.
Definition bval (m : mem) (v : bloc) : Z :=
  match v with BLocal j => lb m (FP m - bool_off E j) | BGlobal h => lb m (a_bglob R h) end.
Fixpoint beval (m : mem) (e : bexpr) : bool :=
  match e with
  | BLit b => b
  | BVar j => negb (bval m j =? 0)
  | BCmp op a b => cmp_sem op (sval m a) (sval m b)
  | BNot e1 => negb (beval m e1)
  | BAnd e1 e2 => beval m e1 && beval m e2
  | BOr e1 e2 => beval m e1 || beval m e2
  end.
(* the value as a machine word: ⟦o⟧ mod 2^(8w) *)
Fixpoint wval (m : mem) (o : iopd) : Z :=
  match o with
  | OLit _ z => wrap z
  | OVar i => lw m (FP m - int_off E i)
  | OArith op x y => wrap (arith_sem op (sval m x) (sval m y))
  | OUn UNeg x => wrap (- sval m x)
  | OUn UPos x => wrap (sval m x)
  | OGlob g => lw m (a_glob R g)
  | OByte v => lb m (FP m - byte_off E v)
  | OTrunc x => wval m x mod 256
  end.

(* MEMORY EFFECT of the lowered operand code, as a function (mirrors eval_opd) *)
Definition pop_mem (r : reg) (b : bubble) (m : mem) : mem :=
  match b with
  | BuLocal false off | BuPushed off => sw m (ra r) (lw m (FP m - off))
  | BuLocal true off | BuPushedB off => sw m (ra r) (lb m (FP m - off))
  | BuRegB r' => sw m (ra r) (lb m (ra r'))
  | _ => m
  end.
Definition push_mem (keep : bool) (top : Z) (rg : reg) (m : mem) : mem :=
  if keep then sw m (FP m - (top + w)) (lw m (ra rg)) else m.
Fixpoint eval_mem (top : Z) (rg : reg) (o : iopd) (keep : bool) (m : mem) : mem :=
  match o with
  | OLit _ _ | OVar _ | OByte _ => m
  | OTrunc x => eval_mem top rg x keep m
  | OGlob g => if keep then sw m (FP m - (top + w)) (lw m (a_glob R g)) else m
  | OArith op x y =>
      let kx := negb (is_safe y) in
      let bx := bub_of E top R0 x kx in
      let m1 := eval_mem top R0 x kx m in
      let top1 := top_after top bx in
      let m2 := eval_mem top1 R1 y false m1 in
      let m3 := pop_mem R1 (bub_of E top1 R1 y false) m2 in
      let m4 := pop_mem R0 bx m3 in
      push_mem keep top rg (sw m4 (ra rg) (wval m (OArith op x y)))
  | OUn u x =>
      let m1 := eval_mem top rg x false m in
      let m2 := pop_mem rg (bub_of E top rg x false) m1 in
      push_mem keep top rg
        match u, x with
        | UPos, OLit _ z => sw m2 (ra rg) (wrap z)            (* mov [rg], z *)
        | UPos, OGlob g => sw m2 (ra rg) (lw m2 (a_glob R g))   (* mov [rg], [var_g] *)
        | UPos, _ => m2                                     (* already in [rg]: no instruction *)
        | UNeg, _ => sw m2 (ra rg) (wval m (OUn UNeg x))
        end
  end.
(* the operand pair of a comparison / binary operator: left into r0 (kept if the right operand is
   unsafe), right into r1, pop right, pop left *)
Definition pair_mem (top : Z) (x y : iopd) (m : mem) : mem :=
  let kx := negb (is_safe y) in
  let bx := bub_of E top R0 x kx in
  let m1 := eval_mem top R0 x kx m in
  let top1 := top_after top bx in
  let m2 := eval_mem top1 R1 y false m1 in
  let m3 := pop_mem R1 (bub_of E top1 R1 y false) m2 in
  pop_mem R0 bx m3.

(* MEMORY EFFECT of evaluating e by the lowered branch code: exactly the operand evaluations of
   the atoms that short-circuit evaluation reaches, left to right.  Atoms after the deciding one
   leave no trace. *)
Fixpoint run_mem (e : bexpr) (m : mem) : mem :=
  match e with
  | BLit _ => m
  | BVar j => sw m r1 (bval m j)
  | BCmp _ a b => pair_mem (stack_top E) a b m
  | BNot e1 => run_mem e1 m
  | BAnd e1 e2 => let m1 := run_mem e1 m in if beval m e1 then run_mem e2 m1 else m1
  | BOr e1 e2 => let m1 := run_mem e1 m in if beval m e1 then m1 else run_mem e2 m1
  end.
(* the same, as an explicit trace of evaluated atoms *)
Inductive atom := AtCmp (a b : iopd) | AtVar (j : bloc).
Fixpoint trace (m : mem) (e : bexpr) : list atom :=
  match e with
  | BLit _ => []
  | BVar j => [AtVar j]
  | BCmp _ a b => [AtCmp a b]
  | BNot e1 => trace m e1
  | BAnd e1 e2 => trace m e1 ++ (if beval m e1 then trace m e2 else [])
  | BOr e1 e2 => trace m e1 ++ (if beval m e1 then [] else trace m e2)
  end.
Definition atom_mem (m : mem) (x : atom) : mem :=
  match x with
  | AtCmp a b => pair_mem (stack_top E) a b m
  | AtVar j => sw m r1 (bval m j)
  end.
Lemma short_circuit_and m e1 e2 : beval m e1 = false ->
  trace m (BAnd e1 e2) = trace m e1 /\ run_mem (BAnd e1 e2) m = run_mem e1 m.
Proof. intros H. cbn [trace run_mem]. rewrite H. now rewrite app_nil_r. Qed.
Lemma short_circuit_or m e1 e2 : beval m e1 = true ->
  trace m (BOr e1 e2) = trace m e1 /\ run_mem (BOr e1 e2) m = run_mem e1 m.
Proof. intros H. cbn [trace run_mem]. rewrite H. now rewrite app_nil_r. Qed.

(* ---------- well-formed frame ---------- *)
(* the registers: in bounds, pairwise disjoint, below the stack area; fp holds a positive signed
   address.  r2 is not used by the lowered code of the fragment itself; the runtime library uses it *)
Record regs_ok (m : mem) : Prop := {
  lo_wf : wf_mem m;
  lo_r0 : 0 <= r0; lo_r1 : 0 <= r1; lo_fp : 0 <= fp; lo_r2 : 0 <= r2;
  lo_i0 : inb m r0 w = true; lo_i1 : inb m r1 w = true; lo_if : inb m fp w = true;
  lo_d01 : r0 + w <= r1 \/ r1 + w <= r0;
  lo_d0f : r0 + w <= fp \/ fp + w <= r0;
  lo_d1f : r1 + w <= fp \/ fp + w <= r1;
  lo_b0 : r0 + w <= lo; lo_b1 : r1 + w <= lo; lo_bf : fp + w <= lo; lo_b2 : r2 + w <= lo;
  lo_d2f : r2 + w <= fp \/ fp + w <= r2;
  lo_F : 0 <= FP m < W / 2 }.
(* STACK ROOM at frame offset top: the area [lo, fp - top) below the stack top is inside the
   state section and addressable by a signed offset from fp *)
Record room_ok (top : Z) (m : mem) : Prop := {
  ro_le : lo <= FP m - top;
  ro_top : 0 <= top;
  ro_half : FP m - lo <= W / 2;
  ro_sz : FP m - top <= msize m }.
(* [a, a+n) is disjoint from the words r0, r1, r2 and from the temporaries' area [lo, hi) *)
Definition dj (hi a n : Z) : Prop :=
  (a + n <= r0 \/ r0 + w <= a) /\ (a + n <= r1 \/ r1 + w <= a) /\
  ((a + n <= lo \/ hi <= a) /\ (a + n <= r2 \/ r2 + w <= a)).
(* a local of n bytes at frame offset off *)
Definition slot_ok (hi : Z) (m : mem) (off n : Z) : Prop :=
  0 < off <= W / 2 /\ 0 <= FP m - off /\ inb m (FP m - off) n = true /\ dj hi (FP m - off) n.
(* F_proved for operands: everything in F_model (`/` and `%` are outside F_model) *)
Definition op_ok (op : src_arith) : Prop := match op with SAdd | SSub | SMul => True | _ => False end.
(* the word of an int global: in the state section, away from the registers and the stack area *)
Definition gword_ok (hi : Z) (m : mem) (g : nat) : Prop :=
  0 <= a_glob R g /\ inb m (a_glob R g) w = true /\ dj hi (a_glob R g) w.
Fixpoint oexp_ok (hi : Z) (m : mem) (o : iopd) : Prop :=
  match o with
  | OLit _ z => - (W / 2) <= z < W / 2
  | OVar i => slot_ok hi m (int_off E i) w
  | OArith op x y => op_ok op /\ oexp_ok hi m x /\ oexp_ok hi m y
  | OUn _ x => oexp_ok hi m x
  | OGlob g => gword_ok hi m g
  | OByte v => slot_ok hi m (byte_off E v) 1
  | OTrunc x => oexp_ok hi m x /\ match x with OGlob g => a_glob R g < W | OArith _ _ _ | OUn _ _ => True | _ => False end
  end.
(* the stack top of the expression being lowered *)
Definition HI (m : mem) : Z := FP m - stack_top E.
Definition layout_ok (m : mem) : Prop := regs_ok m /\ room_ok (stack_top E) m.
(* every local in bounds and above the stack top; every literal a word; room for the temporaries
   of every comparison *)
(* the byte of a bool variable: a frame slot, or a byte global away from the registers and the stack area *)
Definition bslot_ok (hi : Z) (m : mem) (v : bloc) : Prop :=
  match v with
  | BLocal j => slot_ok hi m (bool_off E j) 1
  | BGlobal h => 0 <= a_bglob R h /\ inb m (a_bglob R h) 1 = true /\ dj hi (a_bglob R h) 1 /\ a_bglob R h < W
  end.
Fixpoint vars_ok (m : mem) (e : bexpr) : Prop :=
  match e with
  | BLit _ => True
  | BVar j => bslot_ok (HI m) m j
  | BCmp _ a b => oexp_ok (HI m) m a /\ oexp_ok (HI m) m b /\ Z.of_nat (temps_cmp a b) * w <= HI m - lo
  | BNot e1 => vars_ok m e1
  | BAnd e1 e2 | BOr e1 e2 => vars_ok m e1 /\ vars_ok m e2
  end.
(* FRAME CONDITION: m' differs from m at most in the words r0, r1, r2 and in [lo, hi) *)
Definition agree (hi : Z) (m m' : mem) : Prop :=
  msize m' = msize m /\ (wf_mem m -> wf_mem m') /\
  forall x, 0 <= x -> ~ (r0 <= x < r0 + w) -> ~ (r1 <= x < r1 + w) -> ~ (lo <= x < hi) -> ~ (r2 <= x < r2 + w) ->
    getb m' x = getb m x.

Hypothesis Hw : 2 <= w.
Hypothesis HwE : wsize E = w.
Let Hw1 : 1 <= w. Proof. lia. Qed.
Lemma half_ge_256 : 256 <= W / 2.
Proof. rewrite (W_half w Hw1). change 256 with (2 ^ 8). apply Z.pow_le_mono_r; lia. Qed.
Lemma lb_range m a : wf_mem m -> 0 <= lb m a < 256.
Proof. intros Wf. unfold Machine.lb. apply Wf. Qed.

Lemma agree_refl hi m : agree hi m m.
Proof. split; [reflexivity|]. split; [tauto|]. reflexivity. Qed.
Lemma agree_trans hi a b c : agree hi a b -> agree hi b c -> agree hi a c.
Proof.
  intros [S1 [F1 G1]] [S2 [F2 G2]]. split; [congruence|]. split; [tauto|].
  intros x X N0 N1 N2 N3. rewrite G2, G1; auto.
Qed.
Lemma agree_mono hi hi' m m' : hi <= hi' -> agree hi m m' -> agree hi' m m'.
Proof. intros L [S [F G]]. split; [exact S|]. split; [exact F|]. intros x X N0 N1 N2 N3. apply G; auto. lia. Qed.
Lemma agree_sw hi m a v : 0 <= a -> a = r0 \/ a = r1 \/ (lo <= a /\ a + w <= hi) -> agree hi m (sw m a v).
Proof.
  intros Ha Hr. split; [apply msize_sw|]. split; [intros Wf; apply wf_sw; assumption|].
  intros x X N0 N1 N2 N3. unfold Machine.sw. apply storen_outside; [assumption | assumption|].
  rewrite (wn_w w Hw1). destruct Hr as [->|[->|[H1 H2]]]; lia.
Qed.
Lemma agree_lw hi m m' a : agree hi m m' -> 0 <= a -> dj hi a w -> lw m' a = lw m a.
Proof.
  intros [_ [_ G]] Ha [D0 [D1 D2]]. unfold Machine.lw. apply loadn_ext. intros x Hx.
  rewrite (wn_w w Hw1) in Hx. apply G; lia.
Qed.
Lemma agree_lb hi m m' a : agree hi m m' -> 0 <= a -> dj hi a 1 -> lb m' a = lb m a.
Proof. intros [_ [_ G]] Ha [D0 [D1 D2]]. unfold lb. apply G; lia. Qed.
Lemma agree_inb hi m m' a n : agree hi m m' -> inb m' a n = inb m a n.
Proof. intros [S _]. unfold inb. now rewrite S. Qed.
Lemma dj_fp hi m : regs_ok m -> dj hi fp w.
Proof. intros L. destruct L. unfold dj. lia. Qed.
Lemma dj_mono hi hi' a n : hi' <= hi -> dj hi a n -> dj hi' a n.
Proof. unfold dj. lia. Qed.
Lemma FP_agree hi m m' : regs_ok m -> agree hi m m' -> FP m' = FP m.
Proof. intros L A. unfold FP. apply (agree_lw hi); [exact A | apply (lo_fp m L) | apply (dj_fp hi m L)]. Qed.
Lemma regs_ok_agree hi m m' : regs_ok m -> agree hi m m' -> regs_ok m'.
Proof.
  intros L A. pose proof (FP_agree hi m m' L A) as EF. destruct L. constructor; try assumption.
  - apply A; assumption.
  - now rewrite (agree_inb hi m m').
  - now rewrite (agree_inb hi m m').
  - now rewrite (agree_inb hi m m').
  - rewrite EF; assumption.
Qed.
Lemma room_ok_agree hi top m m' : regs_ok m -> agree hi m m' -> room_ok top m -> room_ok top m'.
Proof.
  intros L A [H1 H2 H3 H4]. pose proof (FP_agree hi m m' L A) as EF. destruct A as [S _].
  constructor; rewrite ?EF, ?S; assumption.
Qed.
Lemma slot_ok_agree hi hi' m m' off n : regs_ok m -> agree hi' m m' -> slot_ok hi m off n -> slot_ok hi m' off n.
Proof.
  intros L A [H1 [H2 [H3 H4]]]. unfold slot_ok. rewrite (FP_agree hi' m m' L A), (agree_inb hi' m m' _ _ A). tauto.
Qed.
Lemma slot_ok_mono hi hi' m off n : hi' <= hi -> slot_ok hi m off n -> slot_ok hi' m off n.
Proof. intros L [H1 [H2 [H3 H4]]]. unfold slot_ok. pose proof (dj_mono hi hi' _ _ L H4). tauto. Qed.
Lemma oexp_ok_agree hi hi' m m' o : regs_ok m -> agree hi' m m' -> oexp_ok hi m o -> oexp_ok hi m' o.
Proof.
  intros L A. induction o as [ch z|i|op x IHx y IHy|u x IHx|g|tx IHt|yj]; cbn [oexp_ok]; try tauto.
  - apply (slot_ok_agree hi hi'); assumption.
  - unfold gword_ok. rewrite (agree_inb hi' m m' _ _ A). tauto.
  - apply (slot_ok_agree hi hi'); assumption.
Qed.
Lemma oexp_ok_mono hi hi' m o : hi' <= hi -> oexp_ok hi m o -> oexp_ok hi' m o.
Proof.
  intros L. induction o as [ch z|i|op x IHx y IHy|u x IHx|g|tx IHt|yj]; cbn [oexp_ok]; try tauto.
  - apply slot_ok_mono; assumption.
  - unfold gword_ok. intros [H1 [H2 H3]]. pose proof (dj_mono hi hi' _ _ L H3). tauto.
  - apply slot_ok_mono; assumption.
Qed.
Lemma sval_agree hi m m' o : regs_ok m -> agree hi m m' -> oexp_ok hi m o -> sval m' o = sval m o.
Proof.
  intros L A. induction o as [ch z|i|op x IHx y IHy|u x IHx|g|tx IHt|yj]; cbn [sval oexp_ok].
  - reflexivity.
  - intros [H1 [H2 [H3 H4]]]. rewrite (FP_agree hi m m' L A). f_equal. apply (agree_lw hi); assumption.
  - intros [_ [Hx Hy]]. now rewrite IHx, IHy.
  - intros Hx. destruct u; now rewrite IHx.
  - intros [H1 [H2 H3]]. f_equal. apply (agree_lw hi); assumption.
  - intros [Hx _]. now rewrite IHt.
  - intros [H1 [H2 [H3 H4]]]. rewrite (FP_agree hi m m' L A). apply (agree_lb hi); assumption.
Qed.
Lemma wval_agree hi m m' o : regs_ok m -> agree hi m m' -> oexp_ok hi m o -> wval m' o = wval m o.
Proof.
  intros L A. induction o as [ch z|i|op x _ y _|u x _|g|tx IHt|yj]; cbn [wval oexp_ok].
  - reflexivity.
  - intros [H1 [H2 [H3 H4]]]. rewrite (FP_agree hi m m' L A). apply (agree_lw hi); assumption.
  - intros [_ [Hx Hy]]. now rewrite (sval_agree hi m m' x L A Hx), (sval_agree hi m m' y L A Hy).
  - intros Hx. destruct u; now rewrite (sval_agree hi m m' x L A Hx).
  - intros [H1 [H2 H3]]. apply (agree_lw hi); assumption.
  - intros [Hx _]. now rewrite IHt.
  - intros [H1 [H2 [H3 H4]]]. rewrite (FP_agree hi m m' L A). apply (agree_lb hi); assumption.
Qed.
(* values are words, and their signed reading is the source value *)
Lemma wval_range m o : wf_mem m -> inrange w (wval m o).
Proof.
  intros Wf. destruct o as [ch z|i|op x y|[|] x|g|tx|yj]; cbn [wval]; try (apply wrap_range; exact Hw1);
  try (apply (lw_range w Hw1); exact Wf).
  - unfold inrange. pose proof (Z.mod_pos_bound (wval m tx) 256 ltac:(lia)). pose proof (W_ge w Hw1). lia.
  - unfold inrange. pose proof (lb_range m (FP m - byte_off E yj) Wf). pose proof (W_ge w Hw1). lia.
Qed.
Lemma sgn_mod256 x : inrange w x -> sgn x mod 256 = x mod 256.
Proof.
  intros Hx. assert (Hk : W = 256 * 2 ^ (8 * w - 8)).
  { unfold Machine.W. change 256 with (2 ^ 8). rewrite <- Z.pow_add_r by lia. f_equal. lia. }
  destruct (sgn_cases w x Hx) as [[_ E']|[_ E']]; rewrite E'; [reflexivity|].
  rewrite Hk. replace (x - 256 * 2 ^ (8 * w - 8)) with (x + (- 2 ^ (8 * w - 8)) * 256) by lia. apply Z.mod_add. lia.
Qed.
Lemma sval_range hi m o : wf_mem m -> oexp_ok hi m o -> - (W / 2) <= sval m o < W / 2.
Proof.
  intros Wf. induction o as [ch z|i|op x IHx y IHy|u x IHx|g|tx IHt|yj]; cbn [sval oexp_ok]; intros O.
  - exact O.
  - apply (sgn_range w Hw1). apply (lw_range w Hw1); exact Wf.
  - apply (sgn_range w Hw1). apply wrap_range; exact Hw1.
  - destruct u; [apply (sgn_range w Hw1); apply wrap_range; exact Hw1 | apply IHx; exact O].
  - apply (sgn_range w Hw1). apply (lw_range w Hw1); exact Wf.
  - pose proof (Z.mod_pos_bound (sval m tx) 256 ltac:(lia)). pose proof half_ge_256. lia.
  - pose proof (lb_range m (FP m - byte_off E yj) Wf). pose proof half_ge_256. lia.
Qed.
Lemma sgn_wval hi m o : wf_mem m -> oexp_ok hi m o -> sgn (wval m o) = sval m o.
Proof.
  intros Wf. induction o as [ch z|i|op x _ y _|[|] x _|g|tx IHt|yj]; intros O; cbn [wval sval oexp_ok] in *; try reflexivity.
  - apply (sgn_wrap_small w Hw1); exact O.
  - apply (sgn_wrap_small w Hw1). apply (sval_range hi); assumption.
  - rewrite <- (IHt (proj1 O)). rewrite (sgn_mod256 _ (wval_range m tx Wf)). apply (sgn_small w).
    pose proof (Z.mod_pos_bound (wval m tx) 256 ltac:(lia)). pose proof half_ge_256. lia.
  - apply (sgn_small w). pose proof (lb_range m (FP m - byte_off E yj) Wf). pose proof half_ge_256. lia.
Qed.
Lemma bval_agree hi m m' j : regs_ok m -> agree hi m m' -> bslot_ok hi m j -> bval m' j = bval m j.
Proof.
  intros L A. destruct j as [j|h]; cbn [bslot_ok bval].
  - intros [H1 [H2 [H3 H4]]]. rewrite (FP_agree hi m m' L A). apply (agree_lb hi); assumption.
  - intros [H1 [H2 [H3 _]]]. apply (agree_lb hi); assumption.
Qed.
Lemma bslot_ok_agree hi hi' m m' j : regs_ok m -> agree hi' m m' -> bslot_ok hi m j -> bslot_ok hi m' j.
Proof.
  intros L A. destruct j as [j|h]; cbn [bslot_ok]; [apply (slot_ok_agree hi hi'); assumption|].
  rewrite (agree_inb hi' m m' _ _ A). tauto.
Qed.
Lemma HI_agree hi m m' : regs_ok m -> agree hi m m' -> HI m' = HI m.
Proof. intros L A. unfold HI. now rewrite (FP_agree hi m m' L A). Qed.
Lemma layout_ok_agree hi m m' : layout_ok m -> agree hi m m' -> layout_ok m'.
Proof. intros [L Ro] A. split; [eapply regs_ok_agree; eauto | eapply room_ok_agree; eauto]. Qed.
Lemma vars_ok_agree m m' e : regs_ok m -> agree (HI m) m m' -> vars_ok m e -> vars_ok m' e.
Proof.
  intros L A. pose proof (HI_agree _ m m' L A) as EH.
  induction e as [b|j|op a b|e IH|e1 IH1 e2 IH2|e1 IH1 e2 IH2]; cbn [vars_ok]; try tauto; rewrite EH.
  - apply (bslot_ok_agree (HI m) (HI m)); assumption.
  - intros [Ha [Hb Hc]]. repeat split; try assumption; apply (oexp_ok_agree (HI m) (HI m) m m'); assumption.
Qed.
Lemma beval_agree m m' e : regs_ok m -> agree (HI m) m m' -> vars_ok m e -> beval m' e = beval m e.
Proof.
  intros L A. induction e as [b|j|op a b|e IH|e1 IH1 e2 IH2|e1 IH1 e2 IH2]; cbn [vars_ok beval]; intros V.
  - reflexivity.
  - now rewrite (bval_agree (HI m) m m' j L A V).
  - destruct V as [Va [Vb _]]. now rewrite (sval_agree (HI m) m m' a L A Va), (sval_agree (HI m) m m' b L A Vb).
  - now rewrite IH.
  - destruct V as [V1 V2]. now rewrite IH1, IH2.
  - destruct V as [V1 V2]. now rewrite IH1, IH2.
Qed.
Lemma trace_agree m m' e : regs_ok m -> agree (HI m) m m' -> vars_ok m e -> trace m' e = trace m e.
Proof.
  intros L A. induction e as [b|j|op a b|e IH|e1 IH1 e2 IH2|e1 IH1 e2 IH2]; cbn [vars_ok trace]; intros V; try reflexivity.
  - auto.
  - destruct V as [V1 V2]. now rewrite IH1, IH2, (beval_agree m m' e1 L A V1).
  - destruct V as [V1 V2]. now rewrite IH1, IH2, (beval_agree m m' e1 L A V1).
Qed.

(* address arithmetic of `[fp], -off` *)
Lemma frame_addr m off : regs_ok m -> 0 < off <= W / 2 -> sgn (FP m) + sgn (wrap (- off)) = FP m - off.
Proof.
  intros L Ho. rewrite (sgn_small w (FP m)) by apply (lo_F m L).
  rewrite (sgn_neg_imm w Hw1 off Ho). lia.
Qed.
Lemma sw_wrap_eq m a u v : wrap u = wrap v -> sw m a u = sw m a v.
Proof. unfold Machine.sw. intros ->. reflexivity. Qed.
Lemma ra_cases rg : rg = R0 \/ rg = R1 -> ra rg = r0 \/ ra rg = r1.
Proof. intros [->| ->]; cbn [regaddr]; auto. Qed.

(* ---------- bubbles ---------- *)
Definition bub_val (m : mem) (b : bubble) : Z :=
  match b with
  | BuImm _ z => wrap z
  | BuLocal false off | BuPushed off => lw m (FP m - off)
  | BuLocal true off | BuPushedB off => lb m (FP m - off)
  | BuRegB r => lb m (ra r)
  | BuReg r => lw m (ra r)
  end.
Definition bub_ok (hi : Z) (m : mem) (b : bubble) : Prop :=
  match b with
  | BuImm _ _ => True
  | BuLocal false off | BuPushed off => slot_ok hi m off w
  | BuLocal true off => slot_ok hi m off 1
  | BuPushedB off => slot_ok hi m off w
  | BuReg r => r = R0 \/ r = R1 \/ match r with RGlob g => gword_ok hi m g | _ => False end
  | BuRegB r => (r = R0 \/ r = R1 \/ match r with RGlob g => gword_ok hi m g | _ => False end) /\ ra r < W
  end.
Definition resident (b : bubble) : bool := match b with BuReg _ | BuRegB _ => false | _ => true end.
Definition sym_of (r : reg) (b : bubble) : sym := snd (pop_value r b).
Definition symval (m : mem) (s : sym) : option Z :=
  match s with
  | SLit z => Some (wrap z)
  | SReg r => if inb m (ra r) w then Some (lw m (ra r)) else None
  | SLab _ => None
  | SChar c => Some (wrap c)
  | SRegAddr r => Some (wrap (ra r))
  | SStd x => Some (wrap (a_lib R + std_off x))
  end.

Lemma pushed_slot_ok top m : regs_ok m -> room_ok top m -> w <= FP m - top - lo ->
  slot_ok (FP m - (top + w)) m (top + w) w.
Proof.
  intros L [H1 H2 H3 H4] Hr. destruct L. unfold slot_ok, dj.
  repeat split; try lia. apply inb_true; lia.
Qed.
Lemma bub_of_ok top rg o keep m : rg = R0 \/ rg = R1 -> regs_ok m -> room_ok top m ->
  oexp_ok (FP m - top) m o -> Z.of_nat (pushed o keep) * w <= FP m - top - lo ->
  bub_ok (FP m - top_after top (bub_of E top rg o keep)) m (bub_of E top rg o keep).
Proof.
  intros Hr L Ro O P. unfold pushed in P.
  assert (Main : forall o', match o' with OTrunc _ => False | _ => True end -> oexp_ok (FP m - top) m o' ->
            Z.of_nat (if keep && negb (is_vac o') then 1%nat else 0%nat) * w <= FP m - top - lo ->
            bub_ok (FP m - top_after top (bub_of E top rg o' keep)) m (bub_of E top rg o' keep)).
  { clear O P. intros o' Nt O P.
    destruct o' as [ch z|i|op x y|u x|g|tx|yj]; try destruct Nt; cbn [bub_of top_after bub_ok is_safe is_vac is_glob negb andb orb] in *; try exact I; try exact O;
      rewrite ?HwE; destruct keep; cbn [top_after bub_ok andb orb] in *; try (destruct Hr; auto; fail); try (right; right; exact O);
      apply pushed_slot_ok; try assumption; change (Z.of_nat 1) with 1 in P; lia. }
  destruct o as [ch z|i|op x y|u x|g|tx|yj]; try (apply Main; [exact I | exact O | exact P]).
  cbn [oexp_ok] in O. destruct O as [Ox Sh]. cbn [bub_of is_vac] in *. rewrite top_after_to_byte.
  destruct tx as [ch z|i|op x y|u x|g|tx|yj]; try (exfalso; exact Sh); match type of Ox with oexp_ok _ _ ?t => pose proof (Main t I Ox P) as B end;
    cbn [bub_of] in *; destruct keep; cbn [to_byte bub_ok top_after] in *; try exact B;
    (split; [exact B|]); try exact Sh;
    destruct L, Ro, Hr; subst rg; cbn [regaddr]; pose proof (W_even w Hw1); lia.
Qed.
Lemma bub_ok_agree hi hi' m m' b : regs_ok m -> agree hi' m m' -> bub_ok hi m b -> bub_ok hi m' b.
Proof.
  intros L A. destruct b as [ch z|[|] off|r|off|r|off]; cbn [bub_ok]; auto; try (apply (slot_ok_agree hi hi'); assumption).
  - intros [H|[H|H]]; auto. right; right. destruct r; auto. unfold gword_ok in *. rewrite (agree_inb hi' m m' _ _ A). exact H.
  - intros [[H|[H|H]] Hlt]; (split; [|exact Hlt]); auto. right; right. destruct r; auto. unfold gword_ok in *. rewrite (agree_inb hi' m m' _ _ A). exact H.
Qed.
Lemma bub_ok_mono hi hi' m b : hi' <= hi -> bub_ok hi m b -> bub_ok hi' m b.
Proof.
  intros L. destruct b as [ch z|[|] off|r|off|r|off]; cbn [bub_ok]; auto; try (apply slot_ok_mono; assumption).
  - intros [H|[H|H]]; auto. right; right. destruct r; auto. destruct H as [H1 [H2 H3]]. pose proof (dj_mono hi hi' _ _ L H3). unfold gword_ok. tauto.
  - intros [[H|[H|H]] Hlt]; (split; [|exact Hlt]); auto. right; right. destruct r; auto. destruct H as [H1 [H2 H3]]. pose proof (dj_mono hi hi' _ _ L H3). unfold gword_ok. tauto.
Qed.
Lemma slot_ok_byte hi m off : slot_ok hi m off w -> slot_ok hi m off 1.
Proof.
  intros [O1 [O2 [O3 O4]]]. unfold slot_ok. split; [exact O1|]. split; [exact O2|]. split.
  - unfold inb in *. apply andb_true_iff in O3. destruct O3 as [X1 X2]. apply Z.leb_le in X1, X2. apply andb_true_iff. split; apply Z.leb_le; lia.
  - unfold dj in *. lia.
Qed.
Lemma lb_lw m a : wf_mem m -> lb m a = lw m a mod 256.
Proof.
  intros Wf. unfold Machine.lb, Machine.lw, Machine.wn. destruct (Z.to_nat w) as [|k] eqn:Ek; [lia|].
  cbn [loadn]. pose proof (Wf a). rewrite (Z.mul_comm 256), Z.mod_add by lia. symmetry. apply Z.mod_small. lia.
Qed.
Lemma bub_val_to_byte m b : wf_mem m -> match b with BuReg _ | BuPushed _ => True | _ => False end ->
  bub_val m (to_byte b) = bub_val m b mod 256.
Proof. intros Wf Sh. destruct b; try destruct Sh; cbn [to_byte bub_val]; apply lb_lw; exact Wf. Qed.
Lemma bub_val_agree hi m m' b : regs_ok m -> agree hi m m' -> resident b = true -> bub_ok hi m b ->
  bub_val m' b = bub_val m b.
Proof.
  intros L A Rs. destruct b as [ch z|[|] off|r|off|r|off]; cbn [resident bub_ok bub_val] in *; try discriminate; try reflexivity;
    intros H; first [ (destruct H as [H1 [H2 [H3 H4]]]; rewrite (FP_agree hi m m' L A); first [apply (agree_lw hi); assumption | apply (agree_lb hi); assumption])
                    | (apply slot_ok_byte in H; destruct H as [H1 [H2 [H3 H4]]]; rewrite (FP_agree hi m m' L A); apply (agree_lb hi); assumption) ].
Qed.
(* ================================================================================= *)
(* D  the lowered code on the machine                                                 *)
(* ================================================================================= *)
Variable code : Z -> option instr.
Variable cmem : mem.
Variable lab : label -> Z.
Hypothesis lab_range : forall l, 0 <= lab l < W.
Notation act := (Machine.act w code cmem).
Notation Halts := (HidV.Sphinx.Halts.Halts act).
Notation runs := (HidV.Sphinx.Halts.runs act).
Notation oval := (Idioms.oval w cmem).
Notation plc := (placed R lab code).
Notation rs := (res_sym R lab).

Lemma oval_lab m l : oval m (Imm (lab l)) = Some (lab l).
Proof. rewrite oval_imm. f_equal. apply (wrap_small w). exact (lab_range l). Qed.
Lemma oval_neg_off m off : oval m (Imm (- off)) = Some (wrap (- off)).
Proof. apply oval_imm. Qed.

Lemma act_lbso p m d b o x y : code p = Some (ILoadO WByte SState (St d) b o) ->
  oval m b = Some x -> oval m o = Some y -> inb m (sgn x + sgn y) 1 = true -> inb m d w = true ->
  act (mk p m) = ANext (mk (p + 1) (sw m d (lb m (sgn x + sgn y)))) None.
Proof.
  intros C A B I J. unfold Machine.act; cbn [pc]; rewrite C; cbn [exec].
  rewrite !val_oval; cbn [mm]; rewrite A, B. unfold load; cbn [mm]; rewrite I.
  unfold setdest; cbn [mm]; rewrite J. reflexivity.
Qed.

Lemma act_lbs p m d a x : code p = Some (ILoad WByte SState (St d) a) -> oval m a = Some x ->
  inb m x 1 = true -> inb m d w = true ->
  act (mk p m) = ANext (mk (p + 1) (sw m d (lb m x))) None.
Proof.
  intros C A I J. unfold Machine.act; cbn [pc]; rewrite C; cbn [Machine.exec]. rewrite val_oval; cbn [mm]; rewrite A.
  unfold load; cbn [mm]; rewrite I. unfold setdest; cbn [mm]; rewrite J. reflexivity.
Qed.
(* the load of a bool variable: lbso from the frame, lbs from a global *)
Lemma load_bool_instr r v : exists i, load_bool E r v = AInstr i.
Proof. destruct v; eexists; reflexivity. Qed.
Lemma bval_range m v : wf_mem m -> 0 <= bval m v < 256.
Proof. intros Wf. destruct v; cbn [bval]; apply Wf. Qed.
Lemma load_bool_act p m hi r v i : r = R0 \/ r = R1 -> regs_ok m -> bslot_ok hi m v -> load_bool E r v = AInstr i ->
  code p = Some (res_ins R lab i) -> act (mk p m) = ANext (mk (p + 1) (sw m (ra r) (bval m v))) None.
Proof.
  intros Hr L V Ei C.
  assert (Ir : inb m (ra r) w = true) by (destruct L, Hr; subst r; cbn [regaddr]; assumption).
  destruct v as [j|h]; cbn [load_bool bslot_ok bval] in *; inversion Ei; subst i; cbn [res_ins res_sym regaddr] in C.
  - destruct V as [V1 [V2 [V3 V4]]].
    pose proof (act_lbso p m (ra r) (St fp) (Imm (- bool_off E j)) (FP m) (wrap (- bool_off E j)) C
                  (oval_st w cmem m fp (lo_if m L)) (oval_imm w cmem m _)) as A.
    rewrite (frame_addr m _ L V1) in A. exact (A V3 Ir).
  - destruct V as [V1 [V2 [V3 V4]]].
    apply (act_lbs p m (ra r) (Imm (a_bglob R h)) (a_bglob R h) C); [|exact V2 | exact Ir].
    rewrite oval_imm. f_equal. apply (wrap_small w). unfold inrange. lia.
Qed.

(* ---------- straight-line continuation prefixes ---------- *)
Definition step_simple (i : ains) (m : mem) : option mem :=
  match exec w cmem (res_ins R lab i) (mk 0 m) with ANext s None => Some (mm s) | _ => None end.
Fixpoint run_simple (pre : list ains) (m : mem) : option mem :=
  match pre with
  | [] => Some m
  | i :: r => match step_simple i m with Some m' => run_simple r m' | None => None end
  end.
Lemma step_simple_act i q m m' : simple i = true -> code q = Some (res_ins R lab i) ->
  step_simple i m = Some m' -> act (mk q m) = ANext (mk (q + 1) m') None.
Proof.
  intros S C. unfold step_simple, Machine.act. cbn [pc]. rewrite C.
  destruct i; try discriminate S; cbn [res_ins exec]; rewrite !val_oval; cbn [mm].
  - (* lwso *) destruct (oval m (rs b)) as [x|]; [|discriminate]. destruct (oval m (rs o)) as [y|]; [|discriminate].
    unfold load; cbn [mm]. destruct (inb m (sgn x + sgn y) w); [|discriminate].
    unfold setdest; cbn [mm]. destruct (inb m (regaddr R d) w); [|discriminate].
    unfold nxtm; cbn [pc mm]. intros H; inversion H; reflexivity.
  - (* lbso *) destruct (oval m (rs b)) as [x|]; [|discriminate]. destruct (oval m (rs o)) as [y|]; [|discriminate].
    unfold load; cbn [mm]. destruct (inb m (sgn x + sgn y) 1); [|discriminate].
    unfold setdest; cbn [mm]. destruct (inb m (regaddr R d) w); [|discriminate].
    unfold nxtm; cbn [pc mm]. intros H; inversion H; reflexivity.
  - (* arith *) destruct (oval m (rs a)) as [x|]; [|discriminate]. destruct (oval m (rs b)) as [y|]; [|discriminate].
    destruct (arith w op x y) as [r|]; [|discriminate].
    unfold setdest; cbn [mm]. destruct (inb m (regaddr R d) w); [|discriminate].
    unfold nxtm; cbn [pc mm]. intros H; inversion H; reflexivity.
  - (* mov *) destruct (oval m (rs v)) as [x|]; [|discriminate].
    unfold setdest; cbn [mm]. destruct (inb m (regaddr R d) w); [|discriminate].
    unfold nxtm; cbn [pc mm]. intros H; inversion H; reflexivity.
  - (* swso *) destruct (oval m (rs b)) as [x|]; [|discriminate]. destruct (oval m (rs o)) as [y|]; [|discriminate].
    destruct (oval m (rs v)) as [z|]; [|discriminate].
    unfold store; cbn [mm]. destruct (inb m (sgn x + sgn y) w); [|discriminate].
    unfold nxtm; cbn [pc mm]. intros H; inversion H; reflexivity.
  - (* sbso *) destruct (oval m (rs b)) as [x|]; [|discriminate]. destruct (oval m (rs o)) as [y|]; [|discriminate].
    destruct (oval m (rs v)) as [z|]; [|discriminate].
    unfold store; cbn [mm]. destruct (inb m (sgn x + sgn y) 1); [|discriminate].
    unfold nxtm; cbn [pc mm]. intros H; inversion H; reflexivity.
Qed.

(* where a continuation leaves: at its goto's target, or at the end of the emitted block *)
Definition kexit (g : option label) (endp : Z) : Z := match g with Some L => lab L | None => endp end.

Lemma kont_runs pre g : forall q m m'', forallb simple pre = true -> plc (kl pre g) q ->
  run_simple pre m = Some m'' ->
  runs (mk q m) [] (mk (kexit g (q + size (kl pre g))) m'').
Proof.
  induction pre as [|i r IH]; intros q m m'' S P Rn.
  - cbn [run_simple] in Rn. inversion Rn; subst m''. unfold kl in *. cbn [map app] in *.
    destruct g as [L|]; cbn [kexit].
    + cbn [goto plc res_ins res_sym] in P. destruct P as [Cj [Ch _]].
      pose proof (goto_label w code cmem q m (lab L) Cj Ch) as G.
      rewrite (wrap_small w (lab L) (lab_range L)) in G. exact G.
    + cbn [size]. replace (q + 0) with q by lia. apply runs_refl.
  - cbn [forallb] in S. apply andb_true_iff in S. destruct S as [Si Sr].
    cbn [run_simple] in Rn. destruct (step_simple i m) as [m1|] eqn:St; [|discriminate].
    unfold kl in P. cbn [map app plc] in P. destruct P as [Ci P].
    eapply runs_tau; [apply (step_simple_act i q m m1 Si Ci St)|].
    specialize (IH (q + 1) m1 m'' Sr P Rn).
    unfold kl. cbn [map app size]. unfold kl in IH.
    replace (q + (1 + size (map AInstr r ++ match g with Some L => goto L | None => [] end)))
      with (q + 1 + size (map AInstr r ++ match g with Some L => goto L | None => [] end)) by lia.
    exact IH.
Qed.

(* ---------- the tables ---------- *)
Lemma compare_instr_in op : In (op, compare_instr op) compare_map.
Proof. destruct op; vm_compute; repeat (first [left; reflexivity | right]). Qed.
Lemma compare_instr_inv op : In (compare_instr op, invert_instr (compare_instr op)) halt_inversion.
Proof. destruct op; vm_compute; repeat (first [left; reflexivity | right]). Qed.
Lemma arith_instr_in op : In (op, arith_instr op) arith_map.
Proof. destruct op; vm_compute; repeat (first [left; reflexivity | right]). Qed.
(* the mapped arithmetic instruction computes the wrapped source result (GenTables.arith_map) *)
Lemma arith_ok op xv yv : op_ok op -> inrange w xv -> inrange w yv ->
  exists r, arith w (arith_instr op) xv yv = Some r /\ wrap r = wrap (arith_sem op (sgn xv) (sgn yv)).
Proof.
  intros Ho Hx Hy. pose proof (arith_map_correct w Hw1) as F. rewrite Forall_forall in F.
  specialize (F _ (arith_instr_in op) xv yv Hx Hy). cbn [fst snd] in F.
  destruct (arith w (arith_instr op) xv yv) as [r|]; [exists r; split; [reflexivity | exact F]|].
  destruct F as [[X|X] _]; subst op; destruct Ho.
Qed.
Lemma compare_instr_sem op x y : inrange w x -> inrange w y ->
  cond_holds w (compare_instr op) x y = cmp_sem op (sgn x) (sgn y).
Proof.
  intros Hx Hy. pose proof (compare_map_correct w Hw1) as F. rewrite Forall_forall in F.
  exact (F _ (compare_instr_in op) x y Hx Hy).
Qed.


(* ---------- operands: pop_value ---------- *)
Lemma symval_oval m s v : symval m s = Some v -> oval m (rs s) = Some v.
Proof.
  destruct s as [z|r|l|c|r|x]; cbn [symval res_sym];
    [intros H; rewrite oval_imm; exact H | | discriminate | intros H; rewrite oval_imm; exact H | intros H; rewrite oval_imm; exact H
    | intros H; rewrite oval_imm; exact H].
  unfold Idioms.oval, val; cbn [mm]. auto.
Qed.
Lemma lw_pop_other r b m a : 0 <= ra r -> 0 <= a -> (a + w <= ra r \/ ra r + w <= a) ->
  lw (pop_mem r b m) a = lw m a.
Proof. intros Hr Ha D. destruct b as [|[]| | | |]; cbn [pop_mem]; try reflexivity; apply (lw_sw_other w Hw1); assumption. Qed.
Lemma lb_pop_other r b m a : 0 <= ra r -> 0 <= a -> (a < ra r \/ ra r + w <= a) ->
  lb (pop_mem r b m) a = lb m a.
Proof. intros Hr Ha D. destruct b as [|[]| | | |]; cbn [pop_mem]; try reflexivity; apply (lb_sw_other w Hw1); assumption. Qed.
Lemma inb_pop r b m a n : inb (pop_mem r b m) a n = inb m a n.
Proof. destruct b as [|[]| | | |]; cbn [pop_mem]; try reflexivity; apply inb_sw. Qed.

Lemma pop_props r b hi m : r = R0 \/ r = R1 -> regs_ok m -> bub_ok hi m b ->
  let m' := pop_mem r b m in
  agree lo m m' /\
  symval m' (sym_of r b) = Some (bub_val m b) /\
  forall c s p, pop_value r b = (c, s) -> plc c p -> runs (mk p m) [] (mk (p + size c) m').
Proof.
  intros Hr L B m'.
  assert (Ir : 0 <= ra r /\ inb m (ra r) w = true).
  { destruct L, Hr; subst r; cbn [regaddr]; split; assumption. }
  destruct Ir as [Ir0 Ir1].
  assert (Mem : forall off, slot_ok hi m off w -> let m1 := sw m (ra r) (lw m (FP m - off)) in
            agree lo m m1 /\ symval m1 (SReg r) = Some (lw m (FP m - off)) /\
            forall p, plc [AInstr (ALwso r (SReg RFp) (SLit (- off)))] p -> runs (mk p m) [] (mk (p + (1 + 0)) m1)).
  { intros off [O1 [O2 [O3 O4]]] m1. split; [|split].
    - apply agree_sw; [exact Ir0|]. destruct (ra_cases r Hr) as [->| ->]; auto.
    - cbn [symval]. unfold m1. rewrite inb_sw, Ir1. rewrite (lw_sw_same w Hw1) by exact Ir0. f_equal.
      apply (wrap_small w). apply (lw_range w Hw1). apply (lo_wf m L).
    - intros p P. cbn [plc res_ins res_sym regaddr] in P. destruct P as [C _].
      pose proof (act_lwso w code cmem p m (ra r) (St fp) (Imm (- off)) (FP m) (wrap (- off)) C
                    (oval_st w cmem m fp (lo_if m L)) (oval_imm w cmem m _)) as A.
      rewrite (frame_addr m _ L O1) in A. specialize (A O3 Ir1).
      replace (p + (1 + 0)) with (p + 1) by lia. apply (runs_next act _ _ None A). }
  assert (MemB : forall off, slot_ok hi m off 1 -> let m1 := sw m (ra r) (lb m (FP m - off)) in
            agree lo m m1 /\ symval m1 (SReg r) = Some (lb m (FP m - off)) /\
            forall p, plc [AInstr (ALbso r (SReg RFp) (SLit (- off)))] p -> runs (mk p m) [] (mk (p + (1 + 0)) m1)).
  { intros off [O1 [O2 [O3 O4]]] m1. split; [|split].
    - apply agree_sw; [exact Ir0|]. destruct (ra_cases r Hr) as [->| ->]; auto.
    - cbn [symval]. unfold m1. rewrite inb_sw, Ir1. rewrite (lw_sw_same w Hw1) by exact Ir0. f_equal.
      apply (wrap_small w). unfold inrange. pose proof (lb_range m (FP m - off) (lo_wf m L)). pose proof (W_ge w Hw1). lia.
    - intros p P. cbn [plc res_ins res_sym regaddr] in P. destruct P as [C _].
      pose proof (act_lbso p m (ra r) (St fp) (Imm (- off)) (FP m) (wrap (- off)) C
                    (oval_st w cmem m fp (lo_if m L)) (oval_imm w cmem m _)) as A.
      rewrite (frame_addr m _ L O1) in A. specialize (A O3 Ir1).
      replace (p + (1 + 0)) with (p + 1) by lia. apply (runs_next act _ _ None A). }
  destruct b as [ch z|[|] off|r'|off|r'|off]; cbn [bub_ok] in B; unfold m'; cbn [pop_mem sym_of pop_value snd bub_val].
  - split; [apply agree_refl|]. split; [destruct ch; reflexivity|]. intros c s p F P. inversion F; subst. cbn [size].
    replace (p + 0) with p by lia. apply runs_refl.
  - destruct (MemB off B) as [A [S C]]. split; [exact A|]. split; [exact S|].
    intros c s p F P. inversion F; subst. cbn [size]. apply C. exact P.
  - destruct (Mem off B) as [A [S C]]. split; [exact A|]. split; [exact S|].
    intros c s p F P. inversion F; subst. cbn [size]. apply C. exact P.
  - split; [apply agree_refl|]. split.
    + cbn [symval]. assert (I' : inb m (ra r') w = true).
      { destruct B as [->|[->|B]]; [apply (lo_i0 m L) | apply (lo_i1 m L)|]. destruct r'; try contradiction. apply B. }
      now rewrite I'.
    + intros c s p F P. inversion F; subst. cbn [size]. replace (p + 0) with p by lia. apply runs_refl.
  - destruct (Mem off B) as [A [S C]]. split; [exact A|]. split; [exact S|].
    intros c s p F P. inversion F; subst. cbn [size]. apply C. exact P.
  - (* StateByte: lbs [r], r' *)
    destruct B as [B Hlt].
    assert (I' : 0 <= ra r' /\ inb m (ra r') w = true).
    { destruct B as [->|[->|B]]; [split; [apply (lo_r0 m L) | apply (lo_i0 m L)] | split; [apply (lo_r1 m L) | apply (lo_i1 m L)]|].
      destruct r'; try contradiction. cbn [regaddr]. destruct B as [B0 [B1 _]]. split; assumption. }
    destruct I' as [I0 I1].
    assert (I1b : inb m (ra r') 1 = true).
    { unfold inb in *. apply andb_true_iff in I1. destruct I1 as [X1 X2]. apply Z.leb_le in X1, X2. apply andb_true_iff. split; apply Z.leb_le; lia. }
    split; [|split].
    + apply agree_sw; [exact Ir0|]. destruct (ra_cases r Hr) as [->| ->]; auto.
    + cbn [symval]. rewrite inb_sw, Ir1. rewrite (lw_sw_same w Hw1) by exact Ir0. f_equal.
      apply (wrap_small w). unfold inrange. pose proof (lb_range m (ra r') (lo_wf m L)). pose proof (W_ge w Hw1). lia.
    + intros c s p F P. inversion F; subst. cbn [plc res_ins res_sym regaddr] in P. destruct P as [C _].
      assert (Sa : wrap (ra r') = ra r') by (apply (wrap_small w); unfold inrange; lia).
      pose proof (act_lbs p m (ra r) (Imm (ra r')) (ra r') C ltac:(rewrite oval_imm, Sa; reflexivity) I1b Ir1) as Al.
      cbn [size]. replace (p + (1 + 0)) with (p + 1) by lia. apply (runs_next act _ _ None Al).
  - destruct (MemB off (slot_ok_byte hi m off B)) as [A [S C]]. split; [exact A|]. split; [exact S|].
    intros c s p F P. inversion F; subst. cbn [size]. apply C. exact P.
Qed.
(* a symbol that is not the register written by a pop keeps its value *)
Lemma symval_pop_other r b m s : regs_ok m -> r = R0 \/ r = R1 ->
  match s with SReg r' => 0 <= ra r' /\ (ra r' + w <= ra r \/ ra r + w <= ra r') | _ => True end ->
  symval (pop_mem r b m) s = symval m s.
Proof.
  intros L Hr Hs. destruct s as [z|r'|l|c|r'|x]; cbn [symval]; try reflexivity.
  rewrite inb_pop. destruct Hs as [Hr' Ne].
  rewrite lw_pop_other; [reflexivity | | |].
  - destruct L, Hr; subst r; cbn [regaddr]; assumption.
  - exact Hr'.
  - exact Ne.
Qed.
Lemma sym_of_bub_of rg top o keep : rg = R0 \/ rg = R1 ->
  match sym_of rg (bub_of E top rg o keep) with
  | SReg r' => r' = rg \/ exists g, r' = RGlob g /\ o = OGlob g /\ keep = false
  | SLit _ | SChar _ => True | _ => False end.
Proof.
  intros _. destruct o as [ch z|i|op x y|u x|g|tx|yj]; try (destruct keep; cbn; eauto; fail).
  - destruct ch; exact I.
  - cbn [bub_of]. destruct (bub_of E top rg tx keep) as [[|] ?|[]| | | |]; cbn; auto.
Qed.

(* ---------- operands: eval_opd ---------- *)
(* what holds of the lowering of one operand: frame condition, the value is where the bubble
   says, and the emitted code runs silently into exactly eval_mem *)
Definition eval_spec (o : iopd) : Prop := forall top rg keep m,
  rg = R0 \/ rg = R1 -> regs_ok m -> room_ok top m -> oexp_ok (FP m - top) m o ->
  Z.of_nat (temps o keep) * w <= FP m - top - lo ->
  let m' := eval_mem top rg o keep m in
  agree (FP m - top) m m' /\
  bub_val m' (bub_of E top rg o keep) = wval m o /\
  forall c bub p, eval_opd E top rg o keep = (c, bub) -> plc c p ->
    runs (mk p m) [] (mk (p + size c) m').

Lemma resident_to_byte b : resident (to_byte b) = resident b.
Proof. destruct b; reflexivity. Qed.
Lemma bub_of_keep_resident top rg o : resident (bub_of E top rg o true) = true.
Proof. induction o as [ch z|i|op x _ y _|u x _|g|tx IHt|yj]; try reflexivity. cbn [bub_of]. rewrite resident_to_byte. exact IHt. Qed.
Lemma eval_mem_safe top rg o keep m : is_safe o = true -> is_glob o && keep = false -> eval_mem top rg o keep m = m.
Proof. destruct o, keep; try discriminate; reflexivity. Qed.
Lemma temps_pushed o keep : (pushed o keep <= temps o keep)%nat.
Proof.
  unfold pushed. induction o as [ch z|i|op x _ y _|u x _|g|tx IHt|yj]; try (destruct keep; cbn [is_safe is_vac is_glob negb andb orb temps]; lia).
  cbn [is_vac temps]. exact IHt.
Qed.

Lemma pair_props x y : eval_spec x -> eval_spec y -> forall top m,
  regs_ok m -> room_ok top m -> oexp_ok (FP m - top) m x -> oexp_ok (FP m - top) m y ->
  Z.of_nat (temps_cmp x y) * w <= FP m - top - lo ->
  let kx := negb (is_safe y) in
  let bx := bub_of E top R0 x kx in
  let by_ := bub_of E (top_after top bx) R1 y false in
  let m' := pair_mem top x y m in
  agree (FP m - top) m m' /\
  symval m' (sym_of R0 bx) = Some (wval m x) /\
  symval m' (sym_of R1 by_) = Some (wval m y) /\
  forall c1 bx' c2 by' c2' rhs c3 lhs p,
    eval_opd E top R0 x kx = (c1, bx') -> eval_opd E (top_after top bx') R1 y false = (c2, by') ->
    pop_value R1 by' = (c2', rhs) -> pop_value R0 bx' = (c3, lhs) ->
    plc (c1 ++ c2 ++ c2' ++ c3) p ->
    lhs = sym_of R0 bx /\ rhs = sym_of R1 by_ /\
    runs (mk p m) [] (mk (p + size (c1 ++ c2 ++ c2' ++ c3)) m').
Proof.
  intros Sx Sy top m L Ro Ox Oy T kx bx by_ m'.
  assert (W0 : 0 <= w) by lia.
  unfold temps_cmp in T. fold kx in T.
  assert (Tx : Z.of_nat (temps x kx) * w <= FP m - top - lo) by (eapply room_le; [exact W0 | apply Nat.le_max_l | exact T]).
  assert (Td : Z.of_nat (pushed x kx + temps y false) * w <= FP m - top - lo) by (eapply room_le; [exact W0 | apply Nat.le_max_r | exact T]).
  rewrite Nat2Z.inj_add, Z.mul_add_distr_r in Td.
  assert (Py : 0 <= Z.of_nat (temps y false) * w) by (apply Z.mul_nonneg_nonneg; lia).
  assert (Pd : 0 <= Z.of_nat (pushed x kx) * w) by (apply Z.mul_nonneg_nonneg; lia).
  (* left operand *)
  destruct (Sx top R0 kx m (or_introl eq_refl) L Ro Ox Tx) as [A1 [V1 C1]].
  set (m1 := eval_mem top R0 x kx m) in *.
  pose proof (regs_ok_agree _ m m1 L A1) as L1. pose proof (FP_agree _ m m1 L A1) as F1.
  pose proof (room_ok_agree _ top m m1 L A1 Ro) as Ro1.
  set (top1 := top_after top bx) in *.
  assert (Et : top1 = top + Z.of_nat (pushed x kx) * w) by (unfold top1, bx; rewrite top_after_bub, HwE; reflexivity).
  assert (Ro1' : room_ok top1 m1).
  { destruct Ro1 as [H1 H2 H3 H4]. constructor; rewrite ?F1 in *; lia. }
  assert (Bx1 : bub_ok (FP m1 - top1) m1 bx).
  { unfold top1, bx. apply bub_of_ok; [left; reflexivity | exact L1 | exact Ro1 | | rewrite F1; lia].
    rewrite F1. apply (oexp_ok_agree _ (FP m - top) m m1); assumption. }
  assert (Oy1 : oexp_ok (FP m1 - top1) m1 y).
  { apply (oexp_ok_mono (FP m - top)); [rewrite F1; lia|]. apply (oexp_ok_agree _ (FP m - top) m m1); assumption. }
  (* right operand *)
  destruct (Sy top1 R1 false m1 (or_intror eq_refl) L1 Ro1' Oy1) as [A2 [V2 C2]]; [rewrite F1; lia|].
  set (m2 := eval_mem top1 R1 y false m1) in *.
  pose proof (regs_ok_agree _ m1 m2 L1 A2) as L2. pose proof (FP_agree _ m1 m2 L1 A2) as F2.
  assert (V2' : bub_val m2 by_ = wval m y).
  { unfold by_. fold top1. rewrite V2. apply (wval_agree (FP m - top)); assumption. }
  assert (Vx2 : bub_val m2 bx = wval m x).
  { rewrite <- V1. destruct (resident bx) eqn:Rb.
    - apply (bub_val_agree (FP m1 - top1)); assumption.
    - (* the left value is in r0: the right operand is safe and its evaluation emits nothing *)
      assert (Sfy : is_safe y = true).
      { destruct (Bool.bool_dec (is_safe y) true) as [e|n]; [exact e|]. apply Bool.not_true_is_false in n.
        unfold bx, kx in Rb. rewrite n in Rb. cbn [negb] in Rb. rewrite bub_of_keep_resident in Rb. discriminate. }
      unfold m2. now rewrite (eval_mem_safe _ _ y _ _ Sfy (andb_false_r _)). }
  assert (By2 : bub_ok (FP m2 - top1) m2 by_).
  { pose proof (bub_of_ok top1 R1 y false m2 (or_intror eq_refl) L2 (room_ok_agree _ top1 m1 m2 L1 A2 Ro1')) as B.
    rewrite top_after_bub in B. unfold pushed in B. cbn [andb] in B. change (Z.of_nat 0) with 0 in B.
    replace (top1 + 0 * wsize E) with top1 in B by lia. apply B; [|rewrite F2, F1; lia].
    rewrite F2. apply (oexp_ok_agree _ (FP m1 - top1) m1 m2); assumption. }
  (* pop right into r1 *)
  destruct (pop_props R1 by_ _ m2 (or_intror eq_refl) L2 By2) as [A3 [S3 C3]].
  set (m3 := pop_mem R1 by_ m2) in *.
  pose proof (regs_ok_agree _ m2 m3 L2 A3) as L3. pose proof (FP_agree _ m2 m3 L2 A3) as F3.
  assert (Bx2 : bub_ok (FP m1 - top1) m2 bx) by (apply (bub_ok_agree _ (FP m1 - top1) m1 m2); assumption).
  assert (Hlo : lo <= FP m1 - top1) by (rewrite F1; lia).
  assert (Bx3 : bub_ok lo m3 bx).
  { apply (bub_ok_agree _ lo m2 m3); [exact L2 | exact A3 |]. apply (bub_ok_mono (FP m1 - top1)); assumption. }
  assert (Vx3 : bub_val m3 bx = wval m x).
  { rewrite <- Vx2. destruct (resident bx) eqn:Rb.
    - apply (bub_val_agree lo); [exact L2 | exact A3 | exact Rb |]. apply (bub_ok_mono (FP m1 - top1)); assumption.
    - assert (Eb : (bx = BuReg R0 \/ exists g, bx = BuReg (RGlob g)) \/ (bx = BuRegB R0 \/ exists g, bx = BuRegB (RGlob g))).
      { unfold bx in *. destruct x as [ch z|i|op' x1 x2|u' x1|g|tx|yj]; cbn [bub_of resident] in Rb |- *; try discriminate.
        - left. destruct kx; first [discriminate | left; reflexivity | right; eexists; reflexivity].
        - left. destruct kx; first [discriminate | left; reflexivity | right; eexists; reflexivity].
        - left. destruct kx; first [discriminate | left; reflexivity | right; eexists; reflexivity].
        - right. cbn [oexp_ok] in Ox. destruct Ox as [_ Sh]. destruct tx; try (exfalso; exact Sh); cbn [bub_of to_byte resident] in Rb |- *;
            destruct kx; first [discriminate | left; reflexivity | right; eexists; reflexivity]. }
      destruct Eb as [[Eb | [g Eb]] | [Eb | [g Eb]]]; rewrite Eb in *; cbn [bub_val regaddr]; unfold m3.
      + apply lw_pop_other; cbn [regaddr]; destruct L2; try assumption; lia.
      + cbn [bub_ok] in Bx2. destruct Bx2 as [Q|[Q|[G0 [G1 [G2 [G3 G4]]]]]]; try discriminate Q.
        apply lw_pop_other; cbn [regaddr]; [apply (lo_r1 m2 L2) | exact G0 | lia].
      + apply lb_pop_other; cbn [regaddr]; destruct L2; try assumption; lia.
      + cbn [bub_ok] in Bx2. destruct Bx2 as [[Q|[Q|[G0 [G1 [G2 [G3 G4]]]]]] _]; try discriminate Q.
        apply lb_pop_other; cbn [regaddr]; [apply (lo_r1 m2 L2) | exact G0 | lia]. }
  (* pop left into r0 *)
  destruct (pop_props R0 bx _ m3 (or_introl eq_refl) L3 Bx3) as [A4 [S4 C4]].
  assert (Em : m' = pop_mem R0 bx m3) by reflexivity.
  assert (S3' : symval m' (sym_of R1 by_) = Some (wval m y)).
  { rewrite Em, symval_pop_other; [rewrite S3, V2'; reflexivity | exact L3 | left; reflexivity |].
    pose proof (sym_of_bub_of R1 top1 y false (or_intror eq_refl)) as Q. fold by_ in Q.
    destruct (sym_of R1 by_) as [z|r'|l|c|r'|x0] eqn:Esy; [exact I | | destruct Q | exact I | exact I | exact I].
    destruct Q as [-> | [g [-> [Ey _]]]]; cbn [regaddr].
    - destruct L3; lia.
    - assert (Eby : by_ = BuReg (RGlob g)) by (unfold by_; rewrite Ey; reflexivity).
      rewrite Eby in By2. cbn [bub_ok] in By2. destruct By2 as [Q|[Q|[G0 [G1 [G2 _]]]]]; try discriminate Q. split; [exact G0 | lia]. }
  assert (Ag : agree (FP m - top) m m').
  { eapply agree_trans; [exact A1|]. eapply agree_trans; [apply (agree_mono (FP m1 - top1)); [rewrite F1; lia | exact A2]|].
    eapply agree_trans; [apply (agree_mono lo); [lia | exact A3]|]. rewrite Em. apply (agree_mono lo); [lia | exact A4]. }
  split; [exact Ag|]. split; [rewrite Em, S4, Vx3; reflexivity|]. split; [exact S3'|].
  intros c1 bx' c2 by' c2' rhs c3 lhs p E1 E2 E3 E4 P.
  assert (Ebx : bx' = bx) by (pose proof (eval_opd_bub E x top R0 kx) as Q; rewrite E1 in Q; exact Q).
  subst bx'. fold top1 in E2.
  assert (Eby : by' = by_) by (pose proof (eval_opd_bub E y top1 R1 false) as Q; rewrite E2 in Q; exact Q).
  subst by'.
  split; [unfold sym_of; now rewrite E4|]. split; [unfold sym_of; now rewrite E3|].
  apply placed_app in P. destruct P as [P1 P]. apply placed_app in P. destruct P as [P2 P].
  apply placed_app in P. destruct P as [P3 P4].
  rewrite !size_app.
  change (@nil event) with (@nil event ++ ([] ++ ([] ++ []))).
  eapply runs_trans; [apply (C1 c1 bx p E1 P1)|].
  eapply runs_trans; [apply (C2 c2 by_ _ E2 P2)|].
  eapply runs_trans; [apply (C3 c2' rhs _ E3 P3)|].
  rewrite Em. replace (p + (size c1 + (size c2 + (size c2' + size c3)))) with (p + size c1 + size c2 + size c2' + size c3) by lia.
  apply (C4 c3 lhs _ E4 P4).
Qed.

(* push_value of a computed result *)
Definition push_code (top : Z) (rg : reg) (keep : bool) : list aline :=
  if keep then [AInstr (ASwso (SReg RFp) (SLit (- (top + w))) (SReg rg))] else [].
Definition fin_bub (top : Z) (rg : reg) (keep : bool) : bubble := if keep then BuPushed (top + w) else BuReg rg.
Lemma finish_opd_eq top rg keep cd : finish_opd E top rg keep cd = (cd ++ push_code top rg keep, fin_bub top rg keep).
Proof. unfold finish_opd, push_code, fin_bub. rewrite HwE. destruct keep; [reflexivity | now rewrite app_nil_r]. Qed.
Lemma push_props top rg keep m0 m5 : rg = R0 \/ rg = R1 -> regs_ok m0 -> room_ok top m0 ->
  agree (FP m0 - top) m0 m5 -> (keep = true -> w <= FP m0 - top - lo) ->
  let m' := push_mem keep top rg m5 in
  agree (FP m0 - top) m0 m' /\
  bub_val m' (fin_bub top rg keep) = lw m5 (ra rg) /\
  forall p, plc (push_code top rg keep) p -> runs (mk p m5) [] (mk (p + size (push_code top rg keep)) m').
Proof.
  intros Hr L0 Ro0 A5 Hk m'.
  pose proof (regs_ok_agree _ m0 m5 L0 A5) as L5. pose proof (FP_agree _ m0 m5 L0 A5) as F5.
  pose proof (room_ok_agree _ top m0 m5 L0 A5 Ro0) as Ro5.
  destruct keep; unfold m', push_mem, push_code, fin_bub; cbn [bub_val size].
  - specialize (Hk eq_refl).
    destruct (pushed_slot_ok top m5 L5 Ro5) as [O1 [O2 [O3 O4]]]; [rewrite F5; lia|].
    set (a := FP m5 - (top + w)) in *. set (z := lw m5 (ra rg)).
    assert (As : agree (FP m0 - top) m5 (sw m5 a z)).
    { apply agree_sw; [exact O2|]. right. right. unfold a. destruct Ro5. rewrite F5 in *. lia. }
    split; [eapply agree_trans; eauto|]. split.
    + rewrite (FP_agree _ m5 _ L5 As). fold a. rewrite (lw_sw_same w Hw1) by exact O2.
      apply (wrap_small w). apply (lw_range w Hw1). apply (lo_wf m5 L5).
    + intros p P. cbn [plc res_ins res_sym regaddr] in P. destruct P as [C _].
      assert (Ir : inb m5 (ra rg) w = true) by (destruct L5, Hr; subst rg; cbn [regaddr]; assumption).
      pose proof (act_swso w code cmem p m5 (St fp) (Imm (- (top + w))) (St (ra rg)) (FP m5) (wrap (- (top + w))) z C
                    (oval_st w cmem m5 fp (lo_if m5 L5)) (oval_imm w cmem m5 _) (oval_st w cmem m5 _ Ir)) as A.
      rewrite (frame_addr m5 _ L5 O1) in A. fold a in A. specialize (A O3).
      replace (p + (1 + 0)) with (p + 1) by lia. apply (runs_next act _ _ None A).
  - split; [exact A5|]. split; [reflexivity|]. intros p _. replace (p + 0) with p by lia. apply runs_refl.
Qed.
Lemma reg_eqb_refl r : reg_eqb r r = true.
Proof. destruct r; try reflexivity; apply Nat.eqb_refl. Qed.

Ltac szn := repeat progress (rewrite ?size_app; cbn [size goto]).
Ltac szn_in H := repeat progress (rewrite ?size_app in H; cbn [size goto] in H).
(* close a goal `runs (mk a m) [] (mk b m')` with G : runs (mk a' m) [] (mk b' m'), a = a', b = b' by lia *)
Ltac close_with G :=
  szn; szn_in G;
  match goal with |- HidV.Sphinx.Halts.runs _ (mk ?a _) _ _ =>
    match type of G with HidV.Sphinx.Halts.runs _ (mk ?b _) _ _ => replace a with b by lia end end;
  match goal with |- HidV.Sphinx.Halts.runs _ _ _ (mk ?a _) =>
    match type of G with HidV.Sphinx.Halts.runs _ _ _ (mk ?b _) => replace a with b by lia end end;
  exact G.

Theorem eval_opd_props o : eval_spec o.
Proof.
  induction o as [ch z|i|op x IHx y IHy|u x IHx|g|tx IHt|yj]; intros top rg keep m Hr L Ro O T m'.
  - (* literal *)
    split; [apply agree_refl|]. split; [reflexivity|]. intros c bub p Ev _. cbn [eval_opd] in Ev. inversion Ev; subst.
    cbn [size]. replace (p + 0) with p by lia. apply runs_refl.
  - (* local *)
    split; [apply agree_refl|]. split; [reflexivity|]. intros c bub p Ev _. cbn [eval_opd] in Ev. inversion Ev; subst.
    cbn [size]. replace (p + 0) with p by lia. apply runs_refl.
  - (* binary arithmetic *)
    cbn [oexp_ok] in O. destruct O as [Oop [Ox Oy]]. cbn [temps] in T.
    assert (W0 : 0 <= w) by lia.
    assert (Tp : Z.of_nat (temps_cmp x y) * w <= FP m - top - lo) by (eapply room_le; [exact W0 | apply Nat.le_max_l | exact T]).
    assert (Hk : keep = true -> w <= FP m - top - lo).
    { intros ->. assert (Z.of_nat 1 * w <= FP m - top - lo) by (eapply room_le; [exact W0 | apply Nat.le_max_r | exact T]). lia. }
    destruct (pair_props x y IHx IHy top m L Ro Ox Oy Tp) as [A4 [Sl [Sr C]]].
    set (kx := negb (is_safe y)) in *. set (bx := bub_of E top R0 x kx) in *.
    set (by_ := bub_of E (top_after top bx) R1 y false) in *. set (m4 := pair_mem top x y m) in *.
    pose proof (regs_ok_agree _ m m4 L A4) as L4.
    set (o := OArith op x y). set (m5 := sw m4 (ra rg) (wval m o)).
    change m' with (push_mem keep top rg m5).
    assert (Ir : 0 <= ra rg /\ inb m4 (ra rg) w = true) by (destruct L4, Hr; subst rg; cbn [regaddr]; split; assumption).
    destruct Ir as [Ir0 Ir1].
    assert (A5 : agree (FP m - top) m m5).
    { eapply agree_trans; [exact A4|]. apply agree_sw; [exact Ir0|]. destruct (ra_cases rg Hr) as [->| ->]; auto. }
    assert (V5 : lw m5 (ra rg) = wval m o).
    { unfold m5. rewrite (lw_sw_same w Hw1) by exact Ir0. unfold o. cbn [wval]. apply (wrap_wrap w Hw1). }
    destruct (push_props top rg keep m m5 Hr L Ro A5 Hk) as [A6 [V6 C6]].
    split; [exact A6|]. split.
    { unfold o in *. cbn [bub_of]. rewrite HwE. fold (fin_bub top rg keep). rewrite V6. exact V5. }
    intros c bub p Ev P. unfold o in Ev. cbn [eval_opd] in Ev. fold kx in Ev.
    destruct (eval_opd E top R0 x kx) as [c1 bx'] eqn:E1.
    destruct (eval_opd E (top_after top bx') R1 y false) as [c2 by'] eqn:E2.
    destruct (pop_value R1 by') as [c2' rhs] eqn:E3. destruct (pop_value R0 bx') as [c3 lhs] eqn:E4.
    rewrite finish_opd_eq in Ev. inversion Ev; subst c bub; clear Ev.
    assert (Eq : c1 ++ c2 ++ c2' ++ c3 ++ [AInstr (AArith (arith_instr op) rg lhs rhs)]
                 = (c1 ++ c2 ++ c2' ++ c3) ++ [AInstr (AArith (arith_instr op) rg lhs rhs)])
      by (rewrite <- !app_assoc; reflexivity).
    rewrite Eq in *. clear Eq.
    apply placed_app in P. destruct P as [P P6]. apply placed_app in P. destruct P as [P4 Pi].
    destruct (C c1 bx' c2 by' c2' rhs c3 lhs p eq_refl E2 E3 E4 P4) as [El [Er R4]].
    cbn [plc res_ins] in Pi. destruct Pi as [Ci _].
    destruct (arith_ok op (wval m x) (wval m y) Oop (wval_range m x (lo_wf m L)) (wval_range m y (lo_wf m L))) as [r [Ar Wr]].
    rewrite (sgn_wval _ m x (lo_wf m L) Ox), (sgn_wval _ m y (lo_wf m L) Oy) in Wr.
    subst lhs rhs.
    pose proof (act_arith w code cmem _ m4 (arith_instr op) (ra rg) _ _ _ _ r Ci
                  (symval_oval _ _ _ Sl) (symval_oval _ _ _ Sr) Ar Ir1) as Aa.
    assert (Es : sw m4 (ra rg) r = m5).
    { unfold m5. apply sw_wrap_eq. unfold o. cbn [wval]. rewrite (wrap_wrap w Hw1). exact Wr. }
    rewrite Es in Aa.
    change (@nil event) with (@nil event ++ ([] ++ [])).
    eapply runs_trans; [exact R4|]. eapply runs_trans; [apply (runs_next act _ _ None Aa)|].
    cbn [evl]. pose proof (C6 _ P6) as G. close_with G.
  - (* unary *)
    cbn [oexp_ok] in O. cbn [temps] in T.
    assert (W0 : 0 <= w) by lia.
    assert (Tx : Z.of_nat (temps x false) * w <= FP m - top - lo) by (eapply room_le; [exact W0 | apply Nat.le_max_l | exact T]).
    assert (Hk : keep = true -> w <= FP m - top - lo).
    { intros ->. assert (Z.of_nat 1 * w <= FP m - top - lo) by (eapply room_le; [exact W0 | apply Nat.le_max_r | exact T]). lia. }
    destruct (IHx top rg false m Hr L Ro O Tx) as [A1 [V1 C1]].
    set (m1 := eval_mem top rg x false m) in *. set (b := bub_of E top rg x false) in *.
    pose proof (regs_ok_agree _ m m1 L A1) as L1. pose proof (FP_agree _ m m1 L A1) as F1.
    pose proof (room_ok_agree _ top m m1 L A1 Ro) as Ro1.
    assert (Bok : bub_ok (FP m1 - top) m1 b).
    { pose proof (bub_of_ok top rg x false m1 Hr L1 Ro1) as B. rewrite top_after_bub in B. fold b in B.
      unfold pushed in B. cbn [andb] in B. change (Z.of_nat 0) with 0 in B. replace (top + 0 * wsize E) with top in B by lia.
      apply B; [|destruct Ro1; lia]. rewrite F1. apply (oexp_ok_agree _ (FP m - top) m m1); assumption. }
    destruct (pop_props rg b _ m1 Hr L1 Bok) as [A2 [S2 C2]].
    set (m2 := pop_mem rg b m1) in *. rewrite V1 in S2.
    pose proof (regs_ok_agree _ m1 m2 L1 A2) as L2.
    assert (A12 : agree (FP m - top) m m2).
    { eapply agree_trans; [exact A1|]. apply (agree_mono lo); [destruct Ro; lia | exact A2]. }
    assert (Ir : 0 <= ra rg /\ inb m2 (ra rg) w = true) by (destruct L2, Hr; subst rg; cbn [regaddr]; split; assumption).
    destruct Ir as [Ir0 Ir1].
    set (o := OUn u x).
    set (m3 := match u, x with UPos, OLit _ z => sw m2 (ra rg) (wrap z) | UPos, OGlob g => sw m2 (ra rg) (lw m2 (a_glob R g)) | UPos, _ => m2 | UNeg, _ => sw m2 (ra rg) (wval m (OUn UNeg x)) end).
    change m' with (push_mem keep top rg m3).
    set (ucode := match u with UNeg => [AInstr (AArith Asub rg (SLit 0) (sym_of rg b))]
                           | UPos => if is_state_of rg (sym_of rg b) then [] else [AInstr (AMov rg (sym_of rg b))] end).
    assert (U : agree (FP m - top) m m3 /\ lw m3 (ra rg) = wval m o /\
                forall q, plc ucode q -> runs (mk q m2) [] (mk (q + size ucode) m3)).
    { assert (Asw : forall v, agree (FP m - top) m (sw m2 (ra rg) v)).
      { intros v. eapply agree_trans; [exact A12|]. apply agree_sw; [exact Ir0|]. destruct (ra_cases rg Hr) as [->| ->]; auto. }
      assert (Rx : inrange w (wval m x)) by (apply wval_range; apply (lo_wf m L)).
      destruct u.
      - (* neg *)
        assert (Em3 : m3 = sw m2 (ra rg) (wval m (OUn UNeg x))) by (unfold m3; destruct x; reflexivity).
        rewrite Em3. split; [apply Asw|]. split.
        + rewrite (lw_sw_same w Hw1) by exact Ir0. unfold o. cbn [wval]. apply (wrap_wrap w Hw1).
        + intros q Pq. unfold ucode in *. cbn [plc res_ins res_sym] in Pq. destruct Pq as [Cq _].
          assert (W0' : wrap 0 = 0) by (apply (wrap_small w); pose proof (W_pos w Hw1); unfold inrange; lia).
          pose proof (act_arith w code cmem q m2 Asub (ra rg) (Imm 0) _ (wrap 0) (wval m x) (wrap 0 - wval m x) Cq
                        (oval_imm w cmem m2 0) (symval_oval _ _ _ S2) eq_refl Ir1) as Aa.
          assert (Es : sw m2 (ra rg) (wrap 0 - wval m x) = sw m2 (ra rg) (wval m (OUn UNeg x))).
          { apply sw_wrap_eq. cbn [wval]. rewrite (wrap_wrap w Hw1), W0'.
            rewrite (wrap_sub_sgn w Hw1 0 (wval m x)); [|pose proof (W_pos w Hw1); unfold inrange; lia | exact Rx].
            rewrite (sgn_small w 0) by (pose proof (half_pos w Hw1); lia).
            rewrite (sgn_wval _ m x (lo_wf m L) O). f_equal; lia. }
          rewrite Es in Aa. cbn [size]. replace (q + (1 + 0)) with (q + 1) by lia. apply (runs_next act _ _ None Aa).
      - (* pos *)
        assert (Vp : wval m o = wval m x).
        { unfold o. cbn [wval]. rewrite <- (sgn_wval _ m x (lo_wf m L) O). apply (wrap_sgn w Hw1). exact Rx. }
        destruct x as [ch z|i|op' x1 x2|u' x1|g|tx'|yj'].
        + (* a literal: `mov [rg], z` *)
          unfold m3, ucode, b. cbn [bub_of sym_of pop_value snd]. destruct ch; cbn [lit_sym is_state_of].
          all: (split; [apply Asw|]); (split;
            [ rewrite (lw_sw_same w Hw1) by exact Ir0; rewrite Vp; cbn [wval]; apply (wrap_wrap w Hw1)
            | intros q Pq; cbn [plc res_ins res_sym] in Pq; destruct Pq as [Cq _];
              pose proof (act_mov w code cmem q m2 (ra rg) (Imm z) (wrap z) Cq (oval_imm w cmem m2 z) Ir1) as Am;
              cbn [size]; replace (q + (1 + 0)) with (q + 1) by lia; apply (runs_next act _ _ None Am) ]).
        + unfold m3, ucode, b in *. cbn [bub_of sym_of pop_value snd is_state_of] in *. rewrite reg_eqb_refl.
          split; [exact A12|]. split.
          * rewrite Vp. cbn [symval] in S2. rewrite Ir1 in S2. injection S2 as S2'. exact S2'.
          * intros q _. cbn [size]. replace (q + 0) with q by lia. apply runs_refl.
        + unfold m3, ucode, b in *. cbn [bub_of sym_of pop_value snd is_state_of] in *. rewrite reg_eqb_refl.
          split; [exact A12|]. split.
          * rewrite Vp. cbn [symval] in S2. rewrite Ir1 in S2. injection S2 as S2'. exact S2'.
          * intros q _. cbn [size]. replace (q + 0) with q by lia. apply runs_refl.
        + unfold m3, ucode, b in *. cbn [bub_of sym_of pop_value snd is_state_of] in *. rewrite reg_eqb_refl.
          split; [exact A12|]. split.
          * rewrite Vp. cbn [symval] in S2. rewrite Ir1 in S2. injection S2 as S2'. exact S2'.
          * intros q _. cbn [size]. replace (q + 0) with q by lia. apply runs_refl.
        + (* a global: `mov [rg], [var_g]` *)
          unfold m3, ucode, b in *. cbn [bub_of sym_of pop_value snd is_state_of] in *.
          assert (Er : reg_eqb rg (RGlob g) = false) by (destruct Hr; subst; reflexivity). rewrite Er.
          assert (Vg : inb m2 (a_glob R g) w = true /\ lw m2 (a_glob R g) = wval m (OGlob g)).
          { cbn [symval regaddr] in S2. destruct (inb m2 (a_glob R g) w) eqn:Ei; [|discriminate S2]. split; [reflexivity | congruence]. }
          destruct Vg as [Ig Vg]. split; [apply Asw|]. split.
          * rewrite (lw_sw_same w Hw1) by exact Ir0. rewrite Vp, Vg. apply (wrap_small w). exact Rx.
          * intros q Pq. cbn [plc res_ins res_sym regaddr] in Pq. destruct Pq as [Cq _].
            pose proof (act_mov w code cmem q m2 (ra rg) (St (a_glob R g)) _ Cq (oval_st w cmem m2 _ Ig) Ir1) as Am.
            cbn [size]. replace (q + (1 + 0)) with (q + 1) by lia. apply (runs_next act _ _ None Am).
        + (* a byte access: loaded into [rg] by the pop, no instruction *)
          pose proof O as O'. cbn [oexp_ok] in O'. destruct O' as [_ Sh].
          destruct tx' as [ch z|i|op' y1 y2|u' y1|g|tx''|yj'']; try (exfalso; exact Sh);
            unfold m3, ucode, b in *; cbn [bub_of to_byte sym_of pop_value snd is_state_of] in *; rewrite reg_eqb_refl;
            (split; [exact A12|]);
            (split; [rewrite Vp; cbn [symval] in S2; rewrite Ir1 in S2; injection S2 as S2'; exact S2'
                    | intros q _; cbn [size]; replace (q + 0) with q by lia; apply runs_refl]).
        + unfold m3, ucode, b in *. cbn [bub_of sym_of pop_value snd is_state_of] in *. rewrite reg_eqb_refl.
          split; [exact A12|]. split.
          * rewrite Vp. cbn [symval] in S2. rewrite Ir1 in S2. injection S2 as S2'. exact S2'.
          * intros q _. cbn [size]. replace (q + 0) with q by lia. apply runs_refl. }
    destruct U as [A3 [V3 C3]].
    destruct (push_props top rg keep m m3 Hr L Ro A3 Hk) as [A6 [V6 C6]].
    split; [exact A6|]. split.
    { unfold o in *. cbn [bub_of]. rewrite HwE. fold (fin_bub top rg keep). rewrite V6. exact V3. }
    intros c bub p Ev P. unfold o in Ev. cbn [eval_opd] in Ev.
    destruct (eval_opd E top rg x false) as [c1 b'] eqn:E1.
    assert (Eb : b' = b) by (pose proof (eval_opd_bub E x top rg false) as Q; rewrite E1 in Q; exact Q).
    subst b'. destruct (pop_value rg b) as [c2 v] eqn:E2.
    assert (Ev' : v = sym_of rg b) by (unfold sym_of; now rewrite E2).
    subst v. fold ucode in Ev. rewrite finish_opd_eq in Ev. inversion Ev; subst c bub; clear Ev.
    assert (Eq : c1 ++ c2 ++ ucode = (c1 ++ c2) ++ ucode) by (rewrite <- app_assoc; reflexivity).
    rewrite Eq in *. clear Eq.
    apply placed_app in P. destruct P as [P P6]. apply placed_app in P. destruct P as [P12 Pu].
    apply placed_app in P12. destruct P12 as [P1 P2].
    change (@nil event) with (@nil event ++ ([] ++ ([] ++ []))).
    eapply runs_trans; [apply (C1 c1 b p eq_refl P1)|].
    eapply runs_trans; [apply (C2 c2 _ _ eq_refl P2)|].
    rewrite size_app in Pu. replace (p + (size c1 + size c2)) with (p + size c1 + size c2) in Pu by lia.
    eapply runs_trans; [apply (C3 _ Pu)|].
    pose proof (C6 _ P6) as G. close_with G.
  - (* an int global: its own word, or a copy pushed on the frame *)
    cbn [oexp_ok temps] in O, T. destruct O as [G0 [G1 G2]]. unfold m'. destruct keep; cbn [eval_mem bub_of eval_opd].
    + change (Z.of_nat 1) with 1 in T.
      destruct (pushed_slot_ok top m L Ro ltac:(lia)) as [O1 [O2 [O3 O4]]].
      set (a := FP m - (top + w)) in *. set (z := lw m (a_glob R g)).
      assert (As : agree (FP m - top) m (sw m a z)).
      { apply agree_sw; [exact O2|]. right. right. unfold a. destruct Ro. lia. }
      split; [exact As|]. split.
      * rewrite HwE. cbn [bub_val]. rewrite (FP_agree _ m _ L As). fold a. rewrite (lw_sw_same w Hw1) by exact O2.
        apply (wrap_small w). apply (lw_range w Hw1). apply (lo_wf m L).
      * intros c bub p Ev P. inversion Ev; subst c bub; clear Ev. rewrite HwE in P.
        cbn [plc res_ins res_sym regaddr] in P. destruct P as [C _].
        pose proof (act_swso w code cmem p m (St fp) (Imm (- (top + w))) (St (a_glob R g)) (FP m) (wrap (- (top + w))) z C
                      (oval_st w cmem m fp (lo_if m L)) (oval_imm w cmem m _) (oval_st w cmem m _ G1)) as A.
        rewrite (frame_addr m _ L O1) in A. fold a in A. specialize (A O3).
        cbn [size]. replace (p + (1 + 0)) with (p + 1) by lia. apply (runs_next act _ _ None A).
    + split; [apply agree_refl|]. split; [reflexivity|]. intros c bub p Ev _. inversion Ev; subst.
      cbn [size]. replace (p + 0) with p by lia. apply runs_refl.
  - (* byte access of an operand: the same code, the value read through its low byte *)
    cbn [oexp_ok] in O. destruct O as [Ox Sh]. cbn [temps] in T.
    destruct (IHt top rg keep m Hr L Ro Ox T) as [A [V C]].
    split; [exact A|]. split.
    + cbn [bub_of wval]. rewrite <- V. apply bub_val_to_byte.
      * apply (lo_wf _ (regs_ok_agree _ m _ L A)).
      * destruct tx; try (exfalso; exact Sh); cbn [bub_of]; destruct keep; exact I.
    + intros c bub p Ev P. cbn [eval_opd] in Ev. destruct (eval_opd E top rg tx keep) as [c0 b0] eqn:E0.
      inversion Ev; subst. apply (C _ _ p eq_refl P).
  - (* a byte-sized local read as an int *)
    split; [apply agree_refl|]. split; [reflexivity|]. intros c bub p Ev _. cbn [eval_opd] in Ev. inversion Ev; subst.
    cbn [size]. replace (p + 0) with p by lia. apply runs_refl.
Qed.

(* ---------- comparison operands ---------- *)
Lemma cmp_props a b m : regs_ok m -> room_ok (stack_top E) m ->
  oexp_ok (HI m) m a -> oexp_ok (HI m) m b -> Z.of_nat (temps_cmp a b) * w <= HI m - lo ->
  let m' := pair_mem (stack_top E) a b m in
  agree (HI m) m m' /\
  forall co lhs rhs p, compare_operands E a b = (co, lhs, rhs) -> plc co p ->
    runs (mk p m) [] (mk (p + size co) m') /\
    oval m' (rs lhs) = Some (wval m a) /\ oval m' (rs rhs) = Some (wval m b).
Proof.
  intros L Ro Oa Ob T m'. unfold HI in *.
  destruct (pair_props a b (eval_opd_props a) (eval_opd_props b) (stack_top E) m L Ro Oa Ob T) as [Ag [Sl [Sr C]]].
  split; [exact Ag|]. intros co lhs rhs p Ec P. unfold compare_operands in Ec.
  destruct (eval_opd E (stack_top E) R0 a (negb (is_safe b))) as [c1 bx'] eqn:E1.
  destruct (eval_opd E (top_after (stack_top E) bx') R1 b false) as [c2 by'] eqn:E2.
  destruct (pop_value R1 by') as [c2' rhs'] eqn:E3. destruct (pop_value R0 bx') as [c3 lhs'] eqn:E4.
  inversion Ec; subst co lhs rhs; clear Ec.
  destruct (C c1 bx' c2 by' c2' rhs' c3 lhs' p eq_refl E2 E3 E4 P) as [El [Er Rn]].
  subst lhs' rhs'. split; [exact Rn|]. split; apply symval_oval; assumption.
Qed.

(* ---------- frame condition and trace of the whole expression ---------- *)
Lemma run_mem_agree e : forall m, layout_ok m -> vars_ok m e -> agree (HI m) m (run_mem e m).
Proof.
  induction e as [b|j|op a b|e IH|e1 IH1 e2 IH2|e1 IH1 e2 IH2]; intros m L V; cbn [run_mem vars_ok] in *.
  - apply agree_refl.
  - apply agree_sw; [apply (lo_r1 m (proj1 L)) | right; left; reflexivity].
  - destruct L as [L Ro]. destruct V as [Va [Vb Vt]]. apply (cmp_props a b m L Ro Va Vb Vt).
  - apply IH; assumption.
  - destruct V as [V1 V2]. pose proof (IH1 m L V1) as A1. destruct (beval m e1); [|exact A1].
    eapply agree_trans; [exact A1|]. rewrite <- (HI_agree _ m _ (proj1 L) A1).
    apply IH2; [eapply layout_ok_agree; eauto | eapply vars_ok_agree; [exact (proj1 L) | exact A1 | exact V2]].
  - destruct V as [V1 V2]. pose proof (IH1 m L V1) as A1. destruct (beval m e1); [exact A1|].
    eapply agree_trans; [exact A1|]. rewrite <- (HI_agree _ m _ (proj1 L) A1).
    apply IH2; [eapply layout_ok_agree; eauto | eapply vars_ok_agree; [exact (proj1 L) | exact A1 | exact V2]].
Qed.
Lemma run_mem_trace e : forall m, layout_ok m -> vars_ok m e ->
  run_mem e m = fold_left atom_mem (trace m e) m.
Proof.
  induction e as [b|j|op a b|e IH|e1 IH1 e2 IH2|e1 IH1 e2 IH2]; intros m L V; cbn [run_mem vars_ok trace] in *; try reflexivity.
  - apply IH; assumption.
  - destruct V as [V1 V2]. rewrite fold_left_app, <- (IH1 m L V1).
    pose proof (run_mem_agree e1 m L V1) as A1.
    destruct (beval m e1); [|reflexivity].
    rewrite <- (trace_agree m (run_mem e1 m) e2 (proj1 L) A1 V2).
    apply IH2; [eapply layout_ok_agree; eauto | eapply vars_ok_agree; [exact (proj1 L) | exact A1 | exact V2]].
  - destruct V as [V1 V2]. rewrite fold_left_app, <- (IH1 m L V1).
    pose proof (run_mem_agree e1 m L V1) as A1.
    destruct (beval m e1); [reflexivity|].
    rewrite <- (trace_agree m (run_mem e1 m) e2 (proj1 L) A1 V2).
    apply IH2; [eapply layout_ok_agree; eauto | eapply vars_ok_agree; [exact (proj1 L) | exact A1 | exact V2]].
Qed.

(* ---------- the induction over the expression tree ---------- *)
Lemma ends_goto_kl pre g : forallb simple pre = true ->
  ends_goto (kl pre g) = match g with Some _ => true | None => false end.
Proof. intros S. destruct g; [apply ends_goto_kl_some | apply ends_goto_kl_none, S]. Qed.

Theorem lower_runs e : forall pt gt pf gf st C st' p m,
  lower_branch E e (kl pt gt) (kl pf gf) st = (C, st') ->
  forallb simple pt = true -> forallb simple pf = true ->
  plc C p -> layout_ok m -> vars_ok m e ->
  forall m'', run_simple (if beval m e then pt else pf) (run_mem e m) = Some m'' ->
  runs (mk p m) [] (mk (kexit (if beval m e then gt else gf) (p + size C)) m'').
Proof.
  induction e as [b|j|op a b|e IH|e1 IH1 e2 IH2|e1 IH1 e2 IH2];
    intros pt gt pf gf st C st' p m L Spt Spf P Lo V m'' Rs.
  - (* BLit *)
    cbn [lower_branch] in L. inversion L; subst C st'; clear L. cbn [beval run_mem] in *.
    destruct b; apply kont_runs; assumption.
  - (* BVar *)
    cbn [lower_branch] in L.
    destruct (add_label LIsTrue st) as [it st1]. destruct (add_label LBoolEnd st1) as [be st2].
    inversion L; subst C st'; clear L.
    destruct (load_bool_instr R1 j) as [ld Eld]. rewrite Eld in P |- *.
    cbn [app plc] in P. destruct P as [Cl [Cj [Cc P]]].
    apply placed_app in P. destruct P as [Pkf P].
    apply placed_app in P. destruct P as [Pgo P].
    cbn [app plc] in P. destruct P as [Lit [Cc' P]].
    apply placed_app in P. destruct P as [Pkt Pend].
    cbn [res_ins res_sym regaddr] in Cj, Cc, Cc'.
    destruct Lo as [Lo Ro].
    cbn [vars_ok] in V.
    cbn [run_mem beval] in Rs |- *.
    set (v := bval m j) in *.
    set (m1 := sw m r1 v) in *.
    (* the load *)
    pose proof (load_bool_act p m (HI m) R1 j ld (or_intror eq_refl) Lo V Eld Cl) as A. cbn [regaddr] in A. fold v m1 in A.
    eapply runs_tau; [exact A|].
    assert (Ov : oval m1 (St r1) = Some v).
    { unfold m1. rewrite (oval_st_sw_same w Hw cmem m _ _ (lo_r1 m Lo) (lo_i1 m Lo)). f_equal.
      apply (wrap_small w). pose proof (bval_range m j (lo_wf m Lo)) as Hb.
      fold v in Hb. pose proof (W_ge w Hw1). unfold inrange. lia. }
    rewrite <- Lit in Cc'.
    pose proof (branch_bool_idiom w Hw code cmem (p + 1) m1 (Imm (lab it)) (lab it) (St r1) v Cj Cc (oval_lab m1 it) Cc' Ov) as Br.
    change (@nil event) with (@nil event ++ []). eapply runs_trans; [exact Br|]. clear Br.
    rewrite (ends_goto_kl pf gf Spf) in *.
    szn.
    destruct (v =? 0) eqn:Ev; cbn [negb] in Rs |- *.
    + (* false: fall through into if_false *)
      pose proof (kont_runs pf gf (p + 1 + 1 + 1) m1 m'' Spf Pkf Rs) as K.
      replace (p + 1 + 2) with (p + 1 + 1 + 1) by lia.
      destruct gf as [Lf|]; cbn [kexit] in K |- *; [exact K|].
      change (@nil event) with (@nil event ++ []). eapply runs_trans; [exact K|].
      cbn [goto plc res_ins res_sym] in Pgo. destruct Pgo as [Gj [Gh _]].
      pose proof (goto_label w code cmem _ m'' (lab be) Gj Gh) as G.
      rewrite (wrap_small w (lab be) (lab_range be)) in G.
      cbn [plc] in Pend. destruct Pend as [Lbe _].
      rewrite Lbe in G. close_with G.
    + (* true: the target's test passes, into if_true *)
      rewrite Lit.
      pose proof (kont_runs pt gt _ m1 m'' Spt Pkt Rs) as K.
      destruct gt as [Lt|]; cbn [kexit] in K |- *; [exact K|].
      destruct gf as [Lf|]; close_with K.
  - (* BCmp *)
    cbn [lower_branch] in L.
    destruct (add_label LCompareIsTrue st) as [it st1]. destruct (add_label LCompareEnd st1) as [be st2].
    destruct Lo as [Lo Ro]. cbn [vars_ok] in V. destruct V as [Va [Vb Vt]].
    destruct (cmp_props a b m Lo Ro Va Vb Vt) as [Ag Cc0].
    destruct (compare_operands E a b) as [[co lhs] rhs] eqn:Eco.
    inversion L; subst C st'; clear L.
    apply placed_app in P. destruct P as [Pco P].
    cbn [app plc] in P. destruct P as [Cj [Cc P]].
    apply placed_app in P. destruct P as [Pkf P].
    apply placed_app in P. destruct P as [Pgo P].
    cbn [app plc] in P. destruct P as [Lit [Cc' P]].
    apply placed_app in P. destruct P as [Pkt Pend].
    cbn [res_ins res_sym regaddr] in Cj, Cc, Cc'.
    cbn [run_mem beval] in Rs |- *.
    destruct (Cc0 co lhs rhs p eq_refl Pco) as [Rco [Oa Ob2]].
    set (m2 := pair_mem (stack_top E) a b m) in *.
    change (@nil event) with (@nil event ++ ([] ++ [])).
    eapply runs_trans; [exact Rco|]. clear Rco.
    (* the branch *)
    rewrite <- Lit in Cc'.
    pose proof (branch_idiom_table w code cmem _ m2 (Imm (lab it)) (lab it) (compare_instr op)
                  (invert_instr (compare_instr op)) (rs lhs) (rs rhs) (wval m a) (wval m b)
                  (compare_instr_inv op) Cj Cc (oval_lab m2 it) Cc' Oa Ob2) as Br.
    rewrite (compare_instr_sem op _ _ (wval_range m a (lo_wf m Lo)) (wval_range m b (lo_wf m Lo))) in Br.
    rewrite (sgn_wval _ m a (lo_wf m Lo) Va), (sgn_wval _ m b (lo_wf m Lo) Vb) in Br.
    eapply runs_trans; [exact Br|]. clear Br.
    rewrite (ends_goto_kl pf gf Spf) in *.
    szn.
    destruct (cmp_sem op (sval m a) (sval m b)) eqn:Ev.
    + (* true *)
      rewrite Lit.
      pose proof (kont_runs pt gt _ m2 m'' Spt Pkt Rs) as K.
      destruct gt as [Lt|]; cbn [kexit] in K |- *; [exact K|].
      destruct gf as [Lf|]; close_with K.
    + (* false *)
      pose proof (kont_runs pf gf (p + size co + 1 + 1) m2 m'' Spf Pkf Rs) as K.
      replace (p + size co + 2) with (p + size co + 1 + 1) by lia.
      destruct gf as [Lf|]; cbn [kexit] in K |- *; [exact K|].
      change (@nil event) with (@nil event ++ []). eapply runs_trans; [exact K|].
      cbn [goto plc res_ins res_sym] in Pgo. destruct Pgo as [Gj [Gh _]].
      pose proof (goto_label w code cmem _ m'' (lab be) Gj Gh) as G.
      rewrite (wrap_small w (lab be) (lab_range be)) in G.
      cbn [plc] in Pend. destruct Pend as [Lbe _].
      rewrite Lbe in G. close_with G.
  - (* BNot *)
    cbn [lower_branch] in L. cbn [vars_ok beval run_mem] in *.
    specialize (IH pf gf pt gt st C st' p m L Spf Spt P Lo V m'').
    destruct (beval m e); cbn [negb] in *; apply IH; exact Rs.
  - (* BAnd *)
    cbn [lower_branch] in L.
    destruct (add_label LLeftIsTrue st) as [lt st1]. destruct (add_label LAndEnd st1) as [ae st2].
    rewrite (ends_goto_kl pf gf Spf) in L.
    cbn [vars_ok] in V. destruct V as [V1 V2].
    pose proof (run_mem_agree e1 m Lo V1) as A1.
    assert (Lo1 : layout_ok (run_mem e1 m)) by exact (layout_ok_agree _ m _ Lo A1).
    assert (V21 : vars_ok (run_mem e1 m) e2) by exact (vars_ok_agree m _ e2 (proj1 Lo) A1 V2).
    pose proof (beval_agree m (run_mem e1 m) e2 (proj1 Lo) A1 V2) as B2.
    cbn [beval run_mem] in Rs |- *.
    destruct gf as [Lf|].
    + destruct (lower_branch E e1 (goto lt) (kl pf (Some Lf)) st2) as [c1 st3] eqn:L1.
      destruct (lower_branch E e2 (kl pt gt) (kl pf (Some Lf)) st3) as [c2 st4] eqn:L2.
      inversion L; subst C st'; clear L.
      apply placed_app in P. destruct P as [P1 P].
      cbn [app plc] in P. destruct P as [Llt P]. rewrite app_nil_r in P.
      change (goto lt) with (kl [] (Some lt)) in L1.
      specialize (IH1 [] (Some lt) pf (Some Lf) st2 c1 st3 p m L1 eq_refl Spf P1 Lo V1).
      specialize (IH2 pt gt pf (Some Lf) st3 c2 st4 (p + size c1) (run_mem e1 m) L2 Spt Spf P Lo1 V21).
      rewrite B2 in IH2.
      szn. replace (p + (size c1 + (size c2 + 0))) with (p + size c1 + size c2) by lia.
      destruct (beval m e1); cbn [andb] in Rs |- *.
      * specialize (IH1 _ eq_refl). cbn [kexit] in IH1. rewrite Llt in IH1.
        change (@nil event) with (@nil event ++ []). eapply runs_trans; [exact IH1|]. apply IH2. exact Rs.
      * apply IH1. exact Rs.
    + rewrite kl_none_goto in L.
      destruct (lower_branch E e1 (goto lt) (kl pf (Some ae)) st2) as [c1 st3] eqn:L1.
      destruct (lower_branch E e2 (kl pt gt) (kl pf None) st3) as [c2 st4] eqn:L2.
      inversion L; subst C st'; clear L.
      apply placed_app in P. destruct P as [P1 P].
      cbn [app plc] in P. destruct P as [Llt P].
      apply placed_app in P. destruct P as [P2 Pend]. cbn [plc] in Pend. destruct Pend as [Lae _].
      change (goto lt) with (kl [] (Some lt)) in L1.
      specialize (IH1 [] (Some lt) pf (Some ae) st2 c1 st3 p m L1 eq_refl Spf P1 Lo V1).
      specialize (IH2 pt gt pf None st3 c2 st4 (p + size c1) (run_mem e1 m) L2 Spt Spf P2 Lo1 V21).
      rewrite B2 in IH2.
      szn. replace (p + (size c1 + (size c2 + 0))) with (p + size c1 + size c2) by lia.
      destruct (beval m e1); cbn [andb] in Rs |- *.
      * specialize (IH1 _ eq_refl). cbn [kexit] in IH1. rewrite Llt in IH1.
        change (@nil event) with (@nil event ++ []). eapply runs_trans; [exact IH1|]. apply IH2. exact Rs.
      * specialize (IH1 _ Rs). cbn [kexit] in IH1 |- *. rewrite Lae in IH1. exact IH1.
  - (* BOr *)
    cbn [lower_branch] in L.
    destruct (add_label LLeftIsFalse st) as [lf st1]. destruct (add_label LOrEnd st1) as [oe st2].
    rewrite (ends_goto_kl pt gt Spt) in L.
    cbn [vars_ok] in V. destruct V as [V1 V2].
    pose proof (run_mem_agree e1 m Lo V1) as A1.
    assert (Lo1 : layout_ok (run_mem e1 m)) by exact (layout_ok_agree _ m _ Lo A1).
    assert (V21 : vars_ok (run_mem e1 m) e2) by exact (vars_ok_agree m _ e2 (proj1 Lo) A1 V2).
    pose proof (beval_agree m (run_mem e1 m) e2 (proj1 Lo) A1 V2) as B2.
    cbn [beval run_mem] in Rs |- *.
    destruct gt as [Lt|].
    + destruct (lower_branch E e1 (kl pt (Some Lt)) (goto lf) st2) as [c1 st3] eqn:L1.
      destruct (lower_branch E e2 (kl pt (Some Lt)) (kl pf gf) st3) as [c2 st4] eqn:L2.
      inversion L; subst C st'; clear L.
      apply placed_app in P. destruct P as [P1 P].
      cbn [app plc] in P. destruct P as [Llf P]. rewrite app_nil_r in P.
      change (goto lf) with (kl [] (Some lf)) in L1.
      specialize (IH1 pt (Some Lt) [] (Some lf) st2 c1 st3 p m L1 Spt eq_refl P1 Lo V1).
      specialize (IH2 pt (Some Lt) pf gf st3 c2 st4 (p + size c1) (run_mem e1 m) L2 Spt Spf P Lo1 V21).
      rewrite B2 in IH2.
      szn. replace (p + (size c1 + (size c2 + 0))) with (p + size c1 + size c2) by lia.
      destruct (beval m e1); cbn [orb] in Rs |- *.
      * apply IH1. exact Rs.
      * specialize (IH1 _ eq_refl). cbn [kexit] in IH1. rewrite Llf in IH1.
        change (@nil event) with (@nil event ++ []). eapply runs_trans; [exact IH1|]. apply IH2. exact Rs.
    + rewrite kl_none_goto in L.
      destruct (lower_branch E e1 (kl pt (Some oe)) (goto lf) st2) as [c1 st3] eqn:L1.
      destruct (lower_branch E e2 (kl pt None) (kl pf gf) st3) as [c2 st4] eqn:L2.
      inversion L; subst C st'; clear L.
      apply placed_app in P. destruct P as [P1 P].
      cbn [app plc] in P. destruct P as [Llf P].
      apply placed_app in P. destruct P as [P2 Pend]. cbn [plc] in Pend. destruct Pend as [Loe _].
      change (goto lf) with (kl [] (Some lf)) in L1.
      specialize (IH1 pt (Some oe) [] (Some lf) st2 c1 st3 p m L1 Spt eq_refl P1 Lo V1).
      specialize (IH2 pt None pf gf st3 c2 st4 (p + size c1) (run_mem e1 m) L2 Spt Spf P2 Lo1 V21).
      rewrite B2 in IH2.
      szn. replace (p + (size c1 + (size c2 + 0))) with (p + size c1 + size c2) by lia.
      destruct (beval m e1); cbn [orb] in Rs |- *.
      * specialize (IH1 _ Rs). cbn [kexit] in IH1 |- *. rewrite Loe in IH1. exact IH1.
      * specialize (IH1 _ eq_refl). cbn [kexit] in IH1. rewrite Llf in IH1.
        change (@nil event) with (@nil event ++ []). eapply runs_trans; [exact IH1|]. apply IH2. exact Rs.
Qed.

(* ---------- boolean VALUES (get_expr_value of a boolean expression into r1) ---------- *)
Definition b2z (b : bool) : Z := if b then 1 else 0.
(* hidc's invariant for bool locals: the byte is 0 or 1 (`sub r, 1, x` needs it) *)
Fixpoint bool_norm (m : mem) (e : bexpr) : Prop :=
  match e with
  | BVar j => bval m j = 0 \/ bval m j = 1
  | BLit _ | BCmp _ _ _ => True
  | BNot e1 => bool_norm m e1
  | BAnd e1 e2 | BOr e1 e2 => bool_norm m e1 /\ bool_norm m e2
  end.
Lemma bool_norm_agree m m' e : regs_ok m -> agree (HI m) m m' -> vars_ok m e -> bool_norm m e -> bool_norm m' e.
Proof.
  intros L A. induction e as [b|j|op a b|e IH|e1 IH1 e2 IH2|e1 IH1 e2 IH2]; cbn [vars_ok bool_norm]; try tauto.
  intros V. now rewrite (bval_agree (HI m) m m' j L A V).
Qed.
Lemma wrap_b2z b : wrap (b2z b) = b2z b.
Proof. apply (wrap_small w). pose proof (W_ge w Hw1). unfold inrange. destruct b; cbn; lia. Qed.

Lemma value_runs e rg st c st' p m : value_lowering E e rg st = (c, st') -> plc c p ->
  layout_ok m -> vars_ok m e -> rg = R0 \/ rg = R1 ->
  let m' := sw (run_mem e m) (ra rg) (b2z (beval m e)) in
  runs (mk p m) [] (mk (p + size c) m') /\ agree (HI m) m m' /\ oval m' (St (ra rg)) = Some (b2z (beval m e)).
Proof.
  intros Ev P Lo V Hr m'. unfold value_lowering in Ev.
  pose proof (run_mem_agree e m Lo V) as A.
  pose proof (regs_ok_agree _ m _ (proj1 Lo) A) as L1.
  assert (Ir : 0 <= ra rg /\ inb (run_mem e m) (ra rg) w = true) by (destruct L1, Hr; subst rg; cbn [regaddr]; split; assumption).
  destruct Ir as [Ir0 Ir1].
  pose proof (lower_runs e [AMov rg (SLit 1)] None [AMov rg (SLit 0)] None st c st' p m Ev eq_refl eq_refl P Lo V m') as Rn.
  cbn [kexit] in Rn.
  assert (Rs : run_simple (if beval m e then [AMov rg (SLit 1)] else [AMov rg (SLit 0)]) (run_mem e m) = Some m').
  { unfold m'. destruct (beval m e); cbn [run_simple b2z]; unfold step_simple; cbn [res_ins res_sym exec val];
      unfold setdest; cbn [mm]; rewrite Ir1; unfold nxtm; cbn [mm pc]; f_equal; apply sw_wrap_eq; apply (wrap_wrap w Hw1). }
  destruct (beval m e) eqn:B; (split; [apply Rn; exact Rs|]); (split;
    [eapply agree_trans; [exact A|]; apply agree_sw; [exact Ir0|]; destruct (ra_cases rg Hr) as [->| ->]; auto |
     unfold m'; rewrite (oval_st_sw_same w Hw cmem _ _ _ Ir0 Ir1); f_equal; apply (wrap_b2z _)]).
Qed.

Lemma bool_value_runs e : forall st c v st' p m,
  eval_bool_value E R1 e st = (c, v, st') -> plc c p ->
  layout_ok m -> vars_ok m e -> bool_norm m e ->
  exists m', runs (mk p m) [] (mk (p + size c) m') /\ agree (HI m) m m' /\
             oval m' (rs v) = Some (b2z (beval m e)).
Proof.
  assert (Gen : forall e0, (match e0 with BCmp _ _ _ | BAnd _ _ | BOr _ _ => True | _ => False end) ->
            forall st c v st' p m, eval_bool_value E R1 e0 st = (c, v, st') -> plc c p ->
            layout_ok m -> vars_ok m e0 ->
            exists m', runs (mk p m) [] (mk (p + size c) m') /\ agree (HI m) m m' /\ oval m' (rs v) = Some (b2z (beval m e0))).
  { intros e0 Sh st c v st' p m Ev P Lo V.
    assert (Ev' : exists c0, value_lowering E e0 R1 st = (c0, st') /\ c = c0 /\ v = SReg R1).
    { destruct e0; try destruct Sh; cbn [eval_bool_value] in Ev;
        match type of Ev with (let (_, _) := ?X in _) = _ => destruct X as [c0 st0] end; inversion Ev; subst; eauto. }
    destruct Ev' as [c0 [Ev0 [-> ->]]].
    destruct (value_runs e0 R1 st c0 st' p m Ev0 P Lo V (or_intror eq_refl)) as [Rn [A O]].
    eexists. split; [exact Rn|]. split; [exact A | exact O]. }
  induction e as [b|j|op a b|e IH|e1 IH1 e2 IH2|e1 IH1 e2 IH2]; intros st c v st' p m Ev P Lo V N.
  - cbn [eval_bool_value] in Ev. inversion Ev; subst. exists m. cbn [size beval]. replace (p + 0) with p by lia.
    split; [apply runs_refl|]. split; [apply agree_refl|]. cbn [res_sym]. rewrite oval_imm. f_equal.
    destruct b; apply (wrap_b2z true) || apply (wrap_b2z false).
  - cbn [eval_bool_value] in Ev. inversion Ev; subst; clear Ev.
    destruct (load_bool_instr R1 j) as [ld Eld]. rewrite Eld in P |- *.
    cbn [plc] in P. destruct P as [Cl _].
    destruct Lo as [Lo Ro]. cbn [vars_ok] in V.
    pose proof (load_bool_act p m (HI m) R1 j ld (or_intror eq_refl) Lo V Eld Cl) as A. cbn [regaddr] in A.
    exists (sw m r1 (bval m j)). cbn [size]. replace (p + (1 + 0)) with (p + 1) by lia.
    split; [apply (runs_next act _ _ None A)|]. split; [apply agree_sw; [apply (lo_r1 m Lo) | auto]|].
    cbn [res_sym regaddr beval]. rewrite (oval_st_sw_same w Hw cmem m _ _ (lo_r1 m Lo) (lo_i1 m Lo)). f_equal.
    cbn [bool_norm] in N. destruct N as [-> | ->]; [apply (wrap_b2z false) | apply (wrap_b2z true)].
  - apply (Gen (BCmp op a b) I st c v st' p m Ev P Lo V).
  - cbn [eval_bool_value] in Ev. destruct (eval_bool_value E R1 e st) as [[c0 v0] st0] eqn:E0.
    inversion Ev; subst; clear Ev. apply placed_app in P. destruct P as [P0 Ps].
    cbn [vars_ok bool_norm] in V, N.
    destruct (IH st c0 v0 st' p m E0 P0 Lo V N) as [m1 [R1' [A1 O1]]].
    cbn [plc res_ins res_sym regaddr] in Ps. destruct Ps as [Cs _].
    pose proof (regs_ok_agree _ m m1 (proj1 Lo) A1) as L1.
    assert (W1 : wrap 1 = 1) by (apply (wrap_small w); pose proof (W_ge w Hw1); unfold inrange; lia).
    pose proof (act_arith w code cmem _ m1 Asub r1 (Imm 1) _ (wrap 1) _ (wrap 1 - b2z (beval m e)) Cs
                  (oval_imm w cmem m1 1) O1 eq_refl (lo_i1 m1 L1)) as Aa.
    exists (sw m1 r1 (wrap 1 - b2z (beval m e))). rewrite size_app. cbn [size].
    split.
    { change (@nil event) with (@nil event ++ []). eapply runs_trans; [exact R1'|].
      replace (p + (size c0 + (1 + 0))) with (p + size c0 + 1) by lia. apply (runs_next act _ _ None Aa). }
    split; [eapply agree_trans; [exact A1|]; apply agree_sw; [apply (lo_r1 m1 L1) | auto]|].
    cbn [res_sym regaddr beval]. rewrite (oval_st_sw_same w Hw cmem m1 _ _ (lo_r1 m1 L1) (lo_i1 m1 L1)). f_equal.
    rewrite W1. destruct (beval m e); [apply (wrap_b2z false) | apply (wrap_b2z true)].
  - apply (Gen (BAnd e1 e2) I st c v st' p m Ev P Lo V).
  - apply (Gen (BOr e1 e2) I st c v st' p m Ev P Lo V).
Qed.

(* ---------- truth_is_defeat ---------- *)
Definition is_test (e : bexpr) : Prop := match e with BOr _ _ | BLit _ => False | _ => True end.
(* every test of truth_is_defeat: a silent prefix computing the operands, then [j [defeat];] hcc *)
Lemma defeat_test e virt : is_test e -> forall st c st' p m,
  lower_defeat E virt e st = (c, st') -> plc c p -> layout_ok m -> vars_ok m e -> bool_norm m e ->
  exists cp cc l r m1 x y,
    c = cp ++ defeat_jump virt ++ [AInstr (AHc cc l r)] /\
    runs (mk p m) [] (mk (p + size cp) m1) /\ agree (HI m) m m1 /\
    oval m1 (rs l) = Some x /\ oval m1 (rs r) = Some y /\ cond_holds w cc x y = beval m e.
Proof.
  intros Ts st c st' p m Ev P Lo V N.
  assert (W0 : wrap 0 = 0) by (apply (wrap_small w); pose proof (W_pos w Hw1); unfold inrange; lia).
  assert (Val : forall e0 cc, (cc = Cne \/ cc = Ceq) ->
            (let '(c0, v, st0) := eval_bool_value E R1 e0 st in (c0 ++ defeat_jump virt ++ [AInstr (AHc cc v (SLit 0))], st0)) = (c, st') ->
            vars_ok m e0 -> bool_norm m e0 ->
            exists cp l r m1 x y,
              c = cp ++ defeat_jump virt ++ [AInstr (AHc cc l r)] /\
              runs (mk p m) [] (mk (p + size cp) m1) /\ agree (HI m) m m1 /\
              oval m1 (rs l) = Some x /\ oval m1 (rs r) = Some y /\
              cond_holds w cc x y = (if match cc with Cne => true | _ => false end then beval m e0 else negb (beval m e0))).
  { intros e0 cc Hcc Ev0 V0 N0. destruct (eval_bool_value E R1 e0 st) as [[c0 v] st0] eqn:E0.
    inversion Ev0; subst c st'; clear Ev0. apply placed_app in P. destruct P as [P0 _].
    destruct (bool_value_runs e0 st c0 v st0 p m E0 P0 Lo V0 N0) as [m1 [R1' [A1 O1]]].
    exists c0, v, (SLit 0), m1, (b2z (beval m e0)), (wrap 0).
    split; [reflexivity|]. split; [exact R1'|]. split; [exact A1|]. split; [exact O1|]. split; [apply oval_imm|].
    rewrite W0. destruct Hcc as [-> | ->]; cbn [cond_holds]; destruct (beval m e0); reflexivity. }
  destruct e as [b|j|op a b|e1|e1 e2|e1 e2]; try destruct Ts; cbn [lower_defeat] in Ev.
  - destruct (Val (BVar j) Cne (or_introl eq_refl) Ev V N) as [cp [l [r [m1 [x [y H]]]]]]. exists cp, Cne, l, r, m1, x, y. exact H.
  - destruct Lo as [Lo Ro]. cbn [vars_ok] in V. destruct V as [Va [Vb Vt]].
    destruct (cmp_props a b m Lo Ro Va Vb Vt) as [Ag Cc0].
    destruct (compare_operands E a b) as [[co lhs] rhs] eqn:Eco. inversion Ev; subst c st'; clear Ev.
    apply placed_app in P. destruct P as [Pco _].
    destruct (Cc0 co lhs rhs p eq_refl Pco) as [Rco [Oa Ob]].
    exists co, (compare_instr op), lhs, rhs, (pair_mem (stack_top E) a b m), (wval m a), (wval m b).
    split; [reflexivity|]. split; [exact Rco|]. split; [exact Ag|]. split; [exact Oa|]. split; [exact Ob|].
    rewrite (compare_instr_sem op _ _ (wval_range m a (lo_wf m Lo)) (wval_range m b (lo_wf m Lo))).
    rewrite (sgn_wval _ m a (lo_wf m Lo) Va), (sgn_wval _ m b (lo_wf m Lo) Vb). reflexivity.
  - cbn [vars_ok bool_norm] in V, N.
    destruct (Val e1 Ceq (or_intror eq_refl) Ev V N) as [cp [l [r [m1 [x [y H]]]]]]. exists cp, Ceq, l, r, m1, x, y. exact H.
  - destruct (Val (BAnd e1 e2) Cne (or_introl eq_refl) Ev V N) as [cp [l [r [m1 [x [y H]]]]]]. exists cp, Cne, l, r, m1, x, y. exact H.
Qed.

(* STATIC defeat (effective_defeat = halt): the lowered code halts iff the expression is true;
   otherwise it falls through silently, having changed only r0, r1 and the temporaries *)
Theorem defeat_static_runs e : forall st c st' p m,
  lower_defeat E false e st = (c, st') -> plc c p -> layout_ok m -> vars_ok m e -> bool_norm m e ->
  (beval m e = true -> Halts (mk p m)) /\
  (beval m e = false -> exists m', runs (mk p m) [] (mk (p + size c) m') /\ agree (HI m) m m').
Proof.
  assert (Atom : forall e0, is_test e0 -> forall st c st' p m,
            lower_defeat E false e0 st = (c, st') -> plc c p -> layout_ok m -> vars_ok m e0 -> bool_norm m e0 ->
            (beval m e0 = true -> Halts (mk p m)) /\
            (beval m e0 = false -> exists m', runs (mk p m) [] (mk (p + size c) m') /\ agree (HI m) m m')).
  { intros e0 Ts st c st' p m Ev P Lo V N.
    destruct (defeat_test e0 false Ts st c st' p m Ev P Lo V N) as [cp [cc [l [r [m1 [x [y [Ec [R1' [A1 [Ol [Or Cd]]]]]]]]]]]].
    subst c. cbn [defeat_jump app] in *. apply placed_app in P. destruct P as [_ Pt].
    cbn [plc res_ins] in Pt. destruct Pt as [Ct _].
    destruct (defeat_call_static_cond w code cmem _ m1 cc _ _ x y Ct Ol Or) as [Ht Hf]. rewrite Cd in Ht, Hf.
    split; intros B.
    - apply (proj1 R1'). apply Ht. exact B.
    - exists m1. split; [|exact A1]. rewrite size_app. cbn [size].
      change (@nil event) with (@nil event ++ []). eapply runs_trans; [exact R1'|].
      replace (p + (size cp + (1 + 0))) with (p + size cp + 1) by lia. apply Hf. exact B. }
  induction e as [b|j|op a b|e IH|e1 IH1 e2 IH2|e1 IH1 e2 IH2]; intros st c st' p m Ev P Lo V N;
    try (apply (fun T => Atom _ T st c st' p m Ev P Lo V N); exact I).
  - cbn [lower_defeat defeat_jump app] in Ev. inversion Ev; subst c st'; clear Ev. cbn [beval]. destruct b.
    + cbn [plc res_ins] in P. destruct P as [Ch _]. split; [intros _; apply (defeat_call_static w code cmem p m Ch) | discriminate].
    + split; [discriminate|]. intros _. exists m. cbn [size]. replace (p + 0) with p by lia. split; [apply runs_refl | apply agree_refl].
  - cbn [lower_defeat] in Ev. destruct (lower_defeat E false e1 st) as [c1 st1] eqn:E1.
    destruct (lower_defeat E false e2 st1) as [c2 st2] eqn:E2. inversion Ev; subst c st'; clear Ev.
    apply placed_app in P. destruct P as [P1 P2]. cbn [vars_ok bool_norm beval] in *. destruct V as [V1 V2]. destruct N as [N1 N2].
    destruct (IH1 st c1 st1 p m E1 P1 Lo V1 N1) as [T1 F1].
    destruct (beval m e1) eqn:B1; cbn [orb].
    + split; [intros _; apply T1; reflexivity | discriminate].
    + destruct (F1 eq_refl) as [m1 [R1' A1]].
      pose proof (layout_ok_agree _ m m1 Lo A1) as Lo1.
      pose proof (vars_ok_agree m m1 e2 (proj1 Lo) A1 V2) as V21.
      pose proof (bool_norm_agree m m1 e2 (proj1 Lo) A1 V2 N2) as N21.
      destruct (IH2 st1 c2 st2 (p + size c1) m1 E2 P2 Lo1 V21 N21) as [T2 F2].
      rewrite (beval_agree m m1 e2 (proj1 Lo) A1 V2) in T2, F2.
      split; intros B2.
      * apply (proj1 R1'). apply T2. exact B2.
      * destruct (F2 B2) as [m2 [R2 A2]]. exists m2. rewrite size_app. split.
        -- change (@nil event) with (@nil event ++ []). eapply runs_trans; [exact R1'|].
           replace (p + (size c1 + size c2)) with (p + size c1 + size c2) by lia. exact R2.
        -- eapply agree_trans; [exact A1|]. rewrite <- (HI_agree _ m m1 (proj1 Lo) A1). exact A2.
Qed.

(* VIRTUAL defeat (effective_defeat = [defeat]): every test is `j [defeat]; hcc`.  The defeat word
   lies outside everything the evaluation writes. *)
Notation dw := (a_defeat R).
Definition defeat_ok (m : mem) : Prop := 0 <= dw /\ inb m dw w = true /\ dj (HI m) dw w.
Lemma defeat_ok_agree m m' : regs_ok m -> agree (HI m) m m' -> defeat_ok m -> defeat_ok m' /\ lw m' dw = lw m dw.
Proof.
  intros L A [D0 [D1 D2]]. split.
  - split; [exact D0|]. split; [now rewrite (agree_inb _ m m' _ _ A) | now rewrite (HI_agree _ m m' L A)].
  - apply (agree_lw (HI m)); assumption.
Qed.
(* one test, all three cases of TimeTravel.defeat_call_virtual_cond: after the silent operand
   prefix (state q, memory m1),
   (1) the expression is true: control goes to the handler;
   (2) false and the continuation does not halt: control falls through;
   (3) false but the continuation HALTS: control goes to the handler although the test failed *)
Theorem defeat_virtual_test e : is_test e -> forall st c st' p m,
  lower_defeat E true e st = (c, st') -> plc c p -> layout_ok m -> vars_ok m e -> bool_norm m e ->
  defeat_ok m ->
  let hd := lw m dw in
  exists m1, agree (HI m) m m1 /\ exists q, runs (mk p m) [] (mk q m1) /\ q + 2 = p + size c /\
    (beval m e = true -> runs (mk q m1) [] (mk hd m1)) /\
    (beval m e = false -> ~ Halts (mk (q + 2) m1) -> runs (mk q m1) [] (mk (q + 2) m1) /\ ~ Halts (mk q m1)) /\
    (beval m e = false -> Halts (mk (q + 2) m1) -> runs (mk q m1) [] (mk hd m1)).
Proof.
  intros Ts st c st' p m Ev P Lo V N Dk hd.
  destruct (defeat_test e true Ts st c st' p m Ev P Lo V N) as [cp [cc [l [r [m1 [x [y [Ec [R1' [A1 [Ol [Or Cd]]]]]]]]]]]].
  subst c. cbn [defeat_jump app] in *. apply placed_app in P. destruct P as [_ Pt].
  cbn [plc res_ins res_sym regaddr] in Pt. destruct Pt as [Cj [Ct _]].
  destruct (defeat_ok_agree m m1 (proj1 Lo) A1 Dk) as [[D0 [D1 D2]] Eh].
  destruct (defeat_call_virtual_cond w code cmem _ m1 dw cc _ _ x y Cj D1 Ct Ol Or) as [H1 [H2 H3]].
  rewrite Eh in H1, H3. fold hd in H1, H3. rewrite Cd in H1, H2, H3.
  exists m1. split; [exact A1|]. exists (p + size cp). split; [exact R1'|]. split; [rewrite size_app; cbn [size]; lia|].
  split; [intros B; apply (H1 B)|]. split; [intros B Nh; apply (H2 B Nh) | intros B Hh; apply (H3 B Hh)].
Qed.

(* the whole expression, when the handler never halts (C03: a compiled program never halts):
   true -> control reaches the handler; false and the continuation never halts -> falls through *)
Theorem defeat_virtual_runs e : forall st c st' p m,
  lower_defeat E true e st = (c, st') -> plc c p -> layout_ok m -> vars_ok m e -> bool_norm m e ->
  defeat_ok m ->
  (forall m', agree (HI m) m m' -> ~ Halts (mk (lw m dw) m')) ->
  (beval m e = true -> exists m', agree (HI m) m m' /\ runs (mk p m) [] (mk (lw m dw) m')) /\
  (beval m e = false -> (forall m', agree (HI m) m m' -> ~ Halts (mk (p + size c) m')) ->
     exists m', agree (HI m) m m' /\ runs (mk p m) [] (mk (p + size c) m')).
Proof.
  assert (Atom : forall e0, is_test e0 -> forall st c st' p m,
            lower_defeat E true e0 st = (c, st') -> plc c p -> layout_ok m -> vars_ok m e0 -> bool_norm m e0 ->
            defeat_ok m ->
            (forall m', agree (HI m) m m' -> ~ Halts (mk (lw m dw) m')) ->
            (beval m e0 = true -> exists m', agree (HI m) m m' /\ runs (mk p m) [] (mk (lw m dw) m')) /\
            (beval m e0 = false -> (forall m', agree (HI m) m m' -> ~ Halts (mk (p + size c) m')) ->
               exists m', agree (HI m) m m' /\ runs (mk p m) [] (mk (p + size c) m'))).
  { intros e0 Ts st c st' p m Ev P Lo V N Dk Nh.
    destruct (defeat_virtual_test e0 Ts st c st' p m Ev P Lo V N Dk) as [m1 [A1 [q [R1' [Eq [H1 [H2 _]]]]]]].
    split.
    - intros B. exists m1. split; [exact A1|]. change (@nil event) with (@nil event ++ []).
      eapply runs_trans; [exact R1' | apply H1; exact B].
    - intros B Nc. exists m1. split; [exact A1|]. change (@nil event) with (@nil event ++ []).
      eapply runs_trans; [exact R1'|]. rewrite <- Eq. apply H2; [exact B|]. rewrite Eq. apply Nc. exact A1. }
  induction e as [b|j|op a b|e IH|e1 IH1 e2 IH2|e1 IH1 e2 IH2]; intros st c st' p m Ev P Lo V N Dk Nh;
    try (apply (fun T => Atom _ T st c st' p m Ev P Lo V N Dk Nh); exact I).
  - cbn [lower_defeat defeat_jump app] in Ev. inversion Ev; subst c st'; clear Ev. cbn [beval]. destruct b.
    + cbn [plc res_ins res_sym regaddr] in P. destruct P as [Cj [Ch _]]. destruct Dk as [D0 [D1 D2]].
      split; [|discriminate]. intros _. exists m. split; [apply agree_refl|].
      apply (defeat_call_virtual w code cmem p m dw Cj Ch D1).
    + split; [discriminate|]. intros _ _. exists m. cbn [size]. replace (p + 0) with p by lia. split; [apply agree_refl | apply runs_refl].
  - cbn [lower_defeat] in Ev. destruct (lower_defeat E true e1 st) as [c1 st1] eqn:E1.
    destruct (lower_defeat E true e2 st1) as [c2 st2] eqn:E2. inversion Ev; subst c st'; clear Ev.
    apply placed_app in P. destruct P as [P1 P2]. cbn [vars_ok bool_norm beval] in *. destruct V as [V1 V2]. destruct N as [N1 N2].
    destruct (IH1 st c1 st1 p m E1 P1 Lo V1 N1 Dk Nh) as [T1 F1].
    (* the right operand started in any memory agreeing with m *)
    assert (At : forall m1, agree (HI m) m m1 ->
              (beval m e2 = true -> exists m', agree (HI m) m m' /\ runs (mk (p + size c1) m1) [] (mk (lw m dw) m')) /\
              (beval m e2 = false -> (forall m', agree (HI m) m m' -> ~ Halts (mk (p + size c1 + size c2) m')) ->
                 exists m', agree (HI m) m m' /\ runs (mk (p + size c1) m1) [] (mk (p + size c1 + size c2) m'))).
    { intros m1 A1.
      pose proof (layout_ok_agree _ m m1 Lo A1) as Lo1.
      pose proof (vars_ok_agree m m1 e2 (proj1 Lo) A1 V2) as V21.
      pose proof (bool_norm_agree m m1 e2 (proj1 Lo) A1 V2 N2) as N21.
      destruct (defeat_ok_agree m m1 (proj1 Lo) A1 Dk) as [Dk1 Eh].
      pose proof (HI_agree _ m m1 (proj1 Lo) A1) as EH.
      destruct (IH2 st1 c2 st2 (p + size c1) m1 E2 P2 Lo1 V21 N21 Dk1) as [T2 F2].
      { intros m' A'. rewrite Eh. apply Nh. eapply agree_trans; [exact A1|]. rewrite <- EH. exact A'. }
      rewrite (beval_agree m m1 e2 (proj1 Lo) A1 V2) in T2, F2. rewrite Eh in T2. rewrite EH in T2, F2.
      split.
      - intros B. destruct (T2 B) as [m' [A' R']]. exists m'. split; [eapply agree_trans; eauto | exact R'].
      - intros B Nc. destruct (F2 B) as [m' [A' R']].
        { intros m' A'. apply Nc. eapply agree_trans; eauto. }
        exists m'. split; [eapply agree_trans; eauto | exact R']. }
    (* hence the continuation of the left operand's tests never halts when it should not *)
    destruct (beval m e1) eqn:B1; cbn [orb].
    + split; [intros _; apply T1; reflexivity | discriminate].
    + rewrite size_app. replace (p + (size c1 + size c2)) with (p + size c1 + size c2) by lia.
      split.
      * intros B2.
        destruct (F1 eq_refl) as [m1 [A1 R1']].
        { intros m' A'. destruct (proj1 (At m' A') B2) as [m'' [A'' R'']]. intro Hh. apply (Nh m'' A''). apply (proj1 R''). exact Hh. }
        destruct (proj1 (At m1 A1) B2) as [m2 [A2 R2]]. exists m2. split; [exact A2|].
        change (@nil event) with (@nil event ++ []). eapply runs_trans; eauto.
      * intros B2 Nc.
        destruct (F1 eq_refl) as [m1 [A1 R1']].
        { intros m' A'. destruct (proj2 (At m' A') B2 Nc) as [m'' [A'' R'']]. intro Hh. apply (Nc m'' A''). apply (proj1 R''). exact Hh. }
        destruct (proj2 (At m1 A1) B2 Nc) as [m2 [A2 R2]]. exists m2. split; [exact A2|].
        change (@nil event) with (@nil event ++ []). eapply runs_trans; eauto.
Qed.
End Sem.

(* ---------- labels of the value / defeat lowerings ---------- *)
Lemma st_le_refl st : st_le st st.
Proof. intros n; lia. Qed.
Lemma defs_app_sep st st1 st2 c1 c2 :
  st_le st st1 -> st_le st1 st2 ->
  Forall (between st st1) (deflabels c1) -> NoDup (deflabels c1) ->
  Forall (between st1 st2) (deflabels c2) -> NoDup (deflabels c2) ->
  Forall (between st st2) (deflabels (c1 ++ c2)) /\ NoDup (deflabels (c1 ++ c2)).
Proof.
  intros M1 M2 F1 D1 F2 D2. rewrite deflabels_app. split.
  - apply Forall_app. split.
    + eapply Forall_impl; [|exact F1]. intros x. apply between_weaken; [apply st_le_refl | exact M2].
    + eapply Forall_impl; [|exact F2]. intros x. apply between_weaken; [exact M1 | apply st_le_refl].
  - apply NoDup_app_intro; [exact D1 | exact D2|]. intros x I1 I2.
    rewrite Forall_forall in F1, F2. specialize (F1 _ I1). specialize (F2 _ I2). unfold between in *. lia.
Qed.
Lemma eval_bool_value_defs E e : forall r st c v st', eval_bool_value E r e st = (c, v, st') ->
  st_le st st' /\ Forall (between st st') (deflabels c) /\ NoDup (deflabels c).
Proof.
  assert (Gen : forall e0 r st c v st',
            (let (c0, st0) := value_lowering E e0 r st in (c0, SReg r, st0)) = (c, v, st') ->
            st_le st st' /\ Forall (between st st') (deflabels c) /\ NoDup (deflabels c)).
  { intros e0 r st c v st' Ev. unfold value_lowering in Ev.
    destruct (lower_branch E e0 [AInstr (AMov r (SLit 1))] [AInstr (AMov r (SLit 0))] st) as [c0 st0] eqn:L.
    inversion Ev; subst. apply (lower_branch_defs E e0 _ _ _ _ _ L); reflexivity. }
  induction e as [b|j|op a b|e IH|e1 IH1 e2 IH2|e1 IH1 e2 IH2]; intros r st c v st' Ev; cbn [eval_bool_value] in Ev;
    try (apply (Gen _ r st c v st' Ev)).
  - inversion Ev; subst. split; [apply st_le_refl|]. split; constructor.
  - inversion Ev; subst. split; [apply st_le_refl|]. destruct j; split; constructor.
  - destruct (eval_bool_value E r e st) as [[c0 v0] st0] eqn:E0. inversion Ev; subst.
    destruct (IH r st c0 v0 st' E0) as [M [F D]]. split; [exact M|]. defl. rewrite app_nil_r. split; assumption.
Qed.
Lemma defeat_jump_nolabels virt : deflabels (defeat_jump virt) = [].
Proof. destruct virt; reflexivity. Qed.
Lemma lower_defeat_defs E virt e : forall st c st', lower_defeat E virt e st = (c, st') ->
  st_le st st' /\ Forall (between st st') (deflabels c) /\ NoDup (deflabels c).
Proof.
  assert (Val : forall e0 cc st c st',
            (let '(c0, v, st0) := eval_bool_value E R1 e0 st in (c0 ++ defeat_jump virt ++ [AInstr (AHc cc v (SLit 0))], st0)) = (c, st') ->
            st_le st st' /\ Forall (between st st') (deflabels c) /\ NoDup (deflabels c)).
  { intros e0 cc st c st' Ev. destruct (eval_bool_value E R1 e0 st) as [[c0 v] st0] eqn:E0. inversion Ev; subst.
    destruct (eval_bool_value_defs E e0 R1 st c0 v st' E0) as [M [F D]]. split; [exact M|].
    defl. rewrite defeat_jump_nolabels. cbn [app]. rewrite app_nil_r. split; assumption. }
  induction e as [b|j|op a b|e IH|e1 IH1 e2 IH2|e1 IH1 e2 IH2]; intros st c st' Ev; cbn [lower_defeat] in Ev.
  - inversion Ev; subst. split; [apply st_le_refl|]. destruct b; defl; rewrite ?defeat_jump_nolabels; split; constructor.
  - apply (Val (BVar j) Cne st c st' Ev).
  - pose proof (compare_operands_nolabels E a b) as Dc.
    destruct (compare_operands E a b) as [[co lhs] rhs]. cbn [fst] in Dc. inversion Ev; subst.
    split; [apply st_le_refl|]. defl. rewrite Dc, defeat_jump_nolabels. split; constructor.
  - apply (Val e Ceq st c st' Ev).
  - apply (Val (BAnd e1 e2) Cne st c st' Ev).
  - destruct (lower_defeat E virt e1 st) as [c1 st1] eqn:E1. destruct (lower_defeat E virt e2 st1) as [c2 st2] eqn:E2.
    inversion Ev; subst. destruct (IH1 _ _ _ E1) as [M1 [F1 D1]]. destruct (IH2 _ _ _ E2) as [M2 [F2 D2]].
    split; [eapply st_le_trans; eauto|]. apply (defs_app_sep st st1 st'); assumption.
Qed.

(* ================================================================================= *)
(* E  theorems on resolved code                                                       *)
(* ================================================================================= *)
Lemma below_not_between st st' x : below st x -> ~ between st st' x.
Proof. unfold below, between. lia. Qed.
Lemma resolved_placed code R ext B C Wd :
  (forall x, 0 <= ext x < Wd) -> NoDup (deflabels C) -> code_at code B (resolve R ext B C) ->
  0 <= B -> B + size C < Wd ->
  placed R (labenv ext B C) code C B /\ (forall l, 0 <= labenv ext B C l < Wd).
Proof.
  intros He Nd CA HB HS. split; [apply resolve_placed; assumption | apply labenv_range; assumption].
Qed.

Section Top.
Variable w : Z.
Hypothesis Hw : 2 <= w.
Variable code : Z -> option instr.
Variable cmem : mem.
Variable R : regmap.
Variable E : env.
Hypothesis HwE : wsize E = w.
Variable lo : Z.                     (* lowest address the pushed temporaries may occupy *)
Variable ext : label -> Z.           (* addresses of the labels defined outside the lowered block *)
Hypothesis ext_range : forall x, 0 <= ext x < Machine.W w.
Notation act := (Machine.act w code cmem).
Notation Halts := (HidV.Sphinx.Halts.Halts act).
Notation runs := (HidV.Sphinx.Halts.runs act).
Notation csteps := (HidV.Sphinx.Halts.csteps act).

(* ARITHMETIC (DESIGN C01 item 3).  For every int expression tree o over literals, int locals,
   + - * and unary - + (any nesting), eval_expr(rg, o, keep) lowered at frame offset top:
   the code runs silently (Halts-equivalent, no events) into eval_mem; only r0, r1 and the
   temporaries' area [lo, fp - top) change; the value ⟦o⟧ mod 2^(8w) is where the returned bubble
   says; and its signed reading is the source value. *)
Theorem arith_lowering_correct o top rg keep B m :
  let C := fst (eval_opd E top rg o keep) in
  let bub := snd (eval_opd E top rg o keep) in
  code_at code B (resolve R ext B C) ->
  0 <= B -> B + size C < Machine.W w ->
  rg = R0 \/ rg = R1 ->
  regs_ok w R lo m -> room_ok w R lo top m -> oexp_ok w R E lo (FP w R m - top) m o ->
  Z.of_nat (temps o keep) * w <= FP w R m - top - lo ->
  let m' := eval_mem w R E top rg o keep m in
  runs (mk B m) [] (mk (B + size C) m') /\
  agree w R lo (FP w R m - top) m m' /\
  bub = bub_of E top rg o keep /\
  bub_val w R m' bub = wval w R E m o /\
  wval w R E m o = Machine.wrap w (sval w R E m o) /\
  Machine.sgn w (wval w R E m o) = sval w R E m o.
Proof.
  intros C bub CA HB HS Hr L Ro O T m'.
  assert (Nd : NoDup (deflabels C)) by (unfold C; rewrite eval_opd_nolabels; constructor).
  destruct (resolved_placed code R ext B C _ ext_range Nd CA HB HS) as [P _].
  destruct (eval_opd_props w R E lo Hw HwE code cmem (labenv ext B C) o top rg keep m Hr L Ro O T) as [A [V Cd]].
  assert (Eb : bub = bub_of E top rg o keep) by apply eval_opd_bub.
  split; [apply (Cd C bub B); [unfold C, bub; now destruct (eval_opd E top rg o keep) | exact P]|].
  split; [exact A|]. split; [exact Eb|]. split; [rewrite Eb; exact V|].
  assert (Hw1 : 1 <= w) by lia.
  pose proof (sgn_wval w R E lo Hw _ m o (lo_wf w R lo m L) O) as Sg.
  split; [|exact Sg]. rewrite <- Sg. symmetry. apply (wrap_sgn w Hw1). apply wval_range; [exact Hw | apply (lo_wf w R lo m L)].
Qed.
(* get_expr_value(rg, o): the value as an operand *)
Theorem get_expr_value_correct o top rg B m :
  let ev := eval_opd E top rg o false in
  let C := fst ev ++ fst (pop_value rg (snd ev)) in
  let v := snd (pop_value rg (snd ev)) in
  code_at code B (resolve R ext B C) ->
  0 <= B -> B + size C < Machine.W w ->
  rg = R0 \/ rg = R1 ->
  regs_ok w R lo m -> room_ok w R lo top m -> oexp_ok w R E lo (FP w R m - top) m o ->
  Z.of_nat (temps o false) * w <= FP w R m - top - lo ->
  let m' := pop_mem w R rg (bub_of E top rg o false) (eval_mem w R E top rg o false m) in
  runs (mk B m) [] (mk (B + size C) m') /\
  agree w R lo (FP w R m - top) m m' /\
  Idioms.oval w cmem m' (res_sym R ext v) = Some (wval w R E m o).
Proof.
  intros ev C v CA HB HS Hr L Ro O T m'.
  assert (Hw1 : 1 <= w) by lia.
  assert (Nd : NoDup (deflabels C)).
  { unfold C, ev. rewrite deflabels_app, eval_opd_nolabels, pop_value_nolabels. constructor. }
  destruct (resolved_placed code R ext B C _ ext_range Nd CA HB HS) as [P _].
  set (lab := labenv ext B C) in *.
  destruct (eval_opd_props w R E lo Hw HwE code cmem lab o top rg false m Hr L Ro O T) as [A [V Cd]].
  set (m1 := eval_mem w R E top rg o false m) in *.
  pose proof (regs_ok_agree w R lo Hw _ m m1 L A) as L1. pose proof (FP_agree w R lo Hw _ m m1 L A) as F1.
  pose proof (room_ok_agree w R lo Hw _ top m m1 L A Ro) as Ro1.
  assert (Bok : bub_ok w R lo (FP w R m1 - top) m1 (bub_of E top rg o false)).
  { pose proof (bub_of_ok w R E lo Hw HwE top rg o false m1 Hr L1 Ro1) as Bk. rewrite top_after_bub in Bk.
    unfold pushed in Bk. cbn [andb] in Bk. change (Z.of_nat 0) with 0 in Bk. replace (top + 0 * wsize E) with top in Bk by lia.
    apply Bk; [|destruct Ro1; lia]. rewrite F1. apply (oexp_ok_agree w R E lo Hw _ (FP w R m - top) m m1); assumption. }
  destruct (pop_props w R lo Hw code cmem lab rg _ _ m1 Hr L1 Bok) as [A2 [S2 C2]].
  apply placed_app in P. destruct P as [P1 P2].
  assert (Eb : snd ev = bub_of E top rg o false) by apply eval_opd_bub.
  split.
  - unfold C. rewrite size_app. change (@nil event) with (@nil event ++ []).
    eapply runs_trans; [apply (Cd (fst ev) (snd ev) B); [unfold ev; now destruct (eval_opd E top rg o false) | exact P1]|].
    replace (B + (size (fst ev) + size (fst (pop_value rg (snd ev))))) with (B + size (fst ev) + size (fst (pop_value rg (snd ev)))) by lia.
    rewrite Eb in *. apply (C2 _ (snd (pop_value rg (bub_of E top rg o false)))); [now destruct (pop_value rg (bub_of E top rg o false)) | exact P2].
  - split.
    + eapply (agree_trans w R lo); [exact A|]. apply (agree_mono w R lo lo); [destruct Ro; lia | exact A2].
    + unfold v. rewrite Eb. fold (sym_of rg (bub_of E top rg o false)). rewrite V in S2.
      pose proof (symval_oval w R cmem ext _ _ _ S2) as Ov. exact Ov.
Qed.

Lemma deflabels_kl pre g : deflabels (kl pre g) = [].
Proof.
  unfold kl. rewrite deflabels_app.
  assert (X : deflabels (map AInstr pre) = []) by (induction pre as [|i r IH]; [reflexivity | exact IH]).
  rewrite X. destruct g; reflexivity.
Qed.

(* BRANCH POSITION, general form: if_true = pt ++ [goto gt], if_false = pf ++ [goto gf], where pt, pf
   are straight-line and the gotos optional.  The code is the two-pass resolution of the model's
   output at base B; labels that the block does not define go through ext. *)
Theorem lowering_correct_gen e pt gt pf gf st B m :
  let C := fst (lower_branch E e (kl pt gt) (kl pf gf) st) in
  let lab := labenv ext B C in
  code_at code B (resolve R ext B C) ->
  0 <= B -> B + size C < Machine.W w ->
  forallb simple pt = true -> forallb simple pf = true ->
  (forall L, gt = Some L -> below st L) -> (forall L, gf = Some L -> below st L) ->
  layout_ok w R E lo m -> vars_ok w R E lo m e ->
  let b := beval w R E m e in
  let m' := run_mem w R E e m in
  agree w R lo (HI w R E m) m m' /\
  m' = fold_left (atom_mem w R E) (trace w R E m e) m /\
  forall m'', run_simple w R cmem lab (if b then pt else pf) m' = Some m'' ->
    runs (mk B m) [] (mk (match (if b then gt else gf) with Some L => ext L | None => B + size C end) m'').
Proof.
  intros C lab CA HB HS Spt Spf Bt Bf Lo V b m'.
  destruct (lower_branch E e (kl pt gt) (kl pf gf) st) as [C0 st'] eqn:L. cbn [fst] in C. subst C.
  destruct (lower_branch_defs E e _ _ _ _ _ L (deflabels_kl pt gt) (deflabels_kl pf gf)) as [_ [Fb Nd]].
  destruct (resolved_placed code R ext B C0 _ ext_range Nd CA HB HS) as [P LR]. fold lab in P, LR.
  split; [apply (run_mem_agree w R E lo Hw HwE code cmem lab); assumption|].
  split; [apply (run_mem_trace w R E lo Hw HwE code cmem lab); assumption|].
  intros m'' Rs.
  pose proof (lower_runs w R E lo Hw HwE code cmem lab LR e pt gt pf gf st C0 st' B m L Spt Spf P Lo V m'' Rs) as Rn.
  fold b in Rn.
  replace (match (if b then gt else gf) with Some L0 => ext L0 | None => B + size C0 end)
    with (kexit lab (if b then gt else gf) (B + size C0)); [exact Rn|].
  assert (X : forall g, (forall L0, g = Some L0 -> below st L0) ->
            kexit lab g (B + size C0) = match g with Some L0 => ext L0 | None => B + size C0 end).
  { intros [L0|] Hb; cbn [kexit]; [|reflexivity]. apply labenv_ext. intro I.
    rewrite Forall_forall in Fb. exact (below_not_between st st' L0 (Hb L0 eq_refl) (Fb _ I)). }
  destruct b; apply X; assumption.
Qed.

(* THE FLAGSHIP (DESIGN C01 item 2): both continuations are gotos *)
Theorem branch_lowering_correct e T F st B m :
  let C := fst (lower_branch E e (goto T) (goto F) st) in
  code_at code B (resolve R ext B C) ->
  0 <= B -> B + size C < Machine.W w ->
  below st T -> below st F ->
  layout_ok w R E lo m -> vars_ok w R E lo m e ->
  let m' := run_mem w R E e m in
  runs (mk B m) [] (mk (if beval w R E m e then ext T else ext F) m') /\
  agree w R lo (HI w R E m) m m' /\
  m' = fold_left (atom_mem w R E) (trace w R E m e) m.
Proof.
  intros C CA HB HS BT BF Lo V m'.
  destruct (lowering_correct_gen e [] (Some T) [] (Some F) st B m CA HB HS eq_refl eq_refl) as [A [Tr Rn]]; try assumption.
  - intros L X; inversion X; subst; exact BT.
  - intros L X; inversion X; subst; exact BF.
  - split; [|split; assumption]. specialize (Rn m').
    destruct (beval w R E m e); apply Rn; reflexivity.
Qed.
Corollary branch_lowering_halts e T F st B m :
  let C := fst (lower_branch E e (goto T) (goto F) st) in
  code_at code B (resolve R ext B C) ->
  0 <= B -> B + size C < Machine.W w ->
  below st T -> below st F ->
  layout_ok w R E lo m -> vars_ok w R E lo m e ->
  let s' := mk (if beval w R E m e then ext T else ext F) (run_mem w R E e m) in
  (Halts (mk B m) <-> Halts s') /\ (~ Halts s' -> csteps (mk B m) [] s').
Proof. intros C CA HB HS BT BF Lo V. exact (proj1 (branch_lowering_correct e T F st B m CA HB HS BT BF Lo V)). Qed.

(* the fall-through form of IfBlock / LoopBlock: if_true = (), if_false = goto else *)
Theorem fallthrough_lowering_correct e Else st B m :
  let C := fst (lower_branch E e [] (goto Else) st) in
  code_at code B (resolve R ext B C) ->
  0 <= B -> B + size C < Machine.W w ->
  below st Else ->
  layout_ok w R E lo m -> vars_ok w R E lo m e ->
  let m' := run_mem w R E e m in
  runs (mk B m) [] (mk (if beval w R E m e then B + size C else ext Else) m') /\
  agree w R lo (HI w R E m) m m' /\
  m' = fold_left (atom_mem w R E) (trace w R E m e) m.
Proof.
  intros C CA HB HS BE Lo V m'.
  destruct (lowering_correct_gen e [] None [] (Some Else) st B m CA HB HS eq_refl eq_refl) as [A [Tr Rn]]; try assumption.
  - intros L X; discriminate X.
  - intros L X; inversion X; subst; exact BE.
  - split; [|split; assumption]. specialize (Rn m').
    destruct (beval w R E m e); apply Rn; reflexivity.
Qed.
Theorem if_block_lowering_correct e st B m :
  let C := fst (fst (fst (if_block E e st))) in
  let else_label := snd (fst (fst (if_block E e st))) in
  code_at code B (resolve R ext B C) ->
  0 <= B -> B + size C < Machine.W w ->
  layout_ok w R E lo m -> vars_ok w R E lo m e ->
  let m' := run_mem w R E e m in
  runs (mk B m) [] (mk (if beval w R E m e then B + size C else ext else_label) m') /\
  agree w R lo (HI w R E m) m m' /\
  m' = fold_left (atom_mem w R E) (trace w R E m e) m.
Proof.
  unfold if_block.
  destruct (add_label LElse st) as [el st1] eqn:A1. destruct (add_label LEndElse st1) as [ee st2] eqn:A2.
  destruct (lower_branch E e [] (goto el) st2) as [c st3] eqn:L. cbn [fst snd].
  intros CA HB HS Lo V.
  pose proof (fallthrough_lowering_correct e el st2 B m) as T. rewrite L in T. cbn [fst] in T.
  apply T; try assumption.
  inversion A1; inversion A2; subst. unfold below; cbn. lia.
Qed.

(* C09 item 6: VALUE position (eval_expr, BooleanOp case, keep = False) *)
Theorem value_lowering_correct e rout st B m :
  let C := fst (value_lowering E e rout st) in
  code_at code B (resolve R ext B C) ->
  0 <= B -> B + size C < Machine.W w ->
  layout_ok w R E lo m -> vars_ok w R E lo m e ->
  rout = R0 \/ rout = R1 ->
  let v := if beval w R E m e then 1 else 0 in
  let m'' := Machine.sw w (run_mem w R E e m) (regaddr R rout) v in
  runs (mk B m) [] (mk (B + size C) m'') /\ Machine.lw w m'' (regaddr R rout) = v /\
  agree w R lo (HI w R E m) m m''.
Proof.
  intros C CA HB HS Lo V Hr v m''.
  destruct (value_lowering E e rout st) as [C0 st'] eqn:L. cbn [fst] in C. subst C.
  assert (Nd : NoDup (deflabels C0)) by (apply (lower_branch_defs E e _ _ _ _ _ L); reflexivity).
  destruct (resolved_placed code R ext B C0 _ ext_range Nd CA HB HS) as [P LR].
  destruct (value_runs w R E lo Hw HwE code cmem _ LR e rout st C0 st' B m L P Lo V Hr) as [Rn [A O]].
  split; [exact Rn|]. split; [|exact A].
  apply oval_st_inv in O. destruct O as [_ O]. symmetry. exact O.
Qed.
End Top.

Section Top2.
Variable w : Z.
Hypothesis Hw : 2 <= w.
Variable code : Z -> option instr.
Variable cmem : mem.
Variable R : regmap.
Variable E : env.
Hypothesis HwE : wsize E = w.
Variable lo : Z.
Variable ext : label -> Z.
Hypothesis ext_range : forall x, 0 <= ext x < Machine.W w.
Notation act := (Machine.act w code cmem).
Notation Halts := (HidV.Sphinx.Halts.Halts act).
Notation runs := (HidV.Sphinx.Halts.runs act).

(* keep = True (e.g. `bool p = e;`): the result byte is reserved on the frame, one byte above the
   current stack top; the expression is lowered with the stack top at that byte (E') *)
Theorem value_lowering_keep_correct e st B m :
  let off := stack_top E + 1 in
  let E' := with_top E off in
  let C := fst (value_lowering_keep E e st) in
  code_at code B (resolve R ext B C) ->
  0 <= B -> B + size C < Machine.W w ->
  layout_ok w R E' lo m -> vars_ok w R E' lo m e ->
  slot_ok w R lo (HI w R E' m) m off 1 ->
  let v := if beval w R E' m e then 1 else 0 in
  let m'' := Machine.sb (run_mem w R E' e m) (FP w R m - off) v in
  runs (mk B m) [] (mk (B + size C) m'') /\ lb m'' (FP w R m - off) = v.
Proof.
  intros off E' C CA HB HS Lo V [S1 [S2 [S3 S4]]] v m''.
  assert (Hw1 : 1 <= w) by lia.
  assert (HwE' : wsize E' = w) by exact HwE.
  destruct (lowering_correct_gen w Hw code cmem R E' HwE' lo ext ext_range e
              [ASbso (SReg RFp) (SLit (- off)) (SLit 1)] None
              [ASbso (SReg RFp) (SLit (- off)) (SLit 0)] None st B m CA HB HS eq_refl eq_refl) as [A [_ Rn]];
    try assumption; try (intros L X; discriminate X).
  set (m' := run_mem w R E' e m) in *.
  pose proof (regs_ok_agree w R lo Hw _ m m' (proj1 Lo) A) as Lo'.
  pose proof (FP_agree w R lo Hw _ m m' (proj1 Lo) A) as EF.
  assert (I' : inb m' (FP w R m - off) 1 = true) by (rewrite (agree_inb w R lo _ _ _ _ _ A); exact S3).
  assert (Ad : Machine.sgn w (FP w R m') + Machine.sgn w (Machine.wrap w (- off)) = FP w R m - off).
  { rewrite (frame_addr w R lo Hw m' off Lo' S1). now rewrite EF. }
  assert (W1 : Machine.wrap w 1 = 1) by (apply (wrap_small w); pose proof (W_ge w Hw1); unfold inrange; lia).
  assert (W0 : Machine.wrap w 0 = 0) by (apply (wrap_small w); pose proof (W_ge w Hw1); unfold inrange; lia).
  split.
  - specialize (Rn m''). unfold m'', v in *. clear m'' v.
    destruct (beval w R E' m e); apply Rn; cbn [run_simple]; unfold step_simple; cbn [res_ins res_sym regaddr exec val mm];
      rewrite (lo_if w R lo m' Lo'); change (Machine.lw w m' (a_fp R)) with (FP w R m');
      rewrite Ad; unfold store; cbn [mm]; rewrite I'; unfold nxtm; cbn [mm pc].
    + rewrite W1. reflexivity.
    + rewrite W0. reflexivity.
  - unfold m''. rewrite lb_sb_same. unfold v. destruct (beval w R E' m e); reflexivity.
Qed.

(* truth_is_defeat, STATIC defeat: the lowered code halts iff the expression is true; otherwise it
   falls through silently with only r0, r1 and the temporaries changed *)
Theorem truth_is_defeat_correct e st B m :
  let C := fst (lower_defeat E false e st) in
  code_at code B (resolve R ext B C) ->
  0 <= B -> B + size C < Machine.W w ->
  layout_ok w R E lo m -> vars_ok w R E lo m e -> bool_norm w R E m e ->
  (beval w R E m e = true -> Halts (mk B m)) /\
  (beval w R E m e = false ->
     exists m', runs (mk B m) [] (mk (B + size C) m') /\ agree w R lo (HI w R E m) m m').
Proof.
  intros C CA HB HS Lo V N.
  destruct (lower_defeat E false e st) as [C0 st'] eqn:L. cbn [fst] in C. subst C.
  destruct (lower_defeat_defs E false e st C0 st' L) as [_ [_ Nd]].
  destruct (resolved_placed code R ext B C0 _ ext_range Nd CA HB HS) as [P LR].
  exact (defeat_static_runs w R E lo Hw HwE code cmem _ LR e st C0 st' B m L P Lo V N).
Qed.
(* truth_is_defeat, VIRTUAL defeat, when the handler never halts *)
Theorem truth_is_defeat_virtual_correct e st B m :
  let C := fst (lower_defeat E true e st) in
  let hd := Machine.lw w m (a_defeat R) in
  code_at code B (resolve R ext B C) ->
  0 <= B -> B + size C < Machine.W w ->
  layout_ok w R E lo m -> vars_ok w R E lo m e -> bool_norm w R E m e -> defeat_ok w R E lo m ->
  (forall m', agree w R lo (HI w R E m) m m' -> ~ Halts (mk hd m')) ->
  (beval w R E m e = true -> exists m', agree w R lo (HI w R E m) m m' /\ runs (mk B m) [] (mk hd m')) /\
  (beval w R E m e = false -> (forall m', agree w R lo (HI w R E m) m m' -> ~ Halts (mk (B + size C) m')) ->
     exists m', agree w R lo (HI w R E m) m m' /\ runs (mk B m) [] (mk (B + size C) m')).
Proof.
  intros C hd CA HB HS Lo V N Dk Nh.
  destruct (lower_defeat E true e st) as [C0 st'] eqn:L. cbn [fst] in C. subst C.
  destruct (lower_defeat_defs E true e st C0 st' L) as [_ [_ Nd]].
  destruct (resolved_placed code R ext B C0 _ ext_range Nd CA HB HS) as [P LR].
  exact (defeat_virtual_runs w R E lo Hw HwE code cmem _ LR e st C0 st' B m L P Lo V N Dk Nh).
Qed.
(* one virtual test, all three cases, with no assumption on the handler or the continuation *)
Theorem truth_is_defeat_virtual_test e st B m : is_test e ->
  let C := fst (lower_defeat E true e st) in
  let hd := Machine.lw w m (a_defeat R) in
  code_at code B (resolve R ext B C) ->
  0 <= B -> B + size C < Machine.W w ->
  layout_ok w R E lo m -> vars_ok w R E lo m e -> bool_norm w R E m e -> defeat_ok w R E lo m ->
  exists m1, agree w R lo (HI w R E m) m m1 /\ exists q, runs (mk B m) [] (mk q m1) /\ q + 2 = B + size C /\
    (beval w R E m e = true -> runs (mk q m1) [] (mk hd m1)) /\
    (beval w R E m e = false -> ~ Halts (mk (q + 2) m1) -> runs (mk q m1) [] (mk (q + 2) m1) /\ ~ Halts (mk q m1)) /\
    (beval w R E m e = false -> Halts (mk (q + 2) m1) -> runs (mk q m1) [] (mk hd m1)).
Proof.
  intros Ts C hd CA HB HS Lo V N Dk.
  destruct (lower_defeat E true e st) as [C0 st'] eqn:L. cbn [fst] in C. subst C.
  destruct (lower_defeat_defs E true e st C0 st' L) as [_ [_ Nd]].
  destruct (resolved_placed code R ext B C0 _ ext_range Nd CA HB HS) as [P LR].
  exact (defeat_virtual_test w R E lo Hw HwE code cmem _ LR e Ts st C0 st' B m L P Lo V N Dk).
Qed.

(* DESIGN C09 item 6: the three lowerings of one boolean expression decide the same truth value
   b = beval e: the value lowering leaves b (as 0/1) in the register, the branch lowering goes
   to T iff b, the defeat lowering halts iff b (and otherwise falls through) *)
Theorem three_lowerings_agree e m (b := beval w R E m e) :
  layout_ok w R E lo m -> vars_ok w R E lo m e -> bool_norm w R E m e ->
  (* value *)
  (forall rout st B, let C := fst (value_lowering E e rout st) in
     code_at code B (resolve R ext B C) -> 0 <= B -> B + size C < Machine.W w -> rout = R0 \/ rout = R1 ->
     exists m', runs (mk B m) [] (mk (B + size C) m') /\ Machine.lw w m' (regaddr R rout) = (if b then 1 else 0)) /\
  (* branch *)
  (forall T F st B, let C := fst (lower_branch E e (goto T) (goto F) st) in
     code_at code B (resolve R ext B C) -> 0 <= B -> B + size C < Machine.W w -> below st T -> below st F ->
     exists m', runs (mk B m) [] (mk (if b then ext T else ext F) m')) /\
  (* defeat *)
  (forall st B, let C := fst (lower_defeat E false e st) in
     code_at code B (resolve R ext B C) -> 0 <= B -> B + size C < Machine.W w ->
     if b then Halts (mk B m) else exists m', runs (mk B m) [] (mk (B + size C) m')).
Proof.
  intros Lo V N. split; [|split].
  - intros rout st B C CA HB HS Hr.
    destruct (value_lowering_correct w Hw code cmem R E HwE lo ext ext_range e rout st B m CA HB HS Lo V Hr) as [Rn [Lv _]].
    eexists. split; [exact Rn | exact Lv].
  - intros T F st B C CA HB HS BT BF.
    destruct (branch_lowering_correct w Hw code cmem R E HwE lo ext ext_range e T F st B m CA HB HS BT BF Lo V) as [Rn _].
    eexists. exact Rn.
  - intros st B C CA HB HS.
    destruct (truth_is_defeat_correct e st B m CA HB HS Lo V N) as [Ht Hf]. fold b in Ht, Hf.
    destruct b; [apply Ht; reflexivity | destruct (Hf eq_refl) as [m' [Rn _]]; exists m'; exact Rn].
Qed.
End Top2.

(* ================================================================================= *)
(* temps_needed is what the model really uses                                          *)
(* ================================================================================= *)
(* frame offsets of the `swso [fp], -off, _` lines (the pushes) *)
Fixpoint store_offs (l : list aline) : list Z :=
  match l with
  | [] => []
  | AInstr (ASwso (SReg RFp) (SLit z) _) :: r => (- z) :: store_offs r
  | _ :: r => store_offs r
  end.
Lemma store_offs_app a b : store_offs (a ++ b) = store_offs a ++ store_offs b.
Proof.
  induction a as [|x r IH]; [reflexivity|]. cbn [app store_offs].
  destruct x as [l|[t| |c a0 b0|d b0 o|d b0 o|op d a0 b0|d a0|v|d v|b0 o v|b0 o v|a0 v]]; try exact IH.
  destruct b0 as [z|[| | | | | |?|?]|l|c|r'|x0]; try exact IH; destruct o as [z|r0|l|c|r'|x0]; try exact IH. cbn [app]. now rewrite IH.
Qed.
Lemma pop_value_stores r b : store_offs (fst (pop_value r b)) = [].
Proof. destruct b as [|[]| | | |]; reflexivity. Qed.
Lemma zmul_mono (a b : nat) (ws : Z) : 0 <= ws -> (a <= b)%nat -> Z.of_nat a * ws <= Z.of_nat b * ws.
Proof. intros H L. apply Z.mul_le_mono_nonneg_r; lia. Qed.

Theorem eval_opd_stores E o : 0 < wsize E -> forall top r keep,
  let offs := store_offs (fst (eval_opd E top r o keep)) in
  let T := top + Z.of_nat (temps o keep) * wsize E in
  Forall (fun off => top < off <= T) offs /\ (temps o keep <> 0%nat -> In T offs).
Proof.
  intros Hws. set (ws := wsize E) in *.
  assert (Fin : forall (top : Z) (r : reg) (keep : bool) (cd : list aline) (M : nat),
            let T := top + Z.of_nat M * ws in
            (if keep then 1 <= M else 0 <= M)%nat ->
            Forall (fun off => top < off <= T) (store_offs cd) ->
            Forall (fun off => top < off <= T) (store_offs (fst (finish_opd E top r keep cd))) /\
            ((In T (store_offs cd) \/ (keep = true /\ M = 1%nat)) -> In T (store_offs (fst (finish_opd E top r keep cd))))).
  { intros top r keep cd M T HM F. unfold finish_opd. fold ws. destruct keep; cbn [fst].
    - rewrite store_offs_app. cbn [store_offs]. split.
      + apply Forall_app. split; [exact F|]. constructor; [|constructor].
        pose proof (zmul_mono 1 M ws ltac:(lia) HM). unfold T. lia.
      + intros [I|[_ ->]]; apply in_or_app; [left; exact I | right; left; unfold T; lia].
    - split; [exact F|]. intros [I|[X _]]; [exact I | discriminate]. }
  induction o as [ch z|i|op x IHx y IHy|u x IHx|g|tx IHt|yj]; intros top r keep offs T.
  - split; [constructor | intros H; exfalso; apply H; reflexivity].
  - split; [constructor | intros H; exfalso; apply H; reflexivity].
  - unfold offs, T. cbn [eval_opd temps]. set (kx := negb (is_safe y)).
    pose proof (eval_opd_bub E x top R0 kx) as Bx.
    specialize (IHx top R0 kx). destruct (eval_opd E top R0 x kx) as [c1 lb]. cbn [fst snd] in *. subst lb.
    rewrite top_after_bub. fold ws. set (d := pushed x kx). set (top1 := top + Z.of_nat d * ws).
    specialize (IHy top1 R1 false). destruct (eval_opd E top1 R1 y false) as [c2 rb]. cbn [fst] in IHy.
    pose proof (pop_value_stores R1 rb) as P1. destruct (pop_value R1 rb) as [c2' rhs].
    pose proof (pop_value_stores R0 (bub_of E top R0 x kx)) as P0. destruct (pop_value R0 (bub_of E top R0 x kx)) as [c3 lhs].
    cbn [fst] in P1, P0. destruct IHx as [Fx Tx]. destruct IHy as [Fy Ty].
    set (tx := temps x kx) in *. set (ty := temps y false) in *.
    set (k := if keep then 1%nat else 0%nat).
    set (M := Nat.max (Nat.max tx (d + ty)) k).
    assert (Hd : (d <= tx)%nat).
    { unfold d, tx, pushed. generalize kx. clear. intros k0.
      induction x as [ch z|i|op x1 _ x2 _|u x1 _|g|tx0 IHt0|yj]; try (destruct k0; cbn [is_safe is_vac is_glob negb andb orb temps]; lia).
      cbn [is_vac temps]. exact IHt0. }
    assert (E2 : Z.of_nat (d + ty) * ws = Z.of_nat d * ws + Z.of_nat ty * ws) by (rewrite Nat2Z.inj_add; ring).
    pose proof (zmul_mono tx M ws ltac:(lia) ltac:(unfold M; lia)) as L1.
    pose proof (zmul_mono (d + ty) M ws ltac:(lia) ltac:(unfold M; lia)) as L2.
    assert (P0d : 0 <= Z.of_nat d * ws) by (apply Z.mul_nonneg_nonneg; lia).
    set (cd := c1 ++ c2 ++ c2' ++ c3 ++ [AInstr (AArith (arith_instr op) r lhs rhs)]).
    assert (So : store_offs cd = store_offs c1 ++ store_offs c2).
    { unfold cd. rewrite !store_offs_app, P1, P0. cbn [store_offs app]. now rewrite !app_nil_r. }
    destruct (Fin top r keep cd M) as [F1 F2].
    + unfold M, k. destruct keep; lia.
    + rewrite So. apply Forall_app. split.
      * eapply Forall_impl; [|exact Fx]. cbn beta. intros off H. lia.
      * eapply Forall_impl; [|exact Fy]. cbn beta. unfold top1. intros off H. lia.
    + split; [exact F1|]. intros NM. apply F2.
      assert (Cs : M = tx \/ (M = (d + ty)%nat /\ ty <> 0%nat) \/ (keep = true /\ M = 1%nat)).
      { unfold M, k in *. destruct keep; unfold d, pushed in *; destruct (kx && negb (is_safe x)); lia. }
      destruct Cs as [Cs|[[Cs Nty]|Cs]].
      * left. rewrite So. apply in_or_app. left. rewrite Cs. apply Tx. lia.
      * left. rewrite So. apply in_or_app. right. rewrite Cs, E2.
        replace (top + (Z.of_nat d * ws + Z.of_nat ty * ws)) with (top1 + Z.of_nat ty * ws) by (unfold top1; lia).
        apply Ty. exact Nty.
      * right. exact Cs.
  - unfold offs, T. cbn [eval_opd temps].
    specialize (IHx top r false). destruct (eval_opd E top r x false) as [c1 b]. cbn [fst] in IHx.
    pose proof (pop_value_stores r b) as P1. destruct (pop_value r b) as [c2 v]. cbn [fst] in P1.
    destruct IHx as [Fx Tx]. set (tx := temps x false) in *. set (k := if keep then 1%nat else 0%nat).
    set (M := Nat.max tx k).
    pose proof (zmul_mono tx M ws ltac:(lia) ltac:(unfold M; lia)) as L1.
    set (cd := c1 ++ c2 ++ match u with UNeg => [AInstr (AArith Asub r (SLit 0) v)]
                                     | UPos => if is_state_of r v then [] else [AInstr (AMov r v)] end).
    assert (So : store_offs cd = store_offs c1).
    { unfold cd. rewrite !store_offs_app, P1. destruct u; [|destruct (is_state_of r v)]; cbn [store_offs app]; now rewrite ?app_nil_r. }
    destruct (Fin top r keep cd M) as [F1 F2].
    + unfold M, k. destruct keep; lia.
    + rewrite So. eapply Forall_impl; [|exact Fx]. cbn beta. intros off H. lia.
    + split; [exact F1|]. intros NM. apply F2.
      assert (Cs : M = tx \/ (keep = true /\ M = 1%nat)) by (unfold M, k in *; destruct keep; lia).
      destruct Cs as [Cs|Cs]; [left; rewrite So, Cs; apply Tx; lia | right; exact Cs].
  - subst offs T. destruct keep; cbn [eval_opd fst store_offs temps]; fold ws.
    + change (Z.of_nat 1) with 1. split; [constructor; [lia | constructor] | intros _; left; lia].
    + split; [constructor | intros N; contradiction N; reflexivity].
  - subst offs T. cbn [eval_opd temps]. specialize (IHt top r keep). destruct (eval_opd E top r tx keep) as [c0 b0]. exact IHt.
  - split; [constructor | intros H; exfalso; apply H; reflexivity].
Qed.

(* ================================================================================= *)
(* F  satisfiability examples (w = 2, hidc's register layout, a 64-byte state section)  *)
(* ================================================================================= *)
Lemma code_at_code_of_app l l' : code_at (code_of (l ++ l')) 0 l.
Proof.
  intros k i H. unfold code_of. rewrite Z.add_0_l.
  destruct (Z.ltb_spec (Z.of_nat k) 0); [lia|]. rewrite Nat2Z.id.
  rewrite nth_error_app1; [exact H|]. apply nth_error_Some. congruence.
Qed.
Lemma code_at_code_of l : code_at (code_of l) 0 l.
Proof. pose proof (code_at_code_of_app l []) as H. now rewrite app_nil_r in H. Qed.

Section Examples.
Definition ex_zero : mem := mkmem 64 (FMapPositive.PositiveMap.empty Z).
Lemma wf_ex_zero : wf_mem ex_zero.
Proof. intros a. unfold getb, ex_zero; cbn [mdata]. rewrite FMapPositive.PositiveMap.gempty. lia. Qed.
(* fp = 60; int locals a = 5 at 56, b = 7 at 54, c = 2 at 52; bool locals p, q = 0 at 51, 50;
   the stack top is at frame offset 10 (address 50); temporaries may use [40, 50); the defeat
   word at 62 *)
Definition ex_mem : mem := Machine.sw 2 (Machine.sw 2 (Machine.sw 2 (Machine.sw 2 ex_zero 2 60) 56 5) 54 7) 52 2.
Lemma wf_ex_mem : wf_mem ex_mem.
Proof. unfold ex_mem. repeat (apply (wf_sw 2); [|lia]). apply wf_ex_zero. Qed.
Definition ex_regs : regmap := hidc_regs 2 62 200.
Definition ex_lo : Z := 40.
Definition ex_env : env := with_top (is_you_env 2 3) 10.
(* a + 1 < b * c and not (p or c < -c) *)
Definition ex_e : bexpr :=
  BAnd (BCmp SLt (OArith SAdd (OVar 0) (OLit false 1)) (OArith SMul (OVar 1) (OVar 2)))
       (BNot (BOr (BVar (BLocal 0)) (BCmp SLt (OVar 2) (OUn UNeg (OVar 2))))).
Definition ex_T : label := (LElse, 0%nat).
Definition ex_F : label := (LEndElse, 0%nat).
Definition ex_st : lstate := fun _ => 1%nat.
Definition ex_ext (l : label) : Z := match fst l with LElse => 100 | _ => 101 end.
Lemma ex_ext_range x : 0 <= ex_ext x < Machine.W 2.
Proof. unfold ex_ext. destruct (fst x); vm_compute; split; (discriminate || reflexivity). Qed.

Ltac closed_arith :=
  repeat match goal with
  | |- _ /\ _ => split
  | |- _ <= _ => vm_compute; intro; discriminate
  | |- _ < _ => vm_compute; reflexivity
  | |- _ = true => vm_compute; reflexivity
  | |- _ = _ => vm_compute; reflexivity
  | |- _ \/ _ => vm_compute; first [left; intro; discriminate | right; intro; discriminate]
  | |- True => exact I
  end.
Lemma ex_regs_ok : regs_ok 2 ex_regs ex_lo ex_mem.
Proof. constructor; try apply wf_ex_mem; closed_arith. Qed.
Lemma ex_room : room_ok 2 ex_regs ex_lo 10 ex_mem.
Proof. constructor; closed_arith. Qed.
Lemma ex_layout : layout_ok 2 ex_regs ex_env ex_lo ex_mem.
Proof. split; [apply ex_regs_ok | apply ex_room]. Qed.
Lemma ex_slot off n : In (off, n) [(4, 2); (6, 2); (8, 2); (9, 1); (10, 1)] -> slot_ok 2 ex_regs ex_lo 50 ex_mem off n.
Proof.
  intros I. cbn [In] in I.
  repeat (destruct I as [I|I]; [inversion I; subst; unfold slot_ok, dj; closed_arith|]). contradiction.
Qed.
Lemma ex_HI : HI 2 ex_regs ex_env ex_mem = 50.
Proof. vm_compute. reflexivity. Qed.
Lemma ex_vars : vars_ok 2 ex_regs ex_env ex_lo ex_mem ex_e.
Proof.
  cbn [vars_ok ex_e oexp_ok op_ok ex_env is_you_env with_top int_off bool_off]. rewrite ex_HI.
  repeat split; try (apply ex_slot; vm_compute; tauto); closed_arith.
Qed.
Lemma ex_norm : bool_norm 2 ex_regs ex_env ex_mem ex_e.
Proof. cbn [bool_norm ex_e]. repeat split. left. vm_compute. reflexivity. Qed.

(* an arithmetic operand with a kept temporary: (a + 1) * (b - c) into r0 *)
Definition ex_o : iopd := OArith SMul (OArith SAdd (OVar 0) (OLit false 1)) (OArith SSub (OVar 1) (OVar 2)).
Definition ex_oprog : list instr := resolve ex_regs ex_ext 0 (fst (eval_opd ex_env 10 R0 ex_o false)).
Example arith_lowering_ex :
  let m' := eval_mem 2 ex_regs ex_env 10 R0 ex_o false ex_mem in
  HidV.Sphinx.Halts.runs (Machine.act 2 (code_of ex_oprog) (zmem 0)) (mk 0 ex_mem) []
    (mk (size (fst (eval_opd ex_env 10 R0 ex_o false))) m') /\
  Machine.lw 2 m' (a_r0 ex_regs) = 30.
Proof.
  intros m'.
  destruct (arith_lowering_correct 2 ltac:(lia) (code_of ex_oprog) (zmem 0) ex_regs ex_env eq_refl ex_lo ex_ext ex_ext_range
              ex_o 10 R0 false 0 ex_mem) as [Rn [A [Eb [V _]]]].
  - apply code_at_code_of.
  - lia.
  - vm_compute. reflexivity.
  - left; reflexivity.
  - apply ex_regs_ok.
  - apply ex_room.
  - cbn [oexp_ok ex_o op_ok ex_env is_you_env with_top int_off]. replace (FP 2 ex_regs ex_mem - 10) with 50 by (vm_compute; reflexivity).
    repeat split; try (apply ex_slot; vm_compute; tauto); closed_arith.
  - vm_compute. intro; discriminate.
  - rewrite Z.add_0_l in Rn. split; [exact Rn|]. rewrite Eb in V. cbn [bub_of ex_o bub_val regaddr] in V. unfold m'. cbn [ex_regs hidc_regs a_r0] in V |- *. rewrite V.
    vm_compute. reflexivity.
Qed.

Definition ex_prog : list instr :=
  resolve ex_regs ex_ext 0 (fst (lower_branch ex_env ex_e (goto ex_T) (goto ex_F) ex_st)).
Example branch_lowering_ex :
  let m' := run_mem 2 ex_regs ex_env ex_e ex_mem in
  HidV.Sphinx.Halts.runs (Machine.act 2 (code_of ex_prog) (zmem 0)) (mk 0 ex_mem) [] (mk 100 m') /\
  agree 2 ex_regs ex_lo 50 ex_mem m'.
Proof.
  intros m'.
  destruct (branch_lowering_correct 2 ltac:(lia) (code_of ex_prog) (zmem 0) ex_regs ex_env eq_refl ex_lo ex_ext ex_ext_range
              ex_e ex_T ex_F ex_st 0 ex_mem) as [Rn [A _]].
  - apply code_at_code_of.
  - lia.
  - vm_compute. reflexivity.
  - unfold below, ex_st, ex_T, ex_F; cbn [fst snd]; lia.
  - unfold below, ex_st, ex_T, ex_F; cbn [fst snd]; lia.
  - apply ex_layout.
  - apply ex_vars.
  - rewrite ex_HI in A. split; [|exact A].
    replace (if beval 2 ex_regs ex_env ex_mem ex_e then ex_ext ex_T else ex_ext ex_F) with 100 in Rn
      by (vm_compute; reflexivity).
    exact Rn.
Qed.

Definition ex_if_prog : list instr :=
  resolve ex_regs ex_ext 0 (fst (fst (fst (if_block ex_env ex_e ex_st)))).
Example if_block_lowering_ex :
  HidV.Sphinx.Halts.runs (Machine.act 2 (code_of ex_if_prog) (zmem 0)) (mk 0 ex_mem) []
    (mk (size (fst (fst (fst (if_block ex_env ex_e ex_st))))) (run_mem 2 ex_regs ex_env ex_e ex_mem)).
Proof.
  destruct (if_block_lowering_correct 2 ltac:(lia) (code_of ex_if_prog) (zmem 0) ex_regs ex_env eq_refl ex_lo ex_ext ex_ext_range
              ex_e ex_st 0 ex_mem) as [Rn _].
  - apply code_at_code_of.
  - lia.
  - vm_compute. reflexivity.
  - apply ex_layout.
  - apply ex_vars.
  - replace (beval 2 ex_regs ex_env ex_mem ex_e) with true in Rn by (vm_compute; reflexivity).
    rewrite Z.add_0_l in Rn. exact Rn.
Qed.

Definition ex_val_prog : list instr :=
  resolve ex_regs ex_ext 0 (fst (value_lowering ex_env ex_e R0 ex_st)).
Example value_lowering_ex :
  exists m'', HidV.Sphinx.Halts.runs (Machine.act 2 (code_of ex_val_prog) (zmem 0)) (mk 0 ex_mem) []
                (mk (size (fst (value_lowering ex_env ex_e R0 ex_st))) m'') /\
              Machine.lw 2 m'' (a_r0 ex_regs) = 1.
Proof.
  destruct (value_lowering_correct 2 ltac:(lia) (code_of ex_val_prog) (zmem 0) ex_regs ex_env eq_refl ex_lo ex_ext ex_ext_range
              ex_e R0 ex_st 0 ex_mem) as [Rn [Lv _]].
  - apply code_at_code_of.
  - lia.
  - vm_compute. reflexivity.
  - apply ex_layout.
  - apply ex_vars.
  - left; reflexivity.
  - replace (beval 2 ex_regs ex_env ex_mem ex_e) with true in Rn, Lv by (vm_compute; reflexivity).
    rewrite Z.add_0_l in Rn. eexists. split; [exact Rn | exact Lv].
Qed.

(* static defeat: the expression is true, so the lowered code halts *)
Definition ex_def_prog : list instr := resolve ex_regs ex_ext 0 (fst (lower_defeat ex_env false ex_e ex_st)).
Example truth_is_defeat_ex : HidV.Sphinx.Halts.Halts (Machine.act 2 (code_of ex_def_prog) (zmem 0)) (mk 0 ex_mem).
Proof.
  destruct (truth_is_defeat_correct 2 ltac:(lia) (code_of ex_def_prog) (zmem 0) ex_regs ex_env eq_refl ex_lo ex_ext ex_ext_range
              ex_e ex_st 0 ex_mem) as [Ht _].
  - apply code_at_code_of.
  - lia.
  - vm_compute. reflexivity.
  - apply ex_layout.
  - apply ex_vars.
  - apply ex_norm.
  - apply Ht. vm_compute. reflexivity.
Qed.

(* virtual defeat: the handler is an absorbing stub placed right after the lowered code; the
   defeat word (at 62) holds its address *)
Definition ex_vcode : list aline := fst (lower_defeat ex_env true ex_e ex_st).
Definition ex_hd : Z := size ex_vcode.
Definition ex_vprog : list instr := resolve ex_regs ex_ext 0 ex_vcode ++ [IJ (Imm ex_hd); IHalt].
Definition ex_vmem : mem := Machine.sw 2 ex_mem 62 ex_hd.
Example truth_is_defeat_virtual_ex :
  exists m', HidV.Sphinx.Halts.runs (Machine.act 2 (code_of ex_vprog) (zmem 0)) (mk 0 ex_vmem) [] (mk ex_hd m').
Proof.
  assert (Lo : layout_ok 2 ex_regs ex_env ex_lo ex_vmem).
  { split; constructor; try (unfold ex_vmem; apply (wf_sw 2); [apply wf_ex_mem | lia]); closed_arith. }
  assert (EH : HI 2 ex_regs ex_env ex_vmem = 50) by (vm_compute; reflexivity).
  assert (Sl : forall off n, In (off, n) [(4, 2); (6, 2); (8, 2); (9, 1); (10, 1)] -> slot_ok 2 ex_regs ex_lo 50 ex_vmem off n).
  { intros off n I. cbn [In] in I.
    repeat (destruct I as [I|I]; [inversion I; subst; unfold slot_ok, dj; closed_arith|]). contradiction. }
  destruct (truth_is_defeat_virtual_correct 2 ltac:(lia) (code_of ex_vprog) (zmem 0) ex_regs ex_env eq_refl ex_lo ex_ext ex_ext_range
              ex_e ex_st 0 ex_vmem) as [Ht _].
  - apply code_at_code_of_app.
  - lia.
  - vm_compute. reflexivity.
  - exact Lo.
  - cbn [vars_ok ex_e oexp_ok op_ok ex_env is_you_env with_top int_off bool_off]. rewrite EH.
    repeat split; try (apply Sl; vm_compute; tauto); closed_arith.
  - cbn [bool_norm ex_e]. repeat split. left. vm_compute. reflexivity.
  - unfold defeat_ok, dj. rewrite EH. closed_arith.
  - intros m' _. replace (Machine.lw 2 ex_vmem (a_defeat ex_regs)) with ex_hd by (vm_compute; reflexivity).
    apply (goto_self_not_halts 2 (code_of ex_vprog) (zmem 0) ex_hd m' (Imm ex_hd)); vm_compute; reflexivity.
  - destruct Ht as [m' [_ Rn]]; [vm_compute; reflexivity|].
    replace (Machine.lw 2 ex_vmem (a_defeat ex_regs)) with ex_hd in Rn by (vm_compute; reflexivity).
    exists m'. exact Rn.
Qed.
End Examples.
