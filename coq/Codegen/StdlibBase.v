(* Shared context of the runtime-library proofs (C17): the calling convention as predicates, the
   common return sequence `lwso [r0],[fp],-1w; j [r0]; halt`, and a family of satisfiability
   witnesses (a concrete machine on which every hypothesis used below holds). *)
From Coq Require Import ZArith List Bool Lia FMapPositive.
From HidV Require Import Machine Halts WordLemmas MemLemmas GenStdlib StepTactics.
Import ListNotations.
Open Scope Z_scope.
Ltac Zify.zify_post_hook ::= Z.to_euclidean_division_equations.

(* the library is loaded at code address B *)
Definition lib_at (w : Z) (code : Z -> option instr) (B : Z) : Prop :=
  forall k, 0 <= k < stdlib_len -> code (B + k) = nth_error (stdlib_code w B) (Z.to_nat k).
(* ... and all its addresses are words *)
Definition lib_range (w B : Z) : Prop := 0 <= B /\ B + stdlib_len <= Machine.W w.

(* On entry [fp] = F, the callee frame [F - args - 1w, F) lies above the registers and inside the
   state section, F is a non-negative signed word; `args` = bytes of arguments below the RA. *)
Definition frame_ok (w : Z) (m : mem) (F args : Z) : Prop :=
  wf_mem m /\ Machine.lw w m (reg_fp w) = F /\
  stack_start w <= F - w - args /\ F <= msize m /\ F < Machine.W w / 2.

Section Base.
Variables (w : Z) (code : Z -> option instr) (cmem : mem) (B : Z).
Hypothesis Hw : 2 <= w.
Hypothesis CA : lib_at w code B.
Hypothesis B_range : lib_range w B.

Notation act := (Machine.act w code cmem).
Notation runs := (Halts.runs act).
Notation lw := (Machine.lw w).
Notation sw := (Machine.sw w).
Notation W := (Machine.W w).

Lemma Hw1 : 1 <= w. Proof. lia. Qed.

(* the four copies of the return sequence *)
Lemma ret_runs k m F : (k = 39 \/ k = 55 \/ k = 66 \/ k = 74) ->
  wf_mem m -> lw m (1 * w) = F -> 5 * w <= F - w -> F <= msize m -> F < W / 2 ->
  runs (mk (B + k) m) [] (mk (lw m (F - w)) (sw m (2 * w) (lw m (F - w)))).
Proof.
  intros Hk Hwf HFP HF1 HF2 HF3. pose proof (W_ge_65536 w Hw) as HW. pose proof Hw1 as Hw1.
  destruct B_range as [HB0 HB1]. unfold stdlib_len in HB1.
  pose proof (lw_range w Hw1 m (F - w) Hwf) as Hra.
  set (ra := lw m (F - w)) in *. set (m' := sw m (2 * w) ra).
  change (@nil event) with (@nil event ++ []).
  eapply runs_trans with (s' := mk (B + k + 1) m').
  - apply (runs_next act _ _ None).
    destruct Hk as [->|[->|[->| ->]]]; [at_pc CA 39 | at_pc CA 55 | at_pc CA 66 | at_pc CA 74];
      rewrite HFP, (sgn_small w F), (sgn_neg_imm w Hw1 (1 * w)) by lia;
      replace (F + - (1 * w)) with (F - w) by lia; exec_inb; reflexivity.
  - eapply runs_goto with (sn := mk (B + k + 2) m').
    + assert (E : lw m' (2 * w) = ra) by (unfold m'; rewrite (lw_sw_same w Hw1 m (2 * w) ra) by lia; apply wrap_id; lia).
      destruct Hk as [->|[->|[->| ->]]]; [at_pc CA 40 | at_pc CA 56 | at_pc CA 67 | at_pc CA 75];
        unfold m' at 1; exec_inb; rewrite E; norm_pc; reflexivity.
    + destruct Hk as [->|[->|[->| ->]]]; [at_pc CA 41 | at_pc CA 57 | at_pc CA 68 | at_pc CA 76]; reflexivity.
Qed.

End Base.

(* ---------- the inlined members of the write family ----------
   write(byte) is lowered to a single `yield v`, writeln(...) to the write followed by a single
   `yield '\n'` (generator.py eval_func_call): at the machine level a yield emits exactly the low
   byte of its operand and changes no memory. *)
Section Inline.
Variables (w : Z) (code : Z -> option instr) (cmem : mem).
Notation act := (Machine.act w code cmem).
Notation runs := (Halts.runs act).
Lemma yield_spec p m a x : code p = Some (IYield a) -> Machine.val w cmem (mk p m) a = Some x ->
  runs (mk p m) [EOut (x mod 256)] (mk (p + 1) m).
Proof.
  intros Hc Hv. apply (runs_next act _ _ (Some (EOut (x mod 256)))).
  unfold Machine.act; cbn [pc]. rewrite Hc. cbn [Machine.exec]. rewrite Hv. reflexivity.
Qed.
Lemma newline_spec p m : 1 <= w -> code p = Some (IYield (Imm 10)) -> runs (mk p m) [EOut 10] (mk (p + 1) m).
Proof.
  intros Hw Hc. apply (yield_spec p m (Imm 10) 10 Hc). cbn [Machine.val]. f_equal.
  apply wrap_id. pose proof (W_ge w Hw). lia.
Qed.
End Inline.

(* ---------- satisfiability witnesses ---------- *)
(* all-zero memory of a given size; code = the library at address 0 and nothing else *)
Definition zmem (n : Z) : mem := mkmem n (PositiveMap.empty Z).
Lemma wf_zmem n : wf_mem (zmem n).
Proof. intros a. unfold getb, zmem; cbn [mdata]. rewrite PositiveMap.gempty. lia. Qed.
Definition lib_code (w : Z) (z : Z) : option instr :=
  if 0 <=? z then nth_error (stdlib_code w 0) (Z.to_nat z) else None.
Lemma lib_code_at w : lib_at w (lib_code w) 0.
Proof. intros k Hk. unfold lib_code. cbn [Z.add]. destruct (Z.leb_spec 0 (0 + k)); [reflexivity | lia]. Qed.
Lemma lib_range_2 : lib_range 2 0.
Proof. unfold lib_range, stdlib_len, Machine.W. cbn. lia. Qed.
