(* Tracker -- model of hidc/codegen/tracker.py (class Tracker) and the proof that every checkpoint
   is finalised with the FUTURE MAXIMUM of the static frame sizes of its block (property C04,
   item 1 of DESIGN.md "### C04").

   The Python object
       max_vals : sorted list of ints                 (one entry per live checkpoint)
       levels   : deque of deques of (idx, DynamicValue)   (last = innermost block)
   is modelled by `tracker`.  REPRESENTATION: `levels` is kept NEWEST FIRST at both layers: the
   head of `levels t` is Python's `self.levels[-1]`, and the head of a level is the entry that was
   appended last.  Python's `reversed(level)` is therefore "walk the model list from its head",
   and walking without `reversed` is `rev`.  DynamicValue objects are represented by ids; the id
   of a checkpoint is the POSITION of its `add` in the operation sequence.

   The choices that tools/regen_tracker.py reads from the source (Gen/GenTracker.v) are the
   parameters `choices` of the model:
       c_add    which bisect variant `add` uses for the insertion index
       c_update which bisect variant `update` uses for the length of the overwritten prefix
       c_rev    whether `pop_level` walks the popped level in reversed order
   `bisect` is the linear-scan partition point; it agrees with Python's binary search on sorted
   lists, and `max_vals` is always sorted (theorem `max_vals_sorted`, for every choice).

   MAIN RESULTS (no axioms; all operation sequences, by induction)
     max_vals_sorted          (a) max_vals stays sorted, for every choice
     levels_never_empty       `self.levels[-1]` / `self.levels.pop()` never fail
     run_refines_spec         with c_rev = true the finalisations are those of the reference
                              model in which every live checkpoint carries its own running max
     pop_indices_in_range     with c_rev = true, `max_vals.pop(idx)` never raises IndexError
     finalized_is_future_max  (b) (i, x) is finalised  <->  op i is `Add v`, its level is popped
                              at position j, and x = max (v, updates strictly between i and j)
     finalized_once           every checkpoint is finalised at most once
     guard_dominates          (c) the finalised value dominates its own value and every update
                              in the rest of its block
     no_reverse_refuted       with c_rev = false the property fails (concrete witness)
   The theorems hold for BOTH bisect variants in `add` and in `update` (see the comment before
   `overwrite_is_max`): swapping bisect_left/bisect_right there changes Gen/GenTracker.v but
   yields a tracker that finalises exactly the same values. *)
From Coq Require Import ZArith List Bool Lia Arith Sorted.
From HidV Require Import GenTracker.
Import ListNotations.

Definition id := nat.

Record choices := mkChoices { c_add : bisect_kind; c_update : bisect_kind; c_rev : bool }.

(* the choices the source makes NOW (regenerated) *)
Definition gen_choices : choices := mkChoices add_bisect update_bisect pop_reversed.

(* ------------------------------------------------------------------ list primitives *)
Definition before (k : bisect_kind) (x v : Z) : bool :=
  match k with BisectLeft => (x <? v)%Z | BisectRight => (x <=? v)%Z end.

(* bisect.bisect_left / bisect.bisect_right on a sorted list *)
Fixpoint bisect (k : bisect_kind) (l : list Z) (v : Z) : nat :=
  match l with
  | [] => 0
  | x :: r => if before k x v then S (bisect k r v) else 0
  end.

(* list.insert(n, x) *)
Fixpoint insert_at (n : nat) (x : Z) (l : list Z) : list Z :=
  match n, l with
  | 0, _ => x :: l
  | S n', y :: r => y :: insert_at n' x r
  | S _, [] => [x]
  end.

(* list.pop(n): the list part (the value is `nth n l 0`; out of range is excluded by
   `pop_indices_in_range`) *)
Fixpoint remove_at (n : nat) (l : list Z) {struct l} : list Z :=
  match l, n with
  | [], _ => []
  | _ :: r, 0 => r
  | y :: r, S n' => y :: remove_at n' r
  end.

(* l[:n] = repeat(v, n) *)
Definition overwrite_prefix (n : nat) (v : Z) (l : list Z) : list Z := repeat v n ++ skipn n l.

(* ------------------------------------------------------------------ the model *)
Record tracker := mkTracker { max_vals : list Z; levels : list (list (nat * id)) }.

Definition init : tracker :=
  mkTracker initial_max_vals (repeat [] initial_level_count).

Inductive op := Add (v : Z) | Update (v : Z) | Push | Pop.

(* Tracker.add; `i` is the id of the new DynamicValue.  (levels = [] is unreachable:
   levels_never_empty; Python would raise IndexError there.) *)
Definition add (ch : choices) (i : id) (v : Z) (t : tracker) : tracker :=
  let idx := bisect (c_add ch) (max_vals t) v in
  mkTracker (insert_at idx v (max_vals t))
            (match levels t with
             | [] => [[(idx, i)]]
             | top :: rest => ((idx, i) :: top) :: rest
             end).

(* Tracker.update *)
Definition update (ch : choices) (v : Z) (t : tracker) : tracker :=
  mkTracker (overwrite_prefix (bisect (c_update ch) (max_vals t) v) v (max_vals t)) (levels t).

(* Tracker.push_level *)
Definition push_level (t : tracker) : tracker := mkTracker (max_vals t) ([] :: levels t).

(* the loop of pop_level: for idx, dyn_val in <order>: dyn_val.finalize(self.max_vals.pop(idx)) *)
Fixpoint pop_entries (es : list (nat * id)) (mv : list Z) : list Z * list (id * Z) :=
  match es with
  | [] => (mv, [])
  | (idx, i) :: r =>
      let (mv', f) := pop_entries r (remove_at idx mv) in
      (mv', (i, nth idx mv 0%Z) :: f)
  end.

(* does every `max_vals.pop(idx)` of that loop find its index in range? *)
Fixpoint pops_ok (es : list (nat * id)) (mv : list Z) : bool :=
  match es with
  | [] => true
  | (idx, _) :: r => (idx <? length mv) && pops_ok r (remove_at idx mv)
  end.

Definition pop_order (ch : choices) (top : list (nat * id)) : list (nat * id) :=
  if c_rev ch then top else rev top.

(* Tracker.pop_level, with the list of finalisations (id, value) in the order they happen *)
Definition pop_level (ch : choices) (t : tracker) : tracker * list (id * Z) :=
  match levels t with
  | [] => (mkTracker (max_vals t) [[]], [])
  | top :: rest =>
      let (mv, f) := pop_entries (pop_order ch top) (max_vals t) in
      (mkTracker mv (match rest with [] => [[]] | _ => rest end), f)
  end.

Definition step (ch : choices) (pos : nat) (o : op) (t : tracker) : tracker * list (id * Z) :=
  match o with
  | Add v => (add ch pos v t, [])
  | Update v => (update ch v t, [])
  | Push => (push_level t, [])
  | Pop => pop_level ch t
  end.

Definition step_ok (ch : choices) (o : op) (t : tracker) : bool :=
  match o with
  | Pop => match levels t with [] => true | top :: _ => pops_ok (pop_order ch top) (max_vals t) end
  | _ => true
  end.

Fixpoint run_from (ch : choices) (pos : nat) (ops : list op) (t : tracker)
  : tracker * list (id * Z) :=
  match ops with
  | [] => (t, [])
  | o :: r =>
      let (t1, f1) := step ch pos o t in
      let (t2, f2) := run_from ch (S pos) r t1 in
      (t2, f1 ++ f2)
  end.

Fixpoint run_ok_from (ch : choices) (pos : nat) (ops : list op) (t : tracker) : bool :=
  match ops with
  | [] => true
  | o :: r => step_ok ch o t && run_ok_from ch (S pos) r (fst (step ch pos o t))
  end.

(* run: the whole life of a Tracker; finalisations in order, ids = positions of the adds *)
Definition run (ch : choices) (ops : list op) : tracker * list (id * Z) := run_from ch 0 ops init.
Definition run_ok (ch : choices) (ops : list op) : bool := run_ok_from ch 0 ops init.

(* ------------------------------------------------------------------ trace semantics (spec) *)
(* offset of the Pop that closes relative depth d *)
Fixpoint close_from (ops : list op) (d : nat) : option nat :=
  match ops with
  | [] => None
  | Pop :: r => match d with 0 => Some 0 | S d' => option_map S (close_from r d') end
  | Push :: r => option_map S (close_from r (S d))
  | _ :: r => option_map S (close_from r d)
  end.

(* position of the pop_level that pops the level the op at position i was executed in *)
Definition matching_pop (ops : list op) (i : nat) : option nat :=
  option_map (fun n => S i + n) (close_from (skipn (S i) ops) 0).

Fixpoint updates (ops : list op) : list Z :=
  match ops with
  | [] => []
  | Update u :: r => u :: updates r
  | _ :: r => updates r
  end.

(* the arguments of the `update`s at positions k with i < k < j *)
Definition updates_between (ops : list op) (i j : nat) : list Z :=
  updates (firstn (j - S i) (skipn (S i) ops)).

Definition max_with (v : Z) (l : list Z) : Z := fold_left Z.max l v.

(* one-pass form of the same thing, used in the proofs *)
Fixpoint future_max_from (ops : list op) (d : nat) (acc : Z) : option Z :=
  match ops with
  | [] => None
  | Update u :: r => future_max_from r d (Z.max acc u)
  | Add _ :: r => future_max_from r d acc
  | Push :: r => future_max_from r (S d) acc
  | Pop :: r => match d with 0 => Some acc | S d' => future_max_from r d' acc end
  end.

(* ------------------------------------------------------------------ sortedness *)
Fixpoint sorted (l : list Z) : Prop :=
  match l with
  | [] => True
  | x :: r => Forall (fun y => (x <= y)%Z) r /\ sorted r
  end.

Lemma sorted_iff_StronglySorted : forall l, sorted l <-> StronglySorted Z.le l.
Proof.
  induction l as [|x r IH]; simpl.
  - split; intros; [constructor | exact I].
  - split.
    + intros [H1 H2]. constructor; [apply IH; exact H2 | exact H1].
    + intros H. inversion H; subst. split; [assumption | apply IH; assumption].
Qed.

Lemma before_true_le : forall k x v, before k x v = true -> (x <= v)%Z.
Proof. intros [] x v H; simpl in H; [apply Z.ltb_lt in H | apply Z.leb_le in H]; lia. Qed.

Lemma before_false_le : forall k x v, before k x v = false -> (v <= x)%Z.
Proof. intros [] x v H; simpl in H; [apply Z.ltb_ge in H | apply Z.leb_gt in H]; lia. Qed.

Lemma bisect_le_length : forall k l v, bisect k l v <= length l.
Proof.
  induction l as [|x r IH]; intros v; simpl; [lia|].
  destruct (before k x v); [specialize (IH v)|]; lia.
Qed.

Lemma Forall_insert_at : forall (P : Z -> Prop) n x l,
  Forall P (insert_at n x l) <-> P x /\ Forall P l.
Proof.
  induction n as [|n IH]; intros x l.
  - destruct l; simpl; split; intros H.
    + inversion H; auto.
    + destruct H; constructor; auto.
    + inversion H; auto.
    + destruct H; constructor; auto.
  - destruct l as [|y r]; simpl.
    + split; intros H; [inversion H; auto | destruct H; constructor; auto].
    + split; intros H.
      * inversion H as [|? ? Hy Hr]; subst. apply IH in Hr. destruct Hr. split; auto.
      * destruct H as [Hx Hl]. inversion Hl; subst. constructor; auto. apply IH; auto.
Qed.

Lemma Forall_remove_at : forall (P : Z -> Prop) l n, Forall P l -> Forall P (remove_at n l).
Proof.
  induction l as [|y r IH]; intros n H; simpl; [constructor|].
  inversion H; subst. destruct n; [assumption | constructor; auto].
Qed.

Lemma sorted_insert_bisect : forall k l v, sorted l -> sorted (insert_at (bisect k l v) v l).
Proof.
  induction l as [|x r IH]; intros v Hs; simpl.
  - split; [constructor | exact I].
  - destruct Hs as [Hx Hr]. destruct (before k x v) eqn:E; simpl.
    + split; [|apply IH; exact Hr].
      apply Forall_insert_at. split; [apply before_true_le in E; exact E | exact Hx].
    + apply before_false_le in E. split; [|split; assumption].
      constructor; [exact E|]. eapply Forall_impl; [|exact Hx]. simpl; intros; lia.
Qed.

Lemma sorted_remove_at : forall l n, sorted l -> sorted (remove_at n l).
Proof.
  induction l as [|y r IH]; intros n H; simpl; [exact I|].
  destruct H as [Hy Hr]. destruct n; [exact Hr|]. simpl. split; [|apply IH; exact Hr].
  apply Forall_remove_at; exact Hy.
Qed.

(* WHY BOTH BISECT VARIANTS OF `update` ARE RIGHT: on a sorted list the entries < v (bisect_left)
   form a prefix, and so do the entries <= v (bisect_right); overwriting either prefix with v
   raises exactly the entries below v to v (entries equal to v are overwritten by themselves).
   So `update v` is `map (max v)`. *)
Lemma map_max_id : forall u l, Forall (fun y => (u <= y)%Z) l -> map (fun y => Z.max y u) l = l.
Proof.
  induction l as [|y r IH]; intros H; simpl; [reflexivity|].
  inversion H; subst. rewrite IH by assumption. f_equal. lia.
Qed.

Lemma overwrite_is_max : forall k u l, sorted l ->
  overwrite_prefix (bisect k l u) u l = map (fun x => Z.max x u) l.
Proof.
  induction l as [|x r IH]; intros Hs; [reflexivity|].
  destruct Hs as [Hx Hr]. simpl. destruct (before k x u) eqn:E.
  - apply before_true_le in E. unfold overwrite_prefix in *. simpl. rewrite IH by exact Hr.
    f_equal. lia.
  - apply before_false_le in E. unfold overwrite_prefix. simpl.
    rewrite map_max_id.
    + f_equal. lia.
    + eapply Forall_impl; [|exact Hx]. simpl; intros; lia.
Qed.

Lemma Forall_map_Z : forall (P : Z -> Prop) (f : Z -> Z) l,
  Forall (fun x => P (f x)) l -> Forall P (map f l).
Proof. induction l; intros H; simpl; [constructor|]. inversion H; subst. constructor; auto. Qed.

Lemma sorted_map_max : forall u l, sorted l -> sorted (map (fun x => Z.max x u) l).
Proof.
  induction l as [|x r IH]; intros H; simpl; [exact I|].
  destruct H as [Hx Hr]. split; [|apply IH; exact Hr].
  apply Forall_map_Z. eapply Forall_impl; [|exact Hx]. simpl; intros; lia.
Qed.

Lemma pop_entries_sorted : forall es mv, sorted mv -> sorted (fst (pop_entries es mv)).
Proof.
  induction es as [|[idx i] r IH]; intros mv H; simpl; [exact H|].
  specialize (IH (remove_at idx mv) (sorted_remove_at mv idx H)).
  destruct (pop_entries r (remove_at idx mv)); simpl in *. exact IH.
Qed.

Lemma step_sorted : forall ch pos o t,
  sorted (max_vals t) -> sorted (max_vals (fst (step ch pos o t))).
Proof.
  intros ch pos [v|v| |] t H; simpl.
  - apply sorted_insert_bisect; exact H.
  - rewrite overwrite_is_max by exact H. apply sorted_map_max; exact H.
  - exact H.
  - unfold pop_level. destruct (levels t) as [|top rest]; simpl; [exact H|].
    pose proof (pop_entries_sorted (pop_order ch top) (max_vals t) H) as P.
    destruct (pop_entries (pop_order ch top) (max_vals t)); simpl in *. exact P.
Qed.

Lemma run_from_sorted : forall ch ops pos t,
  sorted (max_vals t) -> sorted (max_vals (fst (run_from ch pos ops t))).
Proof.
  induction ops as [|o r IH]; intros pos t H; simpl; [exact H|].
  pose proof (step_sorted ch pos o t H) as H1.
  destruct (step ch pos o t) as [t1 f1]; simpl in H1.
  specialize (IH (S pos) t1 H1).
  destruct (run_from ch (S pos) r t1); simpl in *. exact IH.
Qed.

(* (a) for EVERY choice of bisect variants and iteration order *)
Theorem max_vals_sorted : forall ch ops,
  StronglySorted Z.le (max_vals (fst (run ch ops))).
Proof.
  intros. apply sorted_iff_StronglySorted. apply run_from_sorted. exact I.
Qed.

(* levels is never empty *)
Lemma step_levels : forall ch pos o t, levels t <> [] -> levels (fst (step ch pos o t)) <> [].
Proof.
  intros ch pos [v|v| |] t H; simpl.
  - destruct (levels t); discriminate.
  - exact H.
  - discriminate.
  - unfold pop_level. destruct (levels t) as [|top rest]; simpl; [discriminate|].
    destruct (pop_entries (pop_order ch top) (max_vals t)); simpl.
    destruct rest; discriminate.
Qed.

Lemma run_from_levels : forall ch ops pos t,
  levels t <> [] -> levels (fst (run_from ch pos ops t)) <> [].
Proof.
  induction ops as [|o r IH]; intros pos t H; simpl; [exact H|].
  pose proof (step_levels ch pos o t H) as H1.
  destruct (step ch pos o t) as [t1 f1]; simpl in H1.
  specialize (IH (S pos) t1 H1).
  destruct (run_from ch (S pos) r t1); simpl in *. exact IH.
Qed.

Theorem levels_never_empty : forall ch ops, levels (fst (run ch ops)) <> [].
Proof. intros. apply run_from_levels. discriminate. Qed.

(* ------------------------------------------------------------------ reference model *)
(* Every live checkpoint carries its own running maximum; levels newest first, entries newest
   first.  This is the obviously-right tracker: `update u` raises every live checkpoint to at
   least u, `pop` finalises the checkpoints of the innermost level with what they carry. *)
Definition alevels := list (list (id * Z)).

Definition a_upd (u : Z) (e : id * Z) : id * Z := (fst e, Z.max (snd e) u).

Definition astep (pos : nat) (o : op) (a : alevels) : alevels * list (id * Z) :=
  match o with
  | Add v => (match a with [] => [[(pos, v)]] | top :: rest => ((pos, v) :: top) :: rest end, [])
  | Update u => (map (map (a_upd u)) a, [])
  | Push => ([] :: a, [])
  | Pop => match a with
           | [] => ([[]], [])
           | top :: rest => (match rest with [] => [[]] | _ => rest end, top)
           end
  end.

Fixpoint arun_from (pos : nat) (ops : list op) (a : alevels) : alevels * list (id * Z) :=
  match ops with
  | [] => (a, [])
  | o :: r =>
      let (a1, f1) := astep pos o a in
      let (a2, f2) := arun_from (S pos) r a1 in
      (a2, f1 ++ f2)
  end.

Definition ainit : alevels := [[]].
Definition arun (ops : list op) : alevels * list (id * Z) := arun_from 0 ops ainit.

(* ------------------------------------------------------------------ simulation *)
(* WHY THE RECORDED INDICES STAY VALID.  Read the live checkpoints as a STACK, newest first
   (`concat` of the ghost levels below).  max_vals is obtained by inserting the checkpoints'
   current values, oldest first, each at its recorded index (`build`).  `add` pushes on that
   stack; `pop_level` (reversed order, innermost level) pops from it, so when a checkpoint is
   popped everything inserted after it has already been removed and the list is exactly
   "its value inserted at its index into the list that was there at add time" -- `pop(idx)`
   returns its slot.  `update` changes values but never positions, and commutes with `build`. *)
Definition gentry := (nat * id * Z)%type.
Definition g_idx (e : gentry) : nat := fst (fst e).
Definition g_id (e : gentry) : id := snd (fst e).
Definition g_val (e : gentry) : Z := snd e.
Definition g_out (e : gentry) : id * Z := (g_id e, g_val e).
Definition g_upd (u : Z) (e : gentry) : gentry := (fst e, Z.max (snd e) u).

Fixpoint build (s : list gentry) : list Z :=
  match s with
  | [] => []
  | e :: r => insert_at (g_idx e) (g_val e) (build r)
  end.

Fixpoint wf (s : list gentry) : Prop :=
  match s with
  | [] => True
  | e :: r => g_idx e <= length (build r) /\ wf r
  end.

Lemma insert_at_length : forall n x l, length (insert_at n x l) = S (length l).
Proof.
  induction n as [|n IH]; intros x l; destruct l; simpl; auto.
Qed.

Lemma nth_insert_at : forall n x l d, n <= length l -> nth n (insert_at n x l) d = x.
Proof.
  induction n as [|n IH]; intros x l d H; destruct l; simpl in *; auto; try lia.
  apply IH. lia.
Qed.

Lemma remove_insert_at : forall n x l, n <= length l -> remove_at n (insert_at n x l) = l.
Proof.
  induction n as [|n IH]; intros x l H; destruct l; simpl in *; auto; try lia.
  f_equal. apply IH. lia.
Qed.

Lemma map_insert_at : forall (f : Z -> Z) n x l,
  map f (insert_at n x l) = insert_at n (f x) (map f l).
Proof.
  induction n as [|n IH]; intros x l; destruct l; simpl; auto. f_equal. apply IH.
Qed.

Lemma build_upd : forall u s, build (map (g_upd u) s) = map (fun x => Z.max x u) (build s).
Proof.
  induction s as [|e r IH]; simpl; [reflexivity|].
  rewrite map_insert_at, IH. reflexivity.
Qed.

Lemma wf_upd : forall u s, wf s -> wf (map (g_upd u) s).
Proof.
  induction s as [|e r IH]; simpl; [auto|]. intros [H1 H2]. split; [|auto].
  rewrite build_upd, map_length. exact H1.
Qed.

Lemma wf_app_r : forall s1 s2, wf (s1 ++ s2) -> wf s2.
Proof. induction s1; simpl; intros s2 H; [exact H|]. destruct H. auto. Qed.

Lemma pop_entries_build : forall top s, wf (top ++ s) ->
  pop_entries (map fst top) (build (top ++ s)) = (build s, map g_out top)
  /\ pops_ok (map fst top) (build (top ++ s)) = true.
Proof.
  induction top as [|[[idx i] x] top IH]; intros s H; simpl; [auto|].
  simpl in H. destruct H as [H1 H2]. unfold g_idx, g_val in *. simpl in *.
  rewrite remove_insert_at by exact H1.
  destruct (IH s H2) as [E1 E2]. rewrite E1, E2.
  rewrite nth_insert_at by exact H1. rewrite insert_at_length.
  split; [reflexivity|]. rewrite andb_true_r. apply Nat.ltb_lt. lia.
Qed.

Definition inv (t : tracker) (a : alevels) : Prop :=
  exists g : list (list gentry),
    levels t = map (map fst) g /\ a = map (map g_out) g /\
    max_vals t = build (concat g) /\ wf (concat g) /\ sorted (max_vals t).

Lemma inv_init : inv init ainit.
Proof. exists [[]]. simpl. repeat split; auto. Qed.

Lemma concat_map_map : forall (A B : Type) (f : A -> B) (g : list (list A)),
  concat (map (map f) g) = map f (concat g).
Proof. intros. symmetry. apply concat_map. Qed.

Lemma sim_step : forall ch pos o t a,
  c_rev ch = true -> inv t a ->
  snd (step ch pos o t) = snd (astep pos o a) /\
  inv (fst (step ch pos o t)) (fst (astep pos o a)) /\
  step_ok ch o t = true.
Proof.
  intros ch pos o t a Hrev (g & Hl & Ha & Hm & Hw & Hs).
  assert (Hs' : sorted (max_vals (fst (step ch pos o t)))) by (apply step_sorted; exact Hs).
  destruct o as [v|u| |]; simpl in *.
  - (* Add *)
    split; [reflexivity|]. split; [|reflexivity].
    set (idx := bisect (c_add ch) (max_vals t) v) in *.
    assert (Hidx : idx <= length (build (concat g))).
    { rewrite <- Hm. apply bisect_le_length. }
    destruct g as [|top rest]; subst a; simpl in *.
    + exists [[((idx, pos), v)]]. unfold add. fold idx. rewrite Hl, Hm. simpl.
      repeat split; auto. rewrite <- Hm. exact Hs'.
    + exists ((((idx, pos), v) :: top) :: rest). unfold add. fold idx. rewrite Hl, Hm. simpl.
      repeat split; auto. rewrite <- Hm. exact Hs'.
  - (* Update *)
    split; [reflexivity|]. split; [|reflexivity].
    exists (map (map (g_upd u)) g). unfold update. simpl. repeat split.
    + rewrite Hl. rewrite !map_map. apply map_ext. intros l. rewrite !map_map. reflexivity.
    + subst a. rewrite !map_map. apply map_ext. intros l. rewrite !map_map. reflexivity.
    + rewrite concat_map_map, build_upd, <- Hm. apply overwrite_is_max. exact Hs.
    + rewrite concat_map_map. apply wf_upd. exact Hw.
    + exact Hs'.
  - (* Push *)
    split; [reflexivity|]. split; [|reflexivity].
    exists ([] :: g). simpl. subst a. rewrite Hl. repeat split; auto.
  - (* Pop *)
    unfold pop_level in *. unfold pop_order in *. rewrite Hrev in *.
    destruct g as [|top rest]; subst a; rewrite Hl in *; simpl in *.
    + split; [reflexivity|]. split; [|reflexivity].
      exists [[]]. simpl. repeat split; auto.
    + destruct (pop_entries_build top (concat rest) Hw) as [E1 E2].
      rewrite Hm in *. rewrite E1 in *. simpl in *.
      split; [reflexivity|]. split; [|exact E2].
      destruct rest as [|l2 rest]; simpl in *.
      * exists [[]]. simpl. repeat split; auto.
      * exists (l2 :: rest). simpl. repeat split; auto.
        apply (wf_app_r top). exact Hw.
Qed.

Lemma sim_run : forall ch ops pos t a,
  c_rev ch = true -> inv t a ->
  snd (run_from ch pos ops t) = snd (arun_from pos ops a) /\
  run_ok_from ch pos ops t = true.
Proof.
  induction ops as [|o r IH]; intros pos t a Hrev Hinv; simpl; [auto|].
  destruct (sim_step ch pos o t a Hrev Hinv) as (E1 & E2 & E3).
  rewrite E3. simpl.
  destruct (step ch pos o t) as [t1 f1]. destruct (astep pos o a) as [a1 g1]. simpl in *.
  destruct (IH (S pos) t1 a1 Hrev E2) as [F1 F2].
  destruct (run_from ch (S pos) r t1) as [t2 f2].
  destruct (arun_from (S pos) r a1) as [a2 g2]. simpl in *.
  subst. auto.
Qed.

(* with reversed iteration, the tracker finalises exactly what the reference model finalises,
   in the same order -- for both bisect variants in `add` and in `update` *)
Theorem run_refines_spec : forall ch ops,
  c_rev ch = true -> snd (run ch ops) = snd (arun ops).
Proof. intros. apply (sim_run ch ops 0 init ainit H inv_init). Qed.

(* ... and `self.max_vals.pop(idx)` never raises IndexError *)
Theorem pop_indices_in_range : forall ch ops, c_rev ch = true -> run_ok ch ops = true.
Proof. intros. apply (sim_run ch ops 0 init ainit H inv_init). Qed.

(* ------------------------------------------------------------------ the reference model meets
   the trace semantics *)
(* checkpoint i is live at relative depth d (0 = innermost level) carrying x *)
Definition live (a : alevels) (d : nat) (i : id) (x : Z) : Prop :=
  exists lvl, nth_error a d = Some lvl /\ In (i, x) lvl.

Lemma live_nil : forall d i x, ~ live [] d i x.
Proof. intros d i x (lvl & H & _). destruct d; discriminate. Qed.

Lemma live_cons_0 : forall top rest i x, live (top :: rest) 0 i x <-> In (i, x) top.
Proof.
  intros. split.
  - intros (lvl & H & Hin). simpl in H. inversion H; subst. exact Hin.
  - intros H. exists top. auto.
Qed.

Lemma live_cons_S : forall top rest d i x, live (top :: rest) (S d) i x <-> live rest d i x.
Proof. intros. unfold live. simpl. reflexivity. Qed.

Lemma live_upd : forall u a d i x,
  live (map (map (a_upd u)) a) d i x <-> exists y, live a d i y /\ x = Z.max y u.
Proof.
  intros u a d i x. unfold live. split.
  - intros (lvl & H & Hin). rewrite nth_error_map in H.
    destruct (nth_error a d) as [l0|] eqn:E; simpl in H; [|discriminate].
    inversion H; subst. apply in_map_iff in Hin. destruct Hin as ([j y] & Heq & Hin).
    unfold a_upd in Heq. simpl in Heq. inversion Heq; subst.
    exists y. split; [exists l0; auto | reflexivity].
  - intros (y & (lvl & H & Hin) & ->). exists (map (a_upd u) lvl). split.
    + rewrite nth_error_map, H. reflexivity.
    + apply in_map_iff. exists (i, y). auto.
Qed.

Definition popped (a : alevels) : alevels :=
  match a with [] => [[]] | _ :: rest => match rest with [] => [[]] | _ => rest end end.

Lemma live_popped : forall a d i x, live (popped a) d i x <-> live a (S d) i x.
Proof.
  intros [|top [|l2 rest]] d i x; simpl.
  - split; intros (lvl & H & Hin).
    + destruct d as [|[|]]; simpl in H; try discriminate. inversion H; subst. destruct Hin.
    + discriminate.
  - rewrite live_cons_S. split; intros (lvl & H & Hin).
    + destruct d as [|[|]]; simpl in H; try discriminate. inversion H; subst. destruct Hin.
    + destruct d; discriminate.
  - rewrite live_cons_S. reflexivity.
Qed.

(* the per-operation step of the main induction *)
Lemma astep_spec : forall pos o r a i x,
  In (i, x) (snd (astep pos o a)) \/
  (exists d acc, live (fst (astep pos o a)) d i acc /\ future_max_from r d acc = Some x)
  <->
  (exists d acc, live a d i acc /\ future_max_from (o :: r) d acc = Some x) \/
  (exists v, i = pos /\ o = Add v /\ future_max_from r 0 v = Some x).
Proof.
  intros pos o r a i x. destruct o as [v|u| |]; simpl.
  - (* Add *)
    split.
    + intros [[]|(d & acc & Hl & Hf)].
      destruct a as [|top rest].
      * destruct d as [|d]; [|destruct Hl as (lvl & H & _); destruct d; discriminate].
        apply -> live_cons_0 in Hl. destruct Hl as [E|[]]. inversion E; subst.
        right. exists acc. auto.
      * destruct d as [|d].
        -- apply -> live_cons_0 in Hl. destruct Hl as [E|Hin].
           ++ inversion E; subst. right. exists acc. auto.
           ++ left. exists 0, acc. split; [apply <- live_cons_0; exact Hin | exact Hf].
        -- apply -> live_cons_S in Hl. left. exists (S d), acc. split; [apply <- live_cons_S; exact Hl | exact Hf].
    + intros [(d & acc & Hl & Hf)|(v' & -> & E & Hf)].
      * right. exists d, acc. split; [|exact Hf].
        destruct a as [|top rest]; [exfalso; eapply live_nil; exact Hl|].
        destruct d as [|d].
        -- apply <- live_cons_0. right. apply -> live_cons_0 in Hl. exact Hl.
        -- apply <- live_cons_S. apply -> live_cons_S in Hl. exact Hl.
      * inversion E; subst. right. exists 0, v'. split; [|exact Hf].
        destruct a as [|top rest]; apply <- live_cons_0; left; reflexivity.
  - (* Update *)
    split.
    + intros [[]|(d & acc & Hl & Hf)]. apply -> live_upd in Hl. destruct Hl as (y & Hl & ->).
      left. exists d, y. auto.
    + intros [(d & acc & Hl & Hf)|(v' & _ & E & _)]; [|discriminate].
      right. exists d, (Z.max acc u). split; [|exact Hf]. apply <- live_upd. exists acc. auto.
  - (* Push *)
    split.
    + intros [[]|(d & acc & Hl & Hf)]. destruct d as [|d].
      * apply -> live_cons_0 in Hl. destruct Hl.
      * apply -> live_cons_S in Hl. left. exists d, acc. auto.
    + intros [(d & acc & Hl & Hf)|(v' & _ & E & _)]; [|discriminate].
      right. exists (S d), acc. split; [apply <- live_cons_S; exact Hl | exact Hf].
  - (* Pop *)
    assert (E : astep pos Pop a = (popped a, match a with [] => [] | top :: _ => top end)).
    { destruct a; reflexivity. }
    simpl in E. rewrite E. simpl. split.
    + intros [Hin|(d & acc & Hl & Hf)].
      * left. exists 0, x. split; [|reflexivity].
        destruct a as [|top rest]; [destruct Hin|]. apply <- live_cons_0. exact Hin.
      * apply -> live_popped in Hl. left. exists (S d), acc. auto.
    + intros [(d & acc & Hl & Hf)|(v' & _ & E' & _)]; [|discriminate].
      destruct d as [|d].
      * inversion Hf; subst. left.
        destruct a as [|top rest]; [exfalso; eapply live_nil; exact Hl|].
        apply -> live_cons_0 in Hl. exact Hl.
      * right. exists d, acc. split; [apply <- live_popped; exact Hl | exact Hf].
Qed.

Definition new_adds (pos : nat) (ops : list op) (i : id) (x : Z) : Prop :=
  exists k v, i = pos + k /\ nth_error ops k = Some (Add v) /\
              future_max_from (skipn (S k) ops) 0 v = Some x.

Lemma new_adds_cons : forall pos o r i x,
  new_adds pos (o :: r) i x <->
  (exists v, i = pos /\ o = Add v /\ future_max_from r 0 v = Some x) \/ new_adds (S pos) r i x.
Proof.
  intros. unfold new_adds. split.
  - intros (k & v & Hi & Hn & Hf). destruct k as [|k]; simpl in *.
    + left. exists v. inversion Hn; subst. repeat split; auto; lia.
    + right. exists k, v. repeat split; auto; lia.
  - intros [(v & -> & -> & Hf)|(k & v & -> & Hn & Hf)].
    + exists 0, v. simpl. repeat split; auto.
    + exists (S k), v. simpl. repeat split; auto; lia.
Qed.

Lemma arun_spec : forall ops a pos i x,
  In (i, x) (snd (arun_from pos ops a)) <->
  (exists d acc, live a d i acc /\ future_max_from ops d acc = Some x) \/ new_adds pos ops i x.
Proof.
  induction ops as [|o r IH]; intros a pos i x.
  - simpl. split; [intros []|].
    intros [(d & acc & _ & H)|(k & v & _ & H & _)]; [discriminate | destruct k; discriminate].
  - simpl. pose proof (astep_spec pos o r a i x) as S1.
    destruct (astep pos o a) as [a1 f1]. simpl in S1.
    specialize (IH a1 (S pos) i x).
    destruct (arun_from (S pos) r a1) as [a2 f2]. simpl in *.
    rewrite in_app_iff, new_adds_cons. tauto.
Qed.

(* one-pass form vs. (matching pop, updates in between) *)
Lemma future_max_close : forall ops d acc x,
  future_max_from ops d acc = Some x <->
  exists n, close_from ops d = Some n /\ x = max_with acc (updates (firstn n ops)).
Proof.
  induction ops as [|o r IH]; intros d acc x.
  - simpl. split; [discriminate | intros (n & H & _); discriminate].
  - assert (G : forall d' acc', 
      (exists n, option_map S (close_from r d') = Some n /\
                 x = max_with acc' (updates (firstn n (o :: r))) ) <->
      (exists m, close_from r d' = Some m /\ x = max_with acc' (updates (firstn (S m) (o :: r))))).
    { intros d' acc'. split.
      - intros (n & H & Hx). destruct (close_from r d') as [m|]; [|discriminate].
        inversion H; subst. exists m. auto.
      - intros (m & H & Hx). rewrite H. exists (S m). auto. }
    destruct o as [v|u| |]; simpl.
    + rewrite IH, G. simpl. reflexivity.
    + rewrite IH, G. simpl. reflexivity.
    + rewrite IH, G. simpl. reflexivity.
    + destruct d as [|d].
      * split.
        -- intros H. inversion H; subst. exists 0. auto.
        -- intros (n & H & Hx). inversion H; subst. reflexivity.
      * rewrite IH, G. simpl. reflexivity.
Qed.

(* ------------------------------------------------------------------ (b) *)
Definition finalized_is_future_max_statement (ch : choices) : Prop :=
  forall ops i x,
    In (i, x) (snd (run ch ops)) <->
    exists v j, nth_error ops i = Some (Add v) /\ matching_pop ops i = Some j /\
                x = max_with v (updates_between ops i j).

Theorem finalized_is_future_max_gen : forall ch,
  c_rev ch = true -> finalized_is_future_max_statement ch.
Proof.
  intros ch Hrev ops i x. rewrite (run_refines_spec ch ops Hrev). unfold arun.
  rewrite arun_spec. unfold matching_pop, updates_between. split.
  - intros [(d & acc & Hl & _)|(k & v & -> & Hn & Hf)].
    + exfalso. destruct Hl as (lvl & H & Hin). unfold ainit in H.
      destruct d as [|[|]]; simpl in H; try discriminate. inversion H; subst. destruct Hin.
    + rewrite Nat.add_0_l. apply future_max_close in Hf. destruct Hf as (n & Hc & Hx).
      exists v, (S k + n). rewrite Hc. repeat split; auto.
      replace (S k + n - S k) with n by lia. exact Hx.
  - intros (v & j & Hn & Hj & Hx). right. exists i, v. repeat split; auto.
    apply future_max_close.
    destruct (close_from (skipn (S i) ops) 0) as [n|]; [|discriminate].
    simpl in Hj. inversion Hj; subst j. exists n. split; [reflexivity|].
    replace (S (i + n) - S i) with n in Hx by lia. exact Hx.
Qed.

(* what `matching_pop` finds: a later `Pop` (so the theorem talks about the pop of c's level) *)
Lemma close_from_Pop : forall ops d n, close_from ops d = Some n -> nth_error ops n = Some Pop.
Proof.
  induction ops as [|o r IH]; intros d n H; simpl in H; [discriminate|].
  destruct o; try (destruct (close_from r _) eqn:E; [|discriminate]; inversion H; subst; simpl; eauto).
  destruct d as [|d]; [inversion H; reflexivity|].
  destruct (close_from r d) eqn:E; [|discriminate]. inversion H; subst; simpl; eauto.
Qed.

Lemma nth_error_skipn : forall (A : Type) (l : list A) n k,
  nth_error (skipn n l) k = nth_error l (n + k).
Proof.
  induction l as [|y r IH]; intros n k.
  - rewrite skipn_nil. destruct k, n; reflexivity.
  - destruct n; simpl; [reflexivity | apply IH].
Qed.

Lemma matching_pop_is_Pop : forall ops i j,
  matching_pop ops i = Some j -> i < j /\ nth_error ops j = Some Pop.
Proof.
  intros ops i j H. unfold matching_pop in H.
  destruct (close_from (skipn (S i) ops) 0) as [n|] eqn:E; [|discriminate].
  simpl in H. inversion H; subst. split; [lia|].
  apply close_from_Pop in E. rewrite nth_error_skipn in E. exact E.
Qed.

(* ------------------------------------------------------------------ (c) *)
Lemma max_with_ge : forall l v, (v <= max_with v l)%Z /\ forall u, In u l -> (u <= max_with v l)%Z.
Proof.
  unfold max_with. induction l as [|y r IH]; intros v; simpl.
  - split; [lia | intros u []].
  - destruct (IH (Z.max v y)) as [H1 H2]. split; [lia|].
    intros u [->|Hin]; [lia | apply H2; exact Hin].
Qed.

Lemma in_updates : forall l n u, nth_error l n = Some (Update u) -> In u (updates l).
Proof.
  induction l as [|o r IH]; intros n u H; [destruct n; discriminate|].
  destruct n as [|n]; simpl in H.
  - inversion H; subst. simpl. auto.
  - specialize (IH n u H). destruct o; simpl; auto.
Qed.

Lemma nth_error_firstn_lt : forall (A : Type) (l : list A) n k,
  k < n -> nth_error (firstn n l) k = nth_error l k.
Proof.
  induction l as [|y r IH]; intros n k H.
  - rewrite firstn_nil. reflexivity.
  - destruct n; [lia|]. destruct k; simpl; [reflexivity | apply IH; lia].
Qed.

Lemma in_updates_between : forall ops i j k u,
  i < k < j -> nth_error ops k = Some (Update u) -> In u (updates_between ops i j).
Proof.
  intros ops i j k u Hk Hn. unfold updates_between.
  apply (in_updates _ (k - S i)).
  rewrite nth_error_firstn_lt by lia. rewrite nth_error_skipn.
  replace (S i + (k - S i)) with k by lia. exact Hn.
Qed.

Theorem guard_dominates_gen : forall ch, c_rev ch = true ->
  forall ops i x v j,
    In (i, x) (snd (run ch ops)) ->
    nth_error ops i = Some (Add v) -> matching_pop ops i = Some j ->
    (v <= x)%Z /\
    forall k u, i < k < j -> nth_error ops k = Some (Update u) -> (u <= x)%Z.
Proof.
  intros ch Hrev ops i x v j Hin Hn Hj.
  apply (finalized_is_future_max_gen ch Hrev) in Hin.
  destruct Hin as (v' & j' & Hn' & Hj' & ->).
  rewrite Hn in Hn'. inversion Hn'; subst v'. rewrite Hj in Hj'. inversion Hj'; subst j'.
  destruct (max_with_ge (updates_between ops i j) v) as [H1 H2].
  split; [exact H1|]. intros k u Hk Hu. apply H2. eapply in_updates_between; eauto.
Qed.

(* ------------------------------------------------------------------ finalised at most once *)
Definition aids (a : alevels) : list id := map fst (concat a).

Lemma nodup_app : forall (l1 l2 : list id),
  NoDup l1 -> NoDup l2 -> (forall x, In x l1 -> ~ In x l2) -> NoDup (l1 ++ l2).
Proof.
  induction l1 as [|y r IH]; intros l2 H1 H2 H; simpl; [exact H2|].
  inversion H1; subst. constructor.
  - rewrite in_app_iff. intros [Hy|Hy]; [contradiction | apply (H y); simpl; auto].
  - apply IH; auto. intros x Hx. apply H. simpl. auto.
Qed.

Lemma nodup_app_inv : forall (l1 l2 : list id),
  NoDup (l1 ++ l2) -> NoDup l1 /\ NoDup l2 /\ forall x, In x l1 -> ~ In x l2.
Proof.
  induction l1 as [|y r IH]; intros l2 H; simpl in *.
  - repeat split; [constructor | exact H | intros x []].
  - inversion H; subst. destruct (IH l2 H3) as (A & B & C).
    rewrite in_app_iff in H2. repeat split.
    + constructor; tauto.
    + exact B.
    + intros x [->|Hx]; [tauto | apply C; exact Hx].
Qed.

Lemma aids_upd : forall u a, aids (map (map (a_upd u)) a) = aids a.
Proof. intros. unfold aids. rewrite concat_map_map, map_map. reflexivity. Qed.

Lemma aids_popped : forall top rest, aids (popped (top :: rest)) = aids rest.
Proof. intros top [|l2 rest]; reflexivity. Qed.

Lemma arun_nodup : forall ops a pos,
  NoDup (aids a) -> (forall i, In i (aids a) -> i < pos) ->
  NoDup (map fst (snd (arun_from pos ops a))) /\
  forall i, In i (map fst (snd (arun_from pos ops a))) -> In i (aids a) \/ pos <= i.
Proof.
  induction ops as [|o r IH]; intros a pos Hnd Hlt; simpl.
  - split; [constructor | intros i []].
  - destruct o as [v|u| |]; simpl.
    + (* Add *)
      set (a1 := match a with [] => [[(pos, v)]] | top :: rest => ((pos, v) :: top) :: rest end).
      assert (E : aids a1 = pos :: aids a) by (destruct a; reflexivity).
      destruct (IH a1 (S pos)) as [N1 N2].
      * rewrite E. constructor; [|exact Hnd]. intros H. apply Hlt in H. lia.
      * intros i. rewrite E. intros [<-|H]; [lia | apply Hlt in H; lia].
      * destruct (arun_from (S pos) r a1) as [a2 f2]. simpl in *. split; [exact N1|].
        intros i Hi. apply N2 in Hi. rewrite E in Hi. simpl in Hi.
        destruct Hi as [[<-|Hi]|Hi]; [right; lia | left; exact Hi | right; lia].
    + (* Update *)
      destruct (IH (map (map (a_upd u)) a) (S pos)) as [N1 N2].
      * rewrite aids_upd. exact Hnd.
      * intros i. rewrite aids_upd. intros H. apply Hlt in H. lia.
      * destruct (arun_from (S pos) r (map (map (a_upd u)) a)) as [a2 f2]. simpl in *.
        split; [exact N1|]. intros i Hi. apply N2 in Hi. rewrite aids_upd in Hi.
        destruct Hi; [left; assumption | right; lia].
    + (* Push *)
      destruct (IH ([] :: a) (S pos)) as [N1 N2].
      * exact Hnd.
      * intros i H. apply Hlt in H. lia.
      * destruct (arun_from (S pos) r ([] :: a)) as [a2 f2]. simpl in *.
        split; [exact N1|]. intros i Hi. apply N2 in Hi.
        destruct Hi; [left; assumption | right; lia].
    + (* Pop *)
      destruct a as [|top rest].
      * destruct (IH [[]] (S pos)) as [N1 N2]; [constructor | intros i [] |].
        destruct (arun_from (S pos) r [[]]) as [a2 f2]. simpl in *.
        split; [exact N1|]. intros i Hi. apply N2 in Hi. destruct Hi as [[]|Hi]. right; lia.
      * change (match rest with [] => [[]] | _ :: _ => rest end) with (popped (top :: rest)).
        assert (E : aids (top :: rest) = map fst top ++ aids rest).
        { unfold aids. simpl. apply map_app. }
        rewrite E in Hnd. apply nodup_app_inv in Hnd. destruct Hnd as (A & B & C).
        destruct (IH (popped (top :: rest)) (S pos)) as [N1 N2].
        -- rewrite aids_popped. exact B.
        -- intros i. rewrite aids_popped. intros H.
           assert (i < pos) by (apply Hlt; rewrite E; apply in_or_app; auto). lia.
        -- destruct (arun_from (S pos) r (popped (top :: rest))) as [a2 f2]. cbn [snd fst] in *.
           rewrite map_app. split.
           ++ apply nodup_app; auto. intros i Hi Hi2. apply N2 in Hi2.
              rewrite aids_popped in Hi2. destruct Hi2 as [Hi2|Hi2].
              ** exact (C i Hi Hi2).
              ** assert (i < pos) by (apply Hlt; rewrite E; apply in_or_app; auto). lia.
           ++ intros i Hi. rewrite E. apply in_app_or in Hi. destruct Hi as [Hi|Hi].
              ** left. apply in_or_app. auto.
              ** apply N2 in Hi. rewrite aids_popped in Hi.
                 destruct Hi; [left; apply in_or_app; auto | right; lia].
Qed.

Theorem finalized_once_gen : forall ch ops,
  c_rev ch = true -> NoDup (map fst (snd (run ch ops))).
Proof.
  intros ch ops Hrev. rewrite (run_refines_spec ch ops Hrev). unfold arun.
  apply arun_nodup; [constructor | intros i []].
Qed.

(* ------------------------------------------------------------------ without `reversed` *)
(* Walking the popped level oldest-first breaks the stack discipline: the recorded index of an
   older entry is stale while newer entries are still in max_vals. *)
Theorem no_reverse_refuted : forall ka ku,
  ~ finalized_is_future_max_statement (mkChoices ka ku false).
Proof.
  intros ka ku H.
  destruct (proj1 (H [Add 10%Z; Add 5%Z; Pop] 0 5%Z)) as (v & j & Hn & Hj & Hx).
  - destruct ka, ku; simpl; auto.
  - simpl in Hn. inversion Hn; subst v. vm_compute in Hj. inversion Hj; subst j.
    vm_compute in Hx. discriminate.
Qed.

(* ... and raises IndexError on the most ordinary sequence *)
Theorem no_reverse_index_error : forall ka ku,
  run_ok (mkChoices ka ku false) [Add 0%Z; Add 1%Z; Pop] = false.
Proof. intros [] []; reflexivity. Qed.

(* ------------------------------------------------------------------ the source as it is now *)
Theorem finalized_is_future_max : forall ops i x,
  In (i, x) (snd (run gen_choices ops)) <->
  exists v j, nth_error ops i = Some (Add v) /\ matching_pop ops i = Some j /\
              x = max_with v (updates_between ops i j).
Proof. apply finalized_is_future_max_gen. reflexivity. Qed.

Theorem finalized_once : forall ops, NoDup (map fst (snd (run gen_choices ops))).
Proof. intros. apply finalized_once_gen. reflexivity. Qed.

Theorem guard_dominates : forall ops i x v j,
  In (i, x) (snd (run gen_choices ops)) ->
  nth_error ops i = Some (Add v) -> matching_pop ops i = Some j ->
  (v <= x)%Z /\
  forall k u, i < k < j -> nth_error ops k = Some (Update u) -> (u <= x)%Z.
Proof. apply guard_dominates_gen. reflexivity. Qed.

(* a passed guard `gap >= N` covers every static frame size recorded later in the block *)
Theorem guard_passed_covers_block : forall ops i N v j gap,
  In (i, N) (snd (run gen_choices ops)) ->
  nth_error ops i = Some (Add v) -> matching_pop ops i = Some j ->
  (N <= gap)%Z ->
  (v <= gap)%Z /\
  forall k u, i < k < j -> nth_error ops k = Some (Update u) -> (u <= gap)%Z.
Proof.
  intros ops i N v j gap Hin Hn Hj Hg.
  destruct (guard_dominates ops i N v j Hin Hn Hj) as [H1 H2].
  split; [lia|]. intros k u Hk Hu. specialize (H2 k u Hk Hu). lia.
Qed.

Theorem no_index_error : forall ops, run_ok gen_choices ops = true.
Proof. intros. apply pop_indices_in_range. reflexivity. Qed.

Theorem sorted_invariant : forall ops, StronglySorted Z.le (max_vals (fst (run gen_choices ops))).
Proof. intros. apply max_vals_sorted. Qed.

(* ------------------------------------------------------------------ examples *)
Local Open Scope Z_scope.

(* a function: RA word, one argument, entry guard, body block with a VLA and a nested block *)
Definition ex_function : list op :=
  [ Update 4; Update 8; Add 8;          (* reserve RA, reserve arg, entry guard (id 2) *)
    Push;                               (* body { *)
    Update 12; Update 16; Add 16;       (*   length word, origin word, VLA guard (id 6) *)
    Update 20;                          (*   a temporary *)
    Push; Update 28; Pop;               (*   { two more words } *)
    Update 24;
    Pop;                                (* } : finalises the VLA guard *)
    Pop ].                              (* end of gen_func: finalises the entry guard *)

Example ex_function_run : snd (run gen_choices ex_function) = [(6%nat, 28); (2%nat, 28)].
Proof. reflexivity. Qed.

Example ex_function_matching : matching_pop ex_function 6 = Some 12%nat
                               /\ matching_pop ex_function 2 = Some 13%nat
                               /\ updates_between ex_function 6 12 = [20; 28; 24].
Proof. repeat split. Qed.

(* sibling blocks: a checkpoint does not see what happens after its block is closed *)
Definition ex_siblings : list op :=
  [ Add 0; Push; Add 4; Update 10; Pop; Push; Add 4; Update 6; Pop; Pop ].

Example ex_siblings_run :
  snd (run gen_choices ex_siblings) = [(2%nat, 10); (6%nat, 6); (0%nat, 10)].
Proof. reflexivity. Qed.

(* the recorded index of checkpoint 0 (idx 0) is stale while checkpoint 1 is live (max_vals =
   [5; 10], checkpoint 0 sits at position 1); reversed popping makes it valid again *)
Definition ex_stale_index : list op := [ Add 10; Add 5; Update 7; Pop ].

Example ex_stale_index_run : snd (run gen_choices ex_stale_index) = [(1%nat, 7); (0%nat, 10)].
Proof. reflexivity. Qed.

(* two functions compiled one after the other: the base level is popped and re-pushed *)
Example ex_two_functions :
  snd (run gen_choices [Update 4; Add 4; Push; Update 12; Pop; Pop;
                        Update 4; Add 4; Push; Update 6; Pop; Pop])
  = [(1%nat, 12); (7%nat, 6)].
Proof. reflexivity. Qed.

(* the hypotheses of guard_dominates are satisfiable *)
Example guard_dominates_hyps_sat :
  exists ops i x v j, In (i, x) (snd (run gen_choices ops)) /\
    nth_error ops i = Some (Add v) /\ matching_pop ops i = Some j /\
    exists k u, (i < k < j)%nat /\ nth_error ops k = Some (Update u).
Proof.
  exists ex_function, 6%nat, 28, 16, 12%nat. repeat split; simpl; auto.
  exists 9%nat, 28. repeat split; auto.
Qed.
