(* SPECIFICATION of signed decimal printing, independent of any routine: `decimal v` is the list
   of ASCII codes of v in base ten - a '-' for negative numbers, then the digits most significant
   first, "0" for zero, no padding.  The sanity theorems at the end pin it down: the digits are
   '0'..'9', they denote |v| (Horner), there is no leading '0' except for the number 0 itself, and
   the sign is there exactly for v < 0. *)
From Coq Require Import ZArith List Bool Lia.
Import ListNotations.
Open Scope Z_scope.
Ltac Zify.zify_post_hook ::= Z.to_euclidean_division_equations.

(* digits of n >= 0; fuel bounds the number of digits; [] only when the fuel runs out, which
   `udec` excludes by construction (udec_step below is fuel-free) *)
Fixpoint udigits (fuel : nat) (n : Z) : list Z :=
  match fuel with
  | O => []
  | S f => if n <? 10 then [48 + n] else udigits f (n / 10) ++ [48 + n mod 10]
  end.
Definition dfuel (n : Z) : nat := S (Z.to_nat (Z.log2 n)).
Definition udec (n : Z) : list Z := udigits (dfuel n) n.
Definition decimal (v : Z) : list Z := if v <? 0 then 45 :: udec (- v) else udec v.

Lemma pow2_S f : 2 ^ Z.of_nat (S f) = 2 * 2 ^ Z.of_nat f.
Proof. rewrite Nat2Z.inj_succ. apply Z.pow_succ_r. lia. Qed.

Lemma udigits_fuel : forall f1 f2 n, 0 <= n < 2 ^ Z.of_nat (S f1) -> n < 2 ^ Z.of_nat (S f2) ->
  udigits (S f1) n = udigits (S f2) n.
Proof.
  induction f1 as [|f1 IH]; intros f2 n H1 H2; cbn [udigits]; destruct (Z.ltb_spec n 10) as [Hlt|Hge]; try reflexivity.
  - change (2 ^ Z.of_nat 1) with 2 in H1. lia.
  - destruct f2 as [|f2]; [change (2 ^ Z.of_nat 1) with 2 in H2; lia|].
    rewrite (pow2_S (S f1)) in H1. rewrite (pow2_S (S f2)) in H2.
    f_equal. apply IH; lia.
Qed.
Lemma dfuel_ok n : 0 <= n -> n < 2 ^ Z.of_nat (dfuel n).
Proof.
  intros Hn. unfold dfuel. rewrite Nat2Z.inj_succ, Z2Nat.id by apply Z.log2_nonneg.
  destruct (Z.eq_dec n 0) as [->|Hnz]; [reflexivity|]. apply Z.log2_spec. lia.
Qed.

(* the fuel-free recursion equations of udec *)
Lemma udec_small n : 0 <= n < 10 -> udec n = [48 + n].
Proof. intros H. unfold udec, dfuel. cbn [udigits]. destruct (Z.ltb_spec n 10); [reflexivity | lia]. Qed.
Lemma udec_step n : 10 <= n -> udec n = udec (n / 10) ++ [48 + n mod 10].
Proof.
  intros H. unfold udec at 1. unfold dfuel at 1. cbn [udigits]. destruct (Z.ltb_spec n 10); [lia|].
  f_equal. pose proof (dfuel_ok n ltac:(lia)) as Hf. unfold dfuel in Hf.
  destruct (Z.to_nat (Z.log2 n)) as [|f] eqn:Ef.
  - change (2 ^ Z.of_nat 1) with 2 in Hf. lia.
  - unfold udec, dfuel. rewrite (pow2_S (S f)) in Hf.
    apply udigits_fuel; [lia|]. apply (dfuel_ok (n / 10)). lia.
Qed.

(* induction principle matching the equations *)
Lemma udec_ind (P : Z -> Prop) :
  (forall n, 0 <= n < 10 -> P n) -> (forall n, 10 <= n -> P (n / 10) -> P n) -> forall n, 0 <= n -> P n.
Proof.
  intros Hs Hb n Hn. pattern n. apply Zlt_0_ind; [|exact Hn]. clear n Hn. intros n IH Hn.
  destruct (Z_lt_le_dec n 10); [apply Hs; lia | apply Hb; [lia | apply IH; lia]].
Qed.

(* ---------- sanity of the specification ---------- *)
Definition dval (l : list Z) : Z := fold_left (fun a d => 10 * a + (d - 48)) l 0.
Lemma dval_snoc l d : dval (l ++ [d]) = 10 * dval l + (d - 48).
Proof. unfold dval. rewrite fold_left_app. reflexivity. Qed.

Theorem udec_value n : 0 <= n -> dval (udec n) = n.
Proof.
  intros Hn. pattern n. apply udec_ind; [| |exact Hn]; clear n Hn.
  - intros n H. rewrite udec_small by exact H. unfold dval. cbn [fold_left]. lia.
  - intros n H IH. rewrite (udec_step n H), dval_snoc, IH. lia.
Qed.
Theorem udec_digits n : 0 <= n -> Forall (fun d => 48 <= d <= 57) (udec n).
Proof.
  intros Hn. pattern n. apply udec_ind; [| |exact Hn]; clear n Hn.
  - intros n H. rewrite udec_small by exact H. constructor; [lia | constructor].
  - intros n H IH. rewrite (udec_step n H). apply Forall_app; split; [exact IH|]. constructor; [lia | constructor].
Qed.
Theorem udec_nonempty n : 0 <= n -> udec n <> [].
Proof.
  intros Hn. destruct (Z_lt_le_dec n 10).
  - rewrite udec_small by lia. discriminate.
  - rewrite udec_step by lia. intro E. apply app_eq_nil in E. destruct E; discriminate.
Qed.
(* no padding: the first digit of a positive number is not '0' *)
Theorem udec_no_leading_zero n : 0 < n -> hd 0 (udec n) <> 48.
Proof.
  intros Hn. assert (H0 : 0 <= n) by lia. revert Hn. pattern n. apply udec_ind; [| |exact H0]; clear n H0.
  - intros n H Hp. rewrite udec_small by exact H. cbn [hd]. lia.
  - intros n H IH _. rewrite (udec_step n H).
    pose proof (udec_nonempty (n / 10) ltac:(lia)) as Hne.
    destruct (udec (n / 10)) as [|d l] eqn:E; [congruence|]. cbn [app hd] in *. apply IH. lia.
Qed.
Theorem decimal_zero : decimal 0 = [48].
Proof. reflexivity. Qed.
Theorem decimal_nonneg v : 0 <= v -> decimal v = udec v.
Proof. intros H. unfold decimal. destruct (Z.ltb_spec v 0); [lia | reflexivity]. Qed.
Theorem decimal_neg v : v < 0 -> decimal v = 45 :: udec (- v).
Proof. intros H. unfold decimal. destruct (Z.ltb_spec v 0); [reflexivity | lia]. Qed.

Definition ndigits (n : Z) : Z := Z.of_nat (length (udec n)).
Lemma ndigits_small n : 0 <= n < 10 -> ndigits n = 1.
Proof. intros H. unfold ndigits. rewrite udec_small by exact H. reflexivity. Qed.
Lemma ndigits_step n : 10 <= n -> ndigits n = ndigits (n / 10) + 1.
Proof. intros H. unfold ndigits. rewrite udec_step by exact H. rewrite app_length. cbn [length]. lia. Qed.
Lemma ndigits_pos n : 0 <= n -> 1 <= ndigits n.
Proof.
  intros H. destruct (Z_lt_le_dec n 10); [rewrite ndigits_small; lia|].
  rewrite ndigits_step by lia. unfold ndigits. lia.
Qed.
(* a number with at least k+1 digits: 10^k <= n *)
Lemma ndigits_ge k : forall n, 0 <= k -> 10 ^ k <= n -> k + 1 <= ndigits n.
Proof.
  intros n Hk. revert n. pattern k. apply natlike_ind; [| |exact Hk]; clear k Hk.
  - intros n Hn. change (10 ^ 0) with 1 in Hn. pose proof (ndigits_pos n ltac:(lia)). lia.
  - intros k Hk IH n Hn. rewrite Z.pow_succ_r in Hn by exact Hk.
    assert (0 < 10 ^ k) by (apply Z.pow_pos_nonneg; lia).
    rewrite ndigits_step by lia. pose proof (IH (n / 10) ltac:(lia)). lia.
Qed.

Lemma ndigits_mono n : 0 <= n -> forall n', n <= n' -> ndigits n <= ndigits n'.
Proof.
  intros Hn. pattern n. apply udec_ind; [| |exact Hn]; clear n Hn.
  - intros n H n' Hle. rewrite (ndigits_small n H). apply ndigits_pos. lia.
  - intros n H IH n' Hle. rewrite (ndigits_step n H), (ndigits_step n') by lia.
    pose proof (IH (n' / 10) ltac:(lia)). lia.
Qed.

Example decimal_examples :
  decimal 0 = [48] /\ decimal 7 = [55] /\ decimal 1234 = [49;50;51;52] /\ decimal (-5) = [45;53] /\
  decimal (-32768) = [45;51;50;55;54;56] /\ decimal 32767 = [51;50;55;54;55] /\
  decimal (-9223372036854775808) = [45;57;50;50;51;51;55;50;48;51;54;56;53;52;55;55;53;56;48;56].
Proof. vm_compute. repeat split. Qed.
