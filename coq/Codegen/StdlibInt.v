(* write(int) of the regenerated runtime library prints `decimal (sgn v)` (DecimalSpec.v) for every
   representable v, the most negative one included, and returns.  For every word size w >= 2.
   Its footprint is NOT confined to r0..r2: the digits are stored at F-1w-1 downwards, over the
   argument word and - for numbers with more than w digits - below the callee frame (finding F3:
   `write_int_writes_below_frame`). *)
From Coq Require Import ZArith List Bool Lia.
From HidV Require Import Machine Halts WordLemmas MemLemmas GenStdlib StepTactics StdlibBase StdlibBytes DecimalSpec.
Import ListNotations.
Open Scope Z_scope.
Ltac Zify.zify_post_hook ::= Z.to_euclidean_division_equations.

(* equal outside r0..r2 and outside [lo, hi) *)
Definition agree_except (w lo hi : Z) (m m0 : mem) : Prop :=
  msize m = msize m0 /\
  forall x, 0 <= x -> (x < 2 * w \/ 5 * w <= x) -> (x < lo \/ hi <= x) -> getb m x = getb m0 x.

(* the digit buffer of write_int for the signed value sv: [lo, F - 1w) *)
Definition write_int_lo (w F sv : Z) : Z := F - w - ndigits (Z.abs sv).
Definition write_int_footprint (w F sv x : Z) : Prop := write_int_lo w F sv <= x < F - w.
(* the buffer must not reach down into the registers *)
Definition write_int_room (w F sv : Z) : Prop := stack_start w <= write_int_lo w F sv.

(* ---------- word arithmetic used by the routine ---------- *)
Section IntArith.
Variable w : Z.
Hypothesis Hw : 2 <= w.
Notation W := (Machine.W w).
Notation wrap := (Machine.wrap w).
Notation sgn := (Machine.sgn w).

Lemma wrap_add_neg x z : 0 <= z <= x -> x < W -> wrap (x + wrap (- z)) = x - z.
Proof.
  intros Hz Hx. unfold Machine.wrap. rewrite Zplus_mod_idemp_r.
  replace (x + - z) with (x - z) by lia. apply Z.mod_small. lia.
Qed.
Lemma wrap_neg v : 0 < v < W -> wrap (0 - v) = W - v.
Proof. intros H. unfold Machine.wrap. symmetry. apply Z.mod_unique_pos with (q := -1); lia. Qed.
Lemma sw_congr m a v v' : wrap v = wrap v' -> Machine.sw w m a v = Machine.sw w m a v'.
Proof. intros E. unfold Machine.sw. rewrite E. reflexivity. Qed.
Lemma sgn_big v : W / 2 <= v < W -> sgn v = v - W.
Proof. intros H. unfold Machine.sgn. destruct (Z.ltb_spec v (W / 2)); lia. Qed.

(* The special path for the most negative value.  Negation leaves MIN unchanged (as a word it is
   H = W/2); `sub 10` wraps it to the positive H - 10 = MAX - 9, whose last digit is that of H and
   whose quotient by ten is one less than that of H.  All operands of div/mod are non-negative
   here, so floor and truncating division coincide on this path. *)
Lemma min_identity H : 10 <= H -> (H - 10) mod 10 = H mod 10 /\ (H - 10) / 10 + 1 = H / 10.
Proof. intros HH. lia. Qed.
End IntArith.

Section Int.
Variables (w : Z) (code : Z -> option instr) (cmem : mem) (B : Z).
Hypothesis Hw : 2 <= w.
Hypothesis CA : lib_at w code B.
Hypothesis B_range : lib_range w B.

Notation act := (Machine.act w code cmem).
Notation runs := (Halts.runs act).
Notation lw := (Machine.lw w).
Notation sw := (Machine.sw w).
Notation sb := Machine.sb.
Notation W := (Machine.W w).
Notation agree := (agree w).
Notation agree_except := (agree_except w).

Lemma ae_refl lo hi m : agree_except lo hi m m.
Proof. split; [reflexivity | intros; reflexivity]. Qed.
Lemma ae_sw lo hi m m0 a v : agree_except lo hi m m0 -> (a = 2 * w \/ a = 3 * w \/ a = 4 * w) ->
  agree_except lo hi (sw m a v) m0.
Proof.
  intros [S A] Ha; split; [rewrite msize_sw; exact S|]. intros x Hx Hr Hl. unfold Machine.sw.
  rewrite storen_outside; [apply A; assumption | lia | lia |]. rewrite wn_w by lia. lia.
Qed.
Lemma ae_sb lo hi m m0 a v : agree_except lo hi m m0 -> 0 <= a -> lo <= a < hi ->
  agree_except lo hi (sb m a v) m0.
Proof.
  intros [S A] Ha Hl; split; [exact S|]. intros x Hx Hr Hl'. unfold Machine.sb.
  rewrite getb_setb_other by lia. apply A; assumption.
Qed.
Lemma ae_widen lo hi lo' hi' m m0 : agree_except lo hi m m0 -> lo' <= lo -> hi <= hi' -> agree_except lo' hi' m m0.
Proof. intros [S A] H1 H2; split; [exact S|]. intros x Hx Hr Hl. apply A; [assumption | assumption | lia]. Qed.
Lemma ae_lw lo hi m m0 a : agree_except lo hi m m0 -> 0 <= a -> (a + w <= 2 * w \/ 5 * w <= a) ->
  (a + w <= lo \/ hi <= a) -> lw m a = lw m0 a.
Proof.
  intros [S A] Ha0 Ha Hl. unfold Machine.lw. apply loadn_ext. intros x Hx. rewrite wn_w in Hx by lia.
  apply A; lia.
Qed.
Lemma ae_agree lo hi m m1 m0 : StepTactics.agree w m m1 -> agree_except lo hi m1 m0 -> agree_except lo hi m m0.
Proof.
  intros [S1 A1] [S2 A2]; split; [congruence|]. intros x Hx Hr Hl. rewrite (A1 x Hx Hr). apply A2; assumption.
Qed.
Lemma agree_ae_empty m m0 lo : StepTactics.agree w m m0 -> agree_except lo lo m m0.
Proof. intros [S A]; split; [exact S|]. intros x Hx Hr _. apply A; assumption. Qed.

(* ---------- the digit loop ---------- *)
Section Digits.
Variables (mI : mem) (F : Z).
Hypothesis HFP : lw mI (1 * w) = F.
Hypothesis HF1 : 5 * w <= F - w.
Hypothesis HF2 : F <= msize mI.
Hypothesis HF3 : F < W / 2.

(* loop invariant: [r0] = p, the bytes [p, F-1w) are the digits `acc` produced so far, everything
   else outside the registers is as on entry *)
Definition dinv (m : mem) (p : Z) (acc : list Z) : Prop :=
  agree_except p (F - w) m mI /\ wf_mem m /\ lw m (2 * w) = p /\
  bytes_from m p (length acc) = acc /\ p + Z.of_nat (length acc) = F - w /\ 5 * w <= p.

Lemma dinv_fp m p acc : dinv m p acc -> lw m (1 * w) = F /\ msize m = msize mI.
Proof.
  intros (A & _ & _ & _ & Hl & Hp). split; [|apply A].
  rewrite (ae_lw p (F - w) m mI (1 * w) A) by lia. exact HFP.
Qed.
Lemma dinv_sw m p acc a v : dinv m p acc -> (a = 3 * w \/ a = 4 * w) -> dinv (sw m a v) p acc.
Proof.
  intros (A & Hwf & H0 & Hb & Hl & Hp) Ha. pose proof (Hw1 w Hw) as Hw1.
  split; [apply ae_sw; [exact A | lia]|]. split; [apply wf_sw; [exact Hwf | lia]|].
  split; [rewrite (lw_sw_other w Hw1 m a v (2 * w)) by lia; exact H0|].
  split; [|split; assumption].
  rewrite <- Hb at 2. apply bytes_from_ext. intros x Hx.
  apply (lb_sw_other w Hw1 m a v x); lia.
Qed.

(* 97..101: add '0'; dec [r0]; store; then either leave (quotient 0) or go round again.
   IH is the loop specification for the quotient, used only when it is not zero. *)
Lemma push_spec d n' :
  (n' <> 0 -> forall m p acc, dinv m p acc -> lw m (4 * w) = n' -> 5 * w <= p - ndigits n' ->
     exists m', dinv m' (p - ndigits n') (udec n' ++ acc) /\ runs (mk (B + 95) m) [] (mk (B + 102) m')) ->
  forall m p acc, dinv m p acc -> lw m (3 * w) = d -> lw m (4 * w) = n' -> 0 <= d < 10 -> 0 <= n' < W / 2 ->
  let ds := (if n' =? 0 then [] else udec n') ++ [48 + d] in
  5 * w <= p - Z.of_nat (length ds) ->
  exists m', dinv m' (p - Z.of_nat (length ds)) (ds ++ acc) /\ runs (mk (B + 97) m) [] (mk (B + 102) m').
Proof.
  intros IH m p acc Hinv H1 H2 Hd Hn' ds Hroom.
  pose proof (W_ge_65536 w Hw) as HW. pose proof (Hw1 w Hw) as Hw1.
  destruct B_range as [HB0 HB1]. unfold stdlib_len in HB1.
  destruct (dinv_fp m p acc Hinv) as [Hfp Hsz].
  destruct Hinv as (A & Hwf & H0 & Hb & Hl & Hp).
  assert (Hlen : 1 <= Z.of_nat (length ds)) by (unfold ds; rewrite app_length; cbn [length]; lia).
  set (m1 := sw m (3 * w) (d + 48)). set (m2 := sw m1 (2 * w) (p - 1)). set (m3 := sb m2 (p - 1) (d + 48)).
  assert (Hs1 : msize m1 = msize m) by apply msize_sw.
  assert (Hs2 : msize m2 = msize m) by (unfold m2; rewrite msize_sw; exact Hs1).
  assert (Hs3 : msize m3 = msize m) by exact Hs2.
  assert (E11 : lw m1 (3 * w) = d + 48) by (unfold m1; rewrite (lw_sw_same w Hw1 m (3 * w)) by lia; apply wrap_id; lia).
  assert (E10 : lw m1 (2 * w) = p) by (unfold m1; rewrite (lw_sw_other w Hw1 m (3 * w) _ (2 * w)) by lia; exact H0).
  assert (E20 : lw m2 (2 * w) = p - 1) by (unfold m2; rewrite (lw_sw_same w Hw1 m1 (2 * w)) by lia; apply wrap_id; lia).
  assert (E21 : lw m2 (3 * w) = d + 48) by (unfold m2; rewrite (lw_sw_other w Hw1 m1 (2 * w) _ (3 * w)) by lia; exact E11).
  assert (S97 : runs (mk (B + 97) m) [] (mk (B + 98) m1)).
  { apply (runs_next act _ _ None). at_pc CA 97. rewrite H1, (wrap_id w 48) by lia. norm_pc. reflexivity. }
  assert (S98 : runs (mk (B + 98) m1) [] (mk (B + 99) m2)).
  { apply (runs_next act _ _ None). at_pc CA 98. rewrite E10, (wrap_id w 1) by lia. norm_pc. reflexivity. }
  assert (S99 : runs (mk (B + 99) m2) [] (mk (B + 100) m3)).
  { apply (runs_next act _ _ None). at_pc CA 99. rewrite E20, E21. exec_inb. norm_pc. reflexivity. }
  assert (J : act (mk (B + 100) m3) = AJump (mk (B + 101) m3) (mk (B + 94) m3)).
  { at_pc CA 100. rewrite wrap_id by lia. norm_pc. reflexivity. }
  assert (E32 : lw m3 (4 * w) = n').
  { unfold m3. rewrite (lw_sb_other w Hw1 m2 (p - 1) _ (4 * w)) by lia.
    unfold m2. rewrite (lw_sw_other w Hw1 m1 (2 * w) _ (4 * w)) by lia.
    unfold m1. rewrite (lw_sw_other w Hw1 m (3 * w) _ (4 * w)) by lia. exact H2. }
  assert (I3 : dinv m3 (p - 1) ((48 + d) :: acc)).
  { split; [|split; [|split; [|split; [|split]]]].
    - unfold m3. apply ae_sb; [|lia|lia]. unfold m2, m1. apply ae_sw; [|lia]. apply ae_sw; [|lia].
      apply (ae_widen p (F - w)); [exact A | lia | lia].
    - unfold m3. apply wf_sb; [|lia]. unfold m2, m1. repeat (apply wf_sw; [|lia]). exact Hwf.
    - unfold m3. rewrite (lw_sb_other w Hw1 m2 (p - 1) _ (2 * w)) by lia. exact E20.
    - cbn [length bytes_from]. f_equal.
      + unfold m3. change (getb (sb m2 (p - 1) (d + 48)) (p - 1)) with (Machine.lb (sb m2 (p - 1) (d + 48)) (p - 1)).
        rewrite lb_sb_same. rewrite Z.mod_small by lia. lia.
      + replace (p - 1 + 1) with p by lia. rewrite <- Hb at 2. apply bytes_from_ext. intros x Hx.
        unfold m3. change (getb (sb m2 (p - 1) (d + 48)) x) with (Machine.lb (sb m2 (p - 1) (d + 48)) x).
        rewrite (lb_sb_other m2 (p - 1) (d + 48) x) by lia.
        unfold m2. rewrite (lb_sw_other w Hw1 m1 (2 * w) _ x) by lia.
        unfold m1. rewrite (lb_sw_other w Hw1 m (3 * w) _ x) by lia. reflexivity.
    - cbn [length]. lia.
    - cbn [length] in *. unfold ds in Hlen, Hroom. lia. }
  destruct (Z.eqb_spec n' 0) as [Ez|Nz].
  - (* quotient 0: leave the loop *)
    assert (BR : runs (mk (B + 100) m3) [] (mk (B + 102) m3)).
    { eapply runs_branch_fall; [exact J | |].
      - at_pc CA 101. rewrite E32, Ez, (wrap_id w 0) by lia. cbn [Z.eqb negb]. norm_pc. reflexivity.
      - at_pc CA 94. rewrite E32, Ez, (wrap_id w 0) by lia. reflexivity. }
    exists m3. unfold ds. cbn [app length]. split; [exact I3|].
    change (@nil event) with (@nil event ++ [] ++ [] ++ []).
    eapply runs_trans; [exact S97|]. eapply runs_trans; [exact S98|]. eapply runs_trans; [exact S99|]. exact BR.
  - (* more digits *)
    assert (BR : runs (mk (B + 100) m3) [] (mk (B + 95) m3)).
    { eapply runs_branch_taken; [exact J | |].
      - at_pc CA 101. rewrite E32, (wrap_id w 0) by lia.
        destruct (Z.eqb_spec n' 0); [contradiction | reflexivity].
      - at_pc CA 94. rewrite E32, (wrap_id w 0) by lia.
        destruct (Z.eqb_spec n' 0); [contradiction|]. norm_pc. reflexivity. }
    assert (Elen : Z.of_nat (length ds) = ndigits n' + 1)
      by (unfold ds, ndigits; rewrite app_length; cbn [length]; lia).
    destruct (IH Nz m3 (p - 1) ((48 + d) :: acc) I3 E32 ltac:(lia)) as (m' & I' & R').
    exists m'. split.
    + replace (p - Z.of_nat (length ds)) with (p - 1 - ndigits n') by lia.
      unfold ds. rewrite <- app_assoc. exact I'.
    + change (@nil event) with (@nil event ++ [] ++ [] ++ [] ++ []).
      eapply runs_trans; [exact S97|]. eapply runs_trans; [exact S98|]. eapply runs_trans; [exact S99|].
      eapply runs_trans; [exact BR|]. exact R'.
Qed.

(* 95..101 repeated: all digits of n, by well-founded induction on n *)
Lemma digits_spec : forall n, 0 <= n -> n < W / 2 ->
  forall m p acc, dinv m p acc -> lw m (4 * w) = n -> 5 * w <= p - ndigits n ->
  exists m', dinv m' (p - ndigits n) (udec n ++ acc) /\ runs (mk (B + 95) m) [] (mk (B + 102) m').
Proof.
  intros n Hn. pattern n. apply Zlt_0_ind; [|exact Hn]. clear n Hn.
  intros n IH Hn HnW m p acc Hinv H2 Hroom.
  pose proof (W_ge_65536 w Hw) as HW. pose proof (Hw1 w Hw) as Hw1.
  destruct B_range as [HB0 HB1]. unfold stdlib_len in HB1.
  destruct (dinv_fp m p acc Hinv) as [Hfp Hsz].
  set (m1 := sw m (3 * w) (n mod 10)). set (m2 := sw m1 (4 * w) (n / 10)).
  assert (Hs1 : msize m1 = msize m) by apply msize_sw.
  assert (Hs2 : msize m2 = msize m) by (unfold m2; rewrite msize_sw; exact Hs1).
  assert (I1 : dinv m1 p acc) by (apply dinv_sw; [exact Hinv | lia]).
  assert (I2 : dinv m2 p acc) by (apply dinv_sw; [exact I1 | lia]).
  assert (E14 : lw m1 (4 * w) = n) by (unfold m1; rewrite (lw_sw_other w Hw1 m (3 * w) _ (4 * w)) by lia; exact H2).
  assert (E23 : lw m2 (3 * w) = n mod 10).
  { unfold m2. rewrite (lw_sw_other w Hw1 m1 (4 * w) _ (3 * w)) by lia.
    unfold m1. rewrite (lw_sw_same w Hw1 m (3 * w)) by lia. apply wrap_id. lia. }
  assert (E24 : lw m2 (4 * w) = n / 10).
  { unfold m2. rewrite (lw_sw_same w Hw1 m1 (4 * w)) by lia. apply wrap_id. lia. }
  assert (S95 : runs (mk (B + 95) m) [] (mk (B + 96) m1)).
  { apply (runs_next act _ _ None). at_pc CA 95.
    rewrite H2, (wrap_id w 10), (sgn_small w 10), (sgn_small w n) by lia.
    change (10 =? 0) with false. exec_simpl. exec_inb. norm_pc. reflexivity. }
  assert (S96 : runs (mk (B + 96) m1) [] (mk (B + 97) m2)).
  { apply (runs_next act _ _ None). at_pc CA 96.
    rewrite E14, (wrap_id w 10), (sgn_small w 10), (sgn_small w n) by lia.
    change (10 =? 0) with false. exec_simpl. exec_inb. norm_pc. reflexivity. }
  assert (IH' : n / 10 <> 0 -> forall m p acc, dinv m p acc -> lw m (4 * w) = n / 10 -> 5 * w <= p - ndigits (n / 10) ->
     exists m', dinv m' (p - ndigits (n / 10)) (udec (n / 10) ++ acc) /\ runs (mk (B + 95) m) [] (mk (B + 102) m')).
  { intros Hnz. apply IH; lia. }
  assert (Eds : (if n / 10 =? 0 then [] else udec (n / 10)) ++ [48 + n mod 10] = udec n).
  { destruct (Z.eqb_spec (n / 10) 0) as [Ez|Nz].
    - rewrite (udec_small n) by lia. cbn [app]. f_equal. lia.
    - rewrite (udec_step n) by lia. reflexivity. }
  pose proof (push_spec (n mod 10) (n / 10) IH' m2 p acc I2 E23 E24 ltac:(lia) ltac:(lia)) as P.
  cbv zeta in P. rewrite Eds in P. fold (ndigits n) in P.
  destruct (P Hroom) as (m' & I' & R').
  exists m'. split; [exact I'|].
  change (@nil event) with (@nil event ++ [] ++ []).
  eapply runs_trans; [exact S95|]. eapply runs_trans; [exact S96|]. exact R'.
Qed.

(* 102..107 and the byte loop of write_state_byte_array: print the buffer and return *)
Lemma tail_spec m p ds : dinv m p ds ->
  exists m', runs (mk (B + 102) m) (map EOut ds) (mk (lw mI (F - w)) m') /\
    agree_except p (F - w) m' mI /\ wf_mem m' /\ bytes_from m' p (length ds) = ds.
Proof.
  intros Hinv. pose proof (W_ge_65536 w Hw) as HW. pose proof (Hw1 w Hw) as Hw1.
  destruct B_range as [HB0 HB1]. unfold stdlib_len in HB1.
  destruct (dinv_fp m p ds Hinv) as [Hfp Hsz].
  destruct Hinv as (A & Hwf & H0 & Hb & Hl & Hp).
  set (n := Z.of_nat (length ds)) in *.
  set (m1 := sw m (3 * w) (F - p)). set (m2 := sw m1 (3 * w) (F - p - w)).
  assert (Hs1 : msize m1 = msize m) by apply msize_sw.
  assert (Hs2 : msize m2 = msize m) by (unfold m2; rewrite msize_sw; exact Hs1).
  assert (A1 : agree m1 m) by (apply agree_sw; [lia | apply agree_refl | lia]).
  assert (A2 : agree m2 m) by (apply agree_sw; [lia | exact A1 | lia]).
  assert (Hwf2 : wf_mem m2) by (repeat (apply wf_sw; [|lia]); exact Hwf).
  assert (E11 : lw m1 (3 * w) = F - p) by (unfold m1; rewrite (lw_sw_same w Hw1 m (3 * w)) by lia; apply wrap_id; lia).
  assert (E20 : lw m2 (2 * w) = p).
  { unfold m2. rewrite (lw_sw_other w Hw1 m1 (3 * w) _ (2 * w)) by lia.
    unfold m1. rewrite (lw_sw_other w Hw1 m (3 * w) _ (2 * w)) by lia. exact H0. }
  assert (E21 : lw m2 (3 * w) = n) by (unfold m2; rewrite (lw_sw_same w Hw1 m1 (3 * w)) by lia; replace n with (F - p - w) by lia; apply wrap_id; lia).
  assert (S102 : runs (mk (B + 102) m) [] (mk (B + 103) m1)).
  { apply (runs_next act _ _ None). at_pc CA 102. rewrite Hfp, H0. norm_pc. reflexivity. }
  assert (S103 : runs (mk (B + 103) m1) [] (mk (B + 104) m2)).
  { apply (runs_next act _ _ None). at_pc CA 103. rewrite E11, (wrap_id w (1 * w)) by lia.
    replace (F - p - 1 * w) with (F - p - w) by lia. norm_pc. reflexivity. }
  assert (Esg : Machine.sgn w n = n) by (apply sgn_small; lia).
  destruct (entry_spec w code cmem B Hw CA B_range m F 48 SState ltac:(right; split; reflexivity) Hwf
              ltac:(discriminate) Hfp HF1 ltac:(lia) HF3 104 m2 p n ltac:(unfold loop_entry; tauto) A2 Hwf2 E20 E21)
    as (m' & Am' & Hwf' & R).
  { cbv zeta. cbn [srcm src_clear]. rewrite Esg. intros Hpos. repeat split; try lia. }
  cbn [srcm] in R. rewrite Esg in R. unfold n in R. rewrite Nat2Z.id, Hb in R.
  rewrite (ae_lw p (F - w) m mI (F - w) A) in R by lia.
  exists m'. split; [|split; [|split]].
  - change (map EOut ds) with ([] ++ [] ++ map EOut ds).
    eapply runs_trans; [exact S102|]. eapply runs_trans; [exact S103|]. exact R.
  - apply (ae_agree p (F - w) m' m mI Am' A).
  - exact Hwf'.
  - rewrite <- Hb at 2. apply bytes_from_ext. intros x Hx. apply Am'; lia.
Qed.

(* `j get_digits_body; halt` at 92 with a non-negative [r2] = n: all of udec n *)
Lemma pos_spec m n : dinv m (F - w) [] -> lw m (4 * w) = n -> 0 <= n < W / 2 -> 5 * w <= F - w - ndigits n ->
  exists m', runs (mk (B + 92) m) (map EOut (udec n)) (mk (lw mI (F - w)) m') /\
    agree_except (F - w - ndigits n) (F - w) m' mI /\ wf_mem m' /\
    bytes_from m' (F - w - ndigits n) (length (udec n)) = udec n.
Proof.
  intros Hinv H2 Hn Hroom. pose proof (W_ge_65536 w Hw) as HW.
  destruct B_range as [HB0 HB1]. unfold stdlib_len in HB1.
  destruct (dinv_fp m _ _ Hinv) as [Hfp Hsz].
  assert (G : runs (mk (B + 92) m) [] (mk (B + 95) m)).
  { eapply runs_goto with (sn := mk (B + 93) m).
    - at_pc CA 92. rewrite wrap_id by lia. norm_pc. reflexivity.
    - at_pc CA 93. reflexivity. }
  destruct (digits_spec n ltac:(lia) ltac:(lia) m (F - w) [] Hinv H2 Hroom) as (m1 & I1 & R1).
  rewrite app_nil_r in I1.
  destruct (tail_spec m1 _ _ I1) as (m' & R' & A' & Hwf' & Hb').
  exists m'. split; [|split; [|split]]; try assumption.
  change (map EOut (udec n)) with ([] ++ [] ++ map EOut (udec n)).
  eapply runs_trans; [exact G|]. eapply runs_trans; [exact R1|]. exact R'.
Qed.

(* 85..90: the most negative value; [r2] = H = W/2 (its own negation) *)
Lemma min_spec m : dinv m (F - w) [] -> lw m (4 * w) = W / 2 -> 5 * w <= F - w - ndigits (W / 2) ->
  exists m', runs (mk (B + 85) m) (map EOut (udec (W / 2))) (mk (lw mI (F - w)) m') /\
    agree_except (F - w - ndigits (W / 2)) (F - w) m' mI /\ wf_mem m' /\
    bytes_from m' (F - w - ndigits (W / 2)) (length (udec (W / 2))) = udec (W / 2).
Proof.
  intros Hinv H2 Hroom. pose proof (W_ge_65536 w Hw) as HW. pose proof (Hw1 w Hw) as Hw1.
  destruct B_range as [HB0 HB1]. unfold stdlib_len in HB1.
  destruct (dinv_fp m _ _ Hinv) as [Hfp Hsz].
  set (H := W / 2) in *. assert (HH : 32768 <= H /\ 2 * H <= W) by (unfold H; lia).
  destruct (min_identity H ltac:(lia)) as [Emod Ediv].
  set (m1 := sw m (4 * w) (H - 10)). set (m2 := sw m1 (3 * w) ((H - 10) mod 10)).
  set (m3 := sw m2 (4 * w) ((H - 10) / 10)). set (m4 := sw m3 (4 * w) ((H - 10) / 10 + 1)).
  assert (Hs1 : msize m1 = msize m) by apply msize_sw.
  assert (Hs2 : msize m2 = msize m) by (unfold m2; rewrite msize_sw; exact Hs1).
  assert (Hs3 : msize m3 = msize m) by (unfold m3; rewrite msize_sw; exact Hs2).
  assert (Hs4 : msize m4 = msize m) by (unfold m4; rewrite msize_sw; exact Hs3).
  assert (I4 : dinv m4 (F - w) []) by (unfold m4, m3, m2, m1; repeat (apply dinv_sw; [|lia]); exact Hinv).
  assert (E14 : lw m1 (4 * w) = H - 10) by (unfold m1; rewrite (lw_sw_same w Hw1 m (4 * w)) by lia; apply wrap_id; lia).
  assert (E24 : lw m2 (4 * w) = H - 10) by (unfold m2; rewrite (lw_sw_other w Hw1 m1 (3 * w) _ (4 * w)) by lia; exact E14).
  assert (E34 : lw m3 (4 * w) = (H - 10) / 10) by (unfold m3; rewrite (lw_sw_same w Hw1 m2 (4 * w)) by lia; apply wrap_id; lia).
  assert (E44 : lw m4 (4 * w) = H / 10) by (unfold m4; rewrite (lw_sw_same w Hw1 m3 (4 * w)) by lia; rewrite Ediv; apply wrap_id; lia).
  assert (E43 : lw m4 (3 * w) = H mod 10).
  { unfold m4. rewrite (lw_sw_other w Hw1 m3 (4 * w) _ (3 * w)) by lia.
    unfold m3. rewrite (lw_sw_other w Hw1 m2 (4 * w) _ (3 * w)) by lia.
    unfold m2. rewrite (lw_sw_same w Hw1 m1 (3 * w)) by lia. rewrite Emod. apply wrap_id. lia. }
  assert (S85 : runs (mk (B + 85) m) [] (mk (B + 86) m1)).
  { apply (runs_next act _ _ None). at_pc CA 85. rewrite H2, (wrap_id w 10) by lia. norm_pc. reflexivity. }
  assert (S86 : runs (mk (B + 86) m1) [] (mk (B + 87) m2)).
  { apply (runs_next act _ _ None). at_pc CA 86.
    rewrite E14, (wrap_id w 10), (sgn_small w 10), (sgn_small w (H - 10)) by lia.
    change (10 =? 0) with false. exec_simpl. exec_inb. norm_pc. reflexivity. }
  assert (S87 : runs (mk (B + 87) m2) [] (mk (B + 88) m3)).
  { apply (runs_next act _ _ None). at_pc CA 87.
    rewrite E24, (wrap_id w 10), (sgn_small w 10), (sgn_small w (H - 10)) by lia.
    change (10 =? 0) with false. exec_simpl. exec_inb. norm_pc. reflexivity. }
  assert (S88 : runs (mk (B + 88) m3) [] (mk (B + 89) m4)).
  { apply (runs_next act _ _ None). at_pc CA 88. rewrite E34, (wrap_id w 1) by lia. norm_pc. reflexivity. }
  assert (G : runs (mk (B + 89) m4) [] (mk (B + 97) m4)).
  { eapply runs_goto with (sn := mk (B + 90) m4).
    - at_pc CA 89. rewrite wrap_id by lia. norm_pc. reflexivity.
    - at_pc CA 90. reflexivity. }
  assert (Eds : (if H / 10 =? 0 then [] else udec (H / 10)) ++ [48 + H mod 10] = udec H).
  { destruct (Z.eqb_spec (H / 10) 0) as [Ez|Nz]; [lia|]. rewrite (udec_step H) by lia. reflexivity. }
  pose proof (push_spec (H mod 10) (H / 10)
                (fun _ => digits_spec (H / 10) ltac:(lia) ltac:(lia)) m4 (F - w) [] I4 E43 E44 ltac:(lia) ltac:(lia)) as P.
  cbv zeta in P. rewrite Eds in P. fold (ndigits H) in P.
  destruct (P Hroom) as (m5 & I5 & R5). rewrite app_nil_r in I5.
  destruct (tail_spec m5 _ _ I5) as (m' & R' & A' & Hwf' & Hb').
  exists m'. split; [|split; [|split]]; try assumption.
  change (map EOut (udec H)) with ([] ++ [] ++ [] ++ [] ++ [] ++ [] ++ map EOut (udec H)).
  eapply runs_trans; [exact S85|]. eapply runs_trans; [exact S86|]. eapply runs_trans; [exact S87|].
  eapply runs_trans; [exact S88|]. eapply runs_trans; [exact G|]. eapply runs_trans; [exact R5|]. exact R'.
Qed.

(* the sign test `j write_int_pos; hge [r2],0` (at 79 and again at 83) with pos: `hlt [r2],0` *)
Lemma sign_branch k m x : (k = 79 \/ k = 83) -> lw m (4 * w) = x -> 5 * w <= msize m ->
  runs (mk (B + k) m) [] (mk (B + (if 0 <=? Machine.sgn w x then 92 else k + 2)) m).
Proof.
  intros Hk H2 Hsz. pose proof (W_ge_65536 w Hw) as HW.
  destruct B_range as [HB0 HB1]. unfold stdlib_len in HB1.
  assert (J : act (mk (B + k) m) = AJump (mk (B + (k + 1)) m) (mk (B + 91) m)).
  { destruct Hk as [->| ->]; [at_pc CA 79 | at_pc CA 83]; rewrite wrap_id by lia; norm_pc; reflexivity. }
  destruct (Z.leb_spec 0 (Machine.sgn w x)) as [Hpos|Hneg].
  - eapply runs_branch_taken; [exact J | |].
    + destruct Hk as [->| ->]; [at_pc CA 80 | at_pc CA 84]; rewrite H2, (wrap_id w 0), (sgn_small w 0) by lia;
        (destruct (Z.leb_spec 0 (Machine.sgn w x)); [reflexivity | lia]).
    + at_pc CA 91. rewrite H2, (wrap_id w 0), (sgn_small w 0) by lia.
      destruct (Z.ltb_spec (Machine.sgn w x) 0); [lia|]. norm_pc. reflexivity.
  - eapply runs_branch_fall; [exact J | |].
    + destruct Hk as [->| ->]; [at_pc CA 80 | at_pc CA 84]; rewrite H2, (wrap_id w 0), (sgn_small w 0) by lia;
        (destruct (Z.leb_spec 0 (Machine.sgn w x)); [lia|]); norm_pc; reflexivity.
    + at_pc CA 91. rewrite H2, (wrap_id w 0), (sgn_small w 0) by lia.
      destruct (Z.ltb_spec (Machine.sgn w x) 0); [reflexivity | lia].
Qed.

End Digits.

(* ---------- write(int) ---------- *)
Theorem write_int_spec m F :
  frame_ok w m F w ->
  let sv := Machine.sgn w (lw m (F - 2 * w)) in
  let ra := lw m (F - w) in
  write_int_room w F sv ->
  exists m', runs (mk (B + off_write_int) m) (map EOut (decimal sv)) (mk ra m')
    /\ agree_except (write_int_lo w F sv) (F - w) m' m /\ wf_mem m'
    /\ bytes_from m' (write_int_lo w F sv) (length (udec (Z.abs sv))) = udec (Z.abs sv).
Proof.
  intros (Hwf & HFP & HF1 & HF2 & HF3) sv ra Hroom.
  unfold write_int_room, write_int_lo, reg_fp, stack_start in *.
  pose proof (W_ge_65536 w Hw) as HW. pose proof (Hw1 w Hw) as Hw1.
  pose proof (W_even w Hw1) as HWe.
  destruct B_range as [HB0 HB1]. unfold stdlib_len in HB1. unfold off_write_int.
  set (v := lw m (F - 2 * w)) in *.
  pose proof (lw_range w Hw1 m (F - 2 * w) Hwf) as Hvr. fold v in Hvr.
  set (m1 := sw m (2 * w) (F - w)). set (m2 := sw m1 (4 * w) v).
  assert (Hs1 : msize m1 = msize m) by apply msize_sw.
  assert (Hs2 : msize m2 = msize m) by (unfold m2; rewrite msize_sw; exact Hs1).
  assert (A1 : agree m1 m) by (apply agree_sw; [lia | apply agree_refl | lia]).
  assert (A2 : agree m2 m) by (apply agree_sw; [lia | exact A1 | lia]).
  assert (Hwf2 : wf_mem m2) by (repeat (apply wf_sw; [|lia]); exact Hwf).
  assert (E20 : lw m2 (2 * w) = F - w).
  { unfold m2. rewrite (lw_sw_other w Hw1 m1 (4 * w) _ (2 * w)) by lia.
    unfold m1. rewrite (lw_sw_same w Hw1 m (2 * w)) by lia. apply wrap_id. lia. }
  assert (E24 : lw m2 (4 * w) = v) by (unfold m2; rewrite (lw_sw_same w Hw1 m1 (4 * w)) by lia; apply wrap_id; exact Hvr).
  assert (I2 : dinv m F m2 (F - w) []).
  { split; [apply agree_ae_empty; exact A2|]. split; [exact Hwf2|]. split; [exact E20|].
    cbn [length bytes_from]. repeat split; lia. }
  assert (S77 : runs (mk (B + 77) m) [] (mk (B + 78) m1)).
  { apply (runs_next act _ _ None). at_pc CA 77. rewrite HFP.
    rewrite (sw_congr w m (2 * w) (F + Machine.wrap w (- (1 * w))) (F - w)); [norm_pc; reflexivity|].
    rewrite (wrap_add_neg w F (1 * w)) by lia. rewrite wrap_id by lia. lia. }
  assert (S78 : runs (mk (B + 78) m1) [] (mk (B + 79) m2)).
  { apply (runs_next act _ _ None). at_pc CA 78.
    rewrite (agree_lw w Hw m1 m (1 * w) A1), HFP, (sgn_small w F), (sgn_neg_imm w Hw1 (2 * w)) by lia.
    replace (F + - (2 * w)) with (F - 2 * w) by lia. exec_inb.
    rewrite (agree_lw w Hw m1 m (F - 2 * w) A1) by lia. norm_pc. reflexivity. }
  pose proof (sign_branch 79 m2 v ltac:(tauto) E24 ltac:(lia)) as BR79. fold sv in BR79.
  destruct (Z.leb_spec 0 sv) as [Hpos|Hneg].
  - (* non-negative *)
    assert (Esv : sv = v) by (unfold sv, Machine.sgn in *; destruct (Z.ltb_spec v (W / 2)); lia).
    rewrite (Z.abs_eq sv) in * by lia. rewrite Esv in *.
    destruct (pos_spec m F HFP ltac:(lia) HF2 HF3 m2 v I2 E24 ltac:(unfold Machine.sgn in *; destruct (Z.ltb_spec v (W / 2)); lia) Hroom)
      as (m' & R' & A' & Hwf' & Hb').
    exists m'. split; [|split; [|split]]; try assumption.
    rewrite decimal_nonneg by lia.
    change (map EOut (udec v)) with ([] ++ [] ++ [] ++ map EOut (udec v)).
    eapply runs_trans; [exact S77|]. eapply runs_trans; [exact S78|]. eapply runs_trans; [exact BR79|]. exact R'.
  - (* negative: '-' and negate *)
    assert (Hvb : W / 2 <= v < W) by (unfold sv, Machine.sgn in *; destruct (Z.ltb_spec v (W / 2)); lia).
    assert (Esv : sv = v - W) by (apply sgn_big; exact Hvb).
    set (u := W - v). assert (Hu : 0 < u <= W / 2) by (unfold u; lia).
    assert (Eabs : Z.abs sv = u) by (unfold u; lia). rewrite Eabs in *.
    set (m3 := sw m2 (4 * w) (0 - v)).
    assert (Hs3 : msize m3 = msize m) by (unfold m3; rewrite msize_sw; exact Hs2).
    assert (I3 : dinv m F m3 (F - w) []) by (apply dinv_sw; [exact I2 | lia]).
    assert (E34 : lw m3 (4 * w) = u) by (unfold m3; rewrite (lw_sw_same w Hw1 m2 (4 * w)) by lia; apply wrap_neg; lia).
    assert (S81 : runs (mk (B + 81) m2) [EOut 45] (mk (B + 82) m2)).
    { apply (runs_next act _ _ (Some (EOut 45))). at_pc CA 81. rewrite wrap_id by lia. norm_pc. reflexivity. }
    assert (S82 : runs (mk (B + 82) m2) [] (mk (B + 83) m3)).
    { apply (runs_next act _ _ None). at_pc CA 82. rewrite E24, (wrap_id w 0) by lia. norm_pc. reflexivity. }
    pose proof (sign_branch 83 m3 u ltac:(tauto) E34 ltac:(lia)) as BR83.
    rewrite decimal_neg by lia. replace (- sv) with u by lia.
    destruct (Z_lt_le_dec u (W / 2)) as [Hlt|Hmin].
    + (* not the most negative value *)
      rewrite (sgn_small w u) in BR83 by lia. destruct (Z.leb_spec 0 u); [|lia].
      destruct (pos_spec m F HFP ltac:(lia) HF2 HF3 m3 u I3 E34 ltac:(lia) Hroom) as (m' & R' & A' & Hwf' & Hb').
      exists m'. split; [|split; [|split]]; try assumption.
      change (map EOut (45 :: udec u)) with ([] ++ [] ++ [] ++ [EOut 45] ++ [] ++ [] ++ map EOut (udec u)).
      eapply runs_trans; [exact S77|]. eapply runs_trans; [exact S78|]. eapply runs_trans; [exact BR79|].
      eapply runs_trans; [exact S81|]. eapply runs_trans; [exact S82|]. eapply runs_trans; [exact BR83|]. exact R'.
    + (* the most negative value: u = W/2 is its own negation *)
      assert (Eu : u = W / 2) by lia. rewrite Eu in *.
      rewrite (sgn_big w (W / 2)) in BR83 by lia. destruct (Z.leb_spec 0 (W / 2 - W)); [lia|].
      destruct (min_spec m F HFP ltac:(lia) HF2 HF3 m3 I3 E34 Hroom) as (m' & R' & A' & Hwf' & Hb').
      exists m'. split; [|split; [|split]]; try assumption.
      change (map EOut (45 :: udec (W / 2))) with ([] ++ [] ++ [] ++ [EOut 45] ++ [] ++ [] ++ map EOut (udec (W / 2))).
      eapply runs_trans; [exact S77|]. eapply runs_trans; [exact S78|]. eapply runs_trans; [exact BR79|].
      eapply runs_trans; [exact S81|]. eapply runs_trans; [exact S82|]. eapply runs_trans; [exact BR83|]. exact R'.
Qed.

(* the frame clause of write_int_spec, spelled out with the footprint predicate *)
Corollary write_int_frame lo m' m sv F : lo = write_int_lo w F sv -> agree_except lo (F - w) m' m ->
  msize m' = msize m /\
  forall x, 0 <= x -> (x < reg_r0 w \/ stack_start w <= x) -> ~ write_int_footprint w F sv x -> getb m' x = getb m x.
Proof.
  intros -> [S A]. split; [exact S|]. intros x Hx Hr Hf. unfold reg_r0, stack_start, write_int_footprint in *.
  apply A; [exact Hx | lia | lia].
Qed.

(* a uniform sufficient condition for `write_int_room`: room for the digits of W/2 *)
Lemma write_int_room_max F sv : - (W / 2) <= sv < W / 2 ->
  stack_start w <= F - w - ndigits (W / 2) -> write_int_room w F sv.
Proof.
  intros Hsv H. unfold write_int_room, write_int_lo.
  pose proof (ndigits_mono (Z.abs sv) ltac:(lia) (W / 2) ltac:(lia)). lia.
Qed.

(* ---------- finding F3: the buffer reaches below the callee frame ---------- *)
Lemma pow10_representable : 10 ^ w < W / 2.
Proof.
  pose proof (Hw1 w Hw) as Hw1. rewrite (W_half w Hw1).
  apply Z.le_lt_trans with (m := 2 ^ (4 * w)).
  - replace (2 ^ (4 * w)) with (16 ^ w) by (change 16 with (2 ^ 4); rewrite <- Z.pow_mul_r by lia; reflexivity).
    apply Z.pow_le_mono_l. lia.
  - apply Z.pow_lt_mono_r; lia.
Qed.

Lemma bytes_from_nth n : forall m p i, (i < n)%nat -> nth i (bytes_from m p n) 0 = getb m (p + Z.of_nat i).
Proof.
  induction n as [|n IH]; intros m p i Hi; [lia|]. cbn [bytes_from]. destruct i as [|i]; cbn [nth].
  - f_equal. lia.
  - rewrite IH by lia. f_equal. lia.
Qed.

(* The caller of write(int) reserved the return-address word [F-1w, F) and the argument word
   [F-2w, F-1w).  For every value with more than w digits (10^w <= sv; such values are
   representable for every w >= 2) the routine stores a digit at the address F-2w-1, which lies
   below the callee frame, whatever was there. *)
Theorem write_int_writes_below_frame :
  exists sv, - (W / 2) <= sv < W / 2 /\
  forall m F, frame_ok w m F w -> Machine.sgn w (lw m (F - 2 * w)) = sv -> write_int_room w F sv ->
  exists m' x, runs (mk (B + off_write_int) m) (map EOut (decimal sv)) (mk (lw m (F - w)) m') /\
    0 <= x < F - 2 * w /\ write_int_footprint w F sv x /\ 48 <= getb m' x <= 57.
Proof.
  exists (10 ^ w). pose proof pow10_representable as Hrep.
  assert (Hp : 0 < 10 ^ w) by (apply Z.pow_pos_nonneg; lia).
  split; [lia|]. intros m F Hfr Hsv Hroom.
  pose proof (write_int_spec m F Hfr) as S. cbv zeta in S. rewrite Hsv in S.
  destruct (S Hroom) as (m' & R & A & Hwf' & Hb).
  rewrite (Z.abs_eq (10 ^ w)) in Hb by lia.
  pose proof (ndigits_ge w (10 ^ w) ltac:(lia) ltac:(lia)) as Hnd.
  unfold write_int_room, write_int_lo, stack_start in *. rewrite (Z.abs_eq (10 ^ w)) in * by lia.
  set (lo := F - w - ndigits (10 ^ w)) in *.
  exists m', (F - 2 * w - 1). split; [exact R|]. split; [lia|].
  split; [unfold write_int_footprint, write_int_lo; rewrite (Z.abs_eq (10 ^ w)) by lia; fold lo; lia|].
  (* the byte at F-2w-1 is the digit number i = F-2w-1-lo of the buffer *)
  set (i := Z.to_nat (F - 2 * w - 1 - lo)).
  assert (Hi : (i < length (udec (10 ^ w)))%nat) by (unfold i, lo, ndigits in *; lia).
  pose proof (bytes_from_nth (length (udec (10 ^ w))) m' lo i Hi) as Hn. rewrite Hb in Hn.
  replace (lo + Z.of_nat i) with (F - 2 * w - 1) in Hn by (unfold i; lia).
  rewrite <- Hn.
  pose proof (udec_digits (10 ^ w) ltac:(lia)) as Hd.
  rewrite Forall_forall in Hd. apply Hd. apply nth_In. exact Hi.
Qed.

End Int.
