(* C13: the regenerated _escape_bytes is inverted by the strict literal grammar. *)
From Coq Require Import ZArith List Bool Lia.
From HidV Require Import AsmText GenEscape.
Import ListNotations.
Open Scope Z_scope.

Definition is_byte (b : Z) : Prop := 0 <= b < 256.

Lemma hex_split b : 0 <= b < 256 -> 0 <= b / 16 < 16 /\ 0 <= b mod 16 < 16 /\ 16 * (b / 16) + b mod 16 = b.
Proof. intros H. pose proof (Z.div_mod b 16). pose proof (Z.mod_pos_bound b 16). 
  assert (0 <= b / 16) by (apply Z.div_pos; lia).
  assert (b / 16 < 16) by (apply Z.div_lt_upper_bound; lia). lia. Qed.

Ltac eqb_cases :=
  repeat match goal with
  | |- context [Z.eqb ?a ?b] => destruct (Z.eqb_spec a b); try lia; cbn [orb andb negb]
  | |- context [Z.leb ?a ?b] => destruct (Z.leb_spec a b); try lia; cbn [orb andb negb]
  end.

Lemma unescape_escape_byte q b tl : (q = 34 \/ q = 39) -> is_byte b ->
  unescape q (escape_byte [q] b ++ tl) = cons_res b (unescape q tl).
Proof.
  intros Hq Hb. unfold is_byte in Hb.
  unfold escape_byte, memz. cbn [existsb].
  destruct (Z.eqb_spec b 92) as [E92|N92]; cbn [orb].
  { subst b. destruct Hq; subst q; cbn [app unescape Z.eqb Pos.eqb orb andb]; reflexivity. }
  destruct (Z.eqb_spec b q) as [Eq|Nq]; cbn [orb app].
  { subst b. cbn [unescape]. destruct Hq; subst q; cbn [app unescape Z.eqb Pos.eqb orb andb]; reflexivity. }
  destruct (Z.eqb_spec b 10) as [E10|N10]; cbn [orb app].
  { subst b. destruct Hq; subst q; cbn [app unescape Z.eqb Pos.eqb orb andb]; reflexivity. }
  destruct (Z.eqb_spec b 13) as [E13|N13]; cbn [orb app].
  { subst b. destruct Hq; subst q; cbn [app unescape Z.eqb Pos.eqb orb andb]; reflexivity. }
  destruct ((32 <=? b) && (b <=? 126)) eqn:Ep; cbn [app].
  - cbn [unescape]. unfold printable. rewrite Ep.
    destruct (Z.eqb_spec b q); [contradiction|]. destruct (Z.eqb_spec b 92); [contradiction|]. reflexivity.
  - destruct (hex_split b Hb) as (H1 & H2 & H3).
    unfold hex2. cbn [unescape app].
    destruct (Z.eqb_spec 92 q); [destruct Hq; lia|]. cbn [Z.eqb Pos.eqb].
    rewrite !unhex_hexdigit by assumption. rewrite H3. reflexivity.
Qed.

Theorem escape_roundtrip q bs rest : (q = 34 \/ q = 39) -> Forall is_byte bs ->
  unescape q (escape_bytes [q] bs ++ q :: rest) = Some (bs, rest).
Proof.
  intros Hq Hbs. unfold escape_bytes. induction Hbs as [|b bs Hb Hbs IH]; cbn [flat_map app].
  - cbn [unescape]. now rewrite Z.eqb_refl.
  - rewrite <- app_assoc, unescape_escape_byte, IH by assumption. reflexivity.
Qed.

(* the escaped text contains only printable characters and never the raw quote: data cannot
   break the line or token structure of the file *)
Lemma escape_byte_safe q b : (q = 34 \/ q = 39) -> is_byte b ->
  forallb (safe_char q) (escape_byte [q] b) = true \/
  (* the only non-"safe" characters are inside \q, \\ : a backslash followed by the quote *)
  escape_byte [q] b = [92; q].
Proof.
  intros Hq Hb. unfold is_byte in Hb. unfold escape_byte, memz. cbn [existsb].
  destruct (Z.eqb_spec b 92) as [E92|N92]; cbn [orb].
  { left. destruct Hq; subst q; reflexivity. }
  destruct (Z.eqb_spec b q) as [Eq|Nq]; cbn [orb app].
  { right. now subst. }
  left.
  destruct (Z.eqb_spec b 10) as [E10|N10]; cbn [orb app]; [destruct Hq; subst q; reflexivity|].
  destruct (Z.eqb_spec b 13) as [E13|N13]; cbn [orb app]; [destruct Hq; subst q; reflexivity|].
  destruct ((32 <=? b) && (b <=? 126)) eqn:Ep; cbn [app forallb].
  - unfold safe_char, printable. rewrite Ep. destruct (Z.eqb_spec b q); [contradiction|]. reflexivity.
  - destruct (hex_split b Hb) as (H1 & H2 & H3).
    pose proof (hexdigit_range _ H1). pose proof (hexdigit_range _ H2).
    unfold hex2, safe_char, printable. cbn [forallb].
    repeat match goal with
    | |- context [Z.leb ?a ?b] => destruct (Z.leb_spec a b); try lia
    | |- context [Z.eqb ?a ?b] => destruct (Z.eqb_spec a b); try (destruct Hq; lia)
    end; reflexivity.
Qed.

Lemma escape_all_printable q bs : (q = 34 \/ q = 39) -> Forall is_byte bs ->
  forallb printable (escape_bytes [q] bs) = true.
Proof.
  intros Hq Hbs. unfold escape_bytes. induction Hbs as [|b bs Hb Hbs IH]; cbn [flat_map]; [reflexivity|].
  rewrite forallb_app, IH, andb_true_r.
  destruct (escape_byte_safe q b Hq Hb) as [H|H].
  - rewrite forallb_forall in *. intros x Hx. specialize (H x Hx). unfold safe_char in H.
    apply andb_prop in H; tauto.
  - rewrite H. destruct Hq; subst q; reflexivity.
Qed.
