(* Satisfiability witnesses for the hypotheses of the C17 theorems: one concrete machine
   (w = 2, the library at code address 0, a 64-byte state section) per routine, and end-to-end
   instances of the theorems on them. *)
From Coq Require Import ZArith List Bool Lia.
From HidV Require Import Machine Halts WordLemmas MemLemmas GenStdlib StepTactics StdlibBase
  StdlibStubs StdlibBool StdlibBytes DecimalSpec StdlibInt.
Import ListNotations.
Open Scope Z_scope.

Notation sw2 := (Machine.sw 2).
Notation lw2 := (Machine.lw 2).

Ltac wf_ex := repeat first [ apply wf_sw; [|lia] | apply wf_sb; [|lia] | apply wf_zmem ].
Ltac frame_ex := unfold frame_ok; split; [wf_ex | vm_compute; repeat split; congruence].

(* frame pointer 40: RA word at 38, arguments below *)
Definition ex_bool : mem := sw2 (Machine.sb (sw2 (zmem 64) 2 40) 37 1) 38 7.
Example ex_bool_ok : frame_ok 2 ex_bool 40 1.
Proof. frame_ex. Qed.

Definition ex_int (v : Z) : mem := sw2 (sw2 (sw2 (zmem 64) 2 40) 36 v) 38 7.
Example ex_int_ok : frame_ok 2 (ex_int 12345) 40 2 /\ write_int_room 2 40 (Machine.sgn 2 (lw2 (ex_int 12345) 36)).
Proof. split; [frame_ex | vm_compute; congruence]. Qed.
(* the most negative 16-bit value *)
Example ex_int_min_ok : frame_ok 2 (ex_int 32768) 40 2 /\ write_int_room 2 40 (Machine.sgn 2 (lw2 (ex_int 32768) 36))
  /\ Machine.sgn 2 (lw2 (ex_int 32768) 36) = -32768.
Proof. split; [frame_ex | split; vm_compute; congruence]. Qed.

(* byte array of length 3 at state address 50 / const address 4 *)
Definition ex_arr : mem := sw2 (sw2 (sw2 (sw2 (zmem 64) 2 40) 34 50) 36 3) 38 7.
Example ex_state_arr_ok : frame_ok 2 ex_arr 40 (2 * 2) /\
  let p := lw2 ex_arr (40 - 3 * 2) in let len := Machine.sgn 2 (lw2 ex_arr (40 - 2 * 2)) in
  0 < len /\ p + len <= msize ex_arr /\ p + len <= Machine.W 2 /\ (p + len <= 2 * 2 \/ 5 * 2 <= p).
Proof. split; [frame_ex | vm_compute; repeat split; try congruence; right; congruence]. Qed.
Definition ex_arr_c : mem := sw2 (sw2 (sw2 (sw2 (zmem 64) 2 40) 34 4) 36 3) 38 7.
Example ex_const_arr_ok : frame_ok 2 ex_arr_c 40 (2 * 2) /\ wf_mem (zmem 16) /\
  let p := lw2 ex_arr_c (40 - 3 * 2) in let len := Machine.sgn 2 (lw2 ex_arr_c (40 - 2 * 2)) in
  0 < len /\ p + len <= msize (zmem 16) /\ p + len <= Machine.W 2.
Proof. split; [frame_ex | split; [apply wf_zmem | vm_compute; repeat split; congruence]]. Qed.

(* string object at const address 4: length word 3, then the bytes *)
Definition ex_cmem : mem := Machine.sb (Machine.sb (Machine.sb (sw2 (zmem 16) 4 3) 6 104) 7 105) 8 33.
Definition ex_str : mem := sw2 (sw2 (sw2 (zmem 64) 2 40) 36 4) 38 7.
Example ex_string_ok : frame_ok 2 ex_str 40 2 /\ wf_mem ex_cmem /\
  let sp := lw2 ex_str (40 - 2 * 2) in let len := Machine.sgn 2 (lw2 ex_cmem sp) in
  sp + 2 <= msize ex_cmem /\ 0 < len /\ sp + 2 + len <= msize ex_cmem /\ sp + 2 + len <= Machine.W 2.
Proof. split; [frame_ex | split; [unfold ex_cmem; wf_ex | vm_compute; repeat split; congruence]]. Qed.

(* ---------- end-to-end instances ---------- *)
Notation runs2 c := (Halts.runs (Machine.act 2 (lib_code 2) c)).

Example write_int_instance : exists m',
  runs2 (zmem 0) (mk off_write_int (ex_int 12345)) (map EOut [49; 50; 51; 52; 53]) (mk 7 m').
Proof.
  destruct ex_int_ok as [Hf Hr].
  pose proof (write_int_spec 2 (lib_code 2) (zmem 0) 0 ltac:(lia) (lib_code_at 2) lib_range_2 (ex_int 12345) 40 Hf) as S.
  cbv zeta in S. destruct (S Hr) as (m' & R & _).
  assert (E1 : decimal (Machine.sgn 2 (lw2 (ex_int 12345) (40 - 2 * 2))) = [49; 50; 51; 52; 53]) by (vm_compute; reflexivity).
  assert (E2 : lw2 (ex_int 12345) (40 - 2) = 7) by (vm_compute; reflexivity).
  rewrite E1, E2 in R. exists m'. exact R.
Qed.
Example write_int_min_instance : exists m',
  runs2 (zmem 0) (mk off_write_int (ex_int 32768)) (map EOut [45; 51; 50; 55; 54; 56]) (mk 7 m').
Proof.
  destruct ex_int_min_ok as (Hf & Hr & _).
  pose proof (write_int_spec 2 (lib_code 2) (zmem 0) 0 ltac:(lia) (lib_code_at 2) lib_range_2 (ex_int 32768) 40 Hf) as S.
  cbv zeta in S. destruct (S Hr) as (m' & R & _).
  assert (E1 : decimal (Machine.sgn 2 (lw2 (ex_int 32768) (40 - 2 * 2))) = [45; 51; 50; 55; 54; 56]) by (vm_compute; reflexivity).
  assert (E2 : lw2 (ex_int 32768) (40 - 2) = 7) by (vm_compute; reflexivity).
  rewrite E1, E2 in R. exists m'. exact R.
Qed.
Example write_string_instance : exists m',
  runs2 ex_cmem (mk off_write_string ex_str) (map EOut [104; 105; 33]) (mk 7 m').
Proof.
  destruct ex_string_ok as (Hf & Hc & Hh & Hp & Hs1 & Hs2).
  pose proof (write_string_spec 2 (lib_code 2) ex_cmem 0 ltac:(lia) (lib_code_at 2) lib_range_2 ex_str 40 Hf Hc) as S.
  cbv zeta in S. destruct (S Hh ltac:(intros _; split; [exact Hs1 | exact Hs2])) as (m' & R & _).
  assert (E1 : bytes_from ex_cmem (lw2 ex_str (40 - 2 * 2) + 2)
                 (Z.to_nat (Machine.sgn 2 (lw2 ex_cmem (lw2 ex_str (40 - 2 * 2))))) = [104; 105; 33]) by (vm_compute; reflexivity).
  assert (E2 : lw2 ex_str (40 - 2) = 7) by (vm_compute; reflexivity).
  rewrite E1, E2 in R. exists m'. exact R.
Qed.
Example write_bool_instance : exists m',
  runs2 (zmem 0) (mk off_write_bool ex_bool) (map EOut str_true) (mk 7 m').
Proof.
  pose proof (write_bool_spec 2 (lib_code 2) (zmem 0) 0 ltac:(lia) (lib_code_at 2) lib_range_2 ex_bool 40 ex_bool_ok) as S.
  cbv zeta in S. destruct S as (m' & R & _).
  assert (E1 : (Machine.lb ex_bool (40 - 2 - 1) =? 0) = false) by (vm_compute; reflexivity).
  assert (E2 : lw2 ex_bool (40 - 2) = 7) by (vm_compute; reflexivity).
  rewrite E1, E2 in R. exists m'. exact R.
Qed.
