(* Component `lowerstmt`: a compiler-correctness theorem for the statement fragment F_stmt
   (DESIGN C01_partial), built on LowerBoolProofs (expressions).

   Structure
     1  SOURCE SEMANTICS, independent of the lowering: stores, expression evaluation (left to right,
        short-circuit, wrap-around, signed comparison), a big-step relation with outcomes
        Normal / Break / Continue and output bytes as events
     2  static well-formedness of the compile-time environment (wf_senv), well-scoped programs,
        the representation relation `rep S σ m` (memory m holds store σ in the frame laid out by S)
     3  machine lemmas for the instructions new in this fragment (yield, lbs, stores of operands)
     4  the statements without control flow
     5  stmts_runs: the induction over the big-step derivation (if, while, break, continue, blocks)
     6  theorems on resolved code: stmts_lowering_correct, body_lowering_correct (implicit return),
        the divergence corollary; label freshness; satisfiability examples *)
From Coq Require Import ZArith List Bool Lia.
From HidV Require Import Machine Halts VM Driver WordLemmas MemLemmas GenTables GenStdlib OpTables Idioms
                         Guards StepTactics StdlibBase StdlibStubs DecimalSpec StdlibInt StdlibBool CallProtocol
                         LowerBoolModel LowerBoolProofs LowerStmtModel.
Import ListNotations.
Open Scope Z_scope.
Ltac Zify.zify_post_hook ::= Z.to_euclidean_division_equations.

(* ================================================================================= *)
(* 1  source semantics                                                                *)
(* ================================================================================= *)
(* a store: the values of the int locals in scope (signed, in range) and of the bool locals
   (0 / 1), in declaration order *)
Record store := mkstore { si : list Z; sb : list Z }.
Fixpoint upd (i : nat) (v : Z) (l : list Z) : list Z :=
  match l, i with
  | [], _ => []
  | _ :: r, O => v :: r
  | x :: r, S k => x :: upd k v r
  end.
(* leaving a block: the locals declared inside disappear *)
Definition trunc (s0 s : store) : store :=
  mkstore (firstn (length (si s0)) (si s)) (firstn (length (sb s0)) (sb s)).

(* how a run of a statement list can end.  Faults are the run-time checks of a checked build. *)
Inductive fault := FDivZero | FStackOverflow.
Inductive outcome := ONormal | OBreak | OContinue | OReturn (v : option Z) | OFault (f : fault).
(* how a call ends *)
Inductive cres := CRet (v : option Z) | CFault (f : fault).
(* outcomes that leave the enclosing function *)
Definition leaves (out : outcome) : Prop := match out with OReturn _ | OFault _ => True | _ => False end.
Lemma outcome_normal_dec (out : outcome) : {out = ONormal} + {out <> ONormal}.
Proof. destruct out; [left; reflexivity | right; discriminate ..]. Qed.

Section Source.
Variable w : Z.
Variable funs : list fundef.           (* the program: function 0 is the entry point *)
(* two's-complement wrap-around of the word size *)
Definition swrap (v : Z) : Z := Machine.sgn w (Machine.wrap w v).
Fixpoint ieval (s : store) (o : iopd) : Z :=
  match o with
  | OLit z => z
  | OVar i => nth i (si s) 0
  | OArith op x y => swrap (arith_sem op (ieval s x) (ieval s y))
  | OUn UNeg x => swrap (- ieval s x)
  | OUn UPos x => ieval s x
  end.
Fixpoint bevals (s : store) (e : bexpr) : bool :=
  match e with
  | BLit b => b
  | BVar j => negb (nth j (sb s) 0 =? 0)
  | BCmp op a b => cmp_sem op (ieval s a) (ieval s b)
  | BNot e1 => negb (bevals s e1)
  | BAnd e1 e2 => bevals s e1 && bevals s e2          (* right operand has no effects: && is short-circuit *)
  | BOr e1 e2 => bevals s e1 || bevals s e2
  end.
Definition wbyte (s : store) (x : wexpr) : Z :=
  match x with WrLit z => z mod 256 | WrChar c => c mod 256 | WrByte o => ieval s o mod 256 end.

(* STACK ACCOUNTING.  The checked build guards every function entry: the function faults with
   stack_overflow unless the bytes between its frame pointer and the bottom of the stack are at
   least its frame size `fun_need` (the constant of its guard).  The semantics carries d, the
   number of bytes available to the current frame; the frame in use is the return address and the
   locals in scope. *)
Definition frame_top (s : store) : Z := w * (1 + Z.of_nat (length (si s))) + Z.of_nat (length (sb s)).
(* what a call leaves in the caller's store *)
Definition dest_store (dst : dest) (v : option Z) (s s' : store) : Prop :=
  match dst with
  | DNone => s' = s
  | DDecl => exists x, v = Some x /\ s' = mkstore (si s ++ [x]) (sb s)
  | DAssign i => exists x, v = Some x /\ (i < length (si s))%nat /\ s' = mkstore (upd i x (si s)) (sb s)
  end.

(* exec d s σ out_bytes outcome σ' *)
Inductive exec : Z -> stmt -> store -> list Z -> outcome -> store -> Prop :=
| X_decli d o s : exec d (SDeclI o) s [] ONormal (mkstore (si s ++ [ieval s o]) (sb s))
| X_assi d i o s : (i < length (si s))%nat ->
    exec d (SAssignI i o) s [] ONormal (mkstore (upd i (ieval s o) (si s)) (sb s))
| X_declb d e s : exec d (SDeclB e) s [] ONormal (mkstore (si s) (sb s ++ [b2z (bevals s e)]))
| X_assb d j e s : (j < length (sb s))%nat ->
    exec d (SAssignB j e) s [] ONormal (mkstore (si s) (upd j (b2z (bevals s e)) (sb s)))
| X_write d x s : exec d (SWrite x) s [wbyte s x] ONormal s
| X_writeln d s : exec d SWriteln s [10] ONormal s
| X_writei d ln o s :                                 (* the decimal representation of the value *)
    exec d (SWriteI ln o) s (decimal (ieval s o) ++ (if ln then [10] else [])) ONormal s
| X_writeb d ln e s :                                 (* "true" / "false" *)
    exec d (SWriteB ln e) s ((if bevals s e then str_true else str_false) ++ (if ln then [10] else [])) ONormal s
| X_if d c s1 s2 s evs out s' :
    execs d (if bevals s c then s1 else s2) s evs out s' -> exec d (SIf c s1 s2) s evs out (trunc s s')
| X_while_false d c b k s : bevals s c = false -> exec d (SWhile c b k) s [] ONormal s
| X_while_break d c b k s evs s1 : bevals s c = true ->
    execs d b s evs OBreak s1 -> exec d (SWhile c b k) s evs ONormal (trunc s s1)
| X_while_leave d c b k s evs out s1 : bevals s c = true ->          (* the body returns or faults *)
    execs d b s evs out s1 -> leaves out -> exec d (SWhile c b k) s evs out (trunc s s1)
| X_while_cont_exit d c b k s e1 out1 s1 e2 out2 s2 : bevals s c = true ->
    execs d b s e1 out1 s1 -> out1 = ONormal \/ out1 = OContinue ->
    execs d k (trunc s s1) e2 out2 s2 -> out2 <> ONormal ->          (* the continuation does not complete *)
    exec d (SWhile c b k) s (e1 ++ e2) out2 (trunc s s2)
| X_while_next d c b k s e1 out1 s1 e2 s2 e3 out3 s3 : bevals s c = true ->
    execs d b s e1 out1 s1 -> out1 = ONormal \/ out1 = OContinue ->  (* the body completes or continues *)
    execs d k (trunc s s1) e2 ONormal s2 ->                          (* the continuation of a `for` *)
    exec d (SWhile c b k) (trunc s s2) e3 out3 s3 ->
    exec d (SWhile c b k) s (e1 ++ e2 ++ e3) out3 s3
| X_block d ss s evs out s' : execs d ss s evs out s' -> exec d (SBlock ss) s evs out (trunc s s')
| X_break d s : exec d SBreak s [] OBreak s
| X_continue d s : exec d SContinue s [] OContinue s
(* division in a checked build: a zero divisor is the fault division_by_zero *)
| X_decldiv d op a b s : ieval s b <> 0 ->
    exec d (SDeclDiv op a b) s [] ONormal (mkstore (si s ++ [swrap (arith_sem op (ieval s a) (ieval s b))]) (sb s))
| X_decldiv_fault d op a b s : ieval s b = 0 -> exec d (SDeclDiv op a b) s [] (OFault FDivZero) s
| X_assdiv d i op a b s : (i < length (si s))%nat -> ieval s b <> 0 ->
    exec d (SAssignDiv i op a b) s [] ONormal (mkstore (upd i (swrap (arith_sem op (ieval s a) (ieval s b))) (si s)) (sb s))
| X_assdiv_fault d i op a b s : ieval s b = 0 -> exec d (SAssignDiv i op a b) s [] (OFault FDivZero) s
(* calls: the arguments are evaluated left to right in the caller's store *)
| X_call d dst f args s evs v s' :
    callf (d - frame_top s) f (map (ieval s) args) evs (CRet v) -> dest_store dst v s s' ->
    exec d (SCall dst f args) s evs ONormal s'
| X_call_fault d dst f args s evs ft :
    callf (d - frame_top s) f (map (ieval s) args) evs (CFault ft) ->
    exec d (SCall dst f args) s evs (OFault ft) s
| X_return d s : exec d (SReturn None) s [] (OReturn None) s
| X_return_val d o s : exec d (SReturn (Some o)) s [] (OReturn (Some (ieval s o))) s
with execs : Z -> stmts -> store -> list Z -> outcome -> store -> Prop :=
| XS_nil d s : execs d SNil s [] ONormal s
| XS_cons d s r s0 e1 s1 e2 out s2 :
    exec d s s0 e1 ONormal s1 -> execs d r s1 e2 out s2 -> execs d (SCons s r) s0 (e1 ++ e2) out s2
| XS_exit d s r s0 e1 out s1 :
    exec d s s0 e1 out s1 -> out <> ONormal -> execs d (SCons s r) s0 e1 out s1
(* callf d f args events result: function f called with d bytes below its frame pointer *)
with callf : Z -> nat -> list Z -> list Z -> cres -> Prop :=
| CF_overflow d f vs fd : nth_error funs f = Some fd -> d < fun_need w fd ->
    callf d f vs [] (CFault FStackOverflow)
| CF_return d f vs fd evs v s1 : nth_error funs f = Some fd -> fun_need w fd <= d ->
    execs d (fn_body fd) (mkstore vs []) evs (OReturn v) s1 -> callf d f vs evs (CRet v)
| CF_fault d f vs fd evs ft s1 : nth_error funs f = Some fd -> fun_need w fd <= d ->
    execs d (fn_body fd) (mkstore vs []) evs (OFault ft) s1 -> callf d f vs evs (CFault ft).
End Source.
Scheme exec_ind2 := Minimality for exec Sort Prop
  with execs_ind2 := Minimality for execs Sort Prop
  with callf_ind2 := Minimality for callf Sort Prop.
Combined Scheme exec_execs_ind from exec_ind2, execs_ind2, callf_ind2.

(* ================================================================================= *)
(* 2  well-formed environments, well-scoped programs, representation                   *)
(* ================================================================================= *)
(* well-scoped expressions: variables in scope, literals words, no / % *)
Fixpoint oscoped (w : Z) (ni : nat) (o : iopd) : Prop :=
  match o with
  | OLit z => - (Machine.W w / 2) <= z < Machine.W w / 2
  | OVar i => (i < ni)%nat
  | OArith op x y => op_ok op /\ oscoped w ni x /\ oscoped w ni y
  | OUn _ x => oscoped w ni x
  end.
Fixpoint bscoped (w : Z) (ni nb : nat) (e : bexpr) : Prop :=
  match e with
  | BLit _ => True
  | BVar j => (j < nb)%nat
  | BCmp _ a b => oscoped w ni a /\ oscoped w ni b
  | BNot e1 => bscoped w ni nb e1
  | BAnd e1 e2 | BOr e1 e2 => bscoped w ni nb e1 /\ bscoped w ni nb e2
  end.
(* well-scoped statements: (ni, nb) = numbers of int / bool locals in scope; inloop: break /
   continue allowed; lib: what a call needs of the machine (the registers are where hidc puts
   them, the runtime library is loaded); cf f n: function f may be called with n arguments *)
Fixpoint sscoped (w : Z) (lib : Prop) (cf : nat -> nat -> Prop) (ni nb : nat) (inloop : bool) (s : stmt) : Prop :=
  match s with
  | SDeclI o => oscoped w ni o
  | SAssignI i o => (i < ni)%nat /\ oscoped w ni o
  | SDeclB e => bscoped w ni nb e
  | SAssignB j e => (j < nb)%nat /\ bscoped w ni nb e
  | SWrite (WrByte o) => oscoped w ni o
  | SWrite _ | SWriteln => True
  | SWriteI _ o => oscoped w ni o /\ lib              (* the runtime library must be there *)
  | SWriteB _ e => bscoped w ni nb e /\ lib
  | SIf c s1 s2 => bscoped w ni nb c /\ ssscoped w lib cf ni nb inloop s1 /\ ssscoped w lib cf ni nb inloop s2
  | SWhile c b k => bscoped w ni nb c /\ ssscoped w lib cf ni nb true b /\ ssscoped w lib cf ni nb inloop k
  | SBlock ss => ssscoped w lib cf ni nb inloop ss
  | SBreak | SContinue => inloop = true
  | SDeclDiv op a b => (op = SDiv \/ op = SMod) /\ oscoped w ni a /\ oscoped w ni b /\ lib
  | SAssignDiv i op a b => (i < ni)%nat /\ (op = SDiv \/ op = SMod) /\ oscoped w ni a /\ oscoped w ni b /\ lib
  | SCall dst f args =>
      match dst with DAssign i => (i < ni)%nat | _ => True end /\
      cf f (length args) /\ Forall (oscoped w ni) args /\ lib
  | SReturn (Some o) => oscoped w ni o
  | SReturn None => True
  end
with ssscoped (w : Z) (lib : Prop) (cf : nat -> nat -> Prop) (ni nb : nat) (inloop : bool) (ss : stmts) : Prop :=
  match ss with
  | SNil => True
  | SCons s r =>
      sscoped w lib cf ni nb inloop s /\
      match s with
      | SDeclI _ | SDeclDiv _ _ _ | SCall DDecl _ _ => ssscoped w lib cf (S ni) nb inloop r
      | SDeclB _ => ssscoped w lib cf ni (S nb) inloop r
      | _ => ssscoped w lib cf ni nb inloop r
      end
  end.

(* ---------- representation ---------- *)
Section Rep.
Variable w : Z.
Variable R : regmap.
Variable lo : Z.          (* lowest address of the stack area the function may use *)
Variable fb : Z.          (* frame base: every local lies strictly below [fp] - fb (fb = w: the return address) *)
Notation W := (Machine.W w).
Notation wrap := (Machine.wrap w).
Notation sgn := (Machine.sgn w).
Notation lw := (Machine.lw w).
Notation sw := (Machine.sw w).
Notation r0 := (a_r0 R).
Notation r1 := (a_r1 R).
Notation fp := (a_fp R).
Notation FP := (LowerBoolProofs.FP w R).

(* the compile-time layout: every local's slot lies in (fb, top], distinct locals are disjoint *)
Record wf_senv (S : senv) : Prop := {
  wfs_w : ws S = w;
  wfs_fb : 0 <= fb <= top S;
  wfs_i : forall i, (i < length (ioffs S))%nat -> fb + w <= nth i (ioffs S) 0 <= top S;
  wfs_b : forall j, (j < length (boffs S))%nat -> fb + 1 <= nth j (boffs S) 0 <= top S;
  wfs_ii : forall i i', (i < length (ioffs S))%nat -> (i' < length (ioffs S))%nat -> i <> i' ->
           nth i (ioffs S) 0 + w <= nth i' (ioffs S) 0 \/ nth i' (ioffs S) 0 + w <= nth i (ioffs S) 0;
  wfs_bb : forall j j', (j < length (boffs S))%nat -> (j' < length (boffs S))%nat -> j <> j' ->
           nth j (boffs S) 0 <> nth j' (boffs S) 0;
  wfs_ib : forall i j, (i < length (ioffs S))%nat -> (j < length (boffs S))%nat ->
           nth j (boffs S) 0 <= nth i (ioffs S) 0 - w \/ nth i (ioffs S) 0 + 1 <= nth j (boffs S) 0 }.

(* the ap register lies below the stack area, apart from r0, r1, r2 (hidc: ap is the first state word) *)
Definition ap_sep : Prop :=
  0 <= a_ap R /\ a_ap R + w <= lo /\ (a_ap R + w <= r0 \/ r0 + w <= a_ap R) /\ (a_ap R + w <= r1 \/ r1 + w <= a_ap R) /\
  (a_ap R + w <= a_r2 R \/ a_r2 R + w <= a_ap R).
(* memory m holds store s in the frame laid out by S; the stack area starts where ap points (no arrays
   in the fragment: ap never moves) *)
Record rep (S : senv) (s : store) (m : mem) : Prop := {
  rp_regs : regs_ok w R lo m;
  rp_lo : lo <= FP m - top S;
  rp_half : FP m - lo <= W / 2;
  rp_sz : FP m <= msize m;
  rp_li : length (si s) = length (ioffs S);
  rp_lb : length (sb s) = length (boffs S);
  rp_i : forall i, (i < length (ioffs S))%nat -> sgn (lw m (FP m - nth i (ioffs S) 0)) = nth i (si s) 0;
  rp_b : forall j, (j < length (boffs S))%nat ->
         lb m (FP m - nth j (boffs S) 0) = nth j (sb s) 0 /\ (nth j (sb s) 0 = 0 \/ nth j (sb s) 0 = 1);
  rp_ap : ap_sep -> lw m (a_ap R) = lo }.

Hypothesis Hw : 2 <= w.
Let Hw1 : 1 <= w. Proof. lia. Qed.

Lemma ap_agree hi m m' : ap_sep -> agree w R lo hi m m' -> lw m' (a_ap R) = lw m (a_ap R).
Proof.
  intros [A0 [A1 [A2 [A3 A4]]]] [_ [_ A]]. unfold Machine.lw. apply loadn_ext. intros x Hx. rewrite (wn_w w Hw1) in Hx.
  apply A; lia.
Qed.

Lemma env_of_wsize S : wf_senv S -> wsize (env_of S) = w.
Proof. intros Wf. exact (wfs_w S Wf). Qed.

Lemma rep_layout S s m : wf_senv S -> rep S s m -> layout_ok w R (env_of S) lo m.
Proof.
  intros Wf Rp. destruct Wf, Rp. split; [assumption|]. constructor; cbn [env_of stack_top]; lia.
Qed.
Lemma rep_room S s m t : wf_senv S -> rep S s m -> top S <= t -> lo <= FP m - t -> room_ok w R lo t m.
Proof. intros Wf Rp Ht Hl. destruct Wf, Rp. constructor; lia. Qed.
Lemma rep_slot_i S s m i hi : wf_senv S -> rep S s m -> (i < length (ioffs S))%nat -> hi <= FP m - top S ->
  slot_ok w R lo hi m (nth i (ioffs S) 0) w.
Proof.
  intros Wf Rp Hi Hh. pose proof (wfs_i S Wf i Hi) as Ho. destruct Wf, Rp. destruct rp_regs0.
  unfold slot_ok, dj. repeat split; try lia. apply inb_true; lia.
Qed.
Lemma rep_slot_b S s m j hi : wf_senv S -> rep S s m -> (j < length (boffs S))%nat -> hi <= FP m - top S ->
  slot_ok w R lo hi m (nth j (boffs S) 0) 1.
Proof.
  intros Wf Rp Hj Hh. pose proof (wfs_b S Wf j Hj) as Ho. destruct Wf, Rp. destruct rp_regs0.
  unfold slot_ok, dj. repeat split; try lia. apply inb_true; lia.
Qed.
Lemma rep_oexp S s m o hi : wf_senv S -> rep S s m -> oscoped w (length (ioffs S)) o -> hi <= FP m - top S ->
  oexp_ok w R (env_of S) lo hi m o.
Proof.
  intros Wf Rp Sc Hh. induction o as [z|i|op x IHx y IHy|u x IHx]; cbn [oscoped oexp_ok] in *; try tauto.
  cbn [env_of int_off]. apply (rep_slot_i S s); assumption.
Qed.
Lemma rep_sval S s m o : wf_senv S -> rep S s m -> oscoped w (length (ioffs S)) o ->
  sval w R (env_of S) m o = ieval w s o.
Proof.
  intros Wf Rp. induction o as [z|i|op x IHx y IHy|u x IHx]; cbn [oscoped sval ieval]; intros Sc.
  - reflexivity.
  - cbn [env_of int_off]. apply (rp_i S s m Rp i Sc).
  - destruct Sc as [_ [Sx Sy]]. rewrite IHx, IHy by assumption. reflexivity.
  - destruct u; rewrite IHx by assumption; reflexivity.
Qed.
Lemma rep_beval S s m e : wf_senv S -> rep S s m -> bscoped w (length (ioffs S)) (length (boffs S)) e ->
  beval w R (env_of S) m e = bevals w s e.
Proof.
  intros Wf Rp. induction e as [b|j|op a b|e IH|e1 IH1 e2 IH2|e1 IH1 e2 IH2]; cbn [bscoped beval bevals]; intros Sc.
  - reflexivity.
  - unfold bval. cbn [env_of bool_off]. now rewrite (proj1 (rp_b S s m Rp j Sc)).
  - destruct Sc as [Sa Sb]. now rewrite (rep_sval S s m a Wf Rp Sa), (rep_sval S s m b Wf Rp Sb).
  - now rewrite IH.
  - destruct Sc as [S1 S2]. now rewrite IH1, IH2.
  - destruct Sc as [S1 S2]. now rewrite IH1, IH2.
Qed.
Lemma temps_b_le_and e1 e2 : (temps_b e1 <= temps_b (BAnd e1 e2))%nat /\ (temps_b e2 <= temps_b (BAnd e1 e2))%nat.
Proof. cbn [temps_b]. lia. Qed.
(* E' is env_of S possibly with a higher stack top *)
Lemma rep_vars S s m e t : wf_senv S -> rep S s m -> bscoped w (length (ioffs S)) (length (boffs S)) e ->
  top S <= t -> t + Z.of_nat (temps_b e) * w <= FP m - lo ->
  vars_ok w R (with_top (env_of S) t) lo m e.
Proof.
  intros Wf Rp Sc Ht Hr. assert (W0 : 0 <= w) by lia.
  assert (Hh : HI w R (with_top (env_of S) t) m <= FP m - top S) by (unfold HI; cbn [with_top stack_top]; lia).
  induction e as [b|j|op a b|e IH|e1 IH1 e2 IH2|e1 IH1 e2 IH2]; cbn [bscoped vars_ok temps_b] in *.
  - exact I.
  - cbn [with_top env_of bool_off]. apply (rep_slot_b S s); assumption.
  - destruct Sc as [Sa Sb]. split; [|split].
    + pose proof (rep_oexp S s m a _ Wf Rp Sa Hh) as X. exact X.
    + pose proof (rep_oexp S s m b _ Wf Rp Sb Hh) as X. exact X.
    + unfold HI. cbn [with_top stack_top]. lia.
  - apply IH; assumption.
  - destruct Sc as [S1 S2]. split; [apply IH1 | apply IH2]; try assumption;
      (eapply Z.le_trans; [|exact Hr]); apply Z.add_le_mono_l; apply Z.mul_le_mono_nonneg_r; lia.
  - destruct Sc as [S1 S2]. split; [apply IH1 | apply IH2]; try assumption;
      (eapply Z.le_trans; [|exact Hr]); apply Z.add_le_mono_l; apply Z.mul_le_mono_nonneg_r; lia.
Qed.
Lemma rep_norm S s m e : wf_senv S -> rep S s m -> bscoped w (length (ioffs S)) (length (boffs S)) e ->
  bool_norm w R (env_of S) m e.
Proof.
  intros Wf Rp. induction e as [b|j|op a b|e IH|e1 IH1 e2 IH2|e1 IH1 e2 IH2]; cbn [bscoped bool_norm]; try tauto.
  intros Sc. unfold bval. cbn [env_of bool_off]. destruct (rp_b S s m Rp j Sc) as [E N]. now rewrite E.
Qed.
(* the semantics does not look at the stack top *)
Lemma sval_top E t m o : sval w R (with_top E t) m o = sval w R E m o.
Proof. induction o as [z|i|op x IHx y IHy|u x IHx]; cbn [sval]; [reflexivity | reflexivity | now rewrite IHx, IHy | destruct u; now rewrite IHx]. Qed.
Lemma beval_top E t m e : beval w R (with_top E t) m e = beval w R E m e.
Proof.
  induction e as [b|j|op a b|e IH|e1 IH1 e2 IH2|e1 IH1 e2 IH2]; cbn [beval];
    rewrite ?sval_top, ?IH, ?IH1, ?IH2; reflexivity.
Qed.
Lemma with_top_same S : with_top (env_of S) (top S) = env_of S.
Proof. reflexivity. Qed.

(* a memory that differs only in r0, r1 and below the stack top represents the same store *)
Lemma rep_agree S s m m' : wf_senv S -> rep S s m -> agree w R lo (FP m - top S) m m' -> rep S s m'.
Proof.
  intros Wf Rp A. pose proof (FP_agree w R lo Hw _ m m' (rp_regs S s m Rp) A) as EF.
  pose proof (regs_ok_agree w R lo Hw _ m m' (rp_regs S s m Rp) A) as L'.
  destruct A as [Sz A']. assert (A : agree w R lo (FP m - top S) m m') by (split; assumption).
  constructor; rewrite ?EF, ?Sz; try apply Rp; try assumption.
  3: { intros Ap. rewrite (ap_agree _ m m' Ap A). apply (rp_ap S s m Rp Ap). }
  - intros i Hi. rewrite <- (rp_i S s m Rp i Hi). f_equal.
    destruct (rep_slot_i S s m i (FP m - top S) Wf Rp Hi ltac:(lia)) as [_ [H2 [_ H4]]].
    apply (agree_lw w R lo Hw (FP m - top S)); assumption.
  - intros j Hj. destruct (rp_b S s m Rp j Hj) as [E N]. split; [|exact N]. rewrite <- E.
    destruct (rep_slot_b S s m j (FP m - top S) Wf Rp Hj ltac:(lia)) as [_ [H2 [_ H4]]].
    apply (agree_lb w R lo (FP m - top S)); assumption.
Qed.
(* the coarse frame condition of statements: only r0, r1 and the frame below [fp] - fb change *)
Definition fagree (m m' : mem) : Prop := agree w R lo (FP m - fb) m m'.
Lemma fagree_refl m : fagree m m.
Proof. apply agree_refl. Qed.
Lemma fagree_trans m1 m2 m3 : regs_ok w R lo m1 -> fagree m1 m2 -> fagree m2 m3 -> fagree m1 m3.
Proof.
  intros L A B. unfold fagree in *. rewrite (FP_agree w R lo Hw _ m1 m2 L A) in B.
  eapply agree_trans; eauto.
Qed.
Lemma agree_fagree S s m m' : wf_senv S -> rep S s m -> agree w R lo (FP m - top S) m m' -> fagree m m'.
Proof. intros Wf Rp A. apply (agree_mono w R lo (FP m - top S)); [destruct Wf; lia | exact A]. Qed.
End Rep.

(* list facts for stores *)
Lemma nth_app_last (l : list Z) x : nth (length l) (l ++ [x]) 0 = x.
Proof. rewrite app_nth2, Nat.sub_diag by lia. reflexivity. Qed.
Lemma length_upd i v l : length (upd i v l) = length l.
Proof. revert i; induction l as [|x r IH]; intros [|k]; cbn [upd length]; auto. Qed.
Lemma nth_upd_same i v l : (i < length l)%nat -> nth i (upd i v l) 0 = v.
Proof. revert i; induction l as [|x r IH]; intros [|k] H; cbn [upd nth length] in *; try lia; auto. apply IH; lia. Qed.
Lemma nth_upd_other i k v l : i <> k -> nth k (upd i v l) 0 = nth k l 0.
Proof. revert i k; induction l as [|x r IH]; intros [|i] [|k] H; cbn [upd nth]; try reflexivity; try congruence. apply IH; congruence. Qed.

(* ================================================================================= *)
(* 3-4  machine lemmas and the statements without control flow                         *)
(* ================================================================================= *)
Section Stmt.
Variable w : Z.
Variable R : regmap.
Variable lo : Z.
Variable fb : Z.
Hypothesis Hw : 2 <= w.
Variable code : Z -> option instr.
Variable cmem : mem.
Variable lab : label -> Z.
Hypothesis lab_range : forall l, 0 <= lab l < Machine.W w.
Variable funs : list fundef.            (* the program *)
Variable cf : nat -> nat -> Prop.       (* cf f n: function f may be called with n arguments *)
Hypothesis Hfb : fb = w.                (* the frame base is the return address *)
Notation W := (Machine.W w).
Notation wrap := (Machine.wrap w).
Notation sgn := (Machine.sgn w).
Notation lw := (Machine.lw w).
Notation sw := (Machine.sw w).
Notation r0 := (a_r0 R).
Notation r1 := (a_r1 R).
Notation fp := (a_fp R).
Notation FP := (LowerBoolProofs.FP w R).
Notation act := (Machine.act w code cmem).
Notation Halts := (HidV.Sphinx.Halts.Halts act).
Notation runs := (HidV.Sphinx.Halts.runs act).
Notation oval := (Idioms.oval w cmem).
Notation plc := (placed R lab code).
Notation rs := (res_sym R lab).
Notation wf_senv := (wf_senv w fb).
Notation rep := (rep w R lo).
Notation fagree := (fagree w R lo fb).
Let Hw1 : 1 <= w. Proof. lia. Qed.
(* what a call of a library routine needs: hidc's register layout and the library in the code *)
Definition lib_hyps : Prop :=
  a_fp R = 1 * w /\ a_r0 R = 2 * w /\ a_r1 R = 3 * w /\ a_r2 R = 4 * w /\
  lib_at w code (a_lib R) /\ lib_range w (a_lib R) /\ a_ap R = 0.

Lemma act_yield p m v x : code p = Some (IYield v) -> oval m v = Some x ->
  act (mk p m) = ANext (mk (p + 1) m) (Some (EOut (x mod 256))).
Proof. intros C A. unfold Machine.act; cbn [pc]; rewrite C; cbn [Machine.exec]. rewrite val_oval; cbn [mm]; rewrite A. reflexivity. Qed.
Lemma act_lbs p m d a x : code p = Some (ILoad WByte SState (St d) a) -> oval m a = Some x ->
  inb m x 1 = true -> inb m d w = true ->
  act (mk p m) = ANext (mk (p + 1) (sw m d (lb m x))) None.
Proof.
  intros C A I J. unfold Machine.act; cbn [pc]; rewrite C; cbn [Machine.exec]. rewrite val_oval; cbn [mm]; rewrite A.
  unfold load; cbn [mm]; rewrite I. unfold setdest; cbn [mm]; rewrite J. reflexivity.
Qed.
Lemma act_sbso p m b o v x y z : code p = Some (IStoreO WByte b o v) ->
  oval m b = Some x -> oval m o = Some y -> oval m v = Some z -> inb m (sgn x + sgn y) 1 = true ->
  act (mk p m) = ANext (mk (p + 1) (Machine.sb m (sgn x + sgn y) z)) None.
Proof.
  intros C A B V I. unfold Machine.act; cbn [pc]; rewrite C; cbn [Machine.exec].
  rewrite !val_oval; cbn [mm]; rewrite A, B, V. unfold Machine.store; cbn [mm]; rewrite I. reflexivity.
Qed.
(* the low byte of a word *)
Lemma lb_lw m a : wf_mem m -> lb m a = lw m a mod 256.
Proof.
  intros Wf. unfold lb, Machine.lw, Machine.wn. destruct (Z.to_nat w) as [|k] eqn:E; [lia|].
  cbn [loadn]. pose proof (Wf a). rewrite (Z.mul_comm 256), Z.mod_add by lia. symmetry. apply Z.mod_small. lia.
Qed.
Lemma W_256 : exists k, W = 256 * k.
Proof.
  unfold Machine.W. exists (2 ^ (8 * w - 8)). change 256 with (2 ^ 8). rewrite <- Z.pow_add_r by lia. f_equal. lia.
Qed.
Lemma wrap_mod256 z : wrap z mod 256 = z mod 256.
Proof.
  destruct W_256 as [k Hk]. unfold Machine.wrap. pose proof (W_pos w Hw1).
  rewrite (Z.mod_eq z W) by lia. rewrite Hk.
  replace (z - 256 * k * (z / (256 * k))) with (z + (- (k * (z / (256 * k)))) * 256) by lia.
  apply Z.mod_add. lia.
Qed.
Lemma sgn_mod256 x : inrange w x -> sgn x mod 256 = x mod 256.
Proof.
  intros Hx. destruct W_256 as [k Hk]. destruct (sgn_cases w x Hx) as [[_ E]|[_ E]]; rewrite E; [reflexivity|].
  rewrite Hk. replace (x - 256 * k) with (x + (- k) * 256) by lia. apply Z.mod_add. lia.
Qed.

(* storing an operand into a frame word / byte *)
Lemma store_word_runs p m v x off : code p = Some (IStoreO WWord (St fp) (Imm (- off)) v) ->
  oval m v = Some x -> regs_ok w R lo m -> 0 < off <= W / 2 -> inb m (FP m - off) w = true ->
  runs (mk p m) [] (mk (p + 1) (sw m (FP m - off) x)).
Proof.
  intros C V L Ho I.
  pose proof (act_swso w code cmem p m (St fp) (Imm (- off)) v (FP m) (wrap (- off)) x C
                (oval_st w cmem m fp (lo_if w R lo m L)) (oval_imm w cmem m _) V) as A.
  rewrite (frame_addr w R lo Hw m off L Ho) in A. apply (runs_next act _ _ None). apply A. exact I.
Qed.
Lemma store_byte_runs p m v x off : code p = Some (IStoreO WByte (St fp) (Imm (- off)) v) ->
  oval m v = Some x -> regs_ok w R lo m -> 0 < off <= W / 2 -> inb m (FP m - off) 1 = true ->
  runs (mk p m) [] (mk (p + 1) (Machine.sb m (FP m - off) x)).
Proof.
  intros C V L Ho I.
  pose proof (act_sbso p m (St fp) (Imm (- off)) v (FP m) (wrap (- off)) x C
                (oval_st w cmem m fp (lo_if w R lo m L)) (oval_imm w cmem m _) V) as A.
  rewrite (frame_addr w R lo Hw m off L Ho) in A. apply (runs_next act _ _ None). apply A. exact I.
Qed.

(* ---------- the representation after a declaration / an assignment ---------- *)
Lemma wf_push_int S : wf_senv S -> wf_senv (push_int S).
Proof.
  intros Wf. destruct Wf as [Ww Wfb Wi Wb Wii Wbb Wib]. constructor; cbn [push_int ws top ioffs boffs]; try assumption; try lia.
  - intros i Hi. rewrite app_length in Hi. cbn [length] in Hi.
    destruct (Nat.lt_ge_cases i (length (ioffs S))) as [Lt|Ge].
    + rewrite app_nth1 by exact Lt. specialize (Wi i Lt). lia.
    + replace i with (length (ioffs S)) by lia. rewrite app_nth2, Nat.sub_diag by lia. cbn [nth]. lia.
  - intros j Hj. specialize (Wb j Hj). lia.
  - intros i i' Hi Hi' Ne. rewrite app_length in Hi, Hi'. cbn [length] in Hi, Hi'.
    destruct (Nat.lt_ge_cases i (length (ioffs S))) as [Lt|Ge]; destruct (Nat.lt_ge_cases i' (length (ioffs S))) as [Lt'|Ge'].
    + rewrite !app_nth1 by assumption. apply Wii; assumption.
    + rewrite (app_nth1 _ _ _ Lt). replace i' with (length (ioffs S)) by lia. rewrite app_nth2, Nat.sub_diag by lia. cbn [nth].
      specialize (Wi i Lt). lia.
    + rewrite (app_nth1 _ _ _ Lt'). replace i with (length (ioffs S)) by lia. rewrite app_nth2, Nat.sub_diag by lia. cbn [nth].
      specialize (Wi i' Lt'). lia.
    + lia.
  - intros i j Hi Hj. rewrite app_length in Hi. cbn [length] in Hi.
    destruct (Nat.lt_ge_cases i (length (ioffs S))) as [Lt|Ge].
    + rewrite app_nth1 by exact Lt. apply Wib; assumption.
    + replace i with (length (ioffs S)) by lia. rewrite app_nth2, Nat.sub_diag by lia. cbn [nth]. specialize (Wb j Hj). lia.
Qed.
Lemma wf_push_bool S : wf_senv S -> wf_senv (push_bool S).
Proof.
  intros Wf. destruct Wf as [Ww Wfb Wi Wb Wii Wbb Wib]. constructor; cbn [push_bool ws top ioffs boffs]; try assumption; try lia.
  - intros i Hi. specialize (Wi i Hi). lia.
  - intros j Hj. rewrite app_length in Hj. cbn [length] in Hj.
    destruct (Nat.lt_ge_cases j (length (boffs S))) as [Lt|Ge].
    + rewrite app_nth1 by exact Lt. specialize (Wb j Lt). lia.
    + replace j with (length (boffs S)) by lia. rewrite app_nth2, Nat.sub_diag by lia. cbn [nth]. lia.
  - intros j j' Hj Hj' Ne. rewrite app_length in Hj, Hj'. cbn [length] in Hj, Hj'.
    destruct (Nat.lt_ge_cases j (length (boffs S))) as [Lt|Ge]; destruct (Nat.lt_ge_cases j' (length (boffs S))) as [Lt'|Ge'].
    + rewrite !app_nth1 by assumption. apply Wbb; assumption.
    + rewrite (app_nth1 _ _ _ Lt). replace j' with (length (boffs S)) by lia. rewrite app_nth2, Nat.sub_diag by lia. cbn [nth].
      specialize (Wb j Lt). lia.
    + rewrite (app_nth1 _ _ _ Lt'). replace j with (length (boffs S)) by lia. rewrite app_nth2, Nat.sub_diag by lia. cbn [nth].
      specialize (Wb j' Lt'). lia.
    + lia.
  - intros i j Hi Hj. rewrite app_length in Hj. cbn [length] in Hj.
    destruct (Nat.lt_ge_cases j (length (boffs S))) as [Lt|Ge].
    + rewrite app_nth1 by exact Lt. apply Wib; assumption.
    + replace j with (length (boffs S)) by lia. rewrite app_nth2, Nat.sub_diag by lia. cbn [nth]. specialize (Wi i Hi). lia.
Qed.

Lemma rep_push_int S s m m' v : wf_senv S -> rep S s m -> agree w R lo (FP m - top S) m m' ->
  top S + w <= FP m - lo -> sgn (lw m' (FP m - (top S + w))) = v ->
  rep (push_int S) (mkstore (si s ++ [v]) (sb s)) m'.
Proof.
  intros Wf Rp A Hr Hv. pose proof (rep_agree w R lo fb Hw S s m m' Wf Rp A) as Rp'.
  pose proof (FP_agree w R lo Hw _ m m' (rp_regs w R lo S s m Rp) A) as EF.
  destruct Rp' as [Rg Rlo Rh Rsz Rli Rlb Ri Rb Rap].
  pose proof (wfs_w w fb S Wf) as Ews.
  constructor; cbn [push_int top ioffs boffs si sb]; rewrite ?Ews; try assumption; try lia.
  - rewrite !app_length. cbn [length]. lia.
  - intros i Hi. rewrite app_length in Hi. cbn [length] in Hi.
    destruct (Nat.lt_ge_cases i (length (ioffs S))) as [Lt|Ge].
    + rewrite !app_nth1 by lia. apply Ri. exact Lt.
    + replace i with (length (ioffs S)) by lia.
      replace (nth (length (ioffs S)) (ioffs S ++ [top S + w]) 0) with (top S + w)
        by (rewrite app_nth2, Nat.sub_diag by lia; reflexivity).
      replace (nth (length (ioffs S)) (si s ++ [v]) 0) with v
        by (rewrite <- Rli, app_nth2, Nat.sub_diag by lia; reflexivity).
      rewrite EF. exact Hv.
Qed.
Lemma rep_push_bool S s m m' v : wf_senv S -> rep S s m -> agree w R lo (FP m - top S) m m' ->
  top S + 1 <= FP m - lo -> lb m' (FP m - (top S + 1)) = v -> v = 0 \/ v = 1 ->
  rep (push_bool S) (mkstore (si s) (sb s ++ [v])) m'.
Proof.
  intros Wf Rp A Hr Hv Hn. pose proof (rep_agree w R lo fb Hw S s m m' Wf Rp A) as Rp'.
  pose proof (FP_agree w R lo Hw _ m m' (rp_regs w R lo S s m Rp) A) as EF.
  destruct Rp' as [Rg Rlo Rh Rsz Rli Rlb Ri Rb Rap].
  constructor; cbn [push_bool top ioffs boffs si sb]; try assumption; try lia.
  - rewrite !app_length. cbn [length]. lia.
  - intros j Hj. rewrite app_length in Hj. cbn [length] in Hj.
    destruct (Nat.lt_ge_cases j (length (boffs S))) as [Lt|Ge].
    + rewrite !app_nth1 by lia. apply Rb. exact Lt.
    + replace j with (length (boffs S)) by lia.
      replace (nth (length (boffs S)) (boffs S ++ [top S + 1]) 0) with (top S + 1)
        by (rewrite app_nth2, Nat.sub_diag by lia; reflexivity).
      replace (nth (length (boffs S)) (sb s ++ [v]) 0) with v
        by (rewrite <- Rlb, app_nth2, Nat.sub_diag by lia; reflexivity).
      rewrite EF. split; assumption.
Qed.
(* overwriting the slot of int local i *)
Lemma rep_set_int S s m i x : wf_senv S -> rep S s m -> (i < length (ioffs S))%nat -> inrange w x ->
  let m' := sw m (FP m - nth i (ioffs S) 0) x in
  rep S (mkstore (upd i (sgn x) (si s)) (sb s)) m' /\ fagree m m'.
Proof.
  intros Wf Rp Hi Hx m'. pose proof (rp_regs w R lo S s m Rp) as L.
  assert (Hlo : 0 <= lo) by (destruct L; lia).
  destruct (rep_slot_i w R lo fb Hw S s m i (FP m - top S) Wf Rp Hi ltac:(lia)) as [O1 [O2 [O3 [D0 [D1 D2]]]]].
  pose proof (wfs_i w fb S Wf i Hi) as Oi. pose proof (wfs_fb w fb S Wf) as Ofb.
  set (a := FP m - nth i (ioffs S) 0) in *.
  assert (Fa : fagree m m').
  { unfold fagree. apply (agree_sw w R lo Hw); [exact O2|]. right. right. destruct Rp. subst a. lia. }
  assert (EF : FP m' = FP m) by apply (FP_agree w R lo Hw _ m m' L Fa).
  split; [|exact Fa].
  destruct Rp as [Rg Rlo Rh Rsz Rli Rlb Ri Rb Rap].
  constructor; cbn [si sb]; rewrite ?EF; try assumption;
    try (intros Ap; rewrite (ap_agree w R lo Hw _ _ _ Ap Fa); exact (Rap Ap)).
  - apply (regs_ok_agree w R lo Hw _ m m' L Fa).
  - unfold m'. rewrite msize_sw. exact Rsz.
  - rewrite length_upd. exact Rli.
  - intros k Hk. destruct (Nat.eq_dec k i) as [->|Ne].
    + rewrite nth_upd_same by lia. fold a. unfold m'. rewrite (lw_sw_same w Hw1) by exact O2.
      now rewrite (wrap_small w x Hx).
    + rewrite nth_upd_other by congruence. rewrite <- (Ri k Hk). f_equal. unfold m'.
      pose proof (wfs_ii w fb S Wf i k Hi Hk ltac:(congruence)) as Dk. pose proof (wfs_i w fb S Wf k Hk) as Ok.
      apply (lw_sw_other w Hw1); subst a; lia.
  - intros j Hj. destruct (Rb j Hj) as [E N]. split; [|exact N]. rewrite <- E. unfold m'.
    pose proof (wfs_ib w fb S Wf i j Hi Hj) as Dj. pose proof (wfs_b w fb S Wf j Hj) as Oj.
    apply (lb_sw_other w Hw1); subst a; lia.
Qed.
Lemma rep_set_bool S s m j v : wf_senv S -> rep S s m -> (j < length (boffs S))%nat -> v = 0 \/ v = 1 ->
  let m' := Machine.sb m (FP m - nth j (boffs S) 0) v in
  rep S (mkstore (si s) (upd j v (sb s))) m' /\ fagree m m'.
Proof.
  intros Wf Rp Hj Hv m'. pose proof (rp_regs w R lo S s m Rp) as L.
  assert (Hlo : 0 <= lo) by (destruct L; lia).
  destruct (rep_slot_b w R lo fb Hw S s m j (FP m - top S) Wf Rp Hj ltac:(lia)) as [O1 [O2 [O3 [D0 [D1 D2]]]]].
  pose proof (wfs_b w fb S Wf j Hj) as Oj. pose proof (wfs_fb w fb S Wf) as Ofb.
  set (a := FP m - nth j (boffs S) 0) in *.
  assert (Fa : fagree m m').
  { unfold fagree, agree, m', Machine.sb. split; [reflexivity|]. split.
    - intros Wfm. apply wf_setb; [exact Wfm | exact O2 | apply Z.mod_pos_bound; lia].
    - intros x X N0 N1 N2 N3. apply getb_setb_other; [exact O2 | exact X |]. destruct Rp. subst a. lia. }
  assert (EF : FP m' = FP m) by apply (FP_agree w R lo Hw _ m m' L Fa).
  split; [|exact Fa].
  destruct Rp as [Rg Rlo Rh Rsz Rli Rlb Ri Rb Rap].
  constructor; cbn [si sb]; rewrite ?EF; try assumption;
    try (intros Ap; rewrite (ap_agree w R lo Hw _ _ _ Ap Fa); exact (Rap Ap)).
  - apply (regs_ok_agree w R lo Hw _ m m' L Fa).
  - rewrite length_upd. exact Rlb.
  - intros i Hi. rewrite <- (Ri i Hi). f_equal. unfold m'.
    pose proof (wfs_ib w fb S Wf i j Hi Hj) as Dj. pose proof (wfs_i w fb S Wf i Hi) as Oi.
    apply (lw_sb_other w Hw1); subst a; lia.
  - intros k Hk. destruct (Nat.eq_dec k j) as [->|Ne].
    + rewrite nth_upd_same by lia. fold a. unfold m'. rewrite (lb_sb_same). split; [|exact Hv].
      destruct Hv as [-> | ->]; reflexivity.
    + rewrite nth_upd_other by congruence. destruct (Rb k Hk) as [E N]. split; [|exact N]. rewrite <- E. unfold m'.
      pose proof (wfs_bb w fb S Wf j k Hj Hk ltac:(congruence)) as Dk. pose proof (wfs_b w fb S Wf k Hk) as Ok.
      apply lb_sb_other; subst a; lia.
Qed.

(* ---------- int operands in statement position ---------- *)
(* the hypotheses every expression lowering needs, from the representation *)
Lemma rep_opd_hyps S s m o keep : wf_senv S -> rep S s m -> oscoped w (length (ioffs S)) o ->
  need_int S o keep <= FP m - lo ->
  wsize (env_of S) = w /\ regs_ok w R lo m /\ room_ok w R lo (top S) m /\
  oexp_ok w R (env_of S) lo (FP m - top S) m o /\ Z.of_nat (temps o keep) * w <= FP m - top S - lo.
Proof.
  intros Wf Rp Sc Hn. unfold need_int in Hn. rewrite (wfs_w w fb S Wf) in Hn.
  assert (0 <= Z.of_nat (temps o keep) * w) by (apply Z.mul_nonneg_nonneg; lia).
  split; [apply (wfs_w w fb S Wf)|]. split; [apply (rp_regs w R lo S s m Rp)|].
  split; [apply (rep_room w R lo fb S s m (top S) Wf Rp); lia|].
  split; [apply (rep_oexp w R lo fb Hw S s m o _ Wf Rp Sc); lia | lia].
Qed.
(* get_expr_value(r1, o): evaluate and pop into r1 *)
Lemma get_value_runs S s m rg o c0 bub c1 v p : rg = R0 \/ rg = R1 -> wf_senv S -> rep S s m -> oscoped w (length (ioffs S)) o ->
  need_int S o false <= FP m - lo ->
  eval_opd (env_of S) (top S) rg o false = (c0, bub) -> pop_value rg bub = (c1, v) -> plc (c0 ++ c1) p ->
  exists m2, runs (mk p m) [] (mk (p + size (c0 ++ c1)) m2) /\ agree w R lo (FP m - top S) m m2 /\
             oval m2 (rs v) = Some (wval w R (env_of S) m o) /\ ((exists z, v = SLit z) \/ v = SReg rg).
Proof.
  intros Hr Wf Rp Sc Hn Ev Pv P.
  destruct (rep_opd_hyps S s m o false Wf Rp Sc Hn) as [HwE [L [Ro [Oe T]]]].
  set (E := env_of S) in *. set (tp := top S) in *.
  destruct (eval_opd_props w R E lo Hw HwE code cmem lab o tp rg false m Hr L Ro Oe T) as [A [V Cd]].
  set (m1 := eval_mem w R E tp rg o false m) in *.
  pose proof (regs_ok_agree w R lo Hw _ m m1 L A) as L1. pose proof (FP_agree w R lo Hw _ m m1 L A) as F1.
  pose proof (room_ok_agree w R lo Hw _ tp m m1 L A Ro) as Ro1.
  assert (Eb : bub = bub_of E tp rg o false) by (pose proof (eval_opd_bub E o tp rg false) as Q; rewrite Ev in Q; exact Q).
  assert (Bok : bub_ok w R lo (FP m1 - tp) m1 bub).
  { pose proof (bub_of_ok w R E lo Hw HwE tp rg o false m1 Hr L1 Ro1) as Bk. rewrite top_after_bub in Bk.
    unfold pushed in Bk. cbn [andb] in Bk. change (Z.of_nat 0) with 0 in Bk. replace (tp + 0 * wsize E) with tp in Bk by lia.
    rewrite Eb. apply Bk; [|destruct Ro1; lia]. rewrite F1. apply (oexp_ok_agree w R E lo Hw _ (FP m - tp) m m1); assumption. }
  destruct (pop_props w R lo Hw code cmem lab rg bub _ m1 Hr L1 Bok) as [A2 [S2 C2]].
  apply placed_app in P. destruct P as [P1 P2].
  exists (pop_mem w R rg bub m1). split; [|split; [|split]].
  - rewrite size_app. change (@nil event) with (@nil event ++ []).
    eapply runs_trans; [apply (Cd c0 bub p Ev P1)|].
    replace (p + (size c0 + size c1)) with (p + size c0 + size c1) by lia. apply (C2 c1 v _ Pv P2).
  - eapply (agree_trans w R lo); [exact A|]. apply (agree_mono w R lo lo); [destruct Ro; lia | exact A2].
  - assert (S2' : symval w R (pop_mem w R rg bub m1) (sym_of rg bub) = Some (wval w R E m o)) by (rewrite S2, Eb; f_equal; exact V).
    unfold sym_of in S2'. rewrite Pv in S2'. cbn [snd] in S2'. apply (symval_oval w R cmem lab _ _ _ S2').
  - rewrite Eb in Pv. destruct o as [z|i|op x y|u x]; cbn [bub_of pop_value] in Pv; inversion Pv; eauto.
Qed.
Lemma sval_ieval S s m o : wf_senv S -> rep S s m -> oscoped w (length (ioffs S)) o ->
  sgn (wval w R (env_of S) m o) = ieval w s o /\ inrange w (wval w R (env_of S) m o).
Proof.
  intros Wf Rp Sc. pose proof (rp_regs w R lo S s m Rp) as L.
  split; [|apply (wval_range w R (env_of S) Hw); apply (lo_wf w R lo m L)].
  rewrite (sgn_wval w R (env_of S) lo Hw (FP m - top S) m o (lo_wf w R lo m L)).
  - apply (rep_sval w R lo fb S s m o Wf Rp Sc).
  - apply (rep_oexp w R lo fb Hw S s m o _ Wf Rp Sc). lia.
Qed.

(* int x = o; *)
Lemma decl_int_runs S s m o p : wf_senv S -> rep S s m -> oscoped w (length (ioffs S)) o ->
  need_int S o true <= FP m - lo -> top S + w <= FP m - lo -> plc (decl_int S o) p ->
  exists m', runs (mk p m) [] (mk (p + size (decl_int S o)) m') /\
             rep (push_int S) (mkstore (si s ++ [ieval w s o]) (sb s)) m' /\ agree w R lo (FP m - top S) m m'.
Proof.
  intros Wf Rp Sc Hn Ht P.
  destruct (rep_opd_hyps S s m o true Wf Rp Sc Hn) as [HwE [L [Ro [Oe T]]]].
  destruct (sval_ieval S s m o Wf Rp Sc) as [Sv Rv].
  pose proof (wfs_w w fb S Wf) as Ews. pose proof (wfs_fb w fb S Wf) as Ofb.
  set (E := env_of S) in *. set (tp := top S) in *.
  assert (Hlo : 0 <= lo) by (destruct L; lia).
  assert (Ho : 0 < tp + w <= W / 2) by (destruct Rp; unfold tp in *; lia).
  assert (Final : forall m1, agree w R lo (FP m - tp) m m1 -> forall v q, oval m1 (rs v) = Some (wval w R E m o) ->
            code q = Some (IStoreO WWord (St fp) (Imm (- (tp + w))) (rs v)) ->
            exists m', runs (mk q m1) [] (mk (q + 1) m') /\
                       rep (push_int S) (mkstore (si s ++ [ieval w s o]) (sb s)) m' /\ agree w R lo (FP m - tp) m m').
  { intros m1 A1 v q Ov Cq.
    pose proof (regs_ok_agree w R lo Hw _ m m1 L A1) as L1. pose proof (FP_agree w R lo Hw _ m m1 L A1) as F1.
    assert (I1 : inb m1 (FP m1 - (tp + w)) w = true).
    { rewrite F1, (agree_inb w R lo _ m m1 _ _ A1). apply inb_true; destruct Rp; unfold tp in *; lia. }
    pose proof (store_word_runs q m1 (rs v) _ (tp + w) Cq Ov L1 Ho I1) as Rn.
    exists (sw m1 (FP m1 - (tp + w)) (wval w R E m o)). split; [exact Rn|].
    assert (A2 : agree w R lo (FP m - tp) m (sw m1 (FP m1 - (tp + w)) (wval w R E m o))).
    { eapply (agree_trans w R lo); [exact A1|]. apply (agree_sw w R lo Hw); rewrite F1; [lia | right; right; lia]. }
    split; [|exact A2]. apply (rep_push_int S s m); try assumption.
    rewrite F1. rewrite (lw_sw_same w Hw1) by lia. rewrite (wrap_small w _ Rv). exact Sv. }
  destruct (eval_opd_props w R E lo Hw HwE code cmem lab o tp R1 true m (or_intror eq_refl) L Ro Oe T) as [A [V Cd]].
  unfold decl_int in *. fold E tp in P |- *.
  destruct (eval_opd E tp R1 o true) as [c0 bub] eqn:Ev.
  assert (Eb : bub = bub_of E tp R1 o true) by (pose proof (eval_opd_bub E o tp R1 true) as Q; rewrite Ev in Q; exact Q).
  destruct (is_safe o) eqn:Sf.
  - (* a literal or a local: fetched, then pushed *)
    rewrite (eval_mem_safe w R E tp R1 o true m Sf) in *.
    assert (Ec : c0 = []) by (destruct o; try discriminate Sf; cbn [eval_opd] in Ev; inversion Ev; reflexivity).
    assert (Bok : bub_ok w R lo (FP m - tp) m bub).
    { pose proof (bub_of_ok w R E lo Hw HwE tp R1 o true m (or_intror eq_refl) L Ro Oe) as Bk. rewrite top_after_bub in Bk.
      unfold pushed in Bk. rewrite Sf in Bk. cbn [negb andb] in Bk. change (Z.of_nat 0) with 0 in Bk.
      replace (tp + 0 * wsize E) with tp in Bk by lia. rewrite Eb. apply Bk. destruct Ro; lia. }
    destruct (pop_props w R lo Hw code cmem lab R1 bub _ m (or_intror eq_refl) L Bok) as [A2 [S2 C2]].
    assert (Nb : match bub with BuPushed _ => False | _ => True end) by (rewrite Eb; destruct o; try discriminate Sf; exact I).
    destruct (pop_value R1 bub) as [c1 v] eqn:Pv.
    assert (Ecode : (match bub with BuPushed _ => c0 | _ => c0 ++ c1 ++ [AInstr (ASwso (SReg RFp) (SLit (- (tp + ws S))) v)] end)
                    = c1 ++ [AInstr (ASwso (SReg RFp) (SLit (- (tp + ws S))) v)]) by (subst c0; destruct bub; try destruct Nb; reflexivity).
    rewrite Ecode in *. apply placed_app in P. destruct P as [P1 P2]. cbn [plc res_ins res_sym regaddr] in P2. destruct P2 as [Cq _].
    rewrite Ews in Cq.
    assert (Ov : oval (pop_mem w R R1 bub m) (rs v) = Some (wval w R E m o)).
    { assert (S2' : symval w R (pop_mem w R R1 bub m) (sym_of R1 bub) = Some (wval w R E m o)) by (rewrite S2, Eb; f_equal; exact V).
      unfold sym_of in S2'. rewrite Pv in S2'. apply (symval_oval w R cmem lab _ _ _ S2'). }
    assert (Hlh : lo <= FP m - tp) by (destruct Ro; lia).
    destruct (Final (pop_mem w R R1 bub m) (agree_mono w R lo lo (FP m - tp) _ _ Hlh A2) v _ Ov Cq) as [m' [Rn [Rp' A']]].
    exists m'. split; [|split; [exact Rp' | exact A']].
    rewrite size_app. cbn [size]. change (@nil event) with (@nil event ++ []).
    eapply runs_trans; [apply (C2 c1 v p eq_refl P1)|].
    replace (p + (size c1 + (1 + 0))) with (p + size c1 + 1) by lia. exact Rn.
  - (* a computed value: eval_expr has pushed it *)
    assert (Ebp : bub = BuPushed (tp + w)) by (rewrite Eb; destruct o; try discriminate Sf; cbn [bub_of]; rewrite HwE; reflexivity).
    rewrite Ebp in *. set (m1 := eval_mem w R E tp R1 o true m) in *.
    exists m1. split; [apply (Cd c0 _ p eq_refl P)|]. split; [|exact A].
    apply (rep_push_int S s m); try assumption.
    assert (Ebv : bub_val w R m1 (bub_of E tp R1 o true) = lw m1 (FP m - (tp + w))).
    { destruct o; try discriminate Sf; cbn [bub_of bub_val]; rewrite HwE, (FP_agree w R lo Hw _ m m1 L A); reflexivity. }
    fold tp. rewrite <- Ebv, V. exact Sv.
Qed.

(* xi = o; *)
Lemma assign_int_runs S s m i o p : wf_senv S -> rep S s m -> (i < length (ioffs S))%nat ->
  oscoped w (length (ioffs S)) o -> need_int S o false <= FP m - lo -> plc (assign_int S i o) p ->
  exists m', runs (mk p m) [] (mk (p + size (assign_int S i o)) m') /\
             rep S (mkstore (upd i (ieval w s o) (si s)) (sb s)) m' /\ fagree m m'.
Proof.
  intros Wf Rp Hi Sc Hn P. unfold assign_int in *.
  destruct (eval_opd (env_of S) (top S) R1 o false) as [c0 bub] eqn:Ev.
  destruct (pop_value R1 bub) as [c1 v] eqn:Pv.
  assert (Eq : c0 ++ c1 ++ [AInstr (ASwso (SReg RFp) (SLit (- nth i (ioffs S) 0)) v)]
               = (c0 ++ c1) ++ [AInstr (ASwso (SReg RFp) (SLit (- nth i (ioffs S) 0)) v)]) by (now rewrite <- app_assoc).
  rewrite Eq in *. clear Eq. apply placed_app in P. destruct P as [P1 P2].
  cbn [plc res_ins res_sym regaddr] in P2. destruct P2 as [Cq _].
  destruct (get_value_runs S s m R1 o c0 bub c1 v p (or_intror eq_refl) Wf Rp Sc Hn Ev Pv P1) as [m2 [Rn [A [Ov _]]]].
  destruct (sval_ieval S s m o Wf Rp Sc) as [Sv Rv].
  pose proof (rep_agree w R lo fb Hw S s m m2 Wf Rp A) as Rp2.
  pose proof (rp_regs w R lo S s m Rp) as L. pose proof (FP_agree w R lo Hw _ m m2 L A) as F2.
  destruct (rep_slot_i w R lo fb Hw S s m2 i (FP m2 - top S) Wf Rp2 Hi ltac:(lia)) as [O1 [O2 [O3 _]]].
  pose proof (store_word_runs _ m2 (rs v) _ _ Cq Ov (rp_regs w R lo S s m2 Rp2) O1 O3) as Rs.
  destruct (rep_set_int S s m2 i _ Wf Rp2 Hi Rv) as [Rp3 Fa]. rewrite Sv in Rp3.
  eexists. split; [|split; [exact Rp3|]].
  - rewrite size_app. cbn [size]. change (@nil event) with (@nil event ++ []).
    eapply runs_trans; [exact Rn|]. replace (p + (size (c0 ++ c1) + (1 + 0))) with (p + size (c0 ++ c1) + 1) by lia. exact Rs.
  - apply (fagree_trans w R lo fb Hw m m2); [exact L | apply (agree_fagree w R lo fb S s m m2 Wf Rp A) | exact Fa].
Qed.

(* write(b) *)
Lemma yield_runs p m v x : code p = Some (IYield v) -> oval m v = Some x ->
  runs (mk p m) [EOut (x mod 256)] (mk (p + 1) m).
Proof. intros C A. apply (runs_next act _ _ (Some (EOut (x mod 256)))). apply (act_yield p m v x); assumption. Qed.
Lemma write_runs S s m x p : wf_senv S -> rep S s m ->
  match x with WrByte o => oscoped w (length (ioffs S)) o /\ need_int S o false <= FP m - lo | _ => True end ->
  plc (lower_write S x) p ->
  exists m', runs (mk p m) [EOut (wbyte w s x)] (mk (p + size (lower_write S x)) m') /\ rep S s m' /\ fagree m m'.
Proof.
  intros Wf Rp Hx P. pose proof (rp_regs w R lo S s m Rp) as L. pose proof (wfs_fb w fb S Wf) as Ofb.
  destruct x as [z|c|o]; cbn [lower_write wbyte] in *.
  - cbn [plc res_ins res_sym] in P. destruct P as [C _]. exists m. cbn [size]. replace (p + (1 + 0)) with (p + 1) by lia.
    split; [|split; [exact Rp | apply fagree_refl]].
    rewrite <- (wrap_mod256 z). apply (yield_runs p m (Imm z)); [exact C | apply oval_imm].
  - cbn [plc res_ins res_sym] in P. destruct P as [C _]. exists m. cbn [size]. replace (p + (1 + 0)) with (p + 1) by lia.
    split; [|split; [exact Rp | apply fagree_refl]].
    rewrite <- (wrap_mod256 c). apply (yield_runs p m (Imm c)); [exact C | apply oval_imm].
  - destruct Hx as [Sc Hn].
    destruct (rep_opd_hyps S s m o false Wf Rp Sc Hn) as [HwE [_ [Ro [Oe T]]]].
    destruct (sval_ieval S s m o Wf Rp Sc) as [Sv Rv].
    set (E := env_of S) in *. set (tp := top S) in *.
    destruct (eval_opd_props w R E lo Hw HwE code cmem lab o tp R1 false m (or_intror eq_refl) L Ro Oe T) as [A [V Cd]].
    destruct (eval_opd E tp R1 o false) as [c0 bub] eqn:Ev.
    assert (Eb : bub = bub_of E tp R1 o false) by (pose proof (eval_opd_bub E o tp R1 false) as Q; rewrite Ev in Q; exact Q).
    set (m1 := eval_mem w R E tp R1 o false m) in *.
    pose proof (regs_ok_agree w R lo Hw _ m m1 L A) as L1. pose proof (FP_agree w R lo Hw _ m m1 L A) as F1.
    apply placed_app in P. destruct P as [P0 P1].
    pose proof (Cd c0 bub p eq_refl P0) as R0'.
    assert (Ev256 : ieval w s o mod 256 = wval w R E m o mod 256) by (rewrite <- Sv; apply sgn_mod256; exact Rv).
    rewrite Ev256.
    assert (Tail : forall q mq, agree w R lo (FP m - tp) m mq -> oval mq (St r1) = Some (wval w R E m o mod 256) ->
              code q = Some (IYield (St r1)) ->
              runs (mk q mq) [EOut (wval w R E m o mod 256)] (mk (q + 1) mq)).
    { intros q mq Aq Oq Cq. pose proof (yield_runs q mq (St r1) _ Cq Oq) as Y. rewrite Z.mod_mod in Y by lia. exact Y. }
    rewrite Eb in *. destruct o as [z|i|op x y|u x]; cbn [bub_of] in *.
    + (* a literal: masked at compile time *)
      cbn [plc res_ins res_sym] in P1. destruct P1 as [C _]. exists m1.
      rewrite size_app. cbn [size]. split; [|split; [apply (rep_agree w R lo fb Hw S s m m1 Wf Rp A) | apply (agree_fagree w R lo fb S s m m1 Wf Rp A)]].
      change [EOut (wval w R E m (OLit z) mod 256)] with ([] ++ [EOut (wval w R E m (OLit z) mod 256)]).
      eapply runs_trans; [exact R0'|]. replace (p + (size c0 + (1 + 0))) with (p + size c0 + 1) by lia.
      cbn [wval]. rewrite wrap_mod256. rewrite <- (Z.mod_mod z 256) by lia. rewrite <- (wrap_mod256 (z mod 256)).
      apply (yield_runs _ m1 (Imm (z mod 256))); [exact C | apply oval_imm].
    + (* a local: lbso *)
      cbn [plc res_ins res_sym regaddr] in P1. destruct P1 as [Cl [Cy _]].
      cbn [oscoped] in Sc. cbn [env_of int_off] in *.
      pose proof (rep_agree w R lo fb Hw S s m m1 Wf Rp A) as Rp1.
      destruct (rep_slot_i w R lo fb Hw S s m1 i (FP m1 - top S) Wf Rp1 Sc ltac:(lia)) as [O1 [O2 [O3 _]]].
      assert (I1 : inb m1 (FP m1 - nth i (ioffs S) 0) 1 = true).
      { unfold inb in *. apply andb_true_iff in O3. destruct O3 as [X1 X2]. apply Z.leb_le in X1, X2. apply andb_true_iff. split; apply Z.leb_le; lia. }
      pose proof (act_lbso w code cmem _ m1 r1 (St fp) (Imm (- nth i (ioffs S) 0)) (FP m1) (wrap (- nth i (ioffs S) 0)) Cl
                    (oval_st w cmem m1 fp (lo_if w R lo m1 L1)) (oval_imm w cmem m1 _)) as Al.
      rewrite (frame_addr w R lo Hw m1 _ L1 O1) in Al. specialize (Al I1 (lo_i1 w R lo m1 L1)).
      set (m2 := sw m1 r1 (lb m1 (FP m1 - nth i (ioffs S) 0))) in *.
      assert (A2 : agree w R lo (FP m - tp) m m2).
      { eapply (agree_trans w R lo); [exact A|]. apply (agree_sw w R lo Hw); [apply (lo_r1 w R lo m1 L1) | auto]. }
      exists m2. rewrite size_app. cbn [size].
      split; [|split; [apply (rep_agree w R lo fb Hw S s m m2 Wf Rp A2) | apply (agree_fagree w R lo fb S s m m2 Wf Rp A2)]].
      change [EOut (wval w R E m (OVar i) mod 256)] with ([] ++ ([] ++ [EOut (wval w R E m (OVar i) mod 256)])).
      eapply runs_trans; [exact R0'|]. eapply runs_trans; [apply (runs_next act _ _ None Al)|].
      replace (p + (size c0 + (1 + (1 + 0)))) with (p + size c0 + 1 + 1) by lia.
      apply (Tail _ m2 A2); [|exact Cy].
      unfold m2. rewrite (oval_st_sw_same w Hw cmem m1 _ _ (lo_r1 w R lo m1 L1) (lo_i1 w R lo m1 L1)). f_equal.
      rewrite (lb_lw m1 _ (lo_wf w R lo m1 L1)). cbn [wval env_of int_off]. fold E.
      rewrite F1. rewrite (agree_lw w R lo Hw (FP m - tp) m m1 _ A); [| rewrite <- F1; exact O2 |].
      * apply (wrap_small w). unfold inrange. pose proof (W_ge w Hw1). pose proof (Z.mod_pos_bound (lw m (FP m - nth i (ioffs S) 0)) 256 ltac:(lia)). lia.
      * destruct (rep_slot_i w R lo fb Hw S s m i (FP m - top S) Wf Rp Sc ltac:(lia)) as [_ [_ [_ D]]]. exact D.
    + (* a computed value in r1: lbs [r1], r1 *)
      cbn [plc res_ins res_sym regaddr] in P1. destruct P1 as [Cl [Cy _]]. cbn [bub_val regaddr] in V.
      assert (Sr1 : wrap r1 = r1).
      { apply (wrap_small w). unfold inrange. destruct L1. pose proof (W_even w Hw1). destruct Rp. lia. }
      assert (I1 : inb m1 r1 1 = true).
      { pose proof (lo_i1 w R lo m1 L1) as X. unfold inb in *. apply andb_true_iff in X. destruct X as [X1 X2]. apply Z.leb_le in X1, X2. apply andb_true_iff. split; apply Z.leb_le; lia. }
      pose proof (act_lbs _ m1 r1 (Imm r1) r1 Cl ltac:(rewrite oval_imm, Sr1; reflexivity) I1 (lo_i1 w R lo m1 L1)) as Al.
      set (m2 := sw m1 r1 (lb m1 r1)) in *.
      assert (A2 : agree w R lo (FP m - tp) m m2).
      { eapply (agree_trans w R lo); [exact A|]. apply (agree_sw w R lo Hw); [apply (lo_r1 w R lo m1 L1) | auto]. }
      exists m2. rewrite size_app. cbn [size].
      split; [|split; [apply (rep_agree w R lo fb Hw S s m m2 Wf Rp A2) | apply (agree_fagree w R lo fb S s m m2 Wf Rp A2)]].
      change [EOut (wval w R E m (OArith op x y) mod 256)] with ([] ++ ([] ++ [EOut (wval w R E m (OArith op x y) mod 256)])).
      eapply runs_trans; [exact R0'|]. eapply runs_trans; [apply (runs_next act _ _ None Al)|].
      replace (p + (size c0 + (1 + (1 + 0)))) with (p + size c0 + 1 + 1) by lia.
      apply (Tail _ m2 A2); [|exact Cy].
      unfold m2. rewrite (oval_st_sw_same w Hw cmem m1 _ _ (lo_r1 w R lo m1 L1) (lo_i1 w R lo m1 L1)). f_equal.
      rewrite (lb_lw m1 _ (lo_wf w R lo m1 L1)), V.
      apply (wrap_small w). unfold inrange. pose proof (W_ge w Hw1). pose proof (Z.mod_pos_bound (wval w R E m (OArith op x y)) 256 ltac:(lia)). lia.
    + cbn [plc res_ins res_sym regaddr] in P1. destruct P1 as [Cl [Cy _]]. cbn [bub_val regaddr] in V.
      assert (Sr1 : wrap r1 = r1).
      { apply (wrap_small w). unfold inrange. destruct L1. pose proof (W_even w Hw1). destruct Rp. lia. }
      assert (I1 : inb m1 r1 1 = true).
      { pose proof (lo_i1 w R lo m1 L1) as X. unfold inb in *. apply andb_true_iff in X. destruct X as [X1 X2]. apply Z.leb_le in X1, X2. apply andb_true_iff. split; apply Z.leb_le; lia. }
      pose proof (act_lbs _ m1 r1 (Imm r1) r1 Cl ltac:(rewrite oval_imm, Sr1; reflexivity) I1 (lo_i1 w R lo m1 L1)) as Al.
      set (m2 := sw m1 r1 (lb m1 r1)) in *.
      assert (A2 : agree w R lo (FP m - tp) m m2).
      { eapply (agree_trans w R lo); [exact A|]. apply (agree_sw w R lo Hw); [apply (lo_r1 w R lo m1 L1) | auto]. }
      exists m2. rewrite size_app. cbn [size].
      split; [|split; [apply (rep_agree w R lo fb Hw S s m m2 Wf Rp A2) | apply (agree_fagree w R lo fb S s m m2 Wf Rp A2)]].
      change [EOut (wval w R E m (OUn u x) mod 256)] with ([] ++ ([] ++ [EOut (wval w R E m (OUn u x) mod 256)])).
      eapply runs_trans; [exact R0'|]. eapply runs_trans; [apply (runs_next act _ _ None Al)|].
      replace (p + (size c0 + (1 + (1 + 0)))) with (p + size c0 + 1 + 1) by lia.
      apply (Tail _ m2 A2); [|exact Cy].
      unfold m2. rewrite (oval_st_sw_same w Hw cmem m1 _ _ (lo_r1 w R lo m1 L1) (lo_i1 w R lo m1 L1)). f_equal.
      rewrite (lb_lw m1 _ (lo_wf w R lo m1 L1)), V.
      apply (wrap_small w). unfold inrange. pose proof (W_ge w Hw1). pose proof (Z.mod_pos_bound (wval w R E m (OUn u x)) 256 ltac:(lia)). lia.
Qed.

(* ---------- bool locals ---------- *)
Lemma agree_sb hi m a v : 0 <= a -> lo <= a -> a + 1 <= hi -> agree w R lo hi m (Machine.sb m a v).
Proof.
  intros Ha Hl Hh. unfold agree, Machine.sb. split; [reflexivity|]. split.
  - intros Wfm. apply wf_setb; [exact Wfm | exact Ha | apply Z.mod_pos_bound; lia].
  - intros x X N0 N1 N2 N3. apply getb_setb_other; [exact Ha | exact X | lia].
Qed.
(* value = get_expr_value(r1, e); sbso [fp], -off, value *)
Lemma bool_store_runs S s m off e st c st' p : wf_senv S -> rep S s m ->
  bscoped w (length (ioffs S)) (length (boffs S)) e -> top S + Z.of_nat (temps_b e) * w <= FP m - lo ->
  assign_bool (env_of S) off e st = (c, st') -> plc c p -> 0 < off <= W / 2 -> inb m (FP m - off) 1 = true ->
  exists m1, agree w R lo (FP m - top S) m m1 /\
             runs (mk p m) [] (mk (p + size c) (Machine.sb m1 (FP m - off) (b2z (bevals w s e)))).
Proof.
  intros Wf Rp Sc Hn Ev P Ho I. unfold assign_bool in Ev.
  destruct (eval_bool_value (env_of S) R1 e st) as [[c0 v] st0] eqn:E0. inversion Ev; subst c st'; clear Ev.
  apply placed_app in P. destruct P as [P0 P1]. cbn [plc res_ins res_sym regaddr] in P1. destruct P1 as [Cq _].
  pose proof (rep_layout w R lo fb S s m Wf Rp) as Lo.
  pose proof (rep_vars w R lo fb Hw S s m e (top S) Wf Rp Sc ltac:(lia) Hn) as V.
  pose proof (rep_norm w R lo fb S s m e Wf Rp Sc) as N.
  destruct (bool_value_runs w R (env_of S) lo Hw (wfs_w w fb S Wf) code cmem lab lab_range e st c0 v st0 p m E0 P0 Lo V N)
    as [m1 [R1' [A1 O1]]].
  rewrite (rep_beval w R lo fb S s m e Wf Rp Sc) in O1.
  pose proof (rp_regs w R lo S s m Rp) as L.
  pose proof (regs_ok_agree w R lo Hw _ m m1 L A1) as L1. pose proof (FP_agree w R lo Hw _ m m1 L A1) as F1.
  assert (I1 : inb m1 (FP m1 - off) 1 = true) by (rewrite F1, (agree_inb w R lo _ m m1 _ _ A1); exact I).
  pose proof (store_byte_runs _ m1 (rs v) _ off Cq O1 L1 Ho I1) as Rs. rewrite F1 in Rs.
  exists m1. split; [exact A1|]. rewrite size_app. cbn [size]. change (@nil event) with (@nil event ++ []).
  eapply runs_trans; [exact R1'|]. replace (p + (size c0 + (1 + 0))) with (p + size c0 + 1) by lia. exact Rs.
Qed.
Lemma b2z_01 b : b2z b = 0 \/ b2z b = 1.
Proof. destruct b; cbn; auto. Qed.

(* pj = e; *)
Lemma assign_bool_runs S s m j e st c st' p : wf_senv S -> rep S s m -> (j < length (boffs S))%nat ->
  bscoped w (length (ioffs S)) (length (boffs S)) e -> top S + Z.of_nat (temps_b e) * w <= FP m - lo ->
  assign_bool (env_of S) (nth j (boffs S) 0) e st = (c, st') -> plc c p ->
  exists m', runs (mk p m) [] (mk (p + size c) m') /\
             rep S (mkstore (si s) (upd j (b2z (bevals w s e)) (sb s))) m' /\ fagree m m'.
Proof.
  intros Wf Rp Hj Sc Hn Ev P.
  destruct (rep_slot_b w R lo fb Hw S s m j (FP m - top S) Wf Rp Hj ltac:(lia)) as [O1 [O2 [O3 _]]].
  destruct (bool_store_runs S s m _ e st c st' p Wf Rp Sc Hn Ev P O1 O3) as [m1 [A1 Rn]].
  pose proof (rep_agree w R lo fb Hw S s m m1 Wf Rp A1) as Rp1.
  pose proof (rp_regs w R lo S s m Rp) as L. pose proof (FP_agree w R lo Hw _ m m1 L A1) as F1.
  destruct (rep_set_bool S s m1 j _ Wf Rp1 Hj (b2z_01 (bevals w s e))) as [Rp2 Fa]. rewrite F1 in Rp2, Fa.
  eexists. split; [exact Rn|]. split; [exact Rp2|].
  apply (fagree_trans w R lo fb Hw m m1); [exact L | apply (agree_fagree w R lo fb S s m m1 Wf Rp A1) | exact Fa].
Qed.

(* bool p = e; *)
Lemma declare_bool_runs S s m e st c st' p : wf_senv S -> rep S s m ->
  bscoped w (length (ioffs S)) (length (boffs S)) e -> fst (need_bool_decl S e) <= FP m - lo ->
  declare_bool (env_of S) e st = (c, st') -> plc c p ->
  exists m', runs (mk p m) [] (mk (p + size c) m') /\
             rep (push_bool S) (mkstore (si s) (sb s ++ [b2z (bevals w s e)])) m' /\ agree w R lo (FP m - top S) m m'.
Proof.
  intros Wf Rp Sc Hn Ev P. pose proof (rp_regs w R lo S s m Rp) as L.
  pose proof (wfs_w w fb S Wf) as Ews. pose proof (wfs_fb w fb S Wf) as Ofb.
  assert (Hlo : 0 <= lo) by (destruct L; lia).
  assert (P0 : 0 <= Z.of_nat (temps_b e) * w) by (apply Z.mul_nonneg_nonneg; lia).
  set (off := top S + 1).
  (* both shapes end by storing the value in the new byte, inside the area below the old stack top *)
  assert (Fin : forall m1, agree w R lo (FP m - top S) m m1 -> top S + 1 <= FP m - lo ->
            let m' := Machine.sb m1 (FP m - off) (b2z (bevals w s e)) in
            rep (push_bool S) (mkstore (si s) (sb s ++ [b2z (bevals w s e)])) m' /\ agree w R lo (FP m - top S) m m').
  { intros m1 A1 Ht m'.
    assert (A2 : agree w R lo (FP m - top S) m m').
    { eapply (agree_trans w R lo); [exact A1|]. apply agree_sb; unfold off; destruct Rp; lia. }
    split; [|exact A2].
    apply (rep_push_bool S s m m'); try assumption; [|apply b2z_01].
    fold off. unfold m'. rewrite lb_sb_same. destruct (bevals w s e); reflexivity. }
  assert (Ho : top S + 1 <= FP m - lo -> 0 < off <= W / 2 /\ inb m (FP m - off) 1 = true).
  { intros Ht. unfold off. split; [destruct Rp; lia|]. apply inb_true; destruct Rp; lia. }
  unfold need_bool_decl in Hn. cbn [fst] in Hn. rewrite Ews in Hn.
  assert (Keep : (exists C0, value_lowering_keep (env_of S) e st = (C0, st') /\ c = C0) ->
            top S + 1 + Z.of_nat (temps_b e) * w <= FP m - lo ->
            exists m', runs (mk p m) [] (mk (p + size c) m') /\
                       rep (push_bool S) (mkstore (si s) (sb s ++ [b2z (bevals w s e)])) m' /\ agree w R lo (FP m - top S) m m').
  { intros [C0 [Ek ->]] Hk. unfold value_lowering_keep in Ek. cbn [env_of stack_top] in Ek. fold off in Ek.
    set (E' := with_top (env_of S) off) in *.
    assert (HwE' : wsize E' = w) by exact Ews.
    assert (Lo' : layout_ok w R E' lo m).
    { split; [exact L|]. apply (rep_room w R lo fb S s m off Wf Rp); unfold off; lia. }
    pose proof (rep_vars w R lo fb Hw S s m e off Wf Rp Sc ltac:(unfold off; lia) ltac:(unfold off; lia)) as V'.
    pose proof (run_mem_agree w R E' lo Hw HwE' code cmem lab e m Lo' V') as A1.
    set (m1 := run_mem w R E' e m) in *.
    assert (A1' : agree w R lo (FP m - top S) m m1).
    { apply (agree_mono w R lo (HI w R E' m)); [unfold HI, E', off; cbn [with_top stack_top]; lia | exact A1]. }
    destruct (Fin m1 A1' ltac:(lia)) as [Rp' Fa]. destruct (Ho ltac:(lia)) as [Ho1 Ho2].
    pose proof (regs_ok_agree w R lo Hw _ m m1 L A1') as L1. pose proof (FP_agree w R lo Hw _ m m1 L A1') as F1.
    assert (I1 : inb m1 (FP m - off) 1 = true) by (rewrite (agree_inb w R lo _ m m1 _ _ A1'); exact Ho2).
    assert (Ad : sgn (FP m1) + sgn (wrap (- off)) = FP m - off) by (rewrite (frame_addr w R lo Hw m1 off L1 Ho1); now rewrite F1).
    assert (W1 : wrap 1 = 1) by (apply (wrap_small w); pose proof (W_ge w Hw1); unfold inrange; lia).
    assert (W0 : wrap 0 = 0) by (apply (wrap_small w); pose proof (W_ge w Hw1); unfold inrange; lia).
    eexists. split; [|split; [exact Rp' | exact Fa]].
    pose proof (lower_runs w R E' lo Hw HwE' code cmem lab lab_range e
                  [ASbso (SReg RFp) (SLit (- off)) (SLit 1)] None [ASbso (SReg RFp) (SLit (- off)) (SLit 0)] None
                  st C0 st' p m Ek eq_refl eq_refl P Lo' V') as Rn.
    replace (kexit lab (if beval w R E' m e then None else None) (p + size C0)) with (p + size C0) in Rn
      by (destruct (beval w R E' m e); reflexivity).
    apply Rn. fold m1.
    assert (Ebv : beval w R E' m e = bevals w s e) by (unfold E'; rewrite (beval_top w R (env_of S) off m e); apply (rep_beval w R lo fb S s m e Wf Rp Sc)).
    rewrite Ebv.
    destruct (bevals w s e); cbn [run_simple b2z]; unfold step_simple; cbn [res_ins res_sym regaddr Machine.exec val mm];
      rewrite (lo_if w R lo m1 L1); change (lw m1 (a_fp R)) with (FP m1);
      rewrite Ad; unfold Machine.store; cbn [mm]; rewrite I1; unfold nxtm; cbn [mm pc]; rewrite ?W1, ?W0; reflexivity. }
  assert (Other : (assign_bool (env_of S) off e st = (c, st')) ->
            Z.max (top S + Z.of_nat (temps_b e) * w) (top S + 1) <= FP m - lo ->
            exists m', runs (mk p m) [] (mk (p + size c) m') /\
                       rep (push_bool S) (mkstore (si s) (sb s ++ [b2z (bevals w s e)])) m' /\ agree w R lo (FP m - top S) m m').
  { intros Ea Hk. destruct (Ho ltac:(lia)) as [Ho1 Ho2].
    destruct (bool_store_runs S s m off e st c st' p Wf Rp Sc ltac:(lia) Ea P Ho1 Ho2) as [m1 [A1 Rn]].
    destruct (Fin m1 A1 ltac:(lia)) as [Rp' Fa]. eexists. split; [exact Rn|]. split; assumption. }
  unfold zmax in Hn.
  destruct e as [b|j|op a b|e1|e1 e2|e1 e2]; cbn [declare_bool env_of stack_top] in Ev; fold off in Ev;
    first [apply Other; [exact Ev | exact Hn] | apply Keep; [eexists; split; [exact Ev | reflexivity] | exact Hn]].
Qed.

Ltac szn := repeat progress (rewrite ?size_app; cbn [size goto]).
Ltac szn_in H := repeat progress (rewrite ?size_app in H; cbn [size goto] in H).
(* close a goal `runs (mk a m) l (mk b m')` with G : runs (mk a' m) l (mk b' m'), a = a', b = b' by lia *)
Ltac close_with G :=
  szn; szn_in G;
  match goal with |- HidV.Sphinx.Halts.runs _ (mk ?a _) _ _ =>
    match type of G with HidV.Sphinx.Halts.runs _ (mk ?b _) _ _ => replace a with b by lia end end;
  match goal with |- HidV.Sphinx.Halts.runs _ _ _ (mk ?a _) =>
    match type of G with HidV.Sphinx.Halts.runs _ _ _ (mk ?b _) => replace a with b by lia end end;
  exact G.
(* ---------- calls of the runtime library: write(int), write(bool) ---------- *)
Lemma storen_loadn_getb n : forall m m' a x, wf_mem m -> 0 <= a -> a <= x < a + Z.of_nat n ->
  getb (storen n m' a (loadn n m a)) x = getb m x.
Proof.
  induction n as [|k IH]; intros m m' a x Wf Ha Hx; [cbn in Hx; lia|].
  cbn [storen loadn]. pose proof (Wf a) as Hb.
  assert (E1 : (getb m a + 256 * loadn k m (a + 1)) mod 256 = getb m a)
    by (rewrite (Z.mul_comm 256), Z.mod_add by lia; apply Z.mod_small; lia).
  assert (E2 : (getb m a + 256 * loadn k m (a + 1)) / 256 = loadn k m (a + 1))
    by (rewrite (Z.mul_comm 256), Z.div_add by lia; rewrite Z.div_small by lia; lia).
  rewrite E1, E2. destruct (Z.eq_dec x a) as [->|Ne].
  - rewrite storen_outside by lia. apply getb_setb_same.
  - apply IH; [exact Wf | lia | lia].
Qed.
Lemma sw_same_word_bytes m m' a x : wf_mem m -> 0 <= a -> a <= x < a + w ->
  getb (sw m' a (lw m a)) x = getb m x.
Proof.
  intros Wf Ha Hx. unfold Machine.sw, Machine.lw. rewrite (wrap_small w) by (apply (lw_range w Hw1); exact Wf).
  apply storen_loadn_getb; [exact Wf | exact Ha | rewrite (wn_w w Hw1); exact Hx].
Qed.
Lemma wf_after_ra S : wf_senv S -> wf_senv (after_ra S).
Proof.
  intros Wf. destruct Wf as [Ww Wfb Wi Wb Wii Wbb Wib]. constructor; cbn [after_ra ws top ioffs boffs]; try assumption; try lia.
  - intros i Hi. specialize (Wi i Hi). lia.
  - intros j Hj. specialize (Wb j Hj). lia.
Qed.
Lemma rep_after_ra S s m m' : wf_senv S -> rep S s m -> agree w R lo (FP m - top S) m m' ->
  top S + w <= FP m - lo -> rep (after_ra S) s m'.
Proof.
  intros Wf Rp A Hr. pose proof (rep_agree w R lo fb Hw S s m m' Wf Rp A) as Rp'.
  pose proof (FP_agree w R lo Hw _ m m' (rp_regs w R lo S s m Rp) A) as EF. pose proof (wfs_w w fb S Wf) as Ews.
  destruct Rp' as [Rg Rlo Rh Rsz Rli Rlb Ri Rb Rap]. constructor; cbn [after_ra top ioffs boffs]; rewrite ?Ews; try assumption; lia.
Qed.

Lemma lib_call_runs S s m0 mb f ec ln p evs : lib_hyps -> wf_senv S -> rep S s m0 ->
  agree w R lo (FP m0 - top S) m0 mb -> top S + w <= FP m0 - lo ->
  lw mb (FP m0 - top S - w) = lab ec -> plc (call_tail S ec f ln) p ->
  (* the routine's specification at its entry memory *)
  (forall m1, m1 = sw mb fp (FP m0 + wrap (- top S)) ->
     exists m2 blo, runs (mk (a_lib R + std_off f) m1) (map EOut evs) (mk (lw m1 (FP m0 - top S - w)) m2) /\
       msize m2 = msize m1 /\ wf_mem m2 /\ lo <= blo /\
       (forall x, 0 <= x -> (x < 2 * w \/ 5 * w <= x) -> (x < blo \/ FP m0 - top S - w <= x) -> getb m2 x = getb m1 x)) ->
  exists m3, runs (mk p mb) (map EOut (evs ++ (if ln then [10] else []))) (mk (p + size (call_tail S ec f ln)) m3) /\
             agree w R lo (FP m0 - top S) m0 m3.
Proof.
  intros [Hfp [H0 [H1 [H2 [CA [BR Hap]]]]]] Wf Rp A Hr Hra P Callee.
  pose proof (rp_regs w R lo S s m0 Rp) as L0. pose proof (regs_ok_agree w R lo Hw _ m0 mb L0 A) as Lb.
  pose proof (FP_agree w R lo Hw _ m0 mb L0 A) as Fb. pose proof (wfs_fb w fb S Wf) as Ofb.
  set (F := FP m0) in *. set (tp := top S) in *.
  assert (Hlo : 5 * w <= lo) by (destruct L0; lia).
  assert (HF : 0 <= F < W / 2) by apply (lo_F w R lo m0 L0).
  assert (HW : W / 2 < W) by (pose proof (W_even w Hw1); pose proof (half_pos w Hw1); lia).
  assert (Hsz : F <= msize m0) by apply (rp_sz w R lo S s m0 Rp).
  unfold call_tail in P. fold tp in P. apply placed_app in P. destruct P as [P Pln].
  cbn [placed res_ins res_sym regaddr] in P. destruct P as [C0 [C1 [C2 [Lec [C3 _]]]]].
  assert (Efpc : wrap (F + wrap (- tp)) = F - tp) by (apply (wrap_add_neg w); destruct Rp; unfold F, tp in *; lia).
  assert (Ifp : inb mb fp w = true) by apply (lo_if w R lo mb Lb).
  assert (Rfp : inrange w (lw mb fp)) by (apply (lw_range w Hw1); apply (lo_wf w R lo mb Lb)).
  assert (Elf : lw mb fp = F) by exact Fb.
  set (m1 := sw mb fp (F + wrap (- tp))).
  destruct (Callee m1 eq_refl) as [m2 [blo [Rc [Sz2 [Wf2 [Hblo Pres]]]]]].
  assert (Wfb : wf_mem mb) by apply (lo_wf w R lo mb Lb).
  assert (L1fp : lw m1 fp = F - tp) by (unfold m1; rewrite (lw_sw_same w Hw1) by apply (lo_fp w R lo mb Lb); exact Efpc).
  assert (Era : lw m1 (F - tp - w) = p + 3).
  { unfold m1. rewrite (lw_sw_other w Hw1); [rewrite Hra, Lec; lia | apply (lo_fp w R lo mb Lb) | destruct Rp; unfold F, tp in *; lia | destruct L0; destruct Rp; unfold F, tp in *; lia]. }
  assert (L2fp : lw m2 fp = F - tp).
  { rewrite <- L1fp. unfold Machine.lw. apply loadn_ext. intros x Hx. rewrite (wn_w w Hw1) in Hx. apply Pres; rewrite Hfp in *; lia. }
  set (Pp := fun a => 0 <= a /\ (a < 2 * w \/ 5 * w <= a) /\ (a < blo \/ F - tp - w <= a) /\ (a < fp \/ fp + w <= a)).
  assert (Eov : oval m1 (Imm (a_lib R + std_off f)) = Some (a_lib R + std_off f)).
  { rewrite oval_imm. f_equal. apply (wrap_small w). destruct BR as [B0 B1]. unfold inrange.
    destruct f; cbn [std_off]; unfold off_write_int, off_write_bool, off_division_by_zero, off_stack_overflow, stdlib_len in *; lia. }
  pose proof (call_idiom w Hw code cmem p mb fp (- tp) tp (Imm (a_lib R + std_off f)) (a_lib R + std_off f) (map EOut evs) m2 Pp
                C0 C1 ltac:(replace (p + 2) with (p + 1 + 1) by lia; exact C2)
                ltac:(replace (p + 3) with (p + 1 + 1 + 1) by lia; exact C3) eq_refl (lo_fp w R lo mb Lb) Ifp Rfp) as CI.
  cbv zeta in CI. rewrite Elf, Efpc in CI. fold m1 in CI. rewrite Era in CI.
  assert (Rc' : runs (mk (a_lib R + std_off f) m1) (map EOut evs) (mk (p + 3) m2)) by (rewrite <- Era; exact Rc).
  destruct (CI Eov eq_refl Rc' Sz2 L2fp) as [Rcall [Lf3 [HP3 F3]]].
  { intros a [Pa [Pb [Pc _]]]. apply Pres; assumption. }
  { intros a [Pa [_ [_ Pd]]]. split; assumption. }
  clear CI.
  set (m3 := sw m2 fp (F - tp + wrap tp)) in *.
    assert (E3 : m3 = sw m2 fp (lw mb fp)).
    { unfold m3. apply sw_wrap_eq. rewrite <- (lw_sw_same w Hw1 m2 fp (F - tp + wrap tp)) by apply (lo_fp w R lo mb Lb).
      fold m3. rewrite Lf3, Elf. symmetry. apply (wrap_small w). rewrite <- Elf. exact Rfp. }
    assert (Ab : agree w R lo (F - tp) mb m3).
    { split; [unfold m3; rewrite msize_sw, Sz2; unfold m1; apply msize_sw|].
      split; [intros _; unfold m3; apply (wf_sw w); [exact Wf2 | apply (lo_fp w R lo mb Lb)]|].
      intros x X N0 N1 N2 N3. rewrite H0, H1, H2 in *.
      destruct (Z_lt_le_dec x fp) as [Lt|Ge]; [|destruct (Z_lt_le_dec x (fp + w)) as [Lt2|Ge2]].
      - rewrite HP3; [reflexivity|]. unfold Pp. rewrite Hfp in *. repeat split; try lia.
      - rewrite E3. apply sw_same_word_bytes; [exact Wfb | apply (lo_fp w R lo mb Lb) | lia].
      - rewrite HP3; [reflexivity|]. unfold Pp. rewrite Hfp in *. repeat split; try lia. }
    assert (A3 : agree w R lo (F - tp) m0 m3) by (eapply (agree_trans w R lo); eauto).
    destruct ln.
    + cbn [placed res_ins res_sym] in Pln. destruct Pln as [Cy _].
      exists m3. split; [|exact A3]. rewrite map_app. cbn [map].
      eapply runs_trans; [exact Rcall|].
      pose proof (yield_runs _ m3 (Imm 10) (wrap 10) Cy (oval_imm w cmem m3 10)) as Y. rewrite wrap_mod256 in Y.
      change (10 mod 256) with 10 in Y. unfold call_tail. fold tp. close_with Y.
    + exists m3. split; [|exact A3]. rewrite app_nil_r. unfold call_tail. fold tp. close_with Rcall.
Qed.

Lemma need_max a b X : zmax a b <= X -> a <= X /\ b <= X.
Proof. unfold zmax. lia. Qed.

(* the return address pushed below the stack top *)
Lemma push_ra_runs S s m ec p : wf_senv S -> rep S s m -> top S + w <= FP m - lo ->
  plc [push_ra S ec] p ->
  let ma := sw m (FP m - (top S + w)) (lab ec) in
  runs (mk p m) [] (mk (p + 1) ma) /\ agree w R lo (FP m - top S) m ma /\
  rep (after_ra S) s ma /\ lw ma (FP m - top S - w) = lab ec.
Proof.
  intros Wf Rp Hr P ma. pose proof (rp_regs w R lo S s m Rp) as L. pose proof (wfs_fb w fb S Wf) as Ofb.
  pose proof (wfs_w w fb S Wf) as Ews. assert (Hlo : 0 <= lo) by (destruct L; lia).
  cbn [placed push_ra res_ins res_sym regaddr] in P. destruct P as [C _]. rewrite Ews in C.
  assert (Ho : 0 < top S + w <= W / 2) by (destruct Rp; lia).
  assert (I : inb m (FP m - (top S + w)) w = true) by (apply inb_true; destruct Rp; lia).
  assert (A : agree w R lo (FP m - top S) m ma) by (apply (agree_sw w R lo Hw); [destruct Rp; lia | right; right; destruct Rp; lia]).
  split; [apply (store_word_runs p m (Imm (lab ec)) (lab ec) (top S + w) C (oval_lab w cmem lab lab_range m ec) L Ho I)|].
  split; [exact A|]. split; [apply (rep_after_ra S s m ma Wf Rp A Hr)|].
  unfold ma. replace (FP m - top S - w) with (FP m - (top S + w)) by lia.
  rewrite (lw_sw_same w Hw1) by (destruct Rp; lia). apply (wrap_small w). apply lab_range.
Qed.

(* write(o) / writeln(o) for an int: the decimal representation, through write_int *)
Lemma writei_runs S s m ln o ec p : lib_hyps -> wf_senv S -> rep S s m -> oscoped w (length (ioffs S)) o ->
  fst (need_stmt S (SWriteI ln o)) <= FP m - lo ->
  plc ([push_ra S ec] ++ decl_int (after_ra S) o ++ call_tail S ec LibWriteInt ln) p ->
  exists m', runs (mk p m) (map EOut (decimal (ieval w s o) ++ (if ln then [10] else [])))
                  (mk (p + size ([push_ra S ec] ++ decl_int (after_ra S) o ++ call_tail S ec LibWriteInt ln)) m') /\
             rep S s m' /\ fagree m m'.
Proof.
  intros Hl Wf Rp Sc Hn P. pose proof Hl as [Hfp [H0 [H1 [H2 [CA [BR Hap]]]]]].
  pose proof (rp_regs w R lo S s m Rp) as L. pose proof (wfs_fb w fb S Wf) as Ofb. pose proof (wfs_w w fb S Wf) as Ews.
  assert (Hlo : 5 * w <= lo) by (destruct L; lia).
  cbn [need_stmt fst] in Hn. rewrite Ews in Hn. apply need_max in Hn. destruct Hn as [Hn Hd]. apply need_max in Hn. destruct Hn as [Hna Hnb].
  set (F := FP m) in *. set (tp := top S) in *.
  apply placed_app in P. destruct P as [Pra P]. apply placed_app in P. destruct P as [Parg Pcall].
  destruct (push_ra_runs S s m ec p Wf Rp ltac:(fold F tp; lia) Pra) as [Ra [Aa [Rpa Era]]]. fold F tp in Ra, Aa, Rpa, Era.
  set (ma := sw m (F - (tp + w)) (lab ec)) in *.
  pose proof (wf_after_ra S Wf) as Wfa. pose proof (FP_agree w R lo Hw _ m ma L Aa) as Fa.
  assert (Sca : oscoped w (length (ioffs (after_ra S))) o) by exact Sc.
  destruct (decl_int_runs (after_ra S) s ma o _ Wfa Rpa Sca ltac:(rewrite Fa; exact Hna) ltac:(rewrite Fa; cbn [after_ra top]; rewrite Ews; fold F tp; lia) Parg)
    as [mb [Rb [Rpb Ab]]].
  rewrite Fa in Ab. cbn [after_ra top] in Ab. rewrite Ews in Ab. fold F tp in Ab.
  assert (Amb : agree w R lo (F - tp) m mb).
  { eapply (agree_trans w R lo); [exact Aa|]. apply (agree_mono w R lo (F - (tp + w))); [lia | exact Ab]. }
  pose proof (regs_ok_agree w R lo Hw _ m mb L Amb) as Lb.
  assert (Erab : lw mb (F - tp - w) = lab ec).
  { rewrite <- Era. apply (agree_lw w R lo Hw (F - (tp + w)) ma mb); [exact Ab | destruct Rp; unfold F, tp in *; lia |].
    unfold dj. destruct L. destruct Rp. unfold F, tp in *. lia. }
  (* the argument *)
  destruct (sval_ieval S s m o Wf Rp Sc) as [Sv Rv].
  assert (Vr : - (W / 2) <= ieval w s o < W / 2) by (rewrite <- Sv; apply (sgn_range w Hw1); exact Rv).
  assert (Earg : sgn (lw mb (F - tp - 2 * w)) = ieval w s o).
  { pose proof (rp_i w R lo _ _ mb Rpb (length (ioffs S))) as X. cbn [push_int after_ra ioffs top ws] in X.
    rewrite app_length in X. cbn [length] in X. specialize (X ltac:(lia)).
    rewrite nth_app_last in X. rewrite <- (rp_li w R lo S s m Rp) in X. cbn [si] in X. rewrite nth_app_last in X.
    rewrite (FP_agree w R lo Hw _ m mb L Amb), Ews in X. fold F tp in X.
    replace (F - tp - 2 * w) with (F - (tp + w + w)) by lia. exact X. }
  destruct (lib_call_runs S s m mb LibWriteInt ec ln _ (decimal (ieval w s o)) Hl Wf Rp Amb ltac:(fold F tp; lia) Erab Pcall)
    as [m3 [R3 A3]].
  { intros m1 Em1. fold F tp in Em1.
    assert (Efpc : wrap (F + wrap (- tp)) = F - tp) by (apply (wrap_add_neg w); destruct L; destruct Rp; unfold F, tp in *; lia).
    assert (Fr : frame_ok w m1 (F - tp) w).
    { unfold frame_ok, reg_fp, stack_start. rewrite <- Hfp. subst m1.
      split; [apply (wf_sw w); [apply (lo_wf w R lo mb Lb) | apply (lo_fp w R lo mb Lb)]|].
      split; [rewrite (lw_sw_same w Hw1) by apply (lo_fp w R lo mb Lb); exact Efpc|].
      rewrite msize_sw. destruct Amb as [Sz _]. rewrite Sz. destruct L. destruct Rp. unfold F, tp in *. lia. }
    assert (Ev1 : sgn (lw m1 (F - tp - 2 * w)) = ieval w s o).
    { subst m1. rewrite (lw_sw_other w Hw1); [exact Earg | apply (lo_fp w R lo mb Lb) | destruct Rp; unfold F, tp in *; lia | destruct L; destruct Rp; unfold F, tp in *; lia]. }
    assert (Nd : ndigits (Z.abs (ieval w s o)) <= max_digits w).
    { unfold max_digits. rewrite <- (W_half w Hw1). apply ndigits_mono; lia. }
    pose proof (ndigits_pos (Z.abs (ieval w s o)) ltac:(lia)) as Np.
    assert (Room : write_int_room w (F - tp) (ieval w s o)) by (unfold write_int_room, write_int_lo, stack_start; lia).
    pose proof (write_int_spec w code cmem (a_lib R) Hw CA BR m1 (F - tp) Fr) as Sp. cbv zeta in Sp.
    replace (F - tp - 2 * w) with (F - tp - 2 * w) in Sp by lia. rewrite Ev1 in Sp.
    destruct (Sp Room) as [m2 [Rn [[Sz Ae] [Wf2 _]]]].
    exists m2, (write_int_lo w (F - tp) (ieval w s o)). split; [exact Rn|]. split; [exact Sz|]. split; [exact Wf2|].
    split; [unfold write_int_lo; lia | exact Ae]. }
  fold F tp in R3, A3.
  exists m3. split; [|split; [apply (rep_agree w R lo fb Hw S s m m3 Wf Rp A3) | apply (agree_fagree w R lo fb S s m m3 Wf Rp A3)]].
  change (map EOut (decimal (ieval w s o) ++ (if ln then [10] else []))) with ([] ++ ([] ++ map EOut (decimal (ieval w s o) ++ (if ln then [10] else [])))).
  eapply runs_trans; [exact Ra|]. eapply runs_trans; [exact Rb|]. close_with R3.
Qed.

(* write(e) / writeln(e) for a bool: "true" / "false", through write_bool *)
Lemma writeb_runs S s m ln e ec st1 c st2 p : lib_hyps -> wf_senv S -> rep S s m ->
  bscoped w (length (ioffs S)) (length (boffs S)) e ->
  fst (need_stmt S (SWriteB ln e)) <= FP m - lo ->
  declare_bool (env_of (after_ra S)) e st1 = (c, st2) ->
  plc ([push_ra S ec] ++ c ++ call_tail S ec LibWriteBool ln) p ->
  exists m', runs (mk p m) (map EOut ((if bevals w s e then str_true else str_false) ++ (if ln then [10] else [])))
                  (mk (p + size ([push_ra S ec] ++ c ++ call_tail S ec LibWriteBool ln)) m') /\
             rep S s m' /\ fagree m m'.
Proof.
  intros Hl Wf Rp Sc Hn Ed P. pose proof Hl as [Hfp [H0 [H1 [H2 [CA [BR Hap]]]]]].
  pose proof (rp_regs w R lo S s m Rp) as L. pose proof (wfs_fb w fb S Wf) as Ofb. pose proof (wfs_w w fb S Wf) as Ews.
  assert (Hlo : 5 * w <= lo) by (destruct L; lia).
  cbn [need_stmt fst] in Hn.
  assert (Hn1 : top S + w + 1 <= FP m - lo).
  { unfold need_bool_decl in Hn. cbn [fst after_ra top ws] in Hn. rewrite Ews in Hn.
    assert (0 <= Z.of_nat (temps_b e) * w) by (apply Z.mul_nonneg_nonneg; lia). unfold zmax in Hn. destruct e; lia. }
  set (F := FP m) in *. set (tp := top S) in *.
  apply placed_app in P. destruct P as [Pra P]. apply placed_app in P. destruct P as [Parg Pcall].
  destruct (push_ra_runs S s m ec p Wf Rp ltac:(fold F tp; lia) Pra) as [Ra [Aa [Rpa Era]]]. fold F tp in Ra, Aa, Rpa, Era.
  set (ma := sw m (F - (tp + w)) (lab ec)) in *.
  pose proof (wf_after_ra S Wf) as Wfa. pose proof (FP_agree w R lo Hw _ m ma L Aa) as Fa.
  assert (Sca : bscoped w (length (ioffs (after_ra S))) (length (boffs (after_ra S))) e) by exact Sc.
  destruct (declare_bool_runs (after_ra S) s ma e st1 c st2 _ Wfa Rpa Sca ltac:(rewrite Fa; exact Hn) Ed Parg)
    as [mb [Rb [Rpb Ab]]].
  rewrite Fa in Ab. cbn [after_ra top] in Ab. rewrite Ews in Ab. fold F tp in Ab.
  assert (Amb : agree w R lo (F - tp) m mb).
  { eapply (agree_trans w R lo); [exact Aa|]. apply (agree_mono w R lo (F - (tp + w))); [lia | exact Ab]. }
  pose proof (regs_ok_agree w R lo Hw _ m mb L Amb) as Lb.
  assert (Erab : lw mb (F - tp - w) = lab ec).
  { rewrite <- Era. apply (agree_lw w R lo Hw (F - (tp + w)) ma mb); [exact Ab | destruct Rp; unfold F, tp in *; lia |].
    unfold dj. destruct L. destruct Rp. unfold F, tp in *. lia. }
  assert (Earg : lb mb (F - tp - w - 1) = b2z (bevals w s e)).
  { pose proof (rp_b w R lo _ _ mb Rpb (length (boffs S))) as X. cbn [push_bool after_ra boffs top ws] in X.
    rewrite app_length in X. cbn [length] in X. specialize (X ltac:(lia)). destruct X as [X _].
    rewrite nth_app_last in X. rewrite <- (rp_lb w R lo S s m Rp) in X. cbn [sb] in X. rewrite nth_app_last in X.
    rewrite (FP_agree w R lo Hw _ m mb L Amb), Ews in X. fold F tp in X.
    replace (F - tp - w - 1) with (F - (tp + w + 1)) by lia. exact X. }
  destruct (lib_call_runs S s m mb LibWriteBool ec ln _ (if bevals w s e then str_true else str_false) Hl Wf Rp Amb ltac:(fold F tp; lia) Erab Pcall)
    as [m3 [R3 A3]].
  { intros m1 Em1. fold F tp in Em1.
    assert (Efpc : wrap (F + wrap (- tp)) = F - tp) by (apply (wrap_add_neg w); destruct L; destruct Rp; unfold F, tp in *; lia).
    assert (Fr : frame_ok w m1 (F - tp) 1).
    { unfold frame_ok, reg_fp, stack_start. rewrite <- Hfp. subst m1.
      split; [apply (wf_sw w); [apply (lo_wf w R lo mb Lb) | apply (lo_fp w R lo mb Lb)]|].
      split; [rewrite (lw_sw_same w Hw1) by apply (lo_fp w R lo mb Lb); exact Efpc|].
      rewrite msize_sw. destruct Amb as [Sz _]. rewrite Sz. destruct L. destruct Rp. unfold F, tp in *. lia. }
    assert (Ev1 : lb m1 (F - tp - w - 1) = b2z (bevals w s e)).
    { subst m1. rewrite (lb_sw_other w Hw1); [exact Earg | apply (lo_fp w R lo mb Lb) | destruct Rp; unfold F, tp in *; lia | destruct L; destruct Rp; unfold F, tp in *; lia]. }
    pose proof (write_bool_spec w code cmem (a_lib R) Hw CA BR m1 (F - tp) Fr) as Sp. cbv zeta in Sp. rewrite Ev1 in Sp.
    destruct Sp as [m2 [Rn [[Sz Ae] Wf2]]].
    exists m2, (F - tp - w). split.
    { replace (if b2z (bevals w s e) =? 0 then str_false else str_true) with (if bevals w s e then str_true else str_false) in Rn
        by (destruct (bevals w s e); reflexivity). exact Rn. }
    split; [exact Sz|]. split; [exact Wf2|]. split; [lia|]. intros x X X1 _. apply Ae; assumption. }
  fold F tp in R3, A3.
  exists m3. split; [|split; [apply (rep_agree w R lo fb Hw S s m m3 Wf Rp A3) | apply (agree_fagree w R lo fb S s m m3 Wf Rp A3)]].
  change (map EOut ((if bevals w s e then str_true else str_false) ++ (if ln then [10] else [])))
    with ([] ++ ([] ++ map EOut ((if bevals w s e then str_true else str_false) ++ (if ln then [10] else [])))).
  eapply runs_trans; [exact Ra|]. eapply runs_trans; [exact Rb|]. close_with R3.
Qed.

(* ================================================================================= *)
(* 5  control flow: the induction over the big-step derivation                          *)
(* ================================================================================= *)
(* the condition of an if / a loop: if_true = (), if_false = goto L *)
Lemma cond_runs S s m c L st cc st' p : wf_senv S -> rep S s m ->
  bscoped w (length (ioffs S)) (length (boffs S)) c -> top S + Z.of_nat (temps_b c) * w <= FP m - lo ->
  lower_branch (env_of S) c [] (goto L) st = (cc, st') -> plc cc p ->
  exists m1, runs (mk p m) [] (mk (if bevals w s c then p + size cc else lab L) m1) /\
             agree w R lo (FP m - top S) m m1.
Proof.
  intros Wf Rp Sc Hn Ev P.
  pose proof (rep_layout w R lo fb S s m Wf Rp) as Lo.
  pose proof (rep_vars w R lo fb Hw S s m c (top S) Wf Rp Sc ltac:(lia) Hn) as V.
  pose proof (lower_runs w R (env_of S) lo Hw (wfs_w w fb S Wf) code cmem lab lab_range c [] None [] (Some L)
                st cc st' p m Ev eq_refl eq_refl P Lo V (run_mem w R (env_of S) c m)) as Rn.
  rewrite (rep_beval w R lo fb S s m c Wf Rp Sc) in Rn.
  exists (run_mem w R (env_of S) c m). split.
  - destruct (bevals w s c); cbn [kexit] in Rn; apply Rn; reflexivity.
  - apply (run_mem_agree w R (env_of S) lo Hw (wfs_w w fb S Wf) code cmem lab c m Lo V).
Qed.

(* S1 extends S: the same locals, then more *)
(* ---------- division in a checked build ---------- *)
Lemma arith_div_sem op xv yv r : op = SDiv \/ op = SMod -> inrange w xv -> inrange w yv ->
  arith w (arith_instr op) xv yv = Some r -> wrap r = wrap (arith_sem op (sgn xv) (sgn yv)).
Proof.
  intros Hop Hx Hy Ar. pose proof (arith_map_correct w Hw1) as F. rewrite Forall_forall in F.
  destruct Hop as [-> | ->].
  - specialize (F (SDiv, Adiv) ltac:(cbn; tauto) xv yv Hx Hy). cbn [fst snd] in F.
    change (arith_instr SDiv) with Adiv in Ar. rewrite Ar in F. exact F.
  - specialize (F (SMod, Amod) ltac:(cbn; tauto) xv yv Hx Hy). cbn [fst snd] in F.
    change (arith_instr SMod) with Amod in Ar. rewrite Ar in F. exact F.
Qed.
Lemma sgn_zero_iff x : inrange w x -> (sgn x = 0 <-> x = 0).
Proof.
  intros Hx. assert (Z0 : inrange w 0) by (unfold inrange; pose proof (W_pos w Hw1); lia).
  assert (S0 : sgn 0 = 0) by (apply (sgn_small w); pose proof (half_pos w Hw1); lia).
  split; [intros H; apply (sgn_inj w Hw1 x 0 Hx Z0); now rewrite S0 | intros ->; exact S0].
Qed.
Definition div_stub : Z := a_lib R + off_division_by_zero.
Lemma stub_not_halts off m : lib_hyps -> off = off_division_by_zero \/ off = off_stack_overflow ->
  ~ Halts (mk (a_lib R + off) m) /\ wrap (a_lib R + off) = a_lib R + off.
Proof.
  intros [_ [_ [_ [_ [CA [BR _]]]]]] Ho. split.
  - destruct Ho as [-> | ->];
      [apply (division_by_zero_absorbing w code cmem (a_lib R) Hw CA BR m) | apply (stack_overflow_absorbing w code cmem (a_lib R) Hw CA BR m)].
  - apply (wrap_small w). destruct BR as [B0 B1]. unfold inrange.
    destruct Ho as [-> | ->]; unfold off_division_by_zero, off_stack_overflow, stdlib_len in *; lia.
Qed.

(* eval_expr(r1, a / b, keep): the operands as in a comparison, the guard, the division, the push *)
Lemma eval_div_runs S s m op a b keep da c bub p : lib_hyps -> wf_senv S -> rep S s m -> op = SDiv \/ op = SMod ->
  oscoped w (length (ioffs S)) a -> oscoped w (length (ioffs S)) b ->
  need_int S (OArith op a b) keep <= FP m - lo ->
  eval_div (env_of S) (top S) R1 op a b keep da = (c, bub) -> plc c p ->
  bub = fin_bub w (top S) R1 keep /\
  (ieval w s b <> 0 -> exists m' xw, runs (mk p m) [] (mk (p + size c) m') /\ agree w R lo (FP m - top S) m m' /\
       bub_val w R m' bub = xw /\ inrange w xw /\ sgn xw = swrap w (arith_sem op (ieval w s a) (ieval w s b))) /\
  (ieval w s b = 0 -> exists m', runs (mk p m) [] (mk div_stub m')).
Proof.
  intros Hl Wf Rp Hop Sa Sb Hn Ev P.
  pose proof (wfs_w w fb S Wf) as Ews. pose proof (rp_regs w R lo S s m Rp) as L.
  assert (HwE : wsize (env_of S) = w) by exact Ews.
  set (E := env_of S) in *. set (tp := top S) in *.
  unfold need_int in Hn. rewrite Ews in Hn. cbn [temps] in Hn. fold tp in Hn.
  assert (W0 : 0 <= w) by lia.
  assert (Tall : Z.of_nat (Nat.max (temps_cmp a b) (if keep then 1%nat else 0%nat)) * w <= FP m - tp - lo) by (unfold temps_cmp; lia).
  assert (Tp : Z.of_nat (temps_cmp a b) * w <= FP m - tp - lo) by (eapply room_le; [exact W0 | apply Nat.le_max_l | exact Tall]).
  assert (Hk : keep = true -> w <= FP m - tp - lo).
  { intros ->. assert (Z.of_nat 1 * w <= FP m - tp - lo) by (eapply room_le; [exact W0 | apply Nat.le_max_r | exact Tall]). lia. }
  assert (Ro : room_ok w R lo tp m).
  { apply (rep_room w R lo fb S s m tp Wf Rp); [unfold tp; lia|]. assert (0 <= Z.of_nat (temps_cmp a b) * w) by (apply Z.mul_nonneg_nonneg; lia). lia. }
  pose proof (rep_oexp w R lo fb Hw S s m a (FP m - tp) Wf Rp Sa ltac:(unfold tp; lia)) as Oa.
  pose proof (rep_oexp w R lo fb Hw S s m b (FP m - tp) Wf Rp Sb ltac:(unfold tp; lia)) as Ob.
  destruct (sval_ieval S s m a Wf Rp Sa) as [Sva Rva]. destruct (sval_ieval S s m b Wf Rp Sb) as [Svb Rvb].
  destruct (pair_props w R E lo Hw HwE code cmem lab a b (eval_opd_props w R E lo Hw HwE code cmem lab a)
              (eval_opd_props w R E lo Hw HwE code cmem lab b) tp m L Ro Oa Ob Tp) as [A4 [Sl [Sr C]]].
  set (kx := negb (is_safe b)) in *. set (bx := bub_of E tp R0 a kx) in *.
  set (by_ := bub_of E (top_after tp bx) R1 b false) in *. set (m4 := pair_mem w R E tp a b m) in *.
  pose proof (regs_ok_agree w R lo Hw _ m m4 L A4) as L4.
  unfold eval_div in Ev. change (with_top E tp) with E in Ev. unfold compare_operands in Ev. change (stack_top E) with tp in Ev. fold kx in Ev.
  destruct (eval_opd E tp R0 a kx) as [c1 bx'] eqn:E1.
  destruct (eval_opd E (top_after tp bx') R1 b false) as [c2 by'] eqn:E2.
  destruct (pop_value R1 by') as [c2' rhs] eqn:E3. destruct (pop_value R0 bx') as [c3 lhs] eqn:E4.
  rewrite (finish_opd_eq w E HwE) in Ev. inversion Ev; subst c bub; clear Ev.
  split; [reflexivity|].
  apply placed_app in P. destruct P as [P P6]. apply placed_app in P. destruct P as [P4 Pg].
  cbn [placed res_ins res_sym] in Pg. destruct Pg as [Cj [Cc [Ce [Ch [Lda [Ci _]]]]]].
  destruct (C c1 bx' c2 by' c2' rhs c3 lhs p eq_refl E2 E3 E4 P4) as [El [Er R4]]. subst lhs rhs.
  set (p4 := p + size (c1 ++ c2 ++ c2' ++ c3)) in *.
  assert (Ir : 0 <= r1 /\ inb m4 r1 w = true) by (destruct L4; split; assumption). destruct Ir as [Ir0 Ir1].
  destruct (stub_not_halts off_division_by_zero m4 Hl (or_introl eq_refl)) as [Nh Ws].
  assert (Hai : arith_instr op = Adiv \/ arith_instr op = Amod) by (destruct Hop as [-> | ->]; [left | right]; reflexivity).
  replace (p4 + 1 + 1) with (p4 + 2) in Ce by lia. replace (p4 + 1 + 1 + 1) with (p4 + 3) in Ch by lia.
  replace (p4 + 1 + 1 + 1 + 1) with (p4 + 4) in Ci by lia.
  replace (p4 + 1 + 1 + 1 + 1) with (p4 + 4) in Lda by lia.
  destruct (div_guard_idiom w Hw code cmem p4 m4 (Imm (lab da)) (Imm (a_lib R + off_division_by_zero)) div_stub
              (rs (sym_of R1 by_)) (wval w R E m b) (arith_instr op) r1 (rs (sym_of R0 bx)) (wval w R E m a)
              Cj ltac:(rewrite oval_imm, (wrap_small w _ (lab_range da)), Lda; reflexivity) Cc
              (symval_oval w R cmem lab _ _ _ Sr) Rvb Ce Ch ltac:(rewrite oval_imm; unfold div_stub; now rewrite Ws)
              Ci Hai (symval_oval w R cmem lab _ _ _ Sl) Ir1) as [Gok Gf].
  split.
  - intros Nz. assert (Nz' : wval w R E m b <> 0) by (intro Z0; apply Nz; rewrite <- Svb; apply (sgn_zero_iff _ Rvb); exact Z0).
    destruct (Gok Nz') as [Rg [r [Ar Aa]]].
    pose proof (arith_div_sem op _ _ r Hop Rva Rvb Ar) as Wr. rewrite Sva, Svb in Wr.
    set (m5 := sw m4 r1 r) in *.
    assert (A5 : agree w R lo (FP m - tp) m m5).
    { eapply (agree_trans w R lo); [exact A4|]. apply (agree_sw w R lo Hw); [exact Ir0 | auto]. }
    destruct (push_props w R lo Hw code cmem lab tp R1 keep m m5 (or_intror eq_refl) L Ro A5 Hk) as [A6 [V6 C6]].
    exists (push_mem w R keep tp R1 m5), (wrap r). split; [|split; [exact A6 | split; [|split]]].
    + change (@nil event) with (@nil event ++ ([] ++ ([] ++ []))).
      eapply runs_trans; [exact R4|]. eapply runs_trans; [exact Rg|]. eapply runs_trans; [apply (runs_next act _ _ None Aa)|].
      pose proof (C6 _ P6) as G. cbn [size div_guard] in G |- *. fold p4.
      repeat (rewrite ?size_app; cbn [size div_guard]). rewrite !size_app in G. cbn [size div_guard] in G.
      match goal with |- HidV.Sphinx.Halts.runs _ (mk ?x _) _ _ =>
        match type of G with HidV.Sphinx.Halts.runs _ (mk ?y _) _ _ => replace x with y by (unfold p4; rewrite ?size_app; lia) end end.
      match goal with |- HidV.Sphinx.Halts.runs _ _ _ (mk ?x _) =>
        match type of G with HidV.Sphinx.Halts.runs _ _ _ (mk ?y _) => replace x with y by (unfold p4; rewrite ?size_app; lia) end end.
      exact G.
    + rewrite V6. cbn [regaddr]. unfold m5. apply (lw_sw_same w Hw1). exact Ir0.
    + apply (wrap_range w Hw1).
    + rewrite Wr. reflexivity.
  - intros Z0. assert (Z0' : wval w R E m b = 0) by (apply (sgn_zero_iff _ Rvb); rewrite Svb; exact Z0).
    destruct (Gf Z0' Nh) as [Rg _]. exists m4. change (@nil event) with (@nil event ++ []). eapply runs_trans; [exact R4 | exact Rg].
Qed.

(* int x = a / b; *)
Lemma decldiv_runs S s m op a b da p : lib_hyps -> wf_senv S -> rep S s m -> op = SDiv \/ op = SMod ->
  oscoped w (length (ioffs S)) a -> oscoped w (length (ioffs S)) b ->
  need_int S (OArith op a b) true <= FP m - lo -> top S + w <= FP m - lo -> plc (decl_div S op a b da) p ->
  (ieval w s b <> 0 -> exists m', runs (mk p m) [] (mk (p + size (decl_div S op a b da)) m') /\
     rep (push_int S) (mkstore (si s ++ [swrap w (arith_sem op (ieval w s a) (ieval w s b))]) (sb s)) m' /\
     agree w R lo (FP m - top S) m m') /\
  (ieval w s b = 0 -> exists m', runs (mk p m) [] (mk div_stub m')).
Proof.
  intros Hl Wf Rp Hop Sa Sb Hn Ht P. unfold decl_div in *.
  destruct (eval_div (env_of S) (top S) R1 op a b true da) as [c bub] eqn:Ev. cbn [fst] in *.
  destruct (eval_div_runs S s m op a b true da c bub p Hl Wf Rp Hop Sa Sb Hn Ev P) as [Eb [Ok Fl]]. split; [|exact Fl].
  intros Nz. destruct (Ok Nz) as [m' [xw [Rn [A [Bv [Rx Sx]]]]]]. exists m'. split; [exact Rn|]. split; [|exact A].
  apply (rep_push_int S s m m' _ Wf Rp A Ht). subst bub. cbn [fin_bub bub_val] in Bv.
  rewrite (FP_agree w R lo Hw _ m m' (rp_regs w R lo S s m Rp) A) in Bv. rewrite Bv. exact Sx.
Qed.
(* xi = a / b; *)
Lemma assdiv_runs S s m i op a b da p : lib_hyps -> wf_senv S -> rep S s m -> (i < length (ioffs S))%nat ->
  op = SDiv \/ op = SMod -> oscoped w (length (ioffs S)) a -> oscoped w (length (ioffs S)) b ->
  need_int S (OArith op a b) false <= FP m - lo -> plc (assign_div S i op a b da) p ->
  (ieval w s b <> 0 -> exists m', runs (mk p m) [] (mk (p + size (assign_div S i op a b da)) m') /\
     rep S (mkstore (upd i (swrap w (arith_sem op (ieval w s a) (ieval w s b))) (si s)) (sb s)) m' /\ fagree m m') /\
  (ieval w s b = 0 -> exists m', runs (mk p m) [] (mk div_stub m')).
Proof.
  intros Hl Wf Rp Hi Hop Sa Sb Hn P. unfold assign_div in *.
  destruct (eval_div (env_of S) (top S) R1 op a b false da) as [c bub] eqn:Ev. cbn [fst] in *.
  apply placed_app in P. destruct P as [P1 P2]. cbn [placed res_ins res_sym regaddr] in P2. destruct P2 as [Cq _].
  destruct (eval_div_runs S s m op a b false da c bub p Hl Wf Rp Hop Sa Sb Hn Ev P1) as [Eb [Ok Fl]]. split; [|exact Fl].
  intros Nz. destruct (Ok Nz) as [m2 [xw [Rn [A [Bv [Rx Sx]]]]]].
  pose proof (rep_agree w R lo fb Hw S s m m2 Wf Rp A) as Rp2.
  pose proof (rp_regs w R lo S s m Rp) as L. pose proof (FP_agree w R lo Hw _ m m2 L A) as F2.
  destruct (rep_slot_i w R lo fb Hw S s m2 i (FP m2 - top S) Wf Rp2 Hi ltac:(lia)) as [O1 [O2 [O3 _]]].
  subst bub. cbn [fin_bub bub_val regaddr] in Bv.
  assert (Ov : oval m2 (St r1) = Some xw) by (rewrite (oval_st w cmem m2 r1 (lo_i1 w R lo m2 (rp_regs w R lo S s m2 Rp2))), Bv; reflexivity).
  pose proof (store_word_runs _ m2 (St r1) _ _ Cq Ov (rp_regs w R lo S s m2 Rp2) O1 O3) as Rs.
  destruct (rep_set_int S s m2 i _ Wf Rp2 Hi Rx) as [Rp3 Fa]. rewrite Sx in Rp3.
  eexists. split; [|split; [exact Rp3|]].
  - rewrite size_app. cbn [size]. change (@nil event) with (@nil event ++ []).
    eapply runs_trans; [exact Rn|]. replace (p + (size c + (1 + 0))) with (p + size c + 1) by lia. exact Rs.
  - apply (fagree_trans w R lo fb Hw m m2); [exact L | apply (agree_fagree w R lo fb S s m m2 Wf Rp A) | exact Fa].
Qed.

(* ---------- return;  return o; ---------- *)
Lemma return_runs S s m r p : wf_senv S -> rep S s m ->
  match r with Some o => oscoped w (length (ioffs S)) o /\ need_int S o false <= FP m - lo | None => True end ->
  plc (lower_return S r) p ->
  exists m', runs (mk p m) [] (mk (lw m (FP m - w)) m') /\ agree w R lo (FP m) m m' /\
             match r with Some o => sgn (lw m' (FP m - w)) = ieval w s o | None => True end.
Proof.
  intros Wf Rp Hr P. pose proof (rp_regs w R lo S s m Rp) as L. pose proof (wfs_w w fb S Wf) as Ews.
  pose proof (wfs_fb w fb S Wf) as Ofb. rewrite Hfb in Ofb.
  assert (Hlo : 0 <= lo) by (destruct L; lia).
  assert (Ow : 0 < w <= W / 2) by (destruct Rp; lia).
  (* the tail: lwso [r1],[fp],-w ... j [r1]; halt, from a memory m2 that agrees with m below the stack top *)
  assert (Tail : forall m2 q, agree w R lo (FP m - top S) m m2 -> code q = Some (ILoadO WWord SState (St r1) (St fp) (Imm (- w))) ->
            let m3 := sw m2 r1 (lw m (FP m - w)) in
            runs (mk q m2) [] (mk (q + 1) m3) /\ agree w R lo (FP m - top S) m m3 /\ regs_ok w R lo m3 /\ FP m3 = FP m /\
            lw m3 r1 = lw m (FP m - w)).
  { intros m2 q A Cl m3.
    pose proof (regs_ok_agree w R lo Hw _ m m2 L A) as L2. pose proof (FP_agree w R lo Hw _ m m2 L A) as F2.
    assert (I2 : inb m2 (FP m2 - w) w = true) by (rewrite F2, (agree_inb w R lo _ m m2 _ _ A); apply inb_true; destruct Rp; lia).
    pose proof (act_lwso w code cmem _ m2 r1 (St fp) (Imm (- w)) (FP m2) (wrap (- w)) Cl
                  (oval_st w cmem m2 _ (lo_if w R lo m2 L2)) (oval_imm w cmem m2 _)) as Al.
    rewrite (frame_addr w R lo Hw m2 w L2 Ow) in Al. specialize (Al I2 (lo_i1 w R lo m2 L2)).
    assert (Era : lw m2 (FP m2 - w) = lw m (FP m - w)).
    { rewrite F2. apply (agree_lw w R lo Hw (FP m - top S) m m2); [exact A | destruct Rp; lia |]. unfold dj. destruct L, Rp. lia. }
    rewrite Era in Al.
    assert (A3 : agree w R lo (FP m - top S) m m3).
    { eapply (agree_trans w R lo); [exact A|]. apply (agree_sw w R lo Hw); [apply (lo_r1 w R lo m2 L2) | auto]. }
    split; [apply (runs_next act _ _ None Al)|]. split; [exact A3|].
    split; [apply (regs_ok_agree w R lo Hw _ m m3 L A3)|]. split; [apply (FP_agree w R lo Hw _ m m3 L A3)|].
    unfold m3. rewrite (lw_sw_same w Hw1) by apply (lo_r1 w R lo m2 L2). apply (wrap_small w), (lw_range w Hw1), (lo_wf w R lo m L). }
  assert (Jump : forall m4 q, regs_ok w R lo m4 -> lw m4 r1 = lw m (FP m - w) -> code q = Some (IJ (St r1)) -> code (q + 1) = Some IHalt ->
            runs (mk q m4) [] (mk (lw m (FP m - w)) m4)).
  { intros m4 q L4 V Cj Ch. pose proof (goto_reg w code cmem q m4 r1 Cj Ch (lo_i1 w R lo m4 L4)) as G. rewrite V in G. exact G. }
  destruct r as [o|]; cbn [lower_return] in P.
  - destruct Hr as [Sc Hn].
    destruct (eval_opd (env_of S) (top S) R0 o false) as [c0 bub] eqn:Ev. destruct (pop_value R0 bub) as [c1 v] eqn:Pv.
    rewrite app_assoc in P. apply placed_app in P. destruct P as [P1 P2].
    cbn [placed res_ins res_sym regaddr] in P2. destruct P2 as [Cl [Cs [Cj [Ch _]]]]. rewrite Ews in Cl, Cs.
    destruct (get_value_runs S s m R0 o c0 bub c1 v p (or_introl eq_refl) Wf Rp Sc Hn Ev Pv P1) as [m2 [Rn [A [Ov Vs]]]].
    destruct (sval_ieval S s m o Wf Rp Sc) as [Sv Rv].
    destruct (Tail m2 _ A Cl) as [R3 [A3 [L3 [F3 V3]]]]. set (m3 := sw m2 r1 (lw m (FP m - w))) in *.
    assert (Ov3 : oval m3 (rs v) = Some (wval w R (env_of S) m o)).
    { destruct Vs as [[z ->] | ->]; [exact Ov|]. cbn [res_sym regaddr] in Ov |- *. rewrite <- Ov. unfold m3.
      pose proof (regs_ok_agree w R lo Hw _ m m2 L A) as L2.
      apply (oval_st_sw_other w Hw cmem); [apply (lo_r1 w R lo m2 L2) | apply (lo_r0 w R lo m2 L2) | destruct L2; lia]. }
    assert (I3 : inb m3 (FP m3 - w) w = true) by (rewrite F3, (agree_inb w R lo _ m m3 _ _ A3); apply inb_true; destruct Rp; lia).
    pose proof (store_word_runs _ m3 (rs v) _ w Cs Ov3 L3 Ow I3) as Rs. rewrite F3 in Rs.
    set (m4 := sw m3 (FP m - w) (wval w R (env_of S) m o)) in *.
    assert (A34 : agree w R lo (FP m) m3 m4) by (apply (agree_sw w R lo Hw); [destruct Rp; lia | right; right; destruct Rp; lia]).
    assert (A4 : agree w R lo (FP m) m m4).
    { eapply (agree_trans w R lo); [|exact A34]. apply (agree_mono w R lo (FP m - top S)); [lia | exact A3]. }
    assert (L4 : regs_ok w R lo m4) by (apply (regs_ok_agree w R lo Hw _ m m4 L A4)).
    assert (V4 : lw m4 r1 = lw m (FP m - w)).
    { rewrite <- V3. unfold m4. apply (lw_sw_other w Hw1); [destruct Rp; lia | apply (lo_r1 w R lo m3 L3) | destruct L3, Rp; lia]. }
    exists m4. split; [|split; [exact A4|]].
    + change (@nil event) with (@nil event ++ ([] ++ ([] ++ []))).
      eapply runs_trans; [exact Rn|]. eapply runs_trans; [exact R3|]. eapply runs_trans; [exact Rs|].
      apply (Jump m4 _ L4 V4); [exact Cj | exact Ch].
    + unfold m4. rewrite (lw_sw_same w Hw1) by (destruct Rp; lia). rewrite (wrap_small w _ Rv). exact Sv.
  - cbn [placed res_ins res_sym regaddr] in P. destruct P as [Cl [Cj [Ch _]]]. rewrite Ews in Cl.
    destruct (Tail m p (agree_refl w R lo _ m) Cl) as [R3 [A3 [L3 [F3 V3]]]].
    eexists. split; [|split; [apply (agree_mono w R lo (FP m - top S)); [lia | exact A3] | exact I]].
    change (@nil event) with (@nil event ++ []). eapply runs_trans; [exact R3|]. apply (Jump _ _ L3 V3); [exact Cj | exact Ch].
Qed.

(* ---------- calls of the program's functions ---------- *)
(* the arguments, pushed one word each below the return address *)
Lemma push_args_runs args : forall S s m p, wf_senv S -> rep S s m -> Forall (oscoped w (length (ioffs S))) args ->
  need_args S args <= FP m - lo -> plc (push_args S args) p ->
  exists m', runs (mk p m) [] (mk (p + size (push_args S args)) m') /\ agree w R lo (FP m - top S) m m' /\
    forall k, (k < length args)%nat ->
      sgn (lw m' (FP m - (top S + (Z.of_nat k + 1) * w))) = ieval w s (nth k args (OLit 0)).
Proof.
  induction args as [|o r IH]; intros S s m p Wf Rp Sc Hn P.
  - exists m. cbn [push_args size]. replace (p + 0) with p by lia. split; [apply runs_refl|].
    split; [apply agree_refl|]. intros k Hk. inversion Hk.
  - cbn [push_args need_args] in *. inversion Sc as [|x0 l0 So Sr]; subst x0 l0.
    apply need_max in Hn. destruct Hn as [Hn Hnr]. apply need_max in Hn. destruct Hn as [Hn1 Hn2].
    pose proof (wfs_w w fb S Wf) as Ews. rewrite Ews in Hn2.
    apply placed_app in P. destruct P as [P1 P2].
    destruct (decl_int_runs S s m o p Wf Rp So Hn1 Hn2 P1) as [m1 [R1 [Rp1 A1]]].
    pose proof (rep_after_ra S s m m1 Wf Rp A1 Hn2) as Rpa. pose proof (wf_after_ra S Wf) as Wfa.
    pose proof (rp_regs w R lo S s m Rp) as L. pose proof (FP_agree w R lo Hw _ m m1 L A1) as F1.
    pose proof (regs_ok_agree w R lo Hw _ m m1 L A1) as L1.
    destruct (IH (after_ra S) s m1 (p + size (decl_int S o)) Wfa Rpa Sr ltac:(rewrite F1; exact Hnr) P2) as [m2 [R2 [A2 V2]]].
    cbn [after_ra top] in A2, V2. rewrite Ews, F1 in A2, V2.
    exists m2. split; [|split].
    + rewrite size_app. change (@nil event) with (@nil event ++ []). eapply runs_trans; [exact R1|].
      replace (p + (size (decl_int S o) + size (push_args (after_ra S) r))) with (p + size (decl_int S o) + size (push_args (after_ra S) r)) by lia.
      exact R2.
    + eapply (agree_trans w R lo); [exact A1|]. apply (agree_mono w R lo (FP m - (top S + w))); [lia | exact A2].
    + intros k Hk. destruct k as [|k].
      * cbn [nth]. change (Z.of_nat 0 + 1) with 1. rewrite Z.mul_1_l.
        assert (E1 : sgn (lw m1 (FP m - (top S + w))) = ieval w s o).
        { pose proof (rp_i w R lo (push_int S) _ m1 Rp1 (length (ioffs S))) as Ri. cbn [push_int ioffs si] in Ri.
          rewrite app_length in Ri. cbn [length] in Ri. specialize (Ri ltac:(lia)).
          rewrite nth_app_last, <- (rp_li w R lo S s m Rp), nth_app_last, Ews, F1 in Ri. exact Ri. }
        rewrite <- E1. f_equal. apply (agree_lw w R lo Hw (FP m - (top S + w)) m1 m2 _ A2); [destruct L, Rp; lia|].
        unfold dj. destruct L, Rp. lia.
      * cbn [nth length] in *. specialize (V2 k ltac:(lia)). rewrite <- V2. f_equal. f_equal. lia.
Qed.

(* the callee's entry memory: fp rebased to the stack top of the caller *)
Lemma entry_mem S s m0 mb : wf_senv S -> rep S s m0 -> agree w R lo (FP m0 - top S) m0 mb ->
  let m1 := sw mb fp (FP m0 + wrap (- top S)) in
  regs_ok w R lo m1 /\ FP m1 = FP m0 - top S /\ msize m1 = msize mb /\
  (forall a, 0 <= a -> (a < fp \/ fp + w <= a) -> getb m1 a = getb mb a).
Proof.
  intros Wf Rp A m1. pose proof (rp_regs w R lo S s m0 Rp) as L0. pose proof (regs_ok_agree w R lo Hw _ m0 mb L0 A) as Lb.
  pose proof (wfs_fb w fb S Wf) as Ofb.
  assert (Efpc : wrap (FP m0 + wrap (- top S)) = FP m0 - top S) by (apply (wrap_add_neg w); destruct Rp, L0; lia).
  assert (F1 : FP m1 = FP m0 - top S) by (unfold FP, m1; rewrite (lw_sw_same w Hw1) by apply (lo_fp w R lo mb Lb); exact Efpc).
  split; [|split; [exact F1 | split; [apply msize_sw|]]].
  - destruct Lb. constructor; try assumption; unfold m1; rewrite ?inb_sw; try assumption.
    + apply (wf_sw w); assumption.
    + fold m1. rewrite F1. destruct Rp, L0. lia.
  - intros a Ha D. unfold m1. apply (getb_sw_other w Hw); [apply (lo_fp w R lo mb Lb) | exact Ha | lia].
Qed.

(* entering the callee *)
Lemma call_enter S s m0 mb ec f p : wf_senv S -> rep S s m0 -> agree w R lo (FP m0 - top S) m0 mb ->
  plc (call_seq S ec f) p ->
  runs (mk p mb) [] (mk (lab (func_label f)) (sw mb fp (FP m0 + wrap (- top S)))).
Proof.
  intros Wf Rp A P. pose proof (rp_regs w R lo S s m0 Rp) as L0. pose proof (regs_ok_agree w R lo Hw _ m0 mb L0 A) as Lb.
  pose proof (FP_agree w R lo Hw _ m0 mb L0 A) as Fb.
  cbn [call_seq placed res_ins res_sym regaddr] in P. destruct P as [C0 [C1 [C2 _]]].
  change (@nil event) with (@nil event ++ []). eapply runs_trans.
  - apply (runs_next act _ _ None).
    eapply (act_arith w code cmem); [exact C0 | apply oval_st, (lo_if w R lo mb Lb) | apply oval_imm | reflexivity | apply (lo_if w R lo mb Lb)].
  - cbn [arith]. unfold FP in Fb. rewrite Fb.
    pose proof (goto_label w code cmem _ (sw mb fp (FP m0 + wrap (- top S))) (lab (func_label f)) C1 C2) as G.
    rewrite (wrap_small w _ (lab_range _)) in G. exact G.
Qed.
(* the whole call, given the callee's run from its entry memory: it returns to the pushed return
   address, changing at most r0, r1, r2 and the stack below its frame pointer *)
Lemma user_call_runs S s m0 mb ec f p evs (Qr : Z -> Prop) : wf_senv S -> rep S s m0 ->
  agree w R lo (FP m0 - top S) m0 mb -> top S + w <= FP m0 - lo ->
  lw mb (FP m0 - top S - w) = lab ec -> plc (call_seq S ec f) p ->
  (exists m2, runs (mk (lab (func_label f)) (sw mb fp (FP m0 + wrap (- top S)))) (map EOut evs)
                   (mk (lw (sw mb fp (FP m0 + wrap (- top S))) (FP m0 - top S - w)) m2) /\
              agree w R lo (FP m0 - top S) (sw mb fp (FP m0 + wrap (- top S))) m2 /\ Qr (lw m2 (FP m0 - top S - w))) ->
  exists m3, runs (mk p mb) (map EOut evs) (mk (p + size (call_seq S ec f)) m3) /\
             agree w R lo (FP m0 - top S) m0 m3 /\ Qr (lw m3 (FP m0 - top S - w)).
Proof.
  intros Wf Rp A Hr Hra P [m2 [Rc [A2 Q2]]].
  pose proof (rp_regs w R lo S s m0 Rp) as L0. pose proof (regs_ok_agree w R lo Hw _ m0 mb L0 A) as Lb.
  pose proof (FP_agree w R lo Hw _ m0 mb L0 A) as Fb. pose proof (wfs_fb w fb S Wf) as Ofb.
  destruct (entry_mem S s m0 mb Wf Rp A) as [L1 [F1 [Sz1 G1]]].
  set (F := FP m0) in *. set (tp := top S) in *. set (m1 := sw mb fp (F + wrap (- tp))) in *.
  assert (HF : 0 <= F < W / 2) by apply (lo_F w R lo m0 L0).
  assert (HW : W / 2 < W) by (pose proof (W_even w Hw1); pose proof (half_pos w Hw1); lia).
  cbn [call_seq placed res_ins res_sym regaddr] in P. destruct P as [C0 [C1 [C2 [Lec [C3 _]]]]].
  assert (Efpc : wrap (F + wrap (- tp)) = F - tp) by (apply (wrap_add_neg w); destruct Rp, L0; unfold F, tp in *; lia).
  assert (Ifp : inb mb fp w = true) by apply (lo_if w R lo mb Lb).
  assert (Rfp : inrange w (lw mb fp)) by (apply (lw_range w Hw1); apply (lo_wf w R lo mb Lb)).
  assert (Elf : lw mb fp = F) by exact Fb.
  assert (Wfb : wf_mem mb) by apply (lo_wf w R lo mb Lb).
  assert (Era : lw m1 (F - tp - w) = p + 3).
  { unfold m1. rewrite (lw_sw_other w Hw1); [rewrite Hra, Lec; lia | apply (lo_fp w R lo mb Lb) | destruct Rp, L0; unfold F, tp in *; lia | destruct L0; destruct Rp; unfold F, tp in *; lia]. }
  pose proof (regs_ok_agree w R lo Hw _ m1 m2 L1 A2) as L2. pose proof (FP_agree w R lo Hw _ m1 m2 L1 A2) as F2.
  assert (L2fp : lw m2 fp = F - tp) by (unfold FP in F2, F1; rewrite F2; exact F1).
  set (Pp := fun a => 0 <= a /\ ~ (r0 <= a < r0 + w) /\ ~ (r1 <= a < r1 + w) /\ ~ (lo <= a < F - tp) /\ ~ (a_r2 R <= a < a_r2 R + w) /\
                      (a < fp \/ fp + w <= a)).
  assert (Eov : oval m1 (Imm (lab (func_label f))) = Some (lab (func_label f))) by apply (oval_lab w cmem lab lab_range).
  pose proof (call_idiom w Hw code cmem p mb fp (- tp) tp (Imm (lab (func_label f))) (lab (func_label f)) (map EOut evs) m2 Pp
                C0 C1 ltac:(replace (p + 2) with (p + 1 + 1) by lia; exact C2)
                ltac:(replace (p + 3) with (p + 1 + 1 + 1) by lia; exact C3) eq_refl (lo_fp w R lo mb Lb) Ifp Rfp) as CI.
  cbv zeta in CI. rewrite Elf, Efpc in CI. fold m1 in CI. rewrite Era in CI.
  assert (Rc' : runs (mk (lab (func_label f)) m1) (map EOut evs) (mk (p + 3) m2)) by (rewrite <- Era; exact Rc).
  destruct A2 as [Sz2 [Wf2 G2]].
  destruct (CI Eov eq_refl Rc' Sz2 L2fp) as [Rcall [Lf3 [HP3 F3]]].
  { intros a [Pa [P0 [P1 [P2 [P3 _]]]]]. apply G2; assumption. }
  { intros a [Pa [_ [_ [_ [_ Pd]]]]]. split; assumption. }
  clear CI.
  set (m3 := sw m2 fp (F - tp + wrap tp)) in *.
  assert (E3 : m3 = sw m2 fp (lw mb fp)).
  { unfold m3. apply sw_wrap_eq. rewrite <- (lw_sw_same w Hw1 m2 fp (F - tp + wrap tp)) by apply (lo_fp w R lo mb Lb).
    fold m3. rewrite Lf3, Elf. symmetry. apply (wrap_small w). rewrite <- Elf. exact Rfp. }
  assert (Ab : agree w R lo (F - tp) mb m3).
  { split; [unfold m3; rewrite msize_sw, Sz2; exact Sz1|].
    split; [intros _; unfold m3; apply (wf_sw w); [apply Wf2, (lo_wf w R lo m1 L1) | apply (lo_fp w R lo mb Lb)]|].
    intros x X N0 N1 N2 N3.
    destruct (Z_lt_le_dec x fp) as [Lt|Ge]; [|destruct (Z_lt_le_dec x (fp + w)) as [Lt2|Ge2]].
    - rewrite HP3; [reflexivity|]. unfold Pp. repeat split; try assumption; lia.
    - rewrite E3. apply sw_same_word_bytes; [exact Wfb | apply (lo_fp w R lo mb Lb) | lia].
    - rewrite HP3; [reflexivity|]. unfold Pp. repeat split; try assumption; lia. }
  exists m3. split; [|split].
  - cbn [call_seq size]. replace (p + (1 + (1 + (1 + (1 + 0))))) with (p + 4) by lia. exact Rcall.
  - eapply (agree_trans w R lo); eauto.
  - replace (lw m3 (F - tp - w)) with (lw m2 (F - tp - w)); [exact Q2|]. symmetry. apply (lw_agree w Hw).
    intros x Hx. apply F3; [destruct Rp, L0; unfold F, tp in *; lia | right; destruct Rp, L0; unfold F, tp in *; lia].
Qed.

(* ---------- environments grow along a statement list ---------- *)
Definition extends (S S1 : senv) : Prop :=
  (exists l, ioffs S1 = ioffs S ++ l) /\ (exists l, boffs S1 = boffs S ++ l) /\ top S <= top S1 /\ ws S1 = ws S.
Lemma extends_refl S : extends S S.
Proof. split; [exists []; now rewrite app_nil_r|]. split; [exists []; now rewrite app_nil_r|]. split; [lia | reflexivity]. Qed.
Lemma extends_trans S1 S2 S3 : extends S1 S2 -> extends S2 S3 -> extends S1 S3.
Proof.
  intros [[l1 E1] [[k1 F1] [T1 W1']]] [[l2 E2] [[k2 F2] [T2 W2']]].
  split; [exists (l1 ++ l2); rewrite E2, E1; now rewrite app_assoc|].
  split; [exists (k1 ++ k2); rewrite F2, F1; now rewrite app_assoc|]. split; [lia | congruence].
Qed.
Lemma extends_push_int S : 0 <= ws S -> extends S (push_int S).
Proof. intros H. split; [eexists; reflexivity|]. split; [exists []; cbn; now rewrite app_nil_r|]. cbn. split; [lia | reflexivity]. Qed.
Lemma extends_push_bool S : extends S (push_bool S).
Proof. split; [exists []; cbn; now rewrite app_nil_r|]. split; [eexists; reflexivity|]. cbn. split; [lia | reflexivity]. Qed.
(* leaving a block: the outer locals are still represented *)
Lemma rep_shrink S S1 s s1 m : extends S S1 ->
  length (si s) = length (ioffs S) -> length (sb s) = length (boffs S) -> rep S1 s1 m -> rep S (trunc s s1) m.
Proof.
  intros [[l El] [[k Ek] [Ht _]]] Li Lb Rp. destruct Rp as [Rg Rlo Rh Rsz Rli Rlb Ri Rb Rap].
  constructor; cbn [trunc si sb]; try assumption; try lia.
  - rewrite firstn_length, Rli, El, app_length. lia.
  - rewrite firstn_length, Rlb, Ek, app_length. lia.
  - intros i Hi. rewrite Li. specialize (Ri i ltac:(rewrite El, app_length; lia)). rewrite El, app_nth1 in Ri by exact Hi.
    rewrite Ri. rewrite <- (firstn_skipn (length (ioffs S)) (si s1)) at 1. rewrite app_nth1; [reflexivity|].
    rewrite firstn_length, Rli, El, app_length. lia.
  - intros j Hj. rewrite Lb. specialize (Rb j ltac:(rewrite Ek, app_length; lia)). rewrite Ek, app_nth1 in Rb by exact Hj.
    assert (En : nth j (firstn (length (boffs S)) (sb s1)) 0 = nth j (sb s1) 0).
    { rewrite <- (firstn_skipn (length (boffs S)) (sb s1)) at 2. rewrite app_nth1; [reflexivity|].
      rewrite firstn_length, Rlb, Ek, app_length. lia. }
    rewrite En. exact Rb.
Qed.
Lemma trunc_same_len s s' s1 : length (si s) = length (si s') -> length (sb s) = length (sb s') -> trunc s s1 = trunc s' s1.
Proof. intros A B. unfold trunc. now rewrite A, B. Qed.

(* static facts about the model *)
Ltac destruct_lets :=
  repeat match goal with
  | |- context [add_label ?a ?b] => destruct (add_label a b)
  | |- context [declare_bool ?a ?b ?c] => destruct (declare_bool a b c)
  | |- context [assign_bool ?a ?b ?c ?d] => destruct (assign_bool a b c d)
  | |- context [lower_branch ?a ?b ?c ?d ?e] => destruct (lower_branch a b c d e)
  | |- context [lower_stmts ?a ?b ?c ?d] => destruct (lower_stmts a b c d) as [[[? ?] ?] ?]
  end.
Lemma lower_stmt_env S li s st : let '(_, S', _, _) := lower_stmt S li s st in S' = snd (need_stmt S s).
Proof.
  destruct s as [o|i o|e|j e|x| |ln o|ln e|c s1 s2|c b k|ss| | |op a b|i op a b|dst f args|r]; cbn [lower_stmt need_stmt need_bool_decl snd];
    try reflexivity; try (destruct x; reflexivity); try (destruct r; reflexivity); destruct_lets; reflexivity.
Qed.
Lemma need_stmt_extends S s : 0 <= ws S -> extends S (snd (need_stmt S s)).
Proof.
  intros H. destruct s as [o|i o|e|j e|x| |ln o|ln e|c s1 s2|c b k|ss| | |op a b|i op a b|dst f args|r]; cbn [need_stmt snd]; try apply extends_refl.
  - apply extends_push_int. exact H.
  - destruct e; apply extends_push_bool.
  - destruct x; apply extends_refl.
  - apply extends_push_int. exact H.
  - destruct dst; try apply extends_refl. apply extends_push_int. exact H.
  - destruct r; apply extends_refl.
Qed.
Lemma lower_stmt_exited S li s st : let '(_, _, _, ex) := lower_stmt S li s st in ex = true -> exits s = true.
Proof.
  destruct s as [o|i o|e|j e|x| |ln o|ln e|c s1 s2|c b k|ss| | |op a b|i op a b|dst f args|r]; cbn [lower_stmt exits]; try (intros; discriminate); auto;
    destruct_lets; intros; discriminate.
Qed.

Definition in_loop (li : option (label * label)) : bool := match li with Some _ => true | None => false end.
(* the stubs of the runtime library the faults go to *)
Definition fault_off (ft : fault) : Z :=
  match ft with FDivZero => off_division_by_zero | FStackOverflow => off_stack_overflow end.
(* where a statement (list) leaves: its end, the loop labels, the return address of the function,
   the fault stub *)
Definition exit_pc (li : option (label * label)) (out : outcome) (endp ra : Z) : option Z :=
  match out, li with
  | ONormal, _ => Some endp
  | OBreak, Some (_, lb) => Some (lab lb)
  | OContinue, Some (lc, _) => Some (lab lc)
  | OReturn _, _ => Some ra
  | OFault ft, _ => Some (a_lib R + fault_off ft)
  | _, None => None
  end.
(* what may have changed: the frame below the return address; on return also the return-address
   slot, which receives the result *)
Definition frame_post (out : outcome) (m m' : mem) : Prop :=
  match out with
  | OReturn _ => agree w R lo (FP m) m m'
  | OFault _ => True
  | _ => fagree m m'
  end.
Definition post (S S' : senv) (s s' : store) (out : outcome) (m m' : mem) : Prop :=
  match out with
  | ONormal => rep S' s' m' /\ wf_senv S'
  | OBreak | OContinue => rep S (trunc s s') m'
  | OReturn v => match v with Some x => sgn (lw m' (FP m - w)) = x | None => True end
  | OFault _ => True
  end.
(* the frame holds exactly the return address and the locals in scope *)
Definition tight (S : senv) : Prop := top S = w * (1 + Z.of_nat (length (ioffs S))) + Z.of_nat (length (boffs S)).
Definition stmt_spec (d : Z) (s : stmt) (s0 : store) (evs : list Z) (out : outcome) (s1 : store) : Prop :=
  forall S li st C S' st' ex p m,
    lower_stmt S li s st = (C, S', st', ex) -> plc C p -> wf_senv S -> tight S -> rep S s0 m -> d = FP m - lo ->
    sscoped w lib_hyps cf (length (ioffs S)) (length (boffs S)) (in_loop li) s -> fst (need_stmt S s) <= FP m - lo ->
    exists m' pc', exit_pc li out (p + size C) (lw m (FP m - w)) = Some pc' /\
      runs (mk p m) (map EOut evs) (mk pc' m') /\ frame_post out m m' /\ post S S' s0 s1 out m m'.
Definition stmts_spec (d : Z) (ss : stmts) (s0 : store) (evs : list Z) (out : outcome) (s1 : store) : Prop :=
  forall S li st C S' st' ex p m,
    lower_stmts S li ss st = (C, S', st', ex) -> plc C p -> wf_senv S -> tight S -> rep S s0 m -> d = FP m - lo ->
    ssscoped w lib_hyps cf (length (ioffs S)) (length (boffs S)) (in_loop li) ss -> need_stmts S ss <= FP m - lo ->
    exists m' pc', exit_pc li out (p + size C) (lw m (FP m - w)) = Some pc' /\
      runs (mk p m) (map EOut evs) (mk pc' m') /\ frame_post out m m' /\ post S S' s0 s1 out m m'.
(* a call of function f from an entry memory: fp at the callee's frame, the return address below
   it, then the arguments; d bytes of stack below fp *)
Definition call_spec (d : Z) (f : nat) (vs : list Z) (evs : list Z) (res : cres) : Prop :=
  forall m, lib_hyps -> cf f (length vs) -> regs_ok w R lo m -> d = FP m - lo -> 0 <= FP m - lo <= W / 2 -> FP m <= msize m ->
    (ap_sep w R lo -> lw m (a_ap R) = lo) ->
    (forall k, (k < length vs)%nat -> sgn (lw m (FP m - (Z.of_nat k + 2) * w)) = nth k vs 0) ->
    exists m', match res with
      | CRet v => runs (mk (lab (func_label f)) m) (map EOut evs) (mk (lw m (FP m - w)) m') /\ agree w R lo (FP m) m m' /\
                  match v with Some x => sgn (lw m' (FP m - w)) = x | None => True end
      | CFault ft => runs (mk (lab (func_label f)) m) (map EOut evs) (mk (a_lib R + fault_off ft) m')
      end.
(* every callable function is in the code: label, entry guard, body; its guard constant is a word *)
Hypothesis cf_ok : forall f n, cf f n -> exists fd st, nth_error funs f = Some fd /\ fn_params fd = n /\
  0 <= fun_need w fd < W / 2 /\ plc (fst (lower_fun w f fd st)) (lab (func_label f)) /\
  ssscoped w lib_hyps cf n 0 false (fn_body fd).

Lemma trunc_self s : trunc s s = s.
Proof. destruct s as [a b]. unfold trunc; cbn [si sb]. now rewrite !firstn_all. Qed.
Lemma trunc_trunc s0 s1 s2 : (length (si s0) <= length (si s1))%nat -> (length (sb s0) <= length (sb s1))%nat ->
  trunc s0 (trunc s1 s2) = trunc s0 s2.
Proof. intros A B. unfold trunc; cbn [si sb]. rewrite !firstn_firstn. f_equal; f_equal; lia. Qed.
Lemma trunc_idem s0 s1 : trunc s0 (trunc s0 s1) = trunc s0 s1.
Proof. apply trunc_trunc; lia. Qed.
Lemma exit_pc_exit li out e1 e2 ra : out <> ONormal -> exit_pc li out e1 ra = exit_pc li out e2 ra.
Proof. intros N. destruct out, li as [[? ?]|]; cbn; congruence. Qed.
Lemma lower_stmts_extends ss : forall S li st, 0 <= ws S -> let '(_, S', _, _) := lower_stmts S li ss st in extends S S'.
Proof.
  induction ss as [|s r IH]; intros S li st Hws; cbn [lower_stmts]; [apply extends_refl|].
  pose proof (lower_stmt_env S li s st) as Ee. destruct (lower_stmt S li s st) as [[[c S1] st1] ex].
  pose proof (need_stmt_extends S s Hws) as X. rewrite <- Ee in X.
  destruct ex; [exact X|].
  assert (Hws1 : 0 <= ws S1) by (destruct X as [_ [_ [_ Ew]]]; lia).
  specialize (IH S1 li st1 Hws1). destruct (lower_stmts S1 li r st1) as [[[cr S2] st2] ex2].
  eapply extends_trans; eauto.
Qed.
Lemma rep_len_le S S1 s s1 m m1 : extends S S1 -> rep S s m -> rep S1 s1 m1 ->
  (length (si s) <= length (si s1))%nat /\ (length (sb s) <= length (sb s1))%nat.
Proof.
  intros [[l El] [[k Ek] _]] Rp Rp1. rewrite (rp_li w R lo S s m Rp), (rp_lb w R lo S s m Rp),
    (rp_li w R lo S1 s1 m1 Rp1), (rp_lb w R lo S1 s1 m1 Rp1), El, Ek, !app_length. lia.
Qed.

(* ---------- bookkeeping for the induction ---------- *)
Lemma tight_step S s : wf_senv S -> tight S -> tight (snd (need_stmt S s)).
Proof.
  intros Wf T. pose proof (wfs_w w fb S Wf) as Ews. unfold tight in *.
  destruct s as [o|i o|e|j e|x| |ln o|ln e|c s1 s2|c b k|ss| | |op a b|i op a b|dst f args|r];
    cbn [need_stmt need_bool_decl snd]; try exact T; try (destruct x; exact T); try (destruct r; exact T);
    try (destruct dst; try exact T); cbn [push_int push_bool top ioffs boffs]; rewrite ?app_length; cbn [length]; rewrite ?Ews; lia.
Qed.
Lemma need_stmts_ge_top ss : forall S, 0 <= ws S -> top S <= need_stmts S ss.
Proof.
  induction ss as [|s r IH]; intros S Hws; cbn [need_stmts]; [lia|].
  pose proof (need_stmt_extends S s Hws) as X. destruct (need_stmt S s) as [n S1]. cbn [snd] in X.
  destruct X as [_ [_ [Ht Ew]]]. specialize (IH S1 ltac:(lia)). unfold zmax. lia.
Qed.
(* a prefix that keeps the frame (condition evaluation, earlier statements) before a run *)
Lemma frame_post_pre out m m1 m2 : regs_ok w R lo m -> fagree m m1 -> frame_post out m1 m2 -> frame_post out m m2.
Proof.
  intros L A B. pose proof (FP_agree w R lo Hw _ m m1 L A) as F1.
  destruct out; cbn [frame_post] in *; try exact I; try (apply (fagree_trans w R lo fb Hw m m1 m2 L A B)).
  rewrite F1 in B. eapply (agree_trans w R lo); [|exact B]. apply (agree_mono w R lo (FP m - fb)); [lia | exact A].
Qed.
Lemma frame_post_normal_pre out m m1 m2 : regs_ok w R lo m -> frame_post ONormal m m1 -> frame_post out m1 m2 -> frame_post out m m2.
Proof. intros L A B. apply (frame_post_pre out m m1 m2 L A B). Qed.
(* the return address is not touched by code that keeps the frame *)
Lemma ra_fagree S s m m1 : wf_senv S -> rep S s m -> fagree m m1 -> lw m1 (FP m1 - w) = lw m (FP m - w).
Proof.
  intros Wf Rp A. pose proof (rp_regs w R lo S s m Rp) as L. rewrite (FP_agree w R lo Hw _ m m1 L A).
  pose proof (wfs_fb w fb S Wf) as Ofb.
  apply (agree_lw w R lo Hw (FP m - fb) m m1 _ A); [destruct L, Rp; lia|]. unfold dj. destruct L, Rp. lia.
Qed.
(* a non-normal outcome of an inner statement list, seen from the enclosing statement *)
Lemma post_exit S S1 S' s s' out m m1 m2 : out <> ONormal -> FP m1 = FP m ->
  post S S1 s s' out m1 m2 -> post S S' s (trunc s s') out m m2.
Proof.
  intros N F Po. destruct out; cbn [post] in *; try exact I; try (rewrite trunc_idem; exact Po); [contradiction | rewrite <- F; exact Po].
Qed.

(* ---------- the frame of a function and its entry memory ---------- *)
Lemma nth_fun_ioffs n i : (i < n)%nat -> nth i (ioffs (is_you_senv w n)) 0 = (Z.of_nat i + 2) * w.
Proof.
  intros Hi. cbn [is_you_senv ioffs].
  rewrite (nth_indep _ 0 ((Z.of_nat 0 + 2) * w)) by (rewrite map_length, seq_length; exact Hi).
  rewrite (map_nth (fun i => (Z.of_nat i + 2) * w) (seq 0 n) 0%nat i), seq_nth by exact Hi. reflexivity.
Qed.
Lemma wf_fun_senv n : wf_senv (is_you_senv w n).
Proof.
  assert (Ln : length (ioffs (is_you_senv w n)) = n) by (cbn [is_you_senv ioffs]; now rewrite map_length, seq_length).
  constructor; rewrite ?Ln; cbn [is_you_senv ws top boffs length]; rewrite ?Hfb; try reflexivity; try lia.
  - intros i Hi. rewrite (nth_fun_ioffs n i Hi). nia.
  - intros i i' Hi Hi' Ne. rewrite (nth_fun_ioffs n i Hi), (nth_fun_ioffs n i' Hi'). nia.
Qed.
Lemma tight_fun_senv n : tight (is_you_senv w n).
Proof. unfold tight. cbn [is_you_senv top ioffs boffs length]. rewrite map_length, seq_length. lia. Qed.
Lemma rep_fun_entry n vs m : length vs = n -> regs_ok w R lo m -> (Z.of_nat n + 1) * w <= FP m - lo ->
  0 <= FP m - lo <= W / 2 -> FP m <= msize m -> (ap_sep w R lo -> lw m (a_ap R) = lo) ->
  (forall k, (k < n)%nat -> sgn (lw m (FP m - (Z.of_nat k + 2) * w)) = nth k vs 0) ->
  rep (is_you_senv w n) (mkstore vs []) m.
Proof.
  intros Lv L Hr Hh Hs Hap Hv.
  assert (Ln : length (ioffs (is_you_senv w n)) = n) by (cbn [is_you_senv ioffs]; now rewrite map_length, seq_length).
  constructor; rewrite ?Ln; cbn [si sb]; try assumption; try (cbn [is_you_senv top]; lia); try reflexivity.
  - intros i Hi. rewrite (nth_fun_ioffs n i Hi). apply Hv. exact Hi.
  - intros j Hj. cbn [is_you_senv boffs length] in Hj. lia.
Qed.

(* outcomes that leave the function do not look at the loop labels *)
Lemma exit_pc_leaves li li' out e e' ra : leaves out -> exit_pc li out e ra = exit_pc li' out e' ra.
Proof. destruct out; cbn [leaves]; intros H; try contradiction; destruct li as [[? ?]|], li' as [[? ?]|]; reflexivity. Qed.
Lemma leaves_not_normal out : leaves out -> out <> ONormal.
Proof. destruct out; cbn; intros H; try contradiction; discriminate. Qed.
(* the same run seen from a store of the same shape and a memory with the same frame pointer *)
Lemma post_rebase S S' s sa s' out m ma m' : length (si sa) = length (si s) -> length (sb sa) = length (sb s) -> FP ma = FP m ->
  post S S' sa s' out ma m' -> post S S' s s' out m m'.
Proof.
  intros Li Lb F Po. destruct out; cbn [post] in *; try exact Po; try (rewrite (trunc_same_len s sa s') by (symmetry; assumption); exact Po).
  rewrite <- F. exact Po.
Qed.
Lemma lib_ap_sep m : lib_hyps -> regs_ok w R lo m -> ap_sep w R lo.
Proof. intros [Hfp [H0 [H1 [H2 [_ [_ Hap]]]]]] L. destruct L. unfold ap_sep. rewrite Hap, H0, H1, H2 in *. lia. Qed.
(* the result of a call (at frame offset top + w, where the return address was) assigned to local i *)
Lemma fetch_result_runs S s m i x q : wf_senv S -> rep S s m -> (i < length (ioffs S))%nat -> top S + w <= FP m - lo ->
  sgn (lw m (FP m - (top S + w))) = x ->
  plc [AInstr (ALwso R1 (SReg RFp) (SLit (- (top S + ws S)))); AInstr (ASwso (SReg RFp) (SLit (- nth i (ioffs S) 0)) (SReg R1))] q ->
  exists m', runs (mk q m) [] (mk (q + 2) m') /\ rep S (mkstore (upd i x (si s)) (sb s)) m' /\ fagree m m'.
Proof.
  intros Wf Rp Hi Hr Hx P. pose proof (rp_regs w R lo S s m Rp) as L. pose proof (wfs_w w fb S Wf) as Ews.
  pose proof (wfs_fb w fb S Wf) as Ofb. assert (Hlo : 0 <= lo) by (destruct L; lia).
  cbn [placed res_ins res_sym regaddr] in P. destruct P as [Cl [Cs _]]. rewrite Ews in Cl.
  assert (Ho : 0 < top S + w <= W / 2) by (destruct Rp; lia).
  assert (I0 : inb m (FP m - (top S + w)) w = true) by (apply inb_true; destruct Rp; lia).
  pose proof (act_lwso w code cmem _ m r1 (St fp) (Imm (- (top S + w))) (FP m) (wrap (- (top S + w))) Cl
                (oval_st w cmem m _ (lo_if w R lo m L)) (oval_imm w cmem m _)) as Al.
  rewrite (frame_addr w R lo Hw m (top S + w) L Ho) in Al. specialize (Al I0 (lo_i1 w R lo m L)).
  set (xw := lw m (FP m - (top S + w))) in *. set (m1 := sw m r1 xw) in *.
  assert (Rx : inrange w xw) by (apply (lw_range w Hw1), (lo_wf w R lo m L)).
  assert (A1 : agree w R lo (FP m - top S) m m1) by (apply (agree_sw w R lo Hw); [apply (lo_r1 w R lo m L) | auto]).
  pose proof (rep_agree w R lo fb Hw S s m m1 Wf Rp A1) as Rp1. pose proof (rp_regs w R lo S s m1 Rp1) as L1.
  pose proof (FP_agree w R lo Hw _ m m1 L A1) as F1.
  destruct (rep_slot_i w R lo fb Hw S s m1 i (FP m1 - top S) Wf Rp1 Hi ltac:(lia)) as [O1 [O2 [O3 _]]].
  assert (Ov : oval m1 (St r1) = Some xw).
  { rewrite (oval_st w cmem m1 r1 (lo_i1 w R lo m1 L1)). unfold m1. rewrite (lw_sw_same w Hw1) by apply (lo_r1 w R lo m L).
    now rewrite (wrap_small w _ Rx). }
  pose proof (store_word_runs _ m1 (St r1) _ _ Cs Ov L1 O1 O3) as Rs.
  destruct (rep_set_int S s m1 i _ Wf Rp1 Hi Rx) as [Rp3 Fa]. rewrite Hx in Rp3.
  eexists. split; [|split; [exact Rp3|]].
  - change (@nil event) with (@nil event ++ []). eapply runs_trans; [apply (runs_next act _ _ None Al)|].
    replace (q + 2) with (q + 1 + 1) by lia. exact Rs.
  - apply (fagree_trans w R lo fb Hw m m1); [exact L | apply (agree_fagree w R lo fb S s m m1 Wf Rp A1) | exact Fa].
Qed.
(* the stack in use is the frame the environment describes *)
Lemma tight_frame_top S s m : tight S -> rep S s m -> frame_top w s = top S.
Proof. intros T Rp. unfold frame_top. rewrite (rp_li w R lo S s m Rp), (rp_lb w R lo S s m Rp). symmetry. exact T. Qed.

Ltac fin_normal Rn Fa := split; [reflexivity|]; split; [exact Rn|]; split; [exact Fa|].
Theorem stmts_runs :
  (forall d s s0 evs out s1, exec w funs d s s0 evs out s1 -> stmt_spec d s s0 evs out s1) /\
  (forall d ss s0 evs out s1, execs w funs d ss s0 evs out s1 -> stmts_spec d ss s0 evs out s1) /\
  (forall d f vs evs res, callf w funs d f vs evs res -> call_spec d f vs evs res).
Proof.
  apply (exec_execs_ind w funs stmt_spec stmts_spec call_spec).
  - (* int x = o *)
    intros d o s S li st C S' st' ex p m Ev P Wf Tg Rp Hd Sc Hn. cbn [lower_stmt] in Ev. inversion Ev; subst C S' st' ex; clear Ev.
    cbn [need_stmt fst sscoped] in *. apply need_max in Hn. destruct Hn as [Hn1 Hn2]. rewrite (wfs_w w fb S Wf) in Hn2.
    destruct (decl_int_runs S s m o p Wf Rp Sc Hn1 Hn2 P) as [m' [Rn [Rp' Fa]]].
    exists m', (p + size (decl_int S o)). fin_normal Rn (agree_fagree w R lo fb S s m m' Wf Rp Fa).
    split; [exact Rp' | apply wf_push_int; exact Wf].
  - (* xi = o *)
    intros d i o s Hi S li st C S' st' ex p m Ev P Wf Tg Rp Hd Sc Hn. cbn [lower_stmt] in Ev. inversion Ev; subst C S' st' ex; clear Ev.
    cbn [need_stmt fst sscoped] in *. destruct Sc as [Si So].
    destruct (assign_int_runs S s m i o p Wf Rp Si So Hn P) as [m' [Rn [Rp' Fa]]].
    exists m', (p + size (assign_int S i o)). fin_normal Rn Fa. split; assumption.
  - (* bool p = e *)
    intros d e s S li st C S' st' ex p m Ev P Wf Tg Rp Hd Sc Hn. cbn [lower_stmt] in Ev.
    destruct (declare_bool (env_of S) e st) as [c st1] eqn:Ed. inversion Ev; subst C S' st' ex; clear Ev.
    cbn [sscoped] in Sc.
    destruct (declare_bool_runs S s m e st c st1 p Wf Rp Sc Hn Ed P) as [m' [Rn [Rp' Fa]]].
    exists m', (p + size c). fin_normal Rn (agree_fagree w R lo fb S s m m' Wf Rp Fa).
    split; [exact Rp' | apply wf_push_bool; exact Wf].
  - (* pj = e *)
    intros d j e s Hj S li st C S' st' ex p m Ev P Wf Tg Rp Hd Sc Hn. cbn [lower_stmt] in Ev.
    destruct (assign_bool (env_of S) (nth j (boffs S) 0) e st) as [c st1] eqn:Ea. inversion Ev; subst C S' st' ex; clear Ev.
    cbn [need_stmt fst sscoped] in *. destruct Sc as [Sj Se]. rewrite (wfs_w w fb S Wf) in Hn.
    destruct (assign_bool_runs S s m j e st c st1 p Wf Rp Sj Se Hn Ea P) as [m' [Rn [Rp' Fa]]].
    exists m', (p + size c). fin_normal Rn Fa. split; assumption.
  - (* write *)
    intros d x s S li st C S' st' ex p m Ev P Wf Tg Rp Hd Sc Hn. cbn [lower_stmt] in Ev. inversion Ev; subst C S' st' ex; clear Ev.
    assert (Hx : match x with WrByte o => oscoped w (length (ioffs S)) o /\ need_int S o false <= FP m - lo | _ => True end).
    { destruct x; cbn [sscoped need_stmt fst] in *; auto. }
    destruct (write_runs S s m x p Wf Rp Hx P) as [m' [Rn [Rp' Fa]]].
    exists m', (p + size (lower_write S x)). fin_normal Rn Fa. split; assumption.
  - (* writeln *)
    intros d s S li st C S' st' ex p m Ev P Wf Tg Rp Hd Sc Hn. cbn [lower_stmt] in Ev. inversion Ev; subst C S' st' ex; clear Ev.
    cbn [plc res_ins res_sym] in P. destruct P as [Cy _].
    exists m, (p + size [AInstr (AYield (SChar 10))]). split; [reflexivity|]. split.
    + cbn [size map]. replace (p + (1 + 0)) with (p + 1) by lia.
      pose proof (yield_runs p m (Imm 10) (wrap 10) Cy (oval_imm w cmem m 10)) as Y. rewrite wrap_mod256 in Y. exact Y.
    + split; [apply fagree_refl|]. split; assumption.
  - (* write(int) *)
    intros d ln o s S li st C S' st' ex p m Ev P Wf Tg Rp Hd Sc Hn. cbn [lower_stmt] in Ev.
    destruct (add_label LEndCall st) as [ec st1]. inversion Ev; subst C S' st' ex; clear Ev.
    cbn [sscoped] in Sc. destruct Sc as [So Hl].
    destruct (writei_runs S s m ln o ec p Hl Wf Rp So Hn P) as [m' [Rn [Rp' Fa]]].
    eexists m', _. fin_normal Rn Fa. split; assumption.
  - (* write(bool) *)
    intros d ln e s S li st C S' st' ex p m Ev P Wf Tg Rp Hd Sc Hn. cbn [lower_stmt] in Ev.
    destruct (add_label LEndCall st) as [ec st1]. destruct (declare_bool (env_of (after_ra S)) e st1) as [c st2] eqn:Ed.
    inversion Ev; subst C S' st' ex; clear Ev.
    cbn [sscoped] in Sc. destruct Sc as [Se Hl].
    destruct (writeb_runs S s m ln e ec st1 c st2 p Hl Wf Rp Se Hn Ed P) as [m' [Rn [Rp' Fa]]].
    eexists m', _. fin_normal Rn Fa. split; assumption.
  - (* if *)
    intros d c s1 s2 s evs out s' Hx IH S li st C S' st' ex p m Ev P Wf Tg Rp Hd Sc Hn. cbn [lower_stmt] in Ev.
    destruct (add_label LElse st) as [el st1]. destruct (add_label LEndElse st1) as [ee st2].
    destruct (lower_branch (env_of S) c [] (goto el) st2) as [cc st3] eqn:Ec.
    pose proof (lower_stmts_extends s1 S li st3 ltac:(rewrite (wfs_w w fb S Wf); lia)) as X1.
    destruct (lower_stmts S li s1 st3) as [[[c1 S1] st4] ex1] eqn:E1.
    pose proof (lower_stmts_extends s2 S li st4 ltac:(rewrite (wfs_w w fb S Wf); lia)) as X2.
    destruct (lower_stmts S li s2 st4) as [[[c2 S2] st5] ex2] eqn:E2.
    inversion Ev; subst C S' st' ex; clear Ev.
    apply placed_app in P. destruct P as [Pcc P]. apply placed_app in P. destruct P as [Pc1 P].
    cbn [goto app plc res_ins res_sym] in P. destruct P as [Gj [Gh [Lel P]]].
    apply placed_app in P. destruct P as [Pc2 Pend]. cbn [plc] in Pend. destruct Pend as [Lee _].
    cbn [sscoped need_stmt fst] in Sc, Hn. destruct Sc as [Scc [Sc1 Sc2]].
    apply need_max in Hn. destruct Hn as [Hnc Hn]. apply need_max in Hn. destruct Hn as [Hn1 Hn2].
    rewrite (wfs_w w fb S Wf) in Hnc.
    destruct (cond_runs S s m c el st2 cc st3 p Wf Rp Scc Hnc Ec Pcc) as [m1 [Rc A1]].
    pose proof (rep_agree w R lo fb Hw S s m m1 Wf Rp A1) as Rp1.
    pose proof (rp_regs w R lo S s m Rp) as L. pose proof (FP_agree w R lo Hw _ m m1 L A1) as F1.
    pose proof (agree_fagree w R lo fb S s m m1 Wf Rp A1) as Fa1.
    pose proof (ra_fagree S s m m1 Wf Rp Fa1) as Ra1.
    destruct (bevals w s c).
    + (* then *)
      destruct (IH S li st3 c1 S1 st4 ex1 (p + size cc) m1 E1 Pc1 Wf Tg Rp1 ltac:(rewrite F1; exact Hd) Sc1 ltac:(rewrite F1; exact Hn1))
        as [m2 [pc2 [Ex [Rn [Fa2 Po]]]]].
      rewrite Ra1 in Ex. pose proof (frame_post_pre out m m1 m2 L Fa1 Fa2) as Fa.
      destruct (outcome_normal_dec out) as [-> | Nn].
      * cbn [exit_pc] in Ex. inversion Ex; subst pc2. eexists m2, _.
        split; [reflexivity|]. split; [|split; [exact Fa|]].
        -- change (map EOut evs) with ([] ++ map EOut evs). rewrite <- (app_nil_r (map EOut evs)). rewrite app_assoc.
           eapply runs_trans; [eapply runs_trans; [exact Rc | exact Rn]|].
           pose proof (goto_label w code cmem _ m2 (lab ee) Gj Gh) as G.
           rewrite (wrap_small w (lab ee) (lab_range ee)), Lee in G. close_with G.
        -- destruct Po as [Rp2 _]. split; [|exact Wf].
           apply (rep_shrink S S1 s s' m2 X1 (rp_li w R lo S s m Rp) (rp_lb w R lo S s m Rp) Rp2).
      * exists m2, pc2. split; [rewrite <- Ex; apply exit_pc_exit; exact Nn|]. split; [|split; [exact Fa|]].
        -- change (map EOut evs) with ([] ++ map EOut evs). eapply runs_trans; [exact Rc | exact Rn].
        -- apply (post_exit S S1 S s s' out m m1 m2 Nn F1 Po).
    + (* else *)
      rewrite Lel in Rc.
      destruct (IH S li st4 c2 S2 st5 ex2 _ m1 E2 Pc2 Wf Tg Rp1 ltac:(rewrite F1; exact Hd) Sc2 ltac:(rewrite F1; exact Hn2))
        as [m2 [pc2 [Ex [Rn [Fa2 Po]]]]].
      rewrite Ra1 in Ex. pose proof (frame_post_pre out m m1 m2 L Fa1 Fa2) as Fa.
      destruct (outcome_normal_dec out) as [-> | Nn].
      * cbn [exit_pc] in Ex. inversion Ex; subst pc2. eexists m2, _.
        split; [reflexivity|]. split; [|split; [exact Fa|]].
        -- change (map EOut evs) with ([] ++ map EOut evs).
           eapply runs_trans; [exact Rc|]. cbn [size goto] in Rn. close_with Rn.
        -- destruct Po as [Rp2 _]. split; [|exact Wf].
           apply (rep_shrink S S2 s s' m2 X2 (rp_li w R lo S s m Rp) (rp_lb w R lo S s m Rp) Rp2).
      * exists m2, pc2. split; [rewrite <- Ex; apply exit_pc_exit; exact Nn|]. split; [|split; [exact Fa|]].
        -- change (map EOut evs) with ([] ++ map EOut evs). eapply runs_trans; [exact Rc | exact Rn].
        -- apply (post_exit S S2 S s s' out m m1 m2 Nn F1 Po).
  - (* while: condition false *)
    intros d c b k s Hc S li st C S' st' ex p m Ev P Wf Tg Rp Hd Sc Hn. cbn [lower_stmt] in Ev.
    destruct (add_label LLoop st) as [ls st1]. destruct (add_label LContinue st1) as [lc st2]. destruct (add_label LBreak st2) as [lb st3].
    destruct (lower_branch (env_of S) c [] (goto lb) st3) as [cc st4] eqn:Ec.
    destruct (lower_stmts S (Some (lc, lb)) b st4) as [[[c1 S1] st5] ex1] eqn:E1.
    destruct (lower_stmts S li k st5) as [[[c2 S2] st6] ex2] eqn:E2.
    inversion Ev; subst C S' st' ex; clear Ev.
    cbn [app plc] in P. destruct P as [Lls P]. apply placed_app in P. destruct P as [Pcc P]. apply placed_app in P. destruct P as [Pc1 P].
    cbn [app plc] in P. destruct P as [Llc P]. apply placed_app in P. destruct P as [Pc2 P].
    cbn [goto app plc res_ins res_sym] in P. destruct P as [Gj [Gh [Llb _]]].
    cbn [sscoped need_stmt fst] in Sc, Hn. destruct Sc as [Scc [Sc1 Sc2]].
    apply need_max in Hn. destruct Hn as [Hnc Hn]. rewrite (wfs_w w fb S Wf) in Hnc.
    destruct (cond_runs S s m c lb st3 cc st4 p Wf Rp Scc Hnc Ec Pcc) as [m1 [Rc A1]]. rewrite Hc in Rc.
    eexists m1, _. split; [reflexivity|]. split; [|split; [apply (agree_fagree w R lo fb S s m m1 Wf Rp A1)|]].
    + cbn [map]. rewrite Llb in Rc. close_with Rc.
    + split; [apply (rep_agree w R lo fb Hw S s m m1 Wf Rp A1) | exact Wf].
  - (* while: the body breaks *)
    intros d c b k s evs s1 Hc Hb IHb S li st C S' st' ex p m Ev P Wf Tg Rp Hd Sc Hn. cbn [lower_stmt] in Ev.
    destruct (add_label LLoop st) as [ls st1]. destruct (add_label LContinue st1) as [lc st2]. destruct (add_label LBreak st2) as [lb st3].
    destruct (lower_branch (env_of S) c [] (goto lb) st3) as [cc st4] eqn:Ec.
    destruct (lower_stmts S (Some (lc, lb)) b st4) as [[[c1 S1] st5] ex1] eqn:E1.
    destruct (lower_stmts S li k st5) as [[[c2 S2] st6] ex2] eqn:E2.
    inversion Ev; subst C S' st' ex; clear Ev.
    cbn [app plc] in P. destruct P as [Lls P]. apply placed_app in P. destruct P as [Pcc P]. apply placed_app in P. destruct P as [Pc1 P].
    cbn [app plc] in P. destruct P as [Llc P]. apply placed_app in P. destruct P as [Pc2 P].
    cbn [goto app plc res_ins res_sym] in P. destruct P as [Gj [Gh [Llb _]]].
    cbn [sscoped need_stmt fst] in Sc, Hn. destruct Sc as [Scc [Sc1 Sc2]].
    apply need_max in Hn. destruct Hn as [Hnc Hn]. apply need_max in Hn. destruct Hn as [Hn1 Hn2]. rewrite (wfs_w w fb S Wf) in Hnc.
    destruct (cond_runs S s m c lb st3 cc st4 p Wf Rp Scc Hnc Ec Pcc) as [m1 [Rc A1]]. rewrite Hc in Rc.
    pose proof (rep_agree w R lo fb Hw S s m m1 Wf Rp A1) as Rp1.
    pose proof (rp_regs w R lo S s m Rp) as L. pose proof (FP_agree w R lo Hw _ m m1 L A1) as F1.
    destruct (IHb S (Some (lc, lb)) st4 c1 S1 st5 ex1 (p + size cc) m1 E1 Pc1 Wf Tg Rp1 ltac:(rewrite F1; exact Hd) Sc1 ltac:(rewrite F1; exact Hn1))
      as [m2 [pc2 [Ex [Rn [Fa2 Po]]]]].
    cbn [exit_pc] in Ex. inversion Ex; subst pc2. cbn [post frame_post] in Po, Fa2.
    eexists m2, _. split; [reflexivity|]. split; [|split].
    + change (map EOut evs) with ([] ++ map EOut evs). eapply runs_trans; [exact Rc|]. rewrite Llb in Rn. close_with Rn.
    + apply (fagree_trans w R lo fb Hw m m1 m2 L); [apply (agree_fagree w R lo fb S s m m1 Wf Rp A1) | exact Fa2].
    + split; [exact Po | exact Wf].
  - (* while: the body returns or faults *)
    intros d c b k s evs out s1 Hc Hb IHb Lv S li st C S' st' ex p m Ev P Wf Tg Rp Hd Sc Hn. cbn [lower_stmt] in Ev.
    destruct (add_label LLoop st) as [ls st1]. destruct (add_label LContinue st1) as [lc st2]. destruct (add_label LBreak st2) as [lb st3].
    destruct (lower_branch (env_of S) c [] (goto lb) st3) as [cc st4] eqn:Ec.
    destruct (lower_stmts S (Some (lc, lb)) b st4) as [[[c1 S1] st5] ex1] eqn:E1.
    destruct (lower_stmts S li k st5) as [[[c2 S2] st6] ex2] eqn:E2.
    inversion Ev; subst C S' st' ex; clear Ev.
    cbn [app plc] in P. destruct P as [Lls P]. apply placed_app in P. destruct P as [Pcc P]. apply placed_app in P. destruct P as [Pc1 P].
    cbn [sscoped need_stmt fst] in Sc, Hn. destruct Sc as [Scc [Sc1 Sc2]].
    apply need_max in Hn. destruct Hn as [Hnc Hn]. apply need_max in Hn. destruct Hn as [Hn1 Hn2]. rewrite (wfs_w w fb S Wf) in Hnc.
    destruct (cond_runs S s m c lb st3 cc st4 p Wf Rp Scc Hnc Ec Pcc) as [m1 [Rc A1]]. rewrite Hc in Rc.
    pose proof (rep_agree w R lo fb Hw S s m m1 Wf Rp A1) as Rp1.
    pose proof (rp_regs w R lo S s m Rp) as L. pose proof (FP_agree w R lo Hw _ m m1 L A1) as F1.
    pose proof (agree_fagree w R lo fb S s m m1 Wf Rp A1) as Fa1. pose proof (ra_fagree S s m m1 Wf Rp Fa1) as Ra1.
    destruct (IHb S (Some (lc, lb)) st4 c1 S1 st5 ex1 (p + size cc) m1 E1 Pc1 Wf Tg Rp1 ltac:(rewrite F1; exact Hd) Sc1 ltac:(rewrite F1; exact Hn1))
      as [m2 [pc2 [Ex [Rn [Fa2 Po]]]]].
    rewrite Ra1 in Ex. exists m2, pc2. split; [rewrite <- Ex; apply exit_pc_leaves; exact Lv|].
    split; [change (map EOut evs) with ([] ++ map EOut evs); eapply runs_trans; [exact Rc | exact Rn]|].
    split; [apply (frame_post_pre out m m1 m2 L Fa1 Fa2)|].
    apply (post_exit S S1 S s s1 out m m1 m2 (leaves_not_normal out Lv) F1 Po).
  - (* while: the continuation of a `for` does not complete *)
    intros d c b k s e1 out1 s1 e2 out2 s2 Hc Hb IHb Nb Hk IHk Nn2 S li st C S' st' ex p m Ev P Wf Tg Rp Hd Sc Hn.
    cbn [lower_stmt] in Ev.
    destruct (add_label LLoop st) as [ls st1]. destruct (add_label LContinue st1) as [lc st2]. destruct (add_label LBreak st2) as [lb st3].
    destruct (lower_branch (env_of S) c [] (goto lb) st3) as [cc st4] eqn:Ec.
    pose proof (lower_stmts_extends b S (Some (lc, lb)) st4 ltac:(rewrite (wfs_w w fb S Wf); lia)) as X1.
    destruct (lower_stmts S (Some (lc, lb)) b st4) as [[[c1 S1] st5] ex1] eqn:E1.
    destruct (lower_stmts S li k st5) as [[[c2 S2] st6] ex2] eqn:E2.
    inversion Ev; subst C S' st' ex; clear Ev.
    cbn [app plc] in P. destruct P as [Lls P]. apply placed_app in P. destruct P as [Pcc P]. apply placed_app in P. destruct P as [Pc1 P].
    cbn [app plc] in P. destruct P as [Llc P]. apply placed_app in P. destruct P as [Pc2 P].
    cbn [sscoped need_stmt fst] in Sc, Hn. destruct Sc as [Scc [Sc1 Sc2]].
    apply need_max in Hn. destruct Hn as [Hnc Hn]. apply need_max in Hn. destruct Hn as [Hn1 Hn2]. rewrite (wfs_w w fb S Wf) in Hnc.
    destruct (cond_runs S s m c lb st3 cc st4 p Wf Rp Scc Hnc Ec Pcc) as [m1 [Rc A1]]. rewrite Hc in Rc.
    pose proof (rep_agree w R lo fb Hw S s m m1 Wf Rp A1) as Rp1.
    pose proof (rp_regs w R lo S s m Rp) as L. pose proof (FP_agree w R lo Hw _ m m1 L A1) as F1.
    pose proof (agree_fagree w R lo fb S s m m1 Wf Rp A1) as Fa1.
    destruct (IHb S (Some (lc, lb)) st4 c1 S1 st5 ex1 (p + size cc) m1 E1 Pc1 Wf Tg Rp1 ltac:(rewrite F1; exact Hd) Sc1 ltac:(rewrite F1; exact Hn1))
      as [m2 [pc2 [Ex [Rn [Fa2 Po]]]]].
    assert (B2 : pc2 = lab lc /\ rep S (trunc s s1) m2 /\ fagree m1 m2).
    { destruct Nb as [-> | ->]; cbn [exit_pc post frame_post] in Ex, Po, Fa2.
      - inversion Ex; subst pc2. split; [rewrite Llc; lia|]. destruct Po as [Rp2 _]. split; [|exact Fa2].
        apply (rep_shrink S S1 s s1 m2 X1 (rp_li w R lo S s m Rp) (rp_lb w R lo S s m Rp) Rp2).
      - inversion Ex; subst pc2. split; [reflexivity | split; [exact Po | exact Fa2]]. }
    destruct B2 as [-> [Rp2 Fa2']].
    pose proof (fagree_trans w R lo fb Hw m m1 m2 L Fa1 Fa2') as Fa12.
    pose proof (FP_agree w R lo Hw _ m m2 L Fa12) as F2. pose proof (ra_fagree S s m m2 Wf Rp Fa12) as Ra2.
    destruct (IHk S li st5 c2 S2 st6 ex2 _ m2 E2 Pc2 Wf Tg Rp2 ltac:(rewrite F2; exact Hd) Sc2 ltac:(rewrite F2; exact Hn2))
      as [m3 [pc3 [Ex3 [Rn3 [Fa3 Po3]]]]].
    rewrite Ra2 in Ex3. exists m3, pc3. split; [rewrite <- Ex3; apply exit_pc_exit; exact Nn2|].
    split; [|split; [apply (frame_post_pre out2 m m2 m3 L Fa12 Fa3)|]].
    + rewrite map_app. change (map EOut e1 ++ map EOut e2) with ([] ++ (map EOut e1 ++ map EOut e2)). rewrite Llc in Rn.
      eapply runs_trans; [exact Rc|]. eapply runs_trans; [exact Rn | exact Rn3].
    + apply (post_exit S S2 S s s2 out2 m m m3 Nn2 eq_refl).
      apply (post_rebase S S2 s (trunc s s1) s2 out2 m m2 m3); [| | exact F2 | exact Po3].
      * rewrite (rp_li w R lo S _ m2 Rp2), (rp_li w R lo S s m Rp). reflexivity.
      * rewrite (rp_lb w R lo S _ m2 Rp2), (rp_lb w R lo S s m Rp). reflexivity.
  - (* while: one more iteration *)
    intros d c b k s e1 out1 s1 e2 s2 e3 out3 s3 Hc Hb IHb Nb Hk IHk Hw' IHw S li st C S' st' ex p m Ev P Wf Tg Rp Hd Sc Hn.
    pose proof Ev as Ev0. pose proof P as P0. cbn [lower_stmt] in Ev.
    destruct (add_label LLoop st) as [ls st1]. destruct (add_label LContinue st1) as [lc st2]. destruct (add_label LBreak st2) as [lb st3].
    destruct (lower_branch (env_of S) c [] (goto lb) st3) as [cc st4] eqn:Ec.
    pose proof (lower_stmts_extends b S (Some (lc, lb)) st4 ltac:(rewrite (wfs_w w fb S Wf); lia)) as X1.
    destruct (lower_stmts S (Some (lc, lb)) b st4) as [[[c1 S1] st5] ex1] eqn:E1.
    pose proof (lower_stmts_extends k S li st5 ltac:(rewrite (wfs_w w fb S Wf); lia)) as X2.
    destruct (lower_stmts S li k st5) as [[[c2 S2] st6] ex2] eqn:E2.
    inversion Ev; subst C S' st' ex; clear Ev.
    cbn [app plc] in P. destruct P as [Lls P]. apply placed_app in P. destruct P as [Pcc P]. apply placed_app in P. destruct P as [Pc1 P].
    cbn [app plc] in P. destruct P as [Llc P]. apply placed_app in P. destruct P as [Pc2 P].
    cbn [goto app plc res_ins res_sym] in P. destruct P as [Gj [Gh [Llb _]]].
    pose proof Sc as Sc0. pose proof Hn as Hn0.
    cbn [sscoped need_stmt fst] in Sc, Hn. destruct Sc as [Scc [Sc1 Sc2]].
    apply need_max in Hn. destruct Hn as [Hnc Hn]. apply need_max in Hn. destruct Hn as [Hn1 Hn2]. rewrite (wfs_w w fb S Wf) in Hnc.
    destruct (cond_runs S s m c lb st3 cc st4 p Wf Rp Scc Hnc Ec Pcc) as [m1 [Rc A1]]. rewrite Hc in Rc.
    pose proof (rep_agree w R lo fb Hw S s m m1 Wf Rp A1) as Rp1.
    pose proof (rp_regs w R lo S s m Rp) as L. pose proof (FP_agree w R lo Hw _ m m1 L A1) as F1.
    pose proof (agree_fagree w R lo fb S s m m1 Wf Rp A1) as Fa1.
    (* the body: ends at the continue label, normally or by `continue` *)
    destruct (IHb S (Some (lc, lb)) st4 c1 S1 st5 ex1 (p + size cc) m1 E1 Pc1 Wf Tg Rp1 ltac:(rewrite F1; exact Hd) Sc1 ltac:(rewrite F1; exact Hn1))
      as [m2 [pc2 [Ex [Rn [Fa2 Po]]]]].
    assert (B2 : pc2 = lab lc /\ rep S (trunc s s1) m2 /\ fagree m1 m2).
    { destruct Nb as [-> | ->]; cbn [exit_pc post frame_post] in Ex, Po, Fa2.
      - inversion Ex; subst pc2. split; [rewrite Llc; lia|]. destruct Po as [Rp2 _]. split; [|exact Fa2].
        apply (rep_shrink S S1 s s1 m2 X1 (rp_li w R lo S s m Rp) (rp_lb w R lo S s m Rp) Rp2).
      - inversion Ex; subst pc2. split; [reflexivity | split; [exact Po | exact Fa2]]. }
    destruct B2 as [-> [Rp2 Fa2']].
    pose proof (fagree_trans w R lo fb Hw m m1 m2 L Fa1 Fa2') as Fa12.
    pose proof (FP_agree w R lo Hw _ m m2 L Fa12) as F2.
    (* the continuation *)
    destruct (IHk S li st5 c2 S2 st6 ex2 _ m2 E2 Pc2 Wf Tg Rp2 ltac:(rewrite F2; exact Hd) Sc2 ltac:(rewrite F2; exact Hn2))
      as [m3 [pc3 [Ex3 [Rn3 [Fa3 Po3]]]]].
    cbn [exit_pc post frame_post] in Ex3, Po3, Fa3. inversion Ex3; subst pc3. destruct Po3 as [Rp3 _].
    pose proof (rep_shrink S S2 (trunc s s1) s2 m3 X2 (rp_li w R lo S _ m2 Rp2) (rp_lb w R lo S _ m2 Rp2) Rp3) as Rp3'.
    assert (Et : trunc (trunc s s1) s2 = trunc s s2).
    { apply trunc_same_len; [rewrite (rp_li w R lo S _ m2 Rp2), (rp_li w R lo S s m Rp) | rewrite (rp_lb w R lo S _ m2 Rp2), (rp_lb w R lo S s m Rp)]; reflexivity. }
    rewrite Et in Rp3'.
    pose proof (fagree_trans w R lo fb Hw m m2 m3 L Fa12 Fa3) as Fa13.
    pose proof (FP_agree w R lo Hw _ m m3 L Fa13) as F3. pose proof (ra_fagree S s m m3 Wf Rp Fa13) as Ra3.
    (* back to the loop head, and the rest of the loop by the induction hypothesis *)
    pose proof (goto_label w code cmem _ m3 (lab ls) Gj Gh) as G.
    rewrite (wrap_small w (lab ls) (lab_range ls)), Lls in G.
    destruct (IHw S li st _ S st6 false p m3 Ev0 P0 Wf Tg Rp3' ltac:(rewrite F3; exact Hd) Sc0 ltac:(rewrite F3; exact Hn0))
      as [m4 [pc4 [Ex4 [Rn4 [Fa4 Po4]]]]].
    rewrite Ra3 in Ex4.
    exists m4, pc4. split; [exact Ex4|]. split; [|split; [apply (frame_post_pre out3 m m3 m4 L Fa13 Fa4)|]].
    + rewrite !map_app.
      change (map EOut e1 ++ map EOut e2 ++ map EOut e3) with ([] ++ (map EOut e1 ++ (map EOut e2 ++ ([] ++ map EOut e3)))).
      rewrite Llc in Rn.
      eapply runs_trans; [exact Rc|]. eapply runs_trans; [exact Rn|].
      eapply runs_trans; [exact Rn3|]. eapply runs_trans; [exact G | exact Rn4].
    + apply (post_rebase S S s (trunc s s2) s3 out3 m m3 m4); [| | exact F3 | exact Po4].
      * rewrite (rp_li w R lo S _ m3 Rp3'), (rp_li w R lo S s m Rp). reflexivity.
      * rewrite (rp_lb w R lo S _ m3 Rp3'), (rp_lb w R lo S s m Rp). reflexivity.
  - (* block *)
    intros d ss s evs out s' Hx IH S li st C S' st' ex p m Ev P Wf Tg Rp Hd Sc Hn. cbn [lower_stmt] in Ev.
    pose proof (lower_stmts_extends ss S li st ltac:(rewrite (wfs_w w fb S Wf); lia)) as X1.
    destruct (lower_stmts S li ss st) as [[[c S1] st1] ex1] eqn:E1. inversion Ev; subst C S' st' ex; clear Ev.
    cbn [sscoped need_stmt fst] in Sc, Hn.
    destruct (IH S li st c S1 st1 ex1 p m E1 P Wf Tg Rp Hd Sc Hn) as [m2 [pc2 [Ex [Rn [Fa Po]]]]].
    exists m2, pc2. split; [exact Ex|]. split; [exact Rn|]. split; [exact Fa|].
    destruct (outcome_normal_dec out) as [-> | Nn]; [|apply (post_exit S S1 S s s' out m m m2 Nn eq_refl Po)].
    destruct Po as [Rp2 _]. split; [|exact Wf].
    apply (rep_shrink S S1 s s' m2 X1 (rp_li w R lo S s m Rp) (rp_lb w R lo S s m Rp) Rp2).
  - (* break *)
    intros d s S li st C S' st' ex p m Ev P Wf Tg Rp Hd Sc Hn. cbn [lower_stmt sscoped] in Ev, Sc.
    destruct li as [[lc lb]|]; [|discriminate Sc]. inversion Ev; subst C S' st' ex; clear Ev.
    cbn [goto plc res_ins res_sym] in P. destruct P as [Gj [Gh _]].
    pose proof (goto_label w code cmem _ m (lab lb) Gj Gh) as G. rewrite (wrap_small w (lab lb) (lab_range lb)) in G.
    exists m, (lab lb). split; [reflexivity|]. split; [exact G|]. split; [apply fagree_refl|].
    cbn [post]. rewrite trunc_self. exact Rp.
  - (* continue *)
    intros d s S li st C S' st' ex p m Ev P Wf Tg Rp Hd Sc Hn. cbn [lower_stmt sscoped] in Ev, Sc.
    destruct li as [[lc lb]|]; [|discriminate Sc]. inversion Ev; subst C S' st' ex; clear Ev.
    cbn [goto plc res_ins res_sym] in P. destruct P as [Gj [Gh _]].
    pose proof (goto_label w code cmem _ m (lab lc) Gj Gh) as G. rewrite (wrap_small w (lab lc) (lab_range lc)) in G.
    exists m, (lab lc). split; [reflexivity|]. split; [exact G|]. split; [apply fagree_refl|].
    cbn [post]. rewrite trunc_self. exact Rp.
  - (* int x = a / b *)
    intros d op a b s Nz S li st C S' st' ex p m Ev P Wf Tg Rp Hd Sc Hn. cbn [lower_stmt] in Ev.
    destruct (add_label LDivAllowed st) as [da st1]. inversion Ev; subst C S' st' ex; clear Ev.
    cbn [sscoped need_stmt fst] in Sc, Hn. destruct Sc as [Hop [Sa [Sb Hl]]].
    apply need_max in Hn. destruct Hn as [Hn1 Hn2]. rewrite (wfs_w w fb S Wf) in Hn2.
    destruct (decldiv_runs S s m op a b da p Hl Wf Rp Hop Sa Sb Hn1 Hn2 P) as [Ok _]. destruct (Ok Nz) as [m' [Rn [Rp' A]]].
    eexists m', _. fin_normal Rn (agree_fagree w R lo fb S s m m' Wf Rp A). split; [exact Rp' | apply wf_push_int; exact Wf].
  - (* int x = a / 0 *)
    intros d op a b s Z0 S li st C S' st' ex p m Ev P Wf Tg Rp Hd Sc Hn. cbn [lower_stmt] in Ev.
    destruct (add_label LDivAllowed st) as [da st1]. inversion Ev; subst C S' st' ex; clear Ev.
    cbn [sscoped need_stmt fst] in Sc, Hn. destruct Sc as [Hop [Sa [Sb Hl]]].
    apply need_max in Hn. destruct Hn as [Hn1 Hn2]. rewrite (wfs_w w fb S Wf) in Hn2.
    destruct (decldiv_runs S s m op a b da p Hl Wf Rp Hop Sa Sb Hn1 Hn2 P) as [_ Fl]. destruct (Fl Z0) as [m' Rn].
    exists m', div_stub. split; [reflexivity|]. split; [exact Rn|]. split; exact I.
  - (* xi = a / b *)
    intros d i op a b s Hi Nz S li st C S' st' ex p m Ev P Wf Tg Rp Hd Sc Hn. cbn [lower_stmt] in Ev.
    destruct (add_label LDivAllowed st) as [da st1]. inversion Ev; subst C S' st' ex; clear Ev.
    cbn [sscoped need_stmt fst] in Sc, Hn. destruct Sc as [Si [Hop [Sa [Sb Hl]]]].
    destruct (assdiv_runs S s m i op a b da p Hl Wf Rp Si Hop Sa Sb Hn P) as [Ok _]. destruct (Ok Nz) as [m' [Rn [Rp' Fa]]].
    eexists m', _. fin_normal Rn Fa. split; assumption.
  - (* xi = a / 0 *)
    intros d i op a b s Z0 S li st C S' st' ex p m Ev P Wf Tg Rp Hd Sc Hn. cbn [lower_stmt] in Ev.
    destruct (add_label LDivAllowed st) as [da st1]. inversion Ev; subst C S' st' ex; clear Ev.
    cbn [sscoped need_stmt fst] in Sc, Hn. destruct Sc as [Si [Hop [Sa [Sb Hl]]]].
    destruct (assdiv_runs S s m i op a b da p Hl Wf Rp Si Hop Sa Sb Hn P) as [_ Fl]. destruct (Fl Z0) as [m' Rn].
    exists m', div_stub. split; [reflexivity|]. split; [exact Rn|]. split; exact I.
Abort.
End Stmt.
