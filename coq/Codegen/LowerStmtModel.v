(* Component `lowerstmt` (DESIGN §3.6 `Lower`, C01_partial): hand model of how hidc lowers the
   STATEMENTS of a core fragment, on top of LowerBoolModel (expressions).

   Source: hidc/codegen/generator.py
     gen_stmts   Declaration (push_expr(r1, init)), Assignment / IncAssignment to a local
                 (get_expr_value(r1, e); access.set), Expression statement write(byte) / writeln()
                 (eval_func_call builtins: get_expr_value(r1, arg); yield), BreakStatement /
                 ContinueStatement (goto the loop's label; `return True`: the rest of the
                 statement list is not generated), nested Block
     gen_block   CodeBlock (new scope: declarations take fresh slots, the stack offset is restored
                 at the end; `pop` emits nothing without arrays), IfBlock (labels else_N,
                 end_else_N allocated first; condition with if_true = (), if_false = goto else),
                 LoopBlock (labels loop_N, continue_N, break_N; `loop:` cond body `continue:` cont
                 `j loop; halt` `break:`); `for` is CodeBlock [init; LoopBlock with cont]
     gen_func    the implicit `return;` of an `empty` function: `lwso [r1], [fp], -w; j [r1]; halt`

   F_stmt: int locals (declaration, assignment, compound assignment) with right-hand sides in the
   int-operand fragment of LowerBoolModel; bool locals with boolean right-hand sides; if / else;
   while / for with break and continue; nested blocks with their own locals; write(b) for a byte
   literal, a char literal or `(e is byte)`; writeln().  Locals are numbered in declaration order
   per kind (int / bool); a block's locals disappear at its end and their numbers and slots are
   reused. *)
From Coq Require Import ZArith List Bool Lia String.
From HidV Require Import Machine GenTables OpTables LowerBoolModel.
Import ListNotations.
Open Scope Z_scope.

(* ---------- source fragment ---------- *)
Inductive wexpr :=
| WrLit (z : Z)                    (* a byte literal that is not a character literal *)
| WrChar (c : Z)                   (* 'c' *)
| WrByte (o : iopd).               (* (o is byte) *)
Inductive stmt :=
| SDeclI (o : iopd)               (* int x = o;   x becomes the next int local *)
| SAssignI (i : nat) (o : iopd)   (* xi = o;  (xi op= e is xi = xi op e) *)
| SDeclB (e : bexpr)              (* bool p = e; *)
| SAssignB (j : nat) (e : bexpr)
| SWrite (x : wexpr)
| SWriteln
| SIf (c : bexpr) (s1 s2 : stmts)
| SWhile (c : bexpr) (body cont : stmts)     (* LoopBlock; cont is the `for` continuation *)
| SBlock (ss : stmts)
| SBreak
| SContinue
with stmts := SNil | SCons (s : stmt) (ss : stmts).

(* ---------- self.local_vars / self.stack for the fragment ---------- *)
Record senv := mksenv {
  ioffs : list Z;                 (* frame offsets of the int locals in scope, in declaration order *)
  boffs : list Z;                 (* ... of the bool locals *)
  ws : Z;                         (* self.word_size *)
  top : Z }.                      (* self.stack.offset *)
Definition env_of (S : senv) : env :=
  mkenv (fun i => nth i (ioffs S) 0) (fun j => nth j (boffs S) 0) (ws S) (top S).
Definition push_int (S : senv) : senv := mksenv (ioffs S ++ [top S + ws S]) (boffs S) (ws S) (top S + ws S).
Definition push_bool (S : senv) : senv := mksenv (ioffs S) (boffs S ++ [top S + 1]) (ws S) (top S + 1).

(* ---------- statements without control flow ---------- *)
(* Declaration of an int: bubble = eval_expr(r1, init, keep=True); a computed value is already
   pushed (frame_size == word_size); a literal / local is fetched (get_fast) and pushed *)
Definition decl_int (S : senv) (o : iopd) : list aline :=
  let E := env_of S in
  let (c0, bub) := eval_opd E (top S) R1 o true in
  match bub with
  | BuPushed _ => c0
  | _ => let (c1, v) := pop_value R1 bub in
         c0 ++ c1 ++ [AInstr (ASwso (SReg RFp) (SLit (- (top S + ws S))) v)]
  end.
(* Assignment to an int local: value = get_expr_value(r1, e); Indirect.set *)
Definition assign_int (S : senv) (i : nat) (o : iopd) : list aline :=
  let E := env_of S in
  let (c0, bub) := eval_opd E (top S) R1 o false in
  let (c1, v) := pop_value R1 bub in
  c0 ++ c1 ++ [AInstr (ASwso (SReg RFp) (SLit (- nth i (ioffs S) 0)) v)].
(* write(b): val = get_expr_value(r1, arg); yield val.  IntToByte switches the bubble's accessor to
   byte access: a literal is masked, a frame slot is read with lbso, State(r1) with `lbs [r1], r1` *)
Definition lower_write (S : senv) (x : wexpr) : list aline :=
  match x with
  | WrLit z => [AInstr (AYield (SLit z))]
  | WrChar c => [AInstr (AYield (SChar c))]
  | WrByte o =>
      let (c0, bub) := eval_opd (env_of S) (top S) R1 o false in
      c0 ++ match bub with
            | BuImm z => [AInstr (AYield (SLit (z mod 256)))]
            | BuLocal off | BuPushed off =>
                [AInstr (ALbso R1 (SReg RFp) (SLit (- off))); AInstr (AYield (SReg R1))]
            | BuReg r => [AInstr (ALbs R1 (SRegAddr r)); AInstr (AYield (SReg R1))]
            end
  end.

(* ---------- gen_stmts / gen_block ---------- *)
(* li = self.loop_info[-1]: (continue label, break label).  Result: code, environment after the
   statement, label state, exited (gen_stmts returned early on break / continue). *)
Fixpoint lower_stmt (S : senv) (li : option (label * label)) (s : stmt) (st : lstate)
  : list aline * senv * lstate * bool :=
  match s with
  | SDeclI o => (decl_int S o, push_int S, st, false)
  | SAssignI i o => (assign_int S i o, S, st, false)
  | SDeclB e => let (c, st') := declare_bool (env_of S) e st in (c, push_bool S, st', false)
  | SAssignB j e => let (c, st') := assign_bool (env_of S) (nth j (boffs S) 0) e st in (c, S, st', false)
  | SWrite x => (lower_write S x, S, st, false)
  | SWriteln => ([AInstr (AYield (SChar 10))], S, st, false)
  | SIf c s1 s2 =>
      let (else_label, st1) := add_label LElse st in
      let (end_else, st2) := add_label LEndElse st1 in
      let (cc, st3) := lower_branch (env_of S) c [] (goto else_label) st2 in
      let '(c1, _, st4, _) := lower_stmts S li s1 st3 in
      let '(c2, _, st5, _) := lower_stmts S li s2 st4 in
      (cc ++ c1 ++ goto end_else ++ [ALabel else_label] ++ c2 ++ [ALabel end_else], S, st5, false)
  | SWhile c body cont =>
      let (loop_start, st1) := add_label LLoop st in
      let (loop_continue, st2) := add_label LContinue st1 in
      let (loop_break, st3) := add_label LBreak st2 in
      let (cc, st4) := lower_branch (env_of S) c [] (goto loop_break) st3 in
      let '(c1, _, st5, _) := lower_stmts S (Some (loop_continue, loop_break)) body st4 in
      let '(c2, _, st6, _) := lower_stmts S li cont st5 in
      ([ALabel loop_start] ++ cc ++ c1 ++ [ALabel loop_continue] ++ c2 ++ goto loop_start ++ [ALabel loop_break],
       S, st6, false)
  | SBlock ss => let '(c, _, st', _) := lower_stmts S li ss st in (c, S, st', false)
  | SBreak => (match li with Some (_, lb) => goto lb | None => [] end, S, st, true)
  | SContinue => (match li with Some (lc, _) => goto lc | None => [] end, S, st, true)
  end
with lower_stmts (S : senv) (li : option (label * label)) (ss : stmts) (st : lstate)
  : list aline * senv * lstate * bool :=
  match ss with
  | SNil => ([], S, st, false)
  | SCons s r =>
      let '(c, S1, st1, ex) := lower_stmt S li s st in
      if ex then (c, S1, st1, true)
      else let '(cr, S2, st2, ex2) := lower_stmts S1 li r st1 in (c ++ cr, S2, st2, ex2)
  end.

(* the body of `empty f(...) { ss }`: the statements, then the implicit `return;`
   (return_address.get(r1); reset_ap(0) emits nothing; goto(ra)) unless the statements exited *)
Definition lower_body (S : senv) (ss : stmts) (st : lstate) : list aline * lstate :=
  let '(c, _, st', _) := lower_stmts S None ss st in
  (c ++ [AInstr (ALwso R1 (SReg RFp) (SLit (- ws S))); AInstr (AJump (SReg R1)); AInstr AHaltI], st').

(* the frame of `empty @is_you(int a0 .. a(n-1))`: return address, then the parameters *)
Definition is_you_senv (w : Z) (nparams : nat) : senv :=
  mksenv (map (fun i => (Z.of_nat i + 2) * w) (seq 0 nparams)) [] w ((Z.of_nat nparams + 1) * w).

(* ---------- the maximum frame offset the lowering of a statement list reaches ---------- *)
Definition zmax := Z.max.
Definition need_int (S : senv) (o : iopd) (keep : bool) : Z := top S + Z.of_nat (temps o keep) * ws S.
Fixpoint need_stmt (S : senv) (s : stmt) : Z * senv :=
  match s with
  | SDeclI o => (zmax (need_int S o true) (top S + ws S), push_int S)
  | SAssignI _ o => (need_int S o false, S)
  | SDeclB e =>
      (* a BooleanOp is lowered with its result byte already reserved; anything else is evaluated
         first and the byte is pushed afterwards *)
      (match e with
       | BCmp _ _ _ | BAnd _ _ | BOr _ _ => top S + 1 + Z.of_nat (temps_b e) * ws S
       | _ => zmax (top S + Z.of_nat (temps_b e) * ws S) (top S + 1)
       end, push_bool S)
  | SAssignB _ e => (top S + Z.of_nat (temps_b e) * ws S, S)
  | SWrite (WrByte o) => (need_int S o false, S)
  | SWrite _ | SWriteln | SBreak | SContinue => (top S, S)
  | SIf c s1 s2 => (zmax (top S + Z.of_nat (temps_b c) * ws S) (zmax (need_stmts S s1) (need_stmts S s2)), S)
  | SWhile c b k => (zmax (top S + Z.of_nat (temps_b c) * ws S) (zmax (need_stmts S b) (need_stmts S k)), S)
  | SBlock ss => (need_stmts S ss, S)
  end
with need_stmts (S : senv) (ss : stmts) : Z :=
  match ss with
  | SNil => top S
  | SCons s r => let (n, S1) := need_stmt S s in zmax n (need_stmts S1 r)
  end.
