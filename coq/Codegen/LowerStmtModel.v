(* Component `lowerstmt` (DESIGN §3.6 `Lower`, C01_partial): hand model of how hidc lowers the
   STATEMENTS of a core fragment, on top of LowerBoolModel (expressions).

   Source: hidc/codegen/generator.py
     gen_stmts   Declaration (push_expr(r1, init)), Assignment / IncAssignment to a local
                 (get_expr_value(r1, e); access.set), Expression statement write(byte) / writeln()
                 (eval_func_call builtins: get_expr_value(r1, arg); yield), BreakStatement /
                 ContinueStatement (goto the loop's label; `return True`: the rest of the
                 statement list is not generated), nested Block
     gen_block   CodeBlock (new scope: declarations take fresh slots, the stack offset is restored
                 at the end; `pop` emits nothing without arrays), IfBlock (labels else_N,
                 end_else_N allocated first; condition with if_true = (), if_false = goto else),
                 LoopBlock (labels loop_N, continue_N, break_N; `loop:` cond body `continue:` cont
                 `j loop; halt` `break:`); `for` is CodeBlock [init; LoopBlock with cont]
     gen_func    the implicit `return;` of an `empty` function: `lwso [r1], [fp], -w; j [r1]; halt`

   F_stmt: int locals (declaration, assignment, compound assignment) with right-hand sides in the
   int-operand fragment of LowerBoolModel; bool locals with boolean right-hand sides; if / else;
   while / for with break and continue; nested blocks with their own locals; write(b) for a byte
   literal, a char literal or `(e is byte)`; writeln(); write / writeln of an int or a bool (runtime
   library); a division at the root of an int initialiser / right-hand side (`int x = a / b`,
   `x %= b`: checked build, division guard); calls of the program's functions as statements,
   initialisers and right-hand sides (eval_func_call); `return;` / `return e;`.  Locals are numbered
   in declaration order per kind (int / bool); a block's locals disappear at its end and their
   numbers and slots are reused.
   Whole programs (end of the file): gen_func (label, entry stack guard, body), the generation
   order of functions (label_for_func / make_funcs), gen_lines (state section, code section). *)
From Coq Require Import ZArith List Bool Lia String.
From HidV Require Import Machine GenTables OpTables DecimalSpec LowerBoolModel.
Import ListNotations.
Open Scope Z_scope.

(* ---------- source fragment ---------- *)
Inductive wexpr :=
| WrLit (z : Z)                    (* a byte literal that is not a character literal *)
| WrChar (c : Z)                   (* 'c' *)
| WrByte (o : iopd).               (* (o is byte) *)
(* what happens to the result of a call *)
Inductive dest :=
| DNone                            (* f(args);                  (expression statement) *)
| DDecl                            (* int x = f(args);          x becomes the next int local *)
| DAssign (i : nat)                (* xi = f(args); *)
| DAssignG (g : nat).              (* g = f(args);  for an int global *)
Inductive stmt :=
| SDeclI (o : iopd)               (* int x = o;   x becomes the next int local *)
| SAssignI (i : nat) (o : iopd)   (* xi = o;  (xi op= e is xi = xi op e) *)
| SDeclB (e : bexpr)              (* bool p = e; *)
| SAssignB (j : nat) (e : bexpr)
| SWrite (x : wexpr)
| SWriteln
| SWriteI (ln : bool) (o : iopd)  (* write(o) / writeln(o) for an int: the library routine write_int *)
| SWriteB (ln : bool) (e : bexpr) (* write(e) / writeln(e) for a bool: write_bool *)
| SIf (c : bexpr) (s1 s2 : stmts)
| SWhile (c : bexpr) (body cont : stmts)     (* LoopBlock; cont is the `for` continuation *)
| SBlock (ss : stmts)
| SBreak
| SContinue
| SDeclDiv (op : src_arith) (a b : iopd)             (* int x = a / b;  int x = a % b;  (a, b without / %) *)
| SAssignDiv (i : nat) (op : src_arith) (a b : iopd) (* xi = a / b;  xi /= b is xi = xi / b *)
| SCall (d : dest) (f : nat) (args : list iopd)      (* a call of the f-th function of the program *)
| SReturn (r : option iopd)                          (* return;  return o; *)
| SAssignG (g : nat) (o : iopd)                      (* g = o;  g op= e is g = g op e;  g an int global *)
| SAssignGDiv (g : nat) (op : src_arith) (a b : iopd) (* g = a / b; *)
| SAssignBG (h : nat) (e : bexpr)                    (* h = e;  for a bool global *)
with stmts := SNil | SCons (s : stmt) (ss : stmts).

(* ---------- self.local_vars / self.stack for the fragment ---------- *)
Record senv := mksenv {
  ioffs : list Z;                 (* frame offsets of the int locals in scope, in declaration order *)
  boffs : list Z;                 (* ... of the bool locals *)
  ws : Z;                         (* self.word_size *)
  top : Z }.                      (* self.stack.offset *)
Definition env_of (S : senv) : env :=
  mkenv (fun i => nth i (ioffs S) 0) (fun j => nth j (boffs S) 0) (ws S) (top S).
Definition push_int (S : senv) : senv := mksenv (ioffs S ++ [top S + ws S]) (boffs S) (ws S) (top S + ws S).
Definition push_bool (S : senv) : senv := mksenv (ioffs S) (boffs S ++ [top S + 1]) (ws S) (top S + 1).

(* ---------- statements without control flow ---------- *)
(* Declaration of an int: bubble = eval_expr(r1, init, keep=True); a computed value is already
   pushed (frame_size == word_size); a literal / local is fetched (get_fast) and pushed *)
Definition decl_int (S : senv) (o : iopd) : list aline :=
  let E := env_of S in
  match o with
  | OByte v =>         (* push_expr of a ByteToInt: clear a word, then push the byte into its low byte *)
      [AInstr (ASwso (SReg RFp) (SLit (- (top S + ws S))) (SLit 0));
       AInstr (ALbso R1 (SReg RFp) (SLit (- byte_off E v)));
       AInstr (ASbso (SReg RFp) (SLit (- (top S + ws S))) (SReg R1))]
  | _ =>
  let (c0, bub) := eval_opd E (top S) R1 o true in
  match bub with
  | BuPushed _ => c0
  | _ => let (c1, v) := pop_value R1 bub in
         c0 ++ c1 ++ [AInstr (ASwso (SReg RFp) (SLit (- (top S + ws S))) v)]
  end
  end.
(* Assignment to an int local: value = get_expr_value(r1, e); Indirect.set *)
Definition assign_int (S : senv) (i : nat) (o : iopd) : list aline :=
  let E := env_of S in
  let (c0, bub) := eval_opd E (top S) R1 o false in
  let (c1, v) := pop_value R1 bub in
  c0 ++ c1 ++ [AInstr (ASwso (SReg RFp) (SLit (- nth i (ioffs S) 0)) v)].
(* write(b): val = get_expr_value(r1, arg); yield val.  IntToByte switches the bubble's accessor to
   byte access: a literal is masked, a frame slot is read with lbso, State(r1) with `lbs [r1], r1` *)
Definition lower_write (S : senv) (x : wexpr) : list aline :=
  match x with
  | WrLit z => [AInstr (AYield (SLit z))]
  | WrChar c => [AInstr (AYield (SChar c))]
  | WrByte o =>
      let (c0, bub) := eval_opd (env_of S) (top S) R1 o false in
      c0 ++ match bub with
            | BuImm ch z => [AInstr (AYield (lit_sym ch (z mod 256)))]
            | BuLocal _ off | BuPushed off | BuPushedB off =>
                [AInstr (ALbso R1 (SReg RFp) (SLit (- off))); AInstr (AYield (SReg R1))]
            | BuReg r | BuRegB r => [AInstr (ALbs R1 (SRegAddr r)); AInstr (AYield (SReg R1))]
            end
  end.

(* eval_func_call for a library routine taking one argument (write of an int / a bool):
     end_call = add_label('end_call');  offset = self.stack.offset
     reserve_word(); set(end_call)                     swso [fp], -(top+w), end_call_N
     push_expr(r1, arg)                                the argument, below the return address
     add [fp], [fp], -offset;  goto(routine);  end_call_N:  add [fp], [fp], offset;  pop
   The label is allocated BEFORE the argument's labels. *)
Definition after_ra (S : senv) : senv := mksenv (ioffs S) (boffs S) (ws S) (top S + ws S).
Definition call_tail (S : senv) (ec : label) (f : stdlab) (ln : bool) : list aline :=
  [AInstr (AArith Aadd RFp (SReg RFp) (SLit (- top S))); AInstr (AJump (SStd f)); AInstr AHaltI;
   ALabel ec; AInstr (AArith Aadd RFp (SReg RFp) (SLit (top S)))]
  ++ (if ln then [AInstr (AYield (SChar 10))] else []).           (* writeln: then yield '\n' *)
Definition push_ra (S : senv) (ec : label) : aline :=
  AInstr (ASwso (SReg RFp) (SLit (- (top S + ws S))) (SLab ec)).
(* len(str(max_signed + 1)): the longest decimal representation of an int *)
Definition max_digits (w : Z) : Z := ndigits (2 ^ (8 * w - 1)).

(* ---------- division in a checked build (arith_op_reg_arg) ----------
     j div_allowed_N;  hne right, 0;  j division_by_zero;  halt;  div_allowed_N:  div|mod r, left, right
   eval_expr's BinaryArithmeticOp case around it is the one of eval_opd (compare_operands are its
   first three lines); the label is allocated after the operands are lowered *)
Definition div_guard (da : label) (rhs : sym) : list aline :=
  [AInstr (AJump (SLab da)); AInstr (AHc Cne rhs (SLit 0)); AInstr (AJump (SStd LibDivZero)); AInstr AHaltI;
   ALabel da].
Definition eval_div (E : env) (top : Z) (r_out : reg) (op : src_arith) (a b : iopd) (keep : bool) (da : label)
  : list aline * bubble :=
  let '(c, lhs, rhs) := compare_operands (with_top E top) a b in
  finish_opd E top r_out keep (c ++ div_guard da rhs ++ [AInstr (AArith (arith_instr op) r_out lhs rhs)]).
(* Declaration: push_expr -> eval_expr(r1, e, keep=True), the bubble is already pushed *)
Definition decl_div (S : senv) (op : src_arith) (a b : iopd) (da : label) : list aline :=
  fst (eval_div (env_of S) (top S) R1 op a b true da).
(* Assignment: get_expr_value(r1, e) = State(r1); Indirect.set *)
Definition assign_div (S : senv) (i : nat) (op : src_arith) (a b : iopd) (da : label) : list aline :=
  fst (eval_div (env_of S) (top S) R1 op a b false da)
  ++ [AInstr (ASwso (SReg RFp) (SLit (- nth i (ioffs S) 0)) (SReg R1))].

(* ---------- eval_func_call for a function of the program ----------
     end_call = add_label('end_call');  offset = self.stack.offset
     reserve_word(); set(end_call)                     swso [fp], -(top+w), end_call_N
     for arg in args: push_expr(r1, arg)               one word each, below the return address
     add [fp], [fp], -offset;  goto(func_f_0);  end_call_N:  add [fp], [fp], offset
     pop(bubble);  return reserve_type(ret_type)       the result is where the return address was
   Declaration: the bubble is the new local (no code).  Assignment: get_expr_value(r1, call) =
   `lwso [r1], [fp], -(top+w)`, then Indirect.set.  Expression statement: popped (no code). *)
Fixpoint push_args (S : senv) (args : list iopd) : list aline :=
  match args with
  | [] => []
  | o :: r => decl_int S o ++ push_args (after_ra S) r
  end.
(* Assignment to an int global: dest = the global's own word (access.immed), so
   get_expr_value(dest, e) computes INTO the global; State.set emits `mov` unless the value is
   already there *)
Definition assign_glob (S : senv) (g : nat) (o : iopd) : list aline :=
  let (c0, bub) := eval_opd (env_of S) (top S) (RGlob g) o false in
  let (c1, v) := pop_value (RGlob g) bub in
  c0 ++ c1 ++ (if is_state_of (RGlob g) v then [] else [AInstr (AMov (RGlob g) v)]).
Definition assign_glob_div (S : senv) (g : nat) (op : src_arith) (a b : iopd) (da : label) : list aline :=
  fst (eval_div (env_of S) (top S) (RGlob g) op a b false da).
(* Assignment to a bool global: dest = r1 (the accessor is StateByte); value = get_expr_value(r1, e);
   StateByte.set: `sbs var_h, value` *)
Definition assign_bglob (E : env) (h : nat) (e : bexpr) (st : lstate) : list aline * lstate :=
  let '(c, v, st') := eval_bool_value E R1 e st in
  (c ++ [AInstr (ASbs (SRegAddr (RBGlob h)) v)], st').
Definition func_label (f : nat) : label := (LFunc f, 0%nat).
Definition call_seq (S : senv) (ec : label) (f : nat) : list aline :=
  [AInstr (AArith Aadd RFp (SReg RFp) (SLit (- top S))); AInstr (AJump (SLab (func_label f))); AInstr AHaltI;
   ALabel ec; AInstr (AArith Aadd RFp (SReg RFp) (SLit (top S)))].
Definition lower_call (S : senv) (ec : label) (d : dest) (f : nat) (args : list iopd) : list aline :=
  [push_ra S ec] ++ push_args (after_ra S) args ++ call_seq S ec f ++
  match d with
  | DAssign i => [AInstr (ALwso R1 (SReg RFp) (SLit (- (top S + ws S))));
                  AInstr (ASwso (SReg RFp) (SLit (- nth i (ioffs S) 0)) (SReg R1))]
  | DAssignG g => [AInstr (ALwso (RGlob g) (SReg RFp) (SLit (- (top S + ws S))))]
  | _ => []
  end.
(* ReturnStatement: retval = get_expr_value(r0, e); ra = return_address.get(r1); the value goes to
   the callee's slot 0 (where the return address was); goto(ra) *)
Definition lower_return (S : senv) (r : option iopd) : list aline :=
  match r with
  | None => [AInstr (ALwso R1 (SReg RFp) (SLit (- ws S))); AInstr (AJump (SReg R1)); AInstr AHaltI]
  | Some o =>
      let (c0, bub) := eval_opd (env_of S) (top S) R0 o false in
      let (c1, v) := pop_value R0 bub in
      c0 ++ c1 ++ [AInstr (ALwso R1 (SReg RFp) (SLit (- ws S))); AInstr (ASwso (SReg RFp) (SLit (- ws S)) v);
                   AInstr (AJump (SReg R1)); AInstr AHaltI]
  end.

(* ---------- gen_stmts / gen_block ---------- *)
(* li = self.loop_info[-1]: (continue label, break label).  Result: code, environment after the
   statement, label state, exited (gen_stmts returned early on break / continue). *)
Fixpoint lower_stmt (S : senv) (li : option (label * label)) (s : stmt) (st : lstate)
  : list aline * senv * lstate * bool :=
  match s with
  | SDeclI o => (decl_int S o, push_int S, st, false)
  | SAssignI i o => (assign_int S i o, S, st, false)
  | SDeclB e => let (c, st') := declare_bool (env_of S) e st in (c, push_bool S, st', false)
  | SAssignB j e => let (c, st') := assign_bool (env_of S) (nth j (boffs S) 0) e st in (c, S, st', false)
  | SWrite x => (lower_write S x, S, st, false)
  | SWriteln => ([AInstr (AYield (SChar 10))], S, st, false)
  | SWriteI ln o =>
      let (ec, st1) := add_label LEndCall st in
      ([push_ra S ec] ++ decl_int (after_ra S) o ++ call_tail S ec LibWriteInt ln, S, st1, false)
  | SWriteB ln e =>
      let (ec, st1) := add_label LEndCall st in
      let (c, st2) := declare_bool (env_of (after_ra S)) e st1 in
      ([push_ra S ec] ++ c ++ call_tail S ec LibWriteBool ln, S, st2, false)
  | SIf c s1 s2 =>
      let (else_label, st1) := add_label LElse st in
      let (end_else, st2) := add_label LEndElse st1 in
      let (cc, st3) := lower_branch (env_of S) c [] (goto else_label) st2 in
      let '(c1, _, st4, _) := lower_stmts S li s1 st3 in
      let '(c2, _, st5, _) := lower_stmts S li s2 st4 in
      (cc ++ c1 ++ goto end_else ++ [ALabel else_label] ++ c2 ++ [ALabel end_else], S, st5, false)
  | SWhile c body cont =>
      let (loop_start, st1) := add_label LLoop st in
      let (loop_continue, st2) := add_label LContinue st1 in
      let (loop_break, st3) := add_label LBreak st2 in
      let (cc, st4) := lower_branch (env_of S) c [] (goto loop_break) st3 in
      let '(c1, _, st5, _) := lower_stmts S (Some (loop_continue, loop_break)) body st4 in
      let '(c2, _, st6, _) := lower_stmts S li cont st5 in
      ([ALabel loop_start] ++ cc ++ c1 ++ [ALabel loop_continue] ++ c2 ++ goto loop_start ++ [ALabel loop_break],
       S, st6, false)
  | SBlock ss => let '(c, _, st', _) := lower_stmts S li ss st in (c, S, st', false)
  | SBreak => (match li with Some (_, lb) => goto lb | None => [] end, S, st, true)
  | SContinue => (match li with Some (lc, _) => goto lc | None => [] end, S, st, true)
  | SDeclDiv op a b => let (da, st1) := add_label LDivAllowed st in (decl_div S op a b da, push_int S, st1, false)
  | SAssignDiv i op a b => let (da, st1) := add_label LDivAllowed st in (assign_div S i op a b da, S, st1, false)
  | SCall d f args =>
      let (ec, st1) := add_label LEndCall st in
      (lower_call S ec d f args, match d with DDecl => push_int S | _ => S end, st1, false)
  | SReturn r => (lower_return S r, S, st, true)
  | SAssignG g o => (assign_glob S g o, S, st, false)
  | SAssignGDiv g op a b => let (da, st1) := add_label LDivAllowed st in (assign_glob_div S g op a b da, S, st1, false)
  | SAssignBG h e => let (c, st') := assign_bglob (env_of S) h e st in (c, S, st', false)
  end
with lower_stmts (S : senv) (li : option (label * label)) (ss : stmts) (st : lstate)
  : list aline * senv * lstate * bool :=
  match ss with
  | SNil => ([], S, st, false)
  | SCons s r =>
      let '(c, S1, st1, ex) := lower_stmt S li s st in
      if ex then (c, S1, st1, true)
      else let '(cr, S2, st2, ex2) := lower_stmts S1 li r st1 in (c ++ cr, S2, st2, ex2)
  end.

Fixpoint stmts_snoc (ss : stmts) (s : stmt) : stmts :=
  match ss with SNil => SCons s SNil | SCons x r => SCons x (stmts_snoc r s) end.
(* the body of `empty f(...) { ss }`: the statements, then the implicit `return;`
   (return_address.get(r1); reset_ap(0) emits nothing; goto(ra)) unless the statements exited *)
Definition lower_body (S : senv) (ss : stmts) (st : lstate) : list aline * lstate :=
  let '(c, _, st', _) := lower_stmts S None ss st in
  (c ++ [AInstr (ALwso R1 (SReg RFp) (SLit (- ws S))); AInstr (AJump (SReg R1)); AInstr AHaltI], st').

(* the frame of `empty @is_you(int a0 .. a(n-1))`: return address, then the parameters *)
Definition is_you_senv (w : Z) (nparams : nat) : senv :=
  mksenv (map (fun i => (Z.of_nat i + 2) * w) (seq 0 nparams)) [] w ((Z.of_nat nparams + 1) * w).

(* ---------- the maximum frame offset the lowering of a statement list reaches ---------- *)
Definition zmax := Z.max.
Definition need_int (S : senv) (o : iopd) (keep : bool) : Z := top S + Z.of_nat (temps o keep) * ws S.
Definition need_bool_decl (S : senv) (e : bexpr) : Z * senv :=
  (* a BooleanOp is lowered with its result byte already reserved; anything else is evaluated
     first and the byte is pushed afterwards *)
  (match e with
   | BCmp _ _ _ | BAnd _ _ | BOr _ _ => top S + 1 + Z.of_nat (temps_b e) * ws S
   | _ => zmax (top S + Z.of_nat (temps_b e) * ws S) (top S + 1)
   end, push_bool S).
Fixpoint need_args (S : senv) (args : list iopd) : Z :=
  match args with
  | [] => top S
  | o :: r => zmax (zmax (need_int S o true) (top S + ws S)) (need_args (after_ra S) r)
  end.
Fixpoint need_stmt (S : senv) (s : stmt) : Z * senv :=
  match s with
  | SDeclI o => (zmax (need_int S o true) (top S + ws S), push_int S)
  | SAssignI _ o => (need_int S o false, S)
  | SDeclB e => need_bool_decl S e
  | SAssignB _ e => (top S + Z.of_nat (temps_b e) * ws S, S)
  | SWrite (WrByte o) => (need_int S o false, S)
  | SWrite _ | SWriteln | SBreak | SContinue => (top S, S)
  | SWriteI _ o =>
      (* the argument below the return address; write_int builds its digits downwards from just
         below ITS return address, possibly past the argument word (checkpoints.update) *)
      (zmax (zmax (need_int (after_ra S) o true) (top S + 2 * ws S))
            (top S + 2 * ws S + Z.max 0 (max_digits (ws S) - ws S)), S)
  | SWriteB _ e => (fst (need_bool_decl (after_ra S) e), S)
  | SIf c s1 s2 => (zmax (top S + Z.of_nat (temps_b c) * ws S) (zmax (need_stmts S s1) (need_stmts S s2)), S)
  | SWhile c b k => (zmax (top S + Z.of_nat (temps_b c) * ws S) (zmax (need_stmts S b) (need_stmts S k)), S)
  | SBlock ss => (need_stmts S ss, S)
  | SDeclDiv op a b => (zmax (need_int S (OArith op a b) true) (top S + ws S), push_int S)
  | SAssignDiv _ op a b => (need_int S (OArith op a b) false, S)
  | SCall d _ args => (zmax (top S + ws S) (need_args (after_ra S) args), match d with DDecl => push_int S | _ => S end)
  | SReturn (Some o) => (need_int S o false, S)
  | SReturn None => (top S, S)
  | SAssignG _ o => (need_int S o false, S)
  | SAssignGDiv _ op a b => (need_int S (OArith op a b) false, S)
  | SAssignBG _ e => (top S + Z.of_nat (temps_b e) * ws S, S)
  end
with need_stmts (S : senv) (ss : stmts) : Z :=
  match ss with
  | SNil => top S
  | SCons s r => let (n, S1) := need_stmt S s in zmax n (need_stmts S1 r)
  end.

(* ================================================================================= *)
(* functions and whole programs                                                       *)
(* ================================================================================= *)
(* a function `int|empty f(int a0, .., int a(n-1)) { body }`; the body is the CHECKED tree, which
   ends with the `return;` the type checker appends when the end of the body is reachable *)
Record fundef := mkfun { fn_params : nat; fn_body : stmts }.
Definition fun_need (w : Z) (fd : fundef) : Z := need_stmts (is_you_senv w (fn_params fd)) (fn_body fd).

(* gen_func: label, entry stack guard (checked build), body *)
Definition lower_fun (w : Z) (f : nat) (fd : fundef) (st : lstate) : list aline * lstate :=
  let (no, st1) := add_label LNoOverflow st in
  let S := is_you_senv w (fn_params fd) in
  let '(c, _, st2, _) := lower_stmts S None (fn_body fd) st1 in
  ([ALabel (func_label f); AInstr (AJump (SLab no)); AInstr (AArith Asub R1 (SReg RFp) (SReg RAp));
    AInstr (AHc Cgeu (SReg R1) (SLit (fun_need w fd))); AInstr (AJump (SStd LibStackOverflow)); AInstr AHaltI;
    ALabel no] ++ c, st2).

(* label_for_func / make_funcs: a function is generated when it is first referenced, in FIFO
   order (appendleft / pop).  References are made while code is generated, so calls after a
   statement that exits (not generated) do not count. *)
Definition exits (s : stmt) : bool := match s with SBreak | SContinue | SReturn _ => true | _ => false end.
Fixpoint calls_stmt (s : stmt) : list nat :=
  match s with
  | SCall _ f _ => [f]
  | SIf _ s1 s2 => calls_stmts s1 ++ calls_stmts s2
  | SWhile _ b k => calls_stmts b ++ calls_stmts k
  | SBlock ss => calls_stmts ss
  | _ => []
  end
with calls_stmts (ss : stmts) : list nat :=
  match ss with
  | SNil => []
  | SCons s r => calls_stmt s ++ (if exits s then [] else calls_stmts r)
  end.
Fixpoint add_new (seen new : list nat) : list nat :=
  match new with
  | [] => seen
  | f :: r => add_new (if existsb (Nat.eqb f) seen then seen else seen ++ [f]) r
  end.
Fixpoint gen_order (fuel : nat) (funs : list fundef) (seen : list nat) (k : nat) : list nat :=
  match fuel with
  | O => seen
  | S fuel' =>
      match nth_error seen k with
      | None => seen
      | Some f =>
          let cs := match nth_error funs f with Some fd => calls_stmts (fn_body fd) | None => [] end in
          gen_order fuel' funs (add_new seen cs) (S k)
      end
  end.
Definition program_order (funs : list fundef) : list nat := gen_order (S (List.length funs)) funs [0%nat] 0.

Fixpoint lower_funs (w : Z) (funs : list fundef) (ord : list nat) (st : lstate) : list aline :=
  match ord with
  | [] => []
  | f :: r =>
      match nth_error funs f with
      | Some fd => let (c, st1) := lower_fun w f fd st in c ++ lower_funs w funs r st1
      | None => []
      end
  end.
(* the function labels func_<name>_0 are taken from the start *)
Definition st_init : lstate := fun n => match n with LFunc _ => 1%nat | _ => 0%nat end.
(* the code section up to the runtime library; function 0 is the entry point @is_you *)
Definition lower_program (w : Z) (funs : list fundef) : list aline :=
  lower_funs w funs (program_order funs) st_init.

(* gen_lines, `%section state`: ap, fp, r0, r1, r2, the stack (stack_size words), the entry
   arguments (last parameter first), the return address of the entry point *)
Inductive dline :=
| DLab (name : string)                 (* name: *)
| DWordSym (name val : string)         (* name: .word val   (name may be empty) *)
| DZeroW (n : Z)                       (* .zero <n>w *)
| DArg (name : string)                 (* .arg name word *)
| DByteSym (val : string).             (* .byte val *)
Open Scope string_scope.
Definition param_name (i : nat) : string := "a" ++ dec (Z.of_nat i).
Definition state_section (stack_size : Z) (nparams : nat) : list dline :=
  [DWordSym "ap" "stack_start"; DWordSym "fp" "stack_end"; DWordSym "r0" "0"; DWordSym "r1" "0"; DWordSym "r2" "0";
   DLab "stack_start"; DZeroW stack_size]
  ++ map (fun i => DArg (param_name i)) (rev (seq 0 nparams))
  ++ [DWordSym "" "all_is_win"; DLab "stack_end"].
Definition print_dline (d : dline) : string :=
  match d with
  | DLab n => n ++ ":"
  | DWordSym "" v => ".word " ++ v
  | DWordSym n v => n ++ ": .word " ++ v
  | DZeroW n => ".zero " ++ dec n ++ "w"
  | DArg n => ".arg " ++ n ++ " word"
  | DByteSym v => ".byte " ++ v
  end.
Close Scope string_scope.

(* ---------- global variables ---------- *)
(* lookup_var / make_global: a non-const global gets its word in the state section, after
   stack_end, when it is first looked up while code is generated; `globals_order` is that order.
   (const globals with a literal initialiser are immediates: the correspondence folds them.) *)
Inductive gref := GI (g : nat) | GB (h : nat).     (* an int global / a bool global *)
Definition gref_eqb (a b : gref) : bool :=
  match a, b with GI g, GI h | GB g, GB h => Nat.eqb g h | _, _ => false end.
Fixpoint grefs_opd (o : iopd) : list gref :=
  match o with
  | OGlob g => [GI g]
  | OArith _ x y => grefs_opd x ++ grefs_opd y
  | OUn _ x => grefs_opd x
  | OTrunc x => grefs_opd x
  | _ => []
  end.
Fixpoint grefs_b (e : bexpr) : list gref :=
  match e with
  | BVar (BGlobal h) => [GB h]
  | BCmp _ a b => grefs_opd a ++ grefs_opd b
  | BNot e1 => grefs_b e1
  | BAnd e1 e2 | BOr e1 e2 => grefs_b e1 ++ grefs_b e2
  | _ => []
  end.
Fixpoint grefs_stmt (s : stmt) : list gref :=
  match s with
  | SDeclI o | SAssignI _ o | SWriteI _ o | SWrite (WrByte o) | SReturn (Some o) => grefs_opd o
  | SDeclB e | SAssignB _ e | SWriteB _ e => grefs_b e
  | SIf c s1 s2 => grefs_b c ++ grefs_stmts s1 ++ grefs_stmts s2
  | SWhile c b k => grefs_b c ++ grefs_stmts b ++ grefs_stmts k
  | SBlock ss => grefs_stmts ss
  | SDeclDiv _ a b | SAssignDiv _ _ a b => grefs_opd a ++ grefs_opd b
  | SCall d _ args => match d with DAssignG g => [GI g] | _ => [] end ++ flat_map grefs_opd args
  | SAssignG g o => GI g :: grefs_opd o                   (* the target is looked up first *)
  | SAssignGDiv g _ a b => GI g :: grefs_opd a ++ grefs_opd b
  | SAssignBG h e => GB h :: grefs_b e
  | _ => []
  end
with grefs_stmts (ss : stmts) : list gref :=
  match ss with
  | SNil => []
  | SCons s r => grefs_stmt s ++ (if exits s then [] else grefs_stmts r)
  end.
Fixpoint add_newg (seen new : list gref) : list gref :=
  match new with
  | [] => seen
  | f :: r => add_newg (if existsb (gref_eqb f) seen then seen else seen ++ [f]) r
  end.
Definition globals_order (funs : list fundef) : list gref :=
  add_newg [] (flat_map (fun f => match nth_error funs f with Some fd => grefs_stmts (fn_body fd) | None => [] end)
                        (program_order funs)).
(* the state section with the globals: ginit g / binit h = the initial values *)
Open Scope string_scope.
Definition state_section_g (stack_size : Z) (nparams : nat) (funs : list fundef) (ginit binit : nat -> Z) : list dline :=
  state_section stack_size nparams
  ++ flat_map (fun r => match r with
                        | GI g => [DLab (reg_str (RGlob g)); DWordSym "" (dec (ginit g))]
                        | GB h => [DLab (reg_str (RBGlob h)); DByteSym (dec (binit h))]
                        end) (globals_order funs).
Close Scope string_scope.
(* where hidc's layout puts the globals: after stack_end, in that order, a word / a byte each *)
Fixpoint gref_off (w : Z) (r : gref) (l : list gref) : Z :=
  match l with
  | [] => 0
  | x :: t => if gref_eqb x r then 0 else (match x with GI _ => w | GB _ => 1 end) + gref_off w r t
  end.
Definition glob_addr (w stack_size : Z) (nparams : nat) (funs : list fundef) (r : gref) : Z :=
  (stack_size + Z.of_nat nparams + 6) * w + gref_off w r (globals_order funs).
