(* Component `lowerstmt`: compiler-correctness theorems for the statement / function / program
   fragment F_stmt (DESIGN C01), built on LowerBoolProofs (expressions) and on the source semantics
   of LowerStmtSem.v.

   Structure
     2  static well-formedness of the compile-time environment (wf_senv), well-scoped programs,
        the representation relation `rep S s m` (memory m holds store s in the frame laid out by S)
     3  machine lemmas for the instructions new in this fragment (yield, lbs, stores of operands)
     4  the statements without control flow; library calls (write_int / write_bool through
        CallProtocol.call_idiom); division with the checked build's guard; return; the call of a
        function of the program (push_args_runs, user_call_runs)
     5  stmts_runs: ONE induction over the big-step derivation for statements, statement lists and
        calls (recursion is a finite derivation): if, while, break, continue, blocks, calls with
        the callee's entry stack guard, returns, faults
     6  label freshness; theorems on resolved code: stmts_lowering_correct(_gen), body_lowering_correct
     8  whole programs: the executable static check, lower_funs_placed, init_ok,
        program_lowering_correct, program_never_halts; satisfiability examples on the verified VM *)
From Coq Require Import ZArith List Bool Lia.
From HidV Require Import Machine Halts VM Driver WordLemmas MemLemmas GenTables GenStdlib OpTables Idioms
                         Guards StepTactics StdlibBase StdlibStubs DecimalSpec StdlibInt StdlibBool CallProtocol
                         LowerBoolModel LowerBoolProofs LowerStmtModel LowerStmtSem.
Import ListNotations.
Open Scope Z_scope.
Ltac Zify.zify_post_hook ::= Z.to_euclidean_division_equations.

(* ================================================================================= *)
(* 2  well-formed environments, well-scoped programs, representation                   *)
(* ================================================================================= *)
(* well-scoped expressions: variables in scope, literals words, no / % *)
(* push_expr of a ByteToInt at the root (declaration initialiser, argument) has its own code; for
   `(o is byte) is int` with o computed or a global it is outside the model *)
Definition not_trunc (o : iopd) : Prop := match o with OTrunc _ => False | _ => True end.
Definition yscoped (ni nb : nat) (v : yloc) : Prop :=
  match v with YSlot j => (j < nb)%nat | YLow i => (i < ni)%nat end.
Fixpoint oscoped (w : Z) (ng : nat) (ni nb : nat) (o : iopd) : Prop :=
  match o with
  | OLit ch z => - (Machine.W w / 2) <= z < Machine.W w / 2 /\ (ch = true -> 0 <= z <= 255)
  | OVar i => (i < ni)%nat
  | OArith op x y => op_ok op /\ oscoped w ng ni nb x /\ oscoped w ng ni nb y
  | OUn _ x => oscoped w ng ni nb x
  | OGlob g => (g < ng)%nat
  | OTrunc x => oscoped w ng ni nb x /\ match x with OGlob _ | OArith _ _ _ | OUn _ _ => True | _ => False end
  | OByte v => yscoped ni nb v
  end.
Fixpoint bscoped (w : Z) (ng nbg : nat) (ni nb : nat) (e : bexpr) : Prop :=
  match e with
  | BLit _ => True
  | BVar (BLocal j) => (j < nb)%nat
  | BVar (BGlobal h) => (h < nbg)%nat
  | BCmp _ a b => oscoped w ng ni nb a /\ oscoped w ng ni nb b
  | BNot e1 => bscoped w ng nbg ni nb e1
  | BAnd e1 e2 | BOr e1 e2 => bscoped w ng nbg ni nb e1 /\ bscoped w ng nbg ni nb e2
  end.
(* well-scoped statements: (ni, nb) = numbers of int / bool locals in scope; inloop: break /
   continue allowed; lib: what a call needs of the machine (the registers are where hidc puts
   them, the runtime library is loaded); cf f n: function f may be called with n arguments *)
Fixpoint sscoped (w : Z) (ng nbg : nat) (lib : Prop) (cf : nat -> nat -> Prop) (ni nb : nat) (inloop : bool) (s : stmt) : Prop :=
  match s with
  | SDeclI o => oscoped w ng ni nb o /\ not_trunc o
  | SAssignI i o => (i < ni)%nat /\ oscoped w ng ni nb o
  | SDeclB e => bscoped w ng nbg ni nb e
  | SAssignB j e => (j < nb)%nat /\ bscoped w ng nbg ni nb e
  | SWrite (WrByte o) => oscoped w ng ni nb o
  | SWrite _ | SWriteln => True
  | SWriteI _ o => (oscoped w ng ni nb o /\ not_trunc o) /\ lib              (* the runtime library must be there *)
  | SWriteB _ e => bscoped w ng nbg ni nb e /\ lib
  | SIf c s1 s2 => bscoped w ng nbg ni nb c /\ ssscoped w ng nbg lib cf ni nb inloop s1 /\ ssscoped w ng nbg lib cf ni nb inloop s2
  | SWhile c b k => bscoped w ng nbg ni nb c /\ ssscoped w ng nbg lib cf ni nb true b /\ ssscoped w ng nbg lib cf ni nb inloop k
  | SBlock ss => ssscoped w ng nbg lib cf ni nb inloop ss
  | SBreak | SContinue => inloop = true
  | SDeclDiv op a b => (op = SDiv \/ op = SMod) /\ oscoped w ng ni nb a /\ oscoped w ng ni nb b /\ lib
  | SAssignDiv i op a b => (i < ni)%nat /\ (op = SDiv \/ op = SMod) /\ oscoped w ng ni nb a /\ oscoped w ng ni nb b /\ lib
  | SCall dst f args =>
      match dst with DAssign i => (i < ni)%nat | DAssignG g => (g < ng)%nat | _ => True end /\
      cf f (length args) /\ (Forall (oscoped w ng ni nb) args /\ Forall not_trunc args) /\ lib
  | SReturn (Some o) => oscoped w ng ni nb o
  | SReturn None => True
  | SAssignG g o => (g < ng)%nat /\ oscoped w ng ni nb o
  | SAssignGDiv g op a b => (g < ng)%nat /\ (op = SDiv \/ op = SMod) /\ oscoped w ng ni nb a /\ oscoped w ng ni nb b /\ lib
  | SAssignBG h e => (h < nbg)%nat /\ bscoped w ng nbg ni nb e
  end
with ssscoped (w : Z) (ng nbg : nat) (lib : Prop) (cf : nat -> nat -> Prop) (ni nb : nat) (inloop : bool) (ss : stmts) : Prop :=
  match ss with
  | SNil => True
  | SCons s r =>
      sscoped w ng nbg lib cf ni nb inloop s /\
      match s with
      | SDeclI _ | SDeclDiv _ _ _ | SCall DDecl _ _ => ssscoped w ng nbg lib cf (S ni) nb inloop r
      | SDeclB _ => ssscoped w ng nbg lib cf ni (S nb) inloop r
      | _ => ssscoped w ng nbg lib cf ni nb inloop r
      end
  end.

(* ---------- representation ---------- *)
Section Rep.
Variable w : Z.
Variable R : regmap.
Variable lo : Z.          (* lowest address of the stack area the function may use *)
Variable fb : Z.          (* frame base: every local lies strictly below [fp] - fb (fb = w: the return address) *)
Variable gl : Z.          (* the int globals lie at or above gl = stack_end, above every frame *)
Variable ng : nat.        (* the number of int globals *)
Variable nbg : nat.       (* the number of bool globals *)
Notation W := (Machine.W w).
Notation wrap := (Machine.wrap w).
Notation sgn := (Machine.sgn w).
Notation lw := (Machine.lw w).
Notation sw := (Machine.sw w).
Notation r0 := (a_r0 R).
Notation r1 := (a_r1 R).
Notation fp := (a_fp R).
Notation FP := (LowerBoolProofs.FP w R).

(* the compile-time layout: every local's slot lies in (fb, top], distinct locals are disjoint *)
Record wf_senv (S : senv) : Prop := {
  wfs_w : ws S = w;
  wfs_fb : 0 <= fb <= top S;
  wfs_i : forall i, (i < length (ioffs S))%nat -> fb + w <= nth i (ioffs S) 0 <= top S;
  wfs_b : forall j, (j < length (boffs S))%nat -> fb + 1 <= nth j (boffs S) 0 <= top S;
  wfs_ii : forall i i', (i < length (ioffs S))%nat -> (i' < length (ioffs S))%nat -> i <> i' ->
           nth i (ioffs S) 0 + w <= nth i' (ioffs S) 0 \/ nth i' (ioffs S) 0 + w <= nth i (ioffs S) 0;
  wfs_bb : forall j j', (j < length (boffs S))%nat -> (j' < length (boffs S))%nat -> j <> j' ->
           nth j (boffs S) 0 <> nth j' (boffs S) 0;
  wfs_ib : forall i j, (i < length (ioffs S))%nat -> (j < length (boffs S))%nat ->
           nth j (boffs S) 0 <= nth i (ioffs S) 0 - w \/ nth i (ioffs S) 0 + 1 <= nth j (boffs S) 0 }.

(* the ap register lies below the stack area, apart from r0, r1, r2 (hidc: ap is the first state word) *)
Definition ap_sep : Prop :=
  0 <= a_ap R /\ a_ap R + w <= lo /\ (a_ap R + w <= r0 \/ r0 + w <= a_ap R) /\ (a_ap R + w <= r1 \/ r1 + w <= a_ap R) /\
  (a_ap R + w <= a_r2 R \/ a_r2 R + w <= a_ap R).
(* memory m holds store s in the frame laid out by S; the stack area starts where ap points (no arrays
   in the fragment: ap never moves) *)
Record rep (S : senv) (s : store) (m : mem) : Prop := {
  rp_regs : regs_ok w R lo m;
  rp_lo : lo <= FP m - top S;
  rp_half : FP m - lo <= W / 2;
  rp_sz : FP m <= msize m;
  rp_li : length (si s) = length (ioffs S);
  rp_lb : length (sb s) = length (boffs S);
  rp_i : forall i, (i < length (ioffs S))%nat -> sgn (lw m (FP m - nth i (ioffs S) 0)) = nth i (si s) 0;
  rp_b : forall j, (j < length (boffs S))%nat ->
         lb m (FP m - nth j (boffs S) 0) = nth j (sb s) 0 /\ (nth j (sb s) 0 = 0 \/ nth j (sb s) 0 = 1);
  rp_ap : ap_sep -> lw m (a_ap R) = lo;
  (* the int globals: words above every frame, pairwise apart, holding the global part of the store *)
  rp_gl : FP m <= gl;
  rp_gn : length (sg s) = ng;
  rp_g : forall g, (g < ng)%nat -> gl <= a_glob R g < W /\ inb m (a_glob R g) w = true /\
                                  sgn (lw m (a_glob R g)) = nth g (sg s) 0;
  rp_gd : forall g g', (g < ng)%nat -> (g' < ng)%nat -> g <> g' ->
          a_glob R g + w <= a_glob R g' \/ a_glob R g' + w <= a_glob R g;
  (* the bool globals: bytes in the same area, apart from each other and from the int globals *)
  rp_gbn : length (sgb s) = nbg;
  rp_gb : forall h, (h < nbg)%nat -> gl <= a_bglob R h < W /\ inb m (a_bglob R h) 1 = true /\
                                    lb m (a_bglob R h) = nth h (sgb s) 0 /\ (nth h (sgb s) 0 = 0 \/ nth h (sgb s) 0 = 1);
  rp_gbd : (forall h h', (h < nbg)%nat -> (h' < nbg)%nat -> h <> h' -> a_bglob R h <> a_bglob R h') /\
           (forall g h, (g < ng)%nat -> (h < nbg)%nat -> a_bglob R h + 1 <= a_glob R g \/ a_glob R g + w <= a_bglob R h) }.

Hypothesis Hw : 2 <= w.
Let Hw1 : 1 <= w. Proof. lia. Qed.

Lemma ap_agree hi m m' : ap_sep -> agree w R lo hi m m' -> lw m' (a_ap R) = lw m (a_ap R).
Proof.
  intros [A0 [A1 [A2 [A3 A4]]]] [_ [_ A]]. unfold Machine.lw. apply loadn_ext. intros x Hx. rewrite (wn_w w Hw1) in Hx.
  apply A; lia.
Qed.

Lemma env_of_wsize S : wf_senv S -> wsize (env_of S) = w.
Proof. intros Wf. exact (wfs_w S Wf). Qed.

Lemma rep_layout S s m : wf_senv S -> rep S s m -> layout_ok w R (env_of S) lo m.
Proof.
  intros Wf Rp. destruct Wf, Rp. split; [assumption|]. constructor; cbn [env_of stack_top]; lia.
Qed.
Lemma rep_room S s m t : wf_senv S -> rep S s m -> top S <= t -> lo <= FP m - t -> room_ok w R lo t m.
Proof. intros Wf Rp Ht Hl. destruct Wf, Rp. constructor; lia. Qed.
Lemma rep_slot_i S s m i hi : wf_senv S -> rep S s m -> (i < length (ioffs S))%nat -> hi <= FP m - top S ->
  slot_ok w R lo hi m (nth i (ioffs S) 0) w.
Proof.
  intros Wf Rp Hi Hh. pose proof (wfs_i S Wf i Hi) as Ho. destruct Wf, Rp. destruct rp_regs0.
  unfold slot_ok, dj. repeat split; try lia. apply inb_true; lia.
Qed.
Lemma rep_slot_b S s m j hi : wf_senv S -> rep S s m -> (j < length (boffs S))%nat -> hi <= FP m - top S ->
  slot_ok w R lo hi m (nth j (boffs S) 0) 1.
Proof.
  intros Wf Rp Hj Hh. pose proof (wfs_b S Wf j Hj) as Ho. destruct Wf, Rp. destruct rp_regs0.
  unfold slot_ok, dj. repeat split; try lia. apply inb_true; lia.
Qed.
(* the byte a byte read takes: inside the frame; its value is the source value *)
Lemma lb_lw_r m a : wf_mem m -> lb m a = lw m a mod 256.
Proof.
  intros Wf. unfold lb, Machine.lw, Machine.wn. destruct (Z.to_nat w) as [|k] eqn:E; [lia|].
  cbn [loadn]. pose proof (Wf a). rewrite (Z.mul_comm 256), Z.mod_add by lia. symmetry. apply Z.mod_small. lia.
Qed.
Lemma sgn_mod256_r x : inrange w x -> sgn x mod 256 = x mod 256.
Proof.
  intros Hx. assert (Hk : W = 256 * 2 ^ (8 * w - 8)).
  { unfold Machine.W. change 256 with (2 ^ 8). rewrite <- Z.pow_add_r by lia. f_equal. lia. }
  destruct (sgn_cases w x Hx) as [[_ E]|[_ E]]; rewrite E; [reflexivity|].
  rewrite Hk. replace (x - 256 * 2 ^ (8 * w - 8)) with (x + (- 2 ^ (8 * w - 8)) * 256) by lia. apply Z.mod_add. lia.
Qed.
Lemma rep_slot_y S s m v hi : wf_senv S -> rep S s m -> yscoped (length (ioffs S)) (length (boffs S)) v -> hi <= FP m - top S ->
  slot_ok w R lo hi m (byte_off (env_of S) v) 1.
Proof.
  intros Wf Rp Sc Hh. destruct v as [j|i]; cbn [yscoped byte_off env_of bool_off int_off] in *.
  - apply (rep_slot_b S s); assumption.
  - destruct (rep_slot_i S s m i hi Wf Rp Sc Hh) as [O1 [O2 [O3 O4]]]. unfold slot_ok. split; [exact O1|]. split; [exact O2|]. split.
    + unfold inb in *. apply andb_true_iff in O3. destruct O3 as [X1 X2]. apply Z.leb_le in X1, X2. apply andb_true_iff. split; apply Z.leb_le; lia.
    + unfold dj in *. lia.
Qed.
Lemma rep_yval S s m v : wf_senv S -> rep S s m -> yscoped (length (ioffs S)) (length (boffs S)) v ->
  lb m (FP m - byte_off (env_of S) v) = ieval w s (OByte v).
Proof.
  intros Wf Rp Sc. destruct v as [j|i]; cbn [yscoped byte_off env_of bool_off int_off ieval] in *.
  - apply (proj1 (rp_b S s m Rp j Sc)).
  - pose proof (lo_wf w R lo m (rp_regs S s m Rp)) as Wfm. rewrite (lb_lw_r m _ Wfm). rewrite <- (rp_i S s m Rp i Sc).
    symmetry. apply sgn_mod256_r. apply (lw_range w Hw1). exact Wfm.
Qed.
Lemma rep_oexp S s m o hi : wf_senv S -> rep S s m -> oscoped w ng (length (ioffs S)) (length (boffs S)) o -> hi <= FP m - top S ->
  oexp_ok w R (env_of S) lo hi m o.
Proof.
  intros Wf Rp Sc Hh. induction o as [ch z|i|op x IHx y IHy|u x IHx|g|tx IHt|yj]; cbn [oscoped oexp_ok] in *; try tauto.
  - cbn [env_of int_off]. apply (rep_slot_i S s); assumption.
  - destruct (rp_g S s m Rp g Sc) as [G0 [G1 _]]. pose proof (rp_gl S s m Rp) as Hg. pose proof (wfs_fb S Wf) as Ofb.
    pose proof (rp_regs S s m Rp) as L. destruct L, Rp. unfold gword_ok, dj. repeat split; try assumption; lia.
  - destruct Sc as [Sx Sh]. split; [apply IHt; exact Sx|].
    destruct tx; try exact Sh. cbn [oscoped] in Sx. destruct (rp_g S s m Rp g Sx) as [G0 _]. lia.
  - apply (rep_slot_y S s); assumption.
Qed.
Lemma rep_sval S s m o : wf_senv S -> rep S s m -> oscoped w ng (length (ioffs S)) (length (boffs S)) o ->
  sval w R (env_of S) m o = ieval w s o.
Proof.
  intros Wf Rp. induction o as [ch z|i|op x IHx y IHy|u x IHx|g|tx IHt|yj]; cbn [oscoped sval ieval]; intros Sc.
  - reflexivity.
  - cbn [env_of int_off]. apply (rp_i S s m Rp i Sc).
  - destruct Sc as [_ [Sx Sy]]. rewrite IHx, IHy by assumption. reflexivity.
  - destruct u; rewrite IHx by assumption; reflexivity.
  - apply (rp_g S s m Rp g Sc).
  - rewrite (IHt (proj1 Sc)). reflexivity.
  - apply (rep_yval S s m yj Wf Rp Sc).
Qed.
Lemma rep_beval S s m e : wf_senv S -> rep S s m -> bscoped w ng nbg (length (ioffs S)) (length (boffs S)) e ->
  beval w R (env_of S) m e = bevals w s e.
Proof.
  intros Wf Rp. induction e as [b|j|op a b|e IH|e1 IH1 e2 IH2|e1 IH1 e2 IH2]; cbn [bscoped beval bevals]; intros Sc.
  - reflexivity.
  - destruct j as [j|h]; cbn [bval env_of bool_off].
    + now rewrite (proj1 (rp_b S s m Rp j Sc)).
    + destruct (rp_gb S s m Rp h Sc) as [_ [_ [E _]]]. now rewrite E.
  - destruct Sc as [Sa Sb]. now rewrite (rep_sval S s m a Wf Rp Sa), (rep_sval S s m b Wf Rp Sb).
  - now rewrite IH.
  - destruct Sc as [S1 S2]. now rewrite IH1, IH2.
  - destruct Sc as [S1 S2]. now rewrite IH1, IH2.
Qed.
Lemma temps_b_le_and e1 e2 : (temps_b e1 <= temps_b (BAnd e1 e2))%nat /\ (temps_b e2 <= temps_b (BAnd e1 e2))%nat.
Proof. cbn [temps_b]. lia. Qed.
(* E' is env_of S possibly with a higher stack top *)
Lemma rep_vars S s m e t : wf_senv S -> rep S s m -> bscoped w ng nbg (length (ioffs S)) (length (boffs S)) e ->
  top S <= t -> t + Z.of_nat (temps_b e) * w <= FP m - lo ->
  vars_ok w R (with_top (env_of S) t) lo m e.
Proof.
  intros Wf Rp Sc Ht Hr. assert (W0 : 0 <= w) by lia.
  assert (Hh : HI w R (with_top (env_of S) t) m <= FP m - top S) by (unfold HI; cbn [with_top stack_top]; lia).
  induction e as [b|j|op a b|e IH|e1 IH1 e2 IH2|e1 IH1 e2 IH2]; cbn [bscoped vars_ok temps_b] in *.
  - exact I.
  - destruct j as [j|h]; cbn [bslot_ok with_top env_of bool_off]; [apply (rep_slot_b S s); assumption|].
    destruct (rp_gb S s m Rp h Sc) as [G0 [G1 _]]. pose proof (rp_gl S s m Rp) as Hg. pose proof (wfs_fb S Wf) as Ofb.
    pose proof (rp_regs S s m Rp) as L. destruct L, Rp. unfold dj. repeat split; try assumption; lia.
  - destruct Sc as [Sa Sb]. split; [|split].
    + pose proof (rep_oexp S s m a _ Wf Rp Sa Hh) as X. exact X.
    + pose proof (rep_oexp S s m b _ Wf Rp Sb Hh) as X. exact X.
    + unfold HI. cbn [with_top stack_top]. lia.
  - apply IH; assumption.
  - destruct Sc as [S1 S2]. split; [apply IH1 | apply IH2]; try assumption;
      (eapply Z.le_trans; [|exact Hr]); apply Z.add_le_mono_l; apply Z.mul_le_mono_nonneg_r; lia.
  - destruct Sc as [S1 S2]. split; [apply IH1 | apply IH2]; try assumption;
      (eapply Z.le_trans; [|exact Hr]); apply Z.add_le_mono_l; apply Z.mul_le_mono_nonneg_r; lia.
Qed.
Lemma rep_norm S s m e : wf_senv S -> rep S s m -> bscoped w ng nbg (length (ioffs S)) (length (boffs S)) e ->
  bool_norm w R (env_of S) m e.
Proof.
  intros Wf Rp. induction e as [b|j|op a b|e IH|e1 IH1 e2 IH2|e1 IH1 e2 IH2]; cbn [bscoped bool_norm]; try tauto.
  intros Sc. destruct j as [j|h]; cbn [bval env_of bool_off].
  - destruct (rp_b S s m Rp j Sc) as [E N]. now rewrite E.
  - destruct (rp_gb S s m Rp h Sc) as [_ [_ [E N]]]. now rewrite E.
Qed.
(* the semantics does not look at the stack top *)
Lemma sval_top E t m o : sval w R (with_top E t) m o = sval w R E m o.
Proof. induction o as [ch z|i|op x IHx y IHy|u x IHx|g|tx IHt|yj]; cbn [sval]; [reflexivity | reflexivity | now rewrite IHx, IHy | destruct u; now rewrite IHx | reflexivity | now rewrite IHt | reflexivity]. Qed.
Lemma beval_top E t m e : beval w R (with_top E t) m e = beval w R E m e.
Proof.
  induction e as [b|j|op a b|e IH|e1 IH1 e2 IH2|e1 IH1 e2 IH2]; cbn [beval];
    rewrite ?sval_top, ?IH, ?IH1, ?IH2; reflexivity.
Qed.
Lemma with_top_same S : with_top (env_of S) (top S) = env_of S.
Proof. reflexivity. Qed.

(* a memory that differs only in r0, r1 and below the stack top represents the same store *)
Lemma rep_agree S s m m' : wf_senv S -> rep S s m -> agree w R lo (FP m - top S) m m' -> rep S s m'.
Proof.
  intros Wf Rp A. pose proof (FP_agree w R lo Hw _ m m' (rp_regs S s m Rp) A) as EF.
  pose proof (regs_ok_agree w R lo Hw _ m m' (rp_regs S s m Rp) A) as L'.
  destruct A as [Sz A']. assert (A : agree w R lo (FP m - top S) m m') by (split; assumption).
  constructor; rewrite ?EF, ?Sz; try apply Rp; try assumption.
  3: { intros Ap. rewrite (ap_agree _ m m' Ap A). apply (rp_ap S s m Rp Ap). }
  - intros i Hi. rewrite <- (rp_i S s m Rp i Hi). f_equal.
    destruct (rep_slot_i S s m i (FP m - top S) Wf Rp Hi ltac:(lia)) as [_ [H2 [_ H4]]].
    apply (agree_lw w R lo Hw (FP m - top S)); assumption.
  - intros j Hj. destruct (rp_b S s m Rp j Hj) as [E N]. split; [|exact N]. rewrite <- E.
    destruct (rep_slot_b S s m j (FP m - top S) Wf Rp Hj ltac:(lia)) as [_ [H2 [_ H4]]].
    apply (agree_lb w R lo (FP m - top S)); assumption.
  - intros g Hg. destruct (rp_g S s m Rp g Hg) as [G0 [G1 G2]]. split; [exact G0|].
    split; [rewrite (agree_inb w R lo _ m m' _ _ A); exact G1|]. rewrite <- G2. f_equal.
    pose proof (rp_gl S s m Rp) as Hgl'. pose proof (wfs_fb S Wf) as Ofb. pose proof (rp_regs S s m Rp) as L.
    apply (agree_lw w R lo Hw (FP m - top S)); [exact A | destruct L, Rp; lia | unfold dj; destruct L, Rp; lia].
  - intros h Hh. destruct (rp_gb S s m Rp h Hh) as [G0 [G1 [G2 G3]]]. split; [exact G0|].
    split; [rewrite (agree_inb w R lo _ m m' _ _ A); exact G1|]. split; [|exact G3]. rewrite <- G2.
    pose proof (rp_gl S s m Rp) as Hgl'. pose proof (wfs_fb S Wf) as Ofb. pose proof (rp_regs S s m Rp) as L.
    apply (agree_lb w R lo (FP m - top S)); [exact A | destruct L, Rp; lia | unfold dj; destruct L, Rp; lia].
Qed.
Hypothesis Hgl : lo <= gl.
(* the globals are not touched by code that keeps everything above the frame *)
Lemma glob_agree S s m m' hi : rep S s m -> agree w R lo hi m m' -> hi <= FP m -> forall g, (g < ng)%nat ->
  gl <= a_glob R g < W /\ inb m' (a_glob R g) w = true /\ sgn (lw m' (a_glob R g)) = nth g (sg s) 0.
Proof.
  intros Rp A Hh g Hg. destruct (rp_g S s m Rp g Hg) as [G0 [G1 G2]]. split; [exact G0|].
  split; [rewrite (agree_inb w R lo _ m m' _ _ A); exact G1|]. rewrite <- G2. f_equal.
  pose proof (rp_gl S s m Rp) as Hgl'. pose proof (rp_regs S s m Rp) as L.
  apply (agree_lw w R lo Hw hi); [exact A | destruct L, Rp; lia | unfold dj; destruct L, Rp; lia].
Qed.
Lemma globb_agree S s m m' hi : rep S s m -> agree w R lo hi m m' -> hi <= FP m -> forall h, (h < nbg)%nat ->
  gl <= a_bglob R h < W /\ inb m' (a_bglob R h) 1 = true /\ lb m' (a_bglob R h) = nth h (sgb s) 0 /\ (nth h (sgb s) 0 = 0 \/ nth h (sgb s) 0 = 1).
Proof.
  intros Rp A Hh h Hg. destruct (rp_gb S s m Rp h Hg) as [G0 [G1 [G2 G3]]]. split; [exact G0|].
  split; [rewrite (agree_inb w R lo _ m m' _ _ A); exact G1|]. split; [|exact G3]. rewrite <- G2.
  pose proof (rp_gl S s m Rp) as Hgl'. pose proof (rp_regs S s m Rp) as L.
  apply (agree_lb w R lo hi); [exact A | destruct L, Rp; lia | unfold dj; destruct L, Rp; lia].
Qed.
(* STATEMENTS may also assign to globals: `gagree hi m m'` -- m' differs from m at most in r0, r1, r2,
   in the stack area [lo, hi) and in the globals area [gl, ..) *)
Definition gagree (hi : Z) (m m' : mem) : Prop :=
  msize m' = msize m /\ (wf_mem m -> wf_mem m') /\
  forall x, 0 <= x -> ~ (r0 <= x < r0 + w) -> ~ (r1 <= x < r1 + w) -> ~ (lo <= x < hi) -> ~ (a_r2 R <= x < a_r2 R + w) ->
            ~ (gl <= x) -> getb m' x = getb m x.
Lemma agree_gagree hi m m' : agree w R lo hi m m' -> gagree hi m m'.
Proof. intros [S [F G]]. split; [exact S|]. split; [exact F|]. intros x X N0 N1 N2 N3 _. apply G; assumption. Qed.
Lemma gagree_refl hi m : gagree hi m m.
Proof. apply agree_gagree, agree_refl. Qed.
Lemma gagree_trans hi a b c : gagree hi a b -> gagree hi b c -> gagree hi a c.
Proof.
  intros [S1 [F1 G1]] [S2 [F2 G2]]. split; [congruence|]. split; [tauto|].
  intros x X N0 N1 N2 N3 N4. rewrite G2, G1; auto.
Qed.
Lemma gagree_mono hi hi' m m' : hi <= hi' -> gagree hi m m' -> gagree hi' m m'.
Proof. intros L [S [F G]]. split; [exact S|]. split; [exact F|]. intros x X N0 N1 N2 N3 N4. apply G; auto. lia. Qed.
Lemma gagree_lw hi m m' a : gagree hi m m' -> 0 <= a -> dj w R lo hi a w -> a + w <= gl -> lw m' a = lw m a.
Proof.
  intros [_ [_ G]] Ha [D0 [D1 D2]] Hg. unfold Machine.lw. apply loadn_ext. intros x Hx.
  rewrite (wn_w w Hw1) in Hx. apply G; lia.
Qed.
Lemma gagree_lb hi m m' a : gagree hi m m' -> 0 <= a -> dj w R lo hi a 1 -> a + 1 <= gl -> lb m' a = lb m a.
Proof.
  intros [_ [_ G]] Ha [D0 [D1 D2]] Hg. unfold Machine.lb. rewrite G; [reflexivity | lia ..].
Qed.
Lemma gagree_inb hi m m' a n : gagree hi m m' -> inb m' a n = inb m a n.
Proof. intros [S _]. unfold inb. now rewrite S. Qed.
Lemma FP_gagree hi m m' : regs_ok w R lo m -> gagree hi m m' -> FP m' = FP m.
Proof.
  intros L A. unfold LowerBoolProofs.FP. apply (gagree_lw hi); [exact A | apply (lo_fp w R lo m L) | apply (dj_fp w R lo hi m L) | destruct L; lia].
Qed.
Lemma regs_ok_gagree hi m m' : regs_ok w R lo m -> gagree hi m m' -> regs_ok w R lo m'.
Proof.
  intros L A. pose proof (FP_gagree hi m m' L A) as EF. destruct L. constructor; try assumption.
  - apply A; assumption.
  - now rewrite (gagree_inb hi m m').
  - now rewrite (gagree_inb hi m m').
  - now rewrite (gagree_inb hi m m').
  - rewrite EF; assumption.
Qed.
(* the locals survive changes below the stack top and in the globals *)
Lemma rep_locals_gagree S s m m' : wf_senv S -> rep S s m -> gagree (FP m - top S) m m' ->
  regs_ok w R lo m' /\ FP m' = FP m /\ msize m' = msize m /\
  (forall i, (i < length (ioffs S))%nat -> sgn (lw m' (FP m - nth i (ioffs S) 0)) = nth i (si s) 0) /\
  (forall j, (j < length (boffs S))%nat -> lb m' (FP m - nth j (boffs S) 0) = nth j (sb s) 0 /\ (nth j (sb s) 0 = 0 \/ nth j (sb s) 0 = 1)) /\
  (ap_sep -> lw m' (a_ap R) = lo).
Proof.
  intros Wf Rp A. pose proof (rp_regs S s m Rp) as L. pose proof (rp_gl S s m Rp) as Hg.
  split; [apply (regs_ok_gagree _ m m' L A)|]. split; [apply (FP_gagree _ m m' L A)|]. split; [apply A|]. split; [|split].
  - intros i Hi. rewrite <- (rp_i S s m Rp i Hi). f_equal.
    destruct (rep_slot_i S s m i (FP m - top S) Wf Rp Hi ltac:(lia)) as [H1 [H2 [_ H4]]].
    apply (gagree_lw (FP m - top S)); [exact A | exact H2 | exact H4 | pose proof (wfs_i S Wf i Hi); pose proof (wfs_fb S Wf); lia].
  - intros j Hj. destruct (rp_b S s m Rp j Hj) as [E N]. split; [|exact N]. rewrite <- E.
    destruct (rep_slot_b S s m j (FP m - top S) Wf Rp Hj ltac:(lia)) as [H1 [H2 [_ H4]]].
    apply (gagree_lb (FP m - top S)); [exact A | exact H2 | exact H4 | pose proof (wfs_b S Wf j Hj); pose proof (wfs_fb S Wf); lia].
  - intros Ap. rewrite <- (rp_ap S s m Rp Ap). destruct Ap as [A0 [A1 [A2 [A3 A4]]]]. destruct A as [_ [_ A]].
    unfold Machine.lw. apply loadn_ext. intros x Hx. rewrite (wn_w w Hw1) in Hx. apply A; lia.
Qed.
(* the coarse frame condition of statements: only r0, r1, r2, the frame below [fp] - fb and the
   globals change *)
Definition fagree (m m' : mem) : Prop := gagree (FP m - fb) m m'.
Lemma fagree_refl m : fagree m m.
Proof. apply gagree_refl. Qed.
Lemma fagree_trans m1 m2 m3 : regs_ok w R lo m1 -> fagree m1 m2 -> fagree m2 m3 -> fagree m1 m3.
Proof.
  intros L A B. unfold fagree in *. rewrite (FP_gagree _ m1 m2 L A) in B.
  eapply gagree_trans; eauto.
Qed.
Lemma agree_fagree S s m m' : wf_senv S -> rep S s m -> agree w R lo (FP m - top S) m m' -> fagree m m'.
Proof. intros Wf Rp A. apply agree_gagree. apply (agree_mono w R lo (FP m - top S)); [destruct Wf; lia | exact A]. Qed.
Lemma FP_fagree m m' : regs_ok w R lo m -> fagree m m' -> FP m' = FP m.
Proof. apply FP_gagree. Qed.
Lemma regs_ok_fagree m m' : regs_ok w R lo m -> fagree m m' -> regs_ok w R lo m'.
Proof. apply regs_ok_gagree. Qed.
End Rep.

(* list facts for stores *)
Lemma nth_app_last (l : list Z) x : nth (length l) (l ++ [x]) 0 = x.
Proof. rewrite app_nth2, Nat.sub_diag by lia. reflexivity. Qed.
Lemma length_upd i v l : length (upd i v l) = length l.
Proof. revert i; induction l as [|x r IH]; intros [|k]; cbn [upd length]; auto. Qed.
Lemma nth_upd_same i v l : (i < length l)%nat -> nth i (upd i v l) 0 = v.
Proof. revert i; induction l as [|x r IH]; intros [|k] H; cbn [upd nth length] in *; try lia; auto. apply IH; lia. Qed.
Lemma nth_upd_other i k v l : i <> k -> nth k (upd i v l) 0 = nth k l 0.
Proof. revert i k; induction l as [|x r IH]; intros [|i] [|k] H; cbn [upd nth]; try reflexivity; try congruence. apply IH; congruence. Qed.

(* ================================================================================= *)
(* 3-4  machine lemmas and the statements without control flow                         *)
(* ================================================================================= *)
Section Stmt.
Variable w : Z.
Variable R : regmap.
Variable lo : Z.
Variable fb : Z.
Hypothesis Hw : 2 <= w.
Variable code : Z -> option instr.
Variable cmem : mem.
Variable lab : label -> Z.
Hypothesis lab_range : forall l, 0 <= lab l < Machine.W w.
Variable funs : list fundef.            (* the program *)
Variable cf : nat -> nat -> Prop.       (* cf f n: function f may be called with n arguments *)
Hypothesis Hfb : fb = w.                (* the frame base is the return address *)
Variable gl : Z.                        (* the int globals lie at or above gl (stack_end) *)
Variable ng : nat.                      (* the number of int globals *)
Variable nbg : nat.                     (* the number of bool globals *)
Hypothesis Hgl : lo <= gl.
Notation W := (Machine.W w).
Notation wrap := (Machine.wrap w).
Notation sgn := (Machine.sgn w).
Notation lw := (Machine.lw w).
Notation sw := (Machine.sw w).
Notation r0 := (a_r0 R).
Notation r1 := (a_r1 R).
Notation fp := (a_fp R).
Notation FP := (LowerBoolProofs.FP w R).
Notation act := (Machine.act w code cmem).
Notation Halts := (HidV.Sphinx.Halts.Halts act).
Notation runs := (HidV.Sphinx.Halts.runs act).
Notation oval := (Idioms.oval w cmem).
Notation plc := (placed R lab code).
Notation rs := (res_sym R lab).
Notation wf_senv := (wf_senv w fb).
Notation rep := (rep w R lo gl ng nbg).
Notation fagree := (fagree w R lo fb gl).
Let Hw1 : 1 <= w. Proof. lia. Qed.
(* what a call of a library routine needs: hidc's register layout and the library in the code *)
Definition lib_hyps : Prop :=
  a_fp R = 1 * w /\ a_r0 R = 2 * w /\ a_r1 R = 3 * w /\ a_r2 R = 4 * w /\
  lib_at w code (a_lib R) /\ lib_range w (a_lib R) /\ a_ap R = 0.

Lemma act_yield p m v x : code p = Some (IYield v) -> oval m v = Some x ->
  act (mk p m) = ANext (mk (p + 1) m) (Some (EOut (x mod 256))).
Proof. intros C A. unfold Machine.act; cbn [pc]; rewrite C; cbn [Machine.exec]. rewrite val_oval; cbn [mm]; rewrite A. reflexivity. Qed.
Lemma act_lbs p m d a x : code p = Some (ILoad WByte SState (St d) a) -> oval m a = Some x ->
  inb m x 1 = true -> inb m d w = true ->
  act (mk p m) = ANext (mk (p + 1) (sw m d (lb m x))) None.
Proof.
  intros C A I J. unfold Machine.act; cbn [pc]; rewrite C; cbn [Machine.exec]. rewrite val_oval; cbn [mm]; rewrite A.
  unfold load; cbn [mm]; rewrite I. unfold setdest; cbn [mm]; rewrite J. reflexivity.
Qed.
Lemma act_sbso p m b o v x y z : code p = Some (IStoreO WByte b o v) ->
  oval m b = Some x -> oval m o = Some y -> oval m v = Some z -> inb m (sgn x + sgn y) 1 = true ->
  act (mk p m) = ANext (mk (p + 1) (Machine.sb m (sgn x + sgn y) z)) None.
Proof.
  intros C A B V I. unfold Machine.act; cbn [pc]; rewrite C; cbn [Machine.exec].
  rewrite !val_oval; cbn [mm]; rewrite A, B, V. unfold Machine.store; cbn [mm]; rewrite I. reflexivity.
Qed.
(* the low byte of a word *)
Lemma lb_lw m a : wf_mem m -> lb m a = lw m a mod 256.
Proof.
  intros Wf. unfold lb, Machine.lw, Machine.wn. destruct (Z.to_nat w) as [|k] eqn:E; [lia|].
  cbn [loadn]. pose proof (Wf a). rewrite (Z.mul_comm 256), Z.mod_add by lia. symmetry. apply Z.mod_small. lia.
Qed.
Lemma W_256 : exists k, W = 256 * k.
Proof.
  unfold Machine.W. exists (2 ^ (8 * w - 8)). change 256 with (2 ^ 8). rewrite <- Z.pow_add_r by lia. f_equal. lia.
Qed.
Lemma wrap_mod256 z : wrap z mod 256 = z mod 256.
Proof.
  destruct W_256 as [k Hk]. unfold Machine.wrap. pose proof (W_pos w Hw1).
  rewrite (Z.mod_eq z W) by lia. rewrite Hk.
  replace (z - 256 * k * (z / (256 * k))) with (z + (- (k * (z / (256 * k)))) * 256) by lia.
  apply Z.mod_add. lia.
Qed.
Lemma sgn_mod256 x : inrange w x -> sgn x mod 256 = x mod 256.
Proof.
  intros Hx. destruct W_256 as [k Hk]. destruct (sgn_cases w x Hx) as [[_ E]|[_ E]]; rewrite E; [reflexivity|].
  rewrite Hk. replace (x - 256 * k) with (x + (- k) * 256) by lia. apply Z.mod_add. lia.
Qed.

(* storing an operand into a frame word / byte *)
Lemma store_word_runs p m v x off : code p = Some (IStoreO WWord (St fp) (Imm (- off)) v) ->
  oval m v = Some x -> regs_ok w R lo m -> 0 < off <= W / 2 -> inb m (FP m - off) w = true ->
  runs (mk p m) [] (mk (p + 1) (sw m (FP m - off) x)).
Proof.
  intros C V L Ho I.
  pose proof (act_swso w code cmem p m (St fp) (Imm (- off)) v (FP m) (wrap (- off)) x C
                (oval_st w cmem m fp (lo_if w R lo m L)) (oval_imm w cmem m _) V) as A.
  rewrite (frame_addr w R lo Hw m off L Ho) in A. apply (runs_next act _ _ None). apply A. exact I.
Qed.
Lemma store_byte_runs p m v x off : code p = Some (IStoreO WByte (St fp) (Imm (- off)) v) ->
  oval m v = Some x -> regs_ok w R lo m -> 0 < off <= W / 2 -> inb m (FP m - off) 1 = true ->
  runs (mk p m) [] (mk (p + 1) (Machine.sb m (FP m - off) x)).
Proof.
  intros C V L Ho I.
  pose proof (act_sbso p m (St fp) (Imm (- off)) v (FP m) (wrap (- off)) x C
                (oval_st w cmem m fp (lo_if w R lo m L)) (oval_imm w cmem m _) V) as A.
  rewrite (frame_addr w R lo Hw m off L Ho) in A. apply (runs_next act _ _ None). apply A. exact I.
Qed.

(* ---------- the representation after a declaration / an assignment ---------- *)
Lemma wf_push_int S : wf_senv S -> wf_senv (push_int S).
Proof.
  intros Wf. destruct Wf as [Ww Wfb Wi Wb Wii Wbb Wib]. constructor; cbn [push_int ws top ioffs boffs]; try assumption; try lia.
  - intros i Hi. rewrite app_length in Hi. cbn [length] in Hi.
    destruct (Nat.lt_ge_cases i (length (ioffs S))) as [Lt|Ge].
    + rewrite app_nth1 by exact Lt. specialize (Wi i Lt). lia.
    + replace i with (length (ioffs S)) by lia. rewrite app_nth2, Nat.sub_diag by lia. cbn [nth]. lia.
  - intros j Hj. specialize (Wb j Hj). lia.
  - intros i i' Hi Hi' Ne. rewrite app_length in Hi, Hi'. cbn [length] in Hi, Hi'.
    destruct (Nat.lt_ge_cases i (length (ioffs S))) as [Lt|Ge]; destruct (Nat.lt_ge_cases i' (length (ioffs S))) as [Lt'|Ge'].
    + rewrite !app_nth1 by assumption. apply Wii; assumption.
    + rewrite (app_nth1 _ _ _ Lt). replace i' with (length (ioffs S)) by lia. rewrite app_nth2, Nat.sub_diag by lia. cbn [nth].
      specialize (Wi i Lt). lia.
    + rewrite (app_nth1 _ _ _ Lt'). replace i with (length (ioffs S)) by lia. rewrite app_nth2, Nat.sub_diag by lia. cbn [nth].
      specialize (Wi i' Lt'). lia.
    + lia.
  - intros i j Hi Hj. rewrite app_length in Hi. cbn [length] in Hi.
    destruct (Nat.lt_ge_cases i (length (ioffs S))) as [Lt|Ge].
    + rewrite app_nth1 by exact Lt. apply Wib; assumption.
    + replace i with (length (ioffs S)) by lia. rewrite app_nth2, Nat.sub_diag by lia. cbn [nth]. specialize (Wb j Hj). lia.
Qed.
Lemma wf_push_bool S : wf_senv S -> wf_senv (push_bool S).
Proof.
  intros Wf. destruct Wf as [Ww Wfb Wi Wb Wii Wbb Wib]. constructor; cbn [push_bool ws top ioffs boffs]; try assumption; try lia.
  - intros i Hi. specialize (Wi i Hi). lia.
  - intros j Hj. rewrite app_length in Hj. cbn [length] in Hj.
    destruct (Nat.lt_ge_cases j (length (boffs S))) as [Lt|Ge].
    + rewrite app_nth1 by exact Lt. specialize (Wb j Lt). lia.
    + replace j with (length (boffs S)) by lia. rewrite app_nth2, Nat.sub_diag by lia. cbn [nth]. lia.
  - intros j j' Hj Hj' Ne. rewrite app_length in Hj, Hj'. cbn [length] in Hj, Hj'.
    destruct (Nat.lt_ge_cases j (length (boffs S))) as [Lt|Ge]; destruct (Nat.lt_ge_cases j' (length (boffs S))) as [Lt'|Ge'].
    + rewrite !app_nth1 by assumption. apply Wbb; assumption.
    + rewrite (app_nth1 _ _ _ Lt). replace j' with (length (boffs S)) by lia. rewrite app_nth2, Nat.sub_diag by lia. cbn [nth].
      specialize (Wb j Lt). lia.
    + rewrite (app_nth1 _ _ _ Lt'). replace j with (length (boffs S)) by lia. rewrite app_nth2, Nat.sub_diag by lia. cbn [nth].
      specialize (Wb j' Lt'). lia.
    + lia.
  - intros i j Hi Hj. rewrite app_length in Hj. cbn [length] in Hj.
    destruct (Nat.lt_ge_cases j (length (boffs S))) as [Lt|Ge].
    + rewrite app_nth1 by exact Lt. apply Wib; assumption.
    + replace j with (length (boffs S)) by lia. rewrite app_nth2, Nat.sub_diag by lia. cbn [nth]. specialize (Wi i Hi). lia.
Qed.

Lemma rep_push_int S s m m' v : wf_senv S -> rep S s m -> agree w R lo (FP m - top S) m m' ->
  top S + w <= FP m - lo -> sgn (lw m' (FP m - (top S + w))) = v ->
  rep (push_int S) (mkstore (si s ++ [v]) (sb s) (sg s) (sgb s)) m'.
Proof.
  intros Wf Rp A Hr Hv. pose proof (rep_agree w R lo fb gl ng nbg Hw S s m m' Wf Rp A) as Rp'.
  pose proof (FP_agree w R lo Hw _ m m' (rp_regs w R lo gl ng nbg S s m Rp) A) as EF.
  destruct Rp' as [Rg Rlo Rh Rsz Rli Rlb Ri Rb Rap Rgl Rgn Rgg Rgd Rbn Rbg Rbd].
  pose proof (wfs_w w fb S Wf) as Ews.
  constructor; cbn [push_int top ioffs boffs si sb]; rewrite ?Ews; try assumption; try lia.
  - rewrite !app_length. cbn [length]. lia.
  - intros i Hi. rewrite app_length in Hi. cbn [length] in Hi.
    destruct (Nat.lt_ge_cases i (length (ioffs S))) as [Lt|Ge].
    + rewrite !app_nth1 by lia. apply Ri. exact Lt.
    + replace i with (length (ioffs S)) by lia.
      replace (nth (length (ioffs S)) (ioffs S ++ [top S + w]) 0) with (top S + w)
        by (rewrite app_nth2, Nat.sub_diag by lia; reflexivity).
      replace (nth (length (ioffs S)) (si s ++ [v]) 0) with v
        by (rewrite <- Rli, app_nth2, Nat.sub_diag by lia; reflexivity).
      rewrite EF. exact Hv.
Qed.
Lemma rep_push_bool S s m m' v : wf_senv S -> rep S s m -> agree w R lo (FP m - top S) m m' ->
  top S + 1 <= FP m - lo -> lb m' (FP m - (top S + 1)) = v -> v = 0 \/ v = 1 ->
  rep (push_bool S) (mkstore (si s) (sb s ++ [v]) (sg s) (sgb s)) m'.
Proof.
  intros Wf Rp A Hr Hv Hn. pose proof (rep_agree w R lo fb gl ng nbg Hw S s m m' Wf Rp A) as Rp'.
  pose proof (FP_agree w R lo Hw _ m m' (rp_regs w R lo gl ng nbg S s m Rp) A) as EF.
  destruct Rp' as [Rg Rlo Rh Rsz Rli Rlb Ri Rb Rap Rgl Rgn Rgg Rgd Rbn Rbg Rbd].
  constructor; cbn [push_bool top ioffs boffs si sb]; try assumption; try lia.
  - rewrite !app_length. cbn [length]. lia.
  - intros j Hj. rewrite app_length in Hj. cbn [length] in Hj.
    destruct (Nat.lt_ge_cases j (length (boffs S))) as [Lt|Ge].
    + rewrite !app_nth1 by lia. apply Rb. exact Lt.
    + replace j with (length (boffs S)) by lia.
      replace (nth (length (boffs S)) (boffs S ++ [top S + 1]) 0) with (top S + 1)
        by (rewrite app_nth2, Nat.sub_diag by lia; reflexivity).
      replace (nth (length (boffs S)) (sb s ++ [v]) 0) with v
        by (rewrite <- Rlb, app_nth2, Nat.sub_diag by lia; reflexivity).
      rewrite EF. split; assumption.
Qed.
(* overwriting the slot of int local i *)
Lemma rep_set_int S s m i x : wf_senv S -> rep S s m -> (i < length (ioffs S))%nat -> inrange w x ->
  let m' := sw m (FP m - nth i (ioffs S) 0) x in
  rep S (mkstore (upd i (sgn x) (si s)) (sb s) (sg s) (sgb s)) m' /\ fagree m m'.
Proof.
  intros Wf Rp Hi Hx m'. pose proof (rp_regs w R lo gl ng nbg S s m Rp) as L.
  assert (Hlo : 0 <= lo) by (destruct L; lia).
  destruct (rep_slot_i w R lo fb gl ng nbg Hw S s m i (FP m - top S) Wf Rp Hi ltac:(lia)) as [O1 [O2 [O3 [D0 [D1 D2]]]]].
  pose proof (wfs_i w fb S Wf i Hi) as Oi. pose proof (wfs_fb w fb S Wf) as Ofb.
  set (a := FP m - nth i (ioffs S) 0) in *.
  assert (Aa : agree w R lo (FP m - fb) m m').
  { apply (agree_sw w R lo Hw); [exact O2|]. right. right. destruct Rp. subst a. lia. }
  assert (Fa : fagree m m') by (apply (agree_gagree w R lo gl); exact Aa).
  assert (EF : FP m' = FP m) by apply (FP_fagree w R lo fb gl Hw Hgl m m' L Fa).
  split; [|exact Fa]. pose proof (glob_agree w R lo gl ng nbg Hw Hgl S s m m' _ Rp Aa ltac:(lia)) as Gg. pose proof (globb_agree w R lo gl ng nbg Hw Hgl S s m m' _ Rp Aa ltac:(lia)) as Gb.
  destruct Rp as [Rg Rlo Rh Rsz Rli Rlb Ri Rb Rap Rgl Rgn Rgg Rgd Rbn Rbg Rbd].
  constructor; cbn [si sb sg sgb]; rewrite ?EF; try assumption;
    try (intros Ap; rewrite (ap_agree w R lo Hw _ _ _ Ap Aa); exact (Rap Ap)).
  - apply (regs_ok_fagree w R lo fb gl Hw Hgl m m' L Fa).
  - unfold m'. rewrite msize_sw. exact Rsz.
  - rewrite length_upd. exact Rli.
  - intros k Hk. destruct (Nat.eq_dec k i) as [->|Ne].
    + rewrite nth_upd_same by lia. fold a. unfold m'. rewrite (lw_sw_same w Hw1) by exact O2.
      now rewrite (wrap_small w x Hx).
    + rewrite nth_upd_other by congruence. rewrite <- (Ri k Hk). f_equal. unfold m'.
      pose proof (wfs_ii w fb S Wf i k Hi Hk ltac:(congruence)) as Dk. pose proof (wfs_i w fb S Wf k Hk) as Ok.
      apply (lw_sw_other w Hw1); subst a; lia.
  - intros j Hj. destruct (Rb j Hj) as [E N]. split; [|exact N]. rewrite <- E. unfold m'.
    pose proof (wfs_ib w fb S Wf i j Hi Hj) as Dj. pose proof (wfs_b w fb S Wf j Hj) as Oj.
    apply (lb_sw_other w Hw1); subst a; lia.
Qed.
Lemma rep_set_bool S s m j v : wf_senv S -> rep S s m -> (j < length (boffs S))%nat -> v = 0 \/ v = 1 ->
  let m' := Machine.sb m (FP m - nth j (boffs S) 0) v in
  rep S (mkstore (si s) (upd j v (sb s)) (sg s) (sgb s)) m' /\ fagree m m'.
Proof.
  intros Wf Rp Hj Hv m'. pose proof (rp_regs w R lo gl ng nbg S s m Rp) as L.
  assert (Hlo : 0 <= lo) by (destruct L; lia).
  destruct (rep_slot_b w R lo fb gl ng nbg Hw S s m j (FP m - top S) Wf Rp Hj ltac:(lia)) as [O1 [O2 [O3 [D0 [D1 D2]]]]].
  pose proof (wfs_b w fb S Wf j Hj) as Oj. pose proof (wfs_fb w fb S Wf) as Ofb.
  set (a := FP m - nth j (boffs S) 0) in *.
  assert (Aa : agree w R lo (FP m - fb) m m').
  { unfold agree, m', Machine.sb. split; [reflexivity|]. split.
    - intros Wfm. apply wf_setb; [exact Wfm | exact O2 | apply Z.mod_pos_bound; lia].
    - intros x X N0 N1 N2 N3. apply getb_setb_other; [exact O2 | exact X |]. destruct Rp. subst a. lia. }
  assert (Fa : fagree m m') by (apply (agree_gagree w R lo gl); exact Aa).
  assert (EF : FP m' = FP m) by apply (FP_fagree w R lo fb gl Hw Hgl m m' L Fa).
  split; [|exact Fa]. pose proof (glob_agree w R lo gl ng nbg Hw Hgl S s m m' _ Rp Aa ltac:(lia)) as Gg. pose proof (globb_agree w R lo gl ng nbg Hw Hgl S s m m' _ Rp Aa ltac:(lia)) as Gb.
  destruct Rp as [Rg Rlo Rh Rsz Rli Rlb Ri Rb Rap Rgl Rgn Rgg Rgd Rbn Rbg Rbd].
  constructor; cbn [si sb sg sgb]; rewrite ?EF; try assumption;
    try (intros Ap; rewrite (ap_agree w R lo Hw _ _ _ Ap Aa); exact (Rap Ap)).
  - apply (regs_ok_fagree w R lo fb gl Hw Hgl m m' L Fa).
  - rewrite length_upd. exact Rlb.
  - intros i Hi. rewrite <- (Ri i Hi). f_equal. unfold m'.
    pose proof (wfs_ib w fb S Wf i j Hi Hj) as Dj. pose proof (wfs_i w fb S Wf i Hi) as Oi.
    apply (lw_sb_other w Hw1); subst a; lia.
  - intros k Hk. destruct (Nat.eq_dec k j) as [->|Ne].
    + rewrite nth_upd_same by lia. fold a. unfold m'. rewrite (lb_sb_same). split; [|exact Hv].
      destruct Hv as [-> | ->]; reflexivity.
    + rewrite nth_upd_other by congruence. destruct (Rb k Hk) as [E N]. split; [|exact N]. rewrite <- E. unfold m'.
      pose proof (wfs_bb w fb S Wf j k Hj Hk ltac:(congruence)) as Dk. pose proof (wfs_b w fb S Wf k Hk) as Ok.
      apply lb_sb_other; subst a; lia.
Qed.

(* ---------- int operands in statement position ---------- *)
(* the hypotheses every expression lowering needs, from the representation *)
Lemma rep_opd_hyps S s m o keep : wf_senv S -> rep S s m -> oscoped w ng (length (ioffs S)) (length (boffs S)) o ->
  need_int S o keep <= FP m - lo ->
  wsize (env_of S) = w /\ regs_ok w R lo m /\ room_ok w R lo (top S) m /\
  oexp_ok w R (env_of S) lo (FP m - top S) m o /\ Z.of_nat (temps o keep) * w <= FP m - top S - lo.
Proof.
  intros Wf Rp Sc Hn. unfold need_int in Hn. rewrite (wfs_w w fb S Wf) in Hn.
  assert (0 <= Z.of_nat (temps o keep) * w) by (apply Z.mul_nonneg_nonneg; lia).
  split; [apply (wfs_w w fb S Wf)|]. split; [apply (rp_regs w R lo gl ng nbg S s m Rp)|].
  split; [apply (rep_room w R lo fb gl ng nbg S s m (top S) Wf Rp); lia|].
  split; [apply (rep_oexp w R lo fb gl ng nbg Hw S s m o _ Wf Rp Sc); lia | lia].
Qed.
(* get_expr_value(r1, o): evaluate and pop into r1 *)
Lemma get_value_runs S s m rg o c0 bub c1 v p : rg = R0 \/ rg = R1 -> wf_senv S -> rep S s m -> oscoped w ng (length (ioffs S)) (length (boffs S)) o ->
  need_int S o false <= FP m - lo ->
  eval_opd (env_of S) (top S) rg o false = (c0, bub) -> pop_value rg bub = (c1, v) -> plc (c0 ++ c1) p ->
  exists m2, runs (mk p m) [] (mk (p + size (c0 ++ c1)) m2) /\ agree w R lo (FP m - top S) m m2 /\
             oval m2 (rs v) = Some (wval w R (env_of S) m o) /\ ((exists ch z, v = lit_sym ch z) \/ v = SReg rg \/ exists g, v = SReg (RGlob g) /\ o = OGlob g).
Proof.
  intros Hr Wf Rp Sc Hn Ev Pv P.
  destruct (rep_opd_hyps S s m o false Wf Rp Sc Hn) as [HwE [L [Ro [Oe T]]]].
  set (E := env_of S) in *. set (tp := top S) in *.
  destruct (eval_opd_props w R E lo Hw HwE code cmem lab o tp rg false m Hr L Ro Oe T) as [A [V Cd]].
  set (m1 := eval_mem w R E tp rg o false m) in *.
  pose proof (regs_ok_agree w R lo Hw _ m m1 L A) as L1. pose proof (FP_agree w R lo Hw _ m m1 L A) as F1.
  pose proof (room_ok_agree w R lo Hw _ tp m m1 L A Ro) as Ro1.
  assert (Eb : bub = bub_of E tp rg o false) by (pose proof (eval_opd_bub E o tp rg false) as Q; rewrite Ev in Q; exact Q).
  assert (Bok : bub_ok w R lo (FP m1 - tp) m1 bub).
  { pose proof (bub_of_ok w R E lo Hw HwE tp rg o false m1 Hr L1 Ro1) as Bk. rewrite top_after_bub in Bk.
    unfold pushed in Bk. cbn [andb] in Bk. change (Z.of_nat 0) with 0 in Bk. replace (tp + 0 * wsize E) with tp in Bk by lia.
    rewrite Eb. apply Bk; [|destruct Ro1; lia]. rewrite F1. apply (oexp_ok_agree w R E lo Hw _ (FP m - tp) m m1); assumption. }
  destruct (pop_props w R lo Hw code cmem lab rg bub _ m1 Hr L1 Bok) as [A2 [S2 C2]].
  apply placed_app in P. destruct P as [P1 P2].
  exists (pop_mem w R rg bub m1). split; [|split; [|split]].
  - rewrite size_app. change (@nil event) with (@nil event ++ []).
    eapply runs_trans; [apply (Cd c0 bub p Ev P1)|].
    replace (p + (size c0 + size c1)) with (p + size c0 + size c1) by lia. apply (C2 c1 v _ Pv P2).
  - eapply (agree_trans w R lo); [exact A|]. apply (agree_mono w R lo lo); [destruct Ro; lia | exact A2].
  - assert (S2' : symval w R (pop_mem w R rg bub m1) (sym_of rg bub) = Some (wval w R E m o)) by (rewrite S2, Eb; f_equal; exact V).
    unfold sym_of in S2'. rewrite Pv in S2'. cbn [snd] in S2'. apply (symval_oval w R cmem lab _ _ _ S2').
  - rewrite Eb in Pv. destruct o as [ch z|i|op x y|u x|g|tx|yj]; cbn [bub_of pop_value] in Pv; try (inversion Pv; eauto 6; fail).
    destruct (bub_of E tp rg tx false) as [? ?|[]| | | |]; cbn [to_byte pop_value] in Pv; inversion Pv; eauto 6.
Qed.
Lemma sval_ieval S s m o : wf_senv S -> rep S s m -> oscoped w ng (length (ioffs S)) (length (boffs S)) o ->
  sgn (wval w R (env_of S) m o) = ieval w s o /\ inrange w (wval w R (env_of S) m o).
Proof.
  intros Wf Rp Sc. pose proof (rp_regs w R lo gl ng nbg S s m Rp) as L.
  split; [|apply (wval_range w R (env_of S) Hw); apply (lo_wf w R lo m L)].
  rewrite (sgn_wval w R (env_of S) lo Hw (FP m - top S) m o (lo_wf w R lo m L)).
  - apply (rep_sval w R lo fb gl ng nbg Hw S s m o Wf Rp Sc).
  - apply (rep_oexp w R lo fb gl ng nbg Hw S s m o _ Wf Rp Sc). lia.
Qed.

(* int x = o; *)
Lemma agree_sb hi m a v : 0 <= a -> lo <= a -> a + 1 <= hi -> agree w R lo hi m (Machine.sb m a v).
Proof.
  intros Ha Hl Hh. unfold agree, Machine.sb. split; [reflexivity|]. split.
  - intros Wfm. apply wf_setb; [exact Wfm | exact Ha | apply Z.mod_pos_bound; lia].
  - intros x X N0 N1 N2 N3. apply getb_setb_other; [exact Ha | exact X | lia].
Qed.
(* a byte stored into the low byte of a zero word: the word is the byte (little endian) *)
Lemma lw_sb_zero m a b : wf_mem m -> 0 <= a -> 0 <= b < 256 -> lw m a = 0 -> lw (Machine.sb m a b) a = b.
Proof.
  intros Wfm Ha Hb Z0. unfold Machine.lw, Machine.sb, Machine.wn in *.
  destruct (Z.to_nat w) as [|k] eqn:Ek; [lia|]. cbn [loadn] in *.
  rewrite getb_setb_same. rewrite (loadn_ext k (setb m a (b mod 256)) m (a + 1)) by (intros x Hx; apply getb_setb_other; lia).
  pose proof (Wfm a). pose proof (loadn_range k m (a + 1) Wfm). rewrite Z.mod_small by lia. lia.
Qed.
Definition decl_int_gen (S : senv) (o : iopd) : list aline :=
  let E := env_of S in
  let (c0, bub) := eval_opd E (top S) R1 o true in
  match bub with
  | BuPushed _ => c0
  | _ => let (c1, v) := pop_value R1 bub in
         c0 ++ c1 ++ [AInstr (ASwso (SReg RFp) (SLit (- (top S + ws S))) v)]
  end.
Lemma decl_int_not_byte S o : match o with OByte _ => False | _ => True end -> decl_int S o = decl_int_gen S o.
Proof. destruct o; intros H; try reflexivity; destruct H. Qed.
Lemma decl_int_runs S s m o p : wf_senv S -> rep S s m -> oscoped w ng (length (ioffs S)) (length (boffs S)) o -> not_trunc o ->
  need_int S o true <= FP m - lo -> top S + w <= FP m - lo -> plc (decl_int S o) p ->
  exists m', runs (mk p m) [] (mk (p + size (decl_int S o)) m') /\
             rep (push_int S) (mkstore (si s ++ [ieval w s o]) (sb s) (sg s) (sgb s)) m' /\ agree w R lo (FP m - top S) m m'.
Proof.
  intros Wf Rp Sc Nt Hn Ht P.
  assert (Hob : (exists j, o = OByte j) \/ match o with OByte _ => False | _ => True end) by (destruct o; eauto).
  destruct Hob as [[j ->] | Nb0].
  { (* (x is int) of a byte-sized local: clear the word, push the byte into its low byte *)
    cbn [oscoped] in Sc. cbn [decl_int size] in P |- *. cbn [plc res_ins res_sym regaddr] in P. destruct P as [C1 [C2 [C3 _]]].
    pose proof (rp_regs w R lo gl ng nbg S s m Rp) as L. pose proof (wfs_w w fb S Wf) as Ews. pose proof (wfs_fb w fb S Wf) as Ofb.
    rewrite Ews in C1, C3. set (tp := top S) in *. set (a := FP m - (tp + w)).
    assert (Ho : 0 < tp + w <= W / 2) by (destruct Rp; unfold tp in *; lia).
    assert (Ia : inb m a w = true) by (apply inb_true; destruct Rp, L; unfold a, tp in *; lia).
    assert (Ha : 0 <= a /\ lo <= a /\ a + w <= FP m - tp) by (destruct L; unfold a, tp in *; lia).
    assert (W0 : wrap 0 = 0) by (apply (wrap_small w); pose proof (W_pos w Hw1); unfold inrange; lia).
    pose proof (store_word_runs p m (Imm 0) (wrap 0) (tp + w) C1 (oval_imm w cmem m 0) L Ho Ia) as Rn1. fold a in Rn1.
    set (m1 := sw m a (wrap 0)) in *.
    assert (A1 : agree w R lo (FP m - tp) m m1) by (apply (agree_sw w R lo Hw); [lia | right; right; lia]).
    pose proof (regs_ok_agree w R lo Hw _ m m1 L A1) as L1. pose proof (FP_agree w R lo Hw _ m m1 L A1) as F1.
    pose proof (rep_agree w R lo fb gl ng nbg Hw S s m m1 Wf Rp A1) as Rp1.
    destruct (rep_slot_y w R lo fb gl ng nbg Hw S s m1 j (FP m1 - top S) Wf Rp1 Sc ltac:(lia)) as [O1 [O2 [O3 _]]].
    pose proof (act_lbso w code cmem _ m1 r1 (St fp) (Imm (- byte_off (env_of S) j)) (FP m1) (wrap (- byte_off (env_of S) j)) C2
                  (oval_st w cmem m1 fp (lo_if w R lo m1 L1)) (oval_imm w cmem m1 _)) as Al.
    rewrite (frame_addr w R lo Hw m1 _ L1 O1) in Al. specialize (Al O3 (lo_i1 w R lo m1 L1)).
    pose proof (rep_yval w R lo fb gl ng nbg Hw S s m1 j Wf Rp1 Sc) as Bv.
    set (bv := lb m1 (FP m1 - byte_off (env_of S) j)) in *.
    assert (Rb : 0 <= bv < 256) by (apply (lb_range m1 _ (lo_wf w R lo m1 L1))).
    set (m2 := sw m1 r1 bv) in *.
    assert (A12 : agree w R lo (FP m - tp) m1 m2) by (apply (agree_sw w R lo Hw); [apply (lo_r1 w R lo m1 L1) | auto]).
    assert (A2 : agree w R lo (FP m - tp) m m2) by (eapply (agree_trans w R lo); [exact A1 | exact A12]).
    pose proof (regs_ok_agree w R lo Hw _ m m2 L A2) as L2. pose proof (FP_agree w R lo Hw _ m m2 L A2) as F2.
    assert (Wb : wrap bv = bv) by (apply (wrap_small w); unfold inrange; pose proof (W_ge w Hw1); lia).
    assert (Ov : oval m2 (St r1) = Some bv) by (unfold m2; rewrite (oval_st_sw_same w Hw cmem m1 _ _ (lo_r1 w R lo m1 L1) (lo_i1 w R lo m1 L1)), Wb; reflexivity).
    assert (I2 : inb m2 (FP m2 - (tp + w)) 1 = true).
    { rewrite F2. fold a. unfold m2, m1. rewrite !inb_sw. unfold inb in *. apply andb_true_iff in Ia. destruct Ia as [X1 X2].
      apply Z.leb_le in X1, X2. apply andb_true_iff. split; apply Z.leb_le; lia. }
    pose proof (store_byte_runs _ m2 (St r1) bv (tp + w) C3 Ov L2 Ho I2) as Rn3. rewrite F2 in Rn3. fold a in Rn3.
    set (m3 := Machine.sb m2 a bv) in *.
    assert (A3 : agree w R lo (FP m - tp) m m3) by (eapply (agree_trans w R lo); [exact A2 | apply agree_sb; lia]).
    exists m3. split; [|split; [|exact A3]].
    - change (@nil event) with (@nil event ++ ([] ++ [])). eapply runs_trans; [exact Rn1|].
      eapply runs_trans; [apply (runs_next act _ _ None Al)|].
      replace (p + (1 + (1 + (1 + 0)))) with (p + 1 + 1 + 1) by lia. exact Rn3.
    - apply (rep_push_int S s m); try assumption. fold tp a. rewrite <- Bv.
      unfold m3. rewrite (lw_sb_zero m2 a bv (lo_wf w R lo m2 L2)); [| lia | exact Rb |].
      + apply (sgn_small w). pose proof (half_ge_256 w Hw). lia.
      + unfold m2. rewrite (lw_sw_other w Hw1) by (destruct L1; lia). unfold m1. rewrite (lw_sw_same w Hw1) by lia.
        rewrite (wrap_wrap w Hw1). exact W0. }
  rewrite (decl_int_not_byte S o Nb0) in *. unfold decl_int_gen in *.
  destruct (rep_opd_hyps S s m o true Wf Rp Sc Hn) as [HwE [L [Ro [Oe T]]]].
  destruct (sval_ieval S s m o Wf Rp Sc) as [Sv Rv].
  pose proof (wfs_w w fb S Wf) as Ews. pose proof (wfs_fb w fb S Wf) as Ofb.
  set (E := env_of S) in *. set (tp := top S) in *.
  assert (Hlo : 0 <= lo) by (destruct L; lia).
  assert (Ho : 0 < tp + w <= W / 2) by (destruct Rp; unfold tp in *; lia).
  assert (Final : forall m1, agree w R lo (FP m - tp) m m1 -> forall v q, oval m1 (rs v) = Some (wval w R E m o) ->
            code q = Some (IStoreO WWord (St fp) (Imm (- (tp + w))) (rs v)) ->
            exists m', runs (mk q m1) [] (mk (q + 1) m') /\
                       rep (push_int S) (mkstore (si s ++ [ieval w s o]) (sb s) (sg s) (sgb s)) m' /\ agree w R lo (FP m - tp) m m').
  { intros m1 A1 v q Ov Cq.
    pose proof (regs_ok_agree w R lo Hw _ m m1 L A1) as L1. pose proof (FP_agree w R lo Hw _ m m1 L A1) as F1.
    assert (I1 : inb m1 (FP m1 - (tp + w)) w = true).
    { rewrite F1, (agree_inb w R lo _ m m1 _ _ A1). apply inb_true; destruct Rp; unfold tp in *; lia. }
    pose proof (store_word_runs q m1 (rs v) _ (tp + w) Cq Ov L1 Ho I1) as Rn.
    exists (sw m1 (FP m1 - (tp + w)) (wval w R E m o)). split; [exact Rn|].
    assert (A2 : agree w R lo (FP m - tp) m (sw m1 (FP m1 - (tp + w)) (wval w R E m o))).
    { eapply (agree_trans w R lo); [exact A1|]. apply (agree_sw w R lo Hw); rewrite F1; [lia | right; right; lia]. }
    split; [|exact A2]. apply (rep_push_int S s m); try assumption.
    rewrite F1. rewrite (lw_sw_same w Hw1) by lia. rewrite (wrap_small w _ Rv). exact Sv. }
  destruct (eval_opd_props w R E lo Hw HwE code cmem lab o tp R1 true m (or_intror eq_refl) L Ro Oe T) as [A [V Cd]].
  fold E tp in P |- *.
  destruct (eval_opd E tp R1 o true) as [c0 bub] eqn:Ev.
  assert (Eb : bub = bub_of E tp R1 o true) by (pose proof (eval_opd_bub E o tp R1 true) as Q; rewrite Ev in Q; exact Q).
  destruct (is_safe o && negb (is_glob o)) eqn:Sf0.
  - (* a literal or a local: fetched, then pushed *)
    apply andb_true_iff in Sf0. destruct Sf0 as [Sf Ng]. apply negb_true_iff in Ng.
    rewrite (eval_mem_safe w R E tp R1 o true m Sf ltac:(rewrite Ng; reflexivity)) in *.
    assert (Ec : c0 = []) by (destruct o; try discriminate Sf; try discriminate Ng; cbn [eval_opd] in Ev; inversion Ev; reflexivity).
    assert (Bok : bub_ok w R lo (FP m - tp) m bub).
    { pose proof (bub_of_ok w R E lo Hw HwE tp R1 o true m (or_intror eq_refl) L Ro Oe) as Bk. rewrite top_after_bub in Bk.
      assert (Vc : is_vac o = true) by (destruct o; try discriminate Sf; try discriminate Ng; reflexivity).
      unfold pushed in Bk. rewrite Vc in Bk. cbn [negb andb orb] in Bk. change (Z.of_nat 0) with 0 in Bk.
      replace (tp + 0 * wsize E) with tp in Bk by lia. rewrite Eb. apply Bk. destruct Ro; lia. }
    destruct (pop_props w R lo Hw code cmem lab R1 bub _ m (or_intror eq_refl) L Bok) as [A2 [S2 C2]].
    assert (Nb : match bub with BuPushed _ => False | _ => True end) by (rewrite Eb; destruct o; try discriminate Sf; try discriminate Ng; exact I).
    destruct (pop_value R1 bub) as [c1 v] eqn:Pv.
    assert (Ecode : (match bub with BuPushed _ => c0 | _ => c0 ++ c1 ++ [AInstr (ASwso (SReg RFp) (SLit (- (tp + ws S))) v)] end)
                    = c1 ++ [AInstr (ASwso (SReg RFp) (SLit (- (tp + ws S))) v)]) by (subst c0; destruct bub; try destruct Nb; reflexivity).
    rewrite Ecode in *. apply placed_app in P. destruct P as [P1 P2]. cbn [plc res_ins res_sym regaddr] in P2. destruct P2 as [Cq _].
    rewrite Ews in Cq.
    assert (Ov : oval (pop_mem w R R1 bub m) (rs v) = Some (wval w R E m o)).
    { assert (S2' : symval w R (pop_mem w R R1 bub m) (sym_of R1 bub) = Some (wval w R E m o)) by (rewrite S2, Eb; f_equal; exact V).
      unfold sym_of in S2'. rewrite Pv in S2'. apply (symval_oval w R cmem lab _ _ _ S2'). }
    assert (Hlh : lo <= FP m - tp) by (destruct Ro; lia).
    destruct (Final (pop_mem w R R1 bub m) (agree_mono w R lo lo (FP m - tp) _ _ Hlh A2) v _ Ov Cq) as [m' [Rn [Rp' A']]].
    exists m'. split; [|split; [exact Rp' | exact A']].
    rewrite size_app. cbn [size]. change (@nil event) with (@nil event ++ []).
    eapply runs_trans; [apply (C2 c1 v p eq_refl P1)|].
    replace (p + (size c1 + (1 + 0))) with (p + size c1 + 1) by lia. exact Rn.
  - (* a computed value: eval_expr has pushed it *)
    assert (Ebp : bub = BuPushed (tp + w)) by (rewrite Eb; destruct o; try discriminate Sf0; try destruct Nb0; try destruct Nt; cbn [bub_of]; rewrite HwE; reflexivity).
    rewrite Ebp in *. set (m1 := eval_mem w R E tp R1 o true m) in *.
    exists m1. split; [apply (Cd c0 _ p eq_refl P)|]. split; [|exact A].
    apply (rep_push_int S s m); try assumption.
    assert (Ebv : bub_val w R m1 (bub_of E tp R1 o true) = lw m1 (FP m - (tp + w))).
    { destruct o; try discriminate Sf0; try destruct Nb0; try destruct Nt; cbn [bub_of bub_val]; rewrite HwE, (FP_agree w R lo Hw _ m m1 L A); reflexivity. }
    fold tp. rewrite <- Ebv, V. exact Sv.
Qed.

(* xi = o; *)
Lemma assign_int_runs S s m i o p : wf_senv S -> rep S s m -> (i < length (ioffs S))%nat ->
  oscoped w ng (length (ioffs S)) (length (boffs S)) o -> need_int S o false <= FP m - lo -> plc (assign_int S i o) p ->
  exists m', runs (mk p m) [] (mk (p + size (assign_int S i o)) m') /\
             rep S (mkstore (upd i (ieval w s o) (si s)) (sb s) (sg s) (sgb s)) m' /\ fagree m m'.
Proof.
  intros Wf Rp Hi Sc Hn P. unfold assign_int in *.
  destruct (eval_opd (env_of S) (top S) R1 o false) as [c0 bub] eqn:Ev.
  destruct (pop_value R1 bub) as [c1 v] eqn:Pv.
  assert (Eq : c0 ++ c1 ++ [AInstr (ASwso (SReg RFp) (SLit (- nth i (ioffs S) 0)) v)]
               = (c0 ++ c1) ++ [AInstr (ASwso (SReg RFp) (SLit (- nth i (ioffs S) 0)) v)]) by (now rewrite <- app_assoc).
  rewrite Eq in *. clear Eq. apply placed_app in P. destruct P as [P1 P2].
  cbn [plc res_ins res_sym regaddr] in P2. destruct P2 as [Cq _].
  destruct (get_value_runs S s m R1 o c0 bub c1 v p (or_intror eq_refl) Wf Rp Sc Hn Ev Pv P1) as [m2 [Rn [A [Ov _]]]].
  destruct (sval_ieval S s m o Wf Rp Sc) as [Sv Rv].
  pose proof (rep_agree w R lo fb gl ng nbg Hw S s m m2 Wf Rp A) as Rp2.
  pose proof (rp_regs w R lo gl ng nbg S s m Rp) as L. pose proof (FP_agree w R lo Hw _ m m2 L A) as F2.
  destruct (rep_slot_i w R lo fb gl ng nbg Hw S s m2 i (FP m2 - top S) Wf Rp2 Hi ltac:(lia)) as [O1 [O2 [O3 _]]].
  pose proof (store_word_runs _ m2 (rs v) _ _ Cq Ov (rp_regs w R lo gl ng nbg S s m2 Rp2) O1 O3) as Rs.
  destruct (rep_set_int S s m2 i _ Wf Rp2 Hi Rv) as [Rp3 Fa]. rewrite Sv in Rp3.
  eexists. split; [|split; [exact Rp3|]].
  - rewrite size_app. cbn [size]. change (@nil event) with (@nil event ++ []).
    eapply runs_trans; [exact Rn|]. replace (p + (size (c0 ++ c1) + (1 + 0))) with (p + size (c0 ++ c1) + 1) by lia. exact Rs.
  - apply (fagree_trans w R lo fb gl Hw Hgl m m2); [exact L | apply (agree_fagree w R lo fb gl ng nbg S s m m2 Wf Rp A) | exact Fa].
Qed.

(* write(b) *)
Lemma yield_runs p m v x : code p = Some (IYield v) -> oval m v = Some x ->
  runs (mk p m) [EOut (x mod 256)] (mk (p + 1) m).
Proof. intros C A. apply (runs_next act _ _ (Some (EOut (x mod 256)))). apply (act_yield p m v x); assumption. Qed.
Lemma write_runs S s m x p : wf_senv S -> rep S s m ->
  match x with WrByte o => oscoped w ng (length (ioffs S)) (length (boffs S)) o /\ need_int S o false <= FP m - lo | _ => True end ->
  plc (lower_write S x) p ->
  exists m', runs (mk p m) [EOut (wbyte w s x)] (mk (p + size (lower_write S x)) m') /\ rep S s m' /\ fagree m m'.
Proof.
  intros Wf Rp Hx P. pose proof (rp_regs w R lo gl ng nbg S s m Rp) as L. pose proof (wfs_fb w fb S Wf) as Ofb.
  destruct x as [z|c|o]; cbn [lower_write wbyte] in *.
  - cbn [plc res_ins res_sym] in P. destruct P as [C _]. exists m. cbn [size]. replace (p + (1 + 0)) with (p + 1) by lia.
    split; [|split; [exact Rp | apply fagree_refl]].
    rewrite <- (wrap_mod256 z). apply (yield_runs p m (Imm z)); [exact C | apply oval_imm].
  - cbn [plc res_ins res_sym] in P. destruct P as [C _]. exists m. cbn [size]. replace (p + (1 + 0)) with (p + 1) by lia.
    split; [|split; [exact Rp | apply fagree_refl]].
    rewrite <- (wrap_mod256 c). apply (yield_runs p m (Imm c)); [exact C | apply oval_imm].
  - destruct Hx as [Sc Hn].
    destruct (rep_opd_hyps S s m o false Wf Rp Sc Hn) as [HwE [_ [Ro [Oe T]]]].
    destruct (sval_ieval S s m o Wf Rp Sc) as [Sv Rv].
    set (E := env_of S) in *. set (tp := top S) in *.
    destruct (eval_opd_props w R E lo Hw HwE code cmem lab o tp R1 false m (or_intror eq_refl) L Ro Oe T) as [A [V Cd]].
    destruct (eval_opd E tp R1 o false) as [c0 bub] eqn:Ev.
    assert (Eb : bub = bub_of E tp R1 o false) by (pose proof (eval_opd_bub E o tp R1 false) as Q; rewrite Ev in Q; exact Q).
    set (m1 := eval_mem w R E tp R1 o false m) in *.
    pose proof (regs_ok_agree w R lo Hw _ m m1 L A) as L1. pose proof (FP_agree w R lo Hw _ m m1 L A) as F1.
    apply placed_app in P. destruct P as [P0 P1].
    pose proof (Cd c0 bub p eq_refl P0) as R0'.
    assert (Ev256 : ieval w s o mod 256 = wval w R E m o mod 256) by (rewrite <- Sv; apply sgn_mod256; exact Rv).
    rewrite Ev256.
    assert (Tail : forall q mq, agree w R lo (FP m - tp) m mq -> oval mq (St r1) = Some (wval w R E m o mod 256) ->
              code q = Some (IYield (St r1)) ->
              runs (mk q mq) [EOut (wval w R E m o mod 256)] (mk (q + 1) mq)).
    { intros q mq Aq Oq Cq. pose proof (yield_runs q mq (St r1) _ Cq Oq) as Y. rewrite Z.mod_mod in Y by lia. exact Y. }
    rewrite Eb in *. destruct o as [ch z|i|op x y|u x|g|tx|yj]; cbn [bub_of] in *.
    + (* a literal: masked at compile time *)
      assert (C : code (p + size c0) = Some (IYield (Imm (z mod 256)))) by (destruct ch; cbn [lit_sym plc res_ins res_sym] in P1; destruct P1 as [C _]; exact C).
      exists m1.
      rewrite size_app. cbn [size]. split; [|split; [apply (rep_agree w R lo fb gl ng nbg Hw S s m m1 Wf Rp A) | apply (agree_fagree w R lo fb gl ng nbg S s m m1 Wf Rp A)]].
      change [EOut (wval w R E m (OLit ch z) mod 256)] with ([] ++ [EOut (wval w R E m (OLit ch z) mod 256)]).
      eapply runs_trans; [exact R0'|]. replace (p + (size c0 + (1 + 0))) with (p + size c0 + 1) by lia.
      cbn [wval]. rewrite wrap_mod256. rewrite <- (Z.mod_mod z 256) by lia. rewrite <- (wrap_mod256 (z mod 256)).
      apply (yield_runs _ m1 (Imm (z mod 256))); [exact C | apply oval_imm].
    + (* a local: lbso *)
      cbn [plc res_ins res_sym regaddr] in P1. destruct P1 as [Cl [Cy _]].
      cbn [oscoped] in Sc. cbn [env_of int_off] in *.
      pose proof (rep_agree w R lo fb gl ng nbg Hw S s m m1 Wf Rp A) as Rp1.
      destruct (rep_slot_i w R lo fb gl ng nbg Hw S s m1 i (FP m1 - top S) Wf Rp1 Sc ltac:(lia)) as [O1 [O2 [O3 _]]].
      assert (I1 : inb m1 (FP m1 - nth i (ioffs S) 0) 1 = true).
      { unfold inb in *. apply andb_true_iff in O3. destruct O3 as [X1 X2]. apply Z.leb_le in X1, X2. apply andb_true_iff. split; apply Z.leb_le; lia. }
      pose proof (act_lbso w code cmem _ m1 r1 (St fp) (Imm (- nth i (ioffs S) 0)) (FP m1) (wrap (- nth i (ioffs S) 0)) Cl
                    (oval_st w cmem m1 fp (lo_if w R lo m1 L1)) (oval_imm w cmem m1 _)) as Al.
      rewrite (frame_addr w R lo Hw m1 _ L1 O1) in Al. specialize (Al I1 (lo_i1 w R lo m1 L1)).
      set (m2 := sw m1 r1 (lb m1 (FP m1 - nth i (ioffs S) 0))) in *.
      assert (A2 : agree w R lo (FP m - tp) m m2).
      { eapply (agree_trans w R lo); [exact A|]. apply (agree_sw w R lo Hw); [apply (lo_r1 w R lo m1 L1) | auto]. }
      exists m2. rewrite size_app. cbn [size].
      split; [|split; [apply (rep_agree w R lo fb gl ng nbg Hw S s m m2 Wf Rp A2) | apply (agree_fagree w R lo fb gl ng nbg S s m m2 Wf Rp A2)]].
      change [EOut (wval w R E m (OVar i) mod 256)] with ([] ++ ([] ++ [EOut (wval w R E m (OVar i) mod 256)])).
      eapply runs_trans; [exact R0'|]. eapply runs_trans; [apply (runs_next act _ _ None Al)|].
      replace (p + (size c0 + (1 + (1 + 0)))) with (p + size c0 + 1 + 1) by lia.
      apply (Tail _ m2 A2); [|exact Cy].
      unfold m2. rewrite (oval_st_sw_same w Hw cmem m1 _ _ (lo_r1 w R lo m1 L1) (lo_i1 w R lo m1 L1)). f_equal.
      rewrite (lb_lw m1 _ (lo_wf w R lo m1 L1)). cbn [wval env_of int_off]. fold E.
      rewrite F1. rewrite (agree_lw w R lo Hw (FP m - tp) m m1 _ A); [| rewrite <- F1; exact O2 |].
      * apply (wrap_small w). unfold inrange. pose proof (W_ge w Hw1). pose proof (Z.mod_pos_bound (lw m (FP m - nth i (ioffs S) 0)) 256 ltac:(lia)). lia.
      * destruct (rep_slot_i w R lo fb gl ng nbg Hw S s m i (FP m - top S) Wf Rp Sc ltac:(lia)) as [_ [_ [_ D]]]. exact D.
    + (* a computed value in r1: lbs [r1], r1 *)
      cbn [plc res_ins res_sym regaddr] in P1. destruct P1 as [Cl [Cy _]]. cbn [bub_val regaddr] in V.
      assert (Sr1 : wrap r1 = r1).
      { apply (wrap_small w). unfold inrange. destruct L1. pose proof (W_even w Hw1). destruct Rp. lia. }
      assert (I1 : inb m1 r1 1 = true).
      { pose proof (lo_i1 w R lo m1 L1) as X. unfold inb in *. apply andb_true_iff in X. destruct X as [X1 X2]. apply Z.leb_le in X1, X2. apply andb_true_iff. split; apply Z.leb_le; lia. }
      pose proof (act_lbs _ m1 r1 (Imm r1) r1 Cl ltac:(rewrite oval_imm, Sr1; reflexivity) I1 (lo_i1 w R lo m1 L1)) as Al.
      set (m2 := sw m1 r1 (lb m1 r1)) in *.
      assert (A2 : agree w R lo (FP m - tp) m m2).
      { eapply (agree_trans w R lo); [exact A|]. apply (agree_sw w R lo Hw); [apply (lo_r1 w R lo m1 L1) | auto]. }
      exists m2. rewrite size_app. cbn [size].
      split; [|split; [apply (rep_agree w R lo fb gl ng nbg Hw S s m m2 Wf Rp A2) | apply (agree_fagree w R lo fb gl ng nbg S s m m2 Wf Rp A2)]].
      change [EOut (wval w R E m (OArith op x y) mod 256)] with ([] ++ ([] ++ [EOut (wval w R E m (OArith op x y) mod 256)])).
      eapply runs_trans; [exact R0'|]. eapply runs_trans; [apply (runs_next act _ _ None Al)|].
      replace (p + (size c0 + (1 + (1 + 0)))) with (p + size c0 + 1 + 1) by lia.
      apply (Tail _ m2 A2); [|exact Cy].
      unfold m2. rewrite (oval_st_sw_same w Hw cmem m1 _ _ (lo_r1 w R lo m1 L1) (lo_i1 w R lo m1 L1)). f_equal.
      rewrite (lb_lw m1 _ (lo_wf w R lo m1 L1)), V.
      apply (wrap_small w). unfold inrange. pose proof (W_ge w Hw1). pose proof (Z.mod_pos_bound (wval w R E m (OArith op x y)) 256 ltac:(lia)). lia.
    + cbn [plc res_ins res_sym regaddr] in P1. destruct P1 as [Cl [Cy _]]. cbn [bub_val regaddr] in V.
      assert (Sr1 : wrap r1 = r1).
      { apply (wrap_small w). unfold inrange. destruct L1. pose proof (W_even w Hw1). destruct Rp. lia. }
      assert (I1 : inb m1 r1 1 = true).
      { pose proof (lo_i1 w R lo m1 L1) as X. unfold inb in *. apply andb_true_iff in X. destruct X as [X1 X2]. apply Z.leb_le in X1, X2. apply andb_true_iff. split; apply Z.leb_le; lia. }
      pose proof (act_lbs _ m1 r1 (Imm r1) r1 Cl ltac:(rewrite oval_imm, Sr1; reflexivity) I1 (lo_i1 w R lo m1 L1)) as Al.
      set (m2 := sw m1 r1 (lb m1 r1)) in *.
      assert (A2 : agree w R lo (FP m - tp) m m2).
      { eapply (agree_trans w R lo); [exact A|]. apply (agree_sw w R lo Hw); [apply (lo_r1 w R lo m1 L1) | auto]. }
      exists m2. rewrite size_app. cbn [size].
      split; [|split; [apply (rep_agree w R lo fb gl ng nbg Hw S s m m2 Wf Rp A2) | apply (agree_fagree w R lo fb gl ng nbg S s m m2 Wf Rp A2)]].
      change [EOut (wval w R E m (OUn u x) mod 256)] with ([] ++ ([] ++ [EOut (wval w R E m (OUn u x) mod 256)])).
      eapply runs_trans; [exact R0'|]. eapply runs_trans; [apply (runs_next act _ _ None Al)|].
      replace (p + (size c0 + (1 + (1 + 0)))) with (p + size c0 + 1 + 1) by lia.
      apply (Tail _ m2 A2); [|exact Cy].
      unfold m2. rewrite (oval_st_sw_same w Hw cmem m1 _ _ (lo_r1 w R lo m1 L1) (lo_i1 w R lo m1 L1)). f_equal.
      rewrite (lb_lw m1 _ (lo_wf w R lo m1 L1)), V.
      apply (wrap_small w). unfold inrange. pose proof (W_ge w Hw1). pose proof (Z.mod_pos_bound (wval w R E m (OUn u x)) 256 ltac:(lia)). lia.
    + (* an int global: lbs [r1], var_g *)
      cbn [plc res_ins res_sym regaddr] in P1. destruct P1 as [Cl [Cy _]]. cbn [bub_val regaddr] in V.
      cbn [oscoped] in Sc.
      pose proof (rep_agree w R lo fb gl ng nbg Hw S s m m1 Wf Rp A) as Rp1.
      destruct (rp_g w R lo gl ng nbg S s m1 Rp1 g Sc) as [G0 [G1 G2]]. pose proof (rp_gl w R lo gl ng nbg S s m1 Rp1) as Hf1.
      assert (Ha : 0 <= a_glob R g) by (destruct L1; lia).
      assert (Sa : wrap (a_glob R g) = a_glob R g) by (apply (wrap_small w); unfold inrange; lia).
      assert (I1 : inb m1 (a_glob R g) 1 = true).
      { unfold inb in *. apply andb_true_iff in G1. destruct G1 as [X1 X2]. apply Z.leb_le in X1, X2. apply andb_true_iff. split; apply Z.leb_le; lia. }
      pose proof (act_lbs _ m1 r1 (Imm (a_glob R g)) (a_glob R g) Cl ltac:(rewrite oval_imm, Sa; reflexivity) I1 (lo_i1 w R lo m1 L1)) as Al.
      set (m2 := sw m1 r1 (lb m1 (a_glob R g))) in *.
      assert (A2 : agree w R lo (FP m - tp) m m2).
      { eapply (agree_trans w R lo); [exact A|]. apply (agree_sw w R lo Hw); [apply (lo_r1 w R lo m1 L1) | auto]. }
      exists m2. rewrite size_app. cbn [size].
      split; [|split; [apply (rep_agree w R lo fb gl ng nbg Hw S s m m2 Wf Rp A2) | apply (agree_fagree w R lo fb gl ng nbg S s m m2 Wf Rp A2)]].
      change [EOut (wval w R E m (OGlob g) mod 256)] with ([] ++ ([] ++ [EOut (wval w R E m (OGlob g) mod 256)])).
      eapply runs_trans; [exact R0'|]. eapply runs_trans; [apply (runs_next act _ _ None Al)|].
      replace (p + (size c0 + (1 + (1 + 0)))) with (p + size c0 + 1 + 1) by lia.
      apply (Tail _ m2 A2); [|exact Cy].
      unfold m2. rewrite (oval_st_sw_same w Hw cmem m1 _ _ (lo_r1 w R lo m1 L1) (lo_i1 w R lo m1 L1)). f_equal.
      rewrite (lb_lw m1 _ (lo_wf w R lo m1 L1)).
      apply (wrap_small w). unfold inrange. pose proof (W_ge w Hw1). pose proof (Z.mod_pos_bound (lw m1 (a_glob R g)) 256 ltac:(lia)). lia.
    + (* (o is byte) is int: the register (r1, or the global) read through its low byte: lbs [r1], r *)
      assert (Gen : forall a, 0 <= a -> wrap a = a -> inb m1 a 1 = true -> lb m1 a = wval w R E m (OTrunc tx) ->
                code (p + size c0) = Some (ILoad WByte SState (St r1) (Imm a)) -> code (p + size c0 + 1) = Some (IYield (St r1)) ->
                exists m', runs (mk p m) [EOut (wval w R E m (OTrunc tx) mod 256)] (mk (p + (size c0 + (1 + (1 + 0)))) m') /\ rep S s m' /\ fagree m m').
      { intros a Ha Sa I1 Va Cl Cy.
        pose proof (act_lbs _ m1 r1 (Imm a) a Cl ltac:(rewrite oval_imm, Sa; reflexivity) I1 (lo_i1 w R lo m1 L1)) as Al.
        set (m2 := sw m1 r1 (lb m1 a)) in *.
        assert (A2 : agree w R lo (FP m - tp) m m2).
        { eapply (agree_trans w R lo); [exact A|]. apply (agree_sw w R lo Hw); [apply (lo_r1 w R lo m1 L1) | auto]. }
        exists m2. split; [|split; [apply (rep_agree w R lo fb gl ng nbg Hw S s m m2 Wf Rp A2) | apply (agree_fagree w R lo fb gl ng nbg S s m m2 Wf Rp A2)]].
        change [EOut (wval w R E m (OTrunc tx) mod 256)] with ([] ++ ([] ++ [EOut (wval w R E m (OTrunc tx) mod 256)])).
        eapply runs_trans; [exact R0'|]. eapply runs_trans; [apply (runs_next act _ _ None Al)|].
        replace (p + (size c0 + (1 + (1 + 0)))) with (p + size c0 + 1 + 1) by lia.
        apply (Tail _ m2 A2); [|exact Cy].
        unfold m2. rewrite (oval_st_sw_same w Hw cmem m1 _ _ (lo_r1 w R lo m1 L1) (lo_i1 w R lo m1 L1)). f_equal.
        rewrite Va. cbn [wval]. rewrite Z.mod_mod by lia.
        apply (wrap_small w). unfold inrange. pose proof (W_ge w Hw1). pose proof (Z.mod_pos_bound (wval w R E m tx) 256 ltac:(lia)). lia. }
      rewrite size_app. cbn [size].
      cbn [oscoped] in Sc. destruct Sc as [Stx Sh].
      destruct tx as [ch z|i|op x y|u x|g|tx'|yj]; try (exfalso; exact Sh); cbn [bub_of to_byte] in *;
        cbn [plc res_ins res_sym regaddr] in P1; destruct P1 as [Cl [Cy _]]; cbn [bub_val regaddr] in V.
      * apply (Gen r1); try assumption.
        -- apply (lo_r1 w R lo m1 L1).
        -- apply (wrap_small w). unfold inrange. destruct L1. pose proof (W_even w Hw1). destruct Rp. lia.
        -- pose proof (lo_i1 w R lo m1 L1) as X. unfold inb in *. apply andb_true_iff in X. destruct X as [X1 X2]. apply Z.leb_le in X1, X2. apply andb_true_iff. split; apply Z.leb_le; lia.
      * apply (Gen r1); try assumption.
        -- apply (lo_r1 w R lo m1 L1).
        -- apply (wrap_small w). unfold inrange. destruct L1. pose proof (W_even w Hw1). destruct Rp. lia.
        -- pose proof (lo_i1 w R lo m1 L1) as X. unfold inb in *. apply andb_true_iff in X. destruct X as [X1 X2]. apply Z.leb_le in X1, X2. apply andb_true_iff. split; apply Z.leb_le; lia.
      * cbn [oscoped] in Stx.
        pose proof (rep_agree w R lo fb gl ng nbg Hw S s m m1 Wf Rp A) as Rp1.
        destruct (rp_g w R lo gl ng nbg S s m1 Rp1 g Stx) as [G0 [G1 G2]]. pose proof (rp_gl w R lo gl ng nbg S s m1 Rp1) as Hf1.
        assert (Ha : 0 <= a_glob R g) by (destruct L1; lia).
        apply (Gen (a_glob R g)); try assumption.
        -- apply (wrap_small w); unfold inrange; lia.
        -- unfold inb in *. apply andb_true_iff in G1. destruct G1 as [X1 X2]. apply Z.leb_le in X1, X2. apply andb_true_iff. split; apply Z.leb_le; lia.
    + (* a byte-sized local read as an int: lbso *)
      cbn [plc res_ins res_sym regaddr] in P1. destruct P1 as [Cl [Cy _]].
      cbn [oscoped] in Sc. cbn [env_of bool_off] in *.
      pose proof (rep_agree w R lo fb gl ng nbg Hw S s m m1 Wf Rp A) as Rp1.
      destruct (rep_slot_y w R lo fb gl ng nbg Hw S s m1 yj (FP m1 - top S) Wf Rp1 Sc ltac:(lia)) as [O1 [O2 [O3 _]]].
      pose proof (act_lbso w code cmem _ m1 r1 (St fp) (Imm (- byte_off (env_of S) yj)) (FP m1) (wrap (- byte_off (env_of S) yj)) Cl
                    (oval_st w cmem m1 fp (lo_if w R lo m1 L1)) (oval_imm w cmem m1 _)) as Al.
      rewrite (frame_addr w R lo Hw m1 _ L1 O1) in Al. specialize (Al O3 (lo_i1 w R lo m1 L1)).
      set (m2 := sw m1 r1 (lb m1 (FP m1 - byte_off (env_of S) yj))) in *.
      assert (A2 : agree w R lo (FP m - tp) m m2).
      { eapply (agree_trans w R lo); [exact A|]. apply (agree_sw w R lo Hw); [apply (lo_r1 w R lo m1 L1) | auto]. }
      exists m2. rewrite size_app. cbn [size].
      split; [|split; [apply (rep_agree w R lo fb gl ng nbg Hw S s m m2 Wf Rp A2) | apply (agree_fagree w R lo fb gl ng nbg S s m m2 Wf Rp A2)]].
      change [EOut (wval w R E m (OByte yj) mod 256)] with ([] ++ ([] ++ [EOut (wval w R E m (OByte yj) mod 256)])).
      eapply runs_trans; [exact R0'|]. eapply runs_trans; [apply (runs_next act _ _ None Al)|].
      replace (p + (size c0 + (1 + (1 + 0)))) with (p + size c0 + 1 + 1) by lia.
      apply (Tail _ m2 A2); [|exact Cy].
      unfold m2. rewrite (oval_st_sw_same w Hw cmem m1 _ _ (lo_r1 w R lo m1 L1) (lo_i1 w R lo m1 L1)). f_equal.
      unfold m1. cbn [eval_mem wval env_of bool_off]. 
      pose proof (lb_range m (FP m - byte_off (env_of S) yj) (lo_wf w R lo m L)) as Rb.
      fold E in Rb. rewrite Z.mod_small by lia. apply (wrap_small w). unfold inrange. pose proof (W_ge w Hw1). lia.
Qed.

(* ---------- bool locals ---------- *)
(* value = get_expr_value(r1, e); sbso [fp], -off, value *)
Lemma bool_store_runs S s m off e st c st' p : wf_senv S -> rep S s m ->
  bscoped w ng nbg (length (ioffs S)) (length (boffs S)) e -> top S + Z.of_nat (temps_b e) * w <= FP m - lo ->
  assign_bool (env_of S) off e st = (c, st') -> plc c p -> 0 < off <= W / 2 -> inb m (FP m - off) 1 = true ->
  exists m1, agree w R lo (FP m - top S) m m1 /\
             runs (mk p m) [] (mk (p + size c) (Machine.sb m1 (FP m - off) (b2z (bevals w s e)))).
Proof.
  intros Wf Rp Sc Hn Ev P Ho I. unfold assign_bool in Ev.
  destruct (eval_bool_value (env_of S) R1 e st) as [[c0 v] st0] eqn:E0. inversion Ev; subst c st'; clear Ev.
  apply placed_app in P. destruct P as [P0 P1]. cbn [plc res_ins res_sym regaddr] in P1. destruct P1 as [Cq _].
  pose proof (rep_layout w R lo fb gl ng nbg S s m Wf Rp) as Lo.
  pose proof (rep_vars w R lo fb gl ng nbg Hw S s m e (top S) Wf Rp Sc ltac:(lia) Hn) as V.
  pose proof (rep_norm w R lo fb gl ng nbg S s m e Wf Rp Sc) as N.
  destruct (bool_value_runs w R (env_of S) lo Hw (wfs_w w fb S Wf) code cmem lab lab_range e st c0 v st0 p m E0 P0 Lo V N)
    as [m1 [R1' [A1 O1]]].
  rewrite (rep_beval w R lo fb gl ng nbg Hw S s m e Wf Rp Sc) in O1.
  pose proof (rp_regs w R lo gl ng nbg S s m Rp) as L.
  pose proof (regs_ok_agree w R lo Hw _ m m1 L A1) as L1. pose proof (FP_agree w R lo Hw _ m m1 L A1) as F1.
  assert (I1 : inb m1 (FP m1 - off) 1 = true) by (rewrite F1, (agree_inb w R lo _ m m1 _ _ A1); exact I).
  pose proof (store_byte_runs _ m1 (rs v) _ off Cq O1 L1 Ho I1) as Rs. rewrite F1 in Rs.
  exists m1. split; [exact A1|]. rewrite size_app. cbn [size]. change (@nil event) with (@nil event ++ []).
  eapply runs_trans; [exact R1'|]. replace (p + (size c0 + (1 + 0))) with (p + size c0 + 1) by lia. exact Rs.
Qed.
Lemma b2z_01 b : b2z b = 0 \/ b2z b = 1.
Proof. destruct b; cbn; auto. Qed.

(* pj = e; *)
Lemma assign_bool_runs S s m j e st c st' p : wf_senv S -> rep S s m -> (j < length (boffs S))%nat ->
  bscoped w ng nbg (length (ioffs S)) (length (boffs S)) e -> top S + Z.of_nat (temps_b e) * w <= FP m - lo ->
  assign_bool (env_of S) (nth j (boffs S) 0) e st = (c, st') -> plc c p ->
  exists m', runs (mk p m) [] (mk (p + size c) m') /\
             rep S (mkstore (si s) (upd j (b2z (bevals w s e)) (sb s)) (sg s) (sgb s)) m' /\ fagree m m'.
Proof.
  intros Wf Rp Hj Sc Hn Ev P.
  destruct (rep_slot_b w R lo fb gl ng nbg Hw S s m j (FP m - top S) Wf Rp Hj ltac:(lia)) as [O1 [O2 [O3 _]]].
  destruct (bool_store_runs S s m _ e st c st' p Wf Rp Sc Hn Ev P O1 O3) as [m1 [A1 Rn]].
  pose proof (rep_agree w R lo fb gl ng nbg Hw S s m m1 Wf Rp A1) as Rp1.
  pose proof (rp_regs w R lo gl ng nbg S s m Rp) as L. pose proof (FP_agree w R lo Hw _ m m1 L A1) as F1.
  destruct (rep_set_bool S s m1 j _ Wf Rp1 Hj (b2z_01 (bevals w s e))) as [Rp2 Fa]. rewrite F1 in Rp2, Fa.
  eexists. split; [exact Rn|]. split; [exact Rp2|].
  apply (fagree_trans w R lo fb gl Hw Hgl m m1); [exact L | apply (agree_fagree w R lo fb gl ng nbg S s m m1 Wf Rp A1) | exact Fa].
Qed.

(* bool p = e; *)
Lemma declare_bool_runs S s m e st c st' p : wf_senv S -> rep S s m ->
  bscoped w ng nbg (length (ioffs S)) (length (boffs S)) e -> fst (need_bool_decl S e) <= FP m - lo ->
  declare_bool (env_of S) e st = (c, st') -> plc c p ->
  exists m', runs (mk p m) [] (mk (p + size c) m') /\
             rep (push_bool S) (mkstore (si s) (sb s ++ [b2z (bevals w s e)]) (sg s) (sgb s)) m' /\ agree w R lo (FP m - top S) m m'.
Proof.
  intros Wf Rp Sc Hn Ev P. pose proof (rp_regs w R lo gl ng nbg S s m Rp) as L.
  pose proof (wfs_w w fb S Wf) as Ews. pose proof (wfs_fb w fb S Wf) as Ofb.
  assert (Hlo : 0 <= lo) by (destruct L; lia).
  assert (P0 : 0 <= Z.of_nat (temps_b e) * w) by (apply Z.mul_nonneg_nonneg; lia).
  set (off := top S + 1).
  (* both shapes end by storing the value in the new byte, inside the area below the old stack top *)
  assert (Fin : forall m1, agree w R lo (FP m - top S) m m1 -> top S + 1 <= FP m - lo ->
            let m' := Machine.sb m1 (FP m - off) (b2z (bevals w s e)) in
            rep (push_bool S) (mkstore (si s) (sb s ++ [b2z (bevals w s e)]) (sg s) (sgb s)) m' /\ agree w R lo (FP m - top S) m m').
  { intros m1 A1 Ht m'.
    assert (A2 : agree w R lo (FP m - top S) m m').
    { eapply (agree_trans w R lo); [exact A1|]. apply agree_sb; unfold off; destruct Rp; lia. }
    split; [|exact A2].
    apply (rep_push_bool S s m m'); try assumption; [|apply b2z_01].
    fold off. unfold m'. rewrite lb_sb_same. destruct (bevals w s e); reflexivity. }
  assert (Ho : top S + 1 <= FP m - lo -> 0 < off <= W / 2 /\ inb m (FP m - off) 1 = true).
  { intros Ht. unfold off. split; [destruct Rp; lia|]. apply inb_true; destruct Rp; lia. }
  unfold need_bool_decl in Hn. cbn [fst] in Hn. rewrite Ews in Hn.
  assert (Keep : (exists C0, value_lowering_keep (env_of S) e st = (C0, st') /\ c = C0) ->
            top S + 1 + Z.of_nat (temps_b e) * w <= FP m - lo ->
            exists m', runs (mk p m) [] (mk (p + size c) m') /\
                       rep (push_bool S) (mkstore (si s) (sb s ++ [b2z (bevals w s e)]) (sg s) (sgb s)) m' /\ agree w R lo (FP m - top S) m m').
  { intros [C0 [Ek ->]] Hk. unfold value_lowering_keep in Ek. cbn [env_of stack_top] in Ek. fold off in Ek.
    set (E' := with_top (env_of S) off) in *.
    assert (HwE' : wsize E' = w) by exact Ews.
    assert (Lo' : layout_ok w R E' lo m).
    { split; [exact L|]. apply (rep_room w R lo fb gl ng nbg S s m off Wf Rp); unfold off; lia. }
    pose proof (rep_vars w R lo fb gl ng nbg Hw S s m e off Wf Rp Sc ltac:(unfold off; lia) ltac:(unfold off; lia)) as V'.
    pose proof (run_mem_agree w R E' lo Hw HwE' code cmem lab e m Lo' V') as A1.
    set (m1 := run_mem w R E' e m) in *.
    assert (A1' : agree w R lo (FP m - top S) m m1).
    { apply (agree_mono w R lo (HI w R E' m)); [unfold HI, E', off; cbn [with_top stack_top]; lia | exact A1]. }
    destruct (Fin m1 A1' ltac:(lia)) as [Rp' Fa]. destruct (Ho ltac:(lia)) as [Ho1 Ho2].
    pose proof (regs_ok_agree w R lo Hw _ m m1 L A1') as L1. pose proof (FP_agree w R lo Hw _ m m1 L A1') as F1.
    assert (I1 : inb m1 (FP m - off) 1 = true) by (rewrite (agree_inb w R lo _ m m1 _ _ A1'); exact Ho2).
    assert (Ad : sgn (FP m1) + sgn (wrap (- off)) = FP m - off) by (rewrite (frame_addr w R lo Hw m1 off L1 Ho1); now rewrite F1).
    assert (W1 : wrap 1 = 1) by (apply (wrap_small w); pose proof (W_ge w Hw1); unfold inrange; lia).
    assert (W0 : wrap 0 = 0) by (apply (wrap_small w); pose proof (W_ge w Hw1); unfold inrange; lia).
    eexists. split; [|split; [exact Rp' | exact Fa]].
    pose proof (lower_runs w R E' lo Hw HwE' code cmem lab lab_range e
                  [ASbso (SReg RFp) (SLit (- off)) (SLit 1)] None [ASbso (SReg RFp) (SLit (- off)) (SLit 0)] None
                  st C0 st' p m Ek eq_refl eq_refl P Lo' V') as Rn.
    replace (kexit lab (if beval w R E' m e then None else None) (p + size C0)) with (p + size C0) in Rn
      by (destruct (beval w R E' m e); reflexivity).
    apply Rn. fold m1.
    assert (Ebv : beval w R E' m e = bevals w s e) by (unfold E'; rewrite (beval_top w R (env_of S) off m e); apply (rep_beval w R lo fb gl ng nbg Hw S s m e Wf Rp Sc)).
    rewrite Ebv.
    destruct (bevals w s e); cbn [run_simple b2z]; unfold step_simple; cbn [res_ins res_sym regaddr Machine.exec val mm];
      rewrite (lo_if w R lo m1 L1); change (lw m1 (a_fp R)) with (FP m1);
      rewrite Ad; unfold Machine.store; cbn [mm]; rewrite I1; unfold nxtm; cbn [mm pc]; rewrite ?W1, ?W0; reflexivity. }
  assert (Other : (assign_bool (env_of S) off e st = (c, st')) ->
            Z.max (top S + Z.of_nat (temps_b e) * w) (top S + 1) <= FP m - lo ->
            exists m', runs (mk p m) [] (mk (p + size c) m') /\
                       rep (push_bool S) (mkstore (si s) (sb s ++ [b2z (bevals w s e)]) (sg s) (sgb s)) m' /\ agree w R lo (FP m - top S) m m').
  { intros Ea Hk. destruct (Ho ltac:(lia)) as [Ho1 Ho2].
    destruct (bool_store_runs S s m off e st c st' p Wf Rp Sc ltac:(lia) Ea P Ho1 Ho2) as [m1 [A1 Rn]].
    destruct (Fin m1 A1 ltac:(lia)) as [Rp' Fa]. eexists. split; [exact Rn|]. split; assumption. }
  unfold zmax in Hn.
  destruct e as [b|j|op a b|e1|e1 e2|e1 e2]; cbn [declare_bool env_of stack_top] in Ev; fold off in Ev;
    first [apply Other; [exact Ev | exact Hn] | apply Keep; [eexists; split; [exact Ev | reflexivity] | exact Hn]].
Qed.

Ltac szn := repeat progress (rewrite ?size_app; cbn [size goto]).
Ltac szn_in H := repeat progress (rewrite ?size_app in H; cbn [size goto] in H).
(* close a goal `runs (mk a m) l (mk b m')` with G : runs (mk a' m) l (mk b' m'), a = a', b = b' by lia *)
Ltac close_with G :=
  szn; szn_in G;
  match goal with |- HidV.Sphinx.Halts.runs _ (mk ?a _) _ _ =>
    match type of G with HidV.Sphinx.Halts.runs _ (mk ?b _) _ _ => replace a with b by lia end end;
  match goal with |- HidV.Sphinx.Halts.runs _ _ _ (mk ?a _) =>
    match type of G with HidV.Sphinx.Halts.runs _ _ _ (mk ?b _) => replace a with b by lia end end;
  exact G.
(* ---------- calls of the runtime library: write(int), write(bool) ---------- *)
Lemma storen_loadn_getb n : forall m m' a x, wf_mem m -> 0 <= a -> a <= x < a + Z.of_nat n ->
  getb (storen n m' a (loadn n m a)) x = getb m x.
Proof.
  induction n as [|k IH]; intros m m' a x Wf Ha Hx; [cbn in Hx; lia|].
  cbn [storen loadn]. pose proof (Wf a) as Hb.
  assert (E1 : (getb m a + 256 * loadn k m (a + 1)) mod 256 = getb m a)
    by (rewrite (Z.mul_comm 256), Z.mod_add by lia; apply Z.mod_small; lia).
  assert (E2 : (getb m a + 256 * loadn k m (a + 1)) / 256 = loadn k m (a + 1))
    by (rewrite (Z.mul_comm 256), Z.div_add by lia; rewrite Z.div_small by lia; lia).
  rewrite E1, E2. destruct (Z.eq_dec x a) as [->|Ne].
  - rewrite storen_outside by lia. apply getb_setb_same.
  - apply IH; [exact Wf | lia | lia].
Qed.
Lemma sw_same_word_bytes m m' a x : wf_mem m -> 0 <= a -> a <= x < a + w ->
  getb (sw m' a (lw m a)) x = getb m x.
Proof.
  intros Wf Ha Hx. unfold Machine.sw, Machine.lw. rewrite (wrap_small w) by (apply (lw_range w Hw1); exact Wf).
  apply storen_loadn_getb; [exact Wf | exact Ha | rewrite (wn_w w Hw1); exact Hx].
Qed.
Lemma wf_after_ra S : wf_senv S -> wf_senv (after_ra S).
Proof.
  intros Wf. destruct Wf as [Ww Wfb Wi Wb Wii Wbb Wib]. constructor; cbn [after_ra ws top ioffs boffs]; try assumption; try lia.
  - intros i Hi. specialize (Wi i Hi). lia.
  - intros j Hj. specialize (Wb j Hj). lia.
Qed.
Lemma rep_after_ra S s m m' : wf_senv S -> rep S s m -> agree w R lo (FP m - top S) m m' ->
  top S + w <= FP m - lo -> rep (after_ra S) s m'.
Proof.
  intros Wf Rp A Hr. pose proof (rep_agree w R lo fb gl ng nbg Hw S s m m' Wf Rp A) as Rp'.
  pose proof (FP_agree w R lo Hw _ m m' (rp_regs w R lo gl ng nbg S s m Rp) A) as EF. pose proof (wfs_w w fb S Wf) as Ews.
  destruct Rp' as [Rg Rlo Rh Rsz Rli Rlb Ri Rb Rap Rgl Rgn Rgg Rgd Rbn Rbg Rbd]. constructor; cbn [after_ra top ioffs boffs]; rewrite ?Ews; try assumption; lia.
Qed.

Lemma lib_call_runs S s m0 mb f ec ln p evs : lib_hyps -> wf_senv S -> rep S s m0 ->
  agree w R lo (FP m0 - top S) m0 mb -> top S + w <= FP m0 - lo ->
  lw mb (FP m0 - top S - w) = lab ec -> plc (call_tail S ec f ln) p ->
  (* the routine's specification at its entry memory *)
  (forall m1, m1 = sw mb fp (FP m0 + wrap (- top S)) ->
     exists m2 blo, runs (mk (a_lib R + std_off f) m1) (map EOut evs) (mk (lw m1 (FP m0 - top S - w)) m2) /\
       msize m2 = msize m1 /\ wf_mem m2 /\ lo <= blo /\
       (forall x, 0 <= x -> (x < 2 * w \/ 5 * w <= x) -> (x < blo \/ FP m0 - top S - w <= x) -> getb m2 x = getb m1 x)) ->
  exists m3, runs (mk p mb) (map EOut (evs ++ (if ln then [10] else []))) (mk (p + size (call_tail S ec f ln)) m3) /\
             agree w R lo (FP m0 - top S) m0 m3.
Proof.
  intros [Hfp [H0 [H1 [H2 [CA [BR Hap]]]]]] Wf Rp A Hr Hra P Callee.
  pose proof (rp_regs w R lo gl ng nbg S s m0 Rp) as L0. pose proof (regs_ok_agree w R lo Hw _ m0 mb L0 A) as Lb.
  pose proof (FP_agree w R lo Hw _ m0 mb L0 A) as Fb. pose proof (wfs_fb w fb S Wf) as Ofb.
  set (F := FP m0) in *. set (tp := top S) in *.
  assert (Hlo : 5 * w <= lo) by (destruct L0; lia).
  assert (HF : 0 <= F < W / 2) by apply (lo_F w R lo m0 L0).
  assert (HW : W / 2 < W) by (pose proof (W_even w Hw1); pose proof (half_pos w Hw1); lia).
  assert (Hsz : F <= msize m0) by apply (rp_sz w R lo gl ng nbg S s m0 Rp).
  unfold call_tail in P. fold tp in P. apply placed_app in P. destruct P as [P Pln].
  cbn [placed res_ins res_sym regaddr] in P. destruct P as [C0 [C1 [C2 [Lec [C3 _]]]]].
  assert (Efpc : wrap (F + wrap (- tp)) = F - tp) by (apply (wrap_add_neg w); destruct Rp; unfold F, tp in *; lia).
  assert (Ifp : inb mb fp w = true) by apply (lo_if w R lo mb Lb).
  assert (Rfp : inrange w (lw mb fp)) by (apply (lw_range w Hw1); apply (lo_wf w R lo mb Lb)).
  assert (Elf : lw mb fp = F) by exact Fb.
  set (m1 := sw mb fp (F + wrap (- tp))).
  destruct (Callee m1 eq_refl) as [m2 [blo [Rc [Sz2 [Wf2 [Hblo Pres]]]]]].
  assert (Wfb : wf_mem mb) by apply (lo_wf w R lo mb Lb).
  assert (L1fp : lw m1 fp = F - tp) by (unfold m1; rewrite (lw_sw_same w Hw1) by apply (lo_fp w R lo mb Lb); exact Efpc).
  assert (Era : lw m1 (F - tp - w) = p + 3).
  { unfold m1. rewrite (lw_sw_other w Hw1); [rewrite Hra, Lec; lia | apply (lo_fp w R lo mb Lb) | destruct Rp; unfold F, tp in *; lia | destruct L0; destruct Rp; unfold F, tp in *; lia]. }
  assert (L2fp : lw m2 fp = F - tp).
  { rewrite <- L1fp. unfold Machine.lw. apply loadn_ext. intros x Hx. rewrite (wn_w w Hw1) in Hx. apply Pres; rewrite Hfp in *; lia. }
  set (Pp := fun a => 0 <= a /\ (a < 2 * w \/ 5 * w <= a) /\ (a < blo \/ F - tp - w <= a) /\ (a < fp \/ fp + w <= a)).
  assert (Eov : oval m1 (Imm (a_lib R + std_off f)) = Some (a_lib R + std_off f)).
  { rewrite oval_imm. f_equal. apply (wrap_small w). destruct BR as [B0 B1]. unfold inrange.
    destruct f; cbn [std_off]; unfold off_write_int, off_write_bool, off_division_by_zero, off_stack_overflow, stdlib_len in *; lia. }
  pose proof (call_idiom w Hw code cmem p mb fp (- tp) tp (Imm (a_lib R + std_off f)) (a_lib R + std_off f) (map EOut evs) m2 Pp
                C0 C1 ltac:(replace (p + 2) with (p + 1 + 1) by lia; exact C2)
                ltac:(replace (p + 3) with (p + 1 + 1 + 1) by lia; exact C3) eq_refl (lo_fp w R lo mb Lb) Ifp Rfp) as CI.
  cbv zeta in CI. rewrite Elf, Efpc in CI. fold m1 in CI. rewrite Era in CI.
  assert (Rc' : runs (mk (a_lib R + std_off f) m1) (map EOut evs) (mk (p + 3) m2)) by (rewrite <- Era; exact Rc).
  destruct (CI Eov eq_refl Rc' Sz2 L2fp) as [Rcall [Lf3 [HP3 F3]]].
  { intros a [Pa [Pb [Pc _]]]. apply Pres; assumption. }
  { intros a [Pa [_ [_ Pd]]]. split; assumption. }
  clear CI.
  set (m3 := sw m2 fp (F - tp + wrap tp)) in *.
    assert (E3 : m3 = sw m2 fp (lw mb fp)).
    { unfold m3. apply sw_wrap_eq. rewrite <- (lw_sw_same w Hw1 m2 fp (F - tp + wrap tp)) by apply (lo_fp w R lo mb Lb).
      fold m3. rewrite Lf3, Elf. symmetry. apply (wrap_small w). rewrite <- Elf. exact Rfp. }
    assert (Ab : agree w R lo (F - tp) mb m3).
    { split; [unfold m3; rewrite msize_sw, Sz2; unfold m1; apply msize_sw|].
      split; [intros _; unfold m3; apply (wf_sw w); [exact Wf2 | apply (lo_fp w R lo mb Lb)]|].
      intros x X N0 N1 N2 N3. rewrite H0, H1, H2 in *.
      destruct (Z_lt_le_dec x fp) as [Lt|Ge]; [|destruct (Z_lt_le_dec x (fp + w)) as [Lt2|Ge2]].
      - rewrite HP3; [reflexivity|]. unfold Pp. rewrite Hfp in *. repeat split; try lia.
      - rewrite E3. apply sw_same_word_bytes; [exact Wfb | apply (lo_fp w R lo mb Lb) | lia].
      - rewrite HP3; [reflexivity|]. unfold Pp. rewrite Hfp in *. repeat split; try lia. }
    assert (A3 : agree w R lo (F - tp) m0 m3) by (eapply (agree_trans w R lo); eauto).
    destruct ln.
    + cbn [placed res_ins res_sym] in Pln. destruct Pln as [Cy _].
      exists m3. split; [|exact A3]. rewrite map_app. cbn [map].
      eapply runs_trans; [exact Rcall|].
      pose proof (yield_runs _ m3 (Imm 10) (wrap 10) Cy (oval_imm w cmem m3 10)) as Y. rewrite wrap_mod256 in Y.
      change (10 mod 256) with 10 in Y. unfold call_tail. fold tp. close_with Y.
    + exists m3. split; [|exact A3]. rewrite app_nil_r. unfold call_tail. fold tp. close_with Rcall.
Qed.

Lemma need_max a b X : zmax a b <= X -> a <= X /\ b <= X.
Proof. unfold zmax. lia. Qed.

(* the return address pushed below the stack top *)
Lemma push_ra_runs S s m ec p : wf_senv S -> rep S s m -> top S + w <= FP m - lo ->
  plc [push_ra S ec] p ->
  let ma := sw m (FP m - (top S + w)) (lab ec) in
  runs (mk p m) [] (mk (p + 1) ma) /\ agree w R lo (FP m - top S) m ma /\
  rep (after_ra S) s ma /\ lw ma (FP m - top S - w) = lab ec.
Proof.
  intros Wf Rp Hr P ma. pose proof (rp_regs w R lo gl ng nbg S s m Rp) as L. pose proof (wfs_fb w fb S Wf) as Ofb.
  pose proof (wfs_w w fb S Wf) as Ews. assert (Hlo : 0 <= lo) by (destruct L; lia).
  cbn [placed push_ra res_ins res_sym regaddr] in P. destruct P as [C _]. rewrite Ews in C.
  assert (Ho : 0 < top S + w <= W / 2) by (destruct Rp; lia).
  assert (I : inb m (FP m - (top S + w)) w = true) by (apply inb_true; destruct Rp; lia).
  assert (A : agree w R lo (FP m - top S) m ma) by (apply (agree_sw w R lo Hw); [destruct Rp; lia | right; right; destruct Rp; lia]).
  split; [apply (store_word_runs p m (Imm (lab ec)) (lab ec) (top S + w) C (oval_lab w cmem lab lab_range m ec) L Ho I)|].
  split; [exact A|]. split; [apply (rep_after_ra S s m ma Wf Rp A Hr)|].
  unfold ma. replace (FP m - top S - w) with (FP m - (top S + w)) by lia.
  rewrite (lw_sw_same w Hw1) by (destruct Rp; lia). apply (wrap_small w). apply lab_range.
Qed.

(* write(o) / writeln(o) for an int: the decimal representation, through write_int *)
Lemma writei_runs S s m ln o ec p : lib_hyps -> wf_senv S -> rep S s m -> oscoped w ng (length (ioffs S)) (length (boffs S)) o -> not_trunc o ->
  fst (need_stmt S (SWriteI ln o)) <= FP m - lo ->
  plc ([push_ra S ec] ++ decl_int (after_ra S) o ++ call_tail S ec LibWriteInt ln) p ->
  exists m', runs (mk p m) (map EOut (decimal (ieval w s o) ++ (if ln then [10] else [])))
                  (mk (p + size ([push_ra S ec] ++ decl_int (after_ra S) o ++ call_tail S ec LibWriteInt ln)) m') /\
             rep S s m' /\ fagree m m'.
Proof.
  intros Hl Wf Rp Sc Nt Hn P. pose proof Hl as [Hfp [H0 [H1 [H2 [CA [BR Hap]]]]]].
  pose proof (rp_regs w R lo gl ng nbg S s m Rp) as L. pose proof (wfs_fb w fb S Wf) as Ofb. pose proof (wfs_w w fb S Wf) as Ews.
  assert (Hlo : 5 * w <= lo) by (destruct L; lia).
  cbn [need_stmt fst] in Hn. rewrite Ews in Hn. apply need_max in Hn. destruct Hn as [Hn Hd]. apply need_max in Hn. destruct Hn as [Hna Hnb].
  set (F := FP m) in *. set (tp := top S) in *.
  apply placed_app in P. destruct P as [Pra P]. apply placed_app in P. destruct P as [Parg Pcall].
  destruct (push_ra_runs S s m ec p Wf Rp ltac:(fold F tp; lia) Pra) as [Ra [Aa [Rpa Era]]]. fold F tp in Ra, Aa, Rpa, Era.
  set (ma := sw m (F - (tp + w)) (lab ec)) in *.
  pose proof (wf_after_ra S Wf) as Wfa. pose proof (FP_agree w R lo Hw _ m ma L Aa) as Fa.
  assert (Sca : oscoped w ng (length (ioffs (after_ra S))) (length (boffs (after_ra S))) o) by exact Sc.
  destruct (decl_int_runs (after_ra S) s ma o _ Wfa Rpa Sca Nt ltac:(rewrite Fa; exact Hna) ltac:(rewrite Fa; cbn [after_ra top]; rewrite Ews; fold F tp; lia) Parg)
    as [mb [Rb [Rpb Ab]]].
  rewrite Fa in Ab. cbn [after_ra top] in Ab. rewrite Ews in Ab. fold F tp in Ab.
  assert (Amb : agree w R lo (F - tp) m mb).
  { eapply (agree_trans w R lo); [exact Aa|]. apply (agree_mono w R lo (F - (tp + w))); [lia | exact Ab]. }
  pose proof (regs_ok_agree w R lo Hw _ m mb L Amb) as Lb.
  assert (Erab : lw mb (F - tp - w) = lab ec).
  { rewrite <- Era. apply (agree_lw w R lo Hw (F - (tp + w)) ma mb); [exact Ab | destruct Rp; unfold F, tp in *; lia |].
    unfold dj. destruct L. destruct Rp. unfold F, tp in *. lia. }
  (* the argument *)
  destruct (sval_ieval S s m o Wf Rp Sc) as [Sv Rv].
  assert (Vr : - (W / 2) <= ieval w s o < W / 2) by (rewrite <- Sv; apply (sgn_range w Hw1); exact Rv).
  assert (Earg : sgn (lw mb (F - tp - 2 * w)) = ieval w s o).
  { pose proof (rp_i w R lo gl ng nbg _ _ mb Rpb (length (ioffs S))) as X. cbn [push_int after_ra ioffs top ws] in X.
    rewrite app_length in X. cbn [length] in X. specialize (X ltac:(lia)).
    rewrite nth_app_last in X. rewrite <- (rp_li w R lo gl ng nbg S s m Rp) in X. cbn [si] in X. rewrite nth_app_last in X.
    rewrite (FP_agree w R lo Hw _ m mb L Amb), Ews in X. fold F tp in X.
    replace (F - tp - 2 * w) with (F - (tp + w + w)) by lia. exact X. }
  destruct (lib_call_runs S s m mb LibWriteInt ec ln _ (decimal (ieval w s o)) Hl Wf Rp Amb ltac:(fold F tp; lia) Erab Pcall)
    as [m3 [R3 A3]].
  { intros m1 Em1. fold F tp in Em1.
    assert (Efpc : wrap (F + wrap (- tp)) = F - tp) by (apply (wrap_add_neg w); destruct L; destruct Rp; unfold F, tp in *; lia).
    assert (Fr : frame_ok w m1 (F - tp) w).
    { unfold frame_ok, reg_fp, stack_start. rewrite <- Hfp. subst m1.
      split; [apply (wf_sw w); [apply (lo_wf w R lo mb Lb) | apply (lo_fp w R lo mb Lb)]|].
      split; [rewrite (lw_sw_same w Hw1) by apply (lo_fp w R lo mb Lb); exact Efpc|].
      rewrite msize_sw. destruct Amb as [Sz _]. rewrite Sz. destruct L. destruct Rp. unfold F, tp in *. lia. }
    assert (Ev1 : sgn (lw m1 (F - tp - 2 * w)) = ieval w s o).
    { subst m1. rewrite (lw_sw_other w Hw1); [exact Earg | apply (lo_fp w R lo mb Lb) | destruct Rp; unfold F, tp in *; lia | destruct L; destruct Rp; unfold F, tp in *; lia]. }
    assert (Nd : ndigits (Z.abs (ieval w s o)) <= max_digits w).
    { unfold max_digits. rewrite <- (W_half w Hw1). apply ndigits_mono; lia. }
    pose proof (ndigits_pos (Z.abs (ieval w s o)) ltac:(lia)) as Np.
    assert (Room : write_int_room w (F - tp) (ieval w s o)) by (unfold write_int_room, write_int_lo, stack_start; lia).
    pose proof (write_int_spec w code cmem (a_lib R) Hw CA BR m1 (F - tp) Fr) as Sp. cbv zeta in Sp.
    replace (F - tp - 2 * w) with (F - tp - 2 * w) in Sp by lia. rewrite Ev1 in Sp.
    destruct (Sp Room) as [m2 [Rn [[Sz Ae] [Wf2 _]]]].
    exists m2, (write_int_lo w (F - tp) (ieval w s o)). split; [exact Rn|]. split; [exact Sz|]. split; [exact Wf2|].
    split; [unfold write_int_lo; lia | exact Ae]. }
  fold F tp in R3, A3.
  exists m3. split; [|split; [apply (rep_agree w R lo fb gl ng nbg Hw S s m m3 Wf Rp A3) | apply (agree_fagree w R lo fb gl ng nbg S s m m3 Wf Rp A3)]].
  change (map EOut (decimal (ieval w s o) ++ (if ln then [10] else []))) with ([] ++ ([] ++ map EOut (decimal (ieval w s o) ++ (if ln then [10] else [])))).
  eapply runs_trans; [exact Ra|]. eapply runs_trans; [exact Rb|]. close_with R3.
Qed.

(* write(e) / writeln(e) for a bool: "true" / "false", through write_bool *)
Lemma writeb_runs S s m ln e ec st1 c st2 p : lib_hyps -> wf_senv S -> rep S s m ->
  bscoped w ng nbg (length (ioffs S)) (length (boffs S)) e ->
  fst (need_stmt S (SWriteB ln e)) <= FP m - lo ->
  declare_bool (env_of (after_ra S)) e st1 = (c, st2) ->
  plc ([push_ra S ec] ++ c ++ call_tail S ec LibWriteBool ln) p ->
  exists m', runs (mk p m) (map EOut ((if bevals w s e then str_true else str_false) ++ (if ln then [10] else [])))
                  (mk (p + size ([push_ra S ec] ++ c ++ call_tail S ec LibWriteBool ln)) m') /\
             rep S s m' /\ fagree m m'.
Proof.
  intros Hl Wf Rp Sc Hn Ed P. pose proof Hl as [Hfp [H0 [H1 [H2 [CA [BR Hap]]]]]].
  pose proof (rp_regs w R lo gl ng nbg S s m Rp) as L. pose proof (wfs_fb w fb S Wf) as Ofb. pose proof (wfs_w w fb S Wf) as Ews.
  assert (Hlo : 5 * w <= lo) by (destruct L; lia).
  cbn [need_stmt fst] in Hn.
  assert (Hn1 : top S + w + 1 <= FP m - lo).
  { unfold need_bool_decl in Hn. cbn [fst after_ra top ws] in Hn. rewrite Ews in Hn.
    assert (0 <= Z.of_nat (temps_b e) * w) by (apply Z.mul_nonneg_nonneg; lia). unfold zmax in Hn. destruct e; lia. }
  set (F := FP m) in *. set (tp := top S) in *.
  apply placed_app in P. destruct P as [Pra P]. apply placed_app in P. destruct P as [Parg Pcall].
  destruct (push_ra_runs S s m ec p Wf Rp ltac:(fold F tp; lia) Pra) as [Ra [Aa [Rpa Era]]]. fold F tp in Ra, Aa, Rpa, Era.
  set (ma := sw m (F - (tp + w)) (lab ec)) in *.
  pose proof (wf_after_ra S Wf) as Wfa. pose proof (FP_agree w R lo Hw _ m ma L Aa) as Fa.
  assert (Sca : bscoped w ng nbg (length (ioffs (after_ra S))) (length (boffs (after_ra S))) e) by exact Sc.
  destruct (declare_bool_runs (after_ra S) s ma e st1 c st2 _ Wfa Rpa Sca ltac:(rewrite Fa; exact Hn) Ed Parg)
    as [mb [Rb [Rpb Ab]]].
  rewrite Fa in Ab. cbn [after_ra top] in Ab. rewrite Ews in Ab. fold F tp in Ab.
  assert (Amb : agree w R lo (F - tp) m mb).
  { eapply (agree_trans w R lo); [exact Aa|]. apply (agree_mono w R lo (F - (tp + w))); [lia | exact Ab]. }
  pose proof (regs_ok_agree w R lo Hw _ m mb L Amb) as Lb.
  assert (Erab : lw mb (F - tp - w) = lab ec).
  { rewrite <- Era. apply (agree_lw w R lo Hw (F - (tp + w)) ma mb); [exact Ab | destruct Rp; unfold F, tp in *; lia |].
    unfold dj. destruct L. destruct Rp. unfold F, tp in *. lia. }
  assert (Earg : lb mb (F - tp - w - 1) = b2z (bevals w s e)).
  { pose proof (rp_b w R lo gl ng nbg _ _ mb Rpb (length (boffs S))) as X. cbn [push_bool after_ra boffs top ws] in X.
    rewrite app_length in X. cbn [length] in X. specialize (X ltac:(lia)). destruct X as [X _].
    rewrite nth_app_last in X. rewrite <- (rp_lb w R lo gl ng nbg S s m Rp) in X. cbn [sb] in X. rewrite nth_app_last in X.
    rewrite (FP_agree w R lo Hw _ m mb L Amb), Ews in X. fold F tp in X.
    replace (F - tp - w - 1) with (F - (tp + w + 1)) by lia. exact X. }
  destruct (lib_call_runs S s m mb LibWriteBool ec ln _ (if bevals w s e then str_true else str_false) Hl Wf Rp Amb ltac:(fold F tp; lia) Erab Pcall)
    as [m3 [R3 A3]].
  { intros m1 Em1. fold F tp in Em1.
    assert (Efpc : wrap (F + wrap (- tp)) = F - tp) by (apply (wrap_add_neg w); destruct L; destruct Rp; unfold F, tp in *; lia).
    assert (Fr : frame_ok w m1 (F - tp) 1).
    { unfold frame_ok, reg_fp, stack_start. rewrite <- Hfp. subst m1.
      split; [apply (wf_sw w); [apply (lo_wf w R lo mb Lb) | apply (lo_fp w R lo mb Lb)]|].
      split; [rewrite (lw_sw_same w Hw1) by apply (lo_fp w R lo mb Lb); exact Efpc|].
      rewrite msize_sw. destruct Amb as [Sz _]. rewrite Sz. destruct L. destruct Rp. unfold F, tp in *. lia. }
    assert (Ev1 : lb m1 (F - tp - w - 1) = b2z (bevals w s e)).
    { subst m1. rewrite (lb_sw_other w Hw1); [exact Earg | apply (lo_fp w R lo mb Lb) | destruct Rp; unfold F, tp in *; lia | destruct L; destruct Rp; unfold F, tp in *; lia]. }
    pose proof (write_bool_spec w code cmem (a_lib R) Hw CA BR m1 (F - tp) Fr) as Sp. cbv zeta in Sp. rewrite Ev1 in Sp.
    destruct Sp as [m2 [Rn [[Sz Ae] Wf2]]].
    exists m2, (F - tp - w). split.
    { replace (if b2z (bevals w s e) =? 0 then str_false else str_true) with (if bevals w s e then str_true else str_false) in Rn
        by (destruct (bevals w s e); reflexivity). exact Rn. }
    split; [exact Sz|]. split; [exact Wf2|]. split; [lia|]. intros x X X1 _. apply Ae; assumption. }
  fold F tp in R3, A3.
  exists m3. split; [|split; [apply (rep_agree w R lo fb gl ng nbg Hw S s m m3 Wf Rp A3) | apply (agree_fagree w R lo fb gl ng nbg S s m m3 Wf Rp A3)]].
  change (map EOut ((if bevals w s e then str_true else str_false) ++ (if ln then [10] else [])))
    with ([] ++ ([] ++ map EOut ((if bevals w s e then str_true else str_false) ++ (if ln then [10] else [])))).
  eapply runs_trans; [exact Ra|]. eapply runs_trans; [exact Rb|]. close_with R3.
Qed.

(* ================================================================================= *)
(* 5  control flow: the induction over the big-step derivation                          *)
(* ================================================================================= *)
(* the condition of an if / a loop: if_true = (), if_false = goto L *)
Lemma cond_runs S s m c L st cc st' p : wf_senv S -> rep S s m ->
  bscoped w ng nbg (length (ioffs S)) (length (boffs S)) c -> top S + Z.of_nat (temps_b c) * w <= FP m - lo ->
  lower_branch (env_of S) c [] (goto L) st = (cc, st') -> plc cc p ->
  exists m1, runs (mk p m) [] (mk (if bevals w s c then p + size cc else lab L) m1) /\
             agree w R lo (FP m - top S) m m1.
Proof.
  intros Wf Rp Sc Hn Ev P.
  pose proof (rep_layout w R lo fb gl ng nbg S s m Wf Rp) as Lo.
  pose proof (rep_vars w R lo fb gl ng nbg Hw S s m c (top S) Wf Rp Sc ltac:(lia) Hn) as V.
  pose proof (lower_runs w R (env_of S) lo Hw (wfs_w w fb S Wf) code cmem lab lab_range c [] None [] (Some L)
                st cc st' p m Ev eq_refl eq_refl P Lo V (run_mem w R (env_of S) c m)) as Rn.
  rewrite (rep_beval w R lo fb gl ng nbg Hw S s m c Wf Rp Sc) in Rn.
  exists (run_mem w R (env_of S) c m). split.
  - destruct (bevals w s c); cbn [kexit] in Rn; apply Rn; reflexivity.
  - apply (run_mem_agree w R (env_of S) lo Hw (wfs_w w fb S Wf) code cmem lab c m Lo V).
Qed.

(* S1 extends S: the same locals, then more *)
(* ---------- division in a checked build ---------- *)
Lemma arith_div_sem op xv yv r : op = SDiv \/ op = SMod -> inrange w xv -> inrange w yv ->
  arith w (arith_instr op) xv yv = Some r -> wrap r = wrap (arith_sem op (sgn xv) (sgn yv)).
Proof.
  intros Hop Hx Hy Ar. pose proof (arith_map_correct w Hw1) as F. rewrite Forall_forall in F.
  destruct Hop as [-> | ->].
  - specialize (F (SDiv, Adiv) ltac:(cbn; tauto) xv yv Hx Hy). cbn [fst snd] in F.
    change (arith_instr SDiv) with Adiv in Ar. rewrite Ar in F. exact F.
  - specialize (F (SMod, Amod) ltac:(cbn; tauto) xv yv Hx Hy). cbn [fst snd] in F.
    change (arith_instr SMod) with Amod in Ar. rewrite Ar in F. exact F.
Qed.
Lemma sgn_zero_iff x : inrange w x -> (sgn x = 0 <-> x = 0).
Proof.
  intros Hx. assert (Z0 : inrange w 0) by (unfold inrange; pose proof (W_pos w Hw1); lia).
  assert (S0 : sgn 0 = 0) by (apply (sgn_small w); pose proof (half_pos w Hw1); lia).
  split; [intros H; apply (sgn_inj w Hw1 x 0 Hx Z0); now rewrite S0 | intros ->; exact S0].
Qed.
Definition div_stub : Z := a_lib R + off_division_by_zero.
Lemma stub_not_halts off m : lib_hyps -> off = off_division_by_zero \/ off = off_stack_overflow ->
  ~ Halts (mk (a_lib R + off) m) /\ wrap (a_lib R + off) = a_lib R + off.
Proof.
  intros [_ [_ [_ [_ [CA [BR _]]]]]] Ho. split.
  - destruct Ho as [-> | ->];
      [apply (division_by_zero_absorbing w code cmem (a_lib R) Hw CA BR m) | apply (stack_overflow_absorbing w code cmem (a_lib R) Hw CA BR m)].
  - apply (wrap_small w). destruct BR as [B0 B1]. unfold inrange.
    destruct Ho as [-> | ->]; unfold off_division_by_zero, off_stack_overflow, stdlib_len in *; lia.
Qed.

(* eval_expr(r1, a / b, keep): the operands as in a comparison, the guard, the division, the push *)
Lemma eval_div_runs S s m op a b keep da c bub p : lib_hyps -> wf_senv S -> rep S s m -> op = SDiv \/ op = SMod ->
  oscoped w ng (length (ioffs S)) (length (boffs S)) a -> oscoped w ng (length (ioffs S)) (length (boffs S)) b ->
  need_int S (OArith op a b) keep <= FP m - lo ->
  eval_div (env_of S) (top S) R1 op a b keep da = (c, bub) -> plc c p ->
  bub = fin_bub w (top S) R1 keep /\
  (ieval w s b <> 0 -> exists m' xw, runs (mk p m) [] (mk (p + size c) m') /\ agree w R lo (FP m - top S) m m' /\
       bub_val w R m' bub = xw /\ inrange w xw /\ sgn xw = swrap w (arith_sem op (ieval w s a) (ieval w s b))) /\
  (ieval w s b = 0 -> exists m', runs (mk p m) [] (mk div_stub m')).
Proof.
  intros Hl Wf Rp Hop Sa Sb Hn Ev P.
  pose proof (wfs_w w fb S Wf) as Ews. pose proof (rp_regs w R lo gl ng nbg S s m Rp) as L.
  assert (HwE : wsize (env_of S) = w) by exact Ews.
  set (E := env_of S) in *. set (tp := top S) in *.
  unfold need_int in Hn. rewrite Ews in Hn. cbn [temps] in Hn. fold tp in Hn.
  assert (W0 : 0 <= w) by lia.
  assert (Tall : Z.of_nat (Nat.max (temps_cmp a b) (if keep then 1%nat else 0%nat)) * w <= FP m - tp - lo) by (unfold temps_cmp; lia).
  assert (Tp : Z.of_nat (temps_cmp a b) * w <= FP m - tp - lo) by (eapply room_le; [exact W0 | apply Nat.le_max_l | exact Tall]).
  assert (Hk : keep = true -> w <= FP m - tp - lo).
  { intros ->. assert (Z.of_nat 1 * w <= FP m - tp - lo) by (eapply room_le; [exact W0 | apply Nat.le_max_r | exact Tall]). lia. }
  assert (Ro : room_ok w R lo tp m).
  { apply (rep_room w R lo fb gl ng nbg S s m tp Wf Rp); [unfold tp; lia|]. assert (0 <= Z.of_nat (temps_cmp a b) * w) by (apply Z.mul_nonneg_nonneg; lia). lia. }
  pose proof (rep_oexp w R lo fb gl ng nbg Hw S s m a (FP m - tp) Wf Rp Sa ltac:(unfold tp; lia)) as Oa.
  pose proof (rep_oexp w R lo fb gl ng nbg Hw S s m b (FP m - tp) Wf Rp Sb ltac:(unfold tp; lia)) as Ob.
  destruct (sval_ieval S s m a Wf Rp Sa) as [Sva Rva]. destruct (sval_ieval S s m b Wf Rp Sb) as [Svb Rvb].
  destruct (pair_props w R E lo Hw HwE code cmem lab a b (eval_opd_props w R E lo Hw HwE code cmem lab a)
              (eval_opd_props w R E lo Hw HwE code cmem lab b) tp m L Ro Oa Ob Tp) as [A4 [Sl [Sr C]]].
  set (kx := negb (is_safe b)) in *. set (bx := bub_of E tp R0 a kx) in *.
  set (by_ := bub_of E (top_after tp bx) R1 b false) in *. set (m4 := pair_mem w R E tp a b m) in *.
  pose proof (regs_ok_agree w R lo Hw _ m m4 L A4) as L4.
  unfold eval_div in Ev. change (with_top E tp) with E in Ev. unfold compare_operands in Ev. change (stack_top E) with tp in Ev. fold kx in Ev.
  destruct (eval_opd E tp R0 a kx) as [c1 bx'] eqn:E1.
  destruct (eval_opd E (top_after tp bx') R1 b false) as [c2 by'] eqn:E2.
  destruct (pop_value R1 by') as [c2' rhs] eqn:E3. destruct (pop_value R0 bx') as [c3 lhs] eqn:E4.
  rewrite (finish_opd_eq w E HwE) in Ev. inversion Ev; subst c bub; clear Ev.
  split; [reflexivity|].
  apply placed_app in P. destruct P as [P P6]. apply placed_app in P. destruct P as [P4 Pg].
  cbn [placed res_ins res_sym] in Pg. destruct Pg as [Cj [Cc [Ce [Ch [Lda [Ci _]]]]]].
  destruct (C c1 bx' c2 by' c2' rhs c3 lhs p eq_refl E2 E3 E4 P4) as [El [Er R4]]. subst lhs rhs.
  set (p4 := p + size (c1 ++ c2 ++ c2' ++ c3)) in *.
  assert (Ir : 0 <= r1 /\ inb m4 r1 w = true) by (destruct L4; split; assumption). destruct Ir as [Ir0 Ir1].
  destruct (stub_not_halts off_division_by_zero m4 Hl (or_introl eq_refl)) as [Nh Ws].
  assert (Hai : arith_instr op = Adiv \/ arith_instr op = Amod) by (destruct Hop as [-> | ->]; [left | right]; reflexivity).
  replace (p4 + 1 + 1) with (p4 + 2) in Ce by lia. replace (p4 + 1 + 1 + 1) with (p4 + 3) in Ch by lia.
  replace (p4 + 1 + 1 + 1 + 1) with (p4 + 4) in Ci by lia.
  replace (p4 + 1 + 1 + 1 + 1) with (p4 + 4) in Lda by lia.
  destruct (div_guard_idiom w Hw code cmem p4 m4 (Imm (lab da)) (Imm (a_lib R + off_division_by_zero)) div_stub
              (rs (sym_of R1 by_)) (wval w R E m b) (arith_instr op) r1 (rs (sym_of R0 bx)) (wval w R E m a)
              Cj ltac:(rewrite oval_imm, (wrap_small w _ (lab_range da)), Lda; reflexivity) Cc
              (symval_oval w R cmem lab _ _ _ Sr) Rvb Ce Ch ltac:(rewrite oval_imm; unfold div_stub; now rewrite Ws)
              Ci Hai (symval_oval w R cmem lab _ _ _ Sl) Ir1) as [Gok Gf].
  split.
  - intros Nz. assert (Nz' : wval w R E m b <> 0) by (intro Z0; apply Nz; rewrite <- Svb; apply (sgn_zero_iff _ Rvb); exact Z0).
    destruct (Gok Nz') as [Rg [r [Ar Aa]]].
    pose proof (arith_div_sem op _ _ r Hop Rva Rvb Ar) as Wr. rewrite Sva, Svb in Wr.
    set (m5 := sw m4 r1 r) in *.
    assert (A5 : agree w R lo (FP m - tp) m m5).
    { eapply (agree_trans w R lo); [exact A4|]. apply (agree_sw w R lo Hw); [exact Ir0 | auto]. }
    destruct (push_props w R lo Hw code cmem lab tp R1 keep m m5 (or_intror eq_refl) L Ro A5 Hk) as [A6 [V6 C6]].
    exists (push_mem w R keep tp R1 m5), (wrap r). split; [|split; [exact A6 | split; [|split]]].
    + change (@nil event) with (@nil event ++ ([] ++ ([] ++ []))).
      eapply runs_trans; [exact R4|]. eapply runs_trans; [exact Rg|]. eapply runs_trans; [apply (runs_next act _ _ None Aa)|].
      pose proof (C6 _ P6) as G. cbn [size div_guard] in G |- *. fold p4.
      repeat (rewrite ?size_app; cbn [size div_guard]). rewrite !size_app in G. cbn [size div_guard] in G.
      match goal with |- HidV.Sphinx.Halts.runs _ (mk ?x _) _ _ =>
        match type of G with HidV.Sphinx.Halts.runs _ (mk ?y _) _ _ => replace x with y by (unfold p4; rewrite ?size_app; lia) end end.
      match goal with |- HidV.Sphinx.Halts.runs _ _ _ (mk ?x _) =>
        match type of G with HidV.Sphinx.Halts.runs _ _ _ (mk ?y _) => replace x with y by (unfold p4; rewrite ?size_app; lia) end end.
      exact G.
    + rewrite V6. cbn [regaddr]. unfold m5. apply (lw_sw_same w Hw1). exact Ir0.
    + apply (wrap_range w Hw1).
    + rewrite Wr. reflexivity.
  - intros Z0. assert (Z0' : wval w R E m b = 0) by (apply (sgn_zero_iff _ Rvb); rewrite Svb; exact Z0).
    destruct (Gf Z0' Nh) as [Rg _]. exists m4. change (@nil event) with (@nil event ++ []). eapply runs_trans; [exact R4 | exact Rg].
Qed.

(* int x = a / b; *)
Lemma decldiv_runs S s m op a b da p : lib_hyps -> wf_senv S -> rep S s m -> op = SDiv \/ op = SMod ->
  oscoped w ng (length (ioffs S)) (length (boffs S)) a -> oscoped w ng (length (ioffs S)) (length (boffs S)) b ->
  need_int S (OArith op a b) true <= FP m - lo -> top S + w <= FP m - lo -> plc (decl_div S op a b da) p ->
  (ieval w s b <> 0 -> exists m', runs (mk p m) [] (mk (p + size (decl_div S op a b da)) m') /\
     rep (push_int S) (mkstore (si s ++ [swrap w (arith_sem op (ieval w s a) (ieval w s b))]) (sb s) (sg s) (sgb s)) m' /\
     agree w R lo (FP m - top S) m m') /\
  (ieval w s b = 0 -> exists m', runs (mk p m) [] (mk div_stub m')).
Proof.
  intros Hl Wf Rp Hop Sa Sb Hn Ht P. unfold decl_div in *.
  destruct (eval_div (env_of S) (top S) R1 op a b true da) as [c bub] eqn:Ev. cbn [fst] in *.
  destruct (eval_div_runs S s m op a b true da c bub p Hl Wf Rp Hop Sa Sb Hn Ev P) as [Eb [Ok Fl]]. split; [|exact Fl].
  intros Nz. destruct (Ok Nz) as [m' [xw [Rn [A [Bv [Rx Sx]]]]]]. exists m'. split; [exact Rn|]. split; [|exact A].
  apply (rep_push_int S s m m' _ Wf Rp A Ht). subst bub. cbn [fin_bub bub_val] in Bv.
  rewrite (FP_agree w R lo Hw _ m m' (rp_regs w R lo gl ng nbg S s m Rp) A) in Bv. rewrite Bv. exact Sx.
Qed.
(* xi = a / b; *)
Lemma assdiv_runs S s m i op a b da p : lib_hyps -> wf_senv S -> rep S s m -> (i < length (ioffs S))%nat ->
  op = SDiv \/ op = SMod -> oscoped w ng (length (ioffs S)) (length (boffs S)) a -> oscoped w ng (length (ioffs S)) (length (boffs S)) b ->
  need_int S (OArith op a b) false <= FP m - lo -> plc (assign_div S i op a b da) p ->
  (ieval w s b <> 0 -> exists m', runs (mk p m) [] (mk (p + size (assign_div S i op a b da)) m') /\
     rep S (mkstore (upd i (swrap w (arith_sem op (ieval w s a) (ieval w s b))) (si s)) (sb s) (sg s) (sgb s)) m' /\ fagree m m') /\
  (ieval w s b = 0 -> exists m', runs (mk p m) [] (mk div_stub m')).
Proof.
  intros Hl Wf Rp Hi Hop Sa Sb Hn P. unfold assign_div in *.
  destruct (eval_div (env_of S) (top S) R1 op a b false da) as [c bub] eqn:Ev. cbn [fst] in *.
  apply placed_app in P. destruct P as [P1 P2]. cbn [placed res_ins res_sym regaddr] in P2. destruct P2 as [Cq _].
  destruct (eval_div_runs S s m op a b false da c bub p Hl Wf Rp Hop Sa Sb Hn Ev P1) as [Eb [Ok Fl]]. split; [|exact Fl].
  intros Nz. destruct (Ok Nz) as [m2 [xw [Rn [A [Bv [Rx Sx]]]]]].
  pose proof (rep_agree w R lo fb gl ng nbg Hw S s m m2 Wf Rp A) as Rp2.
  pose proof (rp_regs w R lo gl ng nbg S s m Rp) as L. pose proof (FP_agree w R lo Hw _ m m2 L A) as F2.
  destruct (rep_slot_i w R lo fb gl ng nbg Hw S s m2 i (FP m2 - top S) Wf Rp2 Hi ltac:(lia)) as [O1 [O2 [O3 _]]].
  subst bub. cbn [fin_bub bub_val regaddr] in Bv.
  assert (Ov : oval m2 (St r1) = Some xw) by (rewrite (oval_st w cmem m2 r1 (lo_i1 w R lo m2 (rp_regs w R lo gl ng nbg S s m2 Rp2))), Bv; reflexivity).
  pose proof (store_word_runs _ m2 (St r1) _ _ Cq Ov (rp_regs w R lo gl ng nbg S s m2 Rp2) O1 O3) as Rs.
  destruct (rep_set_int S s m2 i _ Wf Rp2 Hi Rx) as [Rp3 Fa]. rewrite Sx in Rp3.
  eexists. split; [|split; [exact Rp3|]].
  - rewrite size_app. cbn [size]. change (@nil event) with (@nil event ++ []).
    eapply runs_trans; [exact Rn|]. replace (p + (size c + (1 + 0))) with (p + size c + 1) by lia. exact Rs.
  - apply (fagree_trans w R lo fb gl Hw Hgl m m2); [exact L | apply (agree_fagree w R lo fb gl ng nbg S s m m2 Wf Rp A) | exact Fa].
Qed.

(* ---------- return;  return o; ---------- *)
Lemma return_runs S s m r p : wf_senv S -> rep S s m ->
  match r with Some o => oscoped w ng (length (ioffs S)) (length (boffs S)) o /\ need_int S o false <= FP m - lo | None => True end ->
  plc (lower_return S r) p ->
  exists m', runs (mk p m) [] (mk (lw m (FP m - w)) m') /\ agree w R lo (FP m) m m' /\
             match r with Some o => sgn (lw m' (FP m - w)) = ieval w s o | None => True end.
Proof.
  intros Wf Rp Hr P. pose proof (rp_regs w R lo gl ng nbg S s m Rp) as L. pose proof (wfs_w w fb S Wf) as Ews.
  pose proof (wfs_fb w fb S Wf) as Ofb. rewrite Hfb in Ofb.
  assert (Hlo : 0 <= lo) by (destruct L; lia).
  assert (Ow : 0 < w <= W / 2) by (destruct Rp; lia).
  (* the tail: lwso [r1],[fp],-w ... j [r1]; halt, from a memory m2 that agrees with m below the stack top *)
  assert (Tail : forall m2 q, agree w R lo (FP m - top S) m m2 -> code q = Some (ILoadO WWord SState (St r1) (St fp) (Imm (- w))) ->
            let m3 := sw m2 r1 (lw m (FP m - w)) in
            runs (mk q m2) [] (mk (q + 1) m3) /\ agree w R lo (FP m - top S) m m3 /\ regs_ok w R lo m3 /\ FP m3 = FP m /\
            lw m3 r1 = lw m (FP m - w)).
  { intros m2 q A Cl m3.
    pose proof (regs_ok_agree w R lo Hw _ m m2 L A) as L2. pose proof (FP_agree w R lo Hw _ m m2 L A) as F2.
    assert (I2 : inb m2 (FP m2 - w) w = true) by (rewrite F2, (agree_inb w R lo _ m m2 _ _ A); apply inb_true; destruct Rp; lia).
    pose proof (act_lwso w code cmem _ m2 r1 (St fp) (Imm (- w)) (FP m2) (wrap (- w)) Cl
                  (oval_st w cmem m2 _ (lo_if w R lo m2 L2)) (oval_imm w cmem m2 _)) as Al.
    rewrite (frame_addr w R lo Hw m2 w L2 Ow) in Al. specialize (Al I2 (lo_i1 w R lo m2 L2)).
    assert (Era : lw m2 (FP m2 - w) = lw m (FP m - w)).
    { rewrite F2. apply (agree_lw w R lo Hw (FP m - top S) m m2); [exact A | destruct Rp; lia |]. unfold dj. destruct L, Rp. lia. }
    rewrite Era in Al.
    assert (A3 : agree w R lo (FP m - top S) m m3).
    { eapply (agree_trans w R lo); [exact A|]. apply (agree_sw w R lo Hw); [apply (lo_r1 w R lo m2 L2) | auto]. }
    split; [apply (runs_next act _ _ None Al)|]. split; [exact A3|].
    split; [apply (regs_ok_agree w R lo Hw _ m m3 L A3)|]. split; [apply (FP_agree w R lo Hw _ m m3 L A3)|].
    unfold m3. rewrite (lw_sw_same w Hw1) by apply (lo_r1 w R lo m2 L2). apply (wrap_small w), (lw_range w Hw1), (lo_wf w R lo m L). }
  assert (Jump : forall m4 q, regs_ok w R lo m4 -> lw m4 r1 = lw m (FP m - w) -> code q = Some (IJ (St r1)) -> code (q + 1) = Some IHalt ->
            runs (mk q m4) [] (mk (lw m (FP m - w)) m4)).
  { intros m4 q L4 V Cj Ch. pose proof (goto_reg w code cmem q m4 r1 Cj Ch (lo_i1 w R lo m4 L4)) as G. rewrite V in G. exact G. }
  destruct r as [o|]; cbn [lower_return] in P.
  - destruct Hr as [Sc Hn].
    destruct (eval_opd (env_of S) (top S) R0 o false) as [c0 bub] eqn:Ev. destruct (pop_value R0 bub) as [c1 v] eqn:Pv.
    rewrite app_assoc in P. apply placed_app in P. destruct P as [P1 P2].
    cbn [placed res_ins res_sym regaddr] in P2. destruct P2 as [Cl [Cs [Cj [Ch _]]]]. rewrite Ews in Cl, Cs.
    destruct (get_value_runs S s m R0 o c0 bub c1 v p (or_introl eq_refl) Wf Rp Sc Hn Ev Pv P1) as [m2 [Rn [A [Ov Vs]]]].
    destruct (sval_ieval S s m o Wf Rp Sc) as [Sv Rv].
    destruct (Tail m2 _ A Cl) as [R3 [A3 [L3 [F3 V3]]]]. set (m3 := sw m2 r1 (lw m (FP m - w))) in *.
    assert (Ov3 : oval m3 (rs v) = Some (wval w R (env_of S) m o)).
    { pose proof (regs_ok_agree w R lo Hw _ m m2 L A) as L2.
      destruct Vs as [[ch [z ->]] | [-> | [g [-> Eo]]]]; [destruct ch; exact Ov | |]; cbn [res_sym regaddr] in Ov |- *; rewrite <- Ov; unfold m3.
      - apply (oval_st_sw_other w Hw cmem); [apply (lo_r1 w R lo m2 L2) | apply (lo_r0 w R lo m2 L2) | destruct L2; lia].
      - subst o. cbn [oscoped] in Sc. destruct (rp_g w R lo gl ng nbg S s m Rp g Sc) as [G0 _]. pose proof (rp_gl w R lo gl ng nbg S s m Rp) as Hg'.
        apply (oval_st_sw_other w Hw cmem); [apply (lo_r1 w R lo m2 L2) | destruct L, Rp; lia | destruct L, Rp; lia]. }
    assert (I3 : inb m3 (FP m3 - w) w = true) by (rewrite F3, (agree_inb w R lo _ m m3 _ _ A3); apply inb_true; destruct Rp; lia).
    pose proof (store_word_runs _ m3 (rs v) _ w Cs Ov3 L3 Ow I3) as Rs. rewrite F3 in Rs.
    set (m4 := sw m3 (FP m - w) (wval w R (env_of S) m o)) in *.
    assert (A34 : agree w R lo (FP m) m3 m4) by (apply (agree_sw w R lo Hw); [destruct Rp; lia | right; right; destruct Rp; lia]).
    assert (A4 : agree w R lo (FP m) m m4).
    { eapply (agree_trans w R lo); [|exact A34]. apply (agree_mono w R lo (FP m - top S)); [lia | exact A3]. }
    assert (L4 : regs_ok w R lo m4) by (apply (regs_ok_agree w R lo Hw _ m m4 L A4)).
    assert (V4 : lw m4 r1 = lw m (FP m - w)).
    { rewrite <- V3. unfold m4. apply (lw_sw_other w Hw1); [destruct Rp; lia | apply (lo_r1 w R lo m3 L3) | destruct L3, Rp; lia]. }
    exists m4. split; [|split; [exact A4|]].
    + change (@nil event) with (@nil event ++ ([] ++ ([] ++ []))).
      eapply runs_trans; [exact Rn|]. eapply runs_trans; [exact R3|]. eapply runs_trans; [exact Rs|].
      apply (Jump m4 _ L4 V4); [exact Cj | exact Ch].
    + unfold m4. rewrite (lw_sw_same w Hw1) by (destruct Rp; lia). rewrite (wrap_small w _ Rv). exact Sv.
  - cbn [placed res_ins res_sym regaddr] in P. destruct P as [Cl [Cj [Ch _]]]. rewrite Ews in Cl.
    destruct (Tail m p (agree_refl w R lo _ m) Cl) as [R3 [A3 [L3 [F3 V3]]]].
    eexists. split; [|split; [apply (agree_mono w R lo (FP m - top S)); [lia | exact A3] | exact I]].
    change (@nil event) with (@nil event ++ []). eapply runs_trans; [exact R3|]. apply (Jump _ _ L3 V3); [exact Cj | exact Ch].
Qed.

(* ---------- calls of the program's functions ---------- *)
(* the arguments, pushed one word each below the return address *)
Lemma push_args_runs args : forall S s m p, wf_senv S -> rep S s m -> Forall (oscoped w ng (length (ioffs S)) (length (boffs S))) args -> Forall not_trunc args ->
  need_args S args <= FP m - lo -> plc (push_args S args) p ->
  exists m', runs (mk p m) [] (mk (p + size (push_args S args)) m') /\ agree w R lo (FP m - top S) m m' /\
    forall k, (k < length args)%nat ->
      sgn (lw m' (FP m - (top S + (Z.of_nat k + 1) * w))) = ieval w s (nth k args (OLit false 0)).
Proof.
  induction args as [|o r IH]; intros S s m p Wf Rp Sc Nts Hn P.
  - exists m. cbn [push_args size]. replace (p + 0) with p by lia. split; [apply runs_refl|].
    split; [apply agree_refl|]. intros k Hk. inversion Hk.
  - cbn [push_args need_args] in *. inversion Sc as [|x0 l0 So Sr]; subst x0 l0. inversion Nts as [|x0 l0 Nto Ntr]; subst x0 l0.
    apply need_max in Hn. destruct Hn as [Hn Hnr]. apply need_max in Hn. destruct Hn as [Hn1 Hn2].
    pose proof (wfs_w w fb S Wf) as Ews. rewrite Ews in Hn2.
    apply placed_app in P. destruct P as [P1 P2].
    destruct (decl_int_runs S s m o p Wf Rp So Nto Hn1 Hn2 P1) as [m1 [R1 [Rp1 A1]]].
    pose proof (rep_after_ra S s m m1 Wf Rp A1 Hn2) as Rpa. pose proof (wf_after_ra S Wf) as Wfa.
    pose proof (rp_regs w R lo gl ng nbg S s m Rp) as L. pose proof (FP_agree w R lo Hw _ m m1 L A1) as F1.
    pose proof (regs_ok_agree w R lo Hw _ m m1 L A1) as L1.
    destruct (IH (after_ra S) s m1 (p + size (decl_int S o)) Wfa Rpa Sr Ntr ltac:(rewrite F1; exact Hnr) P2) as [m2 [R2 [A2 V2]]].
    cbn [after_ra top] in A2, V2. rewrite Ews, F1 in A2, V2.
    exists m2. split; [|split].
    + rewrite size_app. change (@nil event) with (@nil event ++ []). eapply runs_trans; [exact R1|].
      replace (p + (size (decl_int S o) + size (push_args (after_ra S) r))) with (p + size (decl_int S o) + size (push_args (after_ra S) r)) by lia.
      exact R2.
    + eapply (agree_trans w R lo); [exact A1|]. apply (agree_mono w R lo (FP m - (top S + w))); [lia | exact A2].
    + intros k Hk. destruct k as [|k].
      * cbn [nth]. change (Z.of_nat 0 + 1) with 1. rewrite Z.mul_1_l.
        assert (E1 : sgn (lw m1 (FP m - (top S + w))) = ieval w s o).
        { pose proof (rp_i w R lo gl ng nbg (push_int S) _ m1 Rp1 (length (ioffs S))) as Ri. cbn [push_int ioffs si] in Ri.
          rewrite app_length in Ri. cbn [length] in Ri. specialize (Ri ltac:(lia)).
          rewrite nth_app_last, <- (rp_li w R lo gl ng nbg S s m Rp), nth_app_last, Ews, F1 in Ri. exact Ri. }
        rewrite <- E1. f_equal. apply (agree_lw w R lo Hw (FP m - (top S + w)) m1 m2 _ A2); [destruct L, Rp; lia|].
        unfold dj. destruct L, Rp. lia.
      * cbn [nth length] in *. specialize (V2 k ltac:(lia)). rewrite <- V2. f_equal. f_equal. lia.
Qed.

(* the callee's entry memory: fp rebased to the stack top of the caller *)
Lemma entry_mem S s m0 mb : wf_senv S -> rep S s m0 -> agree w R lo (FP m0 - top S) m0 mb ->
  let m1 := sw mb fp (FP m0 + wrap (- top S)) in
  regs_ok w R lo m1 /\ FP m1 = FP m0 - top S /\ msize m1 = msize mb /\
  (forall a, 0 <= a -> (a < fp \/ fp + w <= a) -> getb m1 a = getb mb a).
Proof.
  intros Wf Rp A m1. pose proof (rp_regs w R lo gl ng nbg S s m0 Rp) as L0. pose proof (regs_ok_agree w R lo Hw _ m0 mb L0 A) as Lb.
  pose proof (wfs_fb w fb S Wf) as Ofb.
  assert (Efpc : wrap (FP m0 + wrap (- top S)) = FP m0 - top S) by (apply (wrap_add_neg w); destruct Rp, L0; lia).
  assert (F1 : FP m1 = FP m0 - top S) by (unfold FP, m1; rewrite (lw_sw_same w Hw1) by apply (lo_fp w R lo mb Lb); exact Efpc).
  split; [|split; [exact F1 | split; [apply msize_sw|]]].
  - destruct Lb. constructor; try assumption; unfold m1; rewrite ?inb_sw; try assumption.
    + apply (wf_sw w); assumption.
    + fold m1. rewrite F1. destruct Rp, L0. lia.
  - intros a Ha D. unfold m1. apply (getb_sw_other w Hw); [apply (lo_fp w R lo mb Lb) | exact Ha | lia].
Qed.

(* entering the callee *)
Lemma call_enter S s m0 mb ec f p : wf_senv S -> rep S s m0 -> agree w R lo (FP m0 - top S) m0 mb ->
  plc (call_seq S ec f) p ->
  runs (mk p mb) [] (mk (lab (func_label f)) (sw mb fp (FP m0 + wrap (- top S)))).
Proof.
  intros Wf Rp A P. pose proof (rp_regs w R lo gl ng nbg S s m0 Rp) as L0. pose proof (regs_ok_agree w R lo Hw _ m0 mb L0 A) as Lb.
  pose proof (FP_agree w R lo Hw _ m0 mb L0 A) as Fb.
  cbn [call_seq placed res_ins res_sym regaddr] in P. destruct P as [C0 [C1 [C2 _]]].
  change (@nil event) with (@nil event ++ []). eapply runs_trans.
  - apply (runs_next act _ _ None).
    eapply (act_arith w code cmem); [exact C0 | apply oval_st, (lo_if w R lo mb Lb) | apply oval_imm | reflexivity | apply (lo_if w R lo mb Lb)].
  - cbn [arith]. unfold FP in Fb. rewrite Fb.
    pose proof (goto_label w code cmem _ (sw mb fp (FP m0 + wrap (- top S))) (lab (func_label f)) C1 C2) as G.
    rewrite (wrap_small w _ (lab_range _)) in G. exact G.
Qed.
(* the whole call, given the callee's run from its entry memory: it returns to the pushed return
   address, changing at most r0, r1, r2 and the stack below its frame pointer *)
Lemma user_call_runs S s m0 mb ec f p evs (Qr : Z -> Prop) (Qm : mem -> Prop) : wf_senv S -> rep S s m0 ->
  agree w R lo (FP m0 - top S) m0 mb -> top S + w <= FP m0 - lo ->
  lw mb (FP m0 - top S - w) = lab ec -> plc (call_seq S ec f) p ->
  (exists m2, runs (mk (lab (func_label f)) (sw mb fp (FP m0 + wrap (- top S)))) (map EOut evs)
                   (mk (lw (sw mb fp (FP m0 + wrap (- top S))) (FP m0 - top S - w)) m2) /\
              gagree w R lo gl (FP m0 - top S) (sw mb fp (FP m0 + wrap (- top S))) m2 /\ Qr (lw m2 (FP m0 - top S - w)) /\ Qm m2) ->
  exists m3, runs (mk p mb) (map EOut evs) (mk (p + size (call_seq S ec f)) m3) /\
             gagree w R lo gl (FP m0 - top S) m0 m3 /\ Qr (lw m3 (FP m0 - top S - w)) /\
             exists m2, Qm m2 /\ m3 = sw m2 fp (FP m0) /\ lw m2 fp = FP m0 - top S.
Proof.
  intros Wf Rp A Hr Hra P [m2 [Rc [A2 [Q2 Qm2]]]]. pose proof (rp_gl w R lo gl ng nbg S s m0 Rp) as Hfg.
  pose proof (rp_regs w R lo gl ng nbg S s m0 Rp) as L0. pose proof (regs_ok_agree w R lo Hw _ m0 mb L0 A) as Lb.
  pose proof (FP_agree w R lo Hw _ m0 mb L0 A) as Fb. pose proof (wfs_fb w fb S Wf) as Ofb.
  destruct (entry_mem S s m0 mb Wf Rp A) as [L1 [F1 [Sz1 G1]]].
  set (F := FP m0) in *. set (tp := top S) in *. set (m1 := sw mb fp (F + wrap (- tp))) in *.
  assert (HF : 0 <= F < W / 2) by apply (lo_F w R lo m0 L0).
  assert (HW : W / 2 < W) by (pose proof (W_even w Hw1); pose proof (half_pos w Hw1); lia).
  cbn [call_seq placed res_ins res_sym regaddr] in P. destruct P as [C0 [C1 [C2 [Lec [C3 _]]]]].
  assert (Efpc : wrap (F + wrap (- tp)) = F - tp) by (apply (wrap_add_neg w); destruct Rp, L0; unfold F, tp in *; lia).
  assert (Ifp : inb mb fp w = true) by apply (lo_if w R lo mb Lb).
  assert (Rfp : inrange w (lw mb fp)) by (apply (lw_range w Hw1); apply (lo_wf w R lo mb Lb)).
  assert (Elf : lw mb fp = F) by exact Fb.
  assert (Wfb : wf_mem mb) by apply (lo_wf w R lo mb Lb).
  assert (Era : lw m1 (F - tp - w) = p + 3).
  { unfold m1. rewrite (lw_sw_other w Hw1); [rewrite Hra, Lec; lia | apply (lo_fp w R lo mb Lb) | destruct Rp, L0; unfold F, tp in *; lia | destruct L0; destruct Rp; unfold F, tp in *; lia]. }
  pose proof (regs_ok_gagree w R lo gl Hw Hgl _ m1 m2 L1 A2) as L2. pose proof (FP_gagree w R lo gl Hw Hgl _ m1 m2 L1 A2) as F2.
  assert (L2fp : lw m2 fp = F - tp) by (unfold FP in F2, F1; rewrite F2; exact F1).
  set (Pp := fun a => 0 <= a /\ ~ (r0 <= a < r0 + w) /\ ~ (r1 <= a < r1 + w) /\ ~ (lo <= a < F - tp) /\ ~ (a_r2 R <= a < a_r2 R + w) /\
                      (a < fp \/ fp + w <= a) /\ ~ (gl <= a)).
  assert (Eov : oval m1 (Imm (lab (func_label f))) = Some (lab (func_label f))) by apply (oval_lab w cmem lab lab_range).
  pose proof (call_idiom w Hw code cmem p mb fp (- tp) tp (Imm (lab (func_label f))) (lab (func_label f)) (map EOut evs) m2 Pp
                C0 C1 ltac:(replace (p + 2) with (p + 1 + 1) by lia; exact C2)
                ltac:(replace (p + 3) with (p + 1 + 1 + 1) by lia; exact C3) eq_refl (lo_fp w R lo mb Lb) Ifp Rfp) as CI.
  cbv zeta in CI. rewrite Elf, Efpc in CI. fold m1 in CI. rewrite Era in CI.
  assert (Rc' : runs (mk (lab (func_label f)) m1) (map EOut evs) (mk (p + 3) m2)) by (rewrite <- Era; exact Rc).
  destruct A2 as [Sz2 [Wf2 G2]].
  destruct (CI Eov eq_refl Rc' Sz2 L2fp) as [Rcall [Lf3 [HP3 F3]]].
  { intros a [Pa [P0 [P1 [P2 [P3 [_ P5]]]]]]. apply G2; assumption. }
  { intros a [Pa [_ [_ [_ [_ [Pd _]]]]]]. split; assumption. }
  clear CI.
  set (m3 := sw m2 fp (F - tp + wrap tp)) in *.
  assert (E3 : m3 = sw m2 fp (lw mb fp)).
  { unfold m3. apply sw_wrap_eq. rewrite <- (lw_sw_same w Hw1 m2 fp (F - tp + wrap tp)) by apply (lo_fp w R lo mb Lb).
    fold m3. rewrite Lf3, Elf. symmetry. apply (wrap_small w). rewrite <- Elf. exact Rfp. }
  assert (Ab : gagree w R lo gl (F - tp) mb m3).
  { split; [unfold m3; rewrite msize_sw, Sz2; exact Sz1|].
    split; [intros _; unfold m3; apply (wf_sw w); [apply Wf2, (lo_wf w R lo m1 L1) | apply (lo_fp w R lo mb Lb)]|].
    intros x X N0 N1 N2 N3 N4.
    destruct (Z_lt_le_dec x fp) as [Lt|Ge]; [|destruct (Z_lt_le_dec x (fp + w)) as [Lt2|Ge2]].
    - rewrite HP3; [reflexivity|]. unfold Pp. repeat split; try assumption; lia.
    - rewrite E3. apply sw_same_word_bytes; [exact Wfb | apply (lo_fp w R lo mb Lb) | lia].
    - rewrite HP3; [reflexivity|]. unfold Pp. repeat split; try assumption; lia. }
  exists m3. split; [|split; [|split]].
  - cbn [call_seq size]. replace (p + (1 + (1 + (1 + (1 + 0))))) with (p + 4) by lia. exact Rcall.
  - eapply (gagree_trans w R lo gl); [apply (agree_gagree w R lo gl); exact A | exact Ab].
  - replace (lw m3 (F - tp - w)) with (lw m2 (F - tp - w)); [exact Q2|]. symmetry. apply (lw_agree w Hw).
    intros x Hx. apply F3; [destruct Rp, L0; unfold F, tp in *; lia | right; destruct Rp, L0; unfold F, tp in *; lia].
  - exists m2. split; [exact Qm2|]. split; [|exact L2fp]. rewrite E3, Elf. reflexivity.
Qed.

(* ---------- assignment to an int global ---------- *)
Lemma gagree_sw_glob hi m a v : 0 <= a -> gl <= a -> gagree w R lo gl hi m (sw m a v).
Proof.
  intros Ha Hg. split; [apply msize_sw|]. split; [intros Wf; apply (wf_sw w); assumption|].
  intros x X N0 N1 N2 N3 N4. unfold Machine.sw. apply storen_outside; [assumption | assumption|]. left. lia.
Qed.
(* the value xw stored into global g after an evaluation that kept the frame *)
Lemma rep_set_glob S s m m1 g xw : wf_senv S -> rep S s m -> agree w R lo (FP m - top S) m m1 -> (g < ng)%nat -> inrange w xw ->
  let m' := sw m1 (a_glob R g) xw in
  rep S (set_g s g (sgn xw)) m' /\ fagree m m'.
Proof.
  intros Wf Rp A Hg Hx m'. pose proof (rep_agree w R lo fb gl ng nbg Hw S s m m1 Wf Rp A) as Rp1.
  pose proof (rp_regs w R lo gl ng nbg S s m1 Rp1) as L1. pose proof (rp_regs w R lo gl ng nbg S s m Rp) as L.
  pose proof (FP_agree w R lo Hw _ m m1 L A) as F1.
  destruct (rp_g w R lo gl ng nbg S s m1 Rp1 g Hg) as [G0 [G1 G2]]. pose proof (rp_gl w R lo gl ng nbg S s m1 Rp1) as Hf.
  pose proof (wfs_fb w fb S Wf) as Ofb.
  assert (Ha : 0 <= a_glob R g) by (destruct L1; lia).
  assert (Fa : fagree m m').
  { unfold fagree. eapply (gagree_trans w R lo gl); [apply (agree_gagree w R lo gl), (agree_mono w R lo (FP m - top S)); [lia | exact A]|].
    apply gagree_sw_glob; [assumption | lia]. }
  split; [|exact Fa].
  assert (EF : FP m' = FP m1).
  { unfold LowerBoolProofs.FP, m'. apply (lw_sw_other w Hw1); destruct L1; lia. }
  destruct Rp1 as [Rg Rlo Rh Rsz Rli Rlb Ri Rb Rap Rgl Rgn Rgg Rgd Rbn Rbg Rbd].
  constructor; cbn [set_g si sb sg sgb]; rewrite ?EF; try assumption.
  - destruct Rg. constructor; try assumption; unfold m'; rewrite ?inb_sw; try assumption.
    + apply (wf_sw w); assumption.
    + fold m'. rewrite EF. assumption.
  - unfold m'. rewrite msize_sw. exact Rsz.
  - intros i Hi. rewrite <- (Ri i Hi). f_equal. unfold m'. pose proof (wfs_i w fb S Wf i Hi) as Oi.
    apply (lw_sw_other w Hw1); destruct Rg; lia.
  - intros j Hj. destruct (Rb j Hj) as [E N]. split; [|exact N]. rewrite <- E. unfold m'. pose proof (wfs_b w fb S Wf j Hj) as Oj.
    apply (lb_sw_other w Hw1); destruct Rg; lia.
  - intros Ap. rewrite <- (Rap Ap). destruct Ap as [A0 [A1 _]]. unfold m'. apply (lw_sw_other w Hw1); destruct Rg; lia.
  - rewrite length_upd. exact Rgn.
  - intros k Hk. destruct (Rgg k Hk) as [K0 [K1 K2]]. split; [exact K0|]. split; [unfold m'; rewrite inb_sw; exact K1|].
    destruct (Nat.eq_dec k g) as [->|Ne].
    + rewrite nth_upd_same by lia. unfold m'. rewrite (lw_sw_same w Hw1) by exact Ha. now rewrite (wrap_small w _ Hx).
    + rewrite nth_upd_other by congruence. rewrite <- K2. f_equal. unfold m'.
      apply (lw_sw_other w Hw1); [exact Ha | destruct Rg; lia | destruct (Rgd k g Hk Hg Ne); lia].
  - intros h Hh. destruct (Rbg h Hh) as [B0 [B1 [B2 B3]]]. split; [exact B0|]. split; [unfold m'; rewrite inb_sw; exact B1|].
    split; [|exact B3]. rewrite <- B2. unfold m'.
    apply (lb_sw_other w Hw1); [exact Ha | destruct Rg; lia | destruct (proj2 Rbd g h Hg Hh); lia].
Qed.
(* g = o;  for o a literal, a variable, or one binary operation *)

(* ---------- any int operand evaluated INTO a global (get_expr_value(var_g, o)) ---------- *)
(* m' differs from ma at most in the word of global g *)
Definition only_g (g : nat) (ma m' : mem) : Prop :=
  msize m' = msize ma /\ (wf_mem ma -> wf_mem m') /\
  forall x, 0 <= x -> ~ (a_glob R g <= x < a_glob R g + w) -> getb m' x = getb ma x.
Lemma only_g_refl g m : only_g g m m.
Proof. split; [reflexivity|]. split; auto. Qed.
Lemma only_g_sw g ma m' x : 0 <= a_glob R g -> only_g g ma m' -> only_g g ma (sw m' (a_glob R g) x).
Proof.
  intros Ha [S1 [F1 G1]]. split; [rewrite msize_sw; exact S1|]. split; [intros Wf; apply (wf_sw w); auto|].
  intros y Y N. rewrite <- (G1 y Y N). unfold Machine.sw. apply storen_outside; [exact Ha | exact Y|]. rewrite (wn_w w Hw1). lia.
Qed.
Lemma only_g_lw g ma m' a : only_g g ma m' -> 0 <= a -> (a + w <= a_glob R g \/ a_glob R g + w <= a) -> lw m' a = lw ma a.
Proof.
  intros [_ [_ G]] Ha D. unfold Machine.lw. apply loadn_ext. intros x Hx. rewrite (wn_w w Hw1) in Hx. apply G; lia.
Qed.
Lemma only_g_gagree g hi ma m' : gl <= a_glob R g -> only_g g ma m' -> gagree w R lo gl hi ma m'.
Proof. intros Hg [S1 [F1 G1]]. split; [exact S1|]. split; [exact F1|]. intros x X N0 N1 N2 N3 N4. apply G1; [exact X | lia]. Qed.
Lemma only_g_oval g ma m' v y : only_g g ma m' -> oval ma (rs v) = Some y ->
  match v with SReg r => 0 <= regaddr R r /\ (regaddr R r + w <= a_glob R g \/ a_glob R g + w <= regaddr R r) | SLit _ | SChar _ => True | _ => False end ->
  oval m' (rs v) = Some y.
Proof.
  intros O Ov Hv. destruct v as [z|r|l|c|r|x]; try contradiction; cbn [res_sym] in *.
  - rewrite <- Ov. apply oval_imm_any.
  - destruct Hv as [H0 HD]. destruct (oval_st_inv w cmem ma _ _ Ov) as [I E].
    rewrite (oval_st w cmem m' _); [rewrite (only_g_lw g ma m' _ O H0 HD), E; reflexivity|].
    unfold inb in *. rewrite (proj1 O). exact I.
  - rewrite <- Ov. apply oval_imm_any.
Qed.

Lemma eval_glob_props S s m g : wf_senv S -> rep S s m -> (g < ng)%nat -> forall o c bub c1 v p,
  oscoped w ng (length (ioffs S)) (length (boffs S)) o -> need_int S o false <= FP m - lo ->
  eval_opd (env_of S) (top S) (RGlob g) o false = (c, bub) -> pop_value (RGlob g) bub = (c1, v) -> plc (c ++ c1) p ->
  exists ma m', agree w R lo (FP m - top S) m ma /\ only_g g ma m' /\
     runs (mk p m) [] (mk (p + size (c ++ c1)) m') /\ oval m' (rs v) = Some (wval w R (env_of S) m o) /\
     match v with SReg r => r = RGlob g \/ exists h, r = RGlob h /\ o = OGlob h | SLit _ | SChar _ => True | _ => False end.
Proof.
  intros Wf Rp Hg. pose proof (rp_regs w R lo gl ng nbg S s m Rp) as L. pose proof (wfs_w w fb S Wf) as Ews.
  destruct (rp_g w R lo gl ng nbg S s m Rp g Hg) as [G0 [G1 G2]].
  pose proof (rp_gl w R lo gl ng nbg S s m Rp) as Hf. pose proof (wfs_fb w fb S Wf) as Ofb.
  assert (Ha : 0 <= a_glob R g) by (destruct L; lia).
  assert (HwE : wsize (env_of S) = w) by exact Ews.
  set (E := env_of S) in *. set (tp := top S) in *.
  (* one instruction that writes y into the global, from a memory that differs from ma only there *)
  assert (Step : forall ma m1 q y, agree w R lo (FP m - tp) m ma -> only_g g ma m1 ->
            act (mk q m1) = ANext (mk (q + 1) (sw m1 (a_glob R g) y)) None ->
            only_g g ma (sw m1 (a_glob R g) y) /\ runs (mk q m1) [] (mk (q + 1) (sw m1 (a_glob R g) y)) /\
            oval (sw m1 (a_glob R g) y) (St (a_glob R g)) = Some (wrap y)).
  { intros ma m1 q y A O Ac. split; [apply only_g_sw; assumption|]. split; [apply (runs_next act _ _ None Ac)|].
    apply (oval_st_sw_same w Hw cmem); [exact Ha|]. unfold inb. rewrite (proj1 O), (proj1 A). exact G1. }
  assert (Inb1 : forall ma m1, agree w R lo (FP m - tp) m ma -> only_g g ma m1 -> inb m1 (a_glob R g) w = true).
  { intros ma m1 A O. unfold inb. rewrite (proj1 O), (proj1 A). exact G1. }
  induction o as [ch z|i|op x IHx y IHy|u x IHx|h|tx IHt|yj]; intros c bub c1 v p Sc Hn Ev Pv P.
  - (* literal *)
    cbn [eval_opd] in Ev. inversion Ev; subst c bub. cbn [pop_value] in Pv. inversion Pv; subst c1 v.
    exists m, m. split; [apply agree_refl|]. split; [apply only_g_refl|]. cbn [app size]. replace (p + 0) with p by lia.
    split; [apply runs_refl|]. destruct ch; (split; [apply oval_imm | exact I]).
  - (* local: loaded into the global *)
    cbn [eval_opd] in Ev. inversion Ev; subst c bub. cbn [pop_value env_of int_off E] in Pv. inversion Pv; subst c1 v.
    cbn [app placed res_ins res_sym regaddr] in P. destruct P as [Cl _]. cbn [oscoped] in Sc.
    destruct (rep_slot_i w R lo fb gl ng nbg Hw S s m i (FP m - top S) Wf Rp Sc ltac:(lia)) as [O1 [O2 [O3 _]]].
    pose proof (act_lwso w code cmem p m (a_glob R g) (St fp) (Imm (- nth i (ioffs S) 0)) (FP m) (wrap (- nth i (ioffs S) 0)) Cl
                  (oval_st w cmem m fp (lo_if w R lo m L)) (oval_imm w cmem m _)) as Al.
    rewrite (frame_addr w R lo Hw m _ L O1) in Al. specialize (Al O3 G1).
    destruct (Step m m p _ (agree_refl w R lo _ m) (only_g_refl g m) Al) as [Og [Rn Ov]].
    eexists m, _. split; [apply agree_refl|]. split; [exact Og|]. cbn [app size]. replace (p + (1 + 0)) with (p + 1) by lia.
    split; [exact Rn|]. split; [|left; reflexivity]. cbn [res_sym regaddr wval env_of int_off]. rewrite Ov. f_equal.
    apply (wrap_small w), (lw_range w Hw1), (lo_wf w R lo m L).
  - (* binary: the operands as usual, the operation into the global *)
    cbn [oscoped] in Sc. destruct Sc as [Oop [Sx Sy]].
    unfold need_int in Hn. rewrite Ews in Hn. cbn [temps] in Hn. fold tp in Hn.
    assert (Tp : Z.of_nat (temps_cmp x y) * w <= FP m - tp - lo) by (unfold temps_cmp; lia).
    assert (Ro : room_ok w R lo tp m).
    { apply (rep_room w R lo fb gl ng nbg S s m tp Wf Rp); [unfold tp; lia|]. assert (0 <= Z.of_nat (temps_cmp x y) * w) by (apply Z.mul_nonneg_nonneg; lia). lia. }
    pose proof (rep_oexp w R lo fb gl ng nbg Hw S s m x (FP m - tp) Wf Rp Sx ltac:(unfold tp; lia)) as Ox.
    pose proof (rep_oexp w R lo fb gl ng nbg Hw S s m y (FP m - tp) Wf Rp Sy ltac:(unfold tp; lia)) as Oy.
    destruct (pair_props w R E lo Hw HwE code cmem lab x y (eval_opd_props w R E lo Hw HwE code cmem lab x)
                (eval_opd_props w R E lo Hw HwE code cmem lab y) tp m L Ro Ox Oy Tp) as [A4 [Sl [Sr C]]].
    set (kx := negb (is_safe y)) in *. set (bx := bub_of E tp R0 x kx) in *.
    set (by_ := bub_of E (top_after tp bx) R1 y false) in *. set (m4 := pair_mem w R E tp x y m) in *.
    cbn [eval_opd] in Ev. fold kx in Ev.
    destruct (eval_opd E tp R0 x kx) as [cx bx'] eqn:E1.
    destruct (eval_opd E (top_after tp bx') R1 y false) as [cy by'] eqn:E2.
    destruct (pop_value R1 by') as [c2' rhs] eqn:E3. destruct (pop_value R0 bx') as [c3 lhs] eqn:E4.
    unfold finish_opd in Ev. inversion Ev; subst c bub; clear Ev. cbn [pop_value] in Pv. inversion Pv; subst c1 v; clear Pv.
    rewrite app_nil_r in *.
    replace (cx ++ cy ++ c2' ++ c3 ++ [AInstr (AArith (arith_instr op) (RGlob g) lhs rhs)])
      with ((cx ++ cy ++ c2' ++ c3) ++ [AInstr (AArith (arith_instr op) (RGlob g) lhs rhs)]) in * by (rewrite <- !app_assoc; reflexivity).
    apply placed_app in P. destruct P as [P4 Pi]. cbn [placed res_ins regaddr] in Pi. destruct Pi as [Ci _].
    destruct (C cx bx' cy by' c2' rhs c3 lhs p eq_refl E2 E3 E4 P4) as [El [Er R4]]. subst lhs rhs.
    destruct (arith_ok w Hw op (wval w R E m x) (wval w R E m y) Oop (wval_range w R E Hw m x (lo_wf w R lo m L)) (wval_range w R E Hw m y (lo_wf w R lo m L))) as [r [Ar Wr]].
    rewrite (sgn_wval w R E lo Hw _ m x (lo_wf w R lo m L) Ox), (sgn_wval w R E lo Hw _ m y (lo_wf w R lo m L) Oy) in Wr.
    pose proof (act_arith w code cmem _ m4 (arith_instr op) (a_glob R g) _ _ _ _ r Ci
                  (symval_oval w R cmem lab _ _ _ Sl) (symval_oval w R cmem lab _ _ _ Sr) Ar (Inb1 m4 m4 A4 (only_g_refl g m4))) as Aa.
    destruct (Step m4 m4 _ r A4 (only_g_refl g m4) Aa) as [Og [Rn Ov]].
    eexists m4, _. split; [exact A4|]. split; [exact Og|]. split; [|split; [|left; reflexivity]].
    + rewrite size_app. cbn [size]. change (@nil event) with (@nil event ++ []). eapply runs_trans; [exact R4|].
      replace (p + (size (cx ++ cy ++ c2' ++ c3) + (1 + 0))) with (p + size (cx ++ cy ++ c2' ++ c3) + 1) by lia. exact Rn.
    + cbn [res_sym regaddr wval]. rewrite Ov, Wr. reflexivity.
  - (* unary: the argument into the global, then the operation on it *)
    cbn [oscoped] in Sc. unfold need_int in Hn. cbn [temps] in Hn.
    assert (Hnx : need_int S x false <= FP m - lo).
    { unfold need_int. assert (Z.of_nat (temps x false) * ws S <= Z.of_nat (Nat.max (temps x false) 0) * ws S) by (apply Z.mul_le_mono_nonneg_r; lia). lia. }
    cbn [eval_opd] in Ev.
    destruct (eval_opd E tp (RGlob g) x false) as [cx bx] eqn:E1. destruct (pop_value (RGlob g) bx) as [cx' vx] eqn:E2.
    unfold finish_opd in Ev. inversion Ev; subst c bub; clear Ev. cbn [pop_value] in Pv. inversion Pv; subst c1 v; clear Pv.
    rewrite app_nil_r in *. rewrite app_assoc in P. apply placed_app in P. destruct P as [Px Pu].
    destruct (IHx cx bx cx' vx p Sc Hnx eq_refl E2 Px) as [ma [m1 [A [O [Rx [Ovx Hvx]]]]]].
    pose proof (rep_oexp w R lo fb gl ng nbg Hw S s m x (FP m - tp) Wf Rp Sc ltac:(unfold tp; lia)) as Ox.
    assert (Rvx : inrange w (wval w R E m x)) by (apply (wval_range w R E Hw), (lo_wf w R lo m L)).
    destruct u.
    + (* neg: sub [var_g], 0, vx *)
      cbn [placed res_ins res_sym regaddr] in Pu. destruct Pu as [Cq _].
      assert (W0' : wrap 0 = 0) by (apply (wrap_small w); pose proof (W_pos w Hw1); unfold inrange; lia).
      pose proof (act_arith w code cmem _ m1 Asub (a_glob R g) (Imm 0) _ (wrap 0) (wval w R E m x) (wrap 0 - wval w R E m x) Cq
                    (oval_imm w cmem m1 0) Ovx eq_refl (Inb1 ma m1 A O)) as Aa.
      destruct (Step ma m1 _ _ A O Aa) as [Og [Rn Ov]].
      eexists ma, _. split; [exact A|]. split; [exact Og|]. split; [|split; [|left; reflexivity]].
      * change (@nil event) with (@nil event ++ []). eapply runs_trans; [exact Rx|]. close_with Rn.
      * cbn [res_sym regaddr wval]. rewrite Ov. f_equal. rewrite W0'.
        rewrite (wrap_sub_sgn w Hw1 0 (wval w R E m x)); [|pose proof (W_pos w Hw1); unfold inrange; lia | exact Rvx].
        rewrite (sgn_small w 0) by (pose proof (half_pos w Hw1); lia).
        rewrite (sgn_wval w R E lo Hw _ m x (lo_wf w R lo m L) Ox). f_equal; lia.
    + (* pos: mov [var_g], vx unless the value is already there *)
      assert (Vp : wval w R E m (OUn UPos x) = wval w R E m x).
      { cbn [wval]. rewrite <- (sgn_wval w R E lo Hw _ m x (lo_wf w R lo m L) Ox). apply (wrap_sgn w Hw1). exact Rvx. }
      destruct (is_state_of (RGlob g) vx) eqn:Is.
      * assert (Evx : vx = SReg (RGlob g)).
        { destruct vx as [z|r|l|c|r|x0]; try discriminate Is. cbn [is_state_of] in Is. destruct r; try discriminate Is. cbn [reg_eqb] in Is. apply Nat.eqb_eq in Is. now subst. }
        subst vx. exists ma, m1. split; [exact A|]. split; [exact O|].
        split; [close_with Rx|]. split; [rewrite Vp; exact Ovx | left; reflexivity].
      * cbn [placed res_ins res_sym regaddr] in Pu. destruct Pu as [Cq _].
        pose proof (act_mov w code cmem _ m1 (a_glob R g) (rs vx) _ Cq Ovx (Inb1 ma m1 A O)) as Am.
        destruct (Step ma m1 _ _ A O Am) as [Og [Rn Ov]].
        eexists ma, _. split; [exact A|]. split; [exact Og|]. split; [|split; [|left; reflexivity]].
        -- change (@nil event) with (@nil event ++ []). eapply runs_trans; [exact Rx|]. close_with Rn.
        -- cbn [res_sym regaddr]. rewrite Ov, Vp. f_equal. apply (wrap_small w). exact Rvx.
  - (* another global *)
    cbn [eval_opd] in Ev. inversion Ev; subst c bub. cbn [pop_value] in Pv. inversion Pv; subst c1 v.
    cbn [oscoped] in Sc. destruct (rp_g w R lo gl ng nbg S s m Rp h Sc) as [H0 [H1 H2]].
    exists m, m. split; [apply agree_refl|]. split; [apply only_g_refl|]. cbn [app size]. replace (p + 0) with p by lia.
    split; [apply runs_refl|]. split; [cbn [res_sym regaddr wval]; apply (oval_st w cmem m _ H1) | right; eauto].
  - (* byte access: the value into the global as usual, then its low byte: lbs [var_g], var_r *)
    cbn [oscoped] in Sc. destruct Sc as [Stx Sh].
    assert (Hn' : need_int S tx false <= FP m - lo) by (unfold need_int in *; cbn [temps] in Hn; exact Hn).
    cbn [eval_opd] in Ev. destruct (eval_opd E tp (RGlob g) tx false) as [cx bx] eqn:E1. inversion Ev; subst c bub; clear Ev.
    assert (Ebx : bx = bub_of E tp (RGlob g) tx false) by (pose proof (eval_opd_bub E tx tp (RGlob g) false) as Q; rewrite E1 in Q; exact Q).
    assert (Sb : exists r, bx = BuReg r /\ (r = RGlob g \/ exists h, r = RGlob h /\ tx = OGlob h)).
    { rewrite Ebx. destruct tx; try (exfalso; exact Sh); cbn [bub_of]; eexists; (split; [reflexivity|]); [left; reflexivity | left; reflexivity | right; eauto]. }
    destruct Sb as [r [-> Hr]]. cbn [to_byte pop_value] in Pv. inversion Pv; subst c1 v; clear Pv.
    apply placed_app in P. destruct P as [Px Pl]. cbn [placed res_ins res_sym regaddr] in Pl. destruct Pl as [Cl _].
    destruct (IHt cx (BuReg r) [] (SReg r) p Stx Hn' eq_refl eq_refl ltac:(rewrite app_nil_r; exact Px)) as [ma [m1 [A [O [Rx [Ovx _]]]]]].
    cbn [res_sym regaddr] in Ovx. destruct (oval_st_inv w cmem m1 _ _ Ovx) as [Ir Er].
    assert (Hra : 0 <= regaddr R r /\ regaddr R r < W).
    { destruct Hr as [-> | [h [-> ->]]]; cbn [regaddr]; [lia|]. cbn [oscoped] in Stx.
      destruct (rp_g w R lo gl ng nbg S s m Rp h Stx) as [H0 _]. destruct L; lia. }
    assert (I1b : inb m1 (regaddr R r) 1 = true).
    { unfold inb in *. apply andb_true_iff in Ir. destruct Ir as [X1 X2]. apply Z.leb_le in X1, X2. apply andb_true_iff. split; apply Z.leb_le; lia. }
    assert (Sa : wrap (regaddr R r) = regaddr R r) by (apply (wrap_small w); unfold inrange; lia).
    pose proof (act_lbs _ m1 (a_glob R g) (Imm (regaddr R r)) (regaddr R r) Cl ltac:(rewrite oval_imm, Sa; reflexivity) I1b (Inb1 ma m1 A O)) as Al.
    destruct (Step ma m1 _ _ A O Al) as [Og [Rn Ov]].
    eexists ma, _. split; [exact A|]. split; [exact Og|]. split; [|split; [|left; reflexivity]].
    + rewrite app_nil_r in Rx. change (@nil event) with (@nil event ++ []). eapply runs_trans; [exact Rx|]. close_with Rn.
    + cbn [res_sym regaddr wval]. rewrite Ov. f_equal.
      assert (Wf1 : wf_mem m1) by (apply (proj1 (proj2 O)), (proj1 (proj2 A)), (lo_wf w R lo m L)).
      rewrite (lb_lw m1 _ Wf1), Er.
      apply (wrap_small w). unfold inrange. pose proof (W_ge w Hw1). pose proof (Z.mod_pos_bound (wval w R E m tx) 256 ltac:(lia)). lia.
  - (* a byte-sized local read as an int: loaded into the global with lbso *)
    cbn [eval_opd] in Ev. inversion Ev; subst c bub. cbn [pop_value env_of bool_off E] in Pv. inversion Pv; subst c1 v.
    cbn [app placed res_ins res_sym regaddr] in P. destruct P as [Cl _]. cbn [oscoped] in Sc.
    destruct (rep_slot_y w R lo fb gl ng nbg Hw S s m yj (FP m - top S) Wf Rp Sc ltac:(lia)) as [O1 [O2 [O3 _]]].
    pose proof (act_lbso w code cmem p m (a_glob R g) (St fp) (Imm (- byte_off (env_of S) yj)) (FP m) (wrap (- byte_off (env_of S) yj)) Cl
                  (oval_st w cmem m fp (lo_if w R lo m L)) (oval_imm w cmem m _)) as Al.
    rewrite (frame_addr w R lo Hw m _ L O1) in Al. specialize (Al O3 G1).
    destruct (Step m m p _ (agree_refl w R lo _ m) (only_g_refl g m) Al) as [Og [Rn Ov]].
    eexists m, _. split; [apply agree_refl|]. split; [exact Og|]. cbn [app size]. replace (p + (1 + 0)) with (p + 1) by lia.
    split; [exact Rn|]. split; [|left; reflexivity]. cbn [res_sym regaddr wval env_of bool_off]. rewrite Ov. f_equal.
    apply (wrap_small w). unfold inrange. match goal with |- context [lb m ?a] => pose proof (lb_range m a (lo_wf w R lo m L)) end. pose proof (W_ge w Hw1). lia.
Qed.
(* g = a / b;  g /= b  (checked build): the division computed into the global *)
Lemma assign_glob_div_runs S s m g op a b da p : lib_hyps -> wf_senv S -> rep S s m -> (g < ng)%nat -> op = SDiv \/ op = SMod ->
  oscoped w ng (length (ioffs S)) (length (boffs S)) a -> oscoped w ng (length (ioffs S)) (length (boffs S)) b ->
  need_int S (OArith op a b) false <= FP m - lo -> plc (assign_glob_div S g op a b da) p ->
  (ieval w s b <> 0 -> exists m', runs (mk p m) [] (mk (p + size (assign_glob_div S g op a b da)) m') /\
     rep S (set_g s g (swrap w (arith_sem op (ieval w s a) (ieval w s b)))) m' /\ fagree m m') /\
  (ieval w s b = 0 -> exists m', runs (mk p m) [] (mk div_stub m')).
Proof.
  intros Hl Wf Rp Hg Hop Sa Sb Hn P.
  unfold assign_glob_div, eval_div, compare_operands in *. change (with_top (env_of S) (top S)) with (env_of S) in *. change (stack_top (env_of S)) with (top S) in *.
  pose proof (wfs_w w fb S Wf) as Ews. pose proof (rp_regs w R lo gl ng nbg S s m Rp) as L.
  destruct (rp_g w R lo gl ng nbg S s m Rp g Hg) as [G0 [G1 G2]].
  assert (HwE : wsize (env_of S) = w) by exact Ews.
  set (E := env_of S) in *. set (tp := top S) in *.
  unfold need_int in Hn. rewrite Ews in Hn. cbn [temps] in Hn. fold tp in Hn.
  assert (W0 : 0 <= w) by lia.
  assert (Tp : Z.of_nat (temps_cmp a b) * w <= FP m - tp - lo) by (unfold temps_cmp; lia).
  assert (Ro : room_ok w R lo tp m).
  { apply (rep_room w R lo fb gl ng nbg S s m tp Wf Rp); [unfold tp; lia|]. assert (0 <= Z.of_nat (temps_cmp a b) * w) by (apply Z.mul_nonneg_nonneg; lia). lia. }
  pose proof (rep_oexp w R lo fb gl ng nbg Hw S s m a (FP m - tp) Wf Rp Sa ltac:(unfold tp; lia)) as Oa.
  pose proof (rep_oexp w R lo fb gl ng nbg Hw S s m b (FP m - tp) Wf Rp Sb ltac:(unfold tp; lia)) as Ob.
  destruct (sval_ieval S s m a Wf Rp Sa) as [Sva Rva]. destruct (sval_ieval S s m b Wf Rp Sb) as [Svb Rvb].
  destruct (pair_props w R E lo Hw HwE code cmem lab a b (eval_opd_props w R E lo Hw HwE code cmem lab a)
              (eval_opd_props w R E lo Hw HwE code cmem lab b) tp m L Ro Oa Ob Tp) as [A4 [Sl [Sr C]]].
  set (kx := negb (is_safe b)) in *. set (bx := bub_of E tp R0 a kx) in *.
  set (by_ := bub_of E (top_after tp bx) R1 b false) in *. set (m4 := pair_mem w R E tp a b m) in *.
  pose proof (regs_ok_agree w R lo Hw _ m m4 L A4) as L4.
  fold kx in P |- *.
  destruct (eval_opd E tp R0 a kx) as [c1 bx'] eqn:E1.
  destruct (eval_opd E (top_after tp bx') R1 b false) as [c2 by'] eqn:E2.
  destruct (pop_value R1 by') as [c2' rhs] eqn:E3. destruct (pop_value R0 bx') as [c3 lhs] eqn:E4.
  unfold finish_opd in *. cbn [fst] in *.
  apply placed_app in P. destruct P as [P4 Pg].
  cbn [div_guard app placed res_ins res_sym regaddr] in Pg. destruct Pg as [Cj [Cc [Ce [Ch [Lda [Ci _]]]]]].
  destruct (C c1 bx' c2 by' c2' rhs c3 lhs p eq_refl E2 E3 E4 P4) as [El [Er R4]]. subst lhs rhs.
  set (p4 := p + size (c1 ++ c2 ++ c2' ++ c3)) in *.
  assert (Ig : inb m4 (a_glob R g) w = true) by (rewrite (agree_inb w R lo _ m m4 _ _ A4); exact G1).
  destruct (stub_not_halts off_division_by_zero m4 Hl (or_introl eq_refl)) as [Nh Ws].
  assert (Hai : arith_instr op = Adiv \/ arith_instr op = Amod) by (destruct Hop as [-> | ->]; [left | right]; reflexivity).
  replace (p4 + 1 + 1) with (p4 + 2) in Ce by lia. replace (p4 + 1 + 1 + 1) with (p4 + 3) in Ch by lia.
  replace (p4 + 1 + 1 + 1 + 1) with (p4 + 4) in Ci by lia.
  replace (p4 + 1 + 1 + 1 + 1) with (p4 + 4) in Lda by lia.
  destruct (div_guard_idiom w Hw code cmem p4 m4 (Imm (lab da)) (Imm (a_lib R + off_division_by_zero)) div_stub
              (rs (sym_of R1 by_)) (wval w R E m b) (arith_instr op) (a_glob R g) (rs (sym_of R0 bx)) (wval w R E m a)
              Cj ltac:(rewrite oval_imm, (wrap_small w _ (lab_range da)), Lda; reflexivity) Cc
              (symval_oval w R cmem lab _ _ _ Sr) Rvb Ce Ch ltac:(rewrite oval_imm; unfold div_stub; now rewrite Ws)
              Ci Hai (symval_oval w R cmem lab _ _ _ Sl) Ig) as [Gok Gf].
  split.
  - intros Nz. assert (Nz' : wval w R E m b <> 0) by (intro Z0; apply Nz; rewrite <- Svb; apply (sgn_zero_iff _ Rvb); exact Z0).
    destruct (Gok Nz') as [Rg [r [Ar Aa]]].
    pose proof (arith_div_sem op _ _ r Hop Rva Rvb Ar) as Wr. rewrite Sva, Svb in Wr.
    assert (Es : sw m4 (a_glob R g) r = sw m4 (a_glob R g) (wrap r)) by (apply sw_wrap_eq; symmetry; apply (wrap_wrap w Hw1)).
    rewrite Es in Aa.
    destruct (rep_set_glob S s m m4 g (wrap r) Wf Rp A4 Hg (wrap_range w Hw1 r)) as [Rp' Fa].
    eexists. split; [|split; [|exact Fa]].
    + change (@nil event) with (@nil event ++ ([] ++ [])).
      eapply runs_trans; [exact R4|]. eapply runs_trans; [exact Rg|].
      match goal with |- HidV.Sphinx.Halts.runs _ _ _ (mk ?x _) =>
        replace x with (p4 + 4 + 1) by (unfold p4; rewrite ?size_app; cbn [size div_guard]; rewrite ?size_app; cbn [size]; lia) end.
      apply (runs_next act _ _ None Aa).
    + assert (Ev' : sgn (wrap r) = swrap w (arith_sem op (ieval w s a) (ieval w s b))) by (rewrite Wr; reflexivity).
      rewrite Ev' in Rp'. exact Rp'.
  - intros Z0. assert (Z0' : wval w R E m b = 0) by (apply (sgn_zero_iff _ Rvb); rewrite Svb; exact Z0).
    destruct (Gf Z0' Nh) as [Rg _]. exists m4. change (@nil event) with (@nil event ++ []). eapply runs_trans; [exact R4 | exact Rg].
Qed.
(* ---------- environments grow along a statement list ---------- *)
Definition extends (S S1 : senv) : Prop :=
  (exists l, ioffs S1 = ioffs S ++ l) /\ (exists l, boffs S1 = boffs S ++ l) /\ top S <= top S1 /\ ws S1 = ws S.
Lemma extends_refl S : extends S S.
Proof. split; [exists []; now rewrite app_nil_r|]. split; [exists []; now rewrite app_nil_r|]. split; [lia | reflexivity]. Qed.
Lemma extends_trans S1 S2 S3 : extends S1 S2 -> extends S2 S3 -> extends S1 S3.
Proof.
  intros [[l1 E1] [[k1 F1] [T1 W1']]] [[l2 E2] [[k2 F2] [T2 W2']]].
  split; [exists (l1 ++ l2); rewrite E2, E1; now rewrite app_assoc|].
  split; [exists (k1 ++ k2); rewrite F2, F1; now rewrite app_assoc|]. split; [lia | congruence].
Qed.
Lemma extends_push_int S : 0 <= ws S -> extends S (push_int S).
Proof. intros H. split; [eexists; reflexivity|]. split; [exists []; cbn; now rewrite app_nil_r|]. cbn. split; [lia | reflexivity]. Qed.
Lemma extends_push_bool S : extends S (push_bool S).
Proof. split; [exists []; cbn; now rewrite app_nil_r|]. split; [eexists; reflexivity|]. cbn. split; [lia | reflexivity]. Qed.
(* leaving a block: the outer locals are still represented *)
Lemma rep_shrink S S1 s s1 m : extends S S1 ->
  length (si s) = length (ioffs S) -> length (sb s) = length (boffs S) -> rep S1 s1 m -> rep S (trunc s s1) m.
Proof.
  intros [[l El] [[k Ek] [Ht _]]] Li Lb Rp. destruct Rp as [Rg Rlo Rh Rsz Rli Rlb Ri Rb Rap Rgl Rgn Rgg Rgd Rbn Rbg Rbd].
  constructor; cbn [trunc si sb]; try assumption; try lia.
  - rewrite firstn_length, Rli, El, app_length. lia.
  - rewrite firstn_length, Rlb, Ek, app_length. lia.
  - intros i Hi. rewrite Li. specialize (Ri i ltac:(rewrite El, app_length; lia)). rewrite El, app_nth1 in Ri by exact Hi.
    rewrite Ri. rewrite <- (firstn_skipn (length (ioffs S)) (si s1)) at 1. rewrite app_nth1; [reflexivity|].
    rewrite firstn_length, Rli, El, app_length. lia.
  - intros j Hj. rewrite Lb. specialize (Rb j ltac:(rewrite Ek, app_length; lia)). rewrite Ek, app_nth1 in Rb by exact Hj.
    assert (En : nth j (firstn (length (boffs S)) (sb s1)) 0 = nth j (sb s1) 0).
    { rewrite <- (firstn_skipn (length (boffs S)) (sb s1)) at 2. rewrite app_nth1; [reflexivity|].
      rewrite firstn_length, Rlb, Ek, app_length. lia. }
    rewrite En. exact Rb.
Qed.
Lemma trunc_same_len s s' s1 : length (si s) = length (si s') -> length (sb s) = length (sb s') -> trunc s s1 = trunc s' s1.
Proof. intros A B. unfold trunc. now rewrite A, B. Qed.

(* static facts about the model *)
Ltac destruct_lets :=
  repeat match goal with
  | |- context [add_label ?a ?b] => destruct (add_label a b)
  | |- context [declare_bool ?a ?b ?c] => destruct (declare_bool a b c)
  | |- context [assign_bool ?a ?b ?c ?d] => destruct (assign_bool a b c d)
  | |- context [assign_bglob ?a ?b ?c ?d] => destruct (assign_bglob a b c d)
  | |- context [lower_branch ?a ?b ?c ?d ?e] => destruct (lower_branch a b c d e)
  | |- context [lower_stmts ?a ?b ?c ?d] => destruct (lower_stmts a b c d) as [[[? ?] ?] ?]
  end.
Lemma lower_stmt_env S li s st : let '(_, S', _, _) := lower_stmt S li s st in S' = snd (need_stmt S s).
Proof.
  destruct s as [o|i o|e|j e|x| |ln o|ln e|c s1 s2|c b k|ss| | |op a b|i op a b|dst f args|r|gg og|gg gop ga gb|hh eh]; cbn [lower_stmt need_stmt need_bool_decl snd];
    try reflexivity; try (destruct x; reflexivity); try (destruct r; reflexivity); destruct_lets; reflexivity.
Qed.
Lemma need_stmt_extends S s : 0 <= ws S -> extends S (snd (need_stmt S s)).
Proof.
  intros H. destruct s as [o|i o|e|j e|x| |ln o|ln e|c s1 s2|c b k|ss| | |op a b|i op a b|dst f args|r|gg og|gg gop ga gb|hh eh]; cbn [need_stmt snd]; try apply extends_refl.
  - apply extends_push_int. exact H.
  - destruct e; apply extends_push_bool.
  - destruct x; apply extends_refl.
  - apply extends_push_int. exact H.
  - destruct dst; try apply extends_refl. apply extends_push_int. exact H.
  - destruct r; apply extends_refl.
Qed.
Lemma lower_stmt_exited S li s st : let '(_, _, _, ex) := lower_stmt S li s st in ex = true -> exits s = true.
Proof.
  destruct s as [o|i o|e|j e|x| |ln o|ln e|c s1 s2|c b k|ss| | |op a b|i op a b|dst f args|r|gg og|gg gop ga gb|hh eh]; cbn [lower_stmt exits]; try (intros; discriminate); auto;
    destruct_lets; intros; discriminate.
Qed.

Definition in_loop (li : option (label * label)) : bool := match li with Some _ => true | None => false end.
(* the stubs of the runtime library the faults go to *)
Definition fault_off (ft : fault) : Z :=
  match ft with FDivZero => off_division_by_zero | FStackOverflow => off_stack_overflow end.
(* where a statement (list) leaves: its end, the loop labels, the return address of the function,
   the fault stub *)
Definition exit_pc (li : option (label * label)) (out : outcome) (endp ra : Z) : option Z :=
  match out, li with
  | ONormal, _ => Some endp
  | OBreak, Some (_, lb) => Some (lab lb)
  | OContinue, Some (lc, _) => Some (lab lc)
  | OReturn _, _ => Some ra
  | OFault ft, _ => Some (a_lib R + fault_off ft)
  | _, None => None
  end.
(* what may have changed: the frame below the return address; on return also the return-address
   slot, which receives the result *)
Definition frame_post (out : outcome) (m m' : mem) : Prop :=
  match out with
  | OReturn _ => gagree w R lo gl (FP m) m m'
  | OFault _ => True
  | _ => fagree m m'
  end.
(* memory m holds the int globals G *)
Definition greps (G : gstore) (m : mem) : Prop :=
  (length (fst G) = ng /\ forall g, (g < ng)%nat -> gl <= a_glob R g < W /\ inb m (a_glob R g) w = true /\ sgn (lw m (a_glob R g)) = nth g (fst G) 0) /\
  (length (snd G) = nbg /\ forall h, (h < nbg)%nat -> gl <= a_bglob R h < W /\ inb m (a_bglob R h) 1 = true /\
                                      lb m (a_bglob R h) = nth h (snd G) 0 /\ (nth h (snd G) 0 = 0 \/ nth h (snd G) 0 = 1)).
(* where the globals are: pairwise apart (a fact about the layout only) *)
Definition glayout : Prop :=
  (forall g g', (g < ng)%nat -> (g' < ng)%nat -> g <> g' -> a_glob R g + w <= a_glob R g' \/ a_glob R g' + w <= a_glob R g) /\
  (forall h h', (h < nbg)%nat -> (h' < nbg)%nat -> h <> h' -> a_bglob R h <> a_bglob R h') /\
  (forall g h, (g < ng)%nat -> (h < nbg)%nat -> a_bglob R h + 1 <= a_glob R g \/ a_glob R g + w <= a_bglob R h).
Definition post (S S' : senv) (s s' : store) (out : outcome) (m m' : mem) : Prop :=
  match out with
  | ONormal => rep S' s' m' /\ wf_senv S'
  | OBreak | OContinue => rep S (trunc s s') m'
  | OReturn v => match v with Some x => sgn (lw m' (FP m - w)) = x | None => True end /\ greps (gs_of s') m'
  | OFault _ => True
  end.
(* the frame holds exactly the return address and the locals in scope *)
Definition tight (S : senv) : Prop := top S = w * (1 + Z.of_nat (length (ioffs S))) + Z.of_nat (length (boffs S)).
Definition stmt_spec (d : Z) (s : stmt) (s0 : store) (evs : list Z) (out : outcome) (s1 : store) : Prop :=
  forall S li st C S' st' ex p m,
    lower_stmt S li s st = (C, S', st', ex) -> plc C p -> wf_senv S -> tight S -> rep S s0 m -> d = FP m - lo ->
    sscoped w ng nbg lib_hyps cf (length (ioffs S)) (length (boffs S)) (in_loop li) s -> fst (need_stmt S s) <= FP m - lo ->
    exists m' pc', exit_pc li out (p + size C) (lw m (FP m - w)) = Some pc' /\
      runs (mk p m) (map EOut evs) (mk pc' m') /\ frame_post out m m' /\ post S S' s0 s1 out m m'.
Definition stmts_spec (d : Z) (ss : stmts) (s0 : store) (evs : list Z) (out : outcome) (s1 : store) : Prop :=
  forall S li st C S' st' ex p m,
    lower_stmts S li ss st = (C, S', st', ex) -> plc C p -> wf_senv S -> tight S -> rep S s0 m -> d = FP m - lo ->
    ssscoped w ng nbg lib_hyps cf (length (ioffs S)) (length (boffs S)) (in_loop li) ss -> need_stmts S ss <= FP m - lo ->
    exists m' pc', exit_pc li out (p + size C) (lw m (FP m - w)) = Some pc' /\
      runs (mk p m) (map EOut evs) (mk pc' m') /\ frame_post out m m' /\ post S S' s0 s1 out m m'.
(* a call of function f from an entry memory: fp at the callee's frame, the return address below
   it, then the arguments; d bytes of stack below fp *)
Definition call_spec (d : Z) (f : nat) (vs : list Z) (G : gstore) (evs : list Z) (res : cres) : Prop :=
  forall m, lib_hyps -> cf f (length vs) -> regs_ok w R lo m -> d = FP m - lo -> 0 <= FP m - lo <= W / 2 -> FP m <= msize m ->
    (ap_sep w R lo -> lw m (a_ap R) = lo) ->
    (forall k, (k < length vs)%nat -> sgn (lw m (FP m - (Z.of_nat k + 2) * w)) = nth k vs 0) ->
    FP m <= gl -> greps G m -> glayout ->
    exists m', match res with
      | CRet v G' => runs (mk (lab (func_label f)) m) (map EOut evs) (mk (lw m (FP m - w)) m') /\ gagree w R lo gl (FP m) m m' /\
                  match v with Some x => sgn (lw m' (FP m - w)) = x | None => True end /\ greps G' m'
      | CFault ft => runs (mk (lab (func_label f)) m) (map EOut evs) (mk (a_lib R + fault_off ft) m')
      end.
(* every callable function is in the code: label, entry guard, body; its guard constant is a word *)
Hypothesis cf_ok : forall f n, cf f n -> exists fd st, nth_error funs f = Some fd /\ fn_params fd = n /\
  0 <= fun_need w fd < W / 2 /\ plc (fst (lower_fun w f fd st)) (lab (func_label f)) /\
  ssscoped w ng nbg lib_hyps cf n 0 false (fn_body fd).

Lemma trunc_self s : trunc s s = s.
Proof. destruct s as [a b c]. unfold trunc; cbn [si sb sg]. now rewrite !firstn_all. Qed.
Lemma trunc_trunc s0 s1 s2 : (length (si s0) <= length (si s1))%nat -> (length (sb s0) <= length (sb s1))%nat ->
  trunc s0 (trunc s1 s2) = trunc s0 s2.
Proof. intros A B. unfold trunc; cbn [si sb]. rewrite !firstn_firstn. f_equal; f_equal; lia. Qed.
Lemma trunc_idem s0 s1 : trunc s0 (trunc s0 s1) = trunc s0 s1.
Proof. apply trunc_trunc; lia. Qed.
Lemma exit_pc_exit li out e1 e2 ra : out <> ONormal -> exit_pc li out e1 ra = exit_pc li out e2 ra.
Proof. intros N. destruct out, li as [[? ?]|]; cbn; congruence. Qed.
Lemma lower_stmts_extends ss : forall S li st, 0 <= ws S -> let '(_, S', _, _) := lower_stmts S li ss st in extends S S'.
Proof.
  induction ss as [|s r IH]; intros S li st Hws; cbn [lower_stmts]; [apply extends_refl|].
  pose proof (lower_stmt_env S li s st) as Ee. destruct (lower_stmt S li s st) as [[[c S1] st1] ex].
  pose proof (need_stmt_extends S s Hws) as X. rewrite <- Ee in X.
  destruct ex; [exact X|].
  assert (Hws1 : 0 <= ws S1) by (destruct X as [_ [_ [_ Ew]]]; lia).
  specialize (IH S1 li st1 Hws1). destruct (lower_stmts S1 li r st1) as [[[cr S2] st2] ex2].
  eapply extends_trans; eauto.
Qed.
Lemma rep_len_le S S1 s s1 m m1 : extends S S1 -> rep S s m -> rep S1 s1 m1 ->
  (length (si s) <= length (si s1))%nat /\ (length (sb s) <= length (sb s1))%nat.
Proof.
  intros [[l El] [[k Ek] _]] Rp Rp1. rewrite (rp_li w R lo gl ng nbg S s m Rp), (rp_lb w R lo gl ng nbg S s m Rp),
    (rp_li w R lo gl ng nbg S1 s1 m1 Rp1), (rp_lb w R lo gl ng nbg S1 s1 m1 Rp1), El, Ek, !app_length. lia.
Qed.

(* ---------- bookkeeping for the induction ---------- *)
Lemma tight_step S s : wf_senv S -> tight S -> tight (snd (need_stmt S s)).
Proof.
  intros Wf T. pose proof (wfs_w w fb S Wf) as Ews. unfold tight in *.
  destruct s as [o|i o|e|j e|x| |ln o|ln e|c s1 s2|c b k|ss| | |op a b|i op a b|dst f args|r|gg og|gg gop ga gb|hh eh];
    cbn [need_stmt need_bool_decl snd]; try exact T; try (destruct x; exact T); try (destruct r; exact T);
    try (destruct dst; try exact T); cbn [push_int push_bool top ioffs boffs]; rewrite ?app_length; cbn [length]; rewrite ?Ews; lia.
Qed.
Lemma need_stmts_ge_top ss : forall S, 0 <= ws S -> top S <= need_stmts S ss.
Proof.
  induction ss as [|s r IH]; intros S Hws; cbn [need_stmts]; [lia|].
  pose proof (need_stmt_extends S s Hws) as X. destruct (need_stmt S s) as [n S1]. cbn [snd] in X.
  destruct X as [_ [_ [Ht Ew]]]. specialize (IH S1 ltac:(lia)). unfold zmax. lia.
Qed.
(* a prefix that keeps the frame (condition evaluation, earlier statements) before a run *)
Lemma frame_post_pre out m m1 m2 : regs_ok w R lo m -> fagree m m1 -> frame_post out m1 m2 -> frame_post out m m2.
Proof.
  intros L A B. pose proof (FP_fagree w R lo fb gl Hw Hgl m m1 L A) as F1.
  destruct out; cbn [frame_post] in *; try exact I; try (apply (fagree_trans w R lo fb gl Hw Hgl m m1 m2 L A B)).
  rewrite F1 in B. eapply (gagree_trans w R lo gl); [|exact B]. apply (gagree_mono w R lo gl (FP m - fb)); [lia | exact A].
Qed.
Lemma frame_post_normal_pre out m m1 m2 : regs_ok w R lo m -> frame_post ONormal m m1 -> frame_post out m1 m2 -> frame_post out m m2.
Proof. intros L A B. apply (frame_post_pre out m m1 m2 L A B). Qed.
(* the return address is not touched by code that keeps the frame *)
Lemma ra_fagree S s m m1 : wf_senv S -> rep S s m -> fagree m m1 -> lw m1 (FP m1 - w) = lw m (FP m - w).
Proof.
  intros Wf Rp A. pose proof (rp_regs w R lo gl ng nbg S s m Rp) as L. rewrite (FP_fagree w R lo fb gl Hw Hgl m m1 L A).
  pose proof (wfs_fb w fb S Wf) as Ofb.
  apply (gagree_lw w R lo gl Hw Hgl (FP m - fb) m m1 _ A); [destruct L, Rp; lia | unfold dj; destruct L, Rp; lia | destruct L, Rp; lia].
Qed.
(* a non-normal outcome of an inner statement list, seen from the enclosing statement *)
Lemma post_exit S S1 S' s s' out m m1 m2 : out <> ONormal -> FP m1 = FP m ->
  post S S1 s s' out m1 m2 -> post S S' s (trunc s s') out m m2.
Proof.
  intros N F Po. destruct out; cbn [post] in *; try exact I; try (rewrite trunc_idem; exact Po); [contradiction | rewrite <- F; exact Po].
Qed.
(* the globals part of a representation *)
Lemma rep_greps S s m : rep S s m -> greps (gs_of s) m.
Proof.
  intros Rp. split; (split; [first [apply (rp_gn w R lo gl ng nbg S s m Rp) | apply (rp_gbn w R lo gl ng nbg S s m Rp)]
                            | first [apply (rp_g w R lo gl ng nbg S s m Rp) | apply (rp_gb w R lo gl ng nbg S s m Rp)]]).
Qed.
Lemma greps_agree S s m m' hi : rep S s m -> agree w R lo hi m m' -> hi <= FP m -> greps (gs_of s) m'.
Proof.
  intros Rp A Hh. split; cbn [gs_of fst snd].
  - split; [apply (rp_gn w R lo gl ng nbg S s m Rp) | apply (glob_agree w R lo gl ng nbg Hw Hgl S s m m' hi Rp A Hh)].
  - split; [apply (rp_gbn w R lo gl ng nbg S s m Rp) | apply (globb_agree w R lo gl ng nbg Hw Hgl S s m m' hi Rp A Hh)].
Qed.
Lemma rep_glayout S s m : rep S s m -> glayout.
Proof. intros Rp. split; [apply (rp_gd w R lo gl ng nbg S s m Rp) | apply (rp_gbd w R lo gl ng nbg S s m Rp)]. Qed.

(* ---------- the frame of a function and its entry memory ---------- *)
Lemma nth_fun_ioffs n i : (i < n)%nat -> nth i (ioffs (is_you_senv w n)) 0 = (Z.of_nat i + 2) * w.
Proof.
  intros Hi. cbn [is_you_senv ioffs].
  rewrite (nth_indep _ 0 ((Z.of_nat 0 + 2) * w)) by (rewrite map_length, seq_length; exact Hi).
  rewrite (map_nth (fun i => (Z.of_nat i + 2) * w) (seq 0 n) 0%nat i), seq_nth by exact Hi. reflexivity.
Qed.
Lemma wf_fun_senv n : wf_senv (is_you_senv w n).
Proof.
  assert (Ln : length (ioffs (is_you_senv w n)) = n) by (cbn [is_you_senv ioffs]; now rewrite map_length, seq_length).
  constructor; rewrite ?Ln; cbn [is_you_senv ws top boffs length]; rewrite ?Hfb; try reflexivity; try lia.
  - intros i Hi. rewrite (nth_fun_ioffs n i Hi). nia.
  - intros i i' Hi Hi' Ne. rewrite (nth_fun_ioffs n i Hi), (nth_fun_ioffs n i' Hi'). nia.
Qed.
Lemma tight_fun_senv n : tight (is_you_senv w n).
Proof. unfold tight. cbn [is_you_senv top ioffs boffs length]. rewrite map_length, seq_length. lia. Qed.
Lemma rep_fun_entry n vs G m : length vs = n -> regs_ok w R lo m -> (Z.of_nat n + 1) * w <= FP m - lo ->
  0 <= FP m - lo <= W / 2 -> FP m <= msize m -> (ap_sep w R lo -> lw m (a_ap R) = lo) ->
  (forall k, (k < n)%nat -> sgn (lw m (FP m - (Z.of_nat k + 2) * w)) = nth k vs 0) ->
  FP m <= gl -> greps G m -> glayout ->
  rep (is_you_senv w n) (mkstore vs [] (fst G) (snd G)) m.
Proof.
  intros Lv L Hr Hh Hs Hap Hv Hfg [[Gn Gg] [Bn Bg]] [Gd Gbd].
  assert (Ln : length (ioffs (is_you_senv w n)) = n) by (cbn [is_you_senv ioffs]; now rewrite map_length, seq_length).
  constructor; rewrite ?Ln; cbn [si sb sg sgb]; try assumption; try (cbn [is_you_senv top]; lia); try reflexivity.
  - intros i Hi. rewrite (nth_fun_ioffs n i Hi). apply Hv. exact Hi.
  - intros j Hj. cbn [is_you_senv boffs length] in Hj. lia.
Qed.

(* outcomes that leave the function do not look at the loop labels *)
Lemma exit_pc_leaves li li' out e e' ra : leaves out -> exit_pc li out e ra = exit_pc li' out e' ra.
Proof. destruct out; cbn [leaves]; intros H; try contradiction; destruct li as [[? ?]|], li' as [[? ?]|]; reflexivity. Qed.
Lemma leaves_not_normal out : leaves out -> out <> ONormal.
Proof. destruct out; cbn; intros H; try contradiction; discriminate. Qed.
(* the same run seen from a store of the same shape and a memory with the same frame pointer *)
Lemma post_rebase S S' s sa s' out m ma m' : length (si sa) = length (si s) -> length (sb sa) = length (sb s) -> FP ma = FP m ->
  post S S' sa s' out ma m' -> post S S' s s' out m m'.
Proof.
  intros Li Lb F Po. destruct out; cbn [post] in *; try exact Po; try (rewrite (trunc_same_len s sa s') by (symmetry; assumption); exact Po).
  rewrite <- F. exact Po.
Qed.
Lemma lib_ap_sep m : lib_hyps -> regs_ok w R lo m -> ap_sep w R lo.
Proof. intros [Hfp [H0 [H1 [H2 [_ [_ Hap]]]]]] L. destruct L. unfold ap_sep. rewrite Hap, H0, H1, H2 in *. lia. Qed.
(* the result of a call (at frame offset top + w, where the return address was) assigned to local i *)
Lemma fetch_result_runs S s m i x q : wf_senv S -> rep S s m -> (i < length (ioffs S))%nat -> top S + w <= FP m - lo ->
  sgn (lw m (FP m - (top S + w))) = x ->
  plc [AInstr (ALwso R1 (SReg RFp) (SLit (- (top S + ws S)))); AInstr (ASwso (SReg RFp) (SLit (- nth i (ioffs S) 0)) (SReg R1))] q ->
  exists m', runs (mk q m) [] (mk (q + 2) m') /\ rep S (mkstore (upd i x (si s)) (sb s) (sg s) (sgb s)) m' /\ fagree m m'.
Proof.
  intros Wf Rp Hi Hr Hx P. pose proof (rp_regs w R lo gl ng nbg S s m Rp) as L. pose proof (wfs_w w fb S Wf) as Ews.
  pose proof (wfs_fb w fb S Wf) as Ofb. assert (Hlo : 0 <= lo) by (destruct L; lia).
  cbn [placed res_ins res_sym regaddr] in P. destruct P as [Cl [Cs _]]. rewrite Ews in Cl.
  assert (Ho : 0 < top S + w <= W / 2) by (destruct Rp; lia).
  assert (I0 : inb m (FP m - (top S + w)) w = true) by (apply inb_true; destruct Rp; lia).
  pose proof (act_lwso w code cmem _ m r1 (St fp) (Imm (- (top S + w))) (FP m) (wrap (- (top S + w))) Cl
                (oval_st w cmem m _ (lo_if w R lo m L)) (oval_imm w cmem m _)) as Al.
  rewrite (frame_addr w R lo Hw m (top S + w) L Ho) in Al. specialize (Al I0 (lo_i1 w R lo m L)).
  set (xw := lw m (FP m - (top S + w))) in *. set (m1 := sw m r1 xw) in *.
  assert (Rx : inrange w xw) by (apply (lw_range w Hw1), (lo_wf w R lo m L)).
  assert (A1 : agree w R lo (FP m - top S) m m1) by (apply (agree_sw w R lo Hw); [apply (lo_r1 w R lo m L) | auto]).
  pose proof (rep_agree w R lo fb gl ng nbg Hw S s m m1 Wf Rp A1) as Rp1. pose proof (rp_regs w R lo gl ng nbg S s m1 Rp1) as L1.
  pose proof (FP_agree w R lo Hw _ m m1 L A1) as F1.
  destruct (rep_slot_i w R lo fb gl ng nbg Hw S s m1 i (FP m1 - top S) Wf Rp1 Hi ltac:(lia)) as [O1 [O2 [O3 _]]].
  assert (Ov : oval m1 (St r1) = Some xw).
  { rewrite (oval_st w cmem m1 r1 (lo_i1 w R lo m1 L1)). unfold m1. rewrite (lw_sw_same w Hw1) by apply (lo_r1 w R lo m L).
    now rewrite (wrap_small w _ Rx). }
  pose proof (store_word_runs _ m1 (St r1) _ _ Cs Ov L1 O1 O3) as Rs.
  destruct (rep_set_int S s m1 i _ Wf Rp1 Hi Rx) as [Rp3 Fa]. rewrite Hx in Rp3.
  eexists. split; [|split; [exact Rp3|]].
  - change (@nil event) with (@nil event ++ []). eapply runs_trans; [apply (runs_next act _ _ None Al)|].
    replace (q + 2) with (q + 1 + 1) by lia. exact Rs.
  - apply (fagree_trans w R lo fb gl Hw Hgl m m1); [exact L | apply (agree_fagree w R lo fb gl ng nbg S s m m1 Wf Rp A1) | exact Fa].
Qed.
Lemma need_args_ge args : forall S, 0 <= ws S -> top S + Z.of_nat (length args) * ws S <= need_args S args.
Proof.
  induction args as [|o r IH]; intros S H; cbn [need_args length]; [lia|].
  specialize (IH (after_ra S) H). cbn [after_ra top ws] in IH. unfold zmax. lia.
Qed.
(* the stack in use is the frame the environment describes *)
Lemma tight_frame_top S s m : tight S -> rep S s m -> frame_top w s = top S.
Proof. intros T Rp. unfold frame_top. rewrite (rp_li w R lo gl ng nbg S s m Rp), (rp_lb w R lo gl ng nbg S s m Rp). symmetry. exact T. Qed.

(* a memory that differs below the stack top and in the globals represents the store with the new globals *)
Lemma rep_of_gagree S s m m' G' : wf_senv S -> rep S s m -> gagree w R lo gl (FP m - top S) m m' -> greps G' m' ->
  rep S (with_g s G') m'.
Proof.
  intros Wf Rp A [[Gn Gg] [Bn Bg]]. destruct (rep_locals_gagree w R lo fb gl ng nbg Hw Hgl S s m m' Wf Rp A) as [L' [EF [Sz [Hi [Hb Ha]]]]].
  destruct Rp as [Rg Rlo Rh Rsz Rli Rlb Ri Rb Rap Rgl Rgn Rgg Rgd Rbn Rbg Rbd].
  constructor; cbn [with_g si sb sg sgb]; rewrite ?EF, ?Sz; try assumption.
Qed.
Lemma greps_setfp G m v : regs_ok w R lo m -> greps G m -> greps G (sw m fp v).
Proof.
  intros L [[Gn Gg] [Bn Bg]]. split; (split; [assumption|]).
  - intros g Hg. destruct (Gg g Hg) as [G0 [G1 G2]].
    split; [exact G0|]. split; [rewrite inb_sw; exact G1|]. rewrite <- G2. f_equal. apply (lw_sw_other w Hw1); destruct L; lia.
  - intros h Hh. destruct (Bg h Hh) as [G0 [G1 [G2 G3]]].
    split; [exact G0|]. split; [rewrite inb_sw; exact G1|]. split; [|exact G3]. rewrite <- G2. apply (lb_sw_other w Hw1); destruct L; lia.
Qed.
(* g = f(args): the result, at frame offset top + w, loaded into the global *)
Lemma fetch_result_glob_runs S s m g x q : wf_senv S -> rep S s m -> (g < ng)%nat -> top S + w <= FP m - lo ->
  sgn (lw m (FP m - (top S + w))) = x ->
  plc [AInstr (ALwso (RGlob g) (SReg RFp) (SLit (- (top S + ws S))))] q ->
  exists m', runs (mk q m) [] (mk (q + 1) m') /\ rep S (set_g s g x) m' /\ fagree m m'.
Proof.
  intros Wf Rp Hg Hr Hx P. pose proof (rp_regs w R lo gl ng nbg S s m Rp) as L. pose proof (wfs_w w fb S Wf) as Ews.
  pose proof (wfs_fb w fb S Wf) as Ofb. destruct (rp_g w R lo gl ng nbg S s m Rp g Hg) as [G0 [G1 G2]].
  cbn [placed res_ins res_sym regaddr] in P. destruct P as [Cl _]. rewrite Ews in Cl.
  assert (Ho : 0 < top S + w <= W / 2) by (destruct Rp; lia).
  assert (I0 : inb m (FP m - (top S + w)) w = true) by (apply inb_true; destruct L, Rp; lia).
  pose proof (act_lwso w code cmem _ m (a_glob R g) (St fp) (Imm (- (top S + w))) (FP m) (wrap (- (top S + w))) Cl
                (oval_st w cmem m _ (lo_if w R lo m L)) (oval_imm w cmem m _)) as Al.
  rewrite (frame_addr w R lo Hw m (top S + w) L Ho) in Al. specialize (Al I0 G1).
  assert (Rx : inrange w (lw m (FP m - (top S + w)))) by (apply (lw_range w Hw1), (lo_wf w R lo m L)).
  destruct (rep_set_glob S s m m g _ Wf Rp (agree_refl w R lo _ m) Hg Rx) as [Rp' Fa]. rewrite Hx in Rp'.
  eexists. split; [apply (runs_next act _ _ None Al)|]. split; assumption.
Qed.
(* g = o  for EVERY int operand o *)
Lemma assign_glob_runs_gen S s m g o p : wf_senv S -> rep S s m -> (g < ng)%nat -> oscoped w ng (length (ioffs S)) (length (boffs S)) o ->
  need_int S o false <= FP m - lo -> plc (assign_glob S g o) p ->
  exists m', runs (mk p m) [] (mk (p + size (assign_glob S g o)) m') /\ rep S (set_g s g (ieval w s o)) m' /\ fagree m m'.
Proof.
  intros Wf Rp Hg Sc Hn P. pose proof (rp_regs w R lo gl ng nbg S s m Rp) as L.
  destruct (sval_ieval S s m o Wf Rp Sc) as [Sv Rv]. destruct (rp_g w R lo gl ng nbg S s m Rp g Hg) as [G0 [G1 G2]].
  pose proof (rp_gl w R lo gl ng nbg S s m Rp) as Hf. pose proof (wfs_fb w fb S Wf) as Ofb.
  assert (Ha : 0 <= a_glob R g) by (destruct L; lia).
  unfold assign_glob in *.
  destruct (eval_opd (env_of S) (top S) (RGlob g) o false) as [c0 bub] eqn:Ev. destruct (pop_value (RGlob g) bub) as [c1 v] eqn:Pv.
  rewrite app_assoc in P |- *. apply placed_app in P. destruct P as [Pe Pm].
  destruct (eval_glob_props S s m g Wf Rp Hg o c0 bub c1 v p Sc Hn Ev Pv Pe) as [ma [m1 [A [O [Rn [Ov Hv]]]]]].
  set (xw := wval w R (env_of S) m o) in *.
  assert (I1 : inb m1 (a_glob R g) w = true) by (unfold inb; rewrite (proj1 O), (proj1 A); exact G1).
  (* the final memory: the value is in the global *)
  assert (Fin : exists mf, only_g g ma mf /\ lw mf (a_glob R g) = xw /\
            runs (mk (p + size (c0 ++ c1)) m1) [] (mk (p + size ((c0 ++ c1) ++ (if is_state_of (RGlob g) v then [] else [AInstr (AMov (RGlob g) v)]))) mf)).
  { destruct (is_state_of (RGlob g) v) eqn:Is.
    - assert (Evx : v = SReg (RGlob g)).
      { destruct v as [z|r|l|c|r|x0]; try discriminate Is. cbn [is_state_of] in Is. destruct r; try discriminate Is. cbn [reg_eqb] in Is. apply Nat.eqb_eq in Is. now subst. }
      subst v. cbn [res_sym regaddr] in Ov. destruct (oval_st_inv w cmem m1 _ _ Ov) as [_ E].
      exists m1. split; [exact O|]. split; [symmetry; exact E|]. rewrite app_nil_r. apply runs_refl.
    - cbn [placed res_ins regaddr] in Pm. destruct Pm as [Cq _].
      pose proof (act_mov w code cmem _ m1 (a_glob R g) (rs v) _ Cq Ov I1) as Am.
      exists (sw m1 (a_glob R g) xw). split; [apply only_g_sw; assumption|]. split.
      + rewrite (lw_sw_same w Hw1) by exact Ha. apply (wrap_small w). exact Rv.
      + rewrite (size_app (c0 ++ c1)). cbn [size]. replace (p + (size (c0 ++ c1) + (1 + 0))) with (p + size (c0 ++ c1) + 1) by lia.
        apply (runs_next act _ _ None Am). }
  destruct Fin as [mf [Of [Vf Rf]]].
  assert (Gm : gagree w R lo gl (FP m - top S) m mf).
  { eapply (gagree_trans w R lo gl); [apply (agree_gagree w R lo gl); exact A | apply (only_g_gagree g); [lia | assumption]]. }
  assert (Gr : greps (upd g (sgn xw) (sg s), sgb s) mf).
  { split; cbn [fst snd].
    2:{ split; [apply (rp_gbn w R lo gl ng nbg S s m Rp)|]. intros h Hh.
        destruct (rp_gb w R lo gl ng nbg S s m Rp h Hh) as [B0 [B1 [B2 B3]]]. split; [exact B0|].
        split; [unfold inb; rewrite (proj1 Of), (proj1 A); exact B1|]. split; [|exact B3]. rewrite <- B2.
        transitivity (lb ma (a_bglob R h)).
        - unfold Machine.lb. apply (proj2 (proj2 Of)); [destruct L; lia|]. destruct (proj2 (rp_gbd w R lo gl ng nbg S s m Rp) g h Hg Hh); lia.
        - apply (agree_lb w R lo (FP m - top S) m ma _ A); [destruct L; lia | unfold dj; destruct L, Rp; lia]. }
    split; [rewrite length_upd; apply (rp_gn w R lo gl ng nbg S s m Rp)|]. intros k Hk.
    destruct (rp_g w R lo gl ng nbg S s m Rp k Hk) as [K0 [K1 K2]]. split; [exact K0|].
    split; [unfold inb; rewrite (proj1 Of), (proj1 A); exact K1|].
    destruct (Nat.eq_dec k g) as [->|Ne].
    - rewrite nth_upd_same by (rewrite (rp_gn w R lo gl ng nbg S s m Rp); exact Hg). rewrite Vf. reflexivity.
    - rewrite nth_upd_other by congruence. rewrite <- K2. f_equal.
      rewrite (only_g_lw g ma mf _ Of); [| destruct L; lia | destruct (rp_gd w R lo gl ng nbg S s m Rp k g Hk Hg Ne); lia].
      apply (agree_lw w R lo Hw (FP m - top S) m ma _ A); [destruct L; lia | unfold dj; destruct L, Rp; lia]. }
  pose proof (rep_of_gagree S s m mf _ Wf Rp Gm Gr) as Rpf.
  exists mf. split; [|split].
  - change (@nil event) with (@nil event ++ []). eapply runs_trans; [exact Rn | exact Rf].
  - rewrite Sv in Rpf. exact Rpf.
  - apply (gagree_mono w R lo gl (FP m - top S)); [lia | exact Gm].
Qed.
(* ---------- h = e  for a bool global: get_expr_value(r1, e); sbs var_h, value ---------- *)
Lemma act_sbs p m a v x z : code p = Some (IStore WByte a v) -> oval m a = Some x -> oval m v = Some z -> inb m x 1 = true ->
  act (mk p m) = ANext (mk (p + 1) (Machine.sb m x z)) None.
Proof.
  intros C A V I. unfold Machine.act; cbn [pc]; rewrite C; cbn [Machine.exec].
  rewrite !val_oval; cbn [mm]; rewrite A, V. unfold Machine.store; cbn [mm]; rewrite I. reflexivity.
Qed.
Lemma assign_bglob_runs S s m h e st c st' p : wf_senv S -> rep S s m -> (h < nbg)%nat ->
  bscoped w ng nbg (length (ioffs S)) (length (boffs S)) e -> top S + Z.of_nat (temps_b e) * w <= FP m - lo ->
  assign_bglob (env_of S) h e st = (c, st') -> plc c p ->
  exists m', runs (mk p m) [] (mk (p + size c) m') /\ rep S (set_gb s h (b2z (bevals w s e))) m' /\ fagree m m'.
Proof.
  intros Wf Rp Hh Sc Hn Ev P. unfold assign_bglob in Ev.
  destruct (eval_bool_value (env_of S) R1 e st) as [[c0 v] st0] eqn:E0. inversion Ev; subst c st'; clear Ev.
  apply placed_app in P. destruct P as [P0 P1]. cbn [placed res_ins res_sym regaddr] in P1. destruct P1 as [Cq _].
  pose proof (rep_layout w R lo fb gl ng nbg S s m Wf Rp) as Lo.
  pose proof (rep_vars w R lo fb gl ng nbg Hw S s m e (top S) Wf Rp Sc ltac:(lia) Hn) as V.
  pose proof (rep_norm w R lo fb gl ng nbg S s m e Wf Rp Sc) as N.
  destruct (bool_value_runs w R (env_of S) lo Hw (wfs_w w fb S Wf) code cmem lab lab_range e st c0 v st0 p m E0 P0 Lo V N)
    as [m1 [R1' [A1 O1]]].
  rewrite (rep_beval w R lo fb gl ng nbg Hw S s m e Wf Rp Sc) in O1.
  pose proof (rp_regs w R lo gl ng nbg S s m Rp) as L. pose proof (wfs_fb w fb S Wf) as Ofb.
  pose proof (rep_agree w R lo fb gl ng nbg Hw S s m m1 Wf Rp A1) as Rp1.
  pose proof (rp_regs w R lo gl ng nbg S s m1 Rp1) as L1. pose proof (rp_gl w R lo gl ng nbg S s m1 Rp1) as Hf1.
  destruct (rp_gb w R lo gl ng nbg S s m1 Rp1 h Hh) as [B0 [B1 [B2 B3]]].
  set (a := a_bglob R h) in *. set (bv := b2z (bevals w s e)) in *.
  assert (Ha : 0 <= a) by (destruct L1; lia).
  assert (Oa : oval m1 (Imm a) = Some a) by (rewrite oval_imm; f_equal; apply (wrap_small w); unfold inrange; lia).
  pose proof (act_sbs _ m1 (Imm a) (rs v) a _ Cq Oa O1 B1) as As.
  set (m2 := Machine.sb m1 a bv) in *.
  assert (G12 : gagree w R lo gl (FP m - top S) m1 m2).
  { unfold m2, Machine.sb. split; [reflexivity|]. split.
    - intros Wfm. apply wf_setb; [exact Wfm | exact Ha | apply Z.mod_pos_bound; lia].
    - intros x X N0 N1 N2 N3 N4. apply getb_setb_other; [exact Ha | exact X | lia]. }
  assert (Gm : gagree w R lo gl (FP m - top S) m m2).
  { eapply (gagree_trans w R lo gl); [apply (agree_gagree w R lo gl); exact A1 | exact G12]. }
  assert (Gr : greps (sg s, upd h bv (sgb s)) m2).
  { split; cbn [fst snd].
    - split; [apply (rp_gn w R lo gl ng nbg S s m1 Rp1)|]. intros g Hg.
      destruct (rp_g w R lo gl ng nbg S s m1 Rp1 g Hg) as [K0 [K1 K2]]. split; [exact K0|].
      split; [unfold m2, inb, Machine.sb in *; exact K1|]. rewrite <- K2. f_equal. unfold m2.
      apply (lw_sb_other w Hw1); [exact Ha | destruct L1; lia | destruct (proj2 (rp_gbd w R lo gl ng nbg S s m1 Rp1) g h Hg Hh); lia].
    - split; [rewrite length_upd; apply (rp_gbn w R lo gl ng nbg S s m1 Rp1)|]. intros k Hk.
      destruct (rp_gb w R lo gl ng nbg S s m1 Rp1 k Hk) as [K0 [K1 [K2 K3]]]. split; [exact K0|].
      split; [unfold m2, inb, Machine.sb in *; exact K1|].
      destruct (Nat.eq_dec k h) as [->|Ne].
      + rewrite nth_upd_same by (rewrite (rp_gbn w R lo gl ng nbg S s m1 Rp1); exact Hh). split; [|apply b2z_01].
        unfold m2. rewrite lb_sb_same. apply Z.mod_small. unfold bv. destruct (bevals w s e); cbn; lia.
      + rewrite nth_upd_other by congruence. split; [|exact K3]. rewrite <- K2. unfold m2, Machine.lb, Machine.sb.
        apply getb_setb_other; [exact Ha | destruct L1; lia |]. pose proof (proj1 (rp_gbd w R lo gl ng nbg S s m1 Rp1) k h Hk Hh Ne). fold a in H. lia. }
  pose proof (rep_of_gagree S s m m2 _ Wf Rp Gm Gr) as Rp2.
  exists m2. split; [|split].
  - rewrite size_app. cbn [size]. change (@nil event) with (@nil event ++ []). eapply runs_trans; [exact R1'|].
    replace (p + (size c0 + (1 + 0))) with (p + size c0 + 1) by lia. apply (runs_next act _ _ None As).
  - exact Rp2.
  - apply (gagree_mono w R lo gl (FP m - top S)); [lia | exact Gm].
Qed.
Ltac fin_normal Rn Fa := split; [reflexivity|]; split; [exact Rn|]; split; [exact Fa|].
Theorem stmts_runs :
  (forall d s s0 evs out s1, exec w funs d s s0 evs out s1 -> stmt_spec d s s0 evs out s1) /\
  (forall d ss s0 evs out s1, execs w funs d ss s0 evs out s1 -> stmts_spec d ss s0 evs out s1) /\
  (forall d f vs G evs res, callf w funs d f vs G evs res -> call_spec d f vs G evs res).
Proof.
  apply (exec_execs_ind w funs stmt_spec stmts_spec call_spec).
  - (* int x = o *)
    intros d o s S li st C S' st' ex p m Ev P Wf Tg Rp Hd Sc Hn. cbn [lower_stmt] in Ev. inversion Ev; subst C S' st' ex; clear Ev.
    cbn [need_stmt fst sscoped] in *. apply need_max in Hn. destruct Hn as [Hn1 Hn2]. rewrite (wfs_w w fb S Wf) in Hn2.
    destruct (decl_int_runs S s m o p Wf Rp (proj1 Sc) (proj2 Sc) Hn1 Hn2 P) as [m' [Rn [Rp' Fa]]].
    exists m', (p + size (decl_int S o)). fin_normal Rn (agree_fagree w R lo fb gl ng nbg S s m m' Wf Rp Fa).
    split; [exact Rp' | apply wf_push_int; exact Wf].
  - (* xi = o *)
    intros d i o s Hi S li st C S' st' ex p m Ev P Wf Tg Rp Hd Sc Hn. cbn [lower_stmt] in Ev. inversion Ev; subst C S' st' ex; clear Ev.
    cbn [need_stmt fst sscoped] in *. destruct Sc as [Si So].
    destruct (assign_int_runs S s m i o p Wf Rp Si So Hn P) as [m' [Rn [Rp' Fa]]].
    exists m', (p + size (assign_int S i o)). fin_normal Rn Fa. split; assumption.
  - (* bool p = e *)
    intros d e s S li st C S' st' ex p m Ev P Wf Tg Rp Hd Sc Hn. cbn [lower_stmt] in Ev.
    destruct (declare_bool (env_of S) e st) as [c st1] eqn:Ed. inversion Ev; subst C S' st' ex; clear Ev.
    cbn [sscoped] in Sc.
    destruct (declare_bool_runs S s m e st c st1 p Wf Rp Sc Hn Ed P) as [m' [Rn [Rp' Fa]]].
    exists m', (p + size c). fin_normal Rn (agree_fagree w R lo fb gl ng nbg S s m m' Wf Rp Fa).
    split; [exact Rp' | apply wf_push_bool; exact Wf].
  - (* pj = e *)
    intros d j e s Hj S li st C S' st' ex p m Ev P Wf Tg Rp Hd Sc Hn. cbn [lower_stmt] in Ev.
    destruct (assign_bool (env_of S) (nth j (boffs S) 0) e st) as [c st1] eqn:Ea. inversion Ev; subst C S' st' ex; clear Ev.
    cbn [need_stmt fst sscoped] in *. destruct Sc as [Sj Se]. rewrite (wfs_w w fb S Wf) in Hn.
    destruct (assign_bool_runs S s m j e st c st1 p Wf Rp Sj Se Hn Ea P) as [m' [Rn [Rp' Fa]]].
    exists m', (p + size c). fin_normal Rn Fa. split; assumption.
  - (* write *)
    intros d x s S li st C S' st' ex p m Ev P Wf Tg Rp Hd Sc Hn. cbn [lower_stmt] in Ev. inversion Ev; subst C S' st' ex; clear Ev.
    assert (Hx : match x with WrByte o => oscoped w ng (length (ioffs S)) (length (boffs S)) o /\ need_int S o false <= FP m - lo | _ => True end).
    { destruct x; cbn [sscoped need_stmt fst] in *; tauto. }
    destruct (write_runs S s m x p Wf Rp Hx P) as [m' [Rn [Rp' Fa]]].
    exists m', (p + size (lower_write S x)). fin_normal Rn Fa. split; assumption.
  - (* writeln *)
    intros d s S li st C S' st' ex p m Ev P Wf Tg Rp Hd Sc Hn. cbn [lower_stmt] in Ev. inversion Ev; subst C S' st' ex; clear Ev.
    cbn [plc res_ins res_sym] in P. destruct P as [Cy _].
    exists m, (p + size [AInstr (AYield (SChar 10))]). split; [reflexivity|]. split.
    + cbn [size map]. replace (p + (1 + 0)) with (p + 1) by lia.
      pose proof (yield_runs p m (Imm 10) (wrap 10) Cy (oval_imm w cmem m 10)) as Y. rewrite wrap_mod256 in Y. exact Y.
    + split; [apply fagree_refl|]. split; assumption.
  - (* write(int) *)
    intros d ln o s S li st C S' st' ex p m Ev P Wf Tg Rp Hd Sc Hn. cbn [lower_stmt] in Ev.
    destruct (add_label LEndCall st) as [ec st1]. inversion Ev; subst C S' st' ex; clear Ev.
    cbn [sscoped] in Sc. destruct Sc as [So Hl].
    destruct (writei_runs S s m ln o ec p Hl Wf Rp (proj1 So) (proj2 So) Hn P) as [m' [Rn [Rp' Fa]]].
    eexists m', _. fin_normal Rn Fa. split; assumption.
  - (* write(bool) *)
    intros d ln e s S li st C S' st' ex p m Ev P Wf Tg Rp Hd Sc Hn. cbn [lower_stmt] in Ev.
    destruct (add_label LEndCall st) as [ec st1]. destruct (declare_bool (env_of (after_ra S)) e st1) as [c st2] eqn:Ed.
    inversion Ev; subst C S' st' ex; clear Ev.
    cbn [sscoped] in Sc. destruct Sc as [Se Hl].
    destruct (writeb_runs S s m ln e ec st1 c st2 p Hl Wf Rp Se Hn Ed P) as [m' [Rn [Rp' Fa]]].
    eexists m', _. fin_normal Rn Fa. split; assumption.
  - (* if *)
    intros d c s1 s2 s evs out s' Hx IH S li st C S' st' ex p m Ev P Wf Tg Rp Hd Sc Hn. cbn [lower_stmt] in Ev.
    destruct (add_label LElse st) as [el st1]. destruct (add_label LEndElse st1) as [ee st2].
    destruct (lower_branch (env_of S) c [] (goto el) st2) as [cc st3] eqn:Ec.
    pose proof (lower_stmts_extends s1 S li st3 ltac:(rewrite (wfs_w w fb S Wf); lia)) as X1.
    destruct (lower_stmts S li s1 st3) as [[[c1 S1] st4] ex1] eqn:E1.
    pose proof (lower_stmts_extends s2 S li st4 ltac:(rewrite (wfs_w w fb S Wf); lia)) as X2.
    destruct (lower_stmts S li s2 st4) as [[[c2 S2] st5] ex2] eqn:E2.
    inversion Ev; subst C S' st' ex; clear Ev.
    apply placed_app in P. destruct P as [Pcc P]. apply placed_app in P. destruct P as [Pc1 P].
    cbn [goto app plc res_ins res_sym] in P. destruct P as [Gj [Gh [Lel P]]].
    apply placed_app in P. destruct P as [Pc2 Pend]. cbn [plc] in Pend. destruct Pend as [Lee _].
    cbn [sscoped need_stmt fst] in Sc, Hn. destruct Sc as [Scc [Sc1 Sc2]].
    apply need_max in Hn. destruct Hn as [Hnc Hn]. apply need_max in Hn. destruct Hn as [Hn1 Hn2].
    rewrite (wfs_w w fb S Wf) in Hnc.
    destruct (cond_runs S s m c el st2 cc st3 p Wf Rp Scc Hnc Ec Pcc) as [m1 [Rc A1]].
    pose proof (rep_agree w R lo fb gl ng nbg Hw S s m m1 Wf Rp A1) as Rp1.
    pose proof (rp_regs w R lo gl ng nbg S s m Rp) as L. pose proof (FP_agree w R lo Hw _ m m1 L A1) as F1.
    pose proof (agree_fagree w R lo fb gl ng nbg S s m m1 Wf Rp A1) as Fa1.
    pose proof (ra_fagree S s m m1 Wf Rp Fa1) as Ra1.
    destruct (bevals w s c).
    + (* then *)
      destruct (IH S li st3 c1 S1 st4 ex1 (p + size cc) m1 E1 Pc1 Wf Tg Rp1 ltac:(rewrite F1; exact Hd) Sc1 ltac:(rewrite F1; exact Hn1))
        as [m2 [pc2 [Ex [Rn [Fa2 Po]]]]].
      rewrite Ra1 in Ex. pose proof (frame_post_pre out m m1 m2 L Fa1 Fa2) as Fa.
      destruct (outcome_normal_dec out) as [-> | Nn].
      * cbn [exit_pc] in Ex. inversion Ex; subst pc2. eexists m2, _.
        split; [reflexivity|]. split; [|split; [exact Fa|]].
        -- change (map EOut evs) with ([] ++ map EOut evs). rewrite <- (app_nil_r (map EOut evs)). rewrite app_assoc.
           eapply runs_trans; [eapply runs_trans; [exact Rc | exact Rn]|].
           pose proof (goto_label w code cmem _ m2 (lab ee) Gj Gh) as G.
           rewrite (wrap_small w (lab ee) (lab_range ee)), Lee in G. close_with G.
        -- destruct Po as [Rp2 _]. split; [|exact Wf].
           apply (rep_shrink S S1 s s' m2 X1 (rp_li w R lo gl ng nbg S s m Rp) (rp_lb w R lo gl ng nbg S s m Rp) Rp2).
      * exists m2, pc2. split; [rewrite <- Ex; apply exit_pc_exit; exact Nn|]. split; [|split; [exact Fa|]].
        -- change (map EOut evs) with ([] ++ map EOut evs). eapply runs_trans; [exact Rc | exact Rn].
        -- apply (post_exit S S1 S s s' out m m1 m2 Nn F1 Po).
    + (* else *)
      rewrite Lel in Rc.
      destruct (IH S li st4 c2 S2 st5 ex2 _ m1 E2 Pc2 Wf Tg Rp1 ltac:(rewrite F1; exact Hd) Sc2 ltac:(rewrite F1; exact Hn2))
        as [m2 [pc2 [Ex [Rn [Fa2 Po]]]]].
      rewrite Ra1 in Ex. pose proof (frame_post_pre out m m1 m2 L Fa1 Fa2) as Fa.
      destruct (outcome_normal_dec out) as [-> | Nn].
      * cbn [exit_pc] in Ex. inversion Ex; subst pc2. eexists m2, _.
        split; [reflexivity|]. split; [|split; [exact Fa|]].
        -- change (map EOut evs) with ([] ++ map EOut evs).
           eapply runs_trans; [exact Rc|]. cbn [size goto] in Rn. close_with Rn.
        -- destruct Po as [Rp2 _]. split; [|exact Wf].
           apply (rep_shrink S S2 s s' m2 X2 (rp_li w R lo gl ng nbg S s m Rp) (rp_lb w R lo gl ng nbg S s m Rp) Rp2).
      * exists m2, pc2. split; [rewrite <- Ex; apply exit_pc_exit; exact Nn|]. split; [|split; [exact Fa|]].
        -- change (map EOut evs) with ([] ++ map EOut evs). eapply runs_trans; [exact Rc | exact Rn].
        -- apply (post_exit S S2 S s s' out m m1 m2 Nn F1 Po).
  - (* while: condition false *)
    intros d c b k s Hc S li st C S' st' ex p m Ev P Wf Tg Rp Hd Sc Hn. cbn [lower_stmt] in Ev.
    destruct (add_label LLoop st) as [ls st1]. destruct (add_label LContinue st1) as [lc st2]. destruct (add_label LBreak st2) as [lb st3].
    destruct (lower_branch (env_of S) c [] (goto lb) st3) as [cc st4] eqn:Ec.
    destruct (lower_stmts S (Some (lc, lb)) b st4) as [[[c1 S1] st5] ex1] eqn:E1.
    destruct (lower_stmts S li k st5) as [[[c2 S2] st6] ex2] eqn:E2.
    inversion Ev; subst C S' st' ex; clear Ev.
    cbn [app plc] in P. destruct P as [Lls P]. apply placed_app in P. destruct P as [Pcc P]. apply placed_app in P. destruct P as [Pc1 P].
    cbn [app plc] in P. destruct P as [Llc P]. apply placed_app in P. destruct P as [Pc2 P].
    cbn [goto app plc res_ins res_sym] in P. destruct P as [Gj [Gh [Llb _]]].
    cbn [sscoped need_stmt fst] in Sc, Hn. destruct Sc as [Scc [Sc1 Sc2]].
    apply need_max in Hn. destruct Hn as [Hnc Hn]. rewrite (wfs_w w fb S Wf) in Hnc.
    destruct (cond_runs S s m c lb st3 cc st4 p Wf Rp Scc Hnc Ec Pcc) as [m1 [Rc A1]]. rewrite Hc in Rc.
    eexists m1, _. split; [reflexivity|]. split; [|split; [apply (agree_fagree w R lo fb gl ng nbg S s m m1 Wf Rp A1)|]].
    + cbn [map]. rewrite Llb in Rc. close_with Rc.
    + split; [apply (rep_agree w R lo fb gl ng nbg Hw S s m m1 Wf Rp A1) | exact Wf].
  - (* while: the body breaks *)
    intros d c b k s evs s1 Hc Hb IHb S li st C S' st' ex p m Ev P Wf Tg Rp Hd Sc Hn. cbn [lower_stmt] in Ev.
    destruct (add_label LLoop st) as [ls st1]. destruct (add_label LContinue st1) as [lc st2]. destruct (add_label LBreak st2) as [lb st3].
    destruct (lower_branch (env_of S) c [] (goto lb) st3) as [cc st4] eqn:Ec.
    destruct (lower_stmts S (Some (lc, lb)) b st4) as [[[c1 S1] st5] ex1] eqn:E1.
    destruct (lower_stmts S li k st5) as [[[c2 S2] st6] ex2] eqn:E2.
    inversion Ev; subst C S' st' ex; clear Ev.
    cbn [app plc] in P. destruct P as [Lls P]. apply placed_app in P. destruct P as [Pcc P]. apply placed_app in P. destruct P as [Pc1 P].
    cbn [app plc] in P. destruct P as [Llc P]. apply placed_app in P. destruct P as [Pc2 P].
    cbn [goto app plc res_ins res_sym] in P. destruct P as [Gj [Gh [Llb _]]].
    cbn [sscoped need_stmt fst] in Sc, Hn. destruct Sc as [Scc [Sc1 Sc2]].
    apply need_max in Hn. destruct Hn as [Hnc Hn]. apply need_max in Hn. destruct Hn as [Hn1 Hn2]. rewrite (wfs_w w fb S Wf) in Hnc.
    destruct (cond_runs S s m c lb st3 cc st4 p Wf Rp Scc Hnc Ec Pcc) as [m1 [Rc A1]]. rewrite Hc in Rc.
    pose proof (rep_agree w R lo fb gl ng nbg Hw S s m m1 Wf Rp A1) as Rp1.
    pose proof (rp_regs w R lo gl ng nbg S s m Rp) as L. pose proof (FP_agree w R lo Hw _ m m1 L A1) as F1.
    destruct (IHb S (Some (lc, lb)) st4 c1 S1 st5 ex1 (p + size cc) m1 E1 Pc1 Wf Tg Rp1 ltac:(rewrite F1; exact Hd) Sc1 ltac:(rewrite F1; exact Hn1))
      as [m2 [pc2 [Ex [Rn [Fa2 Po]]]]].
    cbn [exit_pc] in Ex. inversion Ex; subst pc2. cbn [post frame_post] in Po, Fa2.
    eexists m2, _. split; [reflexivity|]. split; [|split].
    + change (map EOut evs) with ([] ++ map EOut evs). eapply runs_trans; [exact Rc|]. rewrite Llb in Rn. close_with Rn.
    + apply (fagree_trans w R lo fb gl Hw Hgl m m1 m2 L); [apply (agree_fagree w R lo fb gl ng nbg S s m m1 Wf Rp A1) | exact Fa2].
    + split; [exact Po | exact Wf].
  - (* while: the body returns or faults *)
    intros d c b k s evs out s1 Hc Hb IHb Lv S li st C S' st' ex p m Ev P Wf Tg Rp Hd Sc Hn. cbn [lower_stmt] in Ev.
    destruct (add_label LLoop st) as [ls st1]. destruct (add_label LContinue st1) as [lc st2]. destruct (add_label LBreak st2) as [lb st3].
    destruct (lower_branch (env_of S) c [] (goto lb) st3) as [cc st4] eqn:Ec.
    destruct (lower_stmts S (Some (lc, lb)) b st4) as [[[c1 S1] st5] ex1] eqn:E1.
    destruct (lower_stmts S li k st5) as [[[c2 S2] st6] ex2] eqn:E2.
    inversion Ev; subst C S' st' ex; clear Ev.
    cbn [app plc] in P. destruct P as [Lls P]. apply placed_app in P. destruct P as [Pcc P]. apply placed_app in P. destruct P as [Pc1 P].
    cbn [sscoped need_stmt fst] in Sc, Hn. destruct Sc as [Scc [Sc1 Sc2]].
    apply need_max in Hn. destruct Hn as [Hnc Hn]. apply need_max in Hn. destruct Hn as [Hn1 Hn2]. rewrite (wfs_w w fb S Wf) in Hnc.
    destruct (cond_runs S s m c lb st3 cc st4 p Wf Rp Scc Hnc Ec Pcc) as [m1 [Rc A1]]. rewrite Hc in Rc.
    pose proof (rep_agree w R lo fb gl ng nbg Hw S s m m1 Wf Rp A1) as Rp1.
    pose proof (rp_regs w R lo gl ng nbg S s m Rp) as L. pose proof (FP_agree w R lo Hw _ m m1 L A1) as F1.
    pose proof (agree_fagree w R lo fb gl ng nbg S s m m1 Wf Rp A1) as Fa1. pose proof (ra_fagree S s m m1 Wf Rp Fa1) as Ra1.
    destruct (IHb S (Some (lc, lb)) st4 c1 S1 st5 ex1 (p + size cc) m1 E1 Pc1 Wf Tg Rp1 ltac:(rewrite F1; exact Hd) Sc1 ltac:(rewrite F1; exact Hn1))
      as [m2 [pc2 [Ex [Rn [Fa2 Po]]]]].
    rewrite Ra1 in Ex. exists m2, pc2. split; [rewrite <- Ex; apply exit_pc_leaves; exact Lv|].
    split; [change (map EOut evs) with ([] ++ map EOut evs); eapply runs_trans; [exact Rc | exact Rn]|].
    split; [apply (frame_post_pre out m m1 m2 L Fa1 Fa2)|].
    apply (post_exit S S1 S s s1 out m m1 m2 (leaves_not_normal out Lv) F1 Po).
  - (* while: the continuation of a `for` does not complete *)
    intros d c b k s e1 out1 s1 e2 out2 s2 Hc Hb IHb Nb Hk IHk Nn2 S li st C S' st' ex p m Ev P Wf Tg Rp Hd Sc Hn.
    cbn [lower_stmt] in Ev.
    destruct (add_label LLoop st) as [ls st1]. destruct (add_label LContinue st1) as [lc st2]. destruct (add_label LBreak st2) as [lb st3].
    destruct (lower_branch (env_of S) c [] (goto lb) st3) as [cc st4] eqn:Ec.
    pose proof (lower_stmts_extends b S (Some (lc, lb)) st4 ltac:(rewrite (wfs_w w fb S Wf); lia)) as X1.
    destruct (lower_stmts S (Some (lc, lb)) b st4) as [[[c1 S1] st5] ex1] eqn:E1.
    destruct (lower_stmts S li k st5) as [[[c2 S2] st6] ex2] eqn:E2.
    inversion Ev; subst C S' st' ex; clear Ev.
    cbn [app plc] in P. destruct P as [Lls P]. apply placed_app in P. destruct P as [Pcc P]. apply placed_app in P. destruct P as [Pc1 P].
    cbn [app plc] in P. destruct P as [Llc P]. apply placed_app in P. destruct P as [Pc2 P].
    cbn [sscoped need_stmt fst] in Sc, Hn. destruct Sc as [Scc [Sc1 Sc2]].
    apply need_max in Hn. destruct Hn as [Hnc Hn]. apply need_max in Hn. destruct Hn as [Hn1 Hn2]. rewrite (wfs_w w fb S Wf) in Hnc.
    destruct (cond_runs S s m c lb st3 cc st4 p Wf Rp Scc Hnc Ec Pcc) as [m1 [Rc A1]]. rewrite Hc in Rc.
    pose proof (rep_agree w R lo fb gl ng nbg Hw S s m m1 Wf Rp A1) as Rp1.
    pose proof (rp_regs w R lo gl ng nbg S s m Rp) as L. pose proof (FP_agree w R lo Hw _ m m1 L A1) as F1.
    pose proof (agree_fagree w R lo fb gl ng nbg S s m m1 Wf Rp A1) as Fa1.
    destruct (IHb S (Some (lc, lb)) st4 c1 S1 st5 ex1 (p + size cc) m1 E1 Pc1 Wf Tg Rp1 ltac:(rewrite F1; exact Hd) Sc1 ltac:(rewrite F1; exact Hn1))
      as [m2 [pc2 [Ex [Rn [Fa2 Po]]]]].
    assert (B2 : pc2 = lab lc /\ rep S (trunc s s1) m2 /\ fagree m1 m2).
    { destruct Nb as [-> | ->]; cbn [exit_pc post frame_post] in Ex, Po, Fa2.
      - inversion Ex; subst pc2. split; [rewrite Llc; lia|]. destruct Po as [Rp2 _]. split; [|exact Fa2].
        apply (rep_shrink S S1 s s1 m2 X1 (rp_li w R lo gl ng nbg S s m Rp) (rp_lb w R lo gl ng nbg S s m Rp) Rp2).
      - inversion Ex; subst pc2. split; [reflexivity | split; [exact Po | exact Fa2]]. }
    destruct B2 as [-> [Rp2 Fa2']].
    pose proof (fagree_trans w R lo fb gl Hw Hgl m m1 m2 L Fa1 Fa2') as Fa12.
    pose proof (FP_fagree w R lo fb gl Hw Hgl m m2 L Fa12) as F2. pose proof (ra_fagree S s m m2 Wf Rp Fa12) as Ra2.
    destruct (IHk S li st5 c2 S2 st6 ex2 _ m2 E2 Pc2 Wf Tg Rp2 ltac:(rewrite F2; exact Hd) Sc2 ltac:(rewrite F2; exact Hn2))
      as [m3 [pc3 [Ex3 [Rn3 [Fa3 Po3]]]]].
    rewrite Ra2 in Ex3. exists m3, pc3. split; [rewrite <- Ex3; apply exit_pc_exit; exact Nn2|].
    split; [|split; [apply (frame_post_pre out2 m m2 m3 L Fa12 Fa3)|]].
    + rewrite map_app. change (map EOut e1 ++ map EOut e2) with ([] ++ (map EOut e1 ++ map EOut e2)). rewrite Llc in Rn.
      eapply runs_trans; [exact Rc|]. eapply runs_trans; [exact Rn | exact Rn3].
    + apply (post_exit S S2 S s s2 out2 m m m3 Nn2 eq_refl).
      apply (post_rebase S S2 s (trunc s s1) s2 out2 m m2 m3); [| | exact F2 | exact Po3].
      * rewrite (rp_li w R lo gl ng nbg S _ m2 Rp2), (rp_li w R lo gl ng nbg S s m Rp). reflexivity.
      * rewrite (rp_lb w R lo gl ng nbg S _ m2 Rp2), (rp_lb w R lo gl ng nbg S s m Rp). reflexivity.
  - (* while: one more iteration *)
    intros d c b k s e1 out1 s1 e2 s2 e3 out3 s3 Hc Hb IHb Nb Hk IHk Hw' IHw S li st C S' st' ex p m Ev P Wf Tg Rp Hd Sc Hn.
    pose proof Ev as Ev0. pose proof P as P0. cbn [lower_stmt] in Ev.
    destruct (add_label LLoop st) as [ls st1]. destruct (add_label LContinue st1) as [lc st2]. destruct (add_label LBreak st2) as [lb st3].
    destruct (lower_branch (env_of S) c [] (goto lb) st3) as [cc st4] eqn:Ec.
    pose proof (lower_stmts_extends b S (Some (lc, lb)) st4 ltac:(rewrite (wfs_w w fb S Wf); lia)) as X1.
    destruct (lower_stmts S (Some (lc, lb)) b st4) as [[[c1 S1] st5] ex1] eqn:E1.
    pose proof (lower_stmts_extends k S li st5 ltac:(rewrite (wfs_w w fb S Wf); lia)) as X2.
    destruct (lower_stmts S li k st5) as [[[c2 S2] st6] ex2] eqn:E2.
    inversion Ev; subst C S' st' ex; clear Ev.
    cbn [app plc] in P. destruct P as [Lls P]. apply placed_app in P. destruct P as [Pcc P]. apply placed_app in P. destruct P as [Pc1 P].
    cbn [app plc] in P. destruct P as [Llc P]. apply placed_app in P. destruct P as [Pc2 P].
    cbn [goto app plc res_ins res_sym] in P. destruct P as [Gj [Gh [Llb _]]].
    pose proof Sc as Sc0. pose proof Hn as Hn0.
    cbn [sscoped need_stmt fst] in Sc, Hn. destruct Sc as [Scc [Sc1 Sc2]].
    apply need_max in Hn. destruct Hn as [Hnc Hn]. apply need_max in Hn. destruct Hn as [Hn1 Hn2]. rewrite (wfs_w w fb S Wf) in Hnc.
    destruct (cond_runs S s m c lb st3 cc st4 p Wf Rp Scc Hnc Ec Pcc) as [m1 [Rc A1]]. rewrite Hc in Rc.
    pose proof (rep_agree w R lo fb gl ng nbg Hw S s m m1 Wf Rp A1) as Rp1.
    pose proof (rp_regs w R lo gl ng nbg S s m Rp) as L. pose proof (FP_agree w R lo Hw _ m m1 L A1) as F1.
    pose proof (agree_fagree w R lo fb gl ng nbg S s m m1 Wf Rp A1) as Fa1.
    (* the body: ends at the continue label, normally or by `continue` *)
    destruct (IHb S (Some (lc, lb)) st4 c1 S1 st5 ex1 (p + size cc) m1 E1 Pc1 Wf Tg Rp1 ltac:(rewrite F1; exact Hd) Sc1 ltac:(rewrite F1; exact Hn1))
      as [m2 [pc2 [Ex [Rn [Fa2 Po]]]]].
    assert (B2 : pc2 = lab lc /\ rep S (trunc s s1) m2 /\ fagree m1 m2).
    { destruct Nb as [-> | ->]; cbn [exit_pc post frame_post] in Ex, Po, Fa2.
      - inversion Ex; subst pc2. split; [rewrite Llc; lia|]. destruct Po as [Rp2 _]. split; [|exact Fa2].
        apply (rep_shrink S S1 s s1 m2 X1 (rp_li w R lo gl ng nbg S s m Rp) (rp_lb w R lo gl ng nbg S s m Rp) Rp2).
      - inversion Ex; subst pc2. split; [reflexivity | split; [exact Po | exact Fa2]]. }
    destruct B2 as [-> [Rp2 Fa2']].
    pose proof (fagree_trans w R lo fb gl Hw Hgl m m1 m2 L Fa1 Fa2') as Fa12.
    pose proof (FP_fagree w R lo fb gl Hw Hgl m m2 L Fa12) as F2.
    (* the continuation *)
    destruct (IHk S li st5 c2 S2 st6 ex2 _ m2 E2 Pc2 Wf Tg Rp2 ltac:(rewrite F2; exact Hd) Sc2 ltac:(rewrite F2; exact Hn2))
      as [m3 [pc3 [Ex3 [Rn3 [Fa3 Po3]]]]].
    cbn [exit_pc post frame_post] in Ex3, Po3, Fa3. inversion Ex3; subst pc3. destruct Po3 as [Rp3 _].
    pose proof (rep_shrink S S2 (trunc s s1) s2 m3 X2 (rp_li w R lo gl ng nbg S _ m2 Rp2) (rp_lb w R lo gl ng nbg S _ m2 Rp2) Rp3) as Rp3'.
    assert (Et : trunc (trunc s s1) s2 = trunc s s2).
    { apply trunc_same_len; [rewrite (rp_li w R lo gl ng nbg S _ m2 Rp2), (rp_li w R lo gl ng nbg S s m Rp) | rewrite (rp_lb w R lo gl ng nbg S _ m2 Rp2), (rp_lb w R lo gl ng nbg S s m Rp)]; reflexivity. }
    rewrite Et in Rp3'.
    pose proof (fagree_trans w R lo fb gl Hw Hgl m m2 m3 L Fa12 Fa3) as Fa13.
    pose proof (FP_fagree w R lo fb gl Hw Hgl m m3 L Fa13) as F3. pose proof (ra_fagree S s m m3 Wf Rp Fa13) as Ra3.
    (* back to the loop head, and the rest of the loop by the induction hypothesis *)
    pose proof (goto_label w code cmem _ m3 (lab ls) Gj Gh) as G.
    rewrite (wrap_small w (lab ls) (lab_range ls)), Lls in G.
    destruct (IHw S li st _ S st6 false p m3 Ev0 P0 Wf Tg Rp3' ltac:(rewrite F3; exact Hd) Sc0 ltac:(rewrite F3; exact Hn0))
      as [m4 [pc4 [Ex4 [Rn4 [Fa4 Po4]]]]].
    rewrite Ra3 in Ex4.
    exists m4, pc4. split; [exact Ex4|]. split; [|split; [apply (frame_post_pre out3 m m3 m4 L Fa13 Fa4)|]].
    + rewrite !map_app.
      change (map EOut e1 ++ map EOut e2 ++ map EOut e3) with ([] ++ (map EOut e1 ++ (map EOut e2 ++ ([] ++ map EOut e3)))).
      rewrite Llc in Rn.
      eapply runs_trans; [exact Rc|]. eapply runs_trans; [exact Rn|].
      eapply runs_trans; [exact Rn3|]. eapply runs_trans; [exact G | exact Rn4].
    + apply (post_rebase S S s (trunc s s2) s3 out3 m m3 m4); [| | exact F3 | exact Po4].
      * rewrite (rp_li w R lo gl ng nbg S _ m3 Rp3'), (rp_li w R lo gl ng nbg S s m Rp). reflexivity.
      * rewrite (rp_lb w R lo gl ng nbg S _ m3 Rp3'), (rp_lb w R lo gl ng nbg S s m Rp). reflexivity.
  - (* block *)
    intros d ss s evs out s' Hx IH S li st C S' st' ex p m Ev P Wf Tg Rp Hd Sc Hn. cbn [lower_stmt] in Ev.
    pose proof (lower_stmts_extends ss S li st ltac:(rewrite (wfs_w w fb S Wf); lia)) as X1.
    destruct (lower_stmts S li ss st) as [[[c S1] st1] ex1] eqn:E1. inversion Ev; subst C S' st' ex; clear Ev.
    cbn [sscoped need_stmt fst] in Sc, Hn.
    destruct (IH S li st c S1 st1 ex1 p m E1 P Wf Tg Rp Hd Sc Hn) as [m2 [pc2 [Ex [Rn [Fa Po]]]]].
    exists m2, pc2. split; [exact Ex|]. split; [exact Rn|]. split; [exact Fa|].
    destruct (outcome_normal_dec out) as [-> | Nn]; [|apply (post_exit S S1 S s s' out m m m2 Nn eq_refl Po)].
    destruct Po as [Rp2 _]. split; [|exact Wf].
    apply (rep_shrink S S1 s s' m2 X1 (rp_li w R lo gl ng nbg S s m Rp) (rp_lb w R lo gl ng nbg S s m Rp) Rp2).
  - (* break *)
    intros d s S li st C S' st' ex p m Ev P Wf Tg Rp Hd Sc Hn. cbn [lower_stmt sscoped] in Ev, Sc.
    destruct li as [[lc lb]|]; [|discriminate Sc]. inversion Ev; subst C S' st' ex; clear Ev.
    cbn [goto plc res_ins res_sym] in P. destruct P as [Gj [Gh _]].
    pose proof (goto_label w code cmem _ m (lab lb) Gj Gh) as G. rewrite (wrap_small w (lab lb) (lab_range lb)) in G.
    exists m, (lab lb). split; [reflexivity|]. split; [exact G|]. split; [apply fagree_refl|].
    cbn [post]. rewrite trunc_self. exact Rp.
  - (* continue *)
    intros d s S li st C S' st' ex p m Ev P Wf Tg Rp Hd Sc Hn. cbn [lower_stmt sscoped] in Ev, Sc.
    destruct li as [[lc lb]|]; [|discriminate Sc]. inversion Ev; subst C S' st' ex; clear Ev.
    cbn [goto plc res_ins res_sym] in P. destruct P as [Gj [Gh _]].
    pose proof (goto_label w code cmem _ m (lab lc) Gj Gh) as G. rewrite (wrap_small w (lab lc) (lab_range lc)) in G.
    exists m, (lab lc). split; [reflexivity|]. split; [exact G|]. split; [apply fagree_refl|].
    cbn [post]. rewrite trunc_self. exact Rp.
  - (* int x = a / b *)
    intros d op a b s Nz S li st C S' st' ex p m Ev P Wf Tg Rp Hd Sc Hn. cbn [lower_stmt] in Ev.
    destruct (add_label LDivAllowed st) as [da st1]. inversion Ev; subst C S' st' ex; clear Ev.
    cbn [sscoped need_stmt fst] in Sc, Hn. destruct Sc as [Hop [Sa [Sb Hl]]].
    apply need_max in Hn. destruct Hn as [Hn1 Hn2]. rewrite (wfs_w w fb S Wf) in Hn2.
    destruct (decldiv_runs S s m op a b da p Hl Wf Rp Hop Sa Sb Hn1 Hn2 P) as [Ok _]. destruct (Ok Nz) as [m' [Rn [Rp' A]]].
    eexists m', _. fin_normal Rn (agree_fagree w R lo fb gl ng nbg S s m m' Wf Rp A). split; [exact Rp' | apply wf_push_int; exact Wf].
  - (* int x = a / 0 *)
    intros d op a b s Z0 S li st C S' st' ex p m Ev P Wf Tg Rp Hd Sc Hn. cbn [lower_stmt] in Ev.
    destruct (add_label LDivAllowed st) as [da st1]. inversion Ev; subst C S' st' ex; clear Ev.
    cbn [sscoped need_stmt fst] in Sc, Hn. destruct Sc as [Hop [Sa [Sb Hl]]].
    apply need_max in Hn. destruct Hn as [Hn1 Hn2]. rewrite (wfs_w w fb S Wf) in Hn2.
    destruct (decldiv_runs S s m op a b da p Hl Wf Rp Hop Sa Sb Hn1 Hn2 P) as [_ Fl]. destruct (Fl Z0) as [m' Rn].
    exists m', div_stub. split; [reflexivity|]. split; [exact Rn|]. split; exact I.
  - (* xi = a / b *)
    intros d i op a b s Hi Nz S li st C S' st' ex p m Ev P Wf Tg Rp Hd Sc Hn. cbn [lower_stmt] in Ev.
    destruct (add_label LDivAllowed st) as [da st1]. inversion Ev; subst C S' st' ex; clear Ev.
    cbn [sscoped need_stmt fst] in Sc, Hn. destruct Sc as [Si [Hop [Sa [Sb Hl]]]].
    destruct (assdiv_runs S s m i op a b da p Hl Wf Rp Si Hop Sa Sb Hn P) as [Ok _]. destruct (Ok Nz) as [m' [Rn [Rp' Fa]]].
    eexists m', _. fin_normal Rn Fa. split; assumption.
  - (* xi = a / 0 *)
    intros d i op a b s Z0 S li st C S' st' ex p m Ev P Wf Tg Rp Hd Sc Hn. cbn [lower_stmt] in Ev.
    destruct (add_label LDivAllowed st) as [da st1]. inversion Ev; subst C S' st' ex; clear Ev.
    cbn [sscoped need_stmt fst] in Sc, Hn. destruct Sc as [Si [Hop [Sa [Sb Hl]]]].
    destruct (assdiv_runs S s m i op a b da p Hl Wf Rp Si Hop Sa Sb Hn P) as [_ Fl]. destruct (Fl Z0) as [m' Rn].
    exists m', div_stub. split; [reflexivity|]. split; [exact Rn|]. split; exact I.
  - (* a call that returns *)
    intros d dst f args s evs v G' s' Hc IHc Hds S li st C S' st' ex p m Ev P Wf Tg Rp Hd Sc Hn. cbn [lower_stmt] in Ev.
    destruct (add_label LEndCall st) as [ec st1]. inversion Ev; subst C S' st' ex; clear Ev.
    cbn [sscoped need_stmt fst] in Sc, Hn. destruct Sc as [Sd [Cf [Sa Hl]]].
    pose proof (wfs_w w fb S Wf) as Ews. apply need_max in Hn. destruct Hn as [Hn1 Hn2]. rewrite Ews in Hn1.
    pose proof (rp_regs w R lo gl ng nbg S s m Rp) as L.
    unfold lower_call in P. apply placed_app in P. destruct P as [Pra P]. apply placed_app in P. destruct P as [Pargs P].
    apply placed_app in P. destruct P as [Pcall Pdst].
    destruct (push_ra_runs S s m ec p Wf Rp Hn1 Pra) as [Rra [Ara [Rpa Vra]]].
    set (ma := sw m (FP m - (top S + w)) (lab ec)) in *.
    pose proof (FP_agree w R lo Hw _ m ma L Ara) as Fma.
    destruct (push_args_runs args (after_ra S) s ma _ (wf_after_ra S Wf) Rpa (proj1 Sa) (proj2 Sa) ltac:(rewrite Fma; exact Hn2) Pargs) as [mb [Rargs [Ab Vargs]]].
    cbn [after_ra top] in Ab, Vargs. rewrite Ews, Fma in Ab, Vargs.
    assert (A0b : agree w R lo (FP m - top S) m mb).
    { eapply (agree_trans w R lo); [exact Ara|]. apply (agree_mono w R lo (FP m - (top S + w))); [lia | exact Ab]. }
    assert (Vrb : lw mb (FP m - top S - w) = lab ec).
    { rewrite <- Vra. apply (agree_lw w R lo Hw (FP m - (top S + w)) ma mb _ Ab); [destruct L, Rp; lia|]. unfold dj. destruct L, Rp. lia. }
    destruct (entry_mem S s m mb Wf Rp A0b) as [L1 [F1 [Sz1 G1]]]. set (m1 := sw mb fp (FP m + wrap (- top S))) in *.
    pose proof (tight_frame_top S s m Tg Rp) as Eft. pose proof (wfs_fb w fb S Wf) as Ofb.
    pose proof (need_args_ge args (after_ra S) ltac:(cbn [after_ra ws]; lia)) as Ga. cbn [after_ra top ws] in Ga. rewrite Ews in Ga.
    pose proof Hl as [Hfp [H0 [H1 [H2 [CA [BR Hap]]]]]].
    assert (Lwb : forall a, fp + w <= a -> lw m1 a = lw mb a).
    { intros a Ha. apply (lw_agree w Hw). intros x Hx. apply G1; destruct L; lia. }
    pose proof (rep_agree w R lo fb gl ng nbg Hw S s m mb Wf Rp A0b) as Rpb.
    assert (Grb : greps (gs_of s) m1) by (apply greps_setfp; [apply (rp_regs w R lo gl ng nbg S s mb Rpb) | apply (rep_greps S s mb Rpb)]).
    destruct (IHc m1 Hl ltac:(rewrite map_length; exact Cf) L1 ltac:(rewrite F1, Eft, Hd; lia)
                ltac:(rewrite F1; destruct Rp; lia) ltac:(rewrite F1, Sz1, (proj1 A0b); destruct Rp; lia)) as [m2 Res].
    { intros Ap. replace (lw m1 (a_ap R)) with (lw mb (a_ap R)).
      - rewrite (ap_agree w R lo Hw _ m mb Ap A0b). apply (rp_ap w R lo gl ng nbg S s m Rp Ap).
      - symmetry. apply (lw_agree w Hw). intros x Hx. apply G1; rewrite Hap, Hfp in *; lia. }
    { intros k Hk. rewrite map_length in Hk. rewrite F1. specialize (Vargs k Hk).
      change 0 with (ieval w s (OLit false 0)). rewrite map_nth. rewrite <- Vargs. f_equal. rewrite Lwb by (rewrite Hfp; destruct L, Rp; nia).
      f_equal. lia. }
    { rewrite F1. pose proof (rp_gl w R lo gl ng nbg S s m Rp). lia. }
    { exact Grb. }
    { apply (rep_glayout S s m Rp). }
    destruct Res as [Rc [A2 [Vr Gr]]]. rewrite F1 in Rc, A2, Vr.
    destruct (user_call_runs S s m mb ec f _ evs (fun x => match v with Some xv => sgn x = xv | None => True end) (fun mm => greps G' mm /\ regs_ok w R lo mm)
                Wf Rp A0b Hn1 Vrb Pcall) as [m3 [Rcall [A3 [Q3 [m2' [[Gr2 L2'] [E3 _]]]]]]].
    { exists m2. split; [exact Rc|]. split; [exact A2|]. split; [exact Vr|]. split; [exact Gr|].
      apply (regs_ok_gagree w R lo gl Hw Hgl _ m1 m2 L1 A2). }
    assert (Gr3 : greps G' m3) by (rewrite E3; apply greps_setfp; assumption).
    assert (Rpre : runs (mk p m) (map EOut evs) (mk (p + size [push_ra S ec] + size (push_args (after_ra S) args) + size (call_seq S ec f)) m3)).
    { change (map EOut evs) with ([] ++ ([] ++ map EOut evs)). eapply runs_trans; [exact Rra|]. eapply runs_trans; [|exact Rcall].
      cbn [size]. replace (p + (1 + 0)) with (p + 1) by lia. exact Rargs. }
    pose proof (rep_of_gagree S s m m3 G' Wf Rp A3 Gr3) as Rp3.
    assert (Fa3 : fagree m m3) by (apply (gagree_mono w R lo gl (FP m - top S)); [lia | exact A3]).
    pose proof (FP_fagree w R lo fb gl Hw Hgl m m3 L Fa3) as F3.
    destruct dst as [| |i|g]; cbn [dest_store] in Hds.
    + (* f(args); *) subst s'. eexists m3, _. split; [reflexivity|]. split; [|split; [exact Fa3|split; assumption]].
      unfold lower_call. rewrite ?size_app. cbn [size push_ra]. cbn [size push_ra] in Rpre.
      match goal with |- HidV.Sphinx.Halts.runs _ _ _ (mk ?x _) =>
        match type of Rpre with HidV.Sphinx.Halts.runs _ _ _ (mk ?y _) => replace x with y by lia end end. exact Rpre.
    + (* int x = f(args); *) destruct Hds as [x [-> ->]].
      eexists m3, _. split; [reflexivity|]. split; [|split; [exact Fa3|split; [|apply wf_push_int; exact Wf]]].
      * unfold lower_call. rewrite ?size_app. cbn [size push_ra]. cbn [size push_ra] in Rpre.
        match goal with |- HidV.Sphinx.Halts.runs _ _ _ (mk ?x _) =>
          match type of Rpre with HidV.Sphinx.Halts.runs _ _ _ (mk ?y _) => replace x with y by lia end end. exact Rpre.
      * apply (rep_push_int S (with_g s G') m3 m3 x Wf Rp3 (agree_refl w R lo _ m3) ltac:(rewrite F3; exact Hn1)).
        rewrite F3. replace (FP m - (top S + w)) with (FP m - top S - w) by lia. exact Q3.
    + (* xi = f(args); *) destruct Hds as [x [-> [Hi ->]]].
      destruct (fetch_result_runs S (with_g s G') m3 i x _ Wf Rp3 Sd ltac:(rewrite F3; exact Hn1)
                  ltac:(rewrite F3; replace (FP m - (top S + w)) with (FP m - top S - w) by lia; exact Q3) Pdst) as [m5 [R5 [Rp5 Fa5]]].
      eexists m5, _. split; [reflexivity|]. split; [|split; [|split; assumption]].
      * rewrite <- (app_nil_r (map EOut evs)). eapply runs_trans; [exact Rpre|].
        unfold lower_call. rewrite ?size_app. cbn [size push_ra]. cbn [size push_ra] in R5. close_with R5.
      * apply (fagree_trans w R lo fb gl Hw Hgl m m3 m5 L); [exact Fa3 | exact Fa5].
    + (* g = f(args); *) destruct Hds as [x [-> [Hi ->]]].
      destruct (fetch_result_glob_runs S (with_g s G') m3 g x _ Wf Rp3 Sd ltac:(rewrite F3; exact Hn1)
                  ltac:(rewrite F3; replace (FP m - (top S + w)) with (FP m - top S - w) by lia; exact Q3) Pdst) as [m5 [R5 [Rp5 Fa5]]].
      eexists m5, _. split; [reflexivity|]. split; [|split; [|split; assumption]].
      * rewrite <- (app_nil_r (map EOut evs)). eapply runs_trans; [exact Rpre|].
        unfold lower_call. rewrite ?size_app. cbn [size push_ra]. cbn [size push_ra] in R5. close_with R5.
      * apply (fagree_trans w R lo fb gl Hw Hgl m m3 m5 L); [exact Fa3 | exact Fa5].
  - (* a call that faults *)
    intros d dst f args s evs ft Hc IHc S li st C S' st' ex p m Ev P Wf Tg Rp Hd Sc Hn. cbn [lower_stmt] in Ev.
    destruct (add_label LEndCall st) as [ec st1]. inversion Ev; subst C S' st' ex; clear Ev.
    cbn [sscoped need_stmt fst] in Sc, Hn. destruct Sc as [Sd [Cf [Sa Hl]]].
    pose proof (wfs_w w fb S Wf) as Ews. apply need_max in Hn. destruct Hn as [Hn1 Hn2]. rewrite Ews in Hn1.
    pose proof (rp_regs w R lo gl ng nbg S s m Rp) as L.
    unfold lower_call in P. apply placed_app in P. destruct P as [Pra P]. apply placed_app in P. destruct P as [Pargs P].
    apply placed_app in P. destruct P as [Pcall Pdst].
    destruct (push_ra_runs S s m ec p Wf Rp Hn1 Pra) as [Rra [Ara [Rpa Vra]]].
    set (ma := sw m (FP m - (top S + w)) (lab ec)) in *.
    pose proof (FP_agree w R lo Hw _ m ma L Ara) as Fma.
    destruct (push_args_runs args (after_ra S) s ma _ (wf_after_ra S Wf) Rpa (proj1 Sa) (proj2 Sa) ltac:(rewrite Fma; exact Hn2) Pargs) as [mb [Rargs [Ab Vargs]]].
    cbn [after_ra top] in Ab, Vargs. rewrite Ews, Fma in Ab, Vargs.
    assert (A0b : agree w R lo (FP m - top S) m mb).
    { eapply (agree_trans w R lo); [exact Ara|]. apply (agree_mono w R lo (FP m - (top S + w))); [lia | exact Ab]. }
    destruct (entry_mem S s m mb Wf Rp A0b) as [L1 [F1 [Sz1 G1]]]. set (m1 := sw mb fp (FP m + wrap (- top S))) in *.
    pose proof (tight_frame_top S s m Tg Rp) as Eft. pose proof (wfs_fb w fb S Wf) as Ofb.
    pose proof (need_args_ge args (after_ra S) ltac:(cbn [after_ra ws]; lia)) as Ga. cbn [after_ra top ws] in Ga. rewrite Ews in Ga.
    pose proof Hl as [Hfp [H0 [H1 [H2 [CA [BR Hap]]]]]].
    assert (Lwb : forall a, fp + w <= a -> lw m1 a = lw mb a).
    { intros a Ha. apply (lw_agree w Hw). intros x Hx. apply G1; destruct L; lia. }
    pose proof (rep_agree w R lo fb gl ng nbg Hw S s m mb Wf Rp A0b) as Rpb.
    assert (Grb : greps (gs_of s) m1) by (apply greps_setfp; [apply (rp_regs w R lo gl ng nbg S s mb Rpb) | apply (rep_greps S s mb Rpb)]).
    destruct (IHc m1 Hl ltac:(rewrite map_length; exact Cf) L1 ltac:(rewrite F1, Eft, Hd; lia)
                ltac:(rewrite F1; destruct Rp; lia) ltac:(rewrite F1, Sz1, (proj1 A0b); destruct Rp; lia)) as [m2 Res].
    { intros Ap. replace (lw m1 (a_ap R)) with (lw mb (a_ap R)).
      - rewrite (ap_agree w R lo Hw _ m mb Ap A0b). apply (rp_ap w R lo gl ng nbg S s m Rp Ap).
      - symmetry. apply (lw_agree w Hw). intros x Hx. apply G1; rewrite Hap, Hfp in *; lia. }
    { intros k Hk. rewrite map_length in Hk. rewrite F1. specialize (Vargs k Hk).
      change 0 with (ieval w s (OLit false 0)). rewrite map_nth. rewrite <- Vargs. f_equal. rewrite Lwb by (rewrite Hfp; destruct L, Rp; nia).
      f_equal. lia. }
    { rewrite F1. pose proof (rp_gl w R lo gl ng nbg S s m Rp). lia. }
    { exact Grb. }
    { apply (rep_glayout S s m Rp). }
    exists m2, (a_lib R + fault_off ft). split; [reflexivity|]. split; [|split; exact I].
    change (map EOut evs) with ([] ++ ([] ++ ([] ++ map EOut evs))). eapply runs_trans; [exact Rra|].
    eapply runs_trans; [cbn [size]; replace (p + (1 + 0)) with (p + 1) by lia; exact Rargs|].
    eapply runs_trans; [apply (call_enter S s m mb ec f _ Wf Rp A0b Pcall) | exact Res].
  - (* g = o *)
    intros d g o s Hg S li st C S' st' ex p m Ev P Wf Tg Rp Hd Sc Hn. cbn [lower_stmt] in Ev. inversion Ev; subst C S' st' ex; clear Ev.
    cbn [sscoped need_stmt fst] in Sc, Hn. destruct Sc as [Sg So].
    destruct (assign_glob_runs_gen S s m g o p Wf Rp Sg So Hn P) as [m' [Rn [Rp' Fa]]].
    eexists m', _. fin_normal Rn Fa. split; assumption.
  - (* g = a / b *)
    intros d g op a b s Hg Nz S li st C S' st' ex p m Ev P Wf Tg Rp Hd Sc Hn. cbn [lower_stmt] in Ev.
    destruct (add_label LDivAllowed st) as [da st1]. inversion Ev; subst C S' st' ex; clear Ev.
    cbn [sscoped need_stmt fst] in Sc, Hn. destruct Sc as [Sg [Hop [Sa [Sb Hl]]]].
    destruct (assign_glob_div_runs S s m g op a b da p Hl Wf Rp Sg Hop Sa Sb Hn P) as [Ok _]. destruct (Ok Nz) as [m' [Rn [Rp' Fa]]].
    eexists m', _. fin_normal Rn Fa. split; assumption.
  - (* g = a / 0 *)
    intros d g op a b s Z0 S li st C S' st' ex p m Ev P Wf Tg Rp Hd Sc Hn. cbn [lower_stmt] in Ev.
    destruct (add_label LDivAllowed st) as [da st1]. inversion Ev; subst C S' st' ex; clear Ev.
    cbn [sscoped need_stmt fst] in Sc, Hn. destruct Sc as [Sg [Hop [Sa [Sb Hl]]]].
    destruct (assign_glob_div_runs S s m g op a b da p Hl Wf Rp Sg Hop Sa Sb Hn P) as [_ Fl]. destruct (Fl Z0) as [m' Rn].
    exists m', div_stub. split; [reflexivity|]. split; [exact Rn|]. split; exact I.
  - (* h = e, bool global *)
    intros d h e s Hh S li st C S' st' ex p m Ev P Wf Tg Rp Hd Sc Hn. cbn [lower_stmt] in Ev.
    destruct (assign_bglob (env_of S) h e st) as [c0 st0] eqn:E0. inversion Ev; subst C S' st' ex; clear Ev.
    cbn [sscoped need_stmt fst] in Sc, Hn. destruct Sc as [Sg So]. rewrite (wfs_w w fb S Wf) in Hn.
    destruct (assign_bglob_runs S s m h e st c0 st0 p Wf Rp Sg So Hn E0 P) as [m' [Rn [Rp' Fa]]].
    eexists m', _. fin_normal Rn Fa. split; assumption.
  - (* return; *)
    intros d s S li st C S' st' ex p m Ev P Wf Tg Rp Hd Sc Hn. cbn [lower_stmt] in Ev. inversion Ev; subst C S' st' ex; clear Ev.
    destruct (return_runs S s m None p Wf Rp I P) as [m' [Rn [A _]]].
    pose proof (rp_regs w R lo gl ng nbg S s m Rp) as L.
    exists m', (lw m (FP m - w)). split; [reflexivity|]. split; [exact Rn|]. split; [apply (agree_gagree w R lo gl); exact A|].
    split; [exact I|]. apply (greps_agree S s m m' _ Rp A). lia.
  - (* return o; *)
    intros d o s S li st C S' st' ex p m Ev P Wf Tg Rp Hd Sc Hn. cbn [lower_stmt] in Ev. inversion Ev; subst C S' st' ex; clear Ev.
    cbn [sscoped need_stmt fst] in Sc, Hn.
    destruct (return_runs S s m (Some o) p Wf Rp (conj Sc Hn) P) as [m' [Rn [A V]]].
    exists m', (lw m (FP m - w)). split; [reflexivity|]. split; [exact Rn|]. split; [apply (agree_gagree w R lo gl); exact A|].
    split; [exact V|]. apply (greps_agree S s m m' _ Rp A). lia.
  - (* the empty list *)
    intros d s S li st C S' st' ex p m Ev P Wf Tg Rp Hd Sc Hn. cbn [lower_stmts] in Ev. inversion Ev; subst C S' st' ex; clear Ev.
    exists m, (p + size []). split; [reflexivity|]. cbn [size map]. replace (p + 0) with p by lia.
    split; [apply runs_refl|]. split; [apply fagree_refl|]. split; assumption.
  - (* s; rest -- s completes *)
    intros d s r s0 e1 s1 e2 out s2 H1 IH1 H2 IH2 S li st C S' st' ex p m Ev P Wf Tg Rp Hd Sc Hn. cbn [lower_stmts] in Ev.
    pose proof (lower_stmt_env S li s st) as Ee. pose proof (lower_stmt_exited S li s st) as Eex.
    destruct (lower_stmt S li s st) as [[[c S1] st1] ex1] eqn:E1.
    assert (Nex : ex1 = false).
    { destruct ex1; [|reflexivity]. specialize (Eex eq_refl). destruct s; try discriminate Eex; inversion H1. }
    subst ex1. destruct (lower_stmts S1 li r st1) as [[[cr S2] st2] ex2] eqn:E2. inversion Ev; subst C S' st' ex; clear Ev.
    apply placed_app in P. destruct P as [Pc Pr].
    cbn [ssscoped need_stmts] in Sc, Hn. destruct Sc as [Scs Scr].
    pose proof (tight_step S s Wf Tg) as Tg1.
    destruct (need_stmt S s) as [n S1'] eqn:En. cbn [snd] in Ee, Tg1. subst S1'. apply need_max in Hn. destruct Hn as [Hns Hnr].
    destruct (IH1 S li st c S1 st1 false p m E1 Pc Wf Tg Rp Hd Scs ltac:(rewrite En; exact Hns)) as [m1 [pc1 [Ex1 [Rn1 [Fa1 Po1]]]]].
    cbn [exit_pc post frame_post] in Ex1, Po1, Fa1. inversion Ex1; subst pc1. destruct Po1 as [Rp1 Wf1].
    pose proof (rp_regs w R lo gl ng nbg S s0 m Rp) as L. pose proof (FP_fagree w R lo fb gl Hw Hgl m m1 L Fa1) as F1.
    pose proof (ra_fagree S s0 m m1 Wf Rp Fa1) as Ra1.
    assert (X1 : extends S S1).
    { pose proof (need_stmt_extends S s ltac:(rewrite (wfs_w w fb S Wf); lia)) as X. rewrite En in X. exact X. }
    assert (Scr' : ssscoped w ng nbg lib_hyps cf (length (ioffs S1)) (length (boffs S1)) (in_loop li) r).
    { assert (Es : S1 = snd (need_stmt S s)) by (rewrite En; reflexivity).
      destruct s as [o|i o|e|j e|x| |ln o|ln e|c0 t1 t2|c0 b k|ss| | |op a b|i op a b|dst f args|rv|gg og|gg gop ga gb|hh eh]; try destruct x; try destruct dst; try destruct rv;
        cbn [need_stmt need_bool_decl snd] in Es; subst S1;
        cbn [push_int push_bool ioffs boffs]; rewrite ?app_length; cbn [length]; rewrite ?Nat.add_1_r; exact Scr. }
    destruct (IH2 S1 li st1 cr S2 st2 ex2 (p + size c) m1 E2 Pr Wf1 Tg1 Rp1 ltac:(rewrite F1; exact Hd) Scr' ltac:(rewrite F1; exact Hnr))
      as [m2 [pc2 [Ex2 [Rn2 [Fa2 Po2]]]]].
    rewrite Ra1 in Ex2.
    exists m2, pc2. split; [|split; [|split; [apply (frame_post_pre out m m1 m2 L Fa1 Fa2)|]]].
    + rewrite <- Ex2. rewrite size_app. replace (p + (size c + size cr)) with (p + size c + size cr) by lia. reflexivity.
    + rewrite map_app. eapply runs_trans; [exact Rn1 | exact Rn2].
    + destruct out; cbn [post] in Po2 |- *; try exact Po2; try exact I.
      * pose proof (rep_shrink S S1 s0 _ m2 X1 (rp_li w R lo gl ng nbg S s0 m Rp) (rp_lb w R lo gl ng nbg S s0 m Rp) Po2) as Rs.
        destruct (rep_len_le S S1 s0 s1 m m1 X1 Rp Rp1) as [La Lb]. rewrite (trunc_trunc s0 s1 s2 La Lb) in Rs. exact Rs.
      * pose proof (rep_shrink S S1 s0 _ m2 X1 (rp_li w R lo gl ng nbg S s0 m Rp) (rp_lb w R lo gl ng nbg S s0 m Rp) Po2) as Rs.
        destruct (rep_len_le S S1 s0 s1 m m1 X1 Rp Rp1) as [La Lb]. rewrite (trunc_trunc s0 s1 s2 La Lb) in Rs. exact Rs.
      * rewrite <- F1. exact Po2.
  - (* s; rest -- s does not complete: the rest is skipped *)
    intros d s r s0 e1 out s1 H1 IH1 Nn S li st C S' st' ex p m Ev P Wf Tg Rp Hd Sc Hn. cbn [lower_stmts] in Ev.
    pose proof (lower_stmt_env S li s st) as Ee.
    destruct (lower_stmt S li s st) as [[[c S1] st1] ex1] eqn:E1.
    cbn [ssscoped need_stmts] in Sc, Hn. destruct Sc as [Scs _].
    destruct (need_stmt S s) as [n S1'] eqn:En. apply need_max in Hn. destruct Hn as [Hns _].
    assert (Pc : plc c p /\ (forall e ra, exit_pc li out e ra = exit_pc li out (p + size c) ra)) by (split; [|intros; apply exit_pc_exit; exact Nn];
      destruct ex1; [inversion Ev; subst; exact P | destruct (lower_stmts S1 li r st1) as [[[cr S2] st2] ex2]; inversion Ev; subst; apply placed_app in P; tauto]).
    destruct Pc as [Pc Xe].
    destruct (IH1 S li st c S1 st1 ex1 p m E1 Pc Wf Tg Rp Hd Scs ltac:(rewrite En; exact Hns)) as [m1 [pc1 [Ex1 [Rn1 [Fa1 Po1]]]]].
    exists m1, pc1. split; [rewrite Xe; exact Ex1|]. split; [exact Rn1|]. split; [exact Fa1|].
    destruct out; try exact Po1. exfalso; apply Nn; reflexivity.
  - (* a call whose entry guard fails *)
    intros d f vs G fd Hfd Hlt m Hl Cf L Hd Hh Hs Hap Hv Hfg Hgr Hgd.
    destruct (cf_ok f _ Cf) as [fd' [st [Hfd' [Hnp [Hnd [Pf Scf]]]]]]. rewrite Hfd in Hfd'. inversion Hfd'; subst fd'; clear Hfd'.
    unfold lower_fun in Pf. destruct (add_label LNoOverflow st) as [no st1].
    destruct (lower_stmts (is_you_senv w (fn_params fd)) None (fn_body fd) st1) as [[[c S1] st2] ex1] eqn:El.
    cbn [fst app placed res_ins res_sym regaddr] in Pf. destruct Pf as [Lf [Cj [Csub [Chc [Cso [Chalt [Lno Pc]]]]]]].
    set (pf := lab (func_label f)) in *.
    pose proof Hl as [Hfp [H0 [H1 [H2 [CA [BR Hapz]]]]]].
    specialize (Hap (lib_ap_sep m Hl L)).
    destruct (stub_not_halts off_stack_overflow (sw m r1 (lw m fp - lw m (a_ap R))) Hl (or_intror eq_refl)) as [Nh Ws].
    assert (Iap : inb m (a_ap R) w = true) by (apply inb_true; destruct L; rewrite Hapz, Hfp in *; lia).
    destruct (entry_guard_idiom w Hw code cmem pf m (Imm (lab no)) (Imm (a_lib R + off_stack_overflow)) (a_lib R + off_stack_overflow)
                r1 fp (a_ap R) (fun_need w fd) Cj ltac:(rewrite (oval_lab w cmem lab lab_range), Lno; f_equal; lia)
                Csub ltac:(replace (pf + 2) with (pf + 1 + 1) by lia; exact Chc) ltac:(replace (pf + 3) with (pf + 1 + 1 + 1) by lia; exact Cso)
                ltac:(replace (pf + 4) with (pf + 1 + 1 + 1 + 1) by lia; exact Chalt)
                (lo_r1 w R lo m L) (lo_i1 w R lo m L) (lo_if w R lo m L) Iap ltac:(rewrite oval_imm, Ws; reflexivity)) as [_ [Gf _]].
    assert (HW : W / 2 < W) by (pose proof (W_even w Hw1); pose proof (half_pos w Hw1); lia).
    fold (FP m) in Gf. rewrite Hap in Gf. rewrite (wrap_small w (FP m - lo)), (wrap_small w (fun_need w fd)) in Gf by (unfold inrange; lia).
    destruct (Gf ltac:(lia) (proj1 (stub_not_halts off_stack_overflow _ Hl (or_intror eq_refl)))) as [Rg _]. eexists. exact Rg.
  - (* a call that returns *)
    intros d f vs G fd evs v s1 Hfd Hge Hb IHb m Hl Cf L Hd Hh Hs Hap Hv Hfg Hgr Hgd.
    destruct (cf_ok f _ Cf) as [fd' [st [Hfd' [Hnp [Hnd [Pf Scf]]]]]]. rewrite Hfd in Hfd'. inversion Hfd'; subst fd'; clear Hfd'.
    unfold lower_fun in Pf. destruct (add_label LNoOverflow st) as [no st1].
    destruct (lower_stmts (is_you_senv w (fn_params fd)) None (fn_body fd) st1) as [[[c S1] st2] ex1] eqn:El.
    cbn [fst app placed res_ins res_sym regaddr] in Pf. destruct Pf as [Lf [Cj [Csub [Chc [Cso [Chalt [Lno Pc]]]]]]].
    set (pf := lab (func_label f)) in *.
    pose proof Hl as [Hfp [H0 [H1 [H2 [CA [BR Hapz]]]]]].
    pose proof (Hap (lib_ap_sep m Hl L)) as Hap'.
    destruct (stub_not_halts off_stack_overflow (sw m r1 (lw m fp - lw m (a_ap R))) Hl (or_intror eq_refl)) as [Nh Ws].
    assert (Iap : inb m (a_ap R) w = true) by (apply inb_true; destruct L; rewrite Hapz, Hfp in *; lia).
    destruct (entry_guard_idiom w Hw code cmem pf m (Imm (lab no)) (Imm (a_lib R + off_stack_overflow)) (a_lib R + off_stack_overflow)
                r1 fp (a_ap R) (fun_need w fd) Cj ltac:(rewrite (oval_lab w cmem lab lab_range), Lno; f_equal; lia)
                Csub ltac:(replace (pf + 2) with (pf + 1 + 1) by lia; exact Chc) ltac:(replace (pf + 3) with (pf + 1 + 1 + 1) by lia; exact Cso)
                ltac:(replace (pf + 4) with (pf + 1 + 1 + 1 + 1) by lia; exact Chalt)
                (lo_r1 w R lo m L) (lo_i1 w R lo m L) (lo_if w R lo m L) Iap ltac:(rewrite oval_imm, Ws; reflexivity)) as [Gp _].
    assert (HW : W / 2 < W) by (pose proof (W_even w Hw1); pose proof (half_pos w Hw1); lia).
    fold (FP m) in Gp. rewrite Hap' in Gp. rewrite (wrap_small w (FP m - lo)), (wrap_small w (fun_need w fd)) in Gp by (unfold inrange; lia).
    specialize (Gp ltac:(lia)).
    set (Sf := is_you_senv w (fn_params fd)) in *.
    assert (Ht : top Sf <= fun_need w fd) by (apply need_stmts_ge_top; cbn [Sf is_you_senv ws]; lia).
    cbn [Sf is_you_senv top] in Ht.
    assert (Lio : length (ioffs Sf) = fn_params fd) by (cbn [Sf is_you_senv ioffs]; now rewrite map_length, seq_length).
    assert (E5 : pf + 1 + 1 + 1 + 1 + 1 = pf + 5) by lia. pose proof Pc as Pc'. rewrite E5 in Pc'.
    destruct (IHb Sf None st1 c S1 st2 ex1 (pf + 5) m El Pc'
                (wf_fun_senv _) (tight_fun_senv _) (rep_fun_entry _ vs G m (eq_sym Hnp) L ltac:(lia) Hh Hs Hap ltac:(rewrite Hnp; exact Hv) Hfg Hgr Hgd) Hd
                ltac:(rewrite Lio, Hnp; exact Scf) ltac:(unfold fun_need in Hge; fold Sf in Hge; lia)) as [m' [pc' [Ex [Rn [Fa Po]]]]].
    cbn [exit_pc frame_post post] in Ex, Fa, Po. inversion Ex; subst pc'.
    exists m'. split; [|split; [exact Fa | exact Po]].
    change (map EOut evs) with ([] ++ map EOut evs). eapply runs_trans; [exact Gp | exact Rn].
  - (* a call that faults inside *)
    intros d f vs G fd evs ft s1 Hfd Hge Hb IHb m Hl Cf L Hd Hh Hs Hap Hv Hfg Hgr Hgd.
    destruct (cf_ok f _ Cf) as [fd' [st [Hfd' [Hnp [Hnd [Pf Scf]]]]]]. rewrite Hfd in Hfd'. inversion Hfd'; subst fd'; clear Hfd'.
    unfold lower_fun in Pf. destruct (add_label LNoOverflow st) as [no st1].
    destruct (lower_stmts (is_you_senv w (fn_params fd)) None (fn_body fd) st1) as [[[c S1] st2] ex1] eqn:El.
    cbn [fst app placed res_ins res_sym regaddr] in Pf. destruct Pf as [Lf [Cj [Csub [Chc [Cso [Chalt [Lno Pc]]]]]]].
    set (pf := lab (func_label f)) in *.
    pose proof Hl as [Hfp [H0 [H1 [H2 [CA [BR Hapz]]]]]].
    pose proof (Hap (lib_ap_sep m Hl L)) as Hap'.
    destruct (stub_not_halts off_stack_overflow (sw m r1 (lw m fp - lw m (a_ap R))) Hl (or_intror eq_refl)) as [Nh Ws].
    assert (Iap : inb m (a_ap R) w = true) by (apply inb_true; destruct L; rewrite Hapz, Hfp in *; lia).
    destruct (entry_guard_idiom w Hw code cmem pf m (Imm (lab no)) (Imm (a_lib R + off_stack_overflow)) (a_lib R + off_stack_overflow)
                r1 fp (a_ap R) (fun_need w fd) Cj ltac:(rewrite (oval_lab w cmem lab lab_range), Lno; f_equal; lia)
                Csub ltac:(replace (pf + 2) with (pf + 1 + 1) by lia; exact Chc) ltac:(replace (pf + 3) with (pf + 1 + 1 + 1) by lia; exact Cso)
                ltac:(replace (pf + 4) with (pf + 1 + 1 + 1 + 1) by lia; exact Chalt)
                (lo_r1 w R lo m L) (lo_i1 w R lo m L) (lo_if w R lo m L) Iap ltac:(rewrite oval_imm, Ws; reflexivity)) as [Gp _].
    assert (HW : W / 2 < W) by (pose proof (W_even w Hw1); pose proof (half_pos w Hw1); lia).
    fold (FP m) in Gp. rewrite Hap' in Gp. rewrite (wrap_small w (FP m - lo)), (wrap_small w (fun_need w fd)) in Gp by (unfold inrange; lia).
    specialize (Gp ltac:(lia)).
    set (Sf := is_you_senv w (fn_params fd)) in *.
    assert (Ht : top Sf <= fun_need w fd) by (apply need_stmts_ge_top; cbn [Sf is_you_senv ws]; lia).
    cbn [Sf is_you_senv top] in Ht.
    assert (Lio : length (ioffs Sf) = fn_params fd) by (cbn [Sf is_you_senv ioffs]; now rewrite map_length, seq_length).
    assert (E5 : pf + 1 + 1 + 1 + 1 + 1 = pf + 5) by lia. pose proof Pc as Pc'. rewrite E5 in Pc'.
    destruct (IHb Sf None st1 c S1 st2 ex1 (pf + 5) m El Pc'
                (wf_fun_senv _) (tight_fun_senv _) (rep_fun_entry _ vs G m (eq_sym Hnp) L ltac:(lia) Hh Hs Hap ltac:(rewrite Hnp; exact Hv) Hfg Hgr Hgd) Hd
                ltac:(rewrite Lio, Hnp; exact Scf) ltac:(unfold fun_need in Hge; fold Sf in Hge; lia)) as [m' [pc' [Ex [Rn [Fa Po]]]]].
    cbn [exit_pc] in Ex. inversion Ex; subst pc'.
    exists m'. change (map EOut evs) with ([] ++ map EOut evs). eapply runs_trans; [exact Gp | exact Rn].
Qed.
End Stmt.

(* ================================================================================= *)
(* 6  labels, resolved code, whole bodies                                              *)
(* ================================================================================= *)
(* ---------- the labels a statement list defines are fresh and defined once ---------- *)
Definition block := (lstate * lstate * list label)%type.
Definition blk_ok (b : block) : Prop := let '(a, c, l) := b in Forall (between a c) l /\ NoDup l.
Definition blk_sep (b1 b2 : block) : Prop :=
  let '(a1, c1, _) := b1 in let '(a2, c2, _) := b2 in st_le c1 a2 \/ st_le c2 a1.
Definition blk_labels (b : block) : list label := snd b.
Lemma blocks_nodup bs : Forall blk_ok bs -> ForallOrdPairs blk_sep bs -> NoDup (flat_map blk_labels bs).
Proof.
  induction bs as [|[[a c] l] r IH]; intros Ok Sep; cbn [flat_map]; [constructor|].
  inversion Ok as [|? ? Hb Okr]; subst. cbn [blk_ok] in Hb. destruct Hb as [Fl Dl]. inversion Sep as [|? ? Sa Sr]; subst.
  apply NoDup_app_intro; [exact Dl | apply IH; assumption|].
  intros x I1 I2. cbn [blk_labels snd] in I1. apply in_flat_map in I2. destruct I2 as [[[a2 c2] l2] [Ib Ix]].
  rewrite Forall_forall in Sa, Okr, Fl. specialize (Sa _ Ib). specialize (Okr _ Ib). cbn [blk_ok] in Okr. destruct Okr as [Fl2 _].
  rewrite Forall_forall in Fl2. cbn [blk_labels snd] in Ix. specialize (Fl _ I1). specialize (Fl2 _ Ix).
  cbn [blk_sep] in Sa. unfold between in *. destruct Sa as [Sa|Sa]; specialize (Sa (fst x)); lia.
Qed.
Lemma blocks_between a c bs : Forall blk_ok bs ->
  Forall (fun b => let '(a1, c1, _) := b in st_le a a1 /\ st_le c1 c) bs -> Forall (between a c) (flat_map blk_labels bs).
Proof.
  induction bs as [|[[a1 c1] l] r IH]; intros Ok In; cbn [flat_map]; [constructor|].
  inversion Ok as [|? ? Hb Okr]; subst. cbn [blk_ok] in Hb. destruct Hb as [Fl _]. inversion In as [|? ? Hi Inr]; subst. destruct Hi as [I1 I2].
  apply Forall_app. split; [|apply IH; assumption].
  cbn [blk_labels snd]. eapply Forall_impl; [|exact Fl]. intros x. apply between_weaken; assumption.
Qed.
Lemma single_blk nm st : blk_ok (st, snd (add_label nm st), [fst (add_label nm st)]).
Proof. split; [constructor; [apply add_label_between | constructor] | constructor; [intros [] | constructor]]. Qed.

Lemma decl_int_nolabels S o : deflabels (decl_int S o) = [].
Proof.
  assert (G : deflabels (decl_int_gen S o) = []).
  { unfold decl_int_gen. pose proof (eval_opd_nolabels (env_of S) o (top S) R1 true) as H.
    destruct (eval_opd (env_of S) (top S) R1 o true) as [c0 bub]. cbn [fst] in H.
    pose proof (pop_value_nolabels R1 bub) as P. destruct (pop_value R1 bub) as [c1 v]. cbn [fst] in P.
    destruct bub; defl; rewrite ?H, ?P; reflexivity. }
  destruct o; try exact G; reflexivity.
Qed.
Lemma assign_int_nolabels S i o : deflabels (assign_int S i o) = [].
Proof.
  unfold assign_int. pose proof (eval_opd_nolabels (env_of S) o (top S) R1 false) as H.
  destruct (eval_opd (env_of S) (top S) R1 o false) as [c0 bub]. cbn [fst] in H.
  pose proof (pop_value_nolabels R1 bub) as P. destruct (pop_value R1 bub) as [c1 v]. cbn [fst] in P.
  defl. rewrite H, P. reflexivity.
Qed.
Lemma lower_write_nolabels S x : deflabels (lower_write S x) = [].
Proof.
  destruct x as [z|c|o]; try reflexivity. cbn [lower_write].
  pose proof (eval_opd_nolabels (env_of S) o (top S) R1 false) as H.
  destruct (eval_opd (env_of S) (top S) R1 o false) as [c0 bub]. cbn [fst] in H.
  destruct bub; defl; rewrite H; reflexivity.
Qed.
Lemma eval_div_labels E top r op a b keep da : deflabels (fst (eval_div E top r op a b keep da)) = [da].
Proof.
  unfold eval_div. pose proof (compare_operands_nolabels (with_top E top) a b) as H.
  destruct (compare_operands (with_top E top) a b) as [[c lhs] rhs]. cbn [fst] in H.
  unfold finish_opd. destruct keep; cbn [fst]; unfold div_guard; defl; rewrite H; reflexivity.
Qed.
Lemma push_args_nolabels args : forall S, deflabels (push_args S args) = [].
Proof. induction args as [|o r IH]; intros S; cbn [push_args]; [reflexivity|]. defl. rewrite decl_int_nolabels, IH. reflexivity. Qed.
Lemma assign_glob_nolabels S g o : deflabels (assign_glob S g o) = [].
Proof.
  unfold assign_glob. pose proof (eval_opd_nolabels (env_of S) o (top S) (RGlob g) false) as H.
  destruct (eval_opd (env_of S) (top S) (RGlob g) o false) as [c0 bub]. cbn [fst] in H.
  pose proof (pop_value_nolabels (RGlob g) bub) as P. destruct (pop_value (RGlob g) bub) as [c1 v]. cbn [fst] in P.
  defl. rewrite H, P. destruct (is_state_of (RGlob g) v); reflexivity.
Qed.
Lemma lower_return_nolabels S r : deflabels (lower_return S r) = [].
Proof.
  destruct r as [o|]; [|reflexivity]. cbn [lower_return].
  pose proof (eval_opd_nolabels (env_of S) o (top S) R0 false) as H.
  destruct (eval_opd (env_of S) (top S) R0 o false) as [c0 bub]. cbn [fst] in H.
  pose proof (pop_value_nolabels R0 bub) as P. destruct (pop_value R0 bub) as [c1 v]. cbn [fst] in P.
  defl. rewrite H, P. reflexivity.
Qed.
Lemma assign_bool_defs E off e st c st' : assign_bool E off e st = (c, st') ->
  st_le st st' /\ Forall (between st st') (deflabels c) /\ NoDup (deflabels c).
Proof.
  unfold assign_bool. destruct (eval_bool_value E R1 e st) as [[c0 v] st0] eqn:E0. intros Ev. inversion Ev; subst.
  destruct (eval_bool_value_defs E e R1 st c0 v st' E0) as [M [F D]]. split; [exact M|]. defl. rewrite app_nil_r. split; assumption.
Qed.
Lemma assign_bglob_defs E h e st c st' : assign_bglob E h e st = (c, st') ->
  st_le st st' /\ Forall (between st st') (deflabels c) /\ NoDup (deflabels c).
Proof.
  unfold assign_bglob. destruct (eval_bool_value E R1 e st) as [[c0 v] st0] eqn:E0. intros Ev. inversion Ev; subst.
  destruct (eval_bool_value_defs E e R1 st c0 v st' E0) as [M [F D]]. split; [exact M|]. defl. rewrite app_nil_r. split; assumption.
Qed.
Lemma declare_bool_defs E e st c st' : declare_bool E e st = (c, st') ->
  st_le st st' /\ Forall (between st st') (deflabels c) /\ NoDup (deflabels c).
Proof.
  assert (K : value_lowering_keep E e st = (c, st') -> st_le st st' /\ Forall (between st st') (deflabels c) /\ NoDup (deflabels c)).
  { unfold value_lowering_keep. intros L. apply (lower_branch_defs _ e _ _ _ _ _ L); reflexivity. }
  destruct e; cbn [declare_bool]; try exact K; apply assign_bool_defs.
Qed.

Scheme stmt_mind := Induction for stmt Sort Prop
  with stmts_mind := Induction for stmts Sort Prop.
Combined Scheme stmt_stmts_ind from stmt_mind, stmts_mind.

Definition defs_ok (st st' : lstate) (C : list aline) : Prop :=
  st_le st st' /\ Forall (between st st') (deflabels C) /\ NoDup (deflabels C).
Lemma defs_ok_nil st C : deflabels C = [] -> defs_ok st st C.
Proof. intros H. unfold defs_ok. rewrite H. split; [apply st_le_refl|]. split; constructor. Qed.

Ltac stle := let n := fresh "n" in intros n; repeat match goal with H : st_le _ _ |- _ => specialize (H n) end; lia.
Theorem lower_stmts_defs :
  (forall s S li st C S' st' ex, lower_stmt S li s st = (C, S', st', ex) -> defs_ok st st' C) /\
  (forall ss S li st C S' st' ex, lower_stmts S li ss st = (C, S', st', ex) -> defs_ok st st' C).
Proof.
  apply stmt_stmts_ind.
  - intros o S li st C S' st' ex Ev. cbn [lower_stmt] in Ev. inversion Ev; subst. apply defs_ok_nil, decl_int_nolabels.
  - intros i o S li st C S' st' ex Ev. cbn [lower_stmt] in Ev. inversion Ev; subst. apply defs_ok_nil, assign_int_nolabels.
  - intros e S li st C S' st' ex Ev. cbn [lower_stmt] in Ev.
    destruct (declare_bool (env_of S) e st) as [c st1] eqn:Ed. inversion Ev; subst. apply (declare_bool_defs _ _ _ _ _ Ed).
  - intros j e S li st C S' st' ex Ev. cbn [lower_stmt] in Ev.
    destruct (assign_bool (env_of S) (nth j (boffs S) 0) e st) as [c st1] eqn:Ea. inversion Ev; subst. apply (assign_bool_defs _ _ _ _ _ _ Ea).
  - intros x S li st C S' st' ex Ev. cbn [lower_stmt] in Ev. inversion Ev; subst. apply defs_ok_nil, lower_write_nolabels.
  - intros S li st C S' st' ex Ev. cbn [lower_stmt] in Ev. inversion Ev; subst. apply defs_ok_nil. reflexivity.
  - (* write(int) *)
    intros ln o S li st C S' st' ex Ev. cbn [lower_stmt] in Ev.
    pose proof (add_label_le LEndCall st) as M1. pose proof (single_blk LEndCall st) as B1.
    destruct (add_label LEndCall st) as [ec st1]. cbn [fst snd] in M1, B1. inversion Ev; subst C S' st' ex; clear Ev.
    assert (Eq : forall X, X = [push_ra S ec] ++ decl_int (after_ra S) o ++ call_tail S ec LibWriteInt ln -> deflabels X = [ec]).
    { intros X ->. unfold call_tail. defl. rewrite decl_int_nolabels. destruct ln; reflexivity. }
    unfold defs_ok. match goal with |- context [deflabels ?X] => rewrite !(Eq X eq_refl) end.
    cbn [blk_ok] in B1. destruct B1 as [F1 D1]. split; [exact M1|]. split; assumption.
  - (* write(bool) *)
    intros ln e S li st C S' st' ex Ev. cbn [lower_stmt] in Ev.
    pose proof (add_label_le LEndCall st) as M1. pose proof (single_blk LEndCall st) as B1.
    destruct (add_label LEndCall st) as [ec st1]. cbn [fst snd] in M1, B1.
    destruct (declare_bool (env_of (after_ra S)) e st1) as [c st2] eqn:Ed. destruct (declare_bool_defs _ _ _ _ _ Ed) as [M2 [F2 D2]].
    inversion Ev; subst C S' st' ex; clear Ev.
    set (bs := [(st1, st2, deflabels c); (st, st1, [ec])]).
    assert (Eq : forall X, X = [push_ra S ec] ++ c ++ call_tail S ec LibWriteBool ln -> deflabels X = flat_map blk_labels bs).
    { intros X ->. unfold call_tail. defl. cbn [flat_map bs blk_labels snd app]. destruct ln; cbn [deflabels app]; now rewrite ?app_nil_r. }
    assert (Ok : Forall blk_ok bs) by (unfold bs; repeat (apply Forall_cons; [first [exact B1 | (split; assumption)]|]); apply Forall_nil).
    unfold defs_ok. match goal with |- context [deflabels ?X] => rewrite !(Eq X eq_refl) end. split; [stle|]. split.
    + apply blocks_between; [exact Ok|]. unfold bs. repeat (apply Forall_cons; [split; stle|]). apply Forall_nil.
    + apply blocks_nodup; [exact Ok|]. unfold bs.
      repeat (apply FOP_cons; [repeat (apply Forall_cons; [cbn [blk_sep]; first [left; stle | right; stle]|]); apply Forall_nil|]).
      apply FOP_nil.
  - (* if *)
    intros c s1 IH1 s2 IH2 S li st C S' st' ex Ev. cbn [lower_stmt] in Ev.
    pose proof (add_label_le LElse st) as M1. pose proof (single_blk LElse st) as B1.
    destruct (add_label LElse st) as [el st1]. cbn [fst snd] in M1, B1.
    pose proof (add_label_le LEndElse st1) as M2. pose proof (single_blk LEndElse st1) as B2.
    destruct (add_label LEndElse st1) as [ee st2]. cbn [fst snd] in M2, B2.
    destruct (lower_branch (env_of S) c [] (goto el) st2) as [cc st3] eqn:Ec.
    destruct (lower_branch_defs _ c _ _ _ _ _ Ec eq_refl eq_refl) as [M3 [F3 D3]].
    destruct (lower_stmts S li s1 st3) as [[[c1 S1] st4] ex1] eqn:E1. destruct (IH1 _ _ _ _ _ _ _ E1) as [M4 [F4 D4]].
    destruct (lower_stmts S li s2 st4) as [[[c2 S2] st5] ex2] eqn:E2. destruct (IH2 _ _ _ _ _ _ _ E2) as [M5 [F5 D5]].
    inversion Ev; subst C S' st' ex; clear Ev.
    set (bs := [(st2, st3, deflabels cc); (st3, st4, deflabels c1); (st, st1, [el]); (st4, st5, deflabels c2); (st1, st2, [ee])]).
    assert (Eq : forall X, X = cc ++ c1 ++ goto ee ++ [ALabel el] ++ c2 ++ [ALabel ee] -> deflabels X = flat_map blk_labels bs).
    { intros X ->. defl. cbn [flat_map bs blk_labels snd app]. now rewrite ?app_nil_r. }
    assert (Ok : Forall blk_ok bs) by (unfold bs; repeat (apply Forall_cons; [first [exact B1 | exact B2 | (split; assumption)]|]); apply Forall_nil).
    unfold defs_ok. match goal with |- context [deflabels ?X] => rewrite !(Eq X eq_refl) end. split; [stle|]. split.
    + apply blocks_between; [exact Ok|]. unfold bs. repeat (apply Forall_cons; [split; stle|]). apply Forall_nil.
    + apply blocks_nodup; [exact Ok|]. unfold bs.
      repeat (apply FOP_cons; [repeat (apply Forall_cons; [cbn [blk_sep]; first [left; stle | right; stle]|]); apply Forall_nil|]).
      apply FOP_nil.
  - (* while *)
    intros c b IH1 k IH2 S li st C S' st' ex Ev. cbn [lower_stmt] in Ev.
    pose proof (add_label_le LLoop st) as M1. pose proof (single_blk LLoop st) as B1.
    destruct (add_label LLoop st) as [ls st1]. cbn [fst snd] in M1, B1.
    pose proof (add_label_le LContinue st1) as M2. pose proof (single_blk LContinue st1) as B2.
    destruct (add_label LContinue st1) as [lc st2]. cbn [fst snd] in M2, B2.
    pose proof (add_label_le LBreak st2) as M3. pose proof (single_blk LBreak st2) as B3.
    destruct (add_label LBreak st2) as [lb st3]. cbn [fst snd] in M3, B3.
    destruct (lower_branch (env_of S) c [] (goto lb) st3) as [cc st4] eqn:Ec.
    destruct (lower_branch_defs _ c _ _ _ _ _ Ec eq_refl eq_refl) as [M4 [F4 D4]].
    destruct (lower_stmts S (Some (lc, lb)) b st4) as [[[c1 S1] st5] ex1] eqn:E1. destruct (IH1 _ _ _ _ _ _ _ E1) as [M5 [F5 D5]].
    destruct (lower_stmts S li k st5) as [[[c2 S2] st6] ex2] eqn:E2. destruct (IH2 _ _ _ _ _ _ _ E2) as [M6 [F6 D6]].
    inversion Ev; subst C S' st' ex; clear Ev.
    set (bs := [(st, st1, [ls]); (st3, st4, deflabels cc); (st4, st5, deflabels c1); (st1, st2, [lc]); (st5, st6, deflabels c2); (st2, st3, [lb])]).
    assert (Eq : forall X, X = [ALabel ls] ++ cc ++ c1 ++ [ALabel lc] ++ c2 ++ goto ls ++ [ALabel lb] -> deflabels X = flat_map blk_labels bs).
    { intros X ->. defl. cbn [flat_map bs blk_labels snd app]. now rewrite ?app_nil_r. }
    assert (Ok : Forall blk_ok bs) by (unfold bs; repeat (apply Forall_cons; [first [exact B1 | exact B2 | exact B3 | (split; assumption)]|]); apply Forall_nil).
    unfold defs_ok. match goal with |- context [deflabels ?X] => rewrite !(Eq X eq_refl) end. split; [stle|]. split.
    + apply blocks_between; [exact Ok|]. unfold bs. repeat (apply Forall_cons; [split; stle|]). apply Forall_nil.
    + apply blocks_nodup; [exact Ok|]. unfold bs.
      repeat (apply FOP_cons; [repeat (apply Forall_cons; [cbn [blk_sep]; first [left; stle | right; stle]|]); apply Forall_nil|]).
      apply FOP_nil.
  - intros ss IH S li st C S' st' ex Ev. cbn [lower_stmt] in Ev.
    destruct (lower_stmts S li ss st) as [[[c S1] st1] ex1] eqn:E1. inversion Ev; subst. apply (IH _ _ _ _ _ _ _ E1).
  - intros S li st C S' st' ex Ev. cbn [lower_stmt] in Ev. inversion Ev; subst. apply defs_ok_nil. destruct li as [[? ?]|]; reflexivity.
  - intros S li st C S' st' ex Ev. cbn [lower_stmt] in Ev. inversion Ev; subst. apply defs_ok_nil. destruct li as [[? ?]|]; reflexivity.
  - (* int x = a / b *)
    intros op a b S li st C S' st' ex Ev. cbn [lower_stmt] in Ev.
    pose proof (add_label_le LDivAllowed st) as M1. pose proof (single_blk LDivAllowed st) as B1.
    destruct (add_label LDivAllowed st) as [da st1]. cbn [fst snd] in M1, B1. inversion Ev; subst C S' st' ex; clear Ev.
    unfold defs_ok, decl_div. rewrite eval_div_labels. cbn [blk_ok] in B1. destruct B1 as [F1 D1]. split; [exact M1|]. split; assumption.
  - (* xi = a / b *)
    intros i op a b S li st C S' st' ex Ev. cbn [lower_stmt] in Ev.
    pose proof (add_label_le LDivAllowed st) as M1. pose proof (single_blk LDivAllowed st) as B1.
    destruct (add_label LDivAllowed st) as [da st1]. cbn [fst snd] in M1, B1. inversion Ev; subst C S' st' ex; clear Ev.
    unfold defs_ok, assign_div. defl. rewrite eval_div_labels. cbn [app]. cbn [blk_ok] in B1. destruct B1 as [F1 D1]. split; [exact M1|]. split; assumption.
  - (* call *)
    intros dst f args S li st C S' st' ex Ev. cbn [lower_stmt] in Ev.
    pose proof (add_label_le LEndCall st) as M1. pose proof (single_blk LEndCall st) as B1.
    destruct (add_label LEndCall st) as [ec st1]. cbn [fst snd] in M1, B1. inversion Ev; subst C S' st' ex; clear Ev.
    assert (Eq : deflabels (lower_call S ec dst f args) = [ec]).
    { unfold lower_call, call_seq. defl. rewrite push_args_nolabels. destruct dst; reflexivity. }
    unfold defs_ok. rewrite Eq. cbn [blk_ok] in B1. destruct B1 as [F1 D1]. split; [exact M1|]. split; assumption.
  - (* return *)
    intros r S li st C S' st' ex Ev. cbn [lower_stmt] in Ev. inversion Ev; subst. apply defs_ok_nil, lower_return_nolabels.
  - intros g o S li st C S' st' ex Ev. cbn [lower_stmt] in Ev. inversion Ev; subst. apply defs_ok_nil, assign_glob_nolabels.
  - intros g op a b S li st C S' st' ex Ev. cbn [lower_stmt] in Ev.
    pose proof (add_label_le LDivAllowed st) as M1. pose proof (single_blk LDivAllowed st) as B1.
    destruct (add_label LDivAllowed st) as [da st1]. cbn [fst snd] in M1, B1. inversion Ev; subst C S' st' ex; clear Ev.
    unfold defs_ok, assign_glob_div. rewrite eval_div_labels. cbn [blk_ok] in B1. destruct B1 as [F1 D1]. split; [exact M1|]. split; assumption.
  - intros h e S li st C S' st' ex Ev. cbn [lower_stmt] in Ev.
    destruct (assign_bglob (env_of S) h e st) as [c st1] eqn:Ea. inversion Ev; subst. apply (assign_bglob_defs _ _ _ _ _ _ Ea).
  - intros S li st C S' st' ex Ev. cbn [lower_stmts] in Ev. inversion Ev; subst. apply defs_ok_nil. reflexivity.
  - intros s IHs r IHr S li st C S' st' ex Ev. cbn [lower_stmts] in Ev.
    destruct (lower_stmt S li s st) as [[[c S1] st1] ex1] eqn:E1. destruct (IHs _ _ _ _ _ _ _ E1) as [M1 [F1 D1]].
    destruct ex1; [inversion Ev; subst; split; [|split]; assumption|].
    destruct (lower_stmts S1 li r st1) as [[[cr S2] st2] ex2] eqn:E2. destruct (IHr _ _ _ _ _ _ _ E2) as [M2 [F2 D2]].
    inversion Ev; subst. split; [eapply st_le_trans; eauto|]. apply (defs_app_sep st st1 st'); assumption.
Qed.

Section TopS.
Variable w : Z.
Hypothesis Hw : 2 <= w.
Variable code : Z -> option instr.
Variable cmem : mem.
Variable R : regmap.
Variable lo : Z.
Variable ext : label -> Z.
Hypothesis ext_range : forall x, 0 <= ext x < Machine.W w.
Variable funs : list fundef.
Variable gl : Z.
Variable ng : nat.
Variable nbg : nat.
Hypothesis Hgl : lo <= gl.
Notation act := (Machine.act w code cmem).
Notation Halts := (HidV.Sphinx.Halts.Halts act).
Notation runs := (HidV.Sphinx.Halts.runs act).
Notation FP := (LowerBoolProofs.FP w R).
(* statement lists without calls of the program's functions (calls: program_lowering_correct) *)
Definition no_calls (f n : nat) : Prop := False.
Notation scoped := (ssscoped w ng nbg (lib_hyps w R code) no_calls).

(* statement lists inside a loop whose continue / break labels are defined elsewhere: where the run
   ends (the end of the code, a loop label, the return address, a fault stub), what has changed,
   what the memory represents *)
Theorem stmts_lowering_correct_gen ss d s0 evs out s1 S li st B m :
  execs w funs d ss s0 evs out s1 ->
  let r := lower_stmts S li ss st in
  let C := fst (fst (fst r)) in
  let S' := snd (fst (fst r)) in
  code_at code B (resolve R ext B C) -> 0 <= B -> B + size C < Machine.W w ->
  match li with Some (lc, lb) => below st lc /\ below st lb | None => True end ->
  wf_senv w w S -> tight w S -> rep w R lo gl ng nbg S s0 m -> d = FP m - lo ->
  scoped (length (ioffs S)) (length (boffs S)) (match li with Some _ => true | None => false end) ss ->
  need_stmts S ss <= FP m - lo ->
  exists m' pc',
    match out, li with
    | ONormal, _ => pc' = B + size C
    | OBreak, Some (_, lb) => pc' = ext lb
    | OContinue, Some (lc, _) => pc' = ext lc
    | OReturn _, _ => pc' = Machine.lw w m (FP m - w)
    | OFault ft, _ => pc' = a_lib R + fault_off ft
    | _, None => False
    end /\
    runs (mk B m) (map EOut evs) (mk pc' m') /\ frame_post w R lo w gl out m m' /\ post w R lo w gl ng nbg S S' s0 s1 out m m'.
Proof.
  intros Hx r C S' CA HB HS Hli Wf Tg Rp Hd Sc Hn.
  destruct (lower_stmts S li ss st) as [[[C0 S1] st'] ex] eqn:L. cbn [fst snd] in r, C, S'. subst C S'.
  destruct (proj2 lower_stmts_defs ss S li st C0 S1 st' ex L) as [_ [Fb Nd]].
  destruct (resolved_placed code R ext B C0 _ ext_range Nd CA HB HS) as [P LR].
  set (lab := labenv ext B C0) in *.
  assert (Cfk : forall f n, no_calls f n -> exists fd st, nth_error funs f = Some fd /\ fn_params fd = n /\
            0 <= fun_need w fd < Machine.W w / 2 /\ placed R lab code (fst (lower_fun w f fd st)) (lab (func_label f)) /\
            scoped n 0%nat false (fn_body fd)) by (intros f n []).
  destruct (proj1 (proj2 (stmts_runs w R lo w Hw code cmem lab LR funs no_calls eq_refl gl ng nbg Hgl Cfk)) d ss s0 evs out s1 Hx S li st C0 S1 st' ex B m L P Wf Tg Rp Hd Sc Hn)
    as [m' [pc' [Ex [Rn [Fa Po]]]]].
  exists m', pc'. split; [|split; [exact Rn|split; [exact Fa | exact Po]]].
  assert (Xl : forall l, below st l -> lab l = ext l).
  { intros l Hb. apply labenv_ext. intro I. rewrite Forall_forall in Fb. exact (below_not_between st st' l Hb (Fb _ I)). }
  destruct out, li as [[lc lb]|]; cbn [exit_pc] in Ex; try discriminate Ex; inversion Ex; subst pc';
    try reflexivity; destruct Hli as [H1 H2]; apply Xl; assumption.
Qed.

(* THE STATEMENT THEOREM: a terminating run of the source program from store s0, producing the
   output bytes evs and ending normally in store s1, is matched by a silent-except-for-output run
   of the lowered code from any memory representing s0 to a memory representing s1 *)
Theorem stmts_lowering_correct ss d s0 evs s1 S st B m :
  execs w funs d ss s0 evs ONormal s1 ->
  let r := lower_stmts S None ss st in
  let C := fst (fst (fst r)) in
  let S' := snd (fst (fst r)) in
  code_at code B (resolve R ext B C) -> 0 <= B -> B + size C < Machine.W w ->
  wf_senv w w S -> tight w S -> rep w R lo gl ng nbg S s0 m -> d = FP m - lo ->
  scoped (length (ioffs S)) (length (boffs S)) false ss ->
  need_stmts S ss <= FP m - lo ->
  exists m', runs (mk B m) (map EOut evs) (mk (B + size C) m') /\
             rep w R lo gl ng nbg S' s1 m' /\ wf_senv w w S' /\ fagree w R lo w gl m m'.
Proof.
  intros Hx r C S' CA HB HS Wf Tg Rp Hd Sc Hn.
  destruct (stmts_lowering_correct_gen ss d s0 evs ONormal s1 S None st B m Hx CA HB HS I Wf Tg Rp Hd Sc Hn)
    as [m' [pc' [-> [Rn [Fa [Rp' Wf']]]]]].
  exists m'. split; [exact Rn|]. split; [exact Rp'|]. split; assumption.
Qed.
(* a zero divisor: the run ends in the division_by_zero stub of the runtime library *)
Theorem stmts_fault_correct ss d s0 evs ft s1 S st B m :
  execs w funs d ss s0 evs (OFault ft) s1 ->
  let C := fst (fst (fst (lower_stmts S None ss st))) in
  code_at code B (resolve R ext B C) -> 0 <= B -> B + size C < Machine.W w ->
  wf_senv w w S -> tight w S -> rep w R lo gl ng nbg S s0 m -> d = FP m - lo ->
  scoped (length (ioffs S)) (length (boffs S)) false ss ->
  need_stmts S ss <= FP m - lo ->
  exists m', runs (mk B m) (map EOut evs) (mk (a_lib R + fault_off ft) m').
Proof.
  intros Hx C CA HB HS Wf Tg Rp Hd Sc Hn.
  destruct (stmts_lowering_correct_gen ss d s0 evs (OFault ft) s1 S None st B m Hx CA HB HS I Wf Tg Rp Hd Sc Hn)
    as [m' [pc' [-> [Rn _]]]].
  exists m'. exact Rn.
Qed.
(* divergence is preserved the other way round: `runs` transports Halts both ways, so if the
   continuation of the statements never halts, neither does their start state *)
Corollary stmts_no_new_halt ss d s0 evs s1 S st B m :
  execs w funs d ss s0 evs ONormal s1 ->
  let C := fst (fst (fst (lower_stmts S None ss st))) in
  code_at code B (resolve R ext B C) -> 0 <= B -> B + size C < Machine.W w ->
  wf_senv w w S -> tight w S -> rep w R lo gl ng nbg S s0 m -> d = FP m - lo ->
  scoped (length (ioffs S)) (length (boffs S)) false ss ->
  need_stmts S ss <= FP m - lo ->
  (forall m', ~ Halts (mk (B + size C) m')) -> ~ Halts (mk B m).
Proof.
  intros Hx C CA HB HS Wf Tg Rp Hd Sc Hn Nh.
  destruct (stmts_lowering_correct ss d s0 evs s1 S st B m Hx CA HB HS Wf Tg Rp Hd Sc Hn) as [m' [Rn _]].
  intro Hh. apply (Nh m'). apply (proj1 Rn). exact Hh.
Qed.

(* a whole body `{ ss }` of an `empty` function: the statements, then the `return;` the front end
   appends: lower_body is the lowering of the statements followed by `return;` *)
Lemma lower_stmts_app_return ss : forall S li st,
  let '(c, S1, st1, ex) := lower_stmts S li ss st in
  ex = false -> exists Sx, lower_stmts S li (stmts_snoc ss (SReturn None)) st = (c ++ lower_return S1 None, Sx, st1, true).
Proof.
  induction ss as [|s r IH]; intros S li st; cbn [lower_stmts stmts_snoc].
  - intros _. exists S. reflexivity.
  - destruct (lower_stmt S li s st) as [[[c S1] st1] ex1]. destruct ex1; [intros; discriminate|].
    specialize (IH S1 li st1). destruct (lower_stmts S1 li r st1) as [[[cr S2] st2] ex2].
    intros E. destruct (IH E) as [Sx Ex]. rewrite Ex. exists Sx. now rewrite app_assoc.
Qed.
(* a whole body `{ ss }` of an `empty` function: the statements, then the implicit `return;` through
   the return-address slot at [fp] - w *)
Theorem body_lowering_correct ss d s0 evs s1 S st B m :
  execs w funs d ss s0 evs ONormal s1 ->
  let C := fst (lower_body S ss st) in
  code_at code B (resolve R ext B C) -> 0 <= B -> B + size C < Machine.W w ->
  wf_senv w w S -> tight w S -> rep w R lo gl ng nbg S s0 m -> d = FP m - lo ->
  scoped (length (ioffs S)) (length (boffs S)) false ss ->
  need_stmts S ss <= FP m - lo ->
  let ra := Machine.lw w m (FP m - w) in
  exists m', runs (mk B m) (map EOut evs) (mk ra m') /\ gagree w R lo gl (FP m) m m'.
Proof.
  intros Hx C CA HB HS Wf Tg Rp Hd Sc Hn ra.
  unfold lower_body in C.
  destruct (lower_stmts S None ss st) as [[[C0 S1] st'] ex] eqn:L. cbn [fst] in C. subst C.
  set (tail := [AInstr (ALwso R1 (SReg RFp) (SLit (- ws S))); AInstr (AJump (SReg R1)); AInstr AHaltI]) in *.
  destruct (proj2 lower_stmts_defs ss S None st C0 S1 st' ex L) as [_ [Fb Nd]].
  assert (Nd' : NoDup (deflabels (C0 ++ tail))) by (rewrite deflabels_app; cbn [tail deflabels]; rewrite app_nil_r; exact Nd).
  destruct (resolved_placed code R ext B (C0 ++ tail) _ ext_range Nd' CA HB HS) as [P LR].
  set (lab := labenv ext B (C0 ++ tail)) in *.
  apply placed_app in P. destruct P as [P0 Pt].
  assert (Cfk : forall f n, no_calls f n -> exists fd st, nth_error funs f = Some fd /\ fn_params fd = n /\
            0 <= fun_need w fd < Machine.W w / 2 /\ placed R lab code (fst (lower_fun w f fd st)) (lab (func_label f)) /\
            scoped n 0%nat false (fn_body fd)) by (intros f n []).
  pose proof (lower_stmts_extends w R code lab funs no_calls gl ng nbg Cfk ss S None st ltac:(rewrite (wfs_w w w S Wf); lia)) as X1. rewrite L in X1.
  destruct (proj1 (proj2 (stmts_runs w R lo w Hw code cmem lab LR funs no_calls eq_refl gl ng nbg Hgl Cfk)) d ss s0 evs ONormal s1 Hx S None st C0 S1 st' ex B m L P0 Wf Tg Rp Hd Sc Hn)
    as [m1 [pc1 [Ex [Rn [Fa [Rp1 Wf1]]]]]].
  cbn [exit_pc] in Ex. inversion Ex; subst pc1. cbn [frame_post] in Fa.
  assert (Ews : ws S1 = ws S) by (destruct X1 as [_ [_ [_ E]]]; exact E).
  assert (Pt' : placed R lab code (lower_return S1 None) (B + size C0)) by (cbn [lower_return]; rewrite Ews; exact Pt).
  destruct (return_runs w R lo w Hw code cmem lab no_calls eq_refl gl ng nbg Hgl S1 s1 m1 None _ Wf1 Rp1 I Pt') as [m2 [R2 [A2 _]]].
  pose proof (rp_regs w R lo gl ng nbg S s0 m Rp) as L0. pose proof (FP_fagree w R lo w gl Hw Hgl m m1 L0 Fa) as F1.
  rewrite (ra_fagree w R lo w Hw code lab funs no_calls eq_refl gl ng nbg Hgl Cfk S s0 m m1 Wf Rp Fa) in R2. rewrite F1 in A2.
  exists m2. split.
  - rewrite <- (app_nil_r (map EOut evs)). eapply runs_trans; [exact Rn | exact R2].
  - eapply (gagree_trans w R lo gl); [|apply (agree_gagree w R lo gl); exact A2]. apply (gagree_mono w R lo gl (FP m - w)); [lia | exact Fa].
Qed.
End TopS.

(* ================================================================================= *)
(* a fuelled interpreter for the source semantics, sound for the relation              *)

(* ================================================================================= *)
(* 8  whole programs                                                                   *)
(* ================================================================================= *)
(* ---------- an executable check of the static side conditions ---------- *)
Section Check.
Variable w : Z.
Variable ng : nat.
Variable nbg : nat.
Variable cfb : nat -> nat -> bool.
Notation oscoped_b := (LowerStmtSem.oscoped_b w ng).
Notation bscoped_b := (LowerStmtSem.bscoped_b w ng nbg).
Notation sscoped_b := (LowerStmtSem.sscoped_b w ng nbg cfb).
Notation ssscoped_b := (LowerStmtSem.ssscoped_b w ng nbg cfb).
Variable lib : Prop.
Variable cf : nat -> nat -> Prop.
Hypothesis Hlib : lib.
Hypothesis cfb_ok : forall f n, cfb f n = true -> cf f n.
Lemma oscoped_b_ok ni nb o : oscoped_b ni nb o = true -> oscoped w ng ni nb o.
Proof.
  induction o as [ch z|i|op x IHx y IHy|u x IHx|g|tx IHt|yj]; cbn [oscoped_b oscoped]; intros H.
  - apply andb_true_iff in H. destruct H as [H H3]. apply andb_true_iff in H. destruct H as [H1 H2]. apply Z.leb_le in H1. apply Z.ltb_lt in H2.
    split; [lia|]. intros ->. cbn [negb orb] in H3. apply andb_true_iff in H3. destruct H3 as [H4 H5]. apply Z.leb_le in H4, H5. lia.
  - apply Nat.ltb_lt. exact H.
  - apply andb_true_iff in H. destruct H as [H H2]. apply andb_true_iff in H. destruct H as [H0 H1].
    split; [destruct op; try discriminate H0; exact I | split; auto].
  - auto.
  - apply Nat.ltb_lt. exact H.
  - apply andb_true_iff in H. destruct H as [H1 H2]. split; [apply IHt; exact H1|]. destruct tx; try discriminate H2; exact I.
  - destruct yj; apply Nat.ltb_lt; exact H.
Qed.
Lemma not_trunc_b_ok o : not_trunc_b o = true -> not_trunc o.
Proof. destruct o; intros H; try discriminate H; exact I. Qed.
Lemma bscoped_b_ok ni nb e : bscoped_b ni nb e = true -> bscoped w ng nbg ni nb e.
Proof.
  induction e as [b|j|op a b|e1 IH|e1 IH1 e2 IH2|e1 IH1 e2 IH2]; cbn [bscoped_b bscoped]; intros H; auto.
  - destruct j; apply Nat.ltb_lt; exact H.
  - apply andb_true_iff in H. destruct H. split; apply oscoped_b_ok; assumption.
  - apply andb_true_iff in H. destruct H. split; auto.
  - apply andb_true_iff in H. destruct H. split; auto.
Qed.
Ltac andb_split H := repeat (apply andb_true_iff in H; let H' := fresh H in destruct H as [H H']).
Lemma scoped_b_ok :
  (forall s ni nb il, sscoped_b ni nb il s = true -> sscoped w ng nbg lib cf ni nb il s) /\
  (forall ss ni nb il, ssscoped_b ni nb il ss = true -> ssscoped w ng nbg lib cf ni nb il ss).
Proof.
  apply stmt_stmts_ind.
  - intros o ni nb il H. cbn [sscoped_b sscoped] in *. apply andb_true_iff in H. destruct H as [H1 H2]. split; [apply oscoped_b_ok; exact H1 | apply not_trunc_b_ok; exact H2].
  - intros i o ni nb il H. cbn [sscoped_b sscoped] in *. andb_split H. split; [apply Nat.ltb_lt; assumption | apply oscoped_b_ok; assumption].
  - intros e ni nb il H. apply bscoped_b_ok. exact H.
  - intros j e ni nb il H. cbn [sscoped_b sscoped] in *. andb_split H. split; [apply Nat.ltb_lt; assumption | apply bscoped_b_ok; assumption].
  - intros x ni nb il H. destruct x; cbn [sscoped_b sscoped] in *; auto. apply oscoped_b_ok; exact H.
  - intros; exact I.
  - intros ln o ni nb il H. cbn [sscoped_b sscoped] in *. apply andb_true_iff in H. destruct H as [H1 H2]. split; [split; [apply oscoped_b_ok; exact H1 | apply not_trunc_b_ok; exact H2] | exact Hlib].
  - intros ln e ni nb il H. cbn [sscoped_b sscoped] in *. split; [apply bscoped_b_ok; assumption | exact Hlib].
  - intros c s1 IH1 s2 IH2 ni nb il H. cbn [sscoped_b sscoped] in *. andb_split H. split; [apply bscoped_b_ok; assumption | split; auto].
  - intros c b IH1 k IH2 ni nb il H. cbn [sscoped_b sscoped] in *. andb_split H. split; [apply bscoped_b_ok; assumption | split; auto].
  - intros ss IH ni nb il H. cbn [sscoped_b sscoped] in *. auto.
  - intros ni nb il H. exact H.
  - intros ni nb il H. exact H.
  - intros op a b ni nb il H. cbn [sscoped_b sscoped] in *. andb_split H.
    split; [destruct op; cbn [divop_b] in *; try discriminate; auto | split; [apply oscoped_b_ok; assumption | split; [apply oscoped_b_ok; assumption | exact Hlib]]].
  - intros i op a b ni nb il H. cbn [sscoped_b sscoped] in *. andb_split H.
    split; [apply Nat.ltb_lt; assumption|].
    split; [destruct op; cbn [divop_b] in *; try discriminate; auto | split; [apply oscoped_b_ok; assumption | split; [apply oscoped_b_ok; assumption | exact Hlib]]].
  - intros dst f args ni nb il H. cbn [sscoped_b sscoped] in *. andb_split H.
    split; [destruct dst; try exact I; apply Nat.ltb_lt; assumption|]. split; [apply cfb_ok; assumption|].
    split; [|exact Hlib]. split; apply Forall_forall; intros o Ho.
    + apply oscoped_b_ok. match goal with Hf : forallb (oscoped_b _ _) _ = true |- _ => rewrite forallb_forall in Hf; apply Hf; exact Ho end.
    + apply not_trunc_b_ok. match goal with Hf : forallb not_trunc_b _ = true |- _ => rewrite forallb_forall in Hf; apply Hf; exact Ho end.
  - intros r ni nb il H. destruct r; cbn [sscoped_b sscoped] in *; auto using oscoped_b_ok.
  - intros g o ni nb il H. cbn [sscoped_b sscoped] in *. andb_split H.
    split; [apply Nat.ltb_lt; assumption | apply oscoped_b_ok; assumption].
  - intros g op a b ni nb il H. cbn [sscoped_b sscoped] in *. andb_split H.
    split; [apply Nat.ltb_lt; assumption|].
    split; [destruct op; cbn [divop_b] in *; try discriminate; auto | split; [apply oscoped_b_ok; assumption | split; [apply oscoped_b_ok; assumption | exact Hlib]]].
  - intros h e ni nb il H. cbn [sscoped_b sscoped] in *. andb_split H. split; [apply Nat.ltb_lt; assumption | apply bscoped_b_ok; assumption].
  - intros; exact I.
  - intros s IHs r IHr ni nb il H. cbn [ssscoped_b ssscoped] in *. andb_split H. split; [apply IHs; assumption|].
    destruct s as [o|i o|e|j e|x| |ln o|ln e|c0 t1 t2|c0 b k|ss| | |op a b|i op a b|dst f args|rv|gg og|gg gop ga gb|hh eh]; try destruct dst; apply IHr; assumption.
Qed.
End Check.

(* ---------- the layout of a whole program ---------- *)
Lemma length_instrs R lab l : Z.of_nat (length (instrs R lab l)) = size l.
Proof. induction l as [|[x|i] r IH]; cbn [instrs size length]; lia. Qed.
Lemma lib_at_after w P B : B = Z.of_nat (length P) -> lib_at w (code_of (P ++ stdlib_code w B)) B.
Proof.
  intros EB k Hk. unfold code_of. destruct (Z.ltb_spec (B + k) 0); [lia|].
  rewrite nth_error_app2 by lia. f_equal. lia.
Qed.
(* every generated function is placed at its label *)
Lemma lower_funs_placed R lab code w funs : forall ord st p, placed R lab code (lower_funs w funs ord st) p ->
  Forall (fun f => nth_error funs f <> None) ord ->
  forall f, In f ord -> exists fd stf, nth_error funs f = Some fd /\ placed R lab code (fst (lower_fun w f fd stf)) (lab (func_label f)).
Proof.
  induction ord as [|g r IH]; intros st p P Ok f I; [contradiction|].
  inversion Ok as [|? ? Hg Okr]; subst. cbn [lower_funs] in P.
  destruct (nth_error funs g) as [fd|] eqn:Eg; [|contradiction].
  destruct (lower_fun w g fd st) as [c st1] eqn:El. apply placed_app in P. destruct P as [Pc Pr].
  destruct I as [->|I]; [|apply (IH st1 _ Pr Okr f I)].
  exists fd, st. split; [exact Eg|]. rewrite El. cbn [fst].
  assert (Ep : lab (func_label f) = p).
  { unfold lower_fun in El. destruct (add_label LNoOverflow st) as [no st']. destruct (lower_stmts _ None (fn_body fd) st') as [[[cc S1] st2] ex].
    inversion El; subst c. cbn [app placed] in Pc. tauto. }
  rewrite Ep. exact Pc.
Qed.


(* ---------- the labels of a whole program are defined once ---------- *)
(* the function labels func_<name>_0 are taken from the start: no counter ever produces them again *)
Definition fresh_st (st : lstate) : Prop := forall f, (1 <= st (LFunc f))%nat.
Lemma func_not_between st st' f : fresh_st st -> ~ between st st' (func_label f).
Proof. unfold between, func_label; cbn [fst snd]. intros H [A _]. specialize (H f). lia. Qed.
Lemma fresh_st_le st st' : fresh_st st -> st_le st st' -> fresh_st st'.
Proof. intros H L f. specialize (H f). specialize (L (LFunc f)). lia. Qed.
Lemma lower_fun_defs w f fd st c st1 : lower_fun w f fd st = (c, st1) ->
  st_le st st1 /\ exists L, deflabels c = func_label f :: L /\ Forall (between st st1) L /\ NoDup L.
Proof.
  unfold lower_fun. pose proof (add_label_le LNoOverflow st) as M1. pose proof (single_blk LNoOverflow st) as B1.
  destruct (add_label LNoOverflow st) as [no st']. cbn [fst snd] in M1, B1.
  destruct (lower_stmts (is_you_senv w (fn_params fd)) None (fn_body fd) st') as [[[cc S1] st2] ex] eqn:El.
  destruct (proj2 lower_stmts_defs _ _ _ _ _ _ _ _ El) as [M2 [F2 D2]].
  intros E. inversion E; subst c st1; clear E. split; [stle|].
  exists (no :: deflabels cc). split; [reflexivity|].
  set (bs := [(st, st', [no]); (st', st2, deflabels cc)]).
  assert (Ok : Forall blk_ok bs) by (unfold bs; repeat (apply Forall_cons; [first [exact B1 | (split; assumption)]|]); apply Forall_nil).
  assert (Eq : no :: deflabels cc = flat_map blk_labels bs) by (cbn [bs flat_map blk_labels snd app]; now rewrite app_nil_r).
  rewrite Eq. split.
  - apply blocks_between; [exact Ok|]. unfold bs. repeat (apply Forall_cons; [split; stle|]). apply Forall_nil.
  - apply blocks_nodup; [exact Ok|]. unfold bs.
    repeat (apply FOP_cons; [repeat (apply Forall_cons; [cbn [blk_sep]; first [left; stle | right; stle]|]); apply Forall_nil|]).
    apply FOP_nil.
Qed.
Lemma lower_funs_defs w funs : forall ord st, fresh_st st -> NoDup ord ->
  exists st', st_le st st' /\ NoDup (deflabels (lower_funs w funs ord st)) /\
    Forall (fun x => (exists f, In f ord /\ x = func_label f) \/ between st st' x) (deflabels (lower_funs w funs ord st)).
Proof.
  induction ord as [|f r IH]; intros st Fr Nd; cbn [lower_funs].
  - exists st. split; [apply st_le_refl|]. split; constructor.
  - inversion Nd as [|? ? Nf Ndr]; subst. destruct (nth_error funs f) as [fd|].
    2:{ exists st. split; [apply st_le_refl|]. split; constructor. }
    destruct (lower_fun w f fd st) as [c st1] eqn:El. destruct (lower_fun_defs w f fd st c st1 El) as [M1 [L [EL [FL DL]]]].
    destruct (IH st1 (fresh_st_le st st1 Fr M1) Ndr) as [st' [M2 [Dr Fr']]].
    exists st'. split; [eapply st_le_trans; eauto|]. rewrite deflabels_app, EL. cbn [app].
    rewrite Forall_forall in FL, Fr'.
    assert (Dis : forall x, In x L -> In x (deflabels (lower_funs w funs r st1)) -> False).
    { intros x I1 I2. specialize (FL x I1). destruct (Fr' x I2) as [[g [_ ->]] | B].
      - exact (func_not_between st st1 g Fr FL).
      - unfold between in *. lia. }
    split.
    + constructor.
      * intro I. apply in_app_or in I. destruct I as [I|I].
        -- exact (func_not_between st st1 f Fr (FL _ I)).
        -- destruct (Fr' _ I) as [[g [Ig Eg]] | B].
           ++ unfold func_label in Eg. inversion Eg; subst g. contradiction.
           ++ exact (func_not_between st1 st' f (fresh_st_le st st1 Fr M1) B).
      * apply NoDup_app_intro; assumption.
    + apply Forall_forall. intros x [<- | I]; [left; exists f; split; [left; reflexivity | reflexivity]|].
      apply in_app_or in I. destruct I as [I|I].
      * right. specialize (FL x I). unfold between in *. specialize (M2 (fst x)). lia.
      * destruct (Fr' x I) as [[g [Ig ->]] | B]; [left; exists g; split; [right; exact Ig | reflexivity]|].
        right. unfold between in *. specialize (M1 (fst x)). lia.
Qed.
Lemma add_new_nodup new : forall seen, NoDup seen -> NoDup (add_new seen new).
Proof.
  induction new as [|f r IH]; intros seen Nd; cbn [add_new]; [exact Nd|]. apply IH.
  destruct (existsb (Nat.eqb f) seen) eqn:E; [exact Nd|].
  apply NoDup_app_intro; [exact Nd | constructor; [intros [] | constructor]|].
  intros x I1 [E' | []]. subst x. assert (existsb (Nat.eqb f) seen = true) by (apply existsb_exists; exists f; split; [exact I1 | apply Nat.eqb_refl]).
  congruence.
Qed.
Lemma gen_order_nodup funs fuel : forall seen k, NoDup seen -> NoDup (gen_order fuel funs seen k).
Proof.
  induction fuel as [|n IH]; intros seen k Nd; cbn [gen_order]; [exact Nd|].
  destruct (nth_error seen k); [|exact Nd]. apply IH. apply add_new_nodup. exact Nd.
Qed.
Theorem program_labels_nodup w funs : NoDup (deflabels (lower_program w funs)).
Proof.
  unfold lower_program.
  destruct (lower_funs_defs w funs (program_order funs) st_init) as [st' [_ [D _]]]; [intros f; cbn; lia | | exact D].
  unfold program_order. apply gen_order_nodup. constructor; [intros [] | constructor].
Qed.

(* the state section hidc emits: ap, fp, r0, r1, r2, the stack, the entry arguments (last parameter
   first), the return address of the entry point (all_is_win) *)
Record init_ok (w stack : Z) (args : list Z) (ra : Z) (ga : nat -> Z) (ginit : list Z) (gb : nat -> Z) (binit : list Z) (m : mem) : Prop := {
  io_wf : wf_mem m;
  io_ap : Machine.lw w m 0 = 5 * w;                                     (* ap: .word stack_start *)
  io_fp : Machine.lw w m w = (stack + Z.of_nat (length args) + 6) * w;  (* fp: .word stack_end *)
  io_sz : (stack + Z.of_nat (length args) + 6) * w <= msize m;
  io_ra : Machine.lw w m ((stack + Z.of_nat (length args) + 5) * w) = ra;
  io_args : forall k, (k < length args)%nat ->
            Machine.sgn w (Machine.lw w m ((stack + Z.of_nat (length args) + 6) * w - (Z.of_nat k + 2) * w)) = nth k args 0;
  (* the int globals: words after stack_end (at the addresses ga), pairwise apart, holding their initial values *)
  io_g : forall g, (g < length ginit)%nat -> (stack + Z.of_nat (length args) + 6) * w <= ga g < Machine.W w /\ inb m (ga g) w = true /\
                   Machine.sgn w (Machine.lw w m (ga g)) = nth g ginit 0;
  io_gd : forall g g', (g < length ginit)%nat -> (g' < length ginit)%nat -> g <> g' -> ga g + w <= ga g' \/ ga g' + w <= ga g;
  (* the bool globals: bytes after stack_end (at the addresses gb), apart from each other and from the words, holding 0 or 1 *)
  io_gb : forall h, (h < length binit)%nat -> (stack + Z.of_nat (length args) + 6) * w <= gb h < Machine.W w /\ inb m (gb h) 1 = true /\
                   Machine.lb m (gb h) = nth h binit 0 /\ (nth h binit 0 = 0 \/ nth h binit 0 = 1);
  io_gbd : (forall h h', (h < length binit)%nat -> (h' < length binit)%nat -> h <> h' -> gb h <> gb h') /\
           (forall g h, (g < length ginit)%nat -> (h < length binit)%nat -> gb h + 1 <= ga g \/ ga g + w <= gb h) }.
(* hidc's layout of the globals (glob_addr: after stack_end, in the order of first reference, a word
   per int global and a byte per bool global) satisfies the separation hypotheses of init_ok, for
   every program and all globals that the generated functions refer to *)
Definition gsize (w : Z) (r : gref) : Z := match r with GI _ => w | GB _ => 1 end.
Lemma gref_eqb_eq a b : gref_eqb a b = true <-> a = b.
Proof.
  destruct a as [g|g], b as [h|h]; cbn [gref_eqb]; rewrite ?Nat.eqb_eq; split; intros H; try discriminate; try congruence.
Qed.
Lemma gref_off_nonneg w r l : 0 <= w -> 0 <= gref_off w r l.
Proof.
  intros Hw. induction l as [|x t IH]; cbn [gref_off]; [lia|]. destruct (gref_eqb x r); [lia|]. destruct x; lia.
Qed.
Lemma gref_off_apart w l : 0 <= w -> forall r r', In r l -> In r' l -> r <> r' ->
  gref_off w r l + gsize w r <= gref_off w r' l \/ gref_off w r' l + gsize w r' <= gref_off w r l.
Proof.
  intros Hw. induction l as [|x t IH]; intros r r' I I' Ne; [destruct I|]. cbn [gref_off].
  destruct (gref_eqb x r) eqn:E; destruct (gref_eqb x r') eqn:E'.
  - apply gref_eqb_eq in E, E'. congruence.
  - apply gref_eqb_eq in E. subst x. left. pose proof (gref_off_nonneg w r' t Hw). unfold gsize. destruct r; lia.
  - apply gref_eqb_eq in E'. subst x. right. pose proof (gref_off_nonneg w r t Hw). unfold gsize. destruct r'; lia.
  - assert (It : In r t) by (destruct I as [->|I]; [|exact I]; assert (X : gref_eqb r r = true) by (apply gref_eqb_eq; reflexivity); congruence).
    assert (It' : In r' t) by (destruct I' as [->|I']; [|exact I']; assert (X : gref_eqb r' r' = true) by (apply gref_eqb_eq; reflexivity); congruence).
    destruct (IH r r' It It' Ne); [left | right]; lia.
Qed.
Theorem glob_addr_layout w stack nparams funs ng nbg : 0 <= w ->
  (forall g, (g < ng)%nat -> In (GI g) (globals_order funs)) ->
  (forall h, (h < nbg)%nat -> In (GB h) (globals_order funs)) ->
  let ga := fun g => glob_addr w stack nparams funs (GI g) in
  let gb := fun h => glob_addr w stack nparams funs (GB h) in
  (forall g, (stack + Z.of_nat nparams + 6) * w <= ga g) /\ (forall h, (stack + Z.of_nat nparams + 6) * w <= gb h) /\
  (forall g g', (g < ng)%nat -> (g' < ng)%nat -> g <> g' -> ga g + w <= ga g' \/ ga g' + w <= ga g) /\
  (forall h h', (h < nbg)%nat -> (h' < nbg)%nat -> h <> h' -> gb h <> gb h') /\
  (forall g h, (g < ng)%nat -> (h < nbg)%nat -> gb h + 1 <= ga g \/ ga g + w <= gb h).
Proof.
  intros Hw Hi Hb ga gb. unfold ga, gb, glob_addr. set (l := globals_order funs) in *. set (F := (stack + Z.of_nat nparams + 6) * w).
  split; [intros g; pose proof (gref_off_nonneg w (GI g) l Hw); lia|].
  split; [intros h; pose proof (gref_off_nonneg w (GB h) l Hw); lia|].
  split; [|split].
  - intros g g' Hg Hg' Ne. destruct (gref_off_apart w l Hw (GI g) (GI g') (Hi g Hg) (Hi g' Hg') ltac:(congruence)) as [X|X];
      cbn [gsize] in X; lia.
  - intros h h' Hh Hh' Ne. destruct (gref_off_apart w l Hw (GB h) (GB h') (Hb h Hh) (Hb h' Hh') ltac:(congruence)) as [X|X];
      cbn [gsize] in X; lia.
  - intros g h Hg Hh. destruct (gref_off_apart w l Hw (GI g) (GB h) (Hi g Hg) (Hb h Hh) ltac:(discriminate)) as [X|X];
      cbn [gsize] in X; lia.
Qed.
(* what the machine shows after the program's own output *)
Definition result_flags (res : cres) : list event :=
  match res with
  | CRet _ _ => [EFlag 0]                            (* all_is_win: flag win *)
  | CFault FDivZero => [EFlag 3; EFlag 1]            (* flag division_by_zero; flag error *)
  | CFault FStackOverflow => [EFlag 2; EFlag 1]      (* flag stack_overflow; flag error *)
  end.
(* the static side conditions, executable: every generated function exists, is well scoped, calls
   generated functions with the right number of arguments, and has a guard constant that is a word;
   the entry point comes first *)
Section Program.
Variable w : Z.
Hypothesis Hw : 2 <= w.
Variable funs : list fundef.
Variable stack : Z.                (* hidc -s: words of stack *)
Variable args : list Z.            (* the values of the entry point's parameters *)
Variable dft : Z.                  (* where a `defeat` word would be (not used by the fragment) *)
Variable ga : nat -> Z.            (* the addresses of the int globals (hidc: the words after stack_end) *)
Variable ginit : list Z.           (* their initial values *)
Variable gb : nat -> Z.            (* the addresses of the bool globals (bytes after stack_end) *)
Variable binit : list Z.           (* their initial values (0 or 1) *)
Variable cmem : mem.
Let C := lower_program w funs.
Let lib := size C.
Let R := hidc_regs_gb w dft lib ga gb.
Let ng := length ginit.
Let nbg := length binit.
Let ext0 : label -> Z := fun _ => 0.
Let prog := resolve R ext0 0 C ++ stdlib_code w lib.
Let code := code_of prog.
Notation act := (Machine.act w code cmem).
Notation Halts := (HidV.Sphinx.Halts.Halts act).
Notation runs := (HidV.Sphinx.Halts.runs act).
Notation csteps := (HidV.Sphinx.Halts.csteps act).
Let n := Z.of_nat (length args).

(* THE PROGRAM THEOREM.  For every program of the fragment that passes the static check, every
   stack size, all argument values: if the source semantics (with the stack accounting of the
   checked build) says that the entry point, called with d = (stack + n + 1) * w bytes of stack,
   emits the bytes evs and returns / faults, then the machine started at address 0 on the image
   hidc lays out emits exactly these bytes, then the flags of all_is_win (resp. of the fault
   stub), then sleeps forever: it never halts. *)
Theorem program_lowering_correct evs res m0 :
  prog_ok_b w ng nbg funs (length args) = true ->
  0 <= stack -> lib + stdlib_len <= Machine.W w -> (stack + n + 6) * w < Machine.W w / 2 ->
  init_ok w stack args (lib + off_all_is_win) ga ginit gb binit m0 ->
  callf w funs ((stack + n + 1) * w) 0 args (ginit, binit) evs res ->
  exists m', runs (mk 0 m0) (map EOut evs ++ result_flags res) (tnt lib m') /\
             ~ Halts (mk 0 m0) /\
             forall k, csteps (mk 0 m0) (map EOut evs ++ result_flags res ++ repeat sleep_ev k) (tnt lib m').
Proof.
  intros Hok Hst Hlib Hfp Hin Hc. assert (Hw1 : 1 <= w) by lia.
  unfold prog_ok_b in Hok. fold C in Hok. set (ord := program_order funs) in *.
  apply andb_true_iff in Hok. destruct Hok as [Hok Hcf0].
  apply andb_true_iff in Hok. destruct Hok as [Hhd Hfs]. pose proof (program_labels_nodup w funs) as Hnd. fold C in Hnd.
  assert (Hsz : 0 <= lib) by apply size_nonneg.
  assert (HWp : Machine.W w / 2 < Machine.W w) by (pose proof (W_even w Hw1); pose proof (half_pos w Hw1); lia).
  assert (Hlen : stdlib_len = 108) by reflexivity.
  assert (ext_range : forall x, 0 <= ext0 x < Machine.W w) by (intros x; unfold ext0; lia).
  assert (CA : code_at code 0 (resolve R ext0 0 C)) by apply code_at_code_of_app.
  destruct (resolved_placed code R ext0 0 C _ ext_range Hnd CA ltac:(lia) ltac:(fold lib; lia)) as [P LR].
  set (lab := labenv ext0 0 C) in *.
  assert (Elen : lib = Z.of_nat (length (resolve R ext0 0 C))) by (unfold resolve; rewrite length_instrs; reflexivity).
  assert (Hl : lib_hyps w R code).
  { unfold lib_hyps, R, hidc_regs_gb; cbn [a_fp a_r0 a_r1 a_r2 a_lib a_ap]. repeat split; try lia.
    apply (lib_at_after w _ lib Elen). }
  (* the callable functions: those that are generated *)
  set (cf := fun f k => cf_b funs ord f k = true).
  assert (Ovalid : Forall (fun f => nth_error funs f <> None) ord).
  { apply Forall_forall. intros f I. rewrite forallb_forall in Hfs. specialize (Hfs f I). unfold fun_ok_b in Hfs.
    destruct (nth_error funs f); [discriminate | discriminate Hfs]. }
  assert (Cfk : forall f k, cf f k -> exists fd st, nth_error funs f = Some fd /\ fn_params fd = k /\
            0 <= fun_need w fd < Machine.W w / 2 /\ placed R lab code (fst (lower_fun w f fd st)) (lab (func_label f)) /\
            ssscoped w ng nbg (lib_hyps w R code) cf k 0%nat false (fn_body fd)).
  { intros f k Hc'. unfold cf, cf_b in Hc'. apply andb_true_iff in Hc'. destruct Hc' as [Hin' Hk].
    apply existsb_exists in Hin'. destruct Hin' as [g [Ig Eg]]. apply Nat.eqb_eq in Eg. subst g.
    destruct (lower_funs_placed R lab code w funs ord st_init 0 P Ovalid f Ig) as [fd [stf [Efd Pf]]].
    rewrite Efd in Hk. apply Nat.eqb_eq in Hk.
    rewrite forallb_forall in Hfs. specialize (Hfs f Ig). unfold fun_ok_b in Hfs. rewrite Efd in Hfs.
    apply andb_true_iff in Hfs. destruct Hfs as [Hfs Hsc]. apply andb_true_iff in Hfs. destruct Hfs as [Hn0 Hn1].
    apply Z.leb_le in Hn0. apply Z.ltb_lt in Hn1.
    exists fd, stf. split; [exact Efd|]. split; [exact Hk|]. split; [lia|]. split; [exact Pf|].
    rewrite <- Hk. apply (proj2 (scoped_b_ok w ng nbg (cf_b funs ord) (lib_hyps w R code) cf Hl (fun f0 n0 H => H))). exact Hsc. }
  (* the entry memory *)
  destruct Hin as [Iwf Iap Ifp Isz Ira Iargs Ig Igd Ib Ibd]. fold n in Ifp, Isz, Ira, Iargs, Ig, Ib.
  set (F := (stack + n + 6) * w) in *.
  assert (Hn : 0 <= n) by (unfold n; lia).
  assert (HF : FP w R m0 = F) by (unfold FP, R, hidc_regs_gb; cbn [a_fp]; exact Ifp).
  assert (L : regs_ok w R (5 * w) m0).
  { unfold R, hidc_regs_gb. constructor; cbn [a_r0 a_r1 a_r2 a_fp]; try lia; try exact Iwf;
      try (apply inb_true; unfold F in *; nia).
    change (FP w (mkregs 0 w (2 * w) (3 * w) (4 * w) dft lib ga gb) m0) with (FP w R m0). rewrite HF. unfold F. nia. }
  assert (E0 : lab (func_label 0) = 0).
  { unfold C, lower_program in P. fold ord in P. destruct ord as [|[|?] r]; try discriminate Hhd.
    cbn [lower_funs] in P. inversion Ovalid as [|? ? H0 _]; subst. destruct (nth_error funs 0) as [fd0|]; [|contradiction].
    unfold lower_fun in P. destruct (add_label LNoOverflow st_init) as [no st']. destruct (lower_stmts _ None (fn_body fd0) st') as [[[cc S1] st2] ex].
    cbn [app placed] in P. tauto. }
  pose proof (proj2 (proj2 (stmts_runs w R (5 * w) w Hw code cmem lab LR funs cf eq_refl F ng nbg ltac:(unfold F; nia) Cfk)) _ 0%nat args (ginit, binit) evs res Hc m0 Hl Hcf0 L) as Sp.
  destruct (Sp ltac:(rewrite HF; unfold F; lia) ltac:(rewrite HF; unfold F; nia) ltac:(rewrite HF; exact Isz)) as [m' Res].
  { intros _. unfold R, hidc_regs_gb; cbn [a_ap]. exact Iap. }
  { intros k Hk. rewrite HF. apply Iargs. exact Hk. }
  { rewrite HF. lia. }
  { split; cbn [fst snd]; (split; [reflexivity|]); unfold R, hidc_regs_gb; cbn [a_glob a_bglob]; [exact Ig | exact Ib]. }
  { unfold glayout, R, hidc_regs_gb; cbn [a_glob a_bglob]. split; [exact Igd | exact Ibd]. }
  rewrite E0, HF in Res.
  assert (Abs : forall pcs flags, runs (mk 0 m0) (map EOut evs) (mk pcs m') -> absorbed w code cmem lib (mk pcs m') flags ->
            runs (mk 0 m0) (map EOut evs ++ flags) (tnt lib m') /\ ~ Halts (mk 0 m0) /\
            forall k, csteps (mk 0 m0) (map EOut evs ++ flags ++ repeat sleep_ev k) (tnt lib m')).
  { intros pcs flags Rn [Nh [Rt [_ Cs]]]. cbn [mm] in Rt, Cs.
    destruct (runs_not_halts act _ _ _ Rn Nh) as [N0 C0].
    split; [eapply runs_trans; [exact Rn | exact Rt]|]. split; [exact N0|].
    intros k. eapply csteps_app; [exact C0 | apply Cs]. }
  destruct Hl as [_ [_ [_ [_ [CAl [BR _]]]]]]. unfold R, hidc_regs_gb in CAl, BR; cbn [a_lib] in CAl, BR.
  exists m'. destruct res as [v|ft].
  - destruct Res as [Rn _]. replace (F - w) with ((stack + n + 5) * w) in Rn by (unfold F; lia). rewrite Ira in Rn.
    apply (Abs _ _ Rn). apply (all_is_win_absorbing w code cmem lib Hw CAl BR m').
  - unfold R, hidc_regs_gb in Res; cbn [a_lib] in Res. apply (Abs _ _ Res).
    destruct ft; cbn [fault_off result_flags];
      [apply (division_by_zero_absorbing w code cmem lib Hw CAl BR m') | apply (stack_overflow_absorbing w code cmem lib Hw CAl BR m')].
Qed.
(* in particular (C03 for these programs): the compiled program never halts *)
Corollary program_never_halts evs res m0 :
  prog_ok_b w ng nbg funs (length args) = true ->
  0 <= stack -> lib + stdlib_len <= Machine.W w -> (stack + n + 6) * w < Machine.W w / 2 ->
  init_ok w stack args (lib + off_all_is_win) ga ginit gb binit m0 ->
  callf w funs ((stack + n + 1) * w) 0 args (ginit, binit) evs res ->
  ~ Halts (mk 0 m0).
Proof.
  intros H1 H2 H3 H4 H5 H6. destruct (program_lowering_correct evs res m0 H1 H2 H3 H4 H5 H6) as [m' [_ [N _]]]. exact N.
Qed.
End Program.

(* ================================================================================= *)
(* satisfiability examples (w = 2, hidc's register layout, a 64-byte state section)     *)
(* ================================================================================= *)
Ltac carith :=
  repeat match goal with
  | |- _ /\ _ => split
  | |- _ <= _ => vm_compute; intro; discriminate
  | |- _ < _ => vm_compute; reflexivity
  | |- (_ < _)%nat => vm_compute; lia
  | |- _ = true => vm_compute; reflexivity
  | |- _ = _ => vm_compute; reflexivity
  | |- _ \/ _ => vm_compute; first [left; intro; discriminate | right; intro; discriminate]
  | |- True => exact I
  end.
Section ExamplesS.
(* int x = a + 1; bool p = x < b;
   while (x < 9) { write((x + 48) is byte); if (x == 7) { break; } x += 1; }
   if (p and c != 2) { write('A'); } else { writeln(); }
   { int k = c * c; write(k is byte); } *)
Definition sx_ss : stmts :=
  SCons (SDeclI (OArith SAdd (OVar 0) (OLit false 1)))
  (SCons (SDeclB (BCmp SLt (OVar 3) (OVar 1)))
  (SCons (SWhile (BCmp SLt (OVar 3) (OLit false 9))
            (SCons (SWrite (WrByte (OArith SAdd (OVar 3) (OLit false 48))))
            (SCons (SIf (BCmp SEq (OVar 3) (OLit false 7)) (SCons SBreak SNil) SNil)
            (SCons (SAssignI 3 (OArith SAdd (OVar 3) (OLit false 1))) SNil)))
            SNil)
  (SCons (SIf (BAnd (BVar (BLocal 0)) (BCmp SNe (OVar 2) (OLit false 2))) (SCons (SWrite (WrChar 65)) SNil) (SCons SWriteln SNil))
  (SCons (SBlock (SCons (SDeclI (OArith SMul (OVar 2) (OVar 2))) (SCons (SWrite (WrByte (OVar 4))) SNil)))
   SNil)))).
Definition sx_S : senv := is_you_senv 2 3.
Definition sx_st : lstate := fun _ => 0%nat.
Definition sx_s0 : store := mkstore [5; 7; 2] [] [] [].
Definition sx_out : list Z := [54; 55; 10; 4].
Definition sx_code : list aline := fst (lower_body sx_S sx_ss sx_st).
Definition sx_ra : Z := size sx_code.            (* the caller: an absorbing stub right after the body *)
Definition sx_ext (l : label) : Z := 0.
Definition sx_prog : list instr := resolve (hidc_regs 2 62 200) sx_ext 0 sx_code ++ [IJ (Imm sx_ra); IHalt].
(* ap = 40 (the stack area starts there); fp = 60; return address at 58; a = 5 at 56, b = 7 at 54, c = 2 at 52 *)
Definition sx_mem : mem :=
  Machine.sw 2 (Machine.sw 2 (Machine.sw 2 (Machine.sw 2 (Machine.sw 2 (Machine.sw 2 ex_zero 0 40) 2 60) 58 sx_ra) 56 5) 54 7) 52 2.

Example sx_exec : exists s1, execs 2 [] 20 sx_ss sx_s0 sx_out ONormal s1.
Proof.
  destruct (istmts 2 [] 40 20 sx_ss sx_s0) as [[[e out] s1]|] eqn:E; [|vm_compute in E; discriminate E].
  exists s1. assert (Ee : e = sx_out /\ out = ONormal) by (vm_compute in E; inversion E; split; reflexivity).
  destruct Ee as [<- <-]. apply (proj1 (proj2 (interp_sound 2 [] 40))). exact E.
Qed.
Lemma sx_wf : wf_senv 2 2 sx_S.
Proof.
  constructor; cbn [sx_S is_you_senv ws top ioffs boffs map seq length]; try lia; try reflexivity.
  - intros i Hi. destruct i as [|[|[|]]]; try (cbn in Hi; lia); carith.
  - intros i i' Hi Hi' Ne. destruct i as [|[|[|]]]; try (cbn in Hi; lia); destruct i' as [|[|[|]]]; try (cbn in Hi'; lia);
      try congruence; carith.
Qed.
Lemma sx_rep : rep 2 (hidc_regs 2 62 200) 40 60 0 0 sx_S sx_s0 sx_mem.
Proof.
  assert (Wfm : wf_mem sx_mem) by (unfold sx_mem; repeat (apply (wf_sw 2); [|lia]); apply wf_ex_zero).
  constructor; try reflexivity; try (vm_compute; intro; discriminate).
  - constructor; try exact Wfm; carith.
  - intros i Hi. destruct i as [|[|[|]]]; cbn in Hi; try lia; vm_compute; reflexivity.
  - intros j Hj. cbn in Hj. lia.
  - intros g Hg. lia.
  - intros g g' Hg. lia.
  - intros g Hg. lia.
  - split; intros; lia.
Qed.
Lemma sx_scoped ng nbg lib cf : ssscoped 2 ng nbg lib cf 3 0 false sx_ss.
Proof. cbn. repeat split; try lia; carith. Qed.

(* the theorem applies: the body runs to the return address, emitting the source's output *)
Example body_lowering_ex :
  exists m', HidV.Sphinx.Halts.runs (Machine.act 2 (code_of sx_prog) (zmem 0)) (mk 0 sx_mem) (map EOut sx_out) (mk sx_ra m').
Proof.
  destruct sx_exec as [s1 Hx].
  destruct (body_lowering_correct 2 ltac:(lia) (code_of sx_prog) (zmem 0) (hidc_regs 2 62 200) 40 sx_ext
              ltac:(intros x; vm_compute; split; [discriminate | reflexivity])
              [] 60 0%nat 0%nat ltac:(lia) sx_ss 20 sx_s0 sx_out s1 sx_S sx_st 0 sx_mem Hx) as [m' [Rn _]].
  - apply code_at_code_of_app.
  - lia.
  - vm_compute. reflexivity.
  - apply sx_wf.
  - reflexivity.
  - apply sx_rep.
  - vm_compute. reflexivity.
  - apply sx_scoped.
  - vm_compute. intro; discriminate.
  - exists m'. replace (Machine.lw 2 sx_mem (LowerBoolProofs.FP 2 (hidc_regs 2 62 200) sx_mem - 2)) with sx_ra in Rn by (vm_compute; reflexivity).
    exact Rn.
Qed.

(* end to end on the verified VM: the resolved model output, started in the state section below,
   is absorbed in the caller stub after emitting exactly the output of the source semantics *)
Definition sx_bytes : list Z := map (fun a => getb sx_mem (Z.of_nat a)) (seq 0 64).
Example body_vm_run_ex :
  match run_program 2 sx_bytes [] sx_prog [] mon_none 2000 with
  | OAbsorbed evs s _ => evs = map EOut sx_out /\ pc s = sx_ra
  | _ => False
  end.
Proof. vm_compute. split; reflexivity. Qed.
End ExamplesS.

(* ---------- a program that prints numbers, with the runtime library in the code ---------- *)
Section ExamplesLib.
(* int x = a * 100; writeln(x - 7); write(x > b);   with a = 5, b = 7:  "493\n" then "true" *)
Definition lx_ss : stmts :=
  SCons (SDeclI (OArith SMul (OVar 0) (OLit false 100)))
  (SCons (SWriteI true (OArith SSub (OVar 3) (OLit false 7)))
  (SCons (SWriteB false (BCmp SGt (OVar 3) (OVar 1))) SNil)).
Definition lx_out : list Z := [52; 57; 51; 10; 116; 114; 117; 101].
Definition lx_code : list aline := fst (lower_body sx_S lx_ss sx_st).
Definition lx_lib : Z := size lx_code.              (* the library follows the function *)
Definition lx_regs : regmap := hidc_regs 2 62 lx_lib.
Definition lx_prog : list instr := resolve lx_regs sx_ext 0 lx_code ++ stdlib_code 2 lx_lib.
(* ap = 10 = stack_start; the entry return address is all_is_win, the first label of the library *)
Definition lx_mem : mem :=
  Machine.sw 2 (Machine.sw 2 (Machine.sw 2 (Machine.sw 2 (Machine.sw 2 (Machine.sw 2 ex_zero 0 10) 2 60) 58 lx_lib) 56 5) 54 7) 52 2.

Example lx_exec : exists s1, execs 2 [] 50 lx_ss sx_s0 lx_out ONormal s1.
Proof.
  destruct (istmts 2 [] 10 50 lx_ss sx_s0) as [[[e out] s1]|] eqn:E; [|vm_compute in E; discriminate E].
  exists s1. assert (Ee : e = lx_out /\ out = ONormal) by (vm_compute in E; inversion E; split; reflexivity).
  destruct Ee as [<- <-]. apply (proj1 (proj2 (interp_sound 2 [] 10))). exact E.
Qed.
Lemma lx_lib_hyps : lib_hyps 2 lx_regs (code_of lx_prog).
Proof.
  unfold lib_hyps. repeat split; try reflexivity; try (vm_compute; intro; discriminate).
  apply (lib_at_after 2 _ lx_lib). vm_compute. reflexivity.
Qed.
Lemma lx_rep : rep 2 lx_regs 10 60 0 0 sx_S sx_s0 lx_mem.
Proof.
  assert (Wfm : wf_mem lx_mem) by (unfold lx_mem; repeat (apply (wf_sw 2); [|lia]); apply wf_ex_zero).
  constructor; try reflexivity; try (vm_compute; intro; discriminate).
  - constructor; try exact Wfm; carith.
  - intros i Hi. destruct i as [|[|[|]]]; cbn in Hi; try lia; vm_compute; reflexivity.
  - intros j Hj. cbn in Hj. lia.
  - intros g Hg. lia.
  - intros g g' Hg. lia.
  - intros g Hg. lia.
  - split; intros; lia.
Qed.
Example lib_body_lowering_ex :
  exists m', HidV.Sphinx.Halts.runs (Machine.act 2 (code_of lx_prog) (zmem 0)) (mk 0 lx_mem) (map EOut lx_out) (mk lx_lib m').
Proof.
  destruct lx_exec as [s1 Hx].
  destruct (body_lowering_correct 2 ltac:(lia) (code_of lx_prog) (zmem 0) lx_regs 10 sx_ext
              ltac:(intros x; vm_compute; split; [discriminate | reflexivity])
              [] 60 0%nat 0%nat ltac:(lia) lx_ss 50 sx_s0 lx_out s1 sx_S sx_st 0 lx_mem Hx) as [m' [Rn _]].
  - apply code_at_code_of_app.
  - lia.
  - vm_compute. reflexivity.
  - apply sx_wf.
  - reflexivity.
  - apply lx_rep.
  - vm_compute. reflexivity.
  - cbn. repeat split; try lia; try apply lx_lib_hyps; carith.
  - vm_compute. intro; discriminate.
  - exists m'. replace (Machine.lw 2 lx_mem (LowerBoolProofs.FP 2 lx_regs lx_mem - 2)) with lx_lib in Rn by (vm_compute; reflexivity).
    exact Rn.
Qed.
(* end to end on the verified VM: the program prints "493\n" and "true", returns into all_is_win,
   raises the win flag and is absorbed *)
Definition lx_bytes : list Z := map (fun a => getb lx_mem (Z.of_nat a)) (seq 0 64).
Example lib_body_vm_run_ex :
  match run_program 2 lx_bytes [] lx_prog [] mon_none 5000 with
  | OAbsorbed evs s _ => firstn 9 evs = map EOut lx_out ++ [EFlag 0]
  | _ => False
  end.
Proof. vm_compute. reflexivity. Qed.
End ExamplesLib.

(* ---------- a whole program: recursion, division, all three ways to end ---------- *)
Section ExamplesProg.
(* int f1(int p0) { if (p0 < 2) { return 1; } int r = f1(p0 - 1); return r * p0; }
   empty @is_you(int a0) { int x = f1(a0); writeln(x); int q = x / (a0 - 5); writeln(q % 7); return; } *)
Definition px_funs : list fundef :=
  [ mkfun 1 (SCons (SCall DDecl 1 [OVar 0])
            (SCons (SWriteI true (OVar 1))
            (SCons (SDeclDiv SDiv (OVar 1) (OArith SSub (OVar 0) (OLit false 5)))
            (SCons (SDeclDiv SMod (OVar 2) (OLit false 7))
            (SCons (SWriteI true (OVar 3))
            (SCons (SReturn None) SNil))))));
    mkfun 1 (SCons (SIf (BCmp SLt (OVar 0) (OLit false 2)) (SCons (SReturn (Some (OLit false 1))) SNil) SNil)
            (SCons (SCall DDecl 1 [OArith SSub (OVar 0) (OLit false 1)])
            (SCons (SReturn (Some (OArith SMul (OVar 1) (OVar 0)))) SNil))) ].
Definition px_code : list aline := lower_program 2 px_funs.
Definition px_lib : Z := size px_code.
Definition px_prog : list instr := resolve (hidc_regs 2 0 px_lib) (fun _ => 0) 0 px_code ++ stdlib_code 2 px_lib.
(* the image of hidc's state section for `-s stack`: ap, fp, r0..r2, the stack, the argument, all_is_win *)
Definition px_mem (stack a0 : Z) : mem :=
  let F := (stack + 7) * 2 in
  Machine.sw 2 (Machine.sw 2 (Machine.sw 2 (Machine.sw 2 (mkmem F (FMapPositive.PositiveMap.empty Z)) 0 10) 2 F) (F - 2) px_lib) (F - 4) a0.
Lemma px_init stack a0 : 0 <= stack <= 100 -> - 1000 <= a0 <= 1000 -> init_ok 2 stack [a0] (px_lib + off_all_is_win) (fun _ => 0) [] (fun _ => 0) [] (px_mem stack a0).
Proof.
  intros Hs Ha. set (F := (stack + 7) * 2).
  assert (Wz : wf_mem (mkmem F (FMapPositive.PositiveMap.empty Z))) by (intros a; unfold getb; cbn [mdata]; rewrite FMapPositive.PositiveMap.gempty; lia).
  assert (HW : Machine.W 2 = 65536) by reflexivity.
  unfold px_mem. fold F. constructor; cbn [length]; change (Z.of_nat 1) with 1.
  - repeat (apply (wf_sw 2); [|lia]). exact Wz.
  - rewrite !(lw_sw_other 2) by lia. rewrite (lw_sw_same 2) by lia. reflexivity.
  - rewrite !(lw_sw_other 2) by lia. rewrite (lw_sw_same 2) by lia. unfold Machine.wrap. rewrite HW. rewrite Z.mod_small by lia. lia.
  - rewrite !msize_sw. cbn [msize]. lia.
  - replace ((stack + 1 + 5) * 2) with (F - 2) by (unfold F; lia). rewrite (lw_sw_other 2) by lia. rewrite (lw_sw_same 2) by lia.
    unfold off_all_is_win. rewrite Z.add_0_r. vm_compute. reflexivity.
  - intros k Hk. destruct k as [|k]; [|cbn in Hk; lia]. cbn [nth]. change (Z.of_nat 0) with 0.
    replace ((stack + 1 + 6) * 2 - (0 + 2) * 2) with (F - 4) by (unfold F; lia). rewrite (lw_sw_same 2) by lia.
    unfold Machine.sgn, Machine.wrap. rewrite HW. change (65536 / 2) with 32768.
    destruct (Z.ltb_spec (a0 mod 65536) 32768); lia.
  - intros g Hg. cbn in Hg. lia.
  - intros g g' Hg. cbn in Hg. lia.
  - intros g Hg. cbn in Hg. lia.
  - split; intros ? ? Hg; cbn in Hg; lia.
Qed.
Lemma px_ok : prog_ok_b 2 0 0 px_funs 1 = true.
Proof. vm_compute. reflexivity. Qed.
(* the source semantics, computed: 4! = 24, 24 / (4 - 5) = -24, -24 % 7 = 4;  5! = 120, then 120 / 0;
   with 8 words of stack the recursion does not fit *)
Definition px_out4 : list Z := [50; 52; 10; 52; 10].
Definition px_out5 : list Z := [49; 50; 48; 10].
Lemma px_call stack a0 evs res : icall 2 px_funs 100 ((stack + 2) * 2) 0 [a0] ([], []) = Some (evs, res) ->
  callf 2 px_funs ((stack + Z.of_nat (length [a0]) + 1) * 2) 0 [a0] ([], []) evs res.
Proof. intros H. apply (proj2 (proj2 (interp_sound 2 px_funs 100))). cbn [length]. change (Z.of_nat 1) with 1. replace (stack + 1 + 1) with (stack + 2) by lia. exact H. Qed.
Notation px_act := (Machine.act 2 (code_of px_prog) (zmem 0)).
Example program_returns_ex : exists m',
  HidV.Sphinx.Halts.runs px_act (mk 0 (px_mem 40 4)) (map EOut px_out4 ++ [EFlag 0]) (tnt px_lib m') /\
  ~ HidV.Sphinx.Halts.Halts px_act (mk 0 (px_mem 40 4)).
Proof.
  destruct (program_lowering_correct 2 ltac:(lia) px_funs 40 [4] 0 (fun _ => 0) [] (fun _ => 0) [] (zmem 0) px_out4 (CRet None ([], [])) (px_mem 40 4) px_ok ltac:(lia)
              ltac:(vm_compute; intro; discriminate) ltac:(vm_compute; reflexivity) (px_init 40 4 ltac:(lia) ltac:(lia))
              (px_call 40 4 _ _ ltac:(vm_compute; reflexivity))) as [m' [Rn [Nh _]]].
  exists m'. split; [exact Rn | exact Nh].
Qed.
Example program_divides_by_zero_ex : exists m',
  HidV.Sphinx.Halts.runs px_act (mk 0 (px_mem 40 5)) (map EOut px_out5 ++ [EFlag 3; EFlag 1]) (tnt px_lib m') /\
  ~ HidV.Sphinx.Halts.Halts px_act (mk 0 (px_mem 40 5)).
Proof.
  destruct (program_lowering_correct 2 ltac:(lia) px_funs 40 [5] 0 (fun _ => 0) [] (fun _ => 0) [] (zmem 0) px_out5 (CFault FDivZero) (px_mem 40 5) px_ok ltac:(lia)
              ltac:(vm_compute; intro; discriminate) ltac:(vm_compute; reflexivity) (px_init 40 5 ltac:(lia) ltac:(lia))
              (px_call 40 5 _ _ ltac:(vm_compute; reflexivity))) as [m' [Rn [Nh _]]].
  exists m'. split; [exact Rn | exact Nh].
Qed.
Example program_overflows_ex : exists m',
  HidV.Sphinx.Halts.runs px_act (mk 0 (px_mem 8 4)) [EFlag 2; EFlag 1] (tnt px_lib m') /\
  ~ HidV.Sphinx.Halts.Halts px_act (mk 0 (px_mem 8 4)).
Proof.
  destruct (program_lowering_correct 2 ltac:(lia) px_funs 8 [4] 0 (fun _ => 0) [] (fun _ => 0) [] (zmem 0) [] (CFault FStackOverflow) (px_mem 8 4) px_ok ltac:(lia)
              ltac:(vm_compute; intro; discriminate) ltac:(vm_compute; reflexivity) (px_init 8 4 ltac:(lia) ltac:(lia))
              (px_call 8 4 _ _ ltac:(vm_compute; reflexivity))) as [m' [Rn [Nh _]]].
  exists m'. split; [exact Rn | exact Nh].
Qed.
(* the same three runs on the verified VM *)
Definition px_bytes (stack a0 : Z) : list Z := map (fun a => getb (px_mem stack a0) (Z.of_nat a)) (seq 0 (Z.to_nat ((stack + 7) * 2))).
Example program_vm_run_ex :
  match run_program 2 (px_bytes 40 4) [] px_prog [] mon_none 4000 with
  | OAbsorbed evs _ _ => firstn 6 evs = map EOut px_out4 ++ [EFlag 0]
  | _ => False
  end /\
  match run_program 2 (px_bytes 40 5) [] px_prog [] mon_none 4000 with
  | OAbsorbed evs _ _ => firstn 6 evs = map EOut px_out5 ++ [EFlag 3; EFlag 1]
  | _ => False
  end /\
  match run_program 2 (px_bytes 8 4) [] px_prog [] mon_none 4000 with
  | OAbsorbed evs _ _ => firstn 2 evs = [EFlag 2; EFlag 1]
  | _ => False
  end.
Proof. vm_compute. repeat split; reflexivity. Qed.

(* a program with an int global and a bool global, both read and assigned:
     int g0 = 5;  bool h0 = false;
     empty @is_you(int a0) { g0 = g0 + a0; h0 = g0 > 6; if (h0) { write('Y'); } else { write('N'); }
                             write(g0 is byte); writeln(g0); g0 /= a0 - 4; writeln(-g0); return; } *)
Definition gx_funs : list fundef :=
  [ mkfun 1 (SCons (SAssignG 0 (OArith SAdd (OGlob 0) (OVar 0)))
            (SCons (SAssignBG 0 (BCmp SGt (OGlob 0) (OLit false 6)))
            (SCons (SIf (BVar (BGlobal 0)) (SCons (SWrite (WrChar 89)) SNil) (SCons (SWrite (WrChar 78)) SNil))
            (SCons (SWrite (WrByte (OGlob 0)))
            (SCons (SWriteI true (OGlob 0))
            (SCons (SAssignGDiv 0 SDiv (OGlob 0) (OArith SSub (OVar 0) (OLit false 4)))
            (SCons (SWriteI true (OUn UNeg (OGlob 0)))
            (SCons (SReturn None) SNil)))))))) ].
Definition gx_code : list aline := lower_program 2 gx_funs.
Definition gx_lib : Z := size gx_code.
(* hidc's layout (-s 40, one parameter): stack_end = 94; var_g0_0 at 94 (.word 5), var_h0_0 at 96 (.byte 0) *)
Definition gx_ga (g : nat) : Z := glob_addr 2 40 1 gx_funs (GI g).
Definition gx_gb (h : nat) : Z := glob_addr 2 40 1 gx_funs (GB h).
Definition gx_prog : list instr := resolve (hidc_regs_gb 2 0 gx_lib gx_ga gx_gb) (fun _ => 0) 0 gx_code ++ stdlib_code 2 gx_lib.
Definition gx_mem (a0 : Z) : mem :=
  Machine.sw 2 (Machine.sw 2 (Machine.sw 2 (Machine.sw 2 (Machine.sw 2 (mkmem 97 (FMapPositive.PositiveMap.empty Z)) 0 10) 2 94) 92 gx_lib) 90 a0) 94 5.
Example gx_layout : gx_ga 0 = 94 /\ gx_gb 0 = 96.
Proof. vm_compute. split; reflexivity. Qed.
Lemma gx_init a0 : - 1000 <= a0 <= 1000 -> init_ok 2 40 [a0] (gx_lib + off_all_is_win) gx_ga [5] gx_gb [0] (gx_mem a0).
Proof.
  intros Ha.
  assert (Wz : wf_mem (mkmem 97 (FMapPositive.PositiveMap.empty Z))) by (intros a; unfold getb; cbn [mdata]; rewrite FMapPositive.PositiveMap.gempty; lia).
  assert (HW : Machine.W 2 = 65536) by reflexivity.
  assert (G0 : gx_ga 0 = 94) by (vm_compute; reflexivity). assert (B0 : gx_gb 0 = 96) by (vm_compute; reflexivity).
  unfold gx_mem. constructor; cbn [length]; change (Z.of_nat 1) with 1.
  - repeat (apply (wf_sw 2); [|lia]). exact Wz.
  - rewrite !(lw_sw_other 2) by lia. rewrite (lw_sw_same 2) by lia. reflexivity.
  - rewrite !(lw_sw_other 2) by lia. rewrite (lw_sw_same 2) by lia. reflexivity.
  - rewrite !msize_sw. cbn [msize]. lia.
  - change ((40 + 1 + 5) * 2) with 92. rewrite !(lw_sw_other 2) by lia. rewrite (lw_sw_same 2) by lia.
    unfold off_all_is_win. rewrite Z.add_0_r. vm_compute. reflexivity.
  - intros k Hk. destruct k as [|k]; [|cbn in Hk; lia]. cbn [nth]. change ((40 + 1 + 6) * 2 - (Z.of_nat 0 + 2) * 2) with 90.
    rewrite (lw_sw_other 2) by lia. rewrite (lw_sw_same 2) by lia.
    unfold Machine.sgn, Machine.wrap. rewrite HW. change (65536 / 2) with 32768.
    destruct (Z.ltb_spec (a0 mod 65536) 32768); lia.
  - intros g Hg. destruct g as [|g]; [|cbn in Hg; lia]. rewrite G0, HW. change ((40 + 1 + 6) * 2) with 94. split; [lia|]. split.
    + unfold inb. rewrite !msize_sw. cbn [msize]. reflexivity.
    + rewrite (lw_sw_same 2) by lia. vm_compute. reflexivity.
  - intros g g' Hg Hg'. cbn in Hg, Hg'. lia.
  - intros h Hh. destruct h as [|h]; [|cbn in Hh; lia]. rewrite B0, HW. change ((40 + 1 + 6) * 2) with 94. split; [lia|]. split; [|split].
    + unfold inb. rewrite !msize_sw. cbn [msize]. reflexivity.
    + unfold Machine.lb. rewrite !(getb_sw_other 2) by lia. unfold getb; cbn [mdata]. rewrite FMapPositive.PositiveMap.gempty. reflexivity.
    + left. reflexivity.
  - split.
    + intros h h' Hh Hh'. cbn in Hh, Hh'. lia.
    + intros g h Hg Hh. destruct g as [|g]; [|cbn in Hg; lia]. destruct h as [|h]; [|cbn in Hh; lia]. rewrite G0, B0. lia.
Qed.
Lemma gx_ok : prog_ok_b 2 1 1 gx_funs 1 = true.
Proof. vm_compute. reflexivity. Qed.
(* a0 = 2: g0 = 7, h0 = true: "Y", byte 7, "7\n", g0 = 7 / -2 = -4 (the machine rounds down): "4\n";  a0 = 4: g0 = 9, then 9 / 0 *)
Definition gx_out2 : list Z := [89; 7; 55; 10; 52; 10].
Definition gx_out4 : list Z := [89; 9; 57; 10].
Lemma gx_call a0 evs res : icall 2 gx_funs 100 ((40 + 2) * 2) 0 [a0] ([5], [0]) = Some (evs, res) ->
  callf 2 gx_funs ((40 + Z.of_nat (length [a0]) + 1) * 2) 0 [a0] ([5], [0]) evs res.
Proof. intros H. apply (proj2 (proj2 (interp_sound 2 gx_funs 100))). exact H. Qed.
Notation gx_act := (Machine.act 2 (code_of gx_prog) (zmem 0)).
Example program_globals_ex : exists m',
  HidV.Sphinx.Halts.runs gx_act (mk 0 (gx_mem 2)) (map EOut gx_out2 ++ [EFlag 0]) (tnt gx_lib m') /\
  ~ HidV.Sphinx.Halts.Halts gx_act (mk 0 (gx_mem 2)).
Proof.
  destruct (program_lowering_correct 2 ltac:(lia) gx_funs 40 [2] 0 gx_ga [5] gx_gb [0] (zmem 0) gx_out2 (CRet None ([-4], [1])) (gx_mem 2) gx_ok ltac:(lia)
              ltac:(vm_compute; intro; discriminate) ltac:(vm_compute; reflexivity) (gx_init 2 ltac:(lia))
              (gx_call 2 _ _ ltac:(vm_compute; reflexivity))) as [m' [Rn [Nh _]]].
  exists m'. split; [exact Rn | exact Nh].
Qed.
Example program_globals_fault_ex : exists m',
  HidV.Sphinx.Halts.runs gx_act (mk 0 (gx_mem 4)) (map EOut gx_out4 ++ [EFlag 3; EFlag 1]) (tnt gx_lib m') /\
  ~ HidV.Sphinx.Halts.Halts gx_act (mk 0 (gx_mem 4)).
Proof.
  destruct (program_lowering_correct 2 ltac:(lia) gx_funs 40 [4] 0 gx_ga [5] gx_gb [0] (zmem 0) gx_out4 (CFault FDivZero) (gx_mem 4) gx_ok ltac:(lia)
              ltac:(vm_compute; intro; discriminate) ltac:(vm_compute; reflexivity) (gx_init 4 ltac:(lia))
              (gx_call 4 _ _ ltac:(vm_compute; reflexivity))) as [m' [Rn [Nh _]]].
  exists m'. split; [exact Rn | exact Nh].
Qed.
(* the same two runs on the verified VM, from the bytes of the image *)
Definition gx_bytes (a0 : Z) : list Z := map (fun a => getb (gx_mem a0) (Z.of_nat a)) (seq 0 97).
Example program_globals_vm_run_ex :
  match run_program 2 (gx_bytes 2) [] gx_prog [] mon_none 4000 with
  | OAbsorbed evs _ _ => firstn 7 evs = map EOut gx_out2 ++ [EFlag 0]
  | _ => False
  end /\
  match run_program 2 (gx_bytes 4) [] gx_prog [] mon_none 4000 with
  | OAbsorbed evs _ _ => firstn 6 evs = map EOut gx_out4 ++ [EFlag 3; EFlag 1]
  | _ => False
  end.
Proof. vm_compute. repeat split; reflexivity. Qed.

(* byte reads: the low byte of an int (truncation), a byte-sized local read as an int (zero-extension),
   in a declaration (push context), in arithmetic, under write(.. is byte):
     empty @is_you(int a0) { int y = (a0 is byte) is int; bool q = y > 40; writeln(y + ((q is byte) is int));
                             int z = (q is byte) is int; write(((a0 is byte) is int) is byte);
                             writeln(z - ((y is byte) is int)); return; } *)
Definition bx_funs : list fundef :=
  [ mkfun 1 (SCons (SDeclI (OByte (YLow 0)))
            (SCons (SDeclB (BCmp SGt (OVar 1) (OLit false 40)))
            (SCons (SWriteI true (OArith SAdd (OVar 1) (OByte (YSlot 0))))
            (SCons (SDeclI (OByte (YSlot 0)))
            (SCons (SWrite (WrByte (OByte (YLow 0))))
            (SCons (SWriteI true (OArith SSub (OVar 2) (OByte (YLow 1))))
            (SCons (SReturn None) SNil))))))) ].
Definition bx_code : list aline := lower_program 2 bx_funs.
Definition bx_lib : Z := size bx_code.
Definition bx_prog : list instr := resolve (hidc_regs 2 0 bx_lib) (fun _ => 0) 0 bx_code ++ stdlib_code 2 bx_lib.
Definition bx_mem (a0 : Z) : mem :=
  Machine.sw 2 (Machine.sw 2 (Machine.sw 2 (Machine.sw 2 (mkmem 94 (FMapPositive.PositiveMap.empty Z)) 0 10) 2 94) 92 bx_lib) 90 a0.
Lemma bx_init a0 : - 1000 <= a0 <= 1000 -> init_ok 2 40 [a0] (bx_lib + off_all_is_win) (fun _ => 0) [] (fun _ => 0) [] (bx_mem a0).
Proof.
  intros Ha.
  assert (Wz : wf_mem (mkmem 94 (FMapPositive.PositiveMap.empty Z))) by (intros a; unfold getb; cbn [mdata]; rewrite FMapPositive.PositiveMap.gempty; lia).
  assert (HW : Machine.W 2 = 65536) by reflexivity.
  unfold bx_mem. constructor; cbn [length]; change (Z.of_nat 1) with 1.
  - repeat (apply (wf_sw 2); [|lia]). exact Wz.
  - rewrite !(lw_sw_other 2) by lia. rewrite (lw_sw_same 2) by lia. reflexivity.
  - rewrite !(lw_sw_other 2) by lia. rewrite (lw_sw_same 2) by lia. reflexivity.
  - rewrite !msize_sw. cbn [msize]. lia.
  - change ((40 + 1 + 5) * 2) with 92. rewrite (lw_sw_other 2) by lia. rewrite (lw_sw_same 2) by lia.
    unfold off_all_is_win. rewrite Z.add_0_r. vm_compute. reflexivity.
  - intros k Hk. destruct k as [|k]; [|cbn in Hk; lia]. cbn [nth]. change ((40 + 1 + 6) * 2 - (Z.of_nat 0 + 2) * 2) with 90.
    rewrite (lw_sw_same 2) by lia.
    unfold Machine.sgn, Machine.wrap. rewrite HW. change (65536 / 2) with 32768.
    destruct (Z.ltb_spec (a0 mod 65536) 32768); lia.
  - intros g Hg. cbn in Hg. lia.
  - intros g g' Hg. cbn in Hg. lia.
  - intros g Hg. cbn in Hg. lia.
  - split; intros ? ? Hg; cbn in Hg; lia.
Qed.
Lemma bx_ok : prog_ok_b 2 0 0 bx_funs 1 = true.
Proof. vm_compute. reflexivity. Qed.
(* a0 = 300: y = 44, q: "45\n", the byte 44, z - 44 = -43: "-43\n";  a0 = -1: y = 255: "256\n", the byte 255, "-254\n" *)
Definition bx_out300 : list Z := [52; 53; 10; 44; 45; 52; 51; 10].
Definition bx_outm1 : list Z := [50; 53; 54; 10; 255; 45; 50; 53; 52; 10].
Lemma bx_call a0 evs res : icall 2 bx_funs 100 ((40 + 2) * 2) 0 [a0] ([], []) = Some (evs, res) ->
  callf 2 bx_funs ((40 + Z.of_nat (length [a0]) + 1) * 2) 0 [a0] ([], []) evs res.
Proof. intros H. apply (proj2 (proj2 (interp_sound 2 bx_funs 100))). exact H. Qed.
Notation bx_act := (Machine.act 2 (code_of bx_prog) (zmem 0)).
Example program_byte_reads_ex :
  (exists m', HidV.Sphinx.Halts.runs bx_act (mk 0 (bx_mem 300)) (map EOut bx_out300 ++ [EFlag 0]) (tnt bx_lib m')) /\
  (exists m', HidV.Sphinx.Halts.runs bx_act (mk 0 (bx_mem (-1))) (map EOut bx_outm1 ++ [EFlag 0]) (tnt bx_lib m')).
Proof.
  split.
  - destruct (program_lowering_correct 2 ltac:(lia) bx_funs 40 [300] 0 (fun _ => 0) [] (fun _ => 0) [] (zmem 0) bx_out300 (CRet None ([], [])) (bx_mem 300) bx_ok ltac:(lia)
              ltac:(vm_compute; intro; discriminate) ltac:(vm_compute; reflexivity) (bx_init 300 ltac:(lia))
              (bx_call 300 _ _ ltac:(vm_compute; reflexivity))) as [m' [Rn _]]. exists m'. exact Rn.
  - destruct (program_lowering_correct 2 ltac:(lia) bx_funs 40 [-1] 0 (fun _ => 0) [] (fun _ => 0) [] (zmem 0) bx_outm1 (CRet None ([], [])) (bx_mem (-1)) bx_ok ltac:(lia)
              ltac:(vm_compute; intro; discriminate) ltac:(vm_compute; reflexivity) (bx_init (-1) ltac:(lia))
              (bx_call (-1) _ _ ltac:(vm_compute; reflexivity))) as [m' [Rn _]]. exists m'. exact Rn.
Qed.
Definition bx_bytes (a0 : Z) : list Z := map (fun a => getb (bx_mem a0) (Z.of_nat a)) (seq 0 94).
Example program_byte_reads_vm_run_ex :
  match run_program 2 (bx_bytes 300) [] bx_prog [] mon_none 4000 with
  | OAbsorbed evs _ _ => firstn 9 evs = map EOut bx_out300 ++ [EFlag 0]
  | _ => False
  end /\
  match run_program 2 (bx_bytes (-1)) [] bx_prog [] mon_none 4000 with
  | OAbsorbed evs _ _ => firstn 11 evs = map EOut bx_outm1 ++ [EFlag 0]
  | _ => False
  end.
Proof. vm_compute. repeat split; reflexivity. Qed.

(* byte casts of a global and of computed values, char literals as ints:
     int g0 = 5;
     empty @is_you(int a0) { writeln(((g0 is byte) is int) + 'a'); g0 = ((a0 + g0) is byte) is int; writeln(g0 - 'A');
                             int y = 'z' - (((a0 * 2) is byte) is int); write((y + 'a') is byte); return; } *)
Definition tx_funs : list fundef :=
  [ mkfun 1 (SCons (SWriteI true (OArith SAdd (OTrunc (OGlob 0)) (OLit true 97)))
            (SCons (SAssignG 0 (OTrunc (OArith SAdd (OVar 0) (OGlob 0))))
            (SCons (SWriteI true (OArith SSub (OGlob 0) (OLit true 65)))
            (SCons (SDeclI (OArith SSub (OLit true 122) (OTrunc (OArith SMul (OVar 0) (OLit false 2)))))
            (SCons (SWrite (WrByte (OArith SAdd (OVar 1) (OLit true 97))))
            (SCons (SReturn None) SNil)))))) ].
Definition tx_code : list aline := lower_program 2 tx_funs.
Definition tx_lib : Z := size tx_code.
Definition tx_ga (g : nat) : Z := glob_addr 2 40 1 tx_funs (GI g).
Definition tx_prog : list instr := resolve (hidc_regs_gb 2 0 tx_lib tx_ga (fun _ => 0)) (fun _ => 0) 0 tx_code ++ stdlib_code 2 tx_lib.
Definition tx_mem (a0 : Z) : mem :=
  Machine.sw 2 (Machine.sw 2 (Machine.sw 2 (Machine.sw 2 (Machine.sw 2 (mkmem 96 (FMapPositive.PositiveMap.empty Z)) 0 10) 2 94) 92 tx_lib) 90 a0) 94 5.
Lemma tx_init a0 : - 1000 <= a0 <= 1000 -> init_ok 2 40 [a0] (tx_lib + off_all_is_win) tx_ga [5] (fun _ => 0) [] (tx_mem a0).
Proof.
  intros Ha.
  assert (Wz : wf_mem (mkmem 96 (FMapPositive.PositiveMap.empty Z))) by (intros a; unfold getb; cbn [mdata]; rewrite FMapPositive.PositiveMap.gempty; lia).
  assert (HW : Machine.W 2 = 65536) by reflexivity.
  assert (G0 : tx_ga 0 = 94) by (vm_compute; reflexivity).
  unfold tx_mem. constructor; cbn [length]; change (Z.of_nat 1) with 1.
  - repeat (apply (wf_sw 2); [|lia]). exact Wz.
  - rewrite !(lw_sw_other 2) by lia. rewrite (lw_sw_same 2) by lia. reflexivity.
  - rewrite !(lw_sw_other 2) by lia. rewrite (lw_sw_same 2) by lia. reflexivity.
  - rewrite !msize_sw. cbn [msize]. lia.
  - change ((40 + 1 + 5) * 2) with 92. rewrite !(lw_sw_other 2) by lia. rewrite (lw_sw_same 2) by lia.
    unfold off_all_is_win. rewrite Z.add_0_r. vm_compute. reflexivity.
  - intros k Hk. destruct k as [|k]; [|cbn in Hk; lia]. cbn [nth]. change ((40 + 1 + 6) * 2 - (Z.of_nat 0 + 2) * 2) with 90.
    rewrite (lw_sw_other 2) by lia. rewrite (lw_sw_same 2) by lia.
    unfold Machine.sgn, Machine.wrap. rewrite HW. change (65536 / 2) with 32768.
    destruct (Z.ltb_spec (a0 mod 65536) 32768); lia.
  - intros g Hg. destruct g as [|g]; [|cbn in Hg; lia]. rewrite G0, HW. change ((40 + 1 + 6) * 2) with 94. split; [lia|]. split.
    + unfold inb. rewrite !msize_sw. cbn [msize]. reflexivity.
    + rewrite (lw_sw_same 2) by lia. vm_compute. reflexivity.
  - intros g g' Hg Hg'. cbn in Hg, Hg'. lia.
  - intros h Hh. cbn in Hh. lia.
  - split; intros ? ? Hg Hh; cbn in Hg, Hh; lia.
Qed.
Lemma tx_ok : prog_ok_b 2 1 0 tx_funs 1 = true.
Proof. vm_compute. reflexivity. Qed.
(* a0 = 300: 5 + 97: "102\n"; g0 = 305 mod 256 = 49, 49 - 65: "-16\n"; y = 122 - (600 mod 256 = 88) = 34, the byte 34 + 97 = 131 *)
Definition tx_out300 : list Z := [49; 48; 50; 10; 45; 49; 54; 10; 131].
Lemma tx_call a0 evs res : icall 2 tx_funs 100 ((40 + 2) * 2) 0 [a0] ([5], []) = Some (evs, res) ->
  callf 2 tx_funs ((40 + Z.of_nat (length [a0]) + 1) * 2) 0 [a0] ([5], []) evs res.
Proof. intros H. apply (proj2 (proj2 (interp_sound 2 tx_funs 100))). exact H. Qed.
Notation tx_act := (Machine.act 2 (code_of tx_prog) (zmem 0)).
Example program_byte_casts_ex : exists m',
  HidV.Sphinx.Halts.runs tx_act (mk 0 (tx_mem 300)) (map EOut tx_out300 ++ [EFlag 0]) (tnt tx_lib m').
Proof.
  destruct (program_lowering_correct 2 ltac:(lia) tx_funs 40 [300] 0 tx_ga [5] (fun _ => 0) [] (zmem 0) tx_out300 (CRet None ([49], [])) (tx_mem 300) tx_ok ltac:(lia)
              ltac:(vm_compute; intro; discriminate) ltac:(vm_compute; reflexivity) (tx_init 300 ltac:(lia))
              (tx_call 300 _ _ ltac:(vm_compute; reflexivity))) as [m' [Rn _]]. exists m'. exact Rn.
Qed.
Definition tx_bytes (a0 : Z) : list Z := map (fun a => getb (tx_mem a0) (Z.of_nat a)) (seq 0 96).
Example program_byte_casts_vm_run_ex :
  match run_program 2 (tx_bytes 300) [] tx_prog [] mon_none 4000 with
  | OAbsorbed evs _ _ => firstn 10 evs = map EOut tx_out300 ++ [EFlag 0]
  | _ => False
  end.
Proof. vm_compute. reflexivity. Qed.
End ExamplesProg.
