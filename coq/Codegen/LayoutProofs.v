(* Facts about the REGENERATED layout arithmetic (Gen/GenLayout.v, from generator.py):
   pack_bools puts element i of a bool list into bit (i mod 8) of byte (i / 8) and produces
   (n + 7) / 8 bytes, all in [0, 256); array sizes of admissible lengths do not wrap; every
   admissible stack lies in the positive signed range.  (C13 constant data, C04.) *)
From Coq Require Import ZArith List Bool Lia PeanoNat ZifyNat.
From HidV Require Import Machine WordLemmas GenLayout.
Import ListNotations.
Open Scope Z_scope.
Ltac Zify.zify_post_hook ::= Z.to_euclidean_division_equations.

Definition is_bool (b : Z) : Prop := b = 0 \/ b = 1.

(* ---------- bits of a shifted boolean ---------- *)
Lemma shl_bool_bit b r s : is_bool b -> 0 <= r -> 0 <= s ->
  Z.testbit (Z.shiftl b r) s = true <-> (b = 1 /\ s = r).
Proof.
  intros [-> | ->] Hr Hs.
  - rewrite Z.shiftl_0_l, Z.testbit_0_l. split; [discriminate | intros [H _]; discriminate].
  - rewrite Z.shiftl_1_l, Z.pow2_bits_eqb by exact Hr. rewrite Z.eqb_eq. split; [intros ->; split; reflexivity | intros [_ ->]; reflexivity].
Qed.
Lemma shl_bool_nonneg b r : is_bool b -> 0 <= r -> 0 <= Z.shiftl b r.
Proof. intros [-> | ->] Hr; apply Z.shiftl_nonneg; lia. Qed.

(* ---------- loop invariant of pack_go ----------
   `bytes` (= rev acc: finished bytes, the one under construction last) packs the first n
   elements `done`: bit t of byte k is set iff t < 8, 8k+t < n and element 8k+t is 1. *)
Definition packed (n : nat) (done bytes : list Z) : Prop :=
  length bytes = ((n + 7) / 8)%nat /\ Forall (fun x => 0 <= x) bytes /\
  forall k t : nat, Z.testbit (nth k bytes 0) (Z.of_nat t) = true <->
                    ((t < 8)%nat /\ (8 * k + t < n)%nat /\ nth (8 * k + t) done 0 = 1).

Lemma packed_nil : packed 0 [] [].
Proof.
  split; [reflexivity|]. split; [constructor|]. intros k t.
  destruct k; cbn [nth]; rewrite Z.testbit_0_l; split; try discriminate; intros (_ & H & _); lia.
Qed.

Lemma nth_snoc (l : list Z) b j : nth j (l ++ [b]) 0 = if (j <? length l)%nat then nth j l 0 else if (j =? length l)%nat then b else 0.
Proof.
  destruct (Nat.ltb_spec j (length l)) as [H|H]; [apply app_nth1; exact H|].
  rewrite app_nth2 by lia. destruct (Nat.eqb_spec j (length l)) as [E|E].
  - replace (j - length l)%nat with O by lia. reflexivity.
  - destruct (j - length l)%nat as [|[|q]] eqn:Eq; [lia | reflexivity | reflexivity].
Qed.

Lemma pack_step_packed done acc b : is_bool b -> packed (length done) done (rev acc) ->
  packed (S (length done)) (done ++ [b]) (rev (pack_step acc (Z.of_nat (length done)) b)).
Proof.
  intros Hb (Hlen & Hnn & Hbits). set (n := length done) in *.
  unfold pack_step. cbv zeta.
  destruct (Z.eqb_spec (Z.of_nat n mod 8) 0) as [Hr|Hr].
  - (* a new byte is started *)
    rewrite Hr. cbn [rev]. rewrite Z.lor_0_l, Z.shiftl_0_r.
    split; [rewrite app_length, Hlen; cbn [length]; lia|].
    split; [apply Forall_app; split; [exact Hnn | constructor; [destruct Hb; lia | constructor]]|].
    intros k t. rewrite (nth_snoc done b (8 * k + t)), (nth_snoc (rev acc) b k), Hlen. fold n.
    destruct (Nat.ltb_spec k ((n + 7) / 8)) as [Hk|Hk].
    + rewrite Hbits. destruct (Nat.ltb_spec (8 * k + t) n); [split; intros (H1 & H2 & H3); (repeat split); (lia || assumption)|]. split; intros (H1 & H2 & H3); lia.
    + destruct (Nat.eqb_spec k ((n + 7) / 8)) as [Ek|Ek].
      * destruct (Nat.ltb_spec (8 * k + t) n); [lia|].
        destruct (Nat.eqb_spec (8 * k + t) n) as [Et|Et].
        -- assert (Et0 : t = O) by lia. subst t. change (Z.of_nat 0) with 0. destruct Hb as [-> | ->].
           ++ rewrite Z.testbit_0_l. split; [discriminate | intros (_ & _ & Hx); discriminate].
           ++ change (Z.testbit 1 0) with true. split; [intros _; repeat split; lia | reflexivity].
        -- split; [|intros (H1 & H2 & H3); lia]. intros Ht. exfalso.
           destruct Hb as [-> | ->]; [rewrite Z.testbit_0_l in Ht; discriminate|].
           destruct t as [|t]; [lia|].
           rewrite Z.bits_above_log2 in Ht; [discriminate | lia | change (Z.log2 1) with 0; lia].
      * rewrite Z.testbit_0_l. split; [discriminate | intros (H1 & H2 & H3); lia].
  - (* the byte under construction gets one more bit *)
    assert (Hn0 : (1 <= (n + 7) / 8)%nat) by lia.
    destruct acc as [|lst rest]; [cbn [rev length] in Hlen; lia|].
    cbn [rev] in *. rewrite app_length in Hlen. cbn [length] in Hlen.
    apply Forall_app in Hnn. destruct Hnn as [Hnn1 Hnn2]. inversion Hnn2 as [|? ? Hlst _]; subst.
    set (r := Z.of_nat n mod 8) in *.
    split; [rewrite app_length; cbn [length]; lia|].
    split; [apply Forall_app; split; [exact Hnn1 | constructor; [|constructor]];
            apply Z.lor_nonneg; split; [exact Hlst | apply shl_bool_nonneg; [exact Hb | unfold r; lia]]|].
    intros k t. rewrite (nth_snoc done b (8 * k + t)), (nth_snoc (rev rest) _ k). fold n.
    specialize (Hbits k t). rewrite (nth_snoc (rev rest) lst k) in Hbits.
    destruct (Nat.ltb_spec k (length (rev rest))) as [Hk|Hk].
    + rewrite Hbits. destruct (Nat.ltb_spec (8 * k + t) n); [split; intros (H1 & H2 & H3); (repeat split); (lia || assumption)|]. split; intros (H1 & H2 & H3); lia.
    + destruct (Nat.eqb_spec k (length (rev rest))) as [Ek|Ek].
      * rewrite Z.lor_spec, orb_true_iff, Hbits, (shl_bool_bit b r (Z.of_nat t) Hb) by (unfold r; lia).
        destruct (Nat.ltb_spec (8 * k + t) n) as [Hlt|Hge].
        -- split; [intros [(H1 & H2 & H3)|[_ H]]; [repeat split; (lia || assumption) | unfold r in H; lia]
                  | intros (H1 & H2 & H3); left; repeat split; (lia || assumption)].
        -- destruct (Nat.eqb_spec (8 * k + t) n) as [Et|Et].
           ++ split; [intros [(H1 & H2 & H3)|[H1 H2]]; [lia | repeat split; [lia | lia | exact H1]]
                     | intros (H1 & H2 & H3); right; split; [exact H3 | unfold r; lia]].
           ++ split; [intros [(H1 & H2 & H3)|[H1 H2]]; [lia | unfold r in H2; lia] | intros (H1 & H2 & H3); lia].
      * rewrite Z.testbit_0_l in *. split; [discriminate | intros (H1 & H2 & H3); lia].
Qed.

Lemma pack_go_packed : forall l done acc, Forall is_bool l -> packed (length done) done (rev acc) ->
  packed (length (done ++ l)) (done ++ l) (pack_go l (Z.of_nat (length done)) acc).
Proof.
  induction l as [|b r IH]; intros done acc Hl Hp; cbn [pack_go].
  - rewrite app_nil_r. exact Hp.
  - inversion Hl as [|? ? Hb Hr]; subst.
    pose proof (pack_step_packed done acc b Hb Hp) as Hs.
    replace (done ++ b :: r) with ((done ++ [b]) ++ r) by (rewrite <- app_assoc; reflexivity).
    replace (Z.of_nat (length done) + 1) with (Z.of_nat (length (done ++ [b]))) by (rewrite app_length; cbn [length]; lia).
    apply IH; [exact Hr|]. rewrite app_length. cbn [length]. replace (length done + 1)%nat with (S (length done)) by lia.
    exact Hs.
Qed.

Lemma pack_bools_packed l : Forall is_bool l -> packed (length l) l (pack_bools l).
Proof. intros Hl. exact (pack_go_packed l [] [] Hl packed_nil). Qed.

(* the length does not depend on the elements being booleans *)
Lemma pack_step_length acc n b : length acc = ((n + 7) / 8)%nat ->
  length (pack_step acc (Z.of_nat n) b) = ((S n + 7) / 8)%nat.
Proof.
  intros Hlen. unfold pack_step. cbv zeta. destruct (Z.eqb_spec (Z.of_nat n mod 8) 0) as [Hr|Hr].
  - cbn [length]. lia.
  - destruct acc as [|x rest]; cbn [length] in *; lia.
Qed.
Lemma pack_go_length : forall l n acc, length acc = ((n + 7) / 8)%nat ->
  length (pack_go l (Z.of_nat n) acc) = ((n + length l + 7) / 8)%nat.
Proof.
  induction l as [|b r IH]; intros n acc Hlen; cbn [pack_go length].
  - rewrite rev_length, Hlen. f_equal. lia.
  - replace (Z.of_nat n + 1) with (Z.of_nat (S n)) by lia.
    rewrite (IH (S n) _ (pack_step_length acc n b Hlen)). f_equal. lia.
Qed.

(* (1) *)
Theorem pack_bools_length : forall l, length (pack_bools l) = ((length l + 7) / 8)%nat.
Proof. intros l. unfold pack_bools. apply (pack_go_length l O []). reflexivity. Qed.

(* (2) element i is bit (i mod 8) of byte (i / 8) *)
Theorem pack_bools_spec : forall l i, Forall (fun b => b = 0 \/ b = 1) l -> (i < length l)%nat ->
  Z.testbit (nth (i / 8) (pack_bools l) 0) (Z.of_nat (i mod 8)) = (nth i l 0 =? 1).
Proof.
  intros l i Hl Hi. destruct (pack_bools_packed l Hl) as (_ & _ & Hbits).
  apply eq_iff_eq_true. rewrite (Hbits (i / 8)%nat (i mod 8)%nat), Z.eqb_eq.
  replace (8 * (i / 8) + i mod 8)%nat with i by lia. split; [tauto|]. intros H. repeat split; [lia | lia | exact H].
Qed.
(* ... and no other bit is set: bits of padding positions and bits 8.. are zero *)
Theorem pack_bools_other_bits : forall l k t, Forall (fun b => b = 0 \/ b = 1) l ->
  (8 <= t \/ length l <= 8 * k + t)%nat -> Z.testbit (nth k (pack_bools l) 0) (Z.of_nat t) = false.
Proof.
  intros l k t Hl Ht. destruct (pack_bools_packed l Hl) as (_ & _ & Hbits).
  apply not_true_is_false. rewrite (Hbits k t). intros (H1 & H2 & _). lia.
Qed.

Theorem pack_bools_bytes : forall l, Forall (fun b => b = 0 \/ b = 1) l ->
  Forall (fun x => 0 <= x < 256) (pack_bools l).
Proof.
  intros l Hl. destruct (pack_bools_packed l Hl) as (_ & Hnn & Hbits).
  rewrite Forall_forall in *. intros x Hx. split; [apply Hnn; exact Hx|].
  destruct (In_nth _ _ 0 Hx) as (k & Hk & Ek).
  assert (E : x = x mod 2 ^ 8).
  { apply Z.bits_inj'. intros s Hs. destruct (Z_lt_le_dec s 8) as [Hlt|Hge].
    - rewrite Z.mod_pow2_bits_low by lia. reflexivity.
    - rewrite Z.mod_pow2_bits_high by lia. apply not_true_is_false.
      rewrite <- Ek, <- (Z2Nat.id s Hs), (Hbits k (Z.to_nat s)). intros (H1 & _). lia. }
  rewrite E. change (2 ^ 8) with 256. apply Z.mod_pos_bound. lia.
Qed.

(* (3) a clean specification: byte k is the little-endian number of elements 8k..8k+7 *)
Definition byte_at (l : list Z) (k : nat) : Z :=
  fold_right (fun t a => nth (8 * k + t) l 0 * 2 ^ Z.of_nat t + a) 0 (seq 0 8).
Definition pack_spec (l : list Z) : list Z := map (byte_at l) (seq 0 ((length l + 7) / 8)).

Lemma byte_at_bits l k t : Forall is_bool l ->
  Z.testbit (byte_at l k) (Z.of_nat t) = true <-> ((t < 8)%nat /\ nth (8 * k + t) l 0 = 1).
Proof.
  intros Hl.
  assert (Hb : forall j, 0 <= nth j l 0 <= 1).
  { intros j. destruct (Nat.lt_ge_cases j (length l)) as [H|H].
    - rewrite Forall_forall in Hl. destruct (Hl _ (nth_In l 0 H)) as [E|E]; rewrite E; lia.
    - rewrite nth_overflow by exact H. lia. }
  unfold byte_at. cbn [seq fold_right].
  change (2 ^ Z.of_nat 0) with 1. change (2 ^ Z.of_nat 1) with 2. change (2 ^ Z.of_nat 2) with 4.
  change (2 ^ Z.of_nat 3) with 8. change (2 ^ Z.of_nat 4) with 16. change (2 ^ Z.of_nat 5) with 32.
  change (2 ^ Z.of_nat 6) with 64. change (2 ^ Z.of_nat 7) with 128.
  pose proof (Hb (8 * k + 0)%nat) as H0. pose proof (Hb (8 * k + 1)%nat) as H1.
  pose proof (Hb (8 * k + 2)%nat) as H2. pose proof (Hb (8 * k + 3)%nat) as H3.
  pose proof (Hb (8 * k + 4)%nat) as H4. pose proof (Hb (8 * k + 5)%nat) as H5.
  pose proof (Hb (8 * k + 6)%nat) as H6. pose proof (Hb (8 * k + 7)%nat) as H7.
  rewrite Z.testbit_true by lia.
  assert (Ht : (t = 0 \/ t = 1 \/ t = 2 \/ t = 3 \/ t = 4 \/ t = 5 \/ t = 6 \/ t = 7 \/ 8 <= t)%nat) by lia.
  destruct Ht as [->|[->|[->|[->|[->|[->|[->|[->|Ht]]]]]]]].
  1: change (2 ^ Z.of_nat 0) with 1. 2: change (2 ^ Z.of_nat 1) with 2. 3: change (2 ^ Z.of_nat 2) with 4.
  4: change (2 ^ Z.of_nat 3) with 8. 5: change (2 ^ Z.of_nat 4) with 16. 6: change (2 ^ Z.of_nat 5) with 32.
  7: change (2 ^ Z.of_nat 6) with 64. 8: change (2 ^ Z.of_nat 7) with 128.
  1-8: split; [intros Hx; split; lia | intros [_ Hx]; lia].
  split; [|intros [Hx _]; lia]. intros Hx. exfalso.
  assert (Hp : 256 <= 2 ^ Z.of_nat t) by (change 256 with (2 ^ 8); apply Z.pow_le_mono_r; lia).
  rewrite Z.div_small in Hx by lia. discriminate Hx.
Qed.

Theorem pack_bools_eq_spec : forall l, Forall (fun b => b = 0 \/ b = 1) l -> pack_bools l = pack_spec l.
Proof.
  intros l Hl. destruct (pack_bools_packed l Hl) as (Hlen & Hnn & Hbits).
  apply (nth_ext _ _ 0 0).
  - unfold pack_spec. rewrite map_length, seq_length. exact Hlen.
  - intros k Hk. rewrite Hlen in Hk. unfold pack_spec.
    rewrite (nth_indep (map (byte_at l) (seq 0 ((length l + 7) / 8))) 0 (byte_at l 0)) by (rewrite map_length, seq_length; exact Hk).
    rewrite map_nth, seq_nth by exact Hk. cbn [Nat.add].
    apply Z.bits_inj'. intros s Hs. rewrite <- (Z2Nat.id s Hs). apply eq_iff_eq_true.
    rewrite (Hbits k (Z.to_nat s)), (byte_at_bits l k (Z.to_nat s) Hl).
    split; [tauto|]. intros [H1 H2]. repeat split; try assumption.
    destruct (Nat.lt_ge_cases (8 * k + Z.to_nat s) (length l)) as [H|H]; [exact H|].
    rewrite nth_overflow in H2 by exact H. discriminate.
Qed.

Example pack_bools_examples :
  pack_bools [1;0;1;1;0;1;0;1;1] = [173; 1] /\ pack_bools [] = [] /\ pack_bools [1] = [1] /\
  pack_bools [0;0;0;0;0;0;0;1] = [128] /\ pack_spec [1;0;1;1;0;1;0;1;1] = [173; 1].
Proof. vm_compute. repeat split. Qed.

(* ---------- (4) sizes ---------- *)
Lemma max_signed_eq w : 1 <= w -> max_signed w = Machine.W w / 2 - 1.
Proof. intros Hw. unfold max_signed. rewrite Z.shiftl_1_l, (W_half w Hw). reflexivity. Qed.
Lemma max_unsigned_eq w : 1 <= w -> max_unsigned w = Machine.W w - 1.
Proof. intros Hw. unfold max_unsigned, Machine.W. rewrite Z.shiftl_1_l. reflexivity. Qed.
Lemma max_signed_pos w : 1 <= w -> 127 <= max_signed w.
Proof. intros Hw. rewrite (max_signed_eq w Hw). pose proof (half_pos w Hw). lia. Qed.

Lemma array_size_bool w len : 0 <= len -> array_size w DBOOL len = (len + 7) / 8.
Proof. intros H. unfold array_size. cbn [dtype_eqb]. rewrite Z.shiftr_div_pow2 by lia. reflexivity. Qed.
Lemma frame_size_values w :
  frame_size w DINT = w /\ frame_size w DSTRING = w /\ frame_size w DBOOL = 1 /\ frame_size w DBYTE = 1 /\
  frame_size w DEMPTY = 0.
Proof. repeat split. Qed.
Lemma byte_sized_values :
  byte_sized DBOOL = true /\ byte_sized DBYTE = true /\ byte_sized DINT = false /\ byte_sized DSTRING = false /\
  byte_sized DEMPTY = false.
Proof. repeat split. Qed.

Theorem array_size_no_wrap : forall w d len, 2 <= w -> 0 <= len <= max_length w d ->
  0 <= array_size w d len <= max_signed w.
Proof.
  intros w d len Hw Hlen. pose proof (max_signed_pos w ltac:(lia)) as Hms.
  destruct d; unfold max_length, array_size, frame_size, byte_sized in *; cbn [dtype_eqb orb] in *.
  - (* int: len * w *) pose proof (Z.mul_div_le (max_signed w) w ltac:(lia)). nia.
  - (* bool *) rewrite Z.shiftr_div_pow2 by lia. change (2 ^ 3) with 8. lia.
  - (* byte *) lia.
  - (* string *) pose proof (Z.mul_div_le (max_signed w) w ltac:(lia)). nia.
  - (* empty *) lia.
Qed.

(* ---------- (5) admissible stacks ---------- *)
Theorem stack_admissible_in_signed_range : forall w stack, stack_size_rejected w stack = false -> 0 <= stack ->
  (stack + 5) * w <= max_signed w.
Proof.
  intros w stack H _. unfold stack_size_rejected in H. rewrite Z.gtb_ltb in H. apply Z.ltb_ge in H. exact H.
Qed.
Corollary stack_addresses_positive_signed w stack a : 2 <= w -> stack_size_rejected w stack = false -> 0 <= stack ->
  0 <= a < (stack + 5) * w -> Machine.sgn w a = a.
Proof.
  intros Hw H Hs Ha. pose proof (stack_admissible_in_signed_range w stack H Hs) as Hm.
  rewrite (max_signed_eq w ltac:(lia)) in Hm. apply sgn_small. lia.
Qed.
