(* Component `lowerstmt`: the SOURCE SEMANTICS of the statement / function fragment, independent of
   the lowering: stores, expression evaluation (left to right, short-circuit, wrap-around, signed
   comparison), a big-step relation exec / execs / callf with outcomes Normal / Break / Continue /
   Return v / Fault f, output bytes as events and the stack accounting of a checked build; a fuelled
   interpreter istmt / istmts / icall, sound for the relation (interp_sound).  The interpreter is
   extracted (Extract/ExtractLowerStmt.v): tools/corr_lowerstmt.py runs it against the real
   compiler's output on the verified VM. *)
From Coq Require Import ZArith List Bool Lia.
From HidV Require Import Machine GenTables OpTables DecimalSpec StdlibBool LowerBoolModel LowerBoolProofs LowerStmtModel.
Import ListNotations.
Open Scope Z_scope.

(* ================================================================================= *)
(* 1  source semantics                                                                *)
(* ================================================================================= *)
(* a store: the values of the int locals in scope (signed, in range) and of the bool locals
   (0 / 1), in declaration order *)
Record store := mkstore { si : list Z; sb : list Z; sg : list Z; sgb : list Z }.   (* sg / sgb: the int / bool globals *)
(* the global part of a store *)
Definition gstore := (list Z * list Z)%type.
Definition gs_of (s : store) : gstore := (sg s, sgb s).
Fixpoint upd (i : nat) (v : Z) (l : list Z) : list Z :=
  match l, i with
  | [], _ => []
  | _ :: r, O => v :: r
  | x :: r, S k => x :: upd k v r
  end.
(* leaving a block: the locals declared inside disappear *)
Definition trunc (s0 s : store) : store :=
  mkstore (firstn (length (si s0)) (si s)) (firstn (length (sb s0)) (sb s)) (sg s) (sgb s).

(* how a run of a statement list can end.  Faults are the run-time checks of a checked build. *)
Inductive fault := FDivZero | FStackOverflow.
Inductive outcome := ONormal | OBreak | OContinue | OReturn (v : option Z) | OFault (f : fault).
(* how a call ends *)
(* how a call ends: a result and the int globals as the callee left them, or a fault *)
Inductive cres := CRet (v : option Z) (G : gstore) | CFault (f : fault).
(* outcomes that leave the enclosing function *)
Definition leaves (out : outcome) : Prop := match out with OReturn _ | OFault _ => True | _ => False end.
Lemma outcome_normal_dec (out : outcome) : {out = ONormal} + {out <> ONormal}.
Proof. destruct out; [left; reflexivity | right; discriminate ..]. Qed.

Section Source.
Variable w : Z.
Variable funs : list fundef.           (* the program: function 0 is the entry point *)
(* two's-complement wrap-around of the word size *)
Definition swrap (v : Z) : Z := Machine.sgn w (Machine.wrap w v).
Fixpoint ieval (s : store) (o : iopd) : Z :=
  match o with
  | OLit _ z => z
  | OVar i => nth i (si s) 0
  | OArith op x y => swrap (arith_sem op (ieval s x) (ieval s y))
  | OUn UNeg x => swrap (- ieval s x)
  | OUn UPos x => ieval s x
  | OGlob g => nth g (sg s) 0
  | OTrunc x => ieval s x mod 256                    (* (x is byte) is int: truncation to the low byte *)
  | OByte (YSlot j) => nth j (sb s) 0                (* the byte, zero-extended *)
  | OByte (YLow i) => nth i (si s) 0 mod 256          (* the low byte of an int: truncation *)
  end.
Fixpoint bevals (s : store) (e : bexpr) : bool :=
  match e with
  | BLit b => b
  | BVar (BLocal j) => negb (nth j (sb s) 0 =? 0)
  | BVar (BGlobal h) => negb (nth h (sgb s) 0 =? 0)
  | BCmp op a b => cmp_sem op (ieval s a) (ieval s b)
  | BNot e1 => negb (bevals s e1)
  | BAnd e1 e2 => bevals s e1 && bevals s e2          (* right operand has no effects: && is short-circuit *)
  | BOr e1 e2 => bevals s e1 || bevals s e2
  end.
Definition wbyte (s : store) (x : wexpr) : Z :=
  match x with WrLit z => z mod 256 | WrChar c => c mod 256 | WrByte o => ieval s o mod 256 end.

(* STACK ACCOUNTING.  The checked build guards every function entry: the function faults with
   stack_overflow unless the bytes between its frame pointer and the bottom of the stack are at
   least its frame size `fun_need` (the constant of its guard).  The semantics carries d, the
   number of bytes available to the current frame; the frame in use is the return address and the
   locals in scope. *)
Definition frame_top (s : store) : Z := w * (1 + Z.of_nat (length (si s))) + Z.of_nat (length (sb s)).
(* what a call leaves in the caller's store *)
Definition with_g (s : store) (G : gstore) : store := mkstore (si s) (sb s) (fst G) (snd G).
Definition set_g (s : store) (g : nat) (v : Z) : store := mkstore (si s) (sb s) (upd g v (sg s)) (sgb s).
Definition set_gb (s : store) (h : nat) (v : Z) : store := mkstore (si s) (sb s) (sg s) (upd h v (sgb s)).
Definition dest_store (dst : dest) (v : option Z) (s s' : store) : Prop :=
  match dst with
  | DAssignG g => exists x, v = Some x /\ (g < length (sg s))%nat /\ s' = set_g s g x
  | DNone => s' = s
  | DDecl => exists x, v = Some x /\ s' = mkstore (si s ++ [x]) (sb s) (sg s) (sgb s)
  | DAssign i => exists x, v = Some x /\ (i < length (si s))%nat /\ s' = mkstore (upd i x (si s)) (sb s) (sg s) (sgb s)
  end.

(* exec d s σ out_bytes outcome σ' *)
Inductive exec : Z -> stmt -> store -> list Z -> outcome -> store -> Prop :=
| X_decli d o s : exec d (SDeclI o) s [] ONormal (mkstore (si s ++ [ieval s o]) (sb s) (sg s) (sgb s))
| X_assi d i o s : (i < length (si s))%nat ->
    exec d (SAssignI i o) s [] ONormal (mkstore (upd i (ieval s o) (si s)) (sb s) (sg s) (sgb s))
| X_declb d e s : exec d (SDeclB e) s [] ONormal (mkstore (si s) (sb s ++ [b2z (bevals s e)]) (sg s) (sgb s))
| X_assb d j e s : (j < length (sb s))%nat ->
    exec d (SAssignB j e) s [] ONormal (mkstore (si s) (upd j (b2z (bevals s e)) (sb s)) (sg s) (sgb s))
| X_write d x s : exec d (SWrite x) s [wbyte s x] ONormal s
| X_writeln d s : exec d SWriteln s [10] ONormal s
| X_writei d ln o s :                                 (* the decimal representation of the value *)
    exec d (SWriteI ln o) s (decimal (ieval s o) ++ (if ln then [10] else [])) ONormal s
| X_writeb d ln e s :                                 (* "true" / "false" *)
    exec d (SWriteB ln e) s ((if bevals s e then str_true else str_false) ++ (if ln then [10] else [])) ONormal s
| X_if d c s1 s2 s evs out s' :
    execs d (if bevals s c then s1 else s2) s evs out s' -> exec d (SIf c s1 s2) s evs out (trunc s s')
| X_while_false d c b k s : bevals s c = false -> exec d (SWhile c b k) s [] ONormal s
| X_while_break d c b k s evs s1 : bevals s c = true ->
    execs d b s evs OBreak s1 -> exec d (SWhile c b k) s evs ONormal (trunc s s1)
| X_while_leave d c b k s evs out s1 : bevals s c = true ->          (* the body returns or faults *)
    execs d b s evs out s1 -> leaves out -> exec d (SWhile c b k) s evs out (trunc s s1)
| X_while_cont_exit d c b k s e1 out1 s1 e2 out2 s2 : bevals s c = true ->
    execs d b s e1 out1 s1 -> out1 = ONormal \/ out1 = OContinue ->
    execs d k (trunc s s1) e2 out2 s2 -> out2 <> ONormal ->          (* the continuation does not complete *)
    exec d (SWhile c b k) s (e1 ++ e2) out2 (trunc s s2)
| X_while_next d c b k s e1 out1 s1 e2 s2 e3 out3 s3 : bevals s c = true ->
    execs d b s e1 out1 s1 -> out1 = ONormal \/ out1 = OContinue ->  (* the body completes or continues *)
    execs d k (trunc s s1) e2 ONormal s2 ->                          (* the continuation of a `for` *)
    exec d (SWhile c b k) (trunc s s2) e3 out3 s3 ->
    exec d (SWhile c b k) s (e1 ++ e2 ++ e3) out3 s3
| X_block d ss s evs out s' : execs d ss s evs out s' -> exec d (SBlock ss) s evs out (trunc s s')
| X_break d s : exec d SBreak s [] OBreak s
| X_continue d s : exec d SContinue s [] OContinue s
(* division in a checked build: a zero divisor is the fault division_by_zero *)
| X_decldiv d op a b s : ieval s b <> 0 ->
    exec d (SDeclDiv op a b) s [] ONormal (mkstore (si s ++ [swrap (arith_sem op (ieval s a) (ieval s b))]) (sb s) (sg s) (sgb s))
| X_decldiv_fault d op a b s : ieval s b = 0 -> exec d (SDeclDiv op a b) s [] (OFault FDivZero) s
| X_assdiv d i op a b s : (i < length (si s))%nat -> ieval s b <> 0 ->
    exec d (SAssignDiv i op a b) s [] ONormal (mkstore (upd i (swrap (arith_sem op (ieval s a) (ieval s b))) (si s)) (sb s) (sg s) (sgb s))
| X_assdiv_fault d i op a b s : ieval s b = 0 -> exec d (SAssignDiv i op a b) s [] (OFault FDivZero) s
(* calls: the arguments are evaluated left to right in the caller's store *)
| X_call d dst f args s evs v G' s' :                  (* the callee sees and may change the globals *)
    callf (d - frame_top s) f (map (ieval s) args) (gs_of s) evs (CRet v G') -> dest_store dst v (with_g s G') s' ->
    exec d (SCall dst f args) s evs ONormal s'
| X_call_fault d dst f args s evs ft :
    callf (d - frame_top s) f (map (ieval s) args) (gs_of s) evs (CFault ft) ->
    exec d (SCall dst f args) s evs (OFault ft) s
(* assignment to an int global *)
| X_assg d g o s : (g < length (sg s))%nat -> exec d (SAssignG g o) s [] ONormal (set_g s g (ieval s o))
| X_assgdiv d g op a b s : (g < length (sg s))%nat -> ieval s b <> 0 ->
    exec d (SAssignGDiv g op a b) s [] ONormal (set_g s g (swrap (arith_sem op (ieval s a) (ieval s b))))
| X_assgdiv_fault d g op a b s : ieval s b = 0 -> exec d (SAssignGDiv g op a b) s [] (OFault FDivZero) s
(* assignment to a bool global *)
| X_assbg d h e s : (h < length (sgb s))%nat -> exec d (SAssignBG h e) s [] ONormal (set_gb s h (b2z (bevals s e)))
| X_return d s : exec d (SReturn None) s [] (OReturn None) s
| X_return_val d o s : exec d (SReturn (Some o)) s [] (OReturn (Some (ieval s o))) s
with execs : Z -> stmts -> store -> list Z -> outcome -> store -> Prop :=
| XS_nil d s : execs d SNil s [] ONormal s
| XS_cons d s r s0 e1 s1 e2 out s2 :
    exec d s s0 e1 ONormal s1 -> execs d r s1 e2 out s2 -> execs d (SCons s r) s0 (e1 ++ e2) out s2
| XS_exit d s r s0 e1 out s1 :
    exec d s s0 e1 out s1 -> out <> ONormal -> execs d (SCons s r) s0 e1 out s1
(* callf d f args events result: function f called with d bytes below its frame pointer *)
with callf : Z -> nat -> list Z -> gstore -> list Z -> cres -> Prop :=
| CF_overflow d f vs G fd : nth_error funs f = Some fd -> d < fun_need w fd ->
    callf d f vs G [] (CFault FStackOverflow)
| CF_return d f vs G fd evs v s1 : nth_error funs f = Some fd -> fun_need w fd <= d ->
    execs d (fn_body fd) (mkstore vs [] (fst G) (snd G)) evs (OReturn v) s1 -> callf d f vs G evs (CRet v (gs_of s1))
| CF_fault d f vs G fd evs ft s1 : nth_error funs f = Some fd -> fun_need w fd <= d ->
    execs d (fn_body fd) (mkstore vs [] (fst G) (snd G)) evs (OFault ft) s1 -> callf d f vs G evs (CFault ft).
End Source.
Scheme exec_ind2 := Minimality for exec Sort Prop
  with execs_ind2 := Minimality for execs Sort Prop
  with callf_ind2 := Minimality for callf Sort Prop.
Combined Scheme exec_execs_ind from exec_ind2, execs_ind2, callf_ind2.

(* ================================================================================= *)
Section Interp.
Variable w : Z.
Variable funs : list fundef.
Fixpoint istmt (fuel : nat) (d : Z) (s : stmt) (s0 : store) : option (list Z * outcome * store) :=
  match fuel with
  | O => None
  | S f =>
    match s with
    | SDeclI o => Some ([], ONormal, mkstore (si s0 ++ [ieval w s0 o]) (sb s0) (sg s0) (sgb s0))
    | SAssignI i o => if (i <? length (si s0))%nat then Some ([], ONormal, mkstore (upd i (ieval w s0 o) (si s0)) (sb s0) (sg s0) (sgb s0)) else None
    | SDeclB e => Some ([], ONormal, mkstore (si s0) (sb s0 ++ [b2z (bevals w s0 e)]) (sg s0) (sgb s0))
    | SAssignB j e => if (j <? length (sb s0))%nat then Some ([], ONormal, mkstore (si s0) (upd j (b2z (bevals w s0 e)) (sb s0)) (sg s0) (sgb s0)) else None
    | SWrite x => Some ([wbyte w s0 x], ONormal, s0)
    | SWriteln => Some ([10], ONormal, s0)
    | SWriteI ln o => Some (decimal (ieval w s0 o) ++ (if ln then [10] else []), ONormal, s0)
    | SWriteB ln e => Some ((if bevals w s0 e then str_true else str_false) ++ (if ln then [10] else []), ONormal, s0)
    | SIf c s1 s2 =>
        match istmts f d (if bevals w s0 c then s1 else s2) s0 with
        | Some (e, out, s') => Some (e, out, trunc s0 s')
        | None => None
        end
    | SWhile c b k =>
        if bevals w s0 c then
          match istmts f d b s0 with
          | Some (e1, OBreak, s1) => Some (e1, ONormal, trunc s0 s1)
          | Some (e1, OReturn v, s1) => Some (e1, OReturn v, trunc s0 s1)
          | Some (e1, OFault ft, s1) => Some (e1, OFault ft, trunc s0 s1)
          | Some (e1, _, s1) =>
              match istmts f d k (trunc s0 s1) with
              | Some (e2, ONormal, s2) =>
                  match istmt f d (SWhile c b k) (trunc s0 s2) with
                  | Some (e3, out3, s3) => Some (e1 ++ e2 ++ e3, out3, s3)
                  | None => None
                  end
              | Some (e2, out2, s2) => Some (e1 ++ e2, out2, trunc s0 s2)
              | None => None
              end
          | None => None
          end
        else Some ([], ONormal, s0)
    | SBlock ss =>
        match istmts f d ss s0 with
        | Some (e, out, s') => Some (e, out, trunc s0 s')
        | None => None
        end
    | SBreak => Some ([], OBreak, s0)
    | SContinue => Some ([], OContinue, s0)
    | SDeclDiv op a b =>
        if ieval w s0 b =? 0 then Some ([], OFault FDivZero, s0)
        else Some ([], ONormal, mkstore (si s0 ++ [swrap w (arith_sem op (ieval w s0 a) (ieval w s0 b))]) (sb s0) (sg s0) (sgb s0))
    | SAssignDiv i op a b =>
        if ieval w s0 b =? 0 then Some ([], OFault FDivZero, s0)
        else if (i <? length (si s0))%nat
             then Some ([], ONormal, mkstore (upd i (swrap w (arith_sem op (ieval w s0 a) (ieval w s0 b))) (si s0)) (sb s0) (sg s0) (sgb s0))
             else None
    | SCall dst g args =>
        match icall f (d - frame_top w s0) g (map (ieval w s0) args) (gs_of s0) with
        | Some (e, CRet v G') =>
            match dst, v with
            | DNone, _ => Some (e, ONormal, with_g s0 G')
            | DDecl, Some x => Some (e, ONormal, mkstore (si s0 ++ [x]) (sb s0) (fst G') (snd G'))
            | DAssign i, Some x => if (i <? length (si s0))%nat then Some (e, ONormal, mkstore (upd i x (si s0)) (sb s0) (fst G') (snd G')) else None
            | DAssignG k, Some x => if (k <? length (fst G'))%nat then Some (e, ONormal, set_g (with_g s0 G') k x) else None
            | _, None => None
            end
        | Some (e, CFault ft) => Some (e, OFault ft, s0)
        | None => None
        end
    | SAssignG k o => if (k <? length (sg s0))%nat then Some ([], ONormal, set_g s0 k (ieval w s0 o)) else None
    | SAssignGDiv k op a b =>
        if ieval w s0 b =? 0 then Some ([], OFault FDivZero, s0)
        else if (k <? length (sg s0))%nat
             then Some ([], ONormal, set_g s0 k (swrap w (arith_sem op (ieval w s0 a) (ieval w s0 b))))
             else None
    | SAssignBG k e => if (k <? length (sgb s0))%nat then Some ([], ONormal, set_gb s0 k (b2z (bevals w s0 e))) else None
    | SReturn None => Some ([], OReturn None, s0)
    | SReturn (Some o) => Some ([], OReturn (Some (ieval w s0 o)), s0)
    end
  end
with istmts (fuel : nat) (d : Z) (ss : stmts) (s0 : store) : option (list Z * outcome * store) :=
  match fuel with
  | O => None
  | S f =>
    match ss with
    | SNil => Some ([], ONormal, s0)
    | SCons s r =>
        match istmt f d s s0 with
        | Some (e1, ONormal, s1) =>
            match istmts f d r s1 with
            | Some (e2, out, s2) => Some (e1 ++ e2, out, s2)
            | None => None
            end
        | Some (e1, out, s1) => Some (e1, out, s1)
        | None => None
        end
    end
  end
with icall (fuel : nat) (d : Z) (g : nat) (vs : list Z) (G : gstore) : option (list Z * cres) :=
  match fuel with
  | O => None
  | S f =>
    match nth_error funs g with
    | None => None
    | Some fd =>
        if d <? fun_need w fd then Some ([], CFault FStackOverflow)
        else match istmts f d (fn_body fd) (mkstore vs [] (fst G) (snd G)) with
             | Some (e, OReturn v, s1) => Some (e, CRet v (gs_of s1))
             | Some (e, OFault ft, _) => Some (e, CFault ft)
             | _ => None
             end
    end
  end.

Theorem interp_sound fuel :
  (forall d s s0 e out s1, istmt fuel d s s0 = Some (e, out, s1) -> exec w funs d s s0 e out s1) /\
  (forall d ss s0 e out s1, istmts fuel d ss s0 = Some (e, out, s1) -> execs w funs d ss s0 e out s1) /\
  (forall d g vs G e res, icall fuel d g vs G = Some (e, res) -> callf w funs d g vs G e res).
Proof.
  induction fuel as [|f [IHs [IHss IHc]]]; [split; [|split]; intros; discriminate|]. split; [|split].
  - intros d s s0 e out s1 H.
    destruct s as [o|i o|b|j b|x| |ln o|ln b|c t1 t2|c b k|ss| | |op a b|i op a b|dst g args|r|k o|k op a b|k b]; cbn [istmt] in H.
    + inversion H; subst. constructor.
    + destruct (Nat.ltb_spec i (length (si s0))); [|discriminate]. inversion H; subst. constructor. assumption.
    + inversion H; subst. constructor.
    + destruct (Nat.ltb_spec j (length (sb s0))); [|discriminate]. inversion H; subst. constructor. assumption.
    + inversion H; subst. constructor.
    + inversion H; subst. constructor.
    + inversion H; subst. constructor.
    + inversion H; subst. constructor.
    + destruct (istmts f d (if bevals w s0 c then t1 else t2) s0) as [[[e' out'] s']|] eqn:E; [|discriminate].
      inversion H; subst. constructor. apply IHss. exact E.
    + destruct (bevals w s0 c) eqn:Ec; [|inversion H; subst; apply X_while_false; exact Ec].
      destruct (istmts f d b s0) as [[[e1 out1] s1']|] eqn:Eb; [|discriminate].
      assert (Next : out1 = ONormal \/ out1 = OContinue ->
                match istmts f d k (trunc s0 s1') with
                | Some (e2, ONormal, s2) =>
                    match istmt f d (SWhile c b k) (trunc s0 s2) with
                    | Some (e3, out3, s3) => Some (e1 ++ e2 ++ e3, out3, s3)
                    | None => None
                    end
                | Some (e2, out2, s2) => Some (e1 ++ e2, out2, trunc s0 s2)
                | None => None
                end = Some (e, out, s1) -> exec w funs d (SWhile c b k) s0 e out s1).
      { intros Nb H'. destruct (istmts f d k (trunc s0 s1')) as [[[e2 out2] s2]|] eqn:Ek; [|discriminate].
        destruct (outcome_normal_dec out2) as [-> | N2].
        - destruct (istmt f d (SWhile c b k) (trunc s0 s2)) as [[[e3 out3] s3]|] eqn:Ew; [|discriminate].
          inversion H'; subst. eapply X_while_next; [exact Ec | apply IHss; exact Eb | exact Nb | apply IHss; exact Ek | apply IHs; exact Ew].
        - assert (H'' : Some (e1 ++ e2, out2, trunc s0 s2) = Some (e, out, s1)) by (destruct out2; try exact H'; contradiction).
          inversion H''; subst. eapply X_while_cont_exit; [exact Ec | apply IHss; exact Eb | exact Nb | apply IHss; exact Ek | exact N2]. }
      destruct out1.
      * apply Next; [left; reflexivity | exact H].
      * inversion H; subst. eapply X_while_break; [exact Ec | apply IHss; exact Eb].
      * apply Next; [right; reflexivity | exact H].
      * inversion H; subst. eapply X_while_leave; [exact Ec | apply IHss; exact Eb | exact I].
      * inversion H; subst. eapply X_while_leave; [exact Ec | apply IHss; exact Eb | exact I].
    + destruct (istmts f d ss s0) as [[[e' out'] s']|] eqn:E; [|discriminate]. inversion H; subst. constructor. apply IHss. exact E.
    + inversion H; subst. constructor.
    + inversion H; subst. constructor.
    + destruct (Z.eqb_spec (ieval w s0 b) 0) as [Z0|Nz]; inversion H; subst; constructor; assumption.
    + destruct (Z.eqb_spec (ieval w s0 b) 0) as [Z0|Nz]; [inversion H; subst; constructor; assumption|].
      destruct (Nat.ltb_spec i (length (si s0))); [|discriminate]. inversion H; subst. constructor; assumption.
    + destruct (icall f (d - frame_top w s0) g (map (ieval w s0) args) (gs_of s0)) as [[e' [v G'|ft]]|] eqn:Ei; [| |discriminate].
      * apply IHc in Ei. destruct dst as [| |i|k].
        -- inversion H; subst. eapply X_call; [exact Ei | reflexivity].
        -- destruct v as [x|]; [|discriminate]. inversion H; subst. eapply X_call; [exact Ei | exists x; split; reflexivity].
        -- destruct v as [x|]; [|discriminate]. destruct (Nat.ltb_spec i (length (si s0))); [|discriminate]. inversion H; subst.
           eapply X_call; [exact Ei | exists x; split; [reflexivity | split; [assumption | reflexivity]]].
        -- destruct v as [x|]; [|discriminate]. destruct (Nat.ltb_spec k (length (fst G'))); [|discriminate]. inversion H; subst.
           eapply X_call; [exact Ei | exists x; split; [reflexivity | split; [assumption | reflexivity]]].
      * apply IHc in Ei. inversion H; subst. eapply X_call_fault. exact Ei.
    + destruct r as [o|]; inversion H; subst; constructor.
    + destruct (Nat.ltb_spec k (length (sg s0))); [|discriminate]. inversion H; subst. constructor. assumption.
    + destruct (Z.eqb_spec (ieval w s0 b) 0) as [Z0|Nz]; [inversion H; subst; constructor; assumption|].
      destruct (Nat.ltb_spec k (length (sg s0))); [|discriminate]. inversion H; subst. constructor; assumption.
    + destruct (Nat.ltb_spec k (length (sgb s0))); [|discriminate]. inversion H; subst. constructor. assumption.
  - intros d ss s0 e out s1 H. destruct ss as [|s r]; cbn [istmts] in H; [inversion H; subst; constructor|].
    destruct (istmt f d s s0) as [[[e1 out1] s1']|] eqn:E1; [|discriminate].
    destruct (outcome_normal_dec out1) as [-> | N1].
    + destruct (istmts f d r s1') as [[[e2 out2] s2]|] eqn:E2; [|discriminate]. inversion H; subst.
      eapply XS_cons; [apply IHs; exact E1 | apply IHss; exact E2].
    + assert (H' : Some (e1, out1, s1') = Some (e, out, s1)) by (destruct out1; try exact H; contradiction).
      inversion H'; subst. apply XS_exit; [apply IHs; exact E1 | exact N1].
  - intros d g vs G e res H. cbn [icall] in H. destruct (nth_error funs g) as [fd|] eqn:Eg; [|discriminate].
    destruct (Z.ltb_spec d (fun_need w fd)) as [Lt|Ge].
    + inversion H; subst. eapply CF_overflow; eassumption.
    + destruct (istmts f d (fn_body fd) (mkstore vs [] (fst G) (snd G))) as [[[e' out'] s']|] eqn:Eb; [|discriminate].
      destruct out'; try discriminate; inversion H; subst; [eapply CF_return | eapply CF_fault]; try eassumption; apply IHss; exact Eb.
Qed.
End Interp.

(* ================================================================================= *)
(* the static side conditions of the theorems, executable (soundness: LowerStmtProofs)   *)
(* ================================================================================= *)
Section CheckDefs.
Variable w : Z.
Variable ng : nat.                 (* the number of int globals *)
Variable nbg : nat.                (* the number of bool globals *)
Variable cfb : nat -> nat -> bool.
Fixpoint oscoped_b (ni nb : nat) (o : iopd) : bool :=
  match o with
  | OLit ch z => (- (Machine.W w / 2) <=? z) && (z <? Machine.W w / 2) && (negb ch || ((0 <=? z) && (z <=? 255)))
  | OVar i => (i <? ni)%nat
  | OArith op x y => match op with SAdd | SSub | SMul => true | _ => false end && oscoped_b ni nb x && oscoped_b ni nb y
  | OUn _ x => oscoped_b ni nb x
  | OGlob g => (g <? ng)%nat
  | OTrunc x => oscoped_b ni nb x && match x with OGlob _ | OArith _ _ _ | OUn _ _ => true | _ => false end
  | OByte (YSlot j) => (j <? nb)%nat
  | OByte (YLow i) => (i <? ni)%nat
  end.
Definition not_trunc_b (o : iopd) : bool := match o with OTrunc _ => false | _ => true end.
Fixpoint bscoped_b (ni nb : nat) (e : bexpr) : bool :=
  match e with
  | BLit _ => true
  | BVar (BLocal j) => (j <? nb)%nat
  | BVar (BGlobal h) => (h <? nbg)%nat
  | BCmp _ a b => oscoped_b ni nb a && oscoped_b ni nb b
  | BNot e1 => bscoped_b ni nb e1
  | BAnd e1 e2 | BOr e1 e2 => bscoped_b ni nb e1 && bscoped_b ni nb e2
  end.
Definition divop_b (op : src_arith) : bool := match op with SDiv | SMod => true | _ => false end.
Fixpoint sscoped_b (ni nb : nat) (inloop : bool) (s : stmt) : bool :=
  match s with
  | SDeclI o => oscoped_b ni nb o && not_trunc_b o
  | SAssignI i o => (i <? ni)%nat && oscoped_b ni nb o
  | SDeclB e => bscoped_b ni nb e
  | SAssignB j e => (j <? nb)%nat && bscoped_b ni nb e
  | SWrite (WrByte o) => oscoped_b ni nb o
  | SWrite _ | SWriteln => true
  | SWriteI _ o => oscoped_b ni nb o && not_trunc_b o
  | SWriteB _ e => bscoped_b ni nb e
  | SIf c s1 s2 => bscoped_b ni nb c && ssscoped_b ni nb inloop s1 && ssscoped_b ni nb inloop s2
  | SWhile c b k => bscoped_b ni nb c && ssscoped_b ni nb true b && ssscoped_b ni nb inloop k
  | SBlock ss => ssscoped_b ni nb inloop ss
  | SBreak | SContinue => inloop
  | SDeclDiv op a b => divop_b op && oscoped_b ni nb a && oscoped_b ni nb b
  | SAssignDiv i op a b => (i <? ni)%nat && divop_b op && oscoped_b ni nb a && oscoped_b ni nb b
  | SCall dst f args =>
      match dst with DAssign i => (i <? ni)%nat | DAssignG g => (g <? ng)%nat | _ => true end && cfb f (length args) && forallb (oscoped_b ni nb) args && forallb not_trunc_b args
  | SReturn (Some o) => oscoped_b ni nb o
  | SReturn None => true
  | SAssignG g o => (g <? ng)%nat && oscoped_b ni nb o
  | SAssignGDiv g op a b => (g <? ng)%nat && divop_b op && oscoped_b ni nb a && oscoped_b ni nb b
  | SAssignBG h e => (h <? nbg)%nat && bscoped_b ni nb e
  end
with ssscoped_b (ni nb : nat) (inloop : bool) (ss : stmts) : bool :=
  match ss with
  | SNil => true
  | SCons s r =>
      sscoped_b ni nb inloop s &&
      match s with
      | SDeclI _ | SDeclDiv _ _ _ | SCall DDecl _ _ => ssscoped_b (S ni) nb inloop r
      | SDeclB _ => ssscoped_b ni (S nb) inloop r
      | _ => ssscoped_b ni nb inloop r
      end
  end.

End CheckDefs.
Definition cf_b (funs : list fundef) (ord : list nat) (f n : nat) : bool :=
  existsb (Nat.eqb f) ord && match nth_error funs f with Some fd => Nat.eqb (fn_params fd) n | None => false end.
Definition fun_ok_b (w : Z) (ng nbg : nat) (funs : list fundef) (ord : list nat) (f : nat) : bool :=
  match nth_error funs f with
  | Some fd => (0 <=? fun_need w fd) && (fun_need w fd <? Machine.W w / 2) &&
               ssscoped_b w ng nbg (cf_b funs ord) (fn_params fd) 0 false (fn_body fd)
  | None => false
  end.
Definition prog_ok_b (w : Z) (ng nbg : nat) (funs : list fundef) (nargs : nat) : bool :=
  let ord := program_order funs in
  match ord with 0%nat :: _ => true | _ => false end &&
  forallb (fun_ok_b w ng nbg funs ord) ord && cf_b funs ord 0 nargs.

(* all hypotheses of the program theorem that concern the program, the stack size and the number
   of arguments, as one boolean (used by the correspondence to select the runs the theorem covers) *)
Definition run_ok_b (w : Z) (ng nbg : nat) (funs : list fundef) (stack : Z) (nargs : nat) : bool :=
  prog_ok_b w ng nbg funs nargs && (0 <=? stack) &&
  (size (lower_program w funs) + GenStdlib.stdlib_len <=? Machine.W w) &&
  ((stack + Z.of_nat nargs + 6) * w <? Machine.W w / 2).
