(* write(bool) of the regenerated runtime library prints "true"/"false" and returns, leaving the
   state section untouched outside r0..r2.  For every word size w >= 2. *)
From Coq Require Import ZArith List Bool Lia.
From HidV Require Import Machine Halts WordLemmas MemLemmas GenStdlib StepTactics StdlibBase.
Import ListNotations.
Open Scope Z_scope.
Ltac Zify.zify_post_hook ::= Z.to_euclidean_division_equations.

Definition str_false : list Z := [102; 97; 108; 115; 101].
Definition str_true : list Z := [116; 114; 117; 101].

Section Bool.
Variables (w : Z) (code : Z -> option instr) (cmem : mem) (B : Z).
Hypothesis Hw : 2 <= w.
Hypothesis CA : lib_at w code B.
Hypothesis B_range : lib_range w B.

Notation act := (Machine.act w code cmem).
Notation runs := (Halts.runs act).
Notation lw := (Machine.lw w).
Notation sw := (Machine.sw w).
Notation W := (Machine.W w).

(* `yield 'c'` at offset k, for the nine literal characters *)
Lemma yield_runs k c m : In (k, c) [(61,102);(62,97);(63,108);(64,115);(65,101);(70,116);(71,114);(72,117);(73,101)] ->
  runs (mk (B + k) m) [EOut c] (mk (B + (k + 1)) m).
Proof.
  intros Hin. pose proof (W_ge_65536 w Hw) as HW.
  apply (runs_next act _ _ (Some (EOut c))).
  cbn [In] in Hin.
  repeat (destruct Hin as [Hin|Hin]; [injection Hin as <- <-|]); [..|contradiction].
  1: at_pc CA 61. 2: at_pc CA 62. 3: at_pc CA 63. 4: at_pc CA 64. 5: at_pc CA 65.
  6: at_pc CA 70. 7: at_pc CA 71. 8: at_pc CA 72. 9: at_pc CA 73.
  all: rewrite wrap_id by lia; norm_pc; reflexivity.
Qed.

Theorem write_bool_spec m F :
  frame_ok w m F 1 ->
  let b := Machine.lb m (F - w - 1) in
  let ra := lw m (F - w) in
  exists m', runs (mk (B + off_write_bool) m)
                  (map EOut (if b =? 0 then str_false else str_true)) (mk ra m')
             /\ agree w m' m /\ wf_mem m'.
Proof.
  intros (Hwf & HFP & HF1 & HF2 & HF3) b ra. unfold reg_fp, stack_start in *.
  pose proof (W_ge_65536 w Hw) as HW. pose proof (Hw1 w Hw) as Hw1.
  destruct B_range as [HB0 HB1]. unfold stdlib_len in HB1. unfold off_write_bool.
  assert (Hb : 0 <= b < 256) by apply Hwf.
  set (m1 := sw m (2 * w) b).
  assert (Hs1 : msize m1 = msize m) by apply msize_sw.
  assert (Hwf1 : wf_mem m1) by (apply wf_sw; [exact Hwf | lia]).
  assert (Hfp1 : lw m1 (1 * w) = F) by (unfold m1; rewrite (lw_sw_other w Hw1 m (2 * w) b (1 * w)) by lia; exact HFP).
  assert (Hr0 : lw m1 (2 * w) = b) by (apply lw_sw_byte; lia).
  assert (Hra1 : lw m1 (F - w) = ra) by (unfold m1; rewrite (lw_sw_other w Hw1 m (2 * w) b (F - w)) by lia; reflexivity).
  assert (Hag1 : agree w m1 m) by (apply agree_sw; [lia | apply agree_refl | lia]).
  (* lbso [r0],[fp],-1w-1 *)
  assert (S0 : runs (mk (B + 58) m) [] (mk (B + 59) m1)).
  { apply (runs_next act _ _ None). at_pc CA 58.
    rewrite HFP, (sgn_small w F) by lia.
    replace (- (1 * w) - 1) with (- (w + 1)) by lia. rewrite (sgn_neg_imm w Hw1 (w + 1)) by lia.
    replace (F + - (w + 1)) with (F - w - 1) by lia. exec_inb. norm_pc. reflexivity. }
  assert (J : act (mk (B + 59) m1) = AJump (mk (B + 60) m1) (mk (B + 69) m1)).
  { at_pc CA 59. rewrite wrap_id by lia. norm_pc. reflexivity. }
  assert (RET : forall k, k = 66 \/ k = 74 -> runs (mk (B + k) m1) [] (mk ra (sw m1 (2 * w) ra))).
  { intros k Hk. rewrite <- Hra1.
    apply (ret_runs w code cmem B Hw CA B_range k m1 F); try assumption; lia. }
  exists (sw m1 (2 * w) ra). split; [|split].
  2: { apply agree_sw; [lia | exact Hag1 | lia]. }
  2: { apply wf_sw; [exact Hwf1 | lia]. }
  destruct (Z.eqb_spec b 0) as [Eb|Nb].
  - (* false: the fall-through's `hne [r0],0` passes, the target's `heq [r0],0` halts *)
    assert (BR : runs (mk (B + 59) m1) [] (mk (B + 61) m1)).
    { eapply runs_branch_fall; [exact J | |].
      - at_pc CA 60. rewrite Hr0, Eb, wrap_id by lia. cbn [Z.eqb negb]. norm_pc. reflexivity.
      - at_pc CA 69. rewrite Hr0, Eb, wrap_id by lia. reflexivity. }
    change (map EOut str_false) with ([] ++ [] ++ [EOut 102] ++ [EOut 97] ++ [EOut 108] ++ [EOut 115] ++ [EOut 101] ++ []).
    eapply runs_trans; [exact S0|]. eapply runs_trans; [exact BR|].
    eapply runs_trans; [apply (yield_runs 61); cbn; tauto|].
    eapply runs_trans; [apply (yield_runs 62); cbn; tauto|].
    eapply runs_trans; [apply (yield_runs 63); cbn; tauto|].
    eapply runs_trans; [apply (yield_runs 64); cbn; tauto|].
    eapply runs_trans; [apply (yield_runs 65); cbn; tauto|].
    apply (RET 66); auto.
  - (* true *)
    assert (BR : runs (mk (B + 59) m1) [] (mk (B + 70) m1)).
    { eapply runs_branch_taken; [exact J | |].
      - at_pc CA 60. rewrite Hr0, (wrap_id w 0) by lia.
        destruct (Z.eqb_spec b 0); [contradiction | reflexivity].
      - at_pc CA 69. rewrite Hr0, (wrap_id w 0) by lia.
        destruct (Z.eqb_spec b 0); [contradiction|]. norm_pc. reflexivity. }
    change (map EOut str_true) with ([] ++ [] ++ [EOut 116] ++ [EOut 114] ++ [EOut 117] ++ [EOut 101] ++ []).
    eapply runs_trans; [exact S0|]. eapply runs_trans; [exact BR|].
    eapply runs_trans; [apply (yield_runs 70); cbn; tauto|].
    eapply runs_trans; [apply (yield_runs 71); cbn; tauto|].
    eapply runs_trans; [apply (yield_runs 72); cbn; tauto|].
    eapply runs_trans; [apply (yield_runs 73); cbn; tauto|].
    apply (RET 74); auto.
Qed.

End Bool.
