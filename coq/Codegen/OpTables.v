(* C09: the regenerated operator tables against the machine semantics, for every operand value
   and every word size w >= 1. *)
From Coq Require Import ZArith List Bool Lia.
From HidV Require Import Machine WordLemmas GenTables.
Import ListNotations.
Open Scope Z_scope.

(* ---- source-level meaning of the operators (the specification) ---- *)
Definition cmp_sem (s : src_cmp) (a b : Z) : bool :=   (* on signed values *)
  match s with
  | SEq => a =? b | SNe => negb (a =? b)
  | SLt => a <? b | SGt => b <? a | SLe => a <=? b | SGe => b <=? a
  end.
Definition arith_sem (s : src_arith) (a b : Z) : Z :=  (* on signed values; / and % floor *)
  match s with SAdd => a + b | SSub => a - b | SMul => a * b | SDiv => a / b | SMod => a mod b end.

Section Tables.
Variable w : Z.
Hypothesis Hw : 1 <= w.
Notation inrange := (WordLemmas.inrange w).
Notation sgn := (Machine.sgn w).
Notation wrap := (Machine.wrap w).

(* a conditional halt fires exactly when the source comparison holds of the signed readings *)
Definition cmp_entry_ok (e : src_cmp * cond) : Prop :=
  forall x y, inrange x -> inrange y -> cond_holds w (snd e) x y = cmp_sem (fst e) (sgn x) (sgn y).

Lemma eqb_sgn x y : inrange x -> inrange y -> (x =? y) = (sgn x =? sgn y).
Proof.
  intros Hx Hy. destruct (Z.eqb_spec x y) as [E|N].
  - subst. now rewrite Z.eqb_refl.
  - destruct (Z.eqb_spec (sgn x) (sgn y)) as [E|_]; [|reflexivity].
    exfalso. apply N. eapply sgn_inj; eauto.
Qed.

Theorem compare_map_correct : Forall cmp_entry_ok compare_map.
Proof.
  unfold compare_map. repeat apply Forall_cons; try apply Forall_nil; unfold cmp_entry_ok; cbn [fst snd cond_holds cmp_sem];
    intros x y Hx Hy; try reflexivity; rewrite (eqb_sgn x y Hx Hy); reflexivity.
Qed.
Theorem compare_map_total : map fst compare_map = [SEq; SNe; SLt; SGt; SLe; SGe].
Proof. reflexivity. Qed.

(* every entry of halt_inversion maps a condition to its exact negation, on all operand values *)
Definition inv_entry_ok (e : cond * cond) : Prop :=
  forall x y, cond_holds w (snd e) x y = negb (cond_holds w (fst e) x y).
Theorem halt_inversion_is_negation : Forall inv_entry_ok halt_inversion.
Proof.
  unfold halt_inversion. repeat apply Forall_cons; try apply Forall_nil; unfold inv_entry_ok; cbn [fst snd cond_holds]; intros x y;
    repeat match goal with
    | |- context [Z.ltb ?a ?b] => destruct (Z.ltb_spec a b)
    | |- context [Z.leb ?a ?b] => destruct (Z.leb_spec a b)
    | |- context [Z.eqb ?a ?b] => destruct (Z.eqb_spec a b)
    end; cbn [negb]; try reflexivity; lia.
Qed.
(* the table covers all ten conditions and is an involution *)
Definition all_conds := [Ceq; Cne; Clt; Cltu; Cgt; Cgtu; Cle; Cleu; Cge; Cgeu].
Definition cond_eqb (a b : cond) : bool :=
  match a, b with
  | Ceq, Ceq | Cne, Cne | Clt, Clt | Cltu, Cltu | Cgt, Cgt | Cgtu, Cgtu | Cle, Cle | Cleu, Cleu | Cge, Cge | Cgeu, Cgeu => true
  | _, _ => false end.
Definition invert (c : cond) : option cond :=
  match find (fun e => cond_eqb (fst e) c) halt_inversion with Some e => Some (snd e) | None => None end.
Theorem halt_inversion_total_involutive :
  forallb (fun c => match invert c with Some c' => match invert c' with Some c'' => cond_eqb c'' c | None => false end | None => false end) all_conds = true.
Proof. vm_compute. reflexivity. Qed.
Theorem halt_inversion_no_duplicate_keys :
  length halt_inversion = length all_conds.
Proof. reflexivity. Qed.

(* arithmetic: the mapped instruction leaves (after the store's wrap) the wrapped result of the
   source operator applied to the signed readings; division by zero faults instead *)
Definition arith_entry_ok (e : src_arith * aop) : Prop :=
  forall x y, inrange x -> inrange y ->
    match arith w (snd e) x y with
    | Some r => wrap r = wrap (arith_sem (fst e) (sgn x) (sgn y))
    | None => (fst e = SDiv \/ fst e = SMod) /\ sgn y = 0
    end.
Theorem arith_map_correct : Forall arith_entry_ok arith_map.
Proof.
  unfold arith_map. repeat apply Forall_cons; try apply Forall_nil; unfold arith_entry_ok; cbn [fst snd arith arith_sem]; intros x y Hx Hy.
  - apply wrap_add_sgn; assumption.
  - apply wrap_sub_sgn; assumption.
  - reflexivity.
  - destruct (Z.eqb_spec (sgn y) 0); [split; [left; reflexivity | assumption] | reflexivity].
  - destruct (Z.eqb_spec (sgn y) 0); [split; [right; reflexivity | assumption] | reflexivity].
Qed.
Theorem arith_map_total : map fst arith_map = [SAdd; SSub; SMul; SDiv; SMod].
Proof. reflexivity. Qed.

(* unsigned comparisons used by the guards *)
Lemma cond_ltu x y : cond_holds w Cltu x y = (x <? y). Proof. reflexivity. Qed.
Lemma cond_geu x y : cond_holds w Cgeu x y = (y <=? x). Proof. reflexivity. Qed.

(* index check: `hltu i, len` halts (index accepted) iff 0 <= sgn i < len, for 0 <= len <= max_signed *)
Theorem index_check_exact i len : inrange i -> 0 <= len < Machine.W w / 2 ->
  cond_holds w Cltu i len = (0 <=? sgn i) && (sgn i <? len).
Proof.
  intros Hi Hl. cbn [cond_holds]. unfold WordLemmas.inrange in Hi.
  destruct (sgn_cases w i Hi) as [[Hs E]|[Hs E]]; rewrite E.
  - destruct (Z.leb_spec 0 i); [reflexivity | lia].
  - pose proof (W_even w Hw). destruct (Z.leb_spec 0 (i - Machine.W w)); [lia|].
    destruct (Z.ltb_spec i len); [lia | reflexivity].
Qed.
End Tables.
