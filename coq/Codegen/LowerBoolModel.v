(* Component `lowerbool` (first piece of `Lower`, DESIGN §3.6): hand model of how hidc lowers a
   BOOLEAN EXPRESSION IN BRANCH POSITION.

   Source: hidc/codegen/generator.py
     bool_expr_branch   (the function modelled: same recursion, same order of add_label calls,
                         same goto-omission rules `true_end_goto` / `false_end_goto`, same
                         duplication of the if_true / if_false sequences)
     eval_expr / get_expr_value / pop_value on the operand shapes of F_model (below)
     add_label, goto, is_goto
     gen_block IfBlock  (`if_block`: labels else_N, end_else_N allocated BEFORE the condition,
                         condition lowered with if_true = (), if_false = goto else_N)
     eval_expr BooleanOp (`value_lowering`: bool_expr_branch e (set 1) (set 0))
     truth_is_defeat    (`lower_defeat`; static and virtual defeat)

   F_model: boolean expression trees over
     - comparisons  a OP b,  OP in < > <= >= == !=,  a, b int operands:
         "safe" operands: integer literals or int locals/parameters of the enclosing function
         (`Indirect(STATE, [fp], -offset)`, read by `lwso`);
         arithmetic operands x + y, x - y, x * y, -x, +x (nested), lowered as eval_expr's
         BinaryArithmeticOp / Unary cases do, including the keep / push_value / pop_value discipline
         (`keep = not is_safe(right)`: a computed left operand is pushed on the frame while an
         unsafe right operand is evaluated).  `/` and `%` are outside F_model (the checked
         build's division guard is not modelled);
     - boolean literals;  bool locals (`IndirectByte`, read by `lbso`);
     - not e, e1 and e2, e1 or e2
   in branch position with ARBITRARY if_true / if_false instruction sequences (the model takes
   them as lists of abstract lines, exactly like the Python function takes iterables).

   F_proved (LowerBoolProofs.v, predicates `oexp_ok` / `vars_ok`) = F_model.  Also modelled, tied and
   proved: `eval_opd` alone (arith_lowering_correct, DESIGN C01 item 3), get_expr_value of a boolean
   expression (`eval_bool_value`), declarations / assignments of bool locals, and truth_is_defeat
   (`lower_defeat`) with static and virtual defeat.

   Everything here is executable and extracted (Extract/ExtractLowerBool.v); the semantic theorems
   are in LowerBoolProofs.v.  The tables compare_map and halt_inversion come from the REGENERATED
   Gen/GenTables.v, so the model prints what today's tables say. *)
From Coq Require Import ZArith List Bool Lia String Ascii Decimal DecimalString.
From HidV Require Import Machine AsmText GenTables GenEscape GenStdlib OpTables.
Import ListNotations.
Open Scope Z_scope.

(* ---------- labels: add_label numbers each NAME separately ---------- *)
Inductive lname := LCompareIsTrue | LCompareEnd | LLeftIsTrue | LAndEnd | LLeftIsFalse | LOrEnd
                 | LIsTrue | LBoolEnd | LElse | LEndElse | LLoop | LContinue | LBreak | LEndCall
                 | LDivAllowed | LNoOverflow
                 | LFunc (f : nat).      (* func_<name of the f-th function>; only number 0 (no overloading) *)
Definition lname_eqb (a b : lname) : bool :=
  match a, b with
  | LCompareIsTrue, LCompareIsTrue | LCompareEnd, LCompareEnd | LLeftIsTrue, LLeftIsTrue
  | LAndEnd, LAndEnd | LLeftIsFalse, LLeftIsFalse | LOrEnd, LOrEnd | LIsTrue, LIsTrue
  | LBoolEnd, LBoolEnd | LElse, LElse | LEndElse, LEndElse
  | LLoop, LLoop | LContinue, LContinue | LBreak, LBreak | LEndCall, LEndCall
  | LDivAllowed, LDivAllowed | LNoOverflow, LNoOverflow => true
  | LFunc f, LFunc g => Nat.eqb f g
  | _, _ => false
  end.
Definition label := (lname * nat)%type.
Definition label_eqb (a b : label) : bool := lname_eqb (fst a) (fst b) && Nat.eqb (snd a) (snd b).

(* self.numbered_labels *)
Definition lstate := lname -> nat.
Definition add_label (nm : lname) (st : lstate) : label * lstate :=
  ((nm, st nm), fun x => if lname_eqb x nm then S (st nm) else st x).

(* ---------- abstract assembly lines ---------- *)
Inductive reg := RAp | RFp | R0 | R1 | R2 | RDefeat     (* state words addressed by label *)
               | RGlob (g : nat)                          (* the word of the g-th int global: var_<name>_0 *)
               | RBGlob (h : nat).                        (* the byte of the h-th bool global: var_<name>_0 *)
(* an AssemblyExpression: IntLiteral, State(LabelRef of a register word), LabelRef of a code label *)
(* the labels of the runtime library the fragment refers to *)
Inductive stdlab := LibWriteInt | LibWriteBool | LibDivZero | LibStackOverflow.
Inductive sym := SLit (z : Z) | SReg (r : reg) | SLab (l : label)
               | SChar (c : Z)          (* IntLiteral(c, is_char=True), 0 <= c <= 255 *)
               | SRegAddr (r : reg)     (* the LabelRef of a register word, as an immediate *)
               | SStd (x : stdlab).     (* a label of the runtime library (hidc/codegen/stdlib.py) *)
Inductive ains :=
| AJump (t : sym)                    (* j t *)
| AHaltI                             (* halt *)
| AHc (c : cond) (a b : sym)         (* h<cc> a, b *)
| ALwso (d : reg) (b o : sym)        (* lwso [d], b, o *)
| ALbso (d : reg) (b o : sym)        (* lbso [d], b, o *)
| AArith (op : aop) (d : reg) (a b : sym)   (* add/sub/mul/.. [d], a, b *)
| ALbs (d : reg) (a : sym)           (* lbs [d], a *)
| AYield (v : sym)                   (* yield v *)
| AMov (d : reg) (v : sym)           (* mov [d], v *)
| ASwso (b o v : sym)                (* swso b, o, v *)
| ASbso (b o v : sym)                (* sbso b, o, v *)
| ASbs (a v : sym).                  (* sbs a, v *)
Inductive aline := ALabel (l : label) | AInstr (i : ains).

(* ---------- source fragment ---------- *)
(* int literal | i-th int local | binary arithmetic | unary - + *)
Inductive unop := UNeg | UPos.
(* which byte of the frame a byte read takes:
     YSlot j   the j-th byte-sized local x:        `x is int`           ByteToInt(VariableLookup)
     YLow i    the low byte of the i-th int local:  `(x is byte) is int` ByteToInt(IntToByte(VariableLookup)):
               Indirect.access_byte() = IndirectByte at the same offset (little endian) *)
Inductive yloc := YSlot (j : nat) | YLow (i : nat).
Inductive iopd := OLit (ch : bool) (z : Z)   (* ch: a char literal used as an int (IntLiteral(.., is_char)): printed 'c' *)
               | OVar (i : nat) | OArith (op : src_arith) (x y : iopd) | OUn (u : unop) (x : iopd)
               | OGlob (g : nat)             (* the g-th int global (not const): State(var_<name>_0), volatile *)
               | OTrunc (o : iopd)           (* `(o is byte) is int`: ByteToInt(IntToByte(o)): o is lowered as usual,
                                                then its bubble is read through byte access (o mod 256) *)
               | OByte (v : yloc).           (* a byte of the frame read as an int, zero-extended with lbso:
                                                IndirectByte(STATE, [fp], -off) *)
(* where a bool variable lives: a byte of the frame (IndirectByte) or a byte global (StateByte) *)
Inductive bloc := BLocal (j : nat) | BGlobal (h : nat).
Inductive bexpr :=
| BLit (b : bool)
| BVar (v : bloc)                                      (* a bool variable: the j-th local or the h-th global *)
| BCmp (op : src_cmp) (a b : iopd)
| BNot (e : bexpr)
| BAnd (e1 e2 : bexpr)
| BOr (e1 e2 : bexpr).

(* self.local_vars restricted to what the fragment needs: the (positive) frame offset of each
   local; the accessor is Indirect / IndirectByte (STATE, [fp], -offset).  wsize = self.word_size;
   stack_top = self.stack.offset at the point where the expression is lowered *)
Record env := mkenv { int_off : nat -> Z; bool_off : nat -> Z; wsize : Z; stack_top : Z }.
Definition with_top (E : env) (t : Z) : env := mkenv (int_off E) (bool_off E) (wsize E) t.
Definition byte_off (E : env) (v : yloc) : Z := match v with YSlot j => bool_off E j | YLow i => int_off E i end.

(* ---------- goto / is_goto ---------- *)
Definition goto (l : label) : list aline := [AInstr (AJump (SLab l)); AInstr AHaltI].
Definition is_goto (l : list aline) : bool :=
  match l with [AInstr (AJump _); AInstr AHaltI] => true | _ => false end.
(* Python `xs[-2:]` *)
Definition last2 {A} (l : list A) : list A := skipn (List.length l - 2) l.
Definition ends_goto (l : list aline) : bool := is_goto (last2 l).

(* ---------- tables ---------- *)
Definition src_cmp_eqb (a b : src_cmp) : bool :=
  match a, b with
  | SEq, SEq | SNe, SNe | SLt, SLt | SGt, SGt | SLe, SLe | SGe, SGe => true
  | _, _ => false
  end.
(* compare_map.get(type(expr)) *)
Definition compare_instr (op : src_cmp) : cond :=
  match find (fun e => src_cmp_eqb (fst e) op) compare_map with Some e => snd e | None => Ceq end.
(* halt_inversion[instr] *)
Definition invert_instr (c : cond) : cond := match invert c with Some c' => c' | None => c end.

(* arith_map[type(expr)] *)
Definition src_arith_eqb (a b : src_arith) : bool :=
  match a, b with
  | SAdd, SAdd | SSub, SSub | SMul, SMul | SDiv, SDiv | SMod, SMod => true
  | _, _ => false
  end.
Definition arith_instr (op : src_arith) : aop :=
  match find (fun e => src_arith_eqb (fst e) op) arith_map with Some e => snd e | None => Aadd end.

(* ---------- operands ---------- *)
(* is_safe: PrimitiveValue or VariableLookup (a cast node -- OByte -- is not) *)
Definition is_safe (o : iopd) : bool := match o with OLit _ _ | OVar _ | OGlob _ => true | _ => false end.
Definition reg_eqb (a b : reg) : bool :=
  match a, b with
  | RAp, RAp | RFp, RFp | R0, R0 | R1, R1 | R2, R2 | RDefeat, RDefeat => true
  | RGlob g, RGlob h => Nat.eqb g h
  | RBGlob g, RBGlob h => Nat.eqb g h
  | _, _ => false
  end.
(* `arg_in != asm.State(r_out)` *)
Definition is_state_of (r : reg) (v : sym) : bool := match v with SReg r' => reg_eqb r r' | _ => false end.

(* the ValueBubble eval_expr returns, as far as F_model needs it *)
Inductive bubble :=
| BuImm (ch : bool) (z : Z)   (* vacuous, IntLiteral (is_char = ch) *)
| BuLocal (yb : bool) (off : Z)  (* vacuous, Indirect / IndirectByte (yb) (STATE, [fp], -off): a local, never volatile *)
| BuReg (r : reg)        (* vacuous, State(r): volatile *)
| BuPushed (off : Z)     (* push_value: a reserved word at frame offset off *)
| BuRegB (r : reg)       (* State(r).access_byte() = StateByte(r): the low byte of the word r *)
| BuPushedB (off : Z).   (* a pushed word under byte access: IndirectByte at the same offset *)
(* Accessor.access_byte (IntToByte): IntLiteral is masked; Indirect -> IndirectByte; State -> StateByte *)
Definition to_byte (b : bubble) : bubble :=
  match b with
  | BuImm ch z => BuImm ch (z mod 256)
  | BuLocal _ off => BuLocal true off
  | BuReg r => BuRegB r
  | BuPushed off => BuPushedB off
  | _ => b
  end.
(* an IntLiteral as an operand: a char literal keeps its spelling *)
Definition lit_sym (ch : bool) (z : Z) : sym := if ch then SChar z else SLit z.
(* pop_value(r, bubble): release the bubble (no code: no arrays here), then bubble.value.get(r) *)
Definition pop_value (r : reg) (b : bubble) : list aline * sym :=
  match b with
  | BuImm ch z => ([], lit_sym ch z)
  | BuLocal false off | BuPushed off => ([AInstr (ALwso r (SReg RFp) (SLit (- off)))], SReg r)
  | BuLocal true off | BuPushedB off => ([AInstr (ALbso r (SReg RFp) (SLit (- off)))], SReg r)   (* IndirectByte.get *)
  | BuRegB r' => ([AInstr (ALbs r (SRegAddr r'))], SReg r)                              (* StateByte.get *)
  | BuReg r' => ([], SReg r')
  end.
(* self.stack.offset while the bubble is live *)
Definition top_after (top : Z) (b : bubble) : Z := match b with BuPushed off | BuPushedB off => off | _ => top end.

(* the tail of eval_expr: result = State(r_out); vacuous unless keep, else push_value *)
Definition finish_opd (E : env) (top : Z) (r_out : reg) (keep : bool) (code : list aline) : list aline * bubble :=
  if keep
  then (code ++ [AInstr (ASwso (SReg RFp) (SLit (- (top + wsize E))) (SReg r_out))], BuPushed (top + wsize E))
  else (code, BuReg r_out).

(* eval_expr(r_out, o, keep) for int operands; top = self.stack.offset on entry *)
Fixpoint eval_opd (E : env) (top : Z) (r_out : reg) (o : iopd) (keep : bool) : list aline * bubble :=
  match o with
  | OLit ch z => ([], BuImm ch z)
  | OVar i => ([], BuLocal false (int_off E i))
  | OByte v => ([], BuLocal true (byte_off E v))
  | OTrunc x => let (c, bub) := eval_opd E top r_out x keep in (c, to_byte bub)
  | OGlob g =>                       (* VariableLookup of a non-const global: volatile, pushed if kept *)
      if keep then ([AInstr (ASwso (SReg RFp) (SLit (- (top + wsize E))) (SReg (RGlob g)))], BuPushed (top + wsize E))
      else ([], BuReg (RGlob g))
  | OArith op x y =>
      let (c1, lbub) := eval_opd E top R0 x (negb (is_safe y)) in
      let (c2, rbub) := eval_opd E (top_after top lbub) R1 y false in      (* get_expr_value(r1, y) *)
      let (c2', right) := pop_value R1 rbub in
      let (c3, left) := pop_value R0 lbub in
      finish_opd E top r_out keep
        (c1 ++ c2 ++ c2' ++ c3 ++ [AInstr (AArith (arith_instr op) r_out left right)])
  | OUn u x =>
      let (c, bub) := eval_opd E top r_out x false in                      (* get_expr_value(r_out, x) *)
      let (c', v) := pop_value r_out bub in
      finish_opd E top r_out keep
        (c ++ c' ++ match u with                                           (* un_op_reg_arg *)
                    | UNeg => [AInstr (AArith Asub r_out (SLit 0) v)]
                    | UPos => if is_state_of r_out v then [] else [AInstr (AMov r_out v)]
                    end)
  end.
(* the three lines of the compare case:
     left_bubble = eval_expr(r0, left, keep = not is_safe(right))
     right = get_expr_value(r1, right);  left = pop_value(r0, left_bubble) *)
Definition compare_operands (E : env) (a b : iopd) : list aline * sym * sym :=
  let top := stack_top E in
  let (c1, lbub) := eval_opd E top R0 a (negb (is_safe b)) in
  let (c2, rbub) := eval_opd E (top_after top lbub) R1 b false in
  let (c2', right) := pop_value R1 rbub in
  let (c3, left) := pop_value R0 lbub in
  (c1 ++ c2 ++ c2' ++ c3, left, right).

(* temps_needed: the maximum number of words the lowering of an operand keeps pushed above the
   stack top at any moment (LowerBoolProofs.eval_opd_stores: every `swso [fp], -off, _` of the
   emitted code has top < off <= top + temps * w, and the bound is attained) *)
Definition is_glob (o : iopd) : bool := match o with OGlob _ => true | _ => false end.
Fixpoint is_vac (o : iopd) : bool := match o with OLit _ _ | OVar _ | OByte _ => true | OTrunc x => is_vac x | _ => false end.
Definition pushed (o : iopd) (keep : bool) : nat := if keep && negb (is_vac o) then 1%nat else 0%nat.
Fixpoint temps (o : iopd) (keep : bool) : nat :=
  match o with
  | OLit _ _ | OVar _ | OByte _ => 0%nat
  | OGlob _ => if keep then 1%nat else 0%nat
  | OArith _ x y =>
      let kx := negb (is_safe y) in
      Nat.max (Nat.max (temps x kx) (pushed x kx + temps y false)) (if keep then 1%nat else 0%nat)
  | OUn _ x => Nat.max (temps x false) (if keep then 1%nat else 0%nat)
  | OTrunc x => temps x keep
  end.
Definition temps_cmp (a b : iopd) : nat :=
  let ka := negb (is_safe b) in Nat.max (temps a ka) (pushed a ka + temps b false).

Fixpoint temps_b (e : bexpr) : nat :=
  match e with
  | BCmp _ a b => temps_cmp a b
  | BNot e1 => temps_b e1
  | BAnd e1 e2 | BOr e1 e2 => Nat.max (temps_b e1) (temps_b e2)
  | _ => 0%nat
  end.

(* IndirectByte.get / StateByte.get *)
Definition load_bool (E : env) (r : reg) (v : bloc) : aline :=
  match v with
  | BLocal j => AInstr (ALbso r (SReg RFp) (SLit (- bool_off E j)))
  | BGlobal h => AInstr (ALbs r (SRegAddr (RBGlob h)))
  end.
(* ---------- bool_expr_branch ---------- *)
Fixpoint lower_branch (E : env) (e : bexpr) (if_true if_false : list aline) (st : lstate)
  : list aline * lstate :=
  let true_end_goto := ends_goto if_true in
  let false_end_goto := ends_goto if_false in
  match e with
  | BCmp op a b =>
      let (compare_is_true, st1) := add_label LCompareIsTrue st in
      let (compare_end, st2) := add_label LCompareEnd st1 in
      let instr := compare_instr op in
      let '(co, lhs, rhs) := compare_operands E a b in
      (co
         ++ [AInstr (AJump (SLab compare_is_true)); AInstr (AHc instr lhs rhs)]
         ++ if_false
         ++ (if false_end_goto then [] else goto compare_end)
         ++ [ALabel compare_is_true; AInstr (AHc (invert_instr instr) lhs rhs)]
         ++ if_true
         ++ (if false_end_goto then [] else [ALabel compare_end]),
       st2)
  | BNot e1 => lower_branch E e1 if_false if_true st
  | BAnd e1 e2 =>
      let (left_is_true, st1) := add_label LLeftIsTrue st in
      let (and_end, st2) := add_label LAndEnd st1 in
      let (c1, st3) := lower_branch E e1 (goto left_is_true)
                         (if false_end_goto then if_false else if_false ++ goto and_end) st2 in
      let (c2, st4) := lower_branch E e2 if_true if_false st3 in
      (c1 ++ [ALabel left_is_true] ++ c2 ++ (if false_end_goto then [] else [ALabel and_end]), st4)
  | BOr e1 e2 =>
      let (left_is_false, st1) := add_label LLeftIsFalse st in
      let (or_end, st2) := add_label LOrEnd st1 in
      let (c1, st3) := lower_branch E e1
                         (if true_end_goto then if_true else if_true ++ goto or_end)
                         (goto left_is_false) st2 in
      let (c2, st4) := lower_branch E e2 if_true if_false st3 in
      (c1 ++ [ALabel left_is_false] ++ c2 ++ (if true_end_goto then [] else [ALabel or_end]), st4)
  | BLit b => (if b then if_true else if_false, st)
  | BVar v =>
      let (expr_is_true, st1) := add_label LIsTrue st in
      let (bool_end, st2) := add_label LBoolEnd st1 in
      (* value = get_expr_value(r1, expr): `lbso [r1], [fp], -off` resp. `lbs [r1], var_h`, State(r1) *)
      let value := SReg R1 in
      ([load_bool E R1 v;
        AInstr (AJump (SLab expr_is_true)); AInstr (AHc Cne value (SLit 0))]
         ++ if_false
         ++ (if false_end_goto then [] else goto bool_end)
         ++ [ALabel expr_is_true; AInstr (AHc Ceq value (SLit 0))]
         ++ if_true
         ++ (if false_end_goto then [] else [ALabel bool_end]),
       st2)
  end.

(* gen_block, IfBlock case, up to (not including) the body: labels else/end_else are allocated
   first, then the condition with if_true = (), if_false = goto else *)
Definition if_block (E : env) (e : bexpr) (st : lstate) : list aline * label * label * lstate :=
  let (else_label, st1) := add_label LElse st in
  let (end_else, st2) := add_label LEndElse st1 in
  let (c, st3) := lower_branch E e [] (goto else_label) st2 in
  (c, else_label, end_else, st3).

(* eval_expr, BooleanOp case.  keep = False: the bubble is State(r_out), `set` is a `mov`;
   keep = True (e.g. the initialiser of a declaration): the bubble is a reserved byte at frame
   offset `off`, `set` is `sbso [fp], -off, v` *)
Definition value_lowering (E : env) (e : bexpr) (r_out : reg) (st : lstate) : list aline * lstate :=
  lower_branch E e [AInstr (AMov r_out (SLit 1))] [AInstr (AMov r_out (SLit 0))] st.
Definition value_lowering_keep (E : env) (e : bexpr) (st : lstate) : list aline * lstate :=
  let off := stack_top E + 1 in                       (* bubble = reserve_type(bool): reserve_byte *)
  lower_branch (with_top E off) e [AInstr (ASbso (SReg RFp) (SLit (- off)) (SLit 1))]
                                  [AInstr (ASbso (SReg RFp) (SLit (- off)) (SLit 0))] st.

(* ---------- get_expr_value(r_out, e) for a BOOLEAN expression e: code, value, label state.
   literal -> IntLiteral; bool local -> lbso; `not x` -> Unary case: value of x, then
   `sub [r_out], 1, value`; comparison / and / or -> BooleanOp case into State(r_out) ---------- *)
Fixpoint eval_bool_value (E : env) (r_out : reg) (e : bexpr) (st : lstate) : list aline * sym * lstate :=
  match e with
  | BLit b => ([], SLit (if b then 1 else 0), st)
  | BVar v => ([load_bool E r_out v], SReg r_out, st)
  | BNot x =>
      let '(c, v, st') := eval_bool_value E r_out x st in
      (c ++ [AInstr (AArith Asub r_out (SLit 1) v)], SReg r_out, st')
  | _ => let (c, st') := value_lowering E e r_out st in (c, SReg r_out, st')
  end.

(* gen_stmts, Assignment to a bool local at frame offset off:
     value = get_expr_value(r1, e);  access.set(value) *)
Definition assign_bool (E : env) (off : Z) (e : bexpr) (st : lstate) : list aline * lstate :=
  let '(c, v, st') := eval_bool_value E R1 e st in
  (c ++ [AInstr (ASbso (SReg RFp) (SLit (- off)) v)], st').
(* gen_stmts, Declaration `bool x = e;` (push_expr(r1, e)): a comparison / and / or is a BooleanOp
   with keep = True; anything else is evaluated (into r1 unless a literal) and pushed as a byte *)
Definition declare_bool (E : env) (e : bexpr) (st : lstate) : list aline * lstate :=
  match e with
  | BCmp _ _ _ | BAnd _ _ | BOr _ _ => value_lowering_keep E e st
  | _ => assign_bool E (stack_top E + 1) e st
  end.

(* ---------- truth_is_defeat.  virt = (self.effective_defeat != stdlib.halt): defeat is
   virtualised and effective_defeat is State(defeat) ---------- *)
Definition defeat_jump (virt : bool) : list aline :=
  if virt then [AInstr (AJump (SReg RDefeat))] else [].
Fixpoint lower_defeat (E : env) (virt : bool) (e : bexpr) (st : lstate) : list aline * lstate :=
  match e with
  | BCmp op a b =>
      let '(co, lhs, rhs) := compare_operands E a b in
      (co ++ defeat_jump virt ++ [AInstr (AHc (compare_instr op) lhs rhs)], st)
  | BOr e1 e2 =>
      let (c1, st1) := lower_defeat E virt e1 st in
      let (c2, st2) := lower_defeat E virt e2 st1 in
      (c1 ++ c2, st2)
  | BLit b => (if b then defeat_jump virt ++ [AInstr AHaltI] else [], st)
  | BNot x =>
      let '(c, v, st') := eval_bool_value E R1 x st in
      (c ++ defeat_jump virt ++ [AInstr (AHc Ceq v (SLit 0))], st')
  | _ =>
      let '(c, v, st') := eval_bool_value E R1 e st in
      (c ++ defeat_jump virt ++ [AInstr (AHc Cne v (SLit 0))], st')
  end.

(* ---------- printing: one line exactly as asm.lines renders it (indentation and Metadata
   comment lines are not instructions and are stripped by the correspondence) ---------- *)
Open Scope string_scope.
Definition dec (z : Z) : string := NilZero.string_of_int (Z.to_int z).
Definition lname_str (n : lname) : string :=
  match n with
  | LCompareIsTrue => "compare_is_true" | LCompareEnd => "compare_end"
  | LLeftIsTrue => "left_is_true" | LAndEnd => "and_end"
  | LLeftIsFalse => "left_is_false" | LOrEnd => "or_end"
  | LIsTrue => "is_true" | LBoolEnd => "bool_end"
  | LElse => "else" | LEndElse => "end_else"
  | LLoop => "loop" | LContinue => "continue" | LBreak => "break" | LEndCall => "end_call"
  | LDivAllowed => "div_allowed" | LNoOverflow => "no_overflow"
  | LFunc O => "func_is_you"                           (* the entry point is function 0 *)
  | LFunc f => "func_f" ++ dec (Z.of_nat f)            (* the correspondence names the others f1, f2, .. *)
  end.
Definition label_str (l : label) : string := lname_str (fst l) ++ "_" ++ dec (Z.of_nat (snd l)).
Definition reg_str (r : reg) : string :=
  match r with
  | RAp => "ap" | RFp => "fp" | R0 => "r0" | R1 => "r1" | R2 => "r2" | RDefeat => "defeat"
  | RGlob g => "var_g" ++ dec (Z.of_nat g) ++ "_0"      (* the correspondence names the globals g0, g1, .. *)
  | RBGlob h => "var_h" ++ dec (Z.of_nat h) ++ "_0"     (* .. and the bool globals h0, h1, .. *)
  end.
Fixpoint bytes_str (l : list Z) : string :=
  match l with [] => EmptyString | b :: r => String (ascii_of_nat (Z.to_nat b)) (bytes_str r) end.
Definition sym_str (s : sym) : string :=
  match s with
  | SLit z => dec z
  | SReg r => "[" ++ reg_str r ++ "]"
  | SLab l => label_str l
  | SChar c => "'" ++ bytes_str (escape_byte [39] c) ++ "'"
  | SRegAddr r => reg_str r
  | SStd LibWriteInt => "write_int" | SStd LibWriteBool => "write_bool" | SStd LibDivZero => "division_by_zero"
  | SStd LibStackOverflow => "stack_overflow"
  end.
Definition cond_str (c : cond) : string :=
  match c with
  | Ceq => "heq" | Cne => "hne" | Clt => "hlt" | Cltu => "hltu" | Cgt => "hgt" | Cgtu => "hgtu"
  | Cle => "hle" | Cleu => "hleu" | Cge => "hge" | Cgeu => "hgeu"
  end.
Definition aop_str (o : aop) : string :=
  match o with
  | Aadd => "add" | Asub => "sub" | Amul => "mul" | Adiv => "div" | Amod => "mod"
  | Aand => "and" | Aor => "or" | Axor => "xor" | Aasl => "asl" | Aasr => "asr"
  end.
Definition print_ains (i : ains) : string :=
  match i with
  | AJump t => "j " ++ sym_str t
  | AHaltI => "halt"
  | AHc c a b => cond_str c ++ " " ++ sym_str a ++ ", " ++ sym_str b
  | ALwso d b o => "lwso [" ++ reg_str d ++ "], " ++ sym_str b ++ ", " ++ sym_str o
  | ALbso d b o => "lbso [" ++ reg_str d ++ "], " ++ sym_str b ++ ", " ++ sym_str o
  | AArith o d a b => aop_str o ++ " [" ++ reg_str d ++ "], " ++ sym_str a ++ ", " ++ sym_str b
  | ALbs d a => "lbs [" ++ reg_str d ++ "], " ++ sym_str a
  | AYield v => "yield " ++ sym_str v
  | AMov d v => "mov [" ++ reg_str d ++ "], " ++ sym_str v
  | ASwso b o v => "swso " ++ sym_str b ++ ", " ++ sym_str o ++ ", " ++ sym_str v
  | ASbso b o v => "sbso " ++ sym_str b ++ ", " ++ sym_str o ++ ", " ++ sym_str v
  | ASbs a v => "sbs " ++ sym_str a ++ ", " ++ sym_str v
  end.
Definition print_aline (l : aline) : string :=
  match l with
  | ALabel x => label_str x ++ ":"
  | AInstr i => print_ains i
  end.
Close Scope string_scope.

(* ---------- the frame of the correspondence programs
     empty @is_you(int a0, ..., int a(n-1)) { bool b0 = ..; bool b1 = ..; ... if (e) .. }
   gen_func: the return address occupies the first word; parameters follow in order; byte-sized
   locals are reserved one byte each after them ---------- *)
Definition is_you_env (w : Z) (nparams : nat) : env :=
  mkenv (fun i => (Z.of_nat i + 2) * w) (fun j => (Z.of_nat nparams + 1) * w + Z.of_nat j + 1)
        w ((Z.of_nat nparams + 1) * w).

(* ---------- two-pass label resolution at a base address ---------- *)
Record regmap := mkregs { a_ap : Z; a_fp : Z; a_r0 : Z; a_r1 : Z; a_r2 : Z; a_defeat : Z;
                          a_lib : Z;        (* code address of the first instruction of the runtime library *)
                          a_glob : nat -> Z;    (* state address of the g-th int global *)
                          a_bglob : nat -> Z }. (* state address of the h-th bool global *)
(* offsets of the library's labels, from the REGENERATED Gen/GenStdlib.v *)
Definition std_off (x : stdlab) : Z :=
  match x with
  | LibWriteInt => off_write_int | LibWriteBool => off_write_bool | LibDivZero => off_division_by_zero
  | LibStackOverflow => off_stack_overflow
  end.
Definition regaddr (R : regmap) (r : reg) : Z :=
  match r with
  | RAp => a_ap R | RFp => a_fp R | R0 => a_r0 R | R1 => a_r1 R | R2 => a_r2 R | RDefeat => a_defeat R
  | RGlob g => a_glob R g
  | RBGlob h => a_bglob R h
  end.
(* the state section hidc emits: ap, fp, r0, r1, r2 in this order, one word each; the `defeat`
   word (present when defeat is virtualised) sits after the stack, at an address d; the runtime
   library is appended to the code at address lib *)
Definition hidc_regs_gb (w d lib : Z) (ga gb : nat -> Z) : regmap := mkregs 0 w (2 * w) (3 * w) (4 * w) d lib ga gb.
Definition hidc_regs_g (w d lib : Z) (ga : nat -> Z) : regmap := hidc_regs_gb w d lib ga (fun _ => 0).
Definition hidc_regs (w d lib : Z) : regmap := hidc_regs_g w d lib (fun _ => 0).

Definition res_sym (R : regmap) (lab : label -> Z) (s : sym) : operand :=
  match s with
  | SLit z => Imm z | SReg r => St (regaddr R r) | SLab l => Imm (lab l)
  | SChar c => Imm c | SRegAddr r => Imm (regaddr R r)
  | SStd x => Imm (a_lib R + std_off x)
  end.
Definition res_ins (R : regmap) (lab : label -> Z) (i : ains) : instr :=
  let rs := res_sym R lab in
  match i with
  | AJump t => IJ (rs t)
  | AHaltI => IHalt
  | AHc c a b => IHc c (rs a) (rs b)
  | ALwso d b o => ILoadO WWord SState (St (regaddr R d)) (rs b) (rs o)
  | ALbso d b o => ILoadO WByte SState (St (regaddr R d)) (rs b) (rs o)
  | AArith o d a b => IArith o (St (regaddr R d)) (rs a) (rs b)
  | ALbs d a => ILoad WByte SState (St (regaddr R d)) (rs a)
  | AYield v => IYield (rs v)
  | AMov d v => IMov (St (regaddr R d)) (rs v)
  | ASwso b o v => IStoreO WWord (rs b) (rs o) (rs v)
  | ASbso b o v => IStoreO WByte (rs b) (rs o) (rs v)
  | ASbs a v => IStore WByte (rs a) (rs v)
  end.

(* number of instructions *)
Fixpoint size (l : list aline) : Z :=
  match l with [] => 0 | ALabel _ :: r => size r | AInstr _ :: r => 1 + size r end.
(* pass 1: address of every label definition *)
Fixpoint labdefs (l : list aline) (p : Z) : list (label * Z) :=
  match l with
  | [] => []
  | ALabel x :: r => (x, p) :: labdefs r p
  | AInstr _ :: r => labdefs r (p + 1)
  end.
Definition lookup (d : list (label * Z)) (ext : label -> Z) (x : label) : Z :=
  match find (fun e => label_eqb (fst e) x) d with Some e => snd e | None => ext x end.
(* pass 2 *)
Fixpoint instrs (R : regmap) (lab : label -> Z) (l : list aline) : list instr :=
  match l with
  | [] => []
  | ALabel _ :: r => instrs R lab r
  | AInstr i :: r => res_ins R lab i :: instrs R lab r
  end.
(* labels defined in l resolve to their address (l placed at B); the others through ext *)
Definition resolve (R : regmap) (ext : label -> Z) (B : Z) (l : list aline) : list instr :=
  instrs R (lookup (labdefs l B) ext) l.
