(* Component `idioms`, the verified idiom classifier: property theorems only
   (`Theorem ... exact ...` + `Print Assumptions`).  Proofs: Sphinx/Patterns.v.
   `classify` recognises, at a `j` of a concrete program, the idiom it belongs to;
   `classify_sound` gives the code-shape premises of the corresponding idiom theorem;
   the `classified_*` theorems apply the idiom theorems of Sphinx/Idioms.v, TimeTravel.v,
   Guards.v to classified jumps: their conclusions are restated here in full, so a weakening of
   `premises_of` or of an idiom theorem makes this file fail.  tools/corr_patterns.py checks on
   every run that every `j` of every emitted program classifies.  Serves C01, C02, C03, C05, C15. *)
From Coq Require Import ZArith List Bool Lia.
From HidV Require Import Machine Halts WordLemmas MemLemmas GenTables OpTables Driver Idioms TimeTravel Guards Patterns.
Import ListNotations.
Open Scope Z_scope.

(* ---------------- the recogniser is sound, for any code memory ---------------- *)
Theorem P_classify_sound : forall c code pc i, classify_code c code pc = Some i -> premises_of c code pc i.
Proof. exact classify_sound. Qed.

(* premises_of, unfolded for the idioms every program contains (so that the definition cannot be
   weakened quietly; the remaining constructors are pinned by the classified_* theorems below) *)
Theorem P_classify_sound_goto : forall c code pc X, classify_code c code pc = Some (Goto X) ->
  code pc = Some (IJ (Imm X)) /\ code (pc + 1) = Some IHalt /\ wrap (cw c) X = X /\ code X <> None.
Proof. exact (fun c code pc X => classify_sound c code pc (Goto X)). Qed.
Theorem P_classify_sound_branch : forall c code pc cc cc' a b L, classify_code c code pc = Some (Branch cc cc' a b L) ->
  code pc = Some (IJ (Imm L)) /\ wrap (cw c) L = L /\ code (pc + 1) = Some (IHc cc a b) /\
  code L = Some (IHc cc' a b) /\ In (cc, cc') halt_inversion.
Proof. exact (fun c code pc cc cc' a b L => classify_sound c code pc (Branch cc cc' a b L)). Qed.
Theorem P_classify_sound_guard : forall c code pc cc a b E, classify_code c code pc = Some (Guard cc a b E) ->
  code pc = Some (IJ (Imm (pc + 4))) /\ wrap (cw c) (pc + 4) = pc + 4 /\
  code (pc + 1) = Some (IHc cc a b) /\ code (pc + 2) = Some (IJ (Imm E)) /\
  code (pc + 3) = Some IHalt /\ wrap (cw c) E = E /\ exists f, code E = Some (IFlag f).
Proof. exact (fun c code pc cc a b E => classify_sound c code pc (Guard cc a b E)). Qed.
Theorem P_classify_sound_stop_install : forall c code pc H h fp ap tfp k,
  classify_code c code pc = Some (StopInstall H h fp ap tfp k) ->
  exists d, cdefeat c = Some d /\
    code (pc - 1) = Some (IMov (St d) (Imm H)) /\ code pc = Some (IJ (Imm (pc + 2))) /\
    wrap (cw c) (pc + 2) = pc + 2 /\ code (pc + 1) = Some (IMov (St d) (Imm h)) /\
    wrap (cw c) H = H /\ wrap (cw c) h = h /\ code h = Some IHalt /\
    code H = Some (IMov (St d) (Imm h)) /\ code (H + 1) = Some (IMov (St fp) (St tfp)) /\
    code (H + 2) = Some (ILoadO WWord SState (St ap) (St fp) (Imm k)).
Proof. exact (fun c code pc H h fp ap tfp k => classify_sound c code pc (StopInstall H h fp ap tfp k)). Qed.

(* ---------------- over a concrete program: no jump is missed ---------------- *)
Theorem P_mkcode_nth : forall l a, 0 <= a -> mkcode l a = nth_error l (Z.to_nat a).
Proof. exact mkcode_nth. Qed.
Theorem P_classify_all_complete : forall c prog pc a,
  mkcode prog pc = Some (IJ a) -> In (pc, classify c prog pc) (classify_all c prog).
Proof. exact classify_all_complete. Qed.
Theorem P_all_classified_sound : forall c prog,
  unclassified c prog = [] ->
  forall pc a, mkcode prog pc = Some (IJ a) ->
  exists i, classify c prog pc = Some i /\ premises_of c (mkcode prog) pc i.
Proof. exact all_classified_sound. Qed.

(* ---------------- the idiom theorems apply to classified jumps ---------------- *)
Section P.
Variable c : cfg.
Hypothesis Hw : 2 <= cw c.
Variable code : Z -> option instr.
Variable cmem : mem.
Variable pc : Z.
Notation w := (cw c).
Notation act := (Machine.act w code cmem).
Notation Halts := (HidV.Sphinx.Halts.Halts act).
Notation runs := (HidV.Sphinx.Halts.runs act).
Notation cstep := (HidV.Sphinx.Halts.cstep act).
Notation oval := (Idioms.oval w cmem).
Notation lw := (Machine.lw w).
Notation sw := (Machine.sw w).
Notation cls := (classify_code c code pc).

Theorem P_classified_goto X :
  cls = Some (Goto X) -> forall m, runs (mk pc m) [] (mk X m).
Proof. exact (@classified_goto c code cmem pc X). Qed.

Theorem P_classified_goto_reg r :
  cls = Some (GotoReg r) ->
  forall m, inb m r w = true -> runs (mk pc m) [] (mk (lw m r) m).
Proof. exact (@classified_goto_reg c code cmem pc r). Qed.

Theorem P_classified_branch cc cc' a b L :
  cls = Some (Branch cc cc' a b L) ->
  forall m x y, oval m a = Some x -> oval m b = Some y ->
  runs (mk pc m) [] (if cond_holds w cc x y then mk (L + 1) m else mk (pc + 2) m).
Proof. exact (@classified_branch c code cmem pc cc cc' a b L). Qed.

Theorem P_classified_branch_bool v L :
  cls = Some (BranchBool v L) ->
  forall m x, oval m v = Some x ->
  runs (mk pc m) [] (if x =? 0 then mk (pc + 2) m else mk (L + 1) m).
Proof. exact (@classified_branch_bool c Hw code cmem pc v L). Qed.

Theorem P_classified_bool_normalise r :
  cls = Some (BoolNormalise r) ->
  forall m, 0 <= r -> inb m r w = true ->
  let x := lw m r in
  let m' := if x <=? 1 then m else sw m r 1 in
  runs (mk pc m) [] (mk (pc + 4) m') /\ (0 <= x -> lw m' r = if x =? 0 then 0 else 1).
Proof. exact (@classified_bool_normalise c Hw code cmem pc r). Qed.

Theorem P_classified_guard cc a b E :
  cls = Some (Guard cc a b E) ->
  forall m x y, oval m a = Some x -> oval m b = Some y ->
  (cond_holds w cc x y = true -> runs (mk pc m) [] (mk (pc + 4) m)) /\
  (cond_holds w cc x y = false -> ~ Halts (mk E m) -> runs (mk pc m) [] (mk E m) /\ ~ Halts (mk pc m)) /\
  (cond_holds w cc x y = false -> (Halts (mk pc m) <-> Halts (mk E m) /\ Halts (mk (pc + 4) m))).
Proof. exact (@classified_guard c code cmem pc cc a b E). Qed.

Theorem P_classified_guard_entry r1 fp ap N E :
  cls = Some (GuardEntry r1 fp ap N E) ->
  forall m, 0 <= r1 -> inb m r1 w = true -> inb m fp w = true -> inb m ap w = true ->
  let g := wrap w (lw m fp - lw m ap) in
  let m1 := sw m r1 (lw m fp - lw m ap) in
  (wrap w N <= g -> runs (mk pc m) [] (mk (pc + 5) m)) /\
  (g < wrap w N -> ~ Halts (mk E m1) -> runs (mk pc m) [] (mk E m1) /\ ~ Halts (mk pc m)) /\
  (g < wrap w N -> (Halts (mk pc m) <-> Halts (mk E m1) /\ Halts (mk (pc + 5) m))).
Proof. exact (@classified_guard_entry c Hw code cmem pc r1 fp ap N E). Qed.

Theorem P_classified_guard_vla r1 fp ap N' size E :
  cls = Some (GuardVla r1 fp ap N' size E) ->
  forall m s, 0 <= r1 -> inb m r1 w = true -> inb m fp w = true -> inb m ap w = true ->
  let m1 := sw m r1 (lw m fp - lw m ap) in
  let m2 := sw m1 r1 (wrap w (lw m fp - lw m ap) - wrap w N') in
  let g := wrap w (wrap w (lw m fp - lw m ap) - wrap w N') in
  oval m2 size = Some s ->
  (s <= g -> runs (mk pc m) [] (mk (pc + 6) m)) /\
  (g < s -> ~ Halts (mk E m2) -> runs (mk pc m) [] (mk E m2) /\ ~ Halts (mk pc m)) /\
  (g < s -> (Halts (mk pc m) <-> Halts (mk E m2) /\ Halts (mk (pc + 6) m))).
Proof. exact (@classified_guard_vla c Hw code cmem pc r1 fp ap N' size E). Qed.

Theorem P_classified_undo H :
  cls = Some (Undo H) ->
  forall m,
  (~ Halts (mk (pc + 1) m) -> runs (mk pc m) [] (mk (pc + 1) m) /\ ~ Halts (mk pc m) /\ cstep (mk pc m) None (mk (pc + 1) m)) /\
  (Halts (mk (pc + 1) m) -> runs (mk pc m) [] (mk H m) /\ cstep (mk pc m) None (mk H m)).
Proof. exact (@classified_undo c code cmem pc H). Qed.

Theorem P_classified_undo_commit H :
  cls = Some (Undo H) ->
  forall m mb evs, runs (mk (pc + 1) m) evs (mk (H - 2) mb) ->
  exists E, code (H - 2) = Some (IJ (Imm E)) /\
  (~ Halts (mk (wrap w E) mb) ->
   runs (mk pc m) evs (mk (wrap w E) mb) /\ ~ Halts (mk pc m) /\ HidV.Sphinx.Halts.csteps act (mk pc m) evs (mk (wrap w E) mb)).
Proof. exact (@classified_undo_commit c code cmem pc H). Qed.

Theorem P_classified_preempt_static D E :
  cls = Some (PreemptStatic D E) ->
  forall m,
  (Halts (mk E m) -> runs (mk pc m) [] (mk D m) /\ cstep (mk pc m) None (mk D m)) /\
  (~ Halts (mk E m) -> runs (mk pc m) [] (mk E m) /\ ~ Halts (mk pc m)).
Proof. exact (@classified_preempt_static c code cmem pc D E). Qed.

Theorem P_classified_preempt_virtual D E h :
  cls = Some (PreemptVirtual D E h) ->
  exists d, cdefeat c = Some d /\ code h = Some IHalt /\
  forall m, inb m d w = true ->
  (lw m d <> h \/ Halts (mk E m) -> runs (mk pc m) [] (mk D m) /\ cstep (mk pc m) None (mk D m)) /\
  (lw m d = h /\ ~ Halts (mk E m) -> runs (mk pc m) [] (mk E m) /\ ~ Halts (mk pc m)).
Proof. exact (@classified_preempt_virtual c code cmem pc D E h). Qed.

Theorem P_classified_defeat_virtual  :
  cls = Some DefeatVirtual ->
  exists d, cdefeat c = Some d /\
  forall m, inb m d w = true -> runs (mk pc m) [] (mk (lw m d) m) /\ cstep (mk pc m) None (mk (lw m d) m).
Proof. exact (@classified_defeat_virtual c code cmem pc). Qed.

Theorem P_classified_defeat_virtual_cond cc a b :
  cls = Some (DefeatVirtualCond cc a b) ->
  exists d, cdefeat c = Some d /\
  forall m x y, inb m d w = true -> oval m a = Some x -> oval m b = Some y ->
  let hd := lw m d in
  (cond_holds w cc x y = true -> runs (mk pc m) [] (mk hd m) /\ cstep (mk pc m) None (mk hd m)) /\
  (cond_holds w cc x y = false -> ~ Halts (mk (pc + 2) m) -> runs (mk pc m) [] (mk (pc + 2) m) /\ ~ Halts (mk pc m)) /\
  (cond_holds w cc x y = false -> Halts (mk (pc + 2) m) -> runs (mk pc m) [] (mk hd m) /\ cstep (mk pc m) None (mk hd m)).
Proof. exact (@classified_defeat_virtual_cond c code cmem pc cc a b). Qed.

Theorem P_classified_speculation E lop rop rout :
  cls = Some (Speculation E lop rop rout) ->
  forall m evs ml l r, runs (mk (pc + 1) m) evs (mk (E - 2) ml) ->
  oval ml lop = Some l -> oval ml rop = Some r -> inb ml rout w = true ->
  let m2 := sw ml rout l in
  (l = r -> runs (mk pc m) [] (mk E m) /\ cstep (mk pc m) None (mk E m)) /\
  (l <> r -> ~ Halts (mk E m2) -> runs (mk pc m) evs (mk E m2) /\ ~ Halts (mk pc m)) /\
  (l <> r -> Halts (mk E m2) -> runs (mk pc m) [] (mk E m) /\ cstep (mk pc m) None (mk E m)).
Proof. exact (@classified_speculation c code cmem pc E lop rop rout). Qed.

Theorem P_classified_speculation_nomov E lop rop :
  cls = Some (SpeculationNoMov E lop rop) ->
  forall m evs ml l r, runs (mk (pc + 1) m) evs (mk (E - 1) ml) ->
  oval ml lop = Some l -> oval ml rop = Some r ->
  (l = r -> runs (mk pc m) [] (mk E m)) /\
  (l <> r -> ~ Halts (mk E ml) -> runs (mk pc m) evs (mk E ml) /\ ~ Halts (mk pc m)) /\
  (l <> r -> Halts (mk E ml) -> runs (mk pc m) [] (mk E m)).
Proof. exact (@classified_speculation_nomov c code cmem pc E lop rop). Qed.

Theorem P_classified_stop_install H h fp ap tfp k :
  cls = Some (StopInstall H h fp ap tfp k) ->
  exists d, cdefeat c = Some d /\ code h = Some IHalt /\
  (* the install sequence, started one instruction earlier at the `mov [defeat],H` *)
  (forall m, 0 <= d -> inb m d w = true ->
     let m1 := sw m d H in
     let m2 := sw m1 d h in
     (~ Halts (mk (pc + 2) m2) -> runs (mk (pc - 1) m) [] (mk (pc + 2) m2) /\ ~ Halts (mk (pc - 1) m) /\ lw m2 d = h) /\
     (Halts (mk (pc + 2) m2) -> runs (mk (pc - 1) m) [] (mk (pc + 2) m1) /\ lw m1 d = H)) /\
  (* the handler it installs starts by resetting the defeat word to the halt address *)
  (forall mh, inb mh d w = true -> inb mh fp w = true -> inb mh ap w = true -> inb mh tfp w = true ->
     0 <= fp -> 0 <= ap -> 0 <= d -> 0 <= tfp ->
     (fp + w <= ap \/ ap + w <= fp) -> (d + w <= fp \/ fp + w <= d) -> (d + w <= ap \/ ap + w <= d) ->
     (d + w <= tfp \/ tfp + w <= d) ->
     inb mh (sgn w (wrap w (lw mh tfp)) + sgn w (wrap w k)) w = true ->
     exists m', runs (mk H mh) [] (mk (H + 3) m') /\ lw m' d = h /\ lw m' fp = wrap w (lw mh tfp)).
Proof. exact (@classified_stop_install c Hw code cmem pc H h fp ap tfp k). Qed.

Theorem P_classified_return_protection N r :
  cls = Some (ReturnProtection N r) ->
  forall m, inb m r w = true ->
  let ra := lw m r in
  (Halts (mk ra m) -> runs (mk pc m) [] (mk N m) /\ cstep (mk pc m) None (mk N m)) /\
  (~ Halts (mk ra m) -> runs (mk pc m) [] (mk ra m) /\ ~ Halts (mk pc m)) /\
  (~ Halts (mk N m) -> ~ Halts (mk pc m)).
Proof. exact (@classified_return_protection c code cmem pc N r). Qed.

End P.

Print Assumptions P_classify_sound.
Print Assumptions P_classify_sound_goto.
Print Assumptions P_classify_sound_branch.
Print Assumptions P_classify_sound_guard.
Print Assumptions P_classify_sound_stop_install.
Print Assumptions P_mkcode_nth.
Print Assumptions P_classify_all_complete.
Print Assumptions P_all_classified_sound.
Print Assumptions P_classified_goto.
Print Assumptions P_classified_goto_reg.
Print Assumptions P_classified_branch.
Print Assumptions P_classified_branch_bool.
Print Assumptions P_classified_bool_normalise.
Print Assumptions P_classified_guard.
Print Assumptions P_classified_guard_entry.
Print Assumptions P_classified_guard_vla.
Print Assumptions P_classified_undo.
Print Assumptions P_classified_undo_commit.
Print Assumptions P_classified_preempt_static.
Print Assumptions P_classified_preempt_virtual.
Print Assumptions P_classified_defeat_virtual.
Print Assumptions P_classified_defeat_virtual_cond.
Print Assumptions P_classified_speculation.
Print Assumptions P_classified_speculation_nomov.
Print Assumptions P_classified_stop_install.
Print Assumptions P_classified_return_protection.
