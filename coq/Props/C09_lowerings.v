(* Component `lowerbool`, C09 item 6 and the `truth_is_defeat` lowering: property theorems only.

   Model:  Codegen/LowerBoolModel.v `lower_defeat` = hidc's `truth_is_defeat` (static defeat: bare
           conditional halts / `halt`; virtual defeat: `j [defeat]` before every test), `eval_bool_value`
           = get_expr_value of a boolean expression; textual tie: tools/corr_lowerbool.py.
   bool_norm: hidc's invariant that a bool local holds 0 or 1 (`not x` is lowered as `sub r, 1, x`).
   The virtual form is stated (a) for one test with all three cases of TimeTravel.defeat_call_virtual_cond
   and no further assumption -- case 3: the test FAILS but the continuation halts, and control goes to the
   handler all the same --, (b) for whole expressions (or-chains of tests) under the C03 invariant
   that neither the handler nor the continuation halts. *)
From Coq Require Import ZArith List Bool Lia.
From HidV Require Import Machine Halts WordLemmas MemLemmas GenTables OpTables Idioms LowerBoolModel LowerBoolProofs.
Import ListNotations.
Open Scope Z_scope.

Section P.
Variable w : Z.
Hypothesis Hw : 2 <= w.
Variable code : Z -> option instr.
Variable cmem : mem.
Variable R : regmap.
Variable E : env.
Hypothesis HwE : wsize E = w.
Variable lo : Z.
Variable ext : label -> Z.
Hypothesis ext_range : forall x, 0 <= ext x < Machine.W w.
Notation act := (Machine.act w code cmem).
Notation Halts := (HidV.Sphinx.Halts.Halts act).
Notation runs := (HidV.Sphinx.Halts.runs act).

Theorem C09_truth_is_defeat_correct e st B m :
  let C := fst (lower_defeat E false e st) in
  code_at code B (resolve R ext B C) ->
  0 <= B -> B + size C < Machine.W w ->
  layout_ok w R E lo m -> vars_ok w R E lo m e -> bool_norm w R E m e ->
  (beval w R E m e = true -> Halts (mk B m)) /\
  (beval w R E m e = false ->
     exists m', runs (mk B m) [] (mk (B + size C) m') /\ agree w R lo (HI w R E m) m m').
Proof. exact (@truth_is_defeat_correct w Hw code cmem R E HwE lo ext ext_range e st B m). Qed.

Theorem C09_truth_is_defeat_virtual_test e st B m : is_test e ->
  let C := fst (lower_defeat E true e st) in
  let hd := Machine.lw w m (a_defeat R) in
  code_at code B (resolve R ext B C) ->
  0 <= B -> B + size C < Machine.W w ->
  layout_ok w R E lo m -> vars_ok w R E lo m e -> bool_norm w R E m e -> defeat_ok w R E lo m ->
  exists m1, agree w R lo (HI w R E m) m m1 /\ exists q, runs (mk B m) [] (mk q m1) /\ q + 2 = B + size C /\
    (beval w R E m e = true -> runs (mk q m1) [] (mk hd m1)) /\
    (beval w R E m e = false -> ~ Halts (mk (q + 2) m1) -> runs (mk q m1) [] (mk (q + 2) m1) /\ ~ Halts (mk q m1)) /\
    (beval w R E m e = false -> Halts (mk (q + 2) m1) -> runs (mk q m1) [] (mk hd m1)).
Proof. exact (@truth_is_defeat_virtual_test w Hw code cmem R E HwE lo ext ext_range e st B m). Qed.

Theorem C09_truth_is_defeat_virtual_correct e st B m :
  let C := fst (lower_defeat E true e st) in
  let hd := Machine.lw w m (a_defeat R) in
  code_at code B (resolve R ext B C) ->
  0 <= B -> B + size C < Machine.W w ->
  layout_ok w R E lo m -> vars_ok w R E lo m e -> bool_norm w R E m e -> defeat_ok w R E lo m ->
  (forall m', agree w R lo (HI w R E m) m m' -> ~ Halts (mk hd m')) ->
  (beval w R E m e = true -> exists m', agree w R lo (HI w R E m) m m' /\ runs (mk B m) [] (mk hd m')) /\
  (beval w R E m e = false -> (forall m', agree w R lo (HI w R E m) m m' -> ~ Halts (mk (B + size C) m')) ->
     exists m', agree w R lo (HI w R E m) m m' /\ runs (mk B m) [] (mk (B + size C) m')).
Proof. exact (@truth_is_defeat_virtual_correct w Hw code cmem R E HwE lo ext ext_range e st B m). Qed.

Theorem C09_three_lowerings_agree e m (b := beval w R E m e) :
  layout_ok w R E lo m -> vars_ok w R E lo m e -> bool_norm w R E m e ->
  (forall rout st B, let C := fst (value_lowering E e rout st) in
     code_at code B (resolve R ext B C) -> 0 <= B -> B + size C < Machine.W w -> rout = R0 \/ rout = R1 ->
     exists m', runs (mk B m) [] (mk (B + size C) m') /\ Machine.lw w m' (regaddr R rout) = (if b then 1 else 0)) /\
  (forall T F st B, let C := fst (lower_branch E e (goto T) (goto F) st) in
     code_at code B (resolve R ext B C) -> 0 <= B -> B + size C < Machine.W w -> below st T -> below st F ->
     exists m', runs (mk B m) [] (mk (if b then ext T else ext F) m')) /\
  (forall st B, let C := fst (lower_defeat E false e st) in
     code_at code B (resolve R ext B C) -> 0 <= B -> B + size C < Machine.W w ->
     if b then Halts (mk B m) else exists m', runs (mk B m) [] (mk (B + size C) m')).
Proof. exact (@three_lowerings_agree w Hw code cmem R E HwE lo ext ext_range e m). Qed.
End P.

Theorem C09_lower_defeat_labels_fresh E virt e st c st' : lower_defeat E virt e st = (c, st') ->
  st_le st st' /\ Forall (between st st') (deflabels c) /\ NoDup (deflabels c).
Proof. exact (@lower_defeat_defs E virt e st c st'). Qed.

Example C09_truth_is_defeat_sat : HidV.Sphinx.Halts.Halts (Machine.act 2 (code_of ex_def_prog) (zmem 0)) (mk 0 ex_mem).
Proof. exact truth_is_defeat_ex. Qed.
Example C09_truth_is_defeat_virtual_sat :
  exists m', HidV.Sphinx.Halts.runs (Machine.act 2 (code_of ex_vprog) (zmem 0)) (mk 0 ex_vmem) [] (mk ex_hd m').
Proof. exact truth_is_defeat_virtual_ex. Qed.

Print Assumptions C09_truth_is_defeat_correct.
Print Assumptions C09_truth_is_defeat_virtual_test.
Print Assumptions C09_truth_is_defeat_virtual_correct.
Print Assumptions C09_three_lowerings_agree.
Print Assumptions C09_lower_defeat_labels_fresh.
Print Assumptions C09_truth_is_defeat_sat.
Print Assumptions C09_truth_is_defeat_virtual_sat.
