(* Component `idioms`: property theorems only (`Theorem ... exact ...` + `Print Assumptions`).
   Machine-level theorems about the instruction idioms the code generator emits, for ARBITRARY
   surrounding code (abstract `code : Z -> option instr`, constrained only at the idiom's own
   instructions), every word size w >= 2, all operand values.  Proofs: Sphinx/Idioms.v (control),
   Sphinx/TimeTravel.v (try/undo, try/stop, preempt, ??, defeat calls), Sphinx/Guards.v (run-time
   checks).  Satisfiability `Example`s for the hypotheses of each implication are next to the
   proofs in those files.  Serves C02, C03, C05, C15, C18.
   Every statement is restated here in full (same notations as the proof files), so that a
   weakening of a lemma in the proof files makes this file fail to compile. *)
From Coq Require Import ZArith List Bool Lia.
From HidV Require Import Machine Halts WordLemmas MemLemmas GenTables OpTables GenLayout Idioms TimeTravel Guards.
Import ListNotations.
Open Scope Z_scope.

Section P.
Variable w : Z.
Hypothesis Hw : 2 <= w.
Variable code : Z -> option instr.
Variable cmem : mem.
Notation W := (Machine.W w).
Notation wrap := (Machine.wrap w).
Notation sgn := (Machine.sgn w).
Notation lw := (Machine.lw w).
Notation sw := (Machine.sw w).
Notation inrange := (WordLemmas.inrange w).
Notation act := (Machine.act w code cmem).
Notation Halts := (HidV.Sphinx.Halts.Halts act).
Notation runs := (HidV.Sphinx.Halts.runs act).
Notation cstep := (HidV.Sphinx.Halts.cstep act).
Notation csteps := (HidV.Sphinx.Halts.csteps act).
Notation oval := (Idioms.oval w cmem).
Notation bool_size_word := (Guards.bool_size_word w).

(* ---------------- Idioms.v ---------------- *)
Theorem P_entry_guard_cond_monotone N g g' :
  0 <= g <= g' -> g' < W ->
  cond_holds w Cgeu (wrap g) (wrap N) = true -> cond_holds w Cgeu (wrap g') (wrap N) = true.
Proof. exact (@entry_guard_cond_monotone w N g g'). Qed.

Theorem P_vla_space_cond_monotone N' s g g' :
  0 <= N' <= g -> g <= g' -> g' < W ->
  cond_holds w Cgeu (wrap (wrap g - wrap N')) s = true ->
  cond_holds w Cgeu (wrap (wrap g' - wrap N')) s = true.
Proof. exact (@vla_space_cond_monotone w N' s g g'). Qed.

Theorem P_goto_self_not_halts p m a :
  code p = Some (IJ a) -> oval m a = Some p -> ~ Halts (mk p m).
Proof. exact (@goto_self_not_halts w code cmem p m a). Qed.

Theorem P_goto_idiom p m a t :
  code p = Some (IJ a) -> code (p + 1) = Some IHalt -> oval m a = Some t ->
  runs (mk p m) [] (mk t m).
Proof. exact (@goto_idiom w code cmem p m a t). Qed.

Theorem P_goto_label p m X :
  code p = Some (IJ (Imm X)) -> code (p + 1) = Some IHalt -> runs (mk p m) [] (mk (wrap X) m).
Proof. exact (@goto_label w code cmem p m X). Qed.

Theorem P_goto_reg p m r :
  code p = Some (IJ (St r)) -> code (p + 1) = Some IHalt -> inb m r w = true ->
  runs (mk p m) [] (mk (lw m r) m).
Proof. exact (@goto_reg w code cmem p m r). Qed.

Theorem P_goto_halts_iff p m a t :
  code p = Some (IJ a) -> code (p + 1) = Some IHalt -> oval m a = Some t ->
  (Halts (mk p m) <-> Halts (mk t m)).
Proof. exact (@goto_halts_iff w code cmem p m a t). Qed.

Theorem P_branch_idiom p m l t cc cc' a b x y :
  code p = Some (IJ l) -> code (p + 1) = Some (IHc cc a b) -> oval m l = Some t ->
  code t = Some (IHc cc' a b) ->
  (forall u v, cond_holds w cc' u v = negb (cond_holds w cc u v)) ->
  oval m a = Some x -> oval m b = Some y ->
  runs (mk p m) [] (if cond_holds w cc x y then mk (t + 1) m else mk (p + 2) m).
Proof. exact (@branch_idiom w code cmem p m l t cc cc' a b x y). Qed.

Theorem P_branch_idiom_table p m l t cc cc' a b x y :
  In (cc, cc') halt_inversion ->
  code p = Some (IJ l) -> code (p + 1) = Some (IHc cc a b) -> oval m l = Some t ->
  code t = Some (IHc cc' a b) ->
  oval m a = Some x -> oval m b = Some y ->
  runs (mk p m) [] (if cond_holds w cc x y then mk (t + 1) m else mk (p + 2) m).
Proof. exact (@branch_idiom_table w code cmem p m l t cc cc' a b x y). Qed.

Theorem P_branch_bool_idiom p m l t v x :
  code p = Some (IJ l) -> code (p + 1) = Some (IHc Cne v (Imm 0)) -> oval m l = Some t ->
  code t = Some (IHc Ceq v (Imm 0)) -> oval m v = Some x ->
  runs (mk p m) [] (if x =? 0 then mk (p + 2) m else mk (t + 1) m).
Proof. exact (@branch_bool_idiom w Hw code cmem p m l t v x). Qed.

Theorem P_branch_halts_iff p m l t cc cc' a b x y :
  In (cc, cc') halt_inversion ->
  code p = Some (IJ l) -> code (p + 1) = Some (IHc cc a b) -> oval m l = Some t ->
  code t = Some (IHc cc' a b) -> oval m a = Some x -> oval m b = Some y ->
  (Halts (mk p m) <-> Halts (if cond_holds w cc x y then mk (t + 1) m else mk (p + 2) m)).
Proof. exact (@branch_halts_iff w code cmem p m l t cc cc' a b x y). Qed.

Theorem P_guard_idiom p m ok err e cc a b x y :
  code p = Some (IJ ok) -> oval m ok = Some (p + 4) ->
  code (p + 1) = Some (IHc cc a b) -> oval m a = Some x -> oval m b = Some y ->
  code (p + 2) = Some (IJ err) -> code (p + 3) = Some IHalt -> oval m err = Some e ->
  (cond_holds w cc x y = true -> runs (mk p m) [] (mk (p + 4) m)) /\
  (cond_holds w cc x y = false -> ~ Halts (mk e m) -> runs (mk p m) [] (mk e m) /\ ~ Halts (mk p m)) /\
  (cond_holds w cc x y = false -> (Halts (mk p m) <-> Halts (mk e m) /\ Halts (mk (p + 4) m))).
Proof. exact (@guard_idiom w code cmem p m ok err e cc a b x y). Qed.

Theorem P_guard_never_halts_on_failure p m ok err e cc a b x y :
  code p = Some (IJ ok) -> oval m ok = Some (p + 4) ->
  code (p + 1) = Some (IHc cc a b) -> oval m a = Some x -> oval m b = Some y ->
  code (p + 2) = Some (IJ err) -> code (p + 3) = Some IHalt -> oval m err = Some e ->
  ~ Halts (mk e m) -> cond_holds w cc x y = false -> ~ Halts (mk p m).
Proof. exact (@guard_never_halts_on_failure w code cmem p m ok err e cc a b x y). Qed.

Theorem P_entry_guard_idiom p m no so e r1 fp ap N :
  code p = Some (IJ no) -> oval m no = Some (p + 5) ->
  code (p + 1) = Some (IArith Asub (St r1) (St fp) (St ap)) ->
  code (p + 2) = Some (IHc Cgeu (St r1) (Imm N)) ->
  code (p + 3) = Some (IJ so) -> code (p + 4) = Some IHalt ->
  0 <= r1 -> inb m r1 w = true -> inb m fp w = true -> inb m ap w = true ->
  let g := wrap (lw m fp - lw m ap) in
  let m1 := sw m r1 (lw m fp - lw m ap) in
  oval m1 so = Some e ->
  (wrap N <= g -> runs (mk p m) [] (mk (p + 5) m)) /\
  (g < wrap N -> ~ Halts (mk e m1) -> runs (mk p m) [] (mk e m1) /\ ~ Halts (mk p m)) /\
  (g < wrap N -> (Halts (mk p m) <-> Halts (mk e m1) /\ Halts (mk (p + 5) m))).
Proof. exact (@entry_guard_idiom w Hw code cmem p m no so e r1 fp ap N). Qed.

Theorem P_vla_space_guard_idiom p m no so e r1 fp ap N' size s :
  code p = Some (IJ no) -> oval m no = Some (p + 6) ->
  code (p + 1) = Some (IArith Asub (St r1) (St fp) (St ap)) ->
  code (p + 2) = Some (IArith Asub (St r1) (St r1) (Imm N')) ->
  code (p + 3) = Some (IHc Cgeu (St r1) size) ->
  code (p + 4) = Some (IJ so) -> code (p + 5) = Some IHalt ->
  0 <= r1 -> inb m r1 w = true -> inb m fp w = true -> inb m ap w = true ->
  let m1 := sw m r1 (lw m fp - lw m ap) in
  let m2 := sw m1 r1 (wrap (lw m fp - lw m ap) - wrap N') in
  let g := wrap (wrap (lw m fp - lw m ap) - wrap N') in
  oval m2 size = Some s -> oval m2 so = Some e ->
  (s <= g -> runs (mk p m) [] (mk (p + 6) m)) /\
  (g < s -> ~ Halts (mk e m2) -> runs (mk p m) [] (mk e m2) /\ ~ Halts (mk p m)) /\
  (g < s -> (Halts (mk p m) <-> Halts (mk e m2) /\ Halts (mk (p + 6) m))).
Proof. exact (@vla_space_guard_idiom w Hw code cmem p m no so e r1 fp ap N' size s). Qed.

Theorem P_stack_monotone_entry p m m' no so r1 fp ap N e e' :
  code p = Some (IJ no) -> oval m no = Some (p + 5) -> oval m' no = Some (p + 5) ->
  code (p + 1) = Some (IArith Asub (St r1) (St fp) (St ap)) ->
  code (p + 2) = Some (IHc Cgeu (St r1) (Imm N)) ->
  code (p + 3) = Some (IJ so) -> code (p + 4) = Some IHalt ->
  0 <= r1 ->
  inb m r1 w = true -> inb m fp w = true -> inb m ap w = true ->
  inb m' r1 w = true -> inb m' fp w = true -> inb m' ap w = true ->
  oval (sw m r1 (lw m fp - lw m ap)) so = Some e ->
  oval (sw m' r1 (lw m' fp - lw m' ap)) so = Some e' ->
  0 <= lw m fp - lw m ap <= lw m' fp - lw m' ap -> lw m' fp - lw m' ap < W ->
  wrap N <= wrap (lw m fp - lw m ap) ->
  runs (mk p m) [] (mk (p + 5) m) /\ runs (mk p m') [] (mk (p + 5) m').
Proof. exact (@stack_monotone_entry w Hw code cmem p m m' no so r1 fp ap N e e'). Qed.

Theorem P_stack_monotone_vla p m m' no so r1 fp ap N' size s e e' :
  code p = Some (IJ no) -> oval m no = Some (p + 6) -> oval m' no = Some (p + 6) ->
  code (p + 1) = Some (IArith Asub (St r1) (St fp) (St ap)) ->
  code (p + 2) = Some (IArith Asub (St r1) (St r1) (Imm N')) ->
  code (p + 3) = Some (IHc Cgeu (St r1) size) ->
  code (p + 4) = Some (IJ so) -> code (p + 5) = Some IHalt ->
  0 <= r1 ->
  inb m r1 w = true -> inb m fp w = true -> inb m ap w = true ->
  inb m' r1 w = true -> inb m' fp w = true -> inb m' ap w = true ->
  let mm2 := fun m => sw (sw m r1 (lw m fp - lw m ap)) r1 (wrap (lw m fp - lw m ap) - wrap N') in
  oval (mm2 m) size = Some s -> oval (mm2 m') size = Some s ->   (* same requested size *)
  oval (mm2 m) so = Some e -> oval (mm2 m') so = Some e' ->
  0 <= N' <= lw m fp - lw m ap -> lw m fp - lw m ap <= lw m' fp - lw m' ap -> lw m' fp - lw m' ap < W ->
  s <= wrap (wrap (lw m fp - lw m ap) - wrap N') ->
  runs (mk p m) [] (mk (p + 6) m) /\ runs (mk p m') [] (mk (p + 6) m').
Proof. exact (@stack_monotone_vla w Hw code cmem p m m' no so r1 fp ap N' size s e e'). Qed.

Theorem P_bool_normalise p m n r :
  code p = Some (IJ n) -> oval m n = Some (p + 3) ->
  code (p + 1) = Some (IHc Cleu (St r) (Imm 1)) ->
  code (p + 2) = Some (IMov (St r) (Imm 1)) ->
  code (p + 3) = Some (IHc Cgtu (St r) (Imm 1)) ->
  0 <= r -> inb m r w = true ->
  let x := lw m r in
  let m' := if x <=? 1 then m else sw m r 1 in
  runs (mk p m) [] (mk (p + 4) m') /\
  (0 <= x -> lw m' r = if x =? 0 then 0 else 1).
Proof. exact (@bool_normalise w Hw code cmem p m n r). Qed.

Theorem P_not_by_sub p m r xo x :
  code p = Some (IArith Asub (St r) (Imm 1) xo) -> oval m xo = Some x ->
  0 <= r -> inb m r w = true -> (x = 0 \/ x = 1) ->
  let m' := sw m r (1 - x) in
  runs (mk p m) [] (mk (p + 1) m') /\ lw m' r = 1 - x.
Proof. exact (@not_by_sub w Hw code cmem p m r xo x). Qed.

Theorem P_neg_by_sub p m r xo x :
  code p = Some (IArith Asub (St r) (Imm 0) xo) -> oval m xo = Some x ->
  0 <= r -> inb m r w = true -> 0 <= x < W ->
  let m' := sw m r (0 - x) in
  runs (mk p m) [] (mk (p + 1) m') /\ lw m' r = wrap (- x) /\
  (sgn x <> - (W / 2) -> sgn (lw m' r) = - sgn x).
Proof. exact (@neg_by_sub w Hw code cmem p m r xo x). Qed.

(* ---------------- TimeTravel.v ---------------- *)
Theorem P_jump_falls p m a t :
  code p = Some (IJ a) -> oval m a = Some t ->
  ~ Halts (mk (p + 1) m) ->
  runs (mk p m) [] (mk (p + 1) m) /\ ~ Halts (mk p m) /\ cstep (mk p m) None (mk (p + 1) m).
Proof. exact (@jump_falls w code cmem p m a t). Qed.

Theorem P_jump_taken p m a t :
  code p = Some (IJ a) -> oval m a = Some t ->
  Halts (mk (p + 1) m) ->
  runs (mk p m) [] (mk t m) /\ cstep (mk p m) None (mk t m).
Proof. exact (@jump_taken w code cmem p m a t). Qed.

Theorem P_undo_idiom p m h H :
  code p = Some (IJ h) -> oval m h = Some H ->
  let sb := mk (p + 1) m in
  let sh := mk H m in
  (~ Halts sb -> runs (mk p m) [] sb /\ ~ Halts (mk p m) /\ cstep (mk p m) None sb) /\
  (Halts sb -> runs (mk p m) [] sh /\ cstep (mk p m) None sh).
Proof. exact (@undo_idiom w code cmem p m h H). Qed.

Theorem P_undo_commit p m h H q mb evs e E :
  code p = Some (IJ h) -> oval m h = Some H ->
  runs (mk (p + 1) m) evs (mk q mb) ->
  code q = Some (IJ e) -> code (q + 1) = Some IHalt -> oval mb e = Some E ->
  ~ Halts (mk E mb) ->
  runs (mk p m) evs (mk E mb) /\ ~ Halts (mk p m) /\ csteps (mk p m) evs (mk E mb).
Proof. exact (@undo_commit w code cmem p m h H q mb evs e E). Qed.

Theorem P_preempt_idiom_static p m d D e E :
  code p = Some (IJ d) -> oval m d = Some D ->
  code (p + 1) = Some (IJ e) -> code (p + 2) = Some IHalt -> oval m e = Some E ->
  (Halts (mk E m) -> runs (mk p m) [] (mk D m) /\ cstep (mk p m) None (mk D m)) /\
  (~ Halts (mk E m) -> runs (mk p m) [] (mk E m) /\ ~ Halts (mk p m)).
Proof. exact (@preempt_idiom_static w code cmem p m d D e E). Qed.

Theorem P_preempt_idiom_virtual p m d D e E dfo hlo dv hv :
  code p = Some (IJ d) -> oval m d = Some D ->
  code (p + 1) = Some (IHc Cne dfo hlo) -> oval m dfo = Some dv -> oval m hlo = Some hv ->
  code (p + 2) = Some (IJ e) -> code (p + 3) = Some IHalt -> oval m e = Some E ->
  (dv <> hv \/ Halts (mk E m) -> runs (mk p m) [] (mk D m) /\ cstep (mk p m) None (mk D m)) /\
  (dv = hv /\ ~ Halts (mk E m) -> runs (mk p m) [] (mk E m) /\ ~ Halts (mk p m)).
Proof. exact (@preempt_idiom_virtual w code cmem p m d D e E dfo hlo dv hv). Qed.

Theorem P_speculation_idiom p m e evs q ml lop rop l r rout :
  code p = Some (IJ e) -> oval m e = Some (q + 2) ->
  runs (mk (p + 1) m) evs (mk q ml) ->
  code q = Some (IHc Ceq lop rop) -> oval ml lop = Some l -> oval ml rop = Some r ->
  code (q + 1) = Some (IMov (St rout) lop) -> inb ml rout w = true ->
  let E := q + 2 in
  let m2 := sw ml rout l in
  (* LEFT equals RIGHT: the comparison halts, the jump was taken: LEFT never happened *)
  (l = r -> runs (mk p m) [] (mk E m) /\ cstep (mk p m) None (mk E m)) /\
  (* LEFT differs and the continuation does not halt: LEFT is committed, r_out := l *)
  (l <> r -> ~ Halts (mk E m2) -> runs (mk p m) evs (mk E m2) /\ ~ Halts (mk p m)) /\
  (* LEFT differs but the continuation with LEFT's result halts: RIGHT is used although l <> r *)
  (l <> r -> Halts (mk E m2) -> runs (mk p m) [] (mk E m) /\ cstep (mk p m) None (mk E m)).
Proof. exact (@speculation_idiom w code cmem p m e evs q ml lop rop l r rout). Qed.

Theorem P_speculation_left_defeated p m e E :
  code p = Some (IJ e) -> oval m e = Some E -> Halts (mk (p + 1) m) ->
  runs (mk p m) [] (mk E m) /\ cstep (mk p m) None (mk E m).
Proof. exact (@speculation_left_defeated w code cmem p m e E). Qed.

Theorem P_speculation_value p m e evs q ml lop rop l r rout :
  code p = Some (IJ e) -> oval m e = Some (q + 2) ->
  runs (mk (p + 1) m) evs (mk q ml) ->
  code q = Some (IHc Ceq lop rop) -> oval ml lop = Some l -> oval ml rop = Some r ->
  code (q + 1) = Some (IMov (St rout) lop) -> inb ml rout w = true -> 0 <= rout ->
  lw m rout = r -> 0 <= l < W ->
  ~ Halts (mk (q + 2) (sw ml rout l)) ->
  exists mf evf, runs (mk p m) evf (mk (q + 2) mf) /\
    lw mf rout = (if l =? r then r else l) /\
    (l = r -> mf = m /\ evf = []) /\ (l <> r -> mf = sw ml rout l /\ evf = evs).
Proof. exact (@speculation_value w Hw code cmem p m e evs q ml lop rop l r rout). Qed.

Theorem P_speculation_idiom_nomov p m e evs q ml lop rop l r :
  code p = Some (IJ e) -> oval m e = Some (q + 1) ->
  runs (mk (p + 1) m) evs (mk q ml) ->
  code q = Some (IHc Ceq lop rop) -> oval ml lop = Some l -> oval ml rop = Some r ->
  let E := q + 1 in
  (l = r -> runs (mk p m) [] (mk E m)) /\
  (l <> r -> ~ Halts (mk E ml) -> runs (mk p m) evs (mk E ml) /\ ~ Halts (mk p m)) /\
  (l <> r -> Halts (mk E ml) -> runs (mk p m) [] (mk E m)).
Proof. exact (@speculation_idiom_nomov w code cmem p m e evs q ml lop rop l r). Qed.

Theorem P_defeat_call_static p m :
  code p = Some IHalt -> Halts (mk p m).
Proof. exact (@defeat_call_static w code cmem p m). Qed.

Theorem P_defeat_call_virtual p m defeat :
  code p = Some (IJ (St defeat)) -> code (p + 1) = Some IHalt -> inb m defeat w = true ->
  runs (mk p m) [] (mk (lw m defeat) m) /\ cstep (mk p m) None (mk (lw m defeat) m).
Proof. exact (@defeat_call_virtual w code cmem p m defeat). Qed.

Theorem P_defeat_call_static_cond p m cc a b x y :
  code p = Some (IHc cc a b) -> oval m a = Some x -> oval m b = Some y ->
  (cond_holds w cc x y = true -> Halts (mk p m)) /\
  (cond_holds w cc x y = false -> runs (mk p m) [] (mk (p + 1) m)).
Proof. exact (@defeat_call_static_cond w code cmem p m cc a b x y). Qed.

Theorem P_defeat_call_virtual_cond p m defeat cc a b x y :
  code p = Some (IJ (St defeat)) -> inb m defeat w = true ->
  code (p + 1) = Some (IHc cc a b) -> oval m a = Some x -> oval m b = Some y ->
  let hd := lw m defeat in
  (cond_holds w cc x y = true -> runs (mk p m) [] (mk hd m) /\ cstep (mk p m) None (mk hd m)) /\
  (cond_holds w cc x y = false -> ~ Halts (mk (p + 2) m) ->
     runs (mk p m) [] (mk (p + 2) m) /\ ~ Halts (mk p m)) /\
  (cond_holds w cc x y = false -> Halts (mk (p + 2) m) ->
     runs (mk p m) [] (mk hd m) /\ cstep (mk p m) None (mk hd m)).
Proof. exact (@defeat_call_virtual_cond w code cmem p m defeat cc a b x y). Qed.

Theorem P_stop_idiom q m defeat hdo bg hlo Hd hv :
  code q = Some (IMov (St defeat) hdo) -> oval m hdo = Some Hd ->
  code (q + 1) = Some (IJ bg) ->
  code (q + 2) = Some (IMov (St defeat) hlo) ->
  0 <= defeat -> inb m defeat w = true ->
  let m1 := sw m defeat Hd in
  oval m1 bg = Some (q + 3) -> oval m1 hlo = Some hv ->
  let m2 := sw m1 defeat hv in
  (~ Halts (mk (q + 3) m2) ->
     runs (mk q m) [] (mk (q + 3) m2) /\ ~ Halts (mk q m) /\ lw m2 defeat = wrap hv) /\
  (Halts (mk (q + 3) m2) ->
     runs (mk q m) [] (mk (q + 3) m1) /\ lw m1 defeat = wrap Hd).
Proof. exact (@stop_idiom w Hw code cmem q m defeat hdo bg hlo Hd hv). Qed.

Theorem P_stop_prologue q m fp ap tryfp k :
  code q = Some (IStoreO WWord (St fp) (Imm k) (St ap)) ->
  code (q + 1) = Some (IMov (St tryfp) (St fp)) ->
  inb m fp w = true -> inb m ap w = true -> inb m tryfp w = true ->
  let slot := sgn (lw m fp) + sgn (wrap k) in
  inb m slot w = true -> 0 <= slot -> 0 <= fp -> 0 <= tryfp ->
  (fp + w <= slot \/ slot + w <= fp) ->                 (* the slot is not the fp register *)
  (tryfp + w <= slot \/ slot + w <= tryfp) ->
  let m' := sw (sw m slot (lw m ap)) tryfp (lw m fp) in
  runs (mk q m) [] (mk (q + 2) m') /\
  lw m' tryfp = wrap (lw m fp) /\ lw m' slot = wrap (lw m ap).
Proof. exact (@stop_prologue w Hw code cmem q m fp ap tryfp k). Qed.

Theorem P_stop_handler_entry_without_reset H mh fp ap tryfp k defeat :
  code H = Some (IMov (St fp) (St tryfp)) ->
  code (H + 1) = Some (ILoadO WWord SState (St ap) (St fp) (Imm k)) ->
  inb mh fp w = true -> inb mh ap w = true -> inb mh tryfp w = true ->
  0 <= fp -> 0 <= ap -> 0 <= defeat ->
  (fp + w <= ap \/ ap + w <= fp) ->
  (defeat + w <= fp \/ fp + w <= defeat) -> (defeat + w <= ap \/ ap + w <= defeat) ->
  let m1 := sw mh fp (lw mh tryfp) in
  let slot := sgn (wrap (lw mh tryfp)) + sgn (wrap k) in
  inb mh slot w = true ->
  let m' := sw m1 ap (lw m1 slot) in
  runs (mk H mh) [] (mk (H + 2) m') /\
  lw m' fp = wrap (lw mh tryfp) /\
  lw m' ap = wrap (lw m1 slot) /\
  (0 <= slot -> (slot + w <= fp \/ fp + w <= slot) -> lw m' ap = wrap (lw mh slot)) /\
  lw m' defeat = lw mh defeat.
Proof. exact (@stop_handler_entry_without_reset w Hw code cmem H mh fp ap tryfp k defeat). Qed.

Theorem P_stop_leaves_defeat_stale_without_reset H mh fp ap tryfp k defeat HANDLER hv :
  code H = Some (IMov (St fp) (St tryfp)) ->
  code (H + 1) = Some (ILoadO WWord SState (St ap) (St fp) (Imm k)) ->
  inb mh fp w = true -> inb mh ap w = true -> inb mh tryfp w = true ->
  0 <= fp -> 0 <= ap -> 0 <= defeat ->
  (fp + w <= ap \/ ap + w <= fp) ->
  (defeat + w <= fp \/ fp + w <= defeat) -> (defeat + w <= ap \/ ap + w <= defeat) ->
  inb mh (sgn (wrap (lw mh tryfp)) + sgn (wrap k)) w = true ->
  lw mh defeat = HANDLER -> HANDLER <> hv ->
  exists m', runs (mk H mh) [] (mk (H + 2) m') /\ lw m' defeat = HANDLER /\ lw m' defeat <> hv.
Proof. exact (@stop_leaves_defeat_stale_without_reset w Hw code cmem H mh fp ap tryfp k defeat HANDLER hv). Qed.

Theorem P_stale_defeat_reenters_handler_without_reset c mc defeat HANDLER :
  code c = Some (IJ (St defeat)) -> code (c + 1) = Some IHalt -> inb mc defeat w = true ->
  lw mc defeat = HANDLER -> cstep (mk c mc) None (mk HANDLER mc).
Proof. exact (@stale_defeat_reenters_handler_without_reset w code cmem c mc defeat HANDLER). Qed.

Theorem P_stale_defeat_forces_preempt_without_reset p m d D e E defeat hlo HANDLER hv :
  code p = Some (IJ d) -> oval m d = Some D ->
  code (p + 1) = Some (IHc Cne (St defeat) hlo) -> inb m defeat w = true -> oval m hlo = Some hv ->
  code (p + 2) = Some (IJ e) -> code (p + 3) = Some IHalt -> oval m e = Some E ->
  lw m defeat = HANDLER -> HANDLER <> hv ->
  cstep (mk p m) None (mk D m).
Proof. exact (@stale_defeat_forces_preempt_without_reset w code cmem p m d D e E defeat hlo HANDLER hv). Qed.

Theorem P_undo_with_fresh_defeat p m h HU evs c mc defeat hv :
  code p = Some (IJ h) -> oval m h = Some HU ->
  runs (mk (p + 1) m) evs (mk c mc) ->
  code c = Some (IJ (St defeat)) -> code (c + 1) = Some IHalt -> inb mc defeat w = true ->
  lw mc defeat = hv -> code hv = Some IHalt ->
  runs (mk p m) [] (mk HU m) /\ cstep (mk p m) None (mk HU m).
Proof. exact (@undo_with_fresh_defeat w code cmem p m h HU evs c mc defeat hv). Qed.

Theorem P_undo_with_stale_defeat_without_reset p m h HU evs c mc defeat HANDLER :
  code p = Some (IJ h) -> oval m h = Some HU ->
  runs (mk (p + 1) m) evs (mk c mc) ->
  code c = Some (IJ (St defeat)) -> code (c + 1) = Some IHalt -> inb mc defeat w = true ->
  lw mc defeat = HANDLER -> ~ Halts (mk HANDLER mc) ->
  runs (mk p m) evs (mk HANDLER mc) /\ ~ Halts (mk p m) /\ csteps (mk p m) evs (mk HANDLER mc).
Proof. exact (@undo_with_stale_defeat_without_reset w code cmem p m h HU evs c mc defeat HANDLER). Qed.

Theorem P_stop_handler_entry H mh fp ap tryfp k defeat pdo hv :
  code H = Some (IMov (St defeat) pdo) -> oval mh pdo = Some hv ->
  code (H + 1) = Some (IMov (St fp) (St tryfp)) ->
  code (H + 2) = Some (ILoadO WWord SState (St ap) (St fp) (Imm k)) ->
  inb mh defeat w = true -> inb mh fp w = true -> inb mh ap w = true -> inb mh tryfp w = true ->
  0 <= fp -> 0 <= ap -> 0 <= defeat -> 0 <= tryfp ->
  (fp + w <= ap \/ ap + w <= fp) ->
  (defeat + w <= fp \/ fp + w <= defeat) -> (defeat + w <= ap \/ ap + w <= defeat) ->
  (defeat + w <= tryfp \/ tryfp + w <= defeat) ->
  let m0 := sw mh defeat hv in
  let m1 := sw m0 fp (lw mh tryfp) in
  let slot := sgn (wrap (lw mh tryfp)) + sgn (wrap k) in
  inb mh slot w = true ->
  let m' := sw m1 ap (lw m1 slot) in
  runs (mk H mh) [] (mk (H + 3) m') /\
  lw m' defeat = wrap hv /\
  lw m' fp = wrap (lw mh tryfp) /\
  lw m' ap = wrap (lw m1 slot) /\
  (0 <= slot -> (slot + w <= fp \/ fp + w <= slot) -> (slot + w <= defeat \/ defeat + w <= slot) ->
     lw m' ap = wrap (lw mh slot)).
Proof. exact (@stop_handler_entry w Hw code cmem H mh fp ap tryfp k defeat pdo hv). Qed.

Theorem P_stop_handler_entry_resets_defeat H mh fp ap tryfp k defeat pdo hv :
  code H = Some (IMov (St defeat) pdo) -> oval mh pdo = Some hv ->
  code (H + 1) = Some (IMov (St fp) (St tryfp)) ->
  code (H + 2) = Some (ILoadO WWord SState (St ap) (St fp) (Imm k)) ->
  inb mh defeat w = true -> inb mh fp w = true -> inb mh ap w = true -> inb mh tryfp w = true ->
  0 <= fp -> 0 <= ap -> 0 <= defeat -> 0 <= tryfp ->
  (fp + w <= ap \/ ap + w <= fp) ->
  (defeat + w <= fp \/ fp + w <= defeat) -> (defeat + w <= ap \/ ap + w <= defeat) ->
  (defeat + w <= tryfp \/ tryfp + w <= defeat) ->
  inb mh (sgn (wrap (lw mh tryfp)) + sgn (wrap k)) w = true ->
  exists m', runs (mk H mh) [] (mk (H + 3) m') /\ lw m' defeat = wrap hv /\ lw m' fp = wrap (lw mh tryfp).
Proof. exact (@stop_handler_entry_resets_defeat w Hw code cmem H mh fp ap tryfp k defeat pdo hv). Qed.

Theorem P_stop_fired_then_undo_behaves q m0 defeat hdo bg hlo Hd hv evs1 d mb fp ap tryfp k pdo :
  (* try/stop prologue *)
  code q = Some (IMov (St defeat) hdo) -> oval m0 hdo = Some Hd ->
  code (q + 1) = Some (IJ bg) -> code (q + 2) = Some (IMov (St defeat) hlo) ->
  0 <= defeat -> inb m0 defeat w = true ->
  let m1 := sw m0 defeat Hd in
  oval m1 bg = Some (q + 3) -> oval m1 hlo = Some hv ->
  Halts (mk (q + 3) (sw m1 defeat hv)) ->
  (* the body, second attempt, up to its defeat call *)
  runs (mk (q + 3) m1) evs1 (mk d mb) ->
  code d = Some (IJ (St defeat)) -> code (d + 1) = Some IHalt -> lw mb defeat = wrap Hd ->
  (* the handler entry at H = wrap Hd *)
  let H := wrap Hd in
  code H = Some (IMov (St defeat) pdo) -> oval mb pdo = Some hv ->
  code (H + 1) = Some (IMov (St fp) (St tryfp)) ->
  code (H + 2) = Some (ILoadO WWord SState (St ap) (St fp) (Imm k)) ->
  inb mb defeat w = true -> inb mb fp w = true -> inb mb ap w = true -> inb mb tryfp w = true ->
  0 <= fp -> 0 <= ap -> 0 <= tryfp ->
  (fp + w <= ap \/ ap + w <= fp) ->
  (defeat + w <= fp \/ fp + w <= defeat) -> (defeat + w <= ap \/ ap + w <= defeat) ->
  (defeat + w <= tryfp \/ tryfp + w <= defeat) ->
  let mh1 := sw (sw mb defeat hv) fp (lw mb tryfp) in
  let slot := sgn (wrap (lw mb tryfp)) + sgn (wrap k) in
  inb mb slot w = true ->
  code (wrap hv) = Some IHalt ->
  let m' := sw mh1 ap (lw mh1 slot) in
  (* the stop block starts at H+3 with the defeat word reset ... *)
  runs (mk q m0) evs1 (mk (H + 3) m') /\ lw m' defeat = wrap hv /\
  (* ... and every later try/undo that sees this word is undone by a virtual defeat call *)
  (forall p m h HU evs c mc,
     code p = Some (IJ h) -> oval m h = Some HU ->
     runs (mk (p + 1) m) evs (mk c mc) ->
     code c = Some (IJ (St defeat)) -> code (c + 1) = Some IHalt -> inb mc defeat w = true ->
     lw mc defeat = lw m' defeat ->
     runs (mk p m) [] (mk HU m) /\ cstep (mk p m) None (mk HU m)).
Proof. exact (@stop_fired_then_undo_behaves w Hw code cmem q m0 defeat hdo bg hlo Hd hv evs1 d mb fp ap tryfp k pdo). Qed.

Theorem P_return_protection_idiom p m nlp N r :
  code p = Some (IJ nlp) -> oval m nlp = Some N ->
  code (p + 1) = Some (IJ (St r)) -> code (p + 2) = Some IHalt -> inb m r w = true ->
  let ra := lw m r in
  (Halts (mk ra m) -> runs (mk p m) [] (mk N m) /\ cstep (mk p m) None (mk N m)) /\
  (~ Halts (mk ra m) -> runs (mk p m) [] (mk ra m) /\ ~ Halts (mk p m)) /\
  (~ Halts (mk N m) -> ~ Halts (mk p m)).
Proof. exact (@return_protection_idiom w code cmem p m nlp N r). Qed.

(* ---------------- Guards.v ---------------- *)
Theorem P_max_length_bound d :
  0 <= max_length w d <= max_signed w /\ max_length w d < W / 2.
Proof. exact (@max_length_bound w Hw d). Qed.

Theorem P_post_init_gap_no_wrap stack e ap fp :
  stack_size_rejected w stack = false ->
  0 <= e <= W / 2 -> 0 <= ap <= fp -> fp <= (stack + 5) * w + e ->
  (stack + 5) * w <= max_signed w /\ 0 <= fp - ap < W.
Proof. exact (@post_init_gap_no_wrap w Hw stack e ap fp). Qed.

Theorem P_div_guard_cond x :
  inrange x ->
  cond_holds w Cne x (wrap 0) = negb (x =? 0) /\ cond_holds w Cne x (wrap 0) = negb (sgn x =? 0).
Proof. exact (@div_guard_cond w Hw x). Qed.

Theorem P_div_faults_iff op lx x :
  inrange x -> (op = Adiv \/ op = Amod) ->
  (arith w op lx x = None <-> x = 0).
Proof. exact (@div_faults_iff w Hw op lx x). Qed.

Theorem P_vla_length_cond len ML :
  inrange len -> 0 <= ML < W / 2 ->
  cond_holds w Cleu len (wrap ML) = (0 <=? sgn len) && (sgn len <=? ML).
Proof. exact (@vla_length_cond w Hw len ML). Qed.

Theorem P_vla_length_no_overflow d len :
  byte_sized d = false -> frame_size w d = w -> inrange len ->
  0 <= sgn len <= max_length w d ->
  arith w Amul len (wrap w) = Some (array_size w d (sgn len)) /\
  0 <= array_size w d (sgn len) <= max_signed w.
Proof. exact (@vla_length_no_overflow w Hw d len). Qed.

Theorem P_vla_space_cond_exact g N' s :
  0 <= N' <= g -> g < W -> 0 <= s ->
  cond_holds w Cgeu (wrap (wrap g - wrap N')) s = (s + N' <=? g).
Proof. exact (@vla_space_cond_exact w g N' s). Qed.

Theorem P_vla_space_sound g N' s :
  0 <= N' <= g -> g < W -> 0 <= s ->
  cond_holds w Cgeu (wrap (wrap g - wrap N')) s = true -> N' <= g - s.
Proof. exact (@vla_space_sound w g N' s). Qed.

Theorem P_vla_space_cond_wrapped g N' s :
  0 <= g < N' -> N' < W -> 0 <= s ->
  cond_holds w Cgeu (wrap (wrap g - wrap N')) s = (s <=? g - N' + W).
Proof. exact (@vla_space_cond_wrapped w g N' s). Qed.

Theorem P_vla_byte_space_guard_sound g N' len :
  0 <= N' <= g -> g < W / 2 -> inrange len ->
  cond_holds w Cgeu (wrap (wrap g - wrap N')) len = true -> 0 <= sgn len /\ sgn len + N' <= g.
Proof. exact (@vla_byte_space_guard_sound w Hw g N' len). Qed.

Theorem P_bool_size_matches_layout len :
  inrange len -> sgn len + 7 < W / 2 ->
  bool_size_word len = wrap (array_size w DBOOL (sgn len)).
Proof. exact (@bool_size_matches_layout w Hw len). Qed.

Theorem P_bool_size_of_small_negative k :
  1 <= k <= 7 ->
  sgn (W - k) = - k /\ bool_size_word (W - k) = 0 /\ array_size w DBOOL (- k) = 0.
Proof. exact (@bool_size_of_small_negative w Hw k). Qed.

Theorem P_vla_bool_negative_passes_space_guard k g N' :
  1 <= k <= 7 -> 0 <= N' <= g -> g < W ->
  cond_holds w Cgeu (wrap (wrap g - wrap N')) (bool_size_word (W - k)) = true.
Proof. exact (@vla_bool_negative_passes_space_guard w Hw k g N'). Qed.

Theorem P_max_length_bool :
  max_length w DBOOL = max_signed w.
Proof. exact (@max_length_bool w). Qed.

Theorem P_vla_bool_length_cond len :
  inrange len ->
  cond_holds w Cleu len (wrap (max_length w DBOOL)) = (0 <=? sgn len).
Proof. exact (@vla_bool_length_cond w Hw len). Qed.

Theorem P_bool_size_sound len :
  inrange len -> 0 <= sgn len -> sgn len + 7 < W / 2 ->
  bool_size_word len = array_size w DBOOL (sgn len) /\ 0 <= array_size w DBOOL (sgn len) < W / 2.
Proof. exact (@bool_size_sound w Hw len). Qed.

Theorem P_bool_size_near_max len :
  inrange len -> W / 2 - 7 <= sgn len ->
  bool_size_word len = W - W / 16 /\ array_size w DBOOL (sgn len) = W / 16.
Proof. exact (@bool_size_near_max w Hw len). Qed.

Theorem P_vla_bool_near_max_rejected g N' len :
  inrange len -> W / 2 - 7 <= sgn len ->
  0 <= N' <= g -> g < W / 2 ->
  cond_holds w Cgeu (wrap (wrap g - wrap N')) (bool_size_word len) = false.
Proof. exact (@vla_bool_near_max_rejected w Hw g N' len). Qed.

Theorem P_vla_bool_guards_sound g N' len :
  inrange len -> 0 <= sgn len ->
  0 <= N' <= g -> g < W / 2 ->
  cond_holds w Cgeu (wrap (wrap g - wrap N')) (bool_size_word len) = true ->
  sgn len + 7 < W / 2 /\ bool_size_word len = array_size w DBOOL (sgn len) /\
  array_size w DBOOL (sgn len) + N' <= g.
Proof. exact (@vla_bool_guards_sound w Hw g N' len). Qed.

Theorem P_vla_bool_space_guard_exact g N' len :
  inrange len -> 0 <= sgn len -> sgn len + 7 < W / 2 ->
  0 <= N' <= g -> g < W ->
  cond_holds w Cgeu (wrap (wrap g - wrap N')) (bool_size_word len) = (array_size w DBOOL (sgn len) + N' <=? g).
Proof. exact (@vla_bool_space_guard_exact w Hw g N' len). Qed.

Theorem P_div_guard_idiom p m ok err e v x op d l lx :
  code p = Some (IJ ok) -> oval m ok = Some (p + 4) ->
  code (p + 1) = Some (IHc Cne v (Imm 0)) -> oval m v = Some x -> inrange x ->
  code (p + 2) = Some (IJ err) -> code (p + 3) = Some IHalt -> oval m err = Some e ->
  code (p + 4) = Some (IArith op (St d) l v) -> (op = Adiv \/ op = Amod) -> oval m l = Some lx ->
  inb m d w = true ->
  (* passes iff divisor <> 0; then memory is unchanged and the division does not fault *)
  (x <> 0 -> runs (mk p m) [] (mk (p + 4) m) /\
             exists r, arith w op lx x = Some r /\ act (mk (p + 4) m) = ANext (mk (p + 4 + 1) (sw m d r)) None) /\
  (* divisor = 0 and the stub is absorbing: committed to the stub, nothing written, no halt;
     the unguarded instruction would have faulted *)
  (x = 0 -> ~ Halts (mk e m) ->
     runs (mk p m) [] (mk e m) /\ ~ Halts (mk p m) /\ act (mk (p + 4) m) = AFault).
Proof. exact (@div_guard_idiom w Hw code cmem p m ok err e v x op d l lx). Qed.

Theorem P_index_guard_idiom p m ok err e io lo i len :
  code p = Some (IJ ok) -> oval m ok = Some (p + 4) ->
  code (p + 1) = Some (IHc Cltu io lo) -> oval m io = Some i -> oval m lo = Some len ->
  inrange i -> 0 <= len < W / 2 ->
  code (p + 2) = Some (IJ err) -> code (p + 3) = Some IHalt -> oval m err = Some e ->
  (0 <= sgn i < len -> runs (mk p m) [] (mk (p + 4) m)) /\
  (~ (0 <= sgn i < len) -> ~ Halts (mk e m) -> runs (mk p m) [] (mk e m) /\ ~ Halts (mk p m)).
Proof. exact (@index_guard_idiom w Hw code cmem p m ok err e io lo i len). Qed.

Theorem P_vla_length_guard_idiom p m ok err e lo len d :
  code p = Some (IJ ok) -> oval m ok = Some (p + 4) ->
  code (p + 1) = Some (IHc Cleu lo (Imm (max_length w d))) -> oval m lo = Some len -> inrange len ->
  code (p + 2) = Some (IJ err) -> code (p + 3) = Some IHalt -> oval m err = Some e ->
  (0 <= sgn len <= max_length w d -> runs (mk p m) [] (mk (p + 4) m)) /\
  (~ (0 <= sgn len <= max_length w d) -> ~ Halts (mk e m) -> runs (mk p m) [] (mk e m) /\ ~ Halts (mk p m)).
Proof. exact (@vla_length_guard_idiom w Hw code cmem p m ok err e lo len d). Qed.

Theorem P_vla_bool_length_guard_rejects_negative p m ok err e lo len :
  code p = Some (IJ ok) -> oval m ok = Some (p + 4) ->
  code (p + 1) = Some (IHc Cleu lo (Imm (max_length w DBOOL))) -> oval m lo = Some len -> inrange len ->
  code (p + 2) = Some (IJ err) -> code (p + 3) = Some IHalt -> oval m err = Some e ->
  (sgn len < 0 -> ~ Halts (mk e m) -> runs (mk p m) [] (mk e m) /\ ~ Halts (mk p m)) /\
  (0 <= sgn len -> runs (mk p m) [] (mk (p + 4) m)).
Proof. exact (@vla_bool_length_guard_rejects_negative w Hw code cmem p m ok err e lo len). Qed.

Theorem P_bool_size_idiom p m r lo len :
  code p = Some (IArith Aadd (St r) lo (Imm 7)) ->
  code (p + 1) = Some (IArith Aasr (St r) (St r) (Imm 3)) ->
  oval m lo = Some len -> 0 <= r -> inb m r w = true ->
  let m' := sw (sw m r (len + 7)) r (Z.shiftr (sgn (wrap (len + 7))) 3) in
  runs (mk p m) [] (mk (p + 2) m') /\ lw m' r = bool_size_word len.
Proof. exact (@bool_size_idiom w Hw code cmem p m r lo len). Qed.

End P.

Theorem P_branch_without_inverse_unsound :
  exists (code : Z -> option instr) (m : mem) (p L : Z) (cc : cond) (a b : operand) (x y : Z),
    code p = Some (IJ (Imm L)) /\ code (p + 1) = Some (IHc cc a b) /\
    val 2 (zmem 0) (mk p m) a = Some x /\ val 2 (zmem 0) (mk p m) b = Some y /\
    cond_holds 2 cc x y = false /\
    cstep (act 2 code (zmem 0)) (mk p m) None (mk L m) /\
    ~ runs (act 2 code (zmem 0)) (mk p m) [] (mk (p + 2) m).
Proof. exact branch_without_inverse_unsound. Qed.

Theorem P_vla_guard_bool_without_length_guard_refuted :
  byte_sized DBOOL = true /\                          (* so no `hleu len,max_length` was emitted *)
  sgn 2 (lw 2 f4_mem 8) = -1 /\                       (* the requested length is -1 *)
  array_size 2 DBOOL (-1) = 0 /\
  exists m',
    runs (act 2 f4_code (zmem 0)) (mk 0 f4_mem) [] (mk 8 m') /\   (* the space guard PASSES with a full stack *)
    lw 2 m' 4 = 0 /\                                   (* size 0: `add [ap],[ap],[r0]` allocates nothing *)
    lw 2 m' 0 = lw 2 f4_mem 0 /\ lw 2 m' 2 = lw 2 f4_mem 2 /\      (* ap, fp as before *)
    lw 2 m' 8 = 65535 /\                               (* the array's length word is 65535 *)
    (* every index below 65535 passes check_index *)
    (forall i, 0 <= i < 65535 -> cond_holds 2 Cltu i (lw 2 m' 8) = true).
Proof. exact vla_guard_bool_without_length_guard_refuted. Qed.

Theorem P_vla_bool_near_max_spurious_overflow :
  stack_size_rejected 2 10000 = false /\
  cond_holds 2 Cleu 32767 (wrap 2 (max_length 2 DBOOL)) = true /\          (* the length guard passes *)
  array_size 2 DBOOL (sgn 2 32767) = 4096 /\ 4096 + 0 <= 20000 /\          (* it would fit *)
  (* ... and is rejected *)
  cond_holds 2 Cgeu (wrap 2 (wrap 2 20000 - wrap 2 0)) (bool_size_word 2 32767) = false.
Proof. exact vla_bool_near_max_spurious_overflow. Qed.

Print Assumptions P_entry_guard_cond_monotone.
Print Assumptions P_vla_space_cond_monotone.
Print Assumptions P_goto_self_not_halts.
Print Assumptions P_goto_idiom.
Print Assumptions P_goto_label.
Print Assumptions P_goto_reg.
Print Assumptions P_goto_halts_iff.
Print Assumptions P_branch_idiom.
Print Assumptions P_branch_idiom_table.
Print Assumptions P_branch_bool_idiom.
Print Assumptions P_branch_halts_iff.
Print Assumptions P_guard_idiom.
Print Assumptions P_guard_never_halts_on_failure.
Print Assumptions P_entry_guard_idiom.
Print Assumptions P_vla_space_guard_idiom.
Print Assumptions P_stack_monotone_entry.
Print Assumptions P_stack_monotone_vla.
Print Assumptions P_bool_normalise.
Print Assumptions P_not_by_sub.
Print Assumptions P_neg_by_sub.
Print Assumptions P_jump_falls.
Print Assumptions P_jump_taken.
Print Assumptions P_undo_idiom.
Print Assumptions P_undo_commit.
Print Assumptions P_preempt_idiom_static.
Print Assumptions P_preempt_idiom_virtual.
Print Assumptions P_speculation_idiom.
Print Assumptions P_speculation_left_defeated.
Print Assumptions P_speculation_value.
Print Assumptions P_speculation_idiom_nomov.
Print Assumptions P_defeat_call_static.
Print Assumptions P_defeat_call_virtual.
Print Assumptions P_defeat_call_static_cond.
Print Assumptions P_defeat_call_virtual_cond.
Print Assumptions P_stop_idiom.
Print Assumptions P_stop_prologue.
Print Assumptions P_stop_handler_entry_without_reset.
Print Assumptions P_stop_leaves_defeat_stale_without_reset.
Print Assumptions P_stale_defeat_reenters_handler_without_reset.
Print Assumptions P_stale_defeat_forces_preempt_without_reset.
Print Assumptions P_undo_with_fresh_defeat.
Print Assumptions P_undo_with_stale_defeat_without_reset.
Print Assumptions P_stop_handler_entry.
Print Assumptions P_stop_handler_entry_resets_defeat.
Print Assumptions P_stop_fired_then_undo_behaves.
Print Assumptions P_return_protection_idiom.
Print Assumptions P_max_length_bound.
Print Assumptions P_post_init_gap_no_wrap.
Print Assumptions P_div_guard_cond.
Print Assumptions P_div_faults_iff.
Print Assumptions P_vla_length_cond.
Print Assumptions P_vla_length_no_overflow.
Print Assumptions P_vla_space_cond_exact.
Print Assumptions P_vla_space_sound.
Print Assumptions P_vla_space_cond_wrapped.
Print Assumptions P_vla_byte_space_guard_sound.
Print Assumptions P_bool_size_matches_layout.
Print Assumptions P_bool_size_of_small_negative.
Print Assumptions P_vla_bool_negative_passes_space_guard.
Print Assumptions P_max_length_bool.
Print Assumptions P_vla_bool_length_cond.
Print Assumptions P_bool_size_sound.
Print Assumptions P_bool_size_near_max.
Print Assumptions P_vla_bool_near_max_rejected.
Print Assumptions P_vla_bool_guards_sound.
Print Assumptions P_vla_bool_space_guard_exact.
Print Assumptions P_div_guard_idiom.
Print Assumptions P_index_guard_idiom.
Print Assumptions P_vla_length_guard_idiom.
Print Assumptions P_vla_bool_length_guard_rejects_negative.
Print Assumptions P_bool_size_idiom.
Print Assumptions P_branch_without_inverse_unsound.
Print Assumptions P_vla_guard_bool_without_length_guard_refuted.
Print Assumptions P_vla_bool_near_max_spurious_overflow.
