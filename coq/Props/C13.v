(* C13 - constant data reaches the output byte for byte: property theorems only. *)
From Coq Require Import ZArith List Lia.
From HidV Require Import AsmText GenEscape EscapeProofs.
Import ListNotations.
Open Scope Z_scope.

(* Every byte string, escaped by the regenerated _escape_bytes and wrapped in either quote,
   denotes exactly itself under the strict literal grammar of the assembler model. *)
Theorem C13_escape_roundtrip : forall q bs rest, (q = 34 \/ q = 39) -> Forall is_byte bs ->
  unescape q (escape_bytes [q] bs ++ q :: rest) = Some (bs, rest).
Proof. exact escape_roundtrip. Qed.
Print Assumptions C13_escape_roundtrip.

(* The escaped text is printable ASCII only: data can never break the line structure. *)
Theorem C13_escape_wellformed : forall q bs, (q = 34 \/ q = 39) -> Forall is_byte bs ->
  forallb printable (escape_bytes [q] bs) = true.
Proof. exact escape_all_printable. Qed.
Print Assumptions C13_escape_wellformed.

(* ... and a raw quote appears only directly after a backslash. *)
Theorem C13_escape_no_raw_quote : forall q b, (q = 34 \/ q = 39) -> is_byte b ->
  forallb (safe_char q) (escape_byte [q] b) = true \/ escape_byte [q] b = [92; q].
Proof. exact escape_byte_safe. Qed.
Print Assumptions C13_escape_no_raw_quote.

(* hypotheses are satisfiable, on a string exercising every branch *)
Example C13_nonvacuous :
  Forall is_byte [92; 34; 39; 10; 13; 65; 0; 255] /\
  unescape 34 (escape_bytes [34] [92; 34; 39; 10; 13; 65; 0; 255] ++ [34]) = Some ([92; 34; 39; 10; 13; 65; 0; 255], []).
Proof. split; [repeat constructor; unfold is_byte; lia | vm_compute; reflexivity]. Qed.
