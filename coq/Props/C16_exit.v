(* C16 -- control never runs off the end of a function.
   ONLY restatements: `Theorem name : statement. Proof. exact lemma. Qed.` + Print Assumptions.
   The analysis functions (`analyse`, `elab_func`) are built from Gen/GenExit.v, which is
   regenerated from hidc/ast/blocks.py and hidc/ast/program.py on every run. *)
From Coq Require Import Bool List.
From HidV Require Import GenExit Exit.
Import ListNotations.

(* (a) exit modes are sound.  Outcome classes: Normal |-> NONE, Break |-> BREAK, Return |-> RETURN,
   Defeat |-> DEFEAT, Terminal |-> LOOP, Continue |-> tracked by nothing (`covers m Continue` is
   True; Continue cannot leave a loop, see no_escape). *)

(* unconditional: Normal / Break / Return are always accounted for *)
Theorem exit_modes_sound_core : forall b b' m o,
  analyse b = (b', m) -> exec b' o -> core o -> covers m o.
Proof. exact Exit.exit_modes_sound_core. Qed.
Print Assumptions exit_modes_sound_core.

(* every class, when no defeat / terminal source is hidden in an expression or a for-`cont` *)
Theorem exit_modes_sound : forall b b' m o,
  analyse b = (b', m) -> visible b' = true -> exec b' o -> covers m o.
Proof. exact Exit.exit_modes_sound. Qed.
Print Assumptions exit_modes_sound.

Theorem exit_modes_sound_src : forall b b' m o,
  analyse b = (b', m) -> visible b = true -> exec b' o -> covers m o.
Proof. exact Exit.exit_modes_sound_src. Qed.
Print Assumptions exit_modes_sound_src.

Example sound_hyps_sat :
  exists b b' m o, analyse b = (b', m) /\ visible b' = true /\ exec b' o /\ core o.
Proof. exact Exit.sound_hyps_sat. Qed.

Theorem no_NONE_never_completes : forall b b' m,
  analyse b = (b', m) -> has F_NONE m = false -> ~ exec b' Normal.
Proof. exact Exit.no_NONE_never_completes. Qed.
Print Assumptions no_NONE_never_completes.

(* the visibility condition cannot be dropped: hidc's DEFEAT and LOOP flags are unsound for
   `for (;; !is_defeat()) {}` and `for (; c; all_is_win()) {}` *)
Theorem exit_modes_sound_refuted :
  (exists b b' m, analyse b = (b', m) /\ exec b' Defeat /\ ~ covers m Defeat) /\
  (exists b b' m, analyse b = (b', m) /\ exec b' Terminal /\ ~ covers m Terminal).
Proof. exact Exit.exit_modes_sound_refuted. Qed.
Print Assumptions exit_modes_sound_refuted.

(* Continue cannot be given the class NONE: { { continue; } return; } *)
Theorem continue_as_NONE_refuted :
  exists b b' m, analyse b = (b', m) /\ visible b' = true /\ exec b' Continue /\ has F_NONE m = false.
Proof. exact Exit.continue_as_NONE_refuted. Qed.
Print Assumptions continue_as_NONE_refuted.

(* ... and ignoring it is harmless: a loop-closed body never ends in Break or Continue *)
Theorem no_escape : forall ss o,
  closed_stmts false ss = true -> exec_stmts ss o -> o <> Break /\ o <> Continue.
Proof. exact Exit.no_escape. Qed.
Print Assumptions no_escape.

(* (b) dropped statements can never run *)
Theorem dropped_is_dead : forall b b' m,
  analyse b = (b', m) -> forall o, exec b o <-> exec b' o.
Proof. exact Exit.dropped_is_dead. Qed.
Print Assumptions dropped_is_dead.

Example dead_hyps_sat : exists b b' m, analyse b = (b', m) /\ b <> b'.
Proof. exact Exit.dead_hyps_sat. Qed.

(* in the truncated tree a return / break / continue is the last statement of its block *)
Theorem trunc_jumps_last : forall b b' m, analyse b = (b', m) -> jumps_last b' = true.
Proof. exact Exit.trunc_jumps_last. Qed.
Print Assumptions trunc_jumps_last.

(* (c) functions *)
Theorem body_never_completes : forall ue d ret body ss m,
  elab_func ue d ret body = Accepted ss m ->
  has F_NONE m = false /\
  (closed_stmts false body = true -> forall o, exec_stmts ss o -> abrupt o).
Proof. exact Exit.body_never_completes. Qed.
Print Assumptions body_never_completes.

Example accepted_hyps_sat :
  exists ue d ret body ss m o,
    elab_func ue d ret body = Accepted ss m /\ closed_stmts false body = true /\ exec_stmts ss o.
Proof. exact Exit.accepted_hyps_sat. Qed.

Theorem missing_return_rejected : forall ue d body,
  has F_NONE (modes_of (BCode body)) = true ->
  forall ss m, elab_func ue d RetValue body <> Accepted ss m.
Proof. exact Exit.missing_return_rejected. Qed.
Print Assumptions missing_return_rejected.

Example missing_return_hyps_sat : exists body, has F_NONE (modes_of (BCode body)) = true.
Proof. exact Exit.missing_return_hyps_sat. Qed.

Theorem missing_return_exact : forall ue d body,
  diags ue RetValue (BCode body) = [] ->
  has F_BREAK (modes_of (BCode body)) = false ->
  (has F_DEFEAT (modes_of (BCode body)) = true -> d = true) ->
  has F_NONE (modes_of (BCode body)) = true ->
  elab_func ue d RetValue body = Rejected ErrMissingReturn.
Proof. exact Exit.missing_return_exact. Qed.
Print Assumptions missing_return_exact.

Example missing_return_exact_sat : elab_func false false RetValue half_return = Rejected ErrMissingReturn.
Proof. exact Exit.half_return_rejected. Qed.

Theorem empty_never_missing_return : forall ue d body,
  elab_func ue d RetEmpty body <> Rejected ErrMissingReturn.
Proof. exact Exit.empty_never_missing_return. Qed.
Print Assumptions empty_never_missing_return.

Theorem returns_carry_value : forall ue d ret body ss m v,
  elab_func ue d ret body = Accepted ss m -> exec_stmts ss (Return v) ->
  v = negb (ret_is_empty ret).
Proof. exact Exit.returns_carry_value. Qed.
Print Assumptions returns_carry_value.

(* the model analyses an already analysed tree to itself (justifies `survey`, which the
   correspondence check uses to read the mode of every sub-block) *)
Theorem analyse_idem : forall b, analyse (fst (analyse b)) = analyse b.
Proof. exact Exit.analyse_idem. Qed.
Print Assumptions analyse_idem.
