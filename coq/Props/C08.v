(* C08: property theorems (machine-level part).  Each name below is an alias of a theorem restated in full
   in Props/Idioms_props.v (proved in Sphinx/Idioms.v, TimeTravel.v, Guards.v for arbitrary surrounding code,
   every word size w >= 2, all operand values); Print Assumptions is re-run here for each.
   FULL statement (not proved): (fp, ap) at every scope exit equal their values at entry, by every exit route.  C08_partial = the restore idioms: returns are indirect gotos through the saved return address, the stop prologue saves ap in the frame and fp in try_fp, handler entry restores both, library routines leave ap/fp and caller memory alone (C17_stdlib.v: agree frame conditions).  What must be released is defined by the reference semantics' allocation stack and compared on every committed output byte by the allocation monitor. *)
From Coq Require Import ZArith List Bool.
From HidV Require Import Machine Halts VM Idioms_props.
Definition C08_goto_reg := @P_goto_reg.
Print Assumptions C08_goto_reg.
Definition C08_stop_prologue := @P_stop_prologue.
Print Assumptions C08_stop_prologue.
Definition C08_stop_handler_entry := @P_stop_handler_entry.
Print Assumptions C08_stop_handler_entry.
Definition C08_stop_handler_entry_resets_defeat := @P_stop_handler_entry_resets_defeat.
Print Assumptions C08_stop_handler_entry_resets_defeat.
