(* C06 -- flavour and context rules.  ONLY restatements: every theorem is `exact` a lemma of
   HiD/Context.v, followed by Print Assumptions. *)
From Coq Require Import NArith List Bool.
From HidV Require Import GenContext Context.
Import ListNotations.
Import Rules.

(* hidc's context threading (regenerated flag arithmetic) accepts exactly the programs that
   respect the rules. *)
Theorem C06_context_model_iff_rules : forall p : program,
  accepts p = true <-> well_contexted p.
Proof. exact context_model_iff_rules. Qed.
Print Assumptions C06_context_model_iff_rules.

(* In an accepted program every call of a defeat function and every preempt block lies lexically
   inside a try body or inside a defeat function. *)
Theorem C06_defeat_only_in_try : forall p : program,
  accepts p = true ->
  forall path n, occurs p path n -> uses_defeat n -> inside_try_or_defeat_function path.
Proof. exact defeat_only_in_try. Qed.
Print Assumptions C06_defeat_only_in_try.

(* the hypotheses are satisfiable: an accepted program with a defeat call under a try body and a
   preempt in a defeat function, at explicit positions *)
Example C06_defeat_only_in_try_nonvacuous :
  accepts ex_accepted = true
  /\ occurs ex_accepted [FFunc 3 You; FItem 0; FWhileBody; FItem 0; FTryBody; FItem 0; FStmtExpr]
            (NE (ECall Defeat []))
  /\ uses_defeat (NE (ECall Defeat []))
  /\ occurs ex_accepted [FFunc 2 Defeat; FItem 0]
            (NB (BPreempt (BCode [IStmt (SPlain (PExpr (ECall Defeat [])))])))
  /\ uses_defeat (NB (BPreempt (BCode [IStmt (SPlain (PExpr (ECall Defeat [])))]))).
Proof.
  exact (conj ex_accepted_ok
          (conj (proj1 ex_positions)
             (conj (u_call [])
                (conj (proj2 ex_positions) (u_preempt _))))).
Qed.

(* No context value the parser can construct is one BlockContext._missing_ refuses. *)
Theorem C06_contexts_valid : forall c : actx, invalid_ctx (bits c) = false.
Proof. exact bits_valid. Qed.
Print Assumptions C06_contexts_valid.
