(* Component `lowerstmt` (DESIGN `C01_partial`): a compiler-correctness theorem for the statement
   fragment F_stmt.  Property theorems only (`Theorem ... exact ...` + `Print Assumptions`).
   Whole programs (functions, calls, recursion, the entry image): Props/C01_program.v.

   Model:  Codegen/LowerStmtModel.v `lower_stmts` / `lower_body` = hidc's gen_stmts / gen_block on
           F_stmt: int and bool locals (declaration, assignment, compound assignment), divisions
           `x = a / b`, `x %= b` with the checked build's division guard, write(byte) / writeln(),
           write / writeln of an int or a bool through the runtime library (write_int, write_bool:
           the call protocol of eval_func_call), calls of the program's functions, return, if / else,
           while / for with break and continue, nested blocks with their own locals; expressions
           from the `lowerbool` fragment (int operands include globals and the byte reads
           `(x is byte) is int`, `(q is byte) is int`: OByte).  Tied TEXTUALLY to the compiler by tools/corr_lowerstmt.py
           (whole programs: state section, every function, labels and entry-guard constants).
   Source semantics (Codegen/LowerStmtProofs.v 1, independent of the lowering): stores, ieval /
           bevals (wrap-around, signed comparison, short-circuit), the big-step relation
           exec / execs / callf with outcomes Normal / Break / Continue / Return v / Fault f and
           output bytes; d is the stack budget of the current frame (used by calls only);
           `istmts` / `icall` is a fuelled interpreter, sound for the relation.
   Reading the statements:
     wf_senv w fb S      the compile-time frame layout: every local's slot lies in ([fp]-top, [fp]-fb],
                         distinct locals are disjoint (fb = w: the frame base is the return address)
     tight w S           the frame holds exactly the return address and the locals in scope
     rep w R lo gl ng nbg S s m    memory m holds store s in that frame: registers in bounds, the frame inside
                         the state section, each int local's word read signed = its value, each bool
                         local's byte = its value (0 / 1); [ap] = lo (the stack area starts at lo)
     need_stmts S ss     the largest frame offset the lowered code reaches (STACK ROOM; it is also
                         the constant of hidc's entry stack guard, checked by the correspondence)
     frame_post out m m' what may have changed: r0, r1, r2 and [lo, [fp]-w) (on Return also the
                         return-address slot, which receives the result; nothing is claimed on Fault)
     post .. out m m'    Normal: m' represents the final store in the final environment; Break /
                         Continue: the enclosing block's locals are represented; Return (Some v):
                         the word at [fp]-w read signed is v
     gl, ng, nbg, gagree the ng int globals (words) and nbg bool globals (bytes holding 0 / 1) live at or
                         above gl (stack_end), above every frame, pairwise apart; statements
                         may change them: frame_post / fagree are `gagree`: r0, r1, r2, the stack below
                         the bound and the globals area may differ; rep includes the global part of the store
     lib_hyps w R code   what a library call or a division guard needs: hidc's register layout and
                         the regenerated library loaded at a_lib R; the call case combines
                         Sphinx/CallProtocol.call_idiom with StdlibInt.write_int_spec /
                         StdlibBool.write_bool_spec, so the events are `decimal v` resp. "true" /
                         "false"; a zero divisor ends in the stub division_by_zero
     no_calls            these statements are for code without calls of the program's functions
                         (for those the callee's code must be there: Props/C01_program.v)
   All statements: every program of the fragment, every w >= 2, arbitrary surrounding code,
   arbitrary base address; terminating source runs (big-step); `runs` transports Halts both ways,
   so a non-halting continuation gives a non-halting start state (C01_stmts_no_new_halt). *)
From Coq Require Import ZArith List Bool Lia.
From HidV Require Import Machine Halts VM Driver WordLemmas MemLemmas GenTables GenStdlib OpTables Idioms
                         StdlibBase LowerBoolModel LowerBoolProofs LowerStmtModel LowerStmtSem LowerStmtProofs.
Import ListNotations.
Open Scope Z_scope.

Section P.
Variable w : Z.
Hypothesis Hw : 2 <= w.
Variable code : Z -> option instr.
Variable cmem : mem.
Variable R : regmap.
Variable lo : Z.
Variable ext : label -> Z.
Hypothesis ext_range : forall x, 0 <= ext x < Machine.W w.
Variable funs : list fundef.
Variable gl : Z.          (* the int globals lie at or above gl *)
Variable ng : nat.        (* their number *)
Variable nbg : nat.       (* the number of bool globals (bytes at or above gl) *)
Hypothesis Hgl : lo <= gl.
Notation act := (Machine.act w code cmem).
Notation Halts := (HidV.Sphinx.Halts.Halts act).
Notation runs := (HidV.Sphinx.Halts.runs act).
Notation FP := (LowerBoolProofs.FP w R).
Notation scoped := (ssscoped w ng nbg (lib_hyps w R code) no_calls).

Theorem C01_stmts_lowering_correct ss d s0 evs s1 S st B m :
  execs w funs d ss s0 evs ONormal s1 ->
  let r := lower_stmts S None ss st in
  let C := fst (fst (fst r)) in
  let S' := snd (fst (fst r)) in
  code_at code B (resolve R ext B C) -> 0 <= B -> B + size C < Machine.W w ->
  wf_senv w w S -> tight w S -> rep w R lo gl ng nbg S s0 m -> d = FP m - lo ->
  scoped (length (ioffs S)) (length (boffs S)) false ss ->
  need_stmts S ss <= FP m - lo ->
  exists m', runs (mk B m) (map EOut evs) (mk (B + size C) m') /\
             rep w R lo gl ng nbg S' s1 m' /\ wf_senv w w S' /\ fagree w R lo w gl m m'.
Proof. exact (@stmts_lowering_correct w Hw code cmem R lo ext ext_range funs gl ng nbg Hgl ss d s0 evs s1 S st B m). Qed.

(* every outcome: break / continue leave to the loop's labels with the outer locals represented,
   return leaves to the return address with the result in the return-address slot, a zero divisor
   leaves to the stub division_by_zero *)
Theorem C01_stmts_lowering_correct_gen ss d s0 evs out s1 S li st B m :
  execs w funs d ss s0 evs out s1 ->
  let r := lower_stmts S li ss st in
  let C := fst (fst (fst r)) in
  let S' := snd (fst (fst r)) in
  code_at code B (resolve R ext B C) -> 0 <= B -> B + size C < Machine.W w ->
  match li with Some (lc, lb) => below st lc /\ below st lb | None => True end ->
  wf_senv w w S -> tight w S -> rep w R lo gl ng nbg S s0 m -> d = FP m - lo ->
  scoped (length (ioffs S)) (length (boffs S)) (match li with Some _ => true | None => false end) ss ->
  need_stmts S ss <= FP m - lo ->
  exists m' pc',
    match out, li with
    | ONormal, _ => pc' = B + size C
    | OBreak, Some (_, lb) => pc' = ext lb
    | OContinue, Some (lc, _) => pc' = ext lc
    | OReturn _, _ => pc' = Machine.lw w m (FP m - w)
    | OFault ft, _ => pc' = a_lib R + fault_off ft
    | _, None => False
    end /\
    runs (mk B m) (map EOut evs) (mk pc' m') /\ frame_post w R lo w gl out m m' /\ post w R lo w gl ng nbg S S' s0 s1 out m m'.
Proof. exact (@stmts_lowering_correct_gen w Hw code cmem R lo ext ext_range funs gl ng nbg Hgl ss d s0 evs out s1 S li st B m). Qed.

(* a zero divisor (checked build): the run is committed to the fault stub *)
Theorem C01_stmts_fault_correct ss d s0 evs ft s1 S st B m :
  execs w funs d ss s0 evs (OFault ft) s1 ->
  let C := fst (fst (fst (lower_stmts S None ss st))) in
  code_at code B (resolve R ext B C) -> 0 <= B -> B + size C < Machine.W w ->
  wf_senv w w S -> tight w S -> rep w R lo gl ng nbg S s0 m -> d = FP m - lo ->
  scoped (length (ioffs S)) (length (boffs S)) false ss ->
  need_stmts S ss <= FP m - lo ->
  exists m', runs (mk B m) (map EOut evs) (mk (a_lib R + fault_off ft) m').
Proof. exact (@stmts_fault_correct w Hw code cmem R lo ext ext_range funs gl ng nbg Hgl ss d s0 evs ft s1 S st B m). Qed.

Theorem C01_body_lowering_correct ss d s0 evs s1 S st B m :
  execs w funs d ss s0 evs ONormal s1 ->
  let C := fst (lower_body S ss st) in
  code_at code B (resolve R ext B C) -> 0 <= B -> B + size C < Machine.W w ->
  wf_senv w w S -> tight w S -> rep w R lo gl ng nbg S s0 m -> d = FP m - lo ->
  scoped (length (ioffs S)) (length (boffs S)) false ss ->
  need_stmts S ss <= FP m - lo ->
  let ra := Machine.lw w m (FP m - w) in
  exists m', runs (mk B m) (map EOut evs) (mk ra m') /\ gagree w R lo gl (FP m) m m'.
Proof. exact (@body_lowering_correct w Hw code cmem R lo ext ext_range funs gl ng nbg Hgl ss d s0 evs s1 S st B m). Qed.

Theorem C01_stmts_no_new_halt ss d s0 evs s1 S st B m :
  execs w funs d ss s0 evs ONormal s1 ->
  let C := fst (fst (fst (lower_stmts S None ss st))) in
  code_at code B (resolve R ext B C) -> 0 <= B -> B + size C < Machine.W w ->
  wf_senv w w S -> tight w S -> rep w R lo gl ng nbg S s0 m -> d = FP m - lo ->
  scoped (length (ioffs S)) (length (boffs S)) false ss ->
  need_stmts S ss <= FP m - lo ->
  (forall m', ~ Halts (mk (B + size C) m')) -> ~ Halts (mk B m).
Proof. exact (@stmts_no_new_halt w Hw code cmem R lo ext ext_range funs gl ng nbg Hgl ss d s0 evs s1 S st B m). Qed.
End P.

(* the interpreter is sound for the relation *)
Theorem C01_interp_sound w funs fuel :
  (forall d s s0 e out s1, istmt w funs fuel d s s0 = Some (e, out, s1) -> exec w funs d s s0 e out s1) /\
  (forall d ss s0 e out s1, istmts w funs fuel d ss s0 = Some (e, out, s1) -> execs w funs d ss s0 e out s1) /\
  (forall d g vs G e res, icall w funs fuel d g vs G = Some (e, res) -> callf w funs d g vs G e res).
Proof. exact (@interp_sound w funs fuel). Qed.

(* the labels a lowered statement list defines are fresh and defined once *)
Theorem C01_lower_stmts_labels_fresh ss S li st C S' st' ex :
  lower_stmts S li ss st = (C, S', st', ex) ->
  st_le st st' /\ Forall (between st st') (deflabels C) /\ NoDup (deflabels C).
Proof. exact (proj2 lower_stmts_defs ss S li st C S' st' ex). Qed.

(* satisfiability: a concrete program (declarations, a loop left by break, if / else, a nested block
   with its own local, output), its source run, the theorem applied to it, and the resolved model
   output run end to end on the verified VM *)
Example C01_source_run_sat : exists s1, execs 2 [] 20 sx_ss sx_s0 sx_out ONormal s1.
Proof. exact sx_exec. Qed.
Example C01_body_lowering_sat :
  exists m', HidV.Sphinx.Halts.runs (Machine.act 2 (code_of sx_prog) (zmem 0)) (mk 0 sx_mem) (map EOut sx_out) (mk sx_ra m').
Proof. exact body_lowering_ex. Qed.
Example C01_body_vm_run_sat :
  match run_program 2 sx_bytes [] sx_prog [] mon_none 2000 with
  | OAbsorbed evs s _ => evs = map EOut sx_out /\ pc s = sx_ra
  | _ => False
  end.
Proof. exact body_vm_run_ex. Qed.

(* a program that prints numbers: `int x = a * 100; writeln(x - 7); write(x > b);` with the library
   in the code: source run, the theorem, and the VM run ("493\n", "true", then the win flag) *)
Example C01_lib_source_run_sat : exists s1, execs 2 [] 50 lx_ss sx_s0 lx_out ONormal s1.
Proof. exact lx_exec. Qed.
Example C01_lib_hyps_sat : lib_hyps 2 lx_regs (code_of lx_prog).
Proof. exact lx_lib_hyps. Qed.
Example C01_lib_body_lowering_sat :
  exists m', HidV.Sphinx.Halts.runs (Machine.act 2 (code_of lx_prog) (zmem 0)) (mk 0 lx_mem) (map EOut lx_out) (mk lx_lib m').
Proof. exact lib_body_lowering_ex. Qed.
Example C01_lib_body_vm_run_sat :
  match run_program 2 lx_bytes [] lx_prog [] mon_none 5000 with
  | OAbsorbed evs s _ => firstn 9 evs = map EOut lx_out ++ [EFlag 0]
  | _ => False
  end.
Proof. exact lib_body_vm_run_ex. Qed.

Print Assumptions C01_stmts_lowering_correct.
Print Assumptions C01_stmts_lowering_correct_gen.
Print Assumptions C01_stmts_fault_correct.
Print Assumptions C01_body_lowering_correct.
Print Assumptions C01_stmts_no_new_halt.
Print Assumptions C01_interp_sound.
Print Assumptions C01_lower_stmts_labels_fresh.
Print Assumptions C01_source_run_sat.
Print Assumptions C01_body_lowering_sat.
Print Assumptions C01_body_vm_run_sat.
Print Assumptions C01_lib_source_run_sat.
Print Assumptions C01_lib_hyps_sat.
Print Assumptions C01_lib_body_lowering_sat.
Print Assumptions C01_lib_body_vm_run_sat.
