(* C09 - operators and casts at every boundary value: property theorems only.
   All statements hold for every word size w >= 1 and every operand value (the property asks
   for a grid).  The tables are regenerated from generator.py:131-148 on every run. *)
From Coq Require Import ZArith List Bool.
From HidV Require Import Machine WordLemmas GenTables OpTables.
Import ListNotations.
Open Scope Z_scope.

Theorem C09_compare_map_correct : forall w, 1 <= w -> Forall (cmp_entry_ok w) compare_map.
Proof. exact compare_map_correct. Qed.
Print Assumptions C09_compare_map_correct.

Theorem C09_compare_map_total : map fst compare_map = [SEq; SNe; SLt; SGt; SLe; SGe].
Proof. exact compare_map_total. Qed.

Theorem C09_halt_inversion_is_negation : forall w, Forall (inv_entry_ok w) halt_inversion.
Proof. exact halt_inversion_is_negation. Qed.
Print Assumptions C09_halt_inversion_is_negation.

Theorem C09_halt_inversion_total_involutive :
  forallb (fun c => match invert c with Some c' => match invert c' with Some c'' => cond_eqb c'' c | None => false end | None => false end) all_conds = true
  /\ length halt_inversion = length all_conds.
Proof. exact (conj halt_inversion_total_involutive halt_inversion_no_duplicate_keys). Qed.
Print Assumptions C09_halt_inversion_total_involutive.

Theorem C09_arith_map_correct : forall w, 1 <= w -> Forall (arith_entry_ok w) arith_map.
Proof. exact arith_map_correct. Qed.
Print Assumptions C09_arith_map_correct.

Theorem C09_arith_map_total : map fst arith_map = [SAdd; SSub; SMul; SDiv; SMod].
Proof. exact arith_map_total. Qed.

Theorem C09_index_check_exact : forall w, 1 <= w -> forall i len, inrange w i -> 0 <= len < Machine.W w / 2 ->
  cond_holds w Cltu i len = (0 <=? sgn w i) && (sgn w i <? len).
Proof. exact index_check_exact. Qed.
Print Assumptions C09_index_check_exact.

(* non-vacuity: the extremes at 16 bits *)
Example C09_nonvacuous : inrange 2 65535 /\ inrange 2 32768 /\ sgn 2 65535 = -1 /\ sgn 2 32768 = -32768
  /\ cond_holds 2 Clt 32768 32767 = true /\ cond_holds 2 Cltu 32768 32767 = false.
Proof. vm_compute. intuition congruence. Qed.
