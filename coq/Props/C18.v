(* C18: property theorems (machine-level part).  Each name below is an alias of a theorem restated in full
   in Props/Idioms_props.v (proved in Sphinx/Idioms.v, TimeTravel.v, Guards.v for arbitrary surrounding code,
   every word size w >= 2, all operand values); Print Assumptions is re-run here for each.
   Proved here: every stack guard that passes at gap g passes at every larger gap (no-wrap side conditions derived from __post_init__'s stack-size bound).  --lint theorems are in Props/C18_lint.v.  Hash-seed independence is Python runtime behaviour (experiment). *)
From Coq Require Import ZArith List Bool.
From HidV Require Import Machine Halts VM Idioms_props.
Definition C18_entry_guard_cond_monotone := @P_entry_guard_cond_monotone.
Print Assumptions C18_entry_guard_cond_monotone.
Definition C18_vla_space_cond_monotone := @P_vla_space_cond_monotone.
Print Assumptions C18_vla_space_cond_monotone.
Definition C18_stack_monotone_entry := @P_stack_monotone_entry.
Print Assumptions C18_stack_monotone_entry.
Definition C18_stack_monotone_vla := @P_stack_monotone_vla.
Print Assumptions C18_stack_monotone_vla.
Definition C18_post_init_gap_no_wrap := @P_post_init_gap_no_wrap.
Print Assumptions C18_post_init_gap_no_wrap.
