(* C10 - the compiler is total: property theorems only.

   What a Coq model can carry, and does: the front-end models are total Gallina functions whose
   result is either a value or an error kind; the lexer model never runs out of fuel on any
   input, every reader consumes input (so the lexer's main loop terminates), and every token's
   span lies inside the text and re-lexes to that token (so diagnostics can index the source).
   What no executable model can exhibit: a Python exception escaping the implementation
   (AssertionError, KeyError, UnicodeError, RecursionError).  That half of the property is
   labelled PARTIAL - runtime behaviour, and is decided by the fuzzing correspondence of
   tools/props/C10.py (exception type leaving parse/evaluate/CodeGen/gen_lines, rendering of the
   diagnostic, CLI exit status and output file, acceptance by the strict assembler). *)
From Coq Require Import ZArith List Bool.
From HidV Require Import Lexer LexerProofs AsmText GenEscape EscapeProofs.
Import ListNotations.
Open Scope Z_scope.

Theorem C10_lexer_model_total : forall uni_space uni_word uni_digit lines,
  snd (lex_lines uni_space uni_word uni_digit lines) <> OFuel.
Proof. exact lex_lines_fuel. Qed.
Print Assumptions C10_lexer_model_total.

Theorem C10_readers_consume_input : forall uni_word uni_digit cur t r,
  read_token uni_word uni_digit cur = RTok t r -> ssuffix r cur.
Proof. exact read_token_suffix. Qed.
Print Assumptions C10_readers_consume_input.

Theorem C10_spans_inside_source : forall uni_space uni_word uni_digit lines, lines <> [] ->
  Forall (span_exact uni_word uni_digit lines) (fst (lex_lines uni_space uni_word uni_digit lines)).
Proof. exact lex_spans_exact. Qed.
Print Assumptions C10_spans_inside_source.

(* successful output is well-formed for the assembler whatever bytes the constants contain *)
Theorem C10_constants_cannot_break_the_output : forall q bs, (q = 34 \/ q = 39) -> Forall is_byte bs ->
  forallb printable (escape_bytes [q] bs) = true.
Proof. exact escape_all_printable. Qed.
Print Assumptions C10_constants_cannot_break_the_output.
