(* Component `lowerbool` (C01 items 2-3 `branch_lowering_correct`, `arith_lowering_correct`; C09 item 6):
   property theorems only (`Theorem ... exact ...` + `Print Assumptions`).

   Model:  Codegen/LowerBoolModel.v  `lower_branch` = hidc's `bool_expr_branch`, `eval_opd` = eval_expr on
           int operands, on F_model: comparisons of int operands (literals, int locals, + - * and unary
           - + nested arbitrarily), bool literals, bool locals, not, and, or; tied TEXTUALLY to the
           compiler by tools/corr_lowerbool.py (labels included).
   F_proved = F_model (`/` and `%` are outside both).
   Proofs: Codegen/LowerBoolProofs.v.  All statements: every expression tree (unbounded depth),
           every word size w >= 2, arbitrary surrounding code (`code` is constrained only where the
           resolved block sits), arbitrary base address B, every well-formed frame.

   Reading the statements:
     runs s [] s'        Halts s <-> Halts s', and if s' does not halt the committed timeline goes
                         from s to s' silently (Halts.v)
     sval / beval        source semantics: an int local read as a signed word, + - * unary - wrap to
                         the word size, signed comparison, a bool local is true iff its byte is
                         non-zero, not / and / or
     wval                the value as a word, = wrap (sval)
     eval_mem / run_mem  the memory after the evaluation, as a function: the operand evaluations of
                         exactly the atoms reached by left-to-right short-circuit evaluation (`trace`)
     regs_ok, room_ok    the frame: registers in bounds, disjoint, below the stack area; the area
                         [lo, fp - top) below the stack top is in bounds and addressable (STACK ROOM)
     oexp_ok / vars_ok   every local in bounds, above the stack top, not a register; every literal a
                         word; temps * w bytes of room below the stack top for the temporaries
     agree lo hi m m'    m' differs from m at most in the words r0, r1 and in [lo, hi): every local and
                         every slot at or above the stack top is preserved (frame condition)
   Satisfiability `Example`s for the hypotheses are restated at the end. *)
From Coq Require Import ZArith List Bool Lia.
From HidV Require Import Machine Halts WordLemmas MemLemmas GenTables OpTables Idioms LowerBoolModel LowerBoolProofs.
Import ListNotations.
Open Scope Z_scope.

Section P.
Variable w : Z.
Hypothesis Hw : 2 <= w.
Variable code : Z -> option instr.
Variable cmem : mem.
Variable R : regmap.
Variable E : env.
Hypothesis HwE : wsize E = w.
Variable lo : Z.
Variable ext : label -> Z.
Hypothesis ext_range : forall x, 0 <= ext x < Machine.W w.
Notation act := (Machine.act w code cmem).
Notation Halts := (HidV.Sphinx.Halts.Halts act).
Notation runs := (HidV.Sphinx.Halts.runs act).
Notation csteps := (HidV.Sphinx.Halts.csteps act).

(* C01 item 3: arithmetic operands *)
Theorem C01_arith_lowering_correct o top rg keep B m :
  let C := fst (eval_opd E top rg o keep) in
  let bub := snd (eval_opd E top rg o keep) in
  code_at code B (resolve R ext B C) ->
  0 <= B -> B + size C < Machine.W w ->
  rg = R0 \/ rg = R1 ->
  regs_ok w R lo m -> room_ok w R lo top m -> oexp_ok w R E lo (FP w R m - top) m o ->
  Z.of_nat (temps o keep) * w <= FP w R m - top - lo ->
  let m' := eval_mem w R E top rg o keep m in
  runs (mk B m) [] (mk (B + size C) m') /\
  agree w R lo (FP w R m - top) m m' /\
  bub = bub_of E top rg o keep /\
  bub_val w R m' bub = wval w R E m o /\
  wval w R E m o = Machine.wrap w (sval w R E m o) /\
  Machine.sgn w (wval w R E m o) = sval w R E m o.
Proof. exact (@arith_lowering_correct w Hw code cmem R E HwE lo ext ext_range o top rg keep B m). Qed.

Theorem C01_get_expr_value_correct o top rg B m :
  let ev := eval_opd E top rg o false in
  let C := fst ev ++ fst (pop_value rg (snd ev)) in
  let v := snd (pop_value rg (snd ev)) in
  code_at code B (resolve R ext B C) ->
  0 <= B -> B + size C < Machine.W w ->
  rg = R0 \/ rg = R1 ->
  regs_ok w R lo m -> room_ok w R lo top m -> oexp_ok w R E lo (FP w R m - top) m o ->
  Z.of_nat (temps o false) * w <= FP w R m - top - lo ->
  let m' := pop_mem w R rg (bub_of E top rg o false) (eval_mem w R E top rg o false m) in
  runs (mk B m) [] (mk (B + size C) m') /\
  agree w R lo (FP w R m - top) m m' /\
  Idioms.oval w cmem m' (res_sym R ext v) = Some (wval w R E m o).
Proof. exact (@get_expr_value_correct w Hw code cmem R E HwE lo ext ext_range o top rg B m). Qed.

(* the flagship: both continuations are gotos *)
Theorem C01_branch_lowering_correct e T F st B m :
  let C := fst (lower_branch E e (goto T) (goto F) st) in
  code_at code B (resolve R ext B C) ->
  0 <= B -> B + size C < Machine.W w ->
  below st T -> below st F ->
  layout_ok w R E lo m -> vars_ok w R E lo m e ->
  let m' := run_mem w R E e m in
  runs (mk B m) [] (mk (if beval w R E m e then ext T else ext F) m') /\
  agree w R lo (HI w R E m) m m' /\
  m' = fold_left (atom_mem w R E) (trace w R E m e) m.
Proof. exact (@branch_lowering_correct w Hw code cmem R E HwE lo ext ext_range e T F st B m). Qed.

Theorem C01_branch_lowering_halts e T F st B m :
  let C := fst (lower_branch E e (goto T) (goto F) st) in
  code_at code B (resolve R ext B C) ->
  0 <= B -> B + size C < Machine.W w ->
  below st T -> below st F ->
  layout_ok w R E lo m -> vars_ok w R E lo m e ->
  let s' := mk (if beval w R E m e then ext T else ext F) (run_mem w R E e m) in
  (Halts (mk B m) <-> Halts s') /\ (~ Halts s' -> csteps (mk B m) [] s').
Proof. exact (@branch_lowering_halts w Hw code cmem R E HwE lo ext ext_range e T F st B m). Qed.

(* IfBlock / LoopBlock form: if_true empty (fall through), if_false = goto else *)
Theorem C01_fallthrough_lowering_correct e Else st B m :
  let C := fst (lower_branch E e [] (goto Else) st) in
  code_at code B (resolve R ext B C) ->
  0 <= B -> B + size C < Machine.W w ->
  below st Else ->
  layout_ok w R E lo m -> vars_ok w R E lo m e ->
  let m' := run_mem w R E e m in
  runs (mk B m) [] (mk (if beval w R E m e then B + size C else ext Else) m') /\
  agree w R lo (HI w R E m) m m' /\
  m' = fold_left (atom_mem w R E) (trace w R E m e) m.
Proof. exact (@fallthrough_lowering_correct w Hw code cmem R E HwE lo ext ext_range e Else st B m). Qed.

Theorem C01_if_block_lowering_correct e st B m :
  let C := fst (fst (fst (if_block E e st))) in
  let else_label := snd (fst (fst (if_block E e st))) in
  code_at code B (resolve R ext B C) ->
  0 <= B -> B + size C < Machine.W w ->
  layout_ok w R E lo m -> vars_ok w R E lo m e ->
  let m' := run_mem w R E e m in
  runs (mk B m) [] (mk (if beval w R E m e then B + size C else ext else_label) m') /\
  agree w R lo (HI w R E m) m m' /\
  m' = fold_left (atom_mem w R E) (trace w R E m e) m.
Proof. exact (@if_block_lowering_correct w Hw code cmem R E HwE lo ext ext_range e st B m). Qed.

(* general continuations: straight-line prefix, optional goto *)
Theorem C01_lowering_correct_gen e pt gt pf gf st B m :
  let C := fst (lower_branch E e (kl pt gt) (kl pf gf) st) in
  let lab := labenv ext B C in
  code_at code B (resolve R ext B C) ->
  0 <= B -> B + size C < Machine.W w ->
  forallb simple pt = true -> forallb simple pf = true ->
  (forall L, gt = Some L -> below st L) -> (forall L, gf = Some L -> below st L) ->
  layout_ok w R E lo m -> vars_ok w R E lo m e ->
  let b := beval w R E m e in
  let m' := run_mem w R E e m in
  agree w R lo (HI w R E m) m m' /\
  m' = fold_left (atom_mem w R E) (trace w R E m e) m /\
  forall m'', run_simple w R cmem lab (if b then pt else pf) m' = Some m'' ->
    runs (mk B m) [] (mk (match (if b then gt else gf) with Some L => ext L | None => B + size C end) m'').
Proof. exact (@lowering_correct_gen w Hw code cmem R E HwE lo ext ext_range e pt gt pf gf st B m). Qed.

(* C09 item 6: value position *)
Theorem C09_value_lowering_correct e rout st B m :
  let C := fst (value_lowering E e rout st) in
  code_at code B (resolve R ext B C) ->
  0 <= B -> B + size C < Machine.W w ->
  layout_ok w R E lo m -> vars_ok w R E lo m e ->
  rout = R0 \/ rout = R1 ->
  let v := if beval w R E m e then 1 else 0 in
  let m'' := Machine.sw w (run_mem w R E e m) (regaddr R rout) v in
  runs (mk B m) [] (mk (B + size C) m'') /\ Machine.lw w m'' (regaddr R rout) = v /\
  agree w R lo (HI w R E m) m m''.
Proof. exact (@value_lowering_correct w Hw code cmem R E HwE lo ext ext_range e rout st B m). Qed.

Theorem C09_value_lowering_keep_correct e st B m :
  let off := stack_top E + 1 in
  let E' := with_top E off in
  let C := fst (value_lowering_keep E e st) in
  code_at code B (resolve R ext B C) ->
  0 <= B -> B + size C < Machine.W w ->
  layout_ok w R E' lo m -> vars_ok w R E' lo m e ->
  slot_ok w R lo (HI w R E' m) m off 1 ->
  let v := if beval w R E' m e then 1 else 0 in
  let m'' := Machine.sb (run_mem w R E' e m) (FP w R m - off) v in
  runs (mk B m) [] (mk (B + size C) m'') /\ lb m'' (FP w R m - off) = v.
Proof. exact (@value_lowering_keep_correct w Hw code cmem R E HwE lo ext ext_range e st B m). Qed.
End P.

(* the numbering discipline: every label the block defines is fresh (allocated by this call) and
   defined once, so two-pass resolution is unambiguous *)
Theorem C01_lower_branch_labels_fresh E e kt kf st C st' :
  lower_branch E e kt kf st = (C, st') ->
  deflabels kt = [] -> deflabels kf = [] ->
  st_le st st' /\ Forall (between st st') (deflabels C) /\ NoDup (deflabels C).
Proof. exact (@lower_branch_defs E e kt kf st C st'). Qed.

(* temps_needed is what the model uses: every push of the emitted operand code goes to a frame
   offset in (top, top + temps * w], and the bound is attained *)
Theorem C01_temps_needed_exact E o : 0 < wsize E -> forall top r keep,
  let offs := store_offs (fst (eval_opd E top r o keep)) in
  let T := top + Z.of_nat (temps o keep) * wsize E in
  Forall (fun off => top < off <= T) offs /\ (temps o keep <> 0%nat -> In T offs).
Proof. exact (@eval_opd_stores E o). Qed.

(* short-circuit: a deciding left operand leaves no trace of the right one *)
Theorem C01_short_circuit_and w R E m e1 e2 : beval w R E m e1 = false ->
  trace w R E m (BAnd e1 e2) = trace w R E m e1 /\ run_mem w R E (BAnd e1 e2) m = run_mem w R E e1 m.
Proof. exact (@short_circuit_and w R E m e1 e2). Qed.
Theorem C01_short_circuit_or w R E m e1 e2 : beval w R E m e1 = true ->
  trace w R E m (BOr e1 e2) = trace w R E m e1 /\ run_mem w R E (BOr e1 e2) m = run_mem w R E e1 m.
Proof. exact (@short_circuit_or w R E m e1 e2). Qed.

(* satisfiability of the hypotheses (w = 2, hidc's register layout) *)
Example C01_arith_lowering_sat :
  let m' := eval_mem 2 ex_regs ex_env 10 R0 ex_o false ex_mem in
  HidV.Sphinx.Halts.runs (Machine.act 2 (code_of ex_oprog) (zmem 0)) (mk 0 ex_mem) []
    (mk (size (fst (eval_opd ex_env 10 R0 ex_o false))) m') /\
  Machine.lw 2 m' (a_r0 ex_regs) = 30.
Proof. exact arith_lowering_ex. Qed.
Example C01_branch_lowering_sat :
  let m' := run_mem 2 ex_regs ex_env ex_e ex_mem in
  HidV.Sphinx.Halts.runs (Machine.act 2 (code_of ex_prog) (zmem 0)) (mk 0 ex_mem) [] (mk 100 m') /\
  agree 2 ex_regs ex_lo 50 ex_mem m'.
Proof. exact branch_lowering_ex. Qed.
Example C01_if_block_lowering_sat :
  HidV.Sphinx.Halts.runs (Machine.act 2 (code_of ex_if_prog) (zmem 0)) (mk 0 ex_mem) []
    (mk (size (fst (fst (fst (if_block ex_env ex_e ex_st))))) (run_mem 2 ex_regs ex_env ex_e ex_mem)).
Proof. exact if_block_lowering_ex. Qed.
Example C09_value_lowering_sat :
  exists m'', HidV.Sphinx.Halts.runs (Machine.act 2 (code_of ex_val_prog) (zmem 0)) (mk 0 ex_mem) []
                (mk (size (fst (value_lowering ex_env ex_e R0 ex_st))) m'') /\
              Machine.lw 2 m'' (a_r0 ex_regs) = 1.
Proof. exact value_lowering_ex. Qed.

Print Assumptions C01_arith_lowering_correct.
Print Assumptions C01_get_expr_value_correct.
Print Assumptions C01_branch_lowering_correct.
Print Assumptions C01_branch_lowering_halts.
Print Assumptions C01_fallthrough_lowering_correct.
Print Assumptions C01_if_block_lowering_correct.
Print Assumptions C01_lowering_correct_gen.
Print Assumptions C09_value_lowering_correct.
Print Assumptions C09_value_lowering_keep_correct.
Print Assumptions C01_lower_branch_labels_fresh.
Print Assumptions C01_temps_needed_exact.
Print Assumptions C01_short_circuit_and.
Print Assumptions C01_short_circuit_or.
Print Assumptions C01_arith_lowering_sat.
Print Assumptions C01_branch_lowering_sat.
Print Assumptions C01_if_block_lowering_sat.
Print Assumptions C09_value_lowering_sat.
