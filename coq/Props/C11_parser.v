(* C11 - precedence and associativity.  ONLY `Theorem ... exact ...` + `Print Assumptions`. *)
From Coq Require Import List ZArith.
Import ListNotations.
From HidV.HiD Require Import ExprSyntax ExprParser.
From HidV.Gen Require Import GenGrammar.

(* (a) the ladder regenerated from grammar.py is the README table (and nests as documented) *)
Theorem levels_are_documented : levels = Spec.documented_levels.
Proof. exact levels_are_documented_proof. Qed.
Print Assumptions levels_are_documented.

Theorem unary_ops_are_documented : unary_ops = Spec.documented_unary.
Proof. exact unary_ops_are_documented_proof. Qed.
Print Assumptions unary_ops_are_documented.

Theorem shape_is_documented : shape = Spec.documented_shape.
Proof. exact shape_is_documented_proof. Qed.
Print Assumptions shape_is_documented.

(* (b) printing any well-formed tree with minimal parentheses and parsing it back gives the same
   tree - all trees, unbounded depth *)
Theorem parse_print_roundtrip : forall e, wf_expr e ->
  exists fuel, parse_expr levels unary_ops fuel (tokens_min e) = Some (e, []).
Proof. exact parse_print_roundtrip_proof. Qed.
Print Assumptions parse_print_roundtrip.

Theorem parse_print_roundtrip_fuel : forall e fuel, wf_expr e -> size e < fuel ->
  parse_expr levels unary_ops fuel (tokens_min e) = Some (e, []).
Proof. exact parse_print_roundtrip_fuel_proof. Qed.
Print Assumptions parse_print_roundtrip_fuel.

Theorem parse_print_roundtrip_noyou : forall e fuel, wf_in false e -> size e < fuel ->
  p_top levels unary_ops fuel false (tokens_min e) = POk e [].
Proof. exact parse_print_roundtrip_noyou_proof. Qed.
Print Assumptions parse_print_roundtrip_noyou.

(* the hypotheses are satisfiable *)
Example wf_expr_satisfiable : wf_expr wf_witness.
Proof. exact wf_witness_wf. Qed.

(* the statement of DESIGN.md is the one proved *)
Theorem parse_print_roundtrip_is_full : parse_print_roundtrip_full_statement.
Proof. exact parse_print_roundtrip_proof. Qed.
Print Assumptions parse_print_roundtrip_is_full.

(* (c) grouping *)
Theorem grouping_left_assoc : forall b1 b2 x y z, prec b1 = prec b2 ->
  parse_toks [TId x; TOp (btok b1); TId y; TOp (btok b2); TId z]
  = Some (EBin b2 (EBin b1 (EVar x) (EVar y)) (EVar z), []).
Proof. exact grouping_left_assoc_proof. Qed.
Print Assumptions grouping_left_assoc.
Example grouping_left_assoc_hyp : prec Sub = prec Add.
Proof. reflexivity. Qed.

Theorem grouping_tighter_right : forall b1 b2 x y z, prec b2 < prec b1 ->
  parse_toks [TId x; TOp (btok b1); TId y; TOp (btok b2); TId z]
  = Some (EBin b1 (EVar x) (EBin b2 (EVar y) (EVar z)), []).
Proof. exact grouping_tighter_right_proof. Qed.
Print Assumptions grouping_tighter_right.
Example grouping_tighter_right_hyp : prec Mul < prec Add.
Proof. vm_compute. auto. Qed.

Theorem grouping_tighter_left : forall b1 b2 x y z, prec b1 < prec b2 ->
  parse_toks [TId x; TOp (btok b1); TId y; TOp (btok b2); TId z]
  = Some (EBin b2 (EBin b1 (EVar x) (EVar y)) (EVar z), []).
Proof. exact grouping_tighter_left_proof. Qed.
Print Assumptions grouping_tighter_left.
Example grouping_tighter_left_hyp : prec And < prec Or.
Proof. vm_compute. auto. Qed.

Theorem grouping_parens_right : forall b1 b2 x y z,
  parse_toks [TId x; TOp (btok b1); TLParen; TId y; TOp (btok b2); TId z; TRParen]
  = Some (EBin b1 (EVar x) (EBin b2 (EVar y) (EVar z)), []).
Proof. exact grouping_parens_right_proof. Qed.
Print Assumptions grouping_parens_right.

Theorem grouping_parens_left : forall b1 b2 x y z,
  parse_toks [TLParen; TId x; TOp (btok b1); TId y; TRParen; TOp (btok b2); TId z]
  = Some (EBin b2 (EBin b1 (EVar x) (EVar y)) (EVar z), []).
Proof. exact grouping_parens_left_proof. Qed.
Print Assumptions grouping_parens_left.

Theorem grouping_postfix_over_unary : forall u x y,
  parse_toks [TOp (utok u); TId x; TDot; TId length_id] = Some (EUn u (ELen (EVar x)), []) /\
  parse_toks [TOp (utok u); TId x; TLSquare; TId y; TRSquare]
  = Some (EUn u (EIdx (EVar x) (EVar y)), []).
Proof. exact grouping_postfix_over_unary_proof. Qed.
Print Assumptions grouping_postfix_over_unary.

Theorem grouping_postfix_over_binary : forall b x y z,
  parse_toks [TId x; TOp (btok b); TId y; TDot; TId length_id]
  = Some (EBin b (EVar x) (ELen (EVar y)), []) /\
  parse_toks [TId x; TOp (btok b); TId y; TLSquare; TId z; TRSquare]
  = Some (EBin b (EVar x) (EIdx (EVar y) (EVar z)), []).
Proof. exact grouping_postfix_over_binary_proof. Qed.
Print Assumptions grouping_postfix_over_binary.

Theorem grouping_unary_over_is : forall u x t, t <> DEmpty ->
  parse_toks [TOp (utok u); TId x; TOp IS; TType t] = Some (EIs (EUn u (EVar x)) t false, []).
Proof. exact grouping_unary_over_is_proof. Qed.
Print Assumptions grouping_unary_over_is.
Example type_hyp : DInt <> DEmpty.
Proof. discriminate. Qed.

Theorem grouping_is_over_binary : forall b x y t, t <> DEmpty ->
  parse_toks [TId x; TOp (btok b); TId y; TOp IS; TType t]
  = Some (EBin b (EVar x) (EIs (EVar y) t false), []) /\
  parse_toks [TId x; TOp IS; TType t; TOp (btok b); TId y]
  = Some (EBin b (EIs (EVar x) t false) (EVar y), []).
Proof. exact grouping_is_over_binary_proof. Qed.
Print Assumptions grouping_is_over_binary.

Theorem grouping_unary_over_binary : forall u b x y,
  parse_toks [TOp (utok u); TId x; TOp (btok b); TId y]
  = Some (EBin b (EUn u (EVar x)) (EVar y), []).
Proof. exact grouping_unary_over_binary_proof. Qed.
Print Assumptions grouping_unary_over_binary.

Theorem grouping_is_no_chain : forall x t1 t2, t1 <> DEmpty ->
  parse_toks [TId x; TOp IS; TType t1; TOp IS; TType t2]
  = Some (EIs (EVar x) t1 false, [TOp IS; TType t2]).
Proof. exact grouping_is_no_chain_proof. Qed.
Print Assumptions grouping_is_no_chain.

Theorem grouping_spec_loosest : forall b x y z w,
  parse_toks [TId x; TOp (btok b); TId y; TOp SPECULATION; TId z; TOp (btok b); TId w]
  = Some (ESpec (EBin b (EVar x) (EVar y)) (EBin b (EVar z) (EVar w)), []).
Proof. exact grouping_spec_loosest_proof. Qed.
Print Assumptions grouping_spec_loosest.

Theorem grouping_spec_no_chain : forall x y z,
  parse_toks [TId x; TOp SPECULATION; TId y; TOp SPECULATION; TId z]
  = Some (ESpec (EVar x) (EVar y), [TOp SPECULATION; TId z]).
Proof. exact grouping_spec_no_chain_proof. Qed.
Print Assumptions grouping_spec_no_chain.
