(* C17 - the write family of the runtime library: property theorems only.
   Every theorem is about the REGENERATED `GenStdlib.stdlib_code w B` loaded at any code address B
   (`lib_at`, `lib_range`), for every word size w >= 2.  `runs s evs s'` (Halts.v): s halts iff s'
   does, and if s' does not halt the committed timeline goes from s to s' emitting exactly evs.
   `agree w m' m`: same size, equal outside r0..r2.  `frame_ok w m F args`: calling convention. *)
From Coq Require Import ZArith List Bool Lia.
From HidV Require Import Machine Halts WordLemmas MemLemmas GenStdlib StepTactics StdlibBase
  StdlibStubs StdlibBool StdlibBytes DecimalSpec StdlibInt StdlibExamples.
Import ListNotations.
Open Scope Z_scope.

(* ---------- write(bool) ---------- *)
Theorem C17_write_bool : forall w code cmem B, 2 <= w -> lib_at w code B -> lib_range w B ->
  forall m F, frame_ok w m F 1 ->
  let b := Machine.lb m (F - w - 1) in
  let ra := Machine.lw w m (F - w) in
  exists m', Halts.runs (Machine.act w code cmem) (mk (B + off_write_bool) m)
                  (map EOut (if b =? 0 then str_false else str_true)) (mk ra m')
             /\ agree w m' m /\ wf_mem m'.
Proof. exact write_bool_spec. Qed.
Print Assumptions C17_write_bool.
Example C17_write_bool_sat : lib_at 2 (lib_code 2) 0 /\ lib_range 2 0 /\ frame_ok 2 ex_bool 40 1.
Proof. exact (conj (lib_code_at 2) (conj lib_range_2 ex_bool_ok)). Qed.

(* ---------- write(byte[]) from the state section: exactly `length` bytes ---------- *)
Theorem C17_write_state_byte_array : forall w code cmem B, 2 <= w -> lib_at w code B -> lib_range w B ->
  forall m F, frame_ok w m F (2 * w) ->
  let p := Machine.lw w m (F - 3 * w) in
  let len := Machine.sgn w (Machine.lw w m (F - 2 * w)) in
  let ra := Machine.lw w m (F - w) in
  (0 < len -> p + len <= msize m /\ p + len <= Machine.W w /\ (p + len <= 2 * w \/ 5 * w <= p)) ->
  exists m', Halts.runs (Machine.act w code cmem) (mk (B + off_write_state_byte_array) m)
                  (map EOut (bytes_from m p (Z.to_nat len))) (mk ra m')
             /\ agree w m' m /\ wf_mem m'.
Proof. exact write_state_byte_array_spec. Qed.
Print Assumptions C17_write_state_byte_array.
Example C17_write_state_byte_array_sat : frame_ok 2 ex_arr 40 (2 * 2) /\
  let p := Machine.lw 2 ex_arr (40 - 3 * 2) in let len := Machine.sgn 2 (Machine.lw 2 ex_arr (40 - 2 * 2)) in
  0 < len /\ p + len <= msize ex_arr /\ p + len <= Machine.W 2 /\ (p + len <= 2 * 2 \/ 5 * 2 <= p).
Proof. exact ex_state_arr_ok. Qed.

(* ---------- write(const byte[]) ---------- *)
Theorem C17_write_const_byte_array : forall w code cmem B, 2 <= w -> lib_at w code B -> lib_range w B ->
  forall m F, frame_ok w m F (2 * w) -> wf_mem cmem ->
  let p := Machine.lw w m (F - 3 * w) in
  let len := Machine.sgn w (Machine.lw w m (F - 2 * w)) in
  let ra := Machine.lw w m (F - w) in
  (0 < len -> p + len <= msize cmem /\ p + len <= Machine.W w) ->
  exists m', Halts.runs (Machine.act w code cmem) (mk (B + off_write_const_byte_array) m)
                  (map EOut (bytes_from cmem p (Z.to_nat len))) (mk ra m')
             /\ agree w m' m /\ wf_mem m'.
Proof. exact write_const_byte_array_spec. Qed.
Print Assumptions C17_write_const_byte_array.
Example C17_write_const_byte_array_sat : frame_ok 2 ex_arr_c 40 (2 * 2) /\ wf_mem (zmem 16) /\
  let p := Machine.lw 2 ex_arr_c (40 - 3 * 2) in let len := Machine.sgn 2 (Machine.lw 2 ex_arr_c (40 - 2 * 2)) in
  0 < len /\ p + len <= msize (zmem 16) /\ p + len <= Machine.W 2.
Proof. exact ex_const_arr_ok. Qed.

(* ---------- write(string) ---------- *)
Theorem C17_write_string : forall w code cmem B, 2 <= w -> lib_at w code B -> lib_range w B ->
  forall m F, frame_ok w m F w -> wf_mem cmem ->
  let sp := Machine.lw w m (F - 2 * w) in
  let len := Machine.sgn w (Machine.lw w cmem sp) in
  let ra := Machine.lw w m (F - w) in
  sp + w <= msize cmem ->
  (0 < len -> sp + w + len <= msize cmem /\ sp + w + len <= Machine.W w) ->
  exists m', Halts.runs (Machine.act w code cmem) (mk (B + off_write_string) m)
                  (map EOut (bytes_from cmem (sp + w) (Z.to_nat len))) (mk ra m')
             /\ agree w m' m /\ wf_mem m'.
Proof. exact write_string_spec. Qed.
Print Assumptions C17_write_string.
Example C17_write_string_sat : exists m',
  Halts.runs (Machine.act 2 (lib_code 2) ex_cmem) (mk off_write_string ex_str) (map EOut [104; 105; 33]) (mk 7 m').
Proof. exact write_string_instance. Qed.

(* ---------- write(int): decimal, most negative value included ---------- *)
Theorem C17_write_int : forall w code cmem B, 2 <= w -> lib_at w code B -> lib_range w B ->
  forall m F, frame_ok w m F w ->
  let sv := Machine.sgn w (Machine.lw w m (F - 2 * w)) in
  let ra := Machine.lw w m (F - w) in
  write_int_room w F sv ->
  exists m', Halts.runs (Machine.act w code cmem) (mk (B + off_write_int) m) (map EOut (decimal sv)) (mk ra m')
    /\ agree_except w (write_int_lo w F sv) (F - w) m' m /\ wf_mem m'
    /\ bytes_from m' (write_int_lo w F sv) (length (udec (Z.abs sv))) = udec (Z.abs sv).
Proof. exact write_int_spec. Qed.
Print Assumptions C17_write_int.
Example C17_write_int_sat : exists m',
  Halts.runs (Machine.act 2 (lib_code 2) (zmem 0)) (mk off_write_int (ex_int 12345)) (map EOut [49; 50; 51; 52; 53]) (mk 7 m').
Proof. exact write_int_instance. Qed.
Example C17_write_int_min_sat : exists m',
  Halts.runs (Machine.act 2 (lib_code 2) (zmem 0)) (mk off_write_int (ex_int 32768)) (map EOut [45; 51; 50; 55; 54; 56]) (mk 7 m').
Proof. exact write_int_min_instance. Qed.

(* the frame clause in footprint form *)
Theorem C17_write_int_frame : forall w lo m' m sv F,
  lo = write_int_lo w F sv -> agree_except w lo (F - w) m' m ->
  msize m' = msize m /\
  forall x, 0 <= x -> (x < reg_r0 w \/ stack_start w <= x) -> ~ write_int_footprint w F sv x -> getb m' x = getb m x.
Proof. exact write_int_frame. Qed.
Print Assumptions C17_write_int_frame.

(* the specification `decimal` means what it says *)
Theorem C17_decimal_sound : forall n, 0 <= n ->
  dval (udec n) = n /\ Forall (fun d => 48 <= d <= 57) (udec n) /\ (0 < n -> hd 0 (udec n) <> 48).
Proof. intros n H. exact (conj (udec_value n H) (conj (udec_digits n H) (udec_no_leading_zero n))). Qed.
Print Assumptions C17_decimal_sound.
Theorem C17_decimal_sign : forall v, (0 <= v -> decimal v = udec v) /\ (v < 0 -> decimal v = 45 :: udec (- v)) /\ decimal 0 = [48].
Proof. intros v. exact (conj (decimal_nonneg v) (conj (decimal_neg v) decimal_zero)). Qed.
Print Assumptions C17_decimal_sign.

(* REFUTATION of "does not disturb the caller's variables" for write(int) (finding F3): for some
   representable value the routine stores a digit strictly below the callee frame [F-2w, F). *)
Theorem C17_write_int_writes_below_frame_refuted : forall w code cmem B, 2 <= w -> lib_at w code B -> lib_range w B ->
  exists sv, - (Machine.W w / 2) <= sv < Machine.W w / 2 /\
  forall m F, frame_ok w m F w -> Machine.sgn w (Machine.lw w m (F - 2 * w)) = sv -> write_int_room w F sv ->
  exists m' x, Halts.runs (Machine.act w code cmem) (mk (B + off_write_int) m) (map EOut (decimal sv)) (mk (Machine.lw w m (F - w)) m') /\
    0 <= x < F - 2 * w /\ write_int_footprint w F sv x /\ 48 <= getb m' x <= 57.
Proof. exact write_int_writes_below_frame. Qed.
Print Assumptions C17_write_int_writes_below_frame_refuted.

(* ---------- inlined members: write(byte), the newline of writeln ---------- *)
Theorem C17_yield : forall w code cmem p m a x, code p = Some (IYield a) -> Machine.val w cmem (mk p m) a = Some x ->
  Halts.runs (Machine.act w code cmem) (mk p m) [EOut (x mod 256)] (mk (p + 1) m).
Proof. exact yield_spec. Qed.
Print Assumptions C17_yield.
Theorem C17_newline : forall w code cmem p m, 1 <= w -> code p = Some (IYield (Imm 10)) ->
  Halts.runs (Machine.act w code cmem) (mk p m) [EOut 10] (mk (p + 1) m).
Proof. exact newline_spec. Qed.
Print Assumptions C17_newline.

(* ---------- absorbing end states (feed C03 / C05) ---------- *)
Theorem C17_all_is_win_absorbing : forall w code cmem B, 2 <= w -> lib_at w code B -> lib_range w B ->
  forall m, let s := mk (B + off_all_is_win) m in let t := mk (B + off_tnt) m in
  ~ Halts.Halts (Machine.act w code cmem) s /\
  Halts.runs (Machine.act w code cmem) s [EFlag 0] t /\
  Halts.cplus (Machine.act w code cmem) t t /\
  forall n, Halts.csteps (Machine.act w code cmem) s ([EFlag 0] ++ repeat (ESleep 32639) n) t.
Proof. exact all_is_win_absorbing. Qed.
Print Assumptions C17_all_is_win_absorbing.
Theorem C17_all_is_broken_absorbing : forall w code cmem B, 2 <= w -> lib_at w code B -> lib_range w B ->
  forall m, absorbed w code cmem B (mk (B + off_all_is_broken) m) [EFlag 1].
Proof. exact all_is_broken_absorbing. Qed.
Print Assumptions C17_all_is_broken_absorbing.
Theorem C17_error_stubs_absorbing : forall w code cmem B, 2 <= w -> lib_at w code B -> lib_range w B ->
  forall m, absorbed w code cmem B (mk (B + off_stack_overflow) m) [EFlag 2; EFlag 1] /\
            absorbed w code cmem B (mk (B + off_division_by_zero) m) [EFlag 3; EFlag 1] /\
            absorbed w code cmem B (mk (B + off_out_of_bounds) m) [EFlag 4; EFlag 1] /\
            absorbed w code cmem B (mk (B + off_nonlocal_preempt) m) [EFlag 5; EFlag 1].
Proof.
  intros w code cmem B Hw CA BR m.
  exact (conj (stack_overflow_absorbing w code cmem B Hw CA BR m)
        (conj (division_by_zero_absorbing w code cmem B Hw CA BR m)
        (conj (out_of_bounds_absorbing w code cmem B Hw CA BR m)
              (nonlocal_preempt_absorbing w code cmem B Hw CA BR m)))).
Qed.
Print Assumptions C17_error_stubs_absorbing.
