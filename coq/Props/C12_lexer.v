(* Props/C12_lexer.v -- property C12 "lexing is exact and independent of layout".
   ONLY restatements (`exact lemma`) and `Print Assumptions`; proofs are in HiD/LexerProofs.v,
   the model in HiD/Lexer.v, the regenerated tables in Gen/GenLexer.v.
   Every theorem is universally quantified over the three non-ASCII oracles. *)
From Coq Require Import ZArith List Bool String.
From HidV Require Import GenLexer Lexer LexerProofs.
Import ListNotations.
Local Open Scope Z_scope.

(* ---- (T) ties to the source text: any edit of these items changes Gen/GenLexer.v ---- *)
Theorem C12_enum_tokens_documented : enum_tokens = documented_tokens.
Proof. exact enum_tokens_documented. Qed.
Theorem C12_regex_texts_pinned : regex_texts = pinned_regex_texts.
Proof. exact regex_texts_pinned. Qed.
Theorem C12_reader_order_pinned : reader_order = pinned_reader_order.
Proof. exact reader_order_pinned. Qed.
Theorem C12_int_reader_cases_pinned : int_reader_cases = pinned_int_reader_cases.
Proof. exact int_reader_cases_pinned. Qed.
Theorem C12_int_reader_guards_pinned : int_reader_guards = pinned_int_reader_guards.
Proof. exact int_reader_guards_pinned. Qed.
Theorem C12_chr_excepts_pinned : chr_excepts = pinned_chr_excepts.
Proof. exact chr_excepts_pinned. Qed.
Theorem C12_flavors_pinned : flavors = pinned_flavors.
Proof. exact flavors_pinned. Qed.
Theorem C12_reader_uses_pinned : reader_uses = pinned_reader_uses.
Proof. exact reader_uses_pinned. Qed.
Theorem C12_escape_codes_standard : escape_codes = standard_escapes.
Proof. exact escape_codes_standard. Qed.

(* ---- (a) integer literals ---- *)
Theorem C12_int_literals : forall uni_digit b ds seps,
  ds <> [] -> Forall (valid_digit uni_digit b) ds -> (b = Dec -> len ds <= int_max_str_digits) ->
  lex_int uni_digit (render_int b ds seps) = Some (int_value uni_digit b ds).
Proof. exact lex_int_render. Qed.

Theorem C12_int_literals_in_context : forall uni_digit b d ds seps k,
  Forall (valid_digit uni_digit b) (d :: ds) -> stops uni_digit b k ->
  (b = Dec -> not_letter k /\ len (d :: ds) <= int_max_str_digits) ->
  read_int uni_digit (render_int b (d :: ds) seps ++ k)
  = RTok (TInt (int_value uni_digit b (d :: ds))) k.
Proof. exact read_int_render. Qed.

(* beyond the limit (decimal only): a LexerError at the end of the literal, never a token *)
Theorem C12_int_literals_too_large : forall uni_digit d ds seps k,
  Forall (valid_digit uni_digit Dec) (d :: ds) -> stops uni_digit Dec k -> not_letter k ->
  int_max_str_digits < len (d :: ds) ->
  read_int uni_digit (render_int Dec (d :: ds) seps ++ k) = RErr EIntTooLarge k.
Proof. exact read_int_too_large. Qed.

Theorem C12_int_value_positional : forall uni_digit b ds d,
  int_value uni_digit b [] = 0 /\
  int_value uni_digit b (ds ++ [d]) = int_value uni_digit b ds * radix b + dval uni_digit b d.
Proof. intros. split; [exact (int_value_nil uni_digit b)|exact (int_value_snoc uni_digit b ds d)]. Qed.

Example C12_int_literals_sat :
  lex_int (fun _ => None) (render_int Hex [49; 70; 97] [true; false]) = Some 506    (* 0x1_Fa *)
  /\ lex_int (fun _ => None) (render_int Dec [49; 48; 48; 48] [true]) = Some 1000   (* 1_000 *)
  /\ lex_int (fun _ => None) (render_int Oct [55; 48] []) = Some 56                 (* 0o70 *)
  /\ lex_int (fun _ => None) (render_int Bin [49; 49] [true]) = Some 3.             (* 0b1_1 *)
Proof. vm_compute. repeat split; reflexivity. Qed.

(* ---- (b) escapes, UTF-8, string and character literals ---- *)
Theorem C12_simple_escapes : forall uni_digit c v k, In (c, v) escape_codes ->
  read_escape uni_digit (c :: k) = EOk [v] k.
Proof. exact simple_escape_all. Qed.

Theorem C12_byte_escapes : forall uni_digit b u1 u2 k, 0 <= b < 256 ->
  read_escape uni_digit (120 :: hexdigit u1 (b / 16) :: hexdigit u2 (b mod 16) :: k) = EOk [b] k.
Proof. exact byte_escape_all. Qed.

Theorem C12_utf8_roundtrip : forall c, is_scalar c -> utf8_decode (utf8_encode c) = Some c.
Proof. exact utf8_roundtrip. Qed.

Theorem C12_utf8_bytes : forall c, 0 <= c <= 1114111 ->
  Forall (fun b => 0 <= b < 256) (utf8_encode c) /\
  len (utf8_encode c) = (if c <? 128 then 1 else if c <? 2048 then 2 else if c <? 65536 then 3 else 4).
Proof. exact utf8_encode_bytes. Qed.

Theorem C12_unicode_escapes : forall uni_digit d ds k,
  Forall (hex_valid uni_digit) (d :: ds) ->
  let cp := int_value uni_digit Hex (d :: ds) in
  cp < 1114112 -> is_surrogate cp = false ->
  read_escape uni_digit (117 :: 123 :: d :: ds ++ 125 :: k) = EOk (utf8_encode cp) k.
Proof. exact unicode_escape_value. Qed.

Theorem C12_unicode_escapes_too_large : forall uni_digit d ds k,
  Forall (hex_valid uni_digit) (d :: ds) ->
  let cp := int_value uni_digit Hex (d :: ds) in
  1114112 <= cp ->
  read_escape uni_digit (117 :: 123 :: d :: ds ++ 125 :: k) = EErr (EBadCodepoint cp) k.
Proof. exact unicode_escape_too_large. Qed.

Theorem C12_surrogates_rejected : forall cp r, is_surrogate cp = true ->
  encode_escaped cp r = EErr (ESurrogate cp) r /\ encode_raw cp r = ECrash CEncodeRaw.
Proof. exact surrogate_rejected. Qed.

Theorem C12_string_literals : forall uni_digit items k, Forall (item_ok uni_digit) items ->
  read_string uni_digit (render_string items ++ k) = RTok (TString (items_bytes uni_digit items)) k.
Proof. exact read_string_render. Qed.

Theorem C12_string_hex_roundtrip : forall uni_digit bs, Forall (fun b => 0 <= b < 256) bs ->
  lex_string uni_digit (render_string_hex bs) = Some bs.
Proof. exact lex_string_hex_roundtrip. Qed.

Theorem C12_string_raw_scalars : forall uni_digit cs,
  Forall (fun c => is_scalar c /\ c <> 34 /\ c <> 92) cs ->
  lex_string uni_digit (render_string (map SRaw cs)) = Some (List.concat (map utf8_encode cs)).
Proof. exact lex_string_raw_scalars. Qed.

Theorem C12_char_literals : forall uni_digit it b k,
  item_ok uni_digit it -> item_bytes uni_digit it = [b] -> it <> SRaw 39 ->
  read_char uni_digit (39 :: render_item it ++ 39 :: k) = RTok (TChar b) k.
Proof. exact read_char_render. Qed.

Example C12_string_literals_sat :
  lex_string (fun _ => None) (render_string [SRaw 72; SSimple 110; SHex false true 255; SUni [49; 70; 52; 65; 57]])
  = Some [72; 10; 255; 240; 159; 146; 169].                (* "H\n\xfF\u{1F4A9}" *)
Proof. vm_compute. reflexivity. Qed.

(* ---- (c) symbols: longest match ---- *)
Theorem C12_symbol_longest_match : forall cur s t,
  find_symbol symbol_tokens cur = Some (s, t) ->
  In (s, t) symbol_tokens /\ is_prefix s cur = true /\
  forall s' t', In (s', t') symbol_tokens -> is_prefix s' cur = true ->
                (List.length s' <= List.length s)%nat.
Proof. exact symbol_longest_match. Qed.

Theorem C12_symbol_none : forall cur,
  find_symbol symbol_tokens cur = None ->
  forall s t, In (s, t) symbol_tokens -> is_prefix s cur = false.
Proof. exact symbol_none. Qed.

Theorem C12_symbol_exact : forall s t k,
  In (s, t) symbol_tokens ->
  (forall s' t', In (s', t') symbol_tokens -> is_prefix s' (s ++ k) = true ->
                 (List.length s' <= List.length s)%nat) ->
  read_symbol (s ++ k) = RTok (TEnum t) k.
Proof. exact read_symbol_exact. Qed.

Theorem C12_symbol_table : forall e,
  In e symbol_tokens <-> In e enum_tokens /\ is_ident_ascii (fst e) = false.
Proof. exact symbol_tokens_spec. Qed.

Example C12_symbol_sat :      (* "<=x" reads LE, not LT *)
  read_symbol [60; 61; 120] = RTok (TEnum ("OpToken", "LE")%string) [120].
Proof. vm_compute. reflexivity. Qed.

(* ---- (d) keywords / flavoured identifiers ---- *)
Theorem C12_enum_partition : forall e, In e enum_tokens ->
  (In e keyword_tokens /\ ~ In e symbol_tokens) \/ (In e symbol_tokens /\ ~ In e keyword_tokens).
Proof. exact enum_partition. Qed.

Theorem C12_classify_plain : forall uni_word w k, ident_word uni_word w -> word_end uni_word k ->
  read_ident_kw uni_word (w ++ k) =
  match lookup w keyword_tokens with
  | Some t => RTok (TEnum t) k
  | None => RTok (TIdent FNone w) k
  end.
Proof. exact classify_plain. Qed.

Theorem C12_classify_flavoured : forall uni_word f w k,
  f <> FNone -> ident_word uni_word w -> word_end uni_word k ->
  read_ident_kw uni_word (sigil f ++ w ++ k) =
  match lookup w keyword_tokens with
  | Some _ => RErr (EBadFlavorIdent f) k
  | None => RTok (TIdent f w) k
  end.
Proof. exact classify_flavoured. Qed.

Theorem C12_classify_exclusive : forall uni_word w k, ident_word uni_word w -> word_end uni_word k ->
  (exists t, In (w, t) enum_tokens /\ read_ident_kw uni_word (w ++ k) = RTok (TEnum t) k /\
             forall f, f <> FNone ->
                       read_ident_kw uni_word (sigil f ++ w ++ k) = RErr (EBadFlavorIdent f) k)
  \/
  ((forall t, ~ In (w, t) keyword_tokens) /\
   forall f, read_ident_kw uni_word (sigil f ++ w ++ k) = RTok (TIdent f w) k).
Proof. exact classify_exclusive. Qed.

Theorem C12_keyword_lookup : forall w t,
  lookup w keyword_tokens = Some t <-> In (w, t) keyword_tokens.
Proof. exact keyword_lookup_iff. Qed.

(* ---- (e) layout independence (all five token kinds, with spans) ---- *)
Theorem C12_token_reads : forall uni_space uni_word uni_digit t k,
  tok_ok uni_space uni_word uni_digit t -> follow_ok uni_word uni_digit t k = true ->
  reads uni_space uni_word uni_digit t k.
Proof. exact token_reads. Qed.

Theorem C12_layout_independence_lines : forall uni_space uni_word uni_digit l g tail,
  separable uni_space uni_word uni_digit l (final_text g tail) -> Forall (gap_ok uni_space) g ->
  lex_lines uni_space uni_word uni_digit (to_lines (render l (final_text g tail))) =
  (lexemes uni_digit l 0 0, ODone (last_pos l 0 0 (0, 0))).
Proof. exact layout_independence_lines. Qed.

Theorem C12_layout_independence : forall uni_space uni_word uni_digit l g tail,
  separable uni_space uni_word uni_digit l (final_text g tail) -> Forall (gap_ok uni_space) g ->
  Forall no_lf (to_lines (render l (final_text g tail))) ->
  lex_text uni_space uni_word uni_digit (flatten (render l (final_text g tail))) =
  (lexemes uni_digit l 0 0, ODone (last_pos l 0 0 (0, 0))).
Proof. exact layout_independence. Qed.

Theorem C12_layout_independence_tokens : forall uni_space uni_word uni_digit toks gaps g tail,
  List.length gaps = List.length toks ->
  separable uni_space uni_word uni_digit (combine gaps toks) (final_text g tail) ->
  Forall (gap_ok uni_space) g ->
  map fst (fst (lex_lines uni_space uni_word uni_digit
                  (to_lines (render (combine gaps toks) (final_text g tail))))) =
  map (denote uni_digit) toks.
Proof. exact layout_independence_tokens. Qed.

(* ---- spans, for every input; totality of the model ---- *)
Theorem C12_readers_consume : forall uni_word uni_digit cur t r,
  read_token uni_word uni_digit cur = RTok t r -> ssuffix r cur.
Proof. exact read_token_suffix. Qed.

Theorem C12_spans_exact : forall uni_space uni_word uni_digit lines, lines <> [] ->
  Forall (span_exact uni_word uni_digit lines) (fst (lex_lines uni_space uni_word uni_digit lines)).
Proof. exact lex_spans_exact. Qed.

Theorem C12_model_never_out_of_fuel : forall uni_space uni_word uni_digit lines,
  snd (lex_lines uni_space uni_word uni_digit lines) <> OFuel.
Proof. exact lex_lines_fuel. Qed.

Theorem C12_string_loop_never_out_of_fuel : forall uni_digit fuel cur acc,
  (List.length cur < fuel)%nat -> str_loop uni_digit fuel cur acc <> SFuel.
Proof. exact str_loop_fuel. Qed.

(* whitespace (or the end of the line) after a token is always enough for `separable` *)
Theorem C12_blank_separates : forall uni_space uni_word uni_digit t k,
  tok_ok uni_space uni_word uni_digit t ->
  match k with [] => True | c :: _ => ascii_space c = true end ->
  follow_ok uni_word uni_digit t k = true.
Proof. exact follow_ok_blank. Qed.

(* ---- error discipline: the two former leaks are LexerErrors with kind and position; the one
   leak that is left (lone surrogate in the source str) is reproduced by the faithful model ---- *)
Example C12_huge_codepoint_is_lexer_error :
  lex_text no_space no_word no_digit
    [34; 92; 117; 123; 56; 48; 48; 48; 48; 48; 48; 48; 125; 34]
  = ([], OErr (EBadCodepoint 2147483648) 0 13).
Proof. exact huge_codepoint_is_lexer_error. Qed.
Example C12_long_decimal_is_lexer_error :
  lex_text no_space no_word no_digit (repeat 49 (Z.to_nat 4301)) = ([], OErr EIntTooLarge 0 4301)
  /\ snd (lex_text no_space no_word no_digit (repeat 49 (Z.to_nat 4300))) = ODone (0, 4300).
Proof. exact long_decimal_is_lexer_error. Qed.
Example C12_leak_raw_surrogate :
  snd (lex_text no_space no_word no_digit [34; 55296; 34]) = OCrash CEncodeRaw.
Proof. exact leak_raw_surrogate_witness. Qed.

(* the hypotheses of (e) are satisfiable: the concrete text of LexerProofs.ex_laid *)
Example C12_layout_independence_sat :
  separable no_space no_word no_digit ex_laid ex_final /\
  lex_text no_space no_word no_digit (flatten (render ex_laid ex_final)) =
  (lexemes no_digit ex_laid 0 0, ODone (last_pos ex_laid 0 0 (0, 0))) /\
  map fst (lexemes no_digit ex_laid 0 0) =
  [ TEnum ("BlockToken", "IF"); TEnum ("BracToken", "LPAREN"); TIdent FYou [120; 49];
    TEnum ("OpToken", "LE"); TInt 31; TEnum ("BracToken", "RPAREN");
    TString [72; 10; 255; 240; 159; 146; 169]; TEnum ("OpToken", "DIV"); TChar 0; TInt 42 ]%string.
Proof. split; [exact ex_separable|split; [exact ex_lexes|vm_compute; reflexivity]]. Qed.

Print Assumptions C12_enum_tokens_documented.
Print Assumptions C12_regex_texts_pinned.
Print Assumptions C12_reader_order_pinned.
Print Assumptions C12_int_reader_cases_pinned.
Print Assumptions C12_int_reader_guards_pinned.
Print Assumptions C12_chr_excepts_pinned.
Print Assumptions C12_flavors_pinned.
Print Assumptions C12_reader_uses_pinned.
Print Assumptions C12_escape_codes_standard.
Print Assumptions C12_int_literals.
Print Assumptions C12_int_literals_in_context.
Print Assumptions C12_int_literals_too_large.
Print Assumptions C12_int_value_positional.
Print Assumptions C12_simple_escapes.
Print Assumptions C12_byte_escapes.
Print Assumptions C12_utf8_roundtrip.
Print Assumptions C12_utf8_bytes.
Print Assumptions C12_unicode_escapes.
Print Assumptions C12_unicode_escapes_too_large.
Print Assumptions C12_surrogates_rejected.
Print Assumptions C12_string_literals.
Print Assumptions C12_string_hex_roundtrip.
Print Assumptions C12_string_raw_scalars.
Print Assumptions C12_char_literals.
Print Assumptions C12_symbol_longest_match.
Print Assumptions C12_symbol_none.
Print Assumptions C12_symbol_exact.
Print Assumptions C12_symbol_table.
Print Assumptions C12_enum_partition.
Print Assumptions C12_classify_plain.
Print Assumptions C12_classify_flavoured.
Print Assumptions C12_classify_exclusive.
Print Assumptions C12_keyword_lookup.
Print Assumptions C12_token_reads.
Print Assumptions C12_layout_independence_lines.
Print Assumptions C12_layout_independence.
Print Assumptions C12_layout_independence_tokens.
Print Assumptions C12_readers_consume.
Print Assumptions C12_spans_exact.
Print Assumptions C12_model_never_out_of_fuel.
Print Assumptions C12_string_loop_never_out_of_fuel.
Print Assumptions C12_blank_separates.
Print Assumptions C12_layout_independence_sat.
Print Assumptions C12_huge_codepoint_is_lexer_error.
Print Assumptions C12_leak_raw_surrogate.
Print Assumptions C12_long_decimal_is_lexer_error.
