(* C02: property theorems (machine-level part).  Each name below is an alias of a theorem restated in full
   in Props/Idioms_props.v (proved in Sphinx/Idioms.v, TimeTravel.v, Guards.v for arbitrary surrounding code,
   every word size w >= 2, all operand values); Print Assumptions is re-run here for each.
   FULL statement (not proved): for all programs/inputs/histories the compiled program's committed trace equals SemTT's.  C02_partial = the idiom theorems: which block of try/undo runs and from which memory; when a preempt runs (static and virtual defeat); what ?? leaves in the register and when its left operand's effects are committed; where defeat calls go; stop: first attempt with defeat = halt, re-entry with defeat = handler, handler entry restores fp/ap AND resets the defeat word, after which a later try/undo behaves normally. *)
From Coq Require Import ZArith List Bool.
From HidV Require Import Machine Halts VM Idioms_props.
Definition C02_undo_idiom := @P_undo_idiom.
Print Assumptions C02_undo_idiom.
Definition C02_undo_commit := @P_undo_commit.
Print Assumptions C02_undo_commit.
Definition C02_preempt_idiom_static := @P_preempt_idiom_static.
Print Assumptions C02_preempt_idiom_static.
Definition C02_preempt_idiom_virtual := @P_preempt_idiom_virtual.
Print Assumptions C02_preempt_idiom_virtual.
Definition C02_speculation_idiom := @P_speculation_idiom.
Print Assumptions C02_speculation_idiom.
Definition C02_speculation_value := @P_speculation_value.
Print Assumptions C02_speculation_value.
Definition C02_speculation_left_defeated := @P_speculation_left_defeated.
Print Assumptions C02_speculation_left_defeated.
Definition C02_defeat_call_static := @P_defeat_call_static.
Print Assumptions C02_defeat_call_static.
Definition C02_defeat_call_virtual := @P_defeat_call_virtual.
Print Assumptions C02_defeat_call_virtual.
Definition C02_defeat_call_static_cond := @P_defeat_call_static_cond.
Print Assumptions C02_defeat_call_static_cond.
Definition C02_defeat_call_virtual_cond := @P_defeat_call_virtual_cond.
Print Assumptions C02_defeat_call_virtual_cond.
Definition C02_stop_idiom := @P_stop_idiom.
Print Assumptions C02_stop_idiom.
Definition C02_stop_prologue := @P_stop_prologue.
Print Assumptions C02_stop_prologue.
Definition C02_stop_handler_entry := @P_stop_handler_entry.
Print Assumptions C02_stop_handler_entry.
Definition C02_stop_handler_entry_resets_defeat := @P_stop_handler_entry_resets_defeat.
Print Assumptions C02_stop_handler_entry_resets_defeat.
Definition C02_stop_fired_then_undo_behaves := @P_stop_fired_then_undo_behaves.
Print Assumptions C02_stop_fired_then_undo_behaves.
Definition C02_undo_with_fresh_defeat := @P_undo_with_fresh_defeat.
Print Assumptions C02_undo_with_fresh_defeat.
Definition C02_stale_defeat_reenters_handler_without_reset := @P_stale_defeat_reenters_handler_without_reset.
Print Assumptions C02_stale_defeat_reenters_handler_without_reset.
Definition C02_return_protection_idiom := @P_return_protection_idiom.
Print Assumptions C02_return_protection_idiom.
